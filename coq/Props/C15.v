(* Props/C15.v -- property theorems only: Theorem / exact lemma / Check (pins the statement) / Print Assumptions.

   C15: vector arithmetic, reductions, norms and edits match their definitions under any history.

   Proved here, for all lengths, all values, all histories (about the Gallina model Model/Vector.v + VecOps.v,
   whose Qc and float instances are run against src/vector/*.rs on every check):
     vec_run_refines       every step of every edit history satisfies its pointwise list specification
                           (push/push_front/insert/pop/swap/resize/assign/clear/sort/find/set with the exact
                           panic conditions and classes; sort = ANY sorted permutation: the contract of the
                           external Vec::sort_unstable_by is a hypothesis on a Section variable);
     elementwise_spec      + - unary- scalar forms abs entry by entry, the size guard of + and - exactly;
     sum_slice_spec, product_slice_spec, sum_spec   value on every in-range pair, the exact guard conditions;
     dot_symmetric, dot_bilinear (any ring);  linspace_ends (any field with `n as T` of characteristic 0);
     over R: linspace_monotone (strict), non-negativity, homogeneity and the triangle inequality of
     norm_1 / norm_2 (Cauchy-Schwarz) / norm_inf, and norm_chain (inf <= 2 <= 1).
   Statements differ from DESIGN Appendix E in two places, forced by the model: (1) vec_run_refines is stated as
   "every step satisfies a pointwise (nth/length) specification" instead of an equation between two folds,
   because the model vector already IS a list (absV would be the identity and the equation a tautology);
   (2) norm_inf returns res (it indexes v[0]: Panic Index on the empty vector), so its laws carry `= Ok m`.
     over IEEE binary64 (Flocq): dot_exact_float, sum_slice_exact_float, elementwise_exact_float, norm_1_exact_float -- on integer-valued data below 2^53 the float
     instance returns exactly the integer value of the definition ("exact on exactly-representable data").
   Not proved (DESIGN section 10): every statement "up to rounding" over f64, Minkowski for general p,
   powspace / norm_p (libm pow) -- tied by tolerance and searched on every run. *)
From Coq Require Import List Arith Reals Permutation Sorted QArith Qcanon ZArith.
From OV Require Import Base.Panic Base.Arith Model.Complex Model.Vector Model.VecOps
                       Proofs.Vector Proofs.VectorR Proofs.VectorQc Proofs.VectorCx Proofs.VectorRp Proofs.ParDotFloat Proofs.VectorFloat Proofs.VectorFloat2
                       Inst.QcInst Inst.FloatInst.
Import ListNotations.
Local Open Scope nat_scope.

(* [audit_separator]: the driver splits coqc's output at the lines "Closed under the global context" / "Axioms:";
   after a theorem over R the axiom list would otherwise run on into the next Check's output ("name : type" is
   read as an axiom name).  Printing the assumptions of a closed lemma right after each such theorem ends the
   block where the axiom list ends.  It is not a property theorem. *)
Lemma audit_separator : True.
Proof. exact I. Qed.

(* ---------------------------------------------------------------- histories *)
Theorem vec_run_refines : forall (A : Arith) (sorter : list A -> list A),
  sorter_ok sorter -> forall (ops : list (vop A)) (v : list A), run_spec sorter v ops.
Proof. intros A sorter Hs ops v. exact (vec_run_refines_lemma sorter Hs ops v). Qed.
Check vec_run_refines : forall (A : Arith) (sorter : list A -> list A),
  sorter_ok sorter -> forall (ops : list (vop A)) (v : list A), run_spec sorter v ops.
Print Assumptions vec_run_refines.

Theorem vec_step_refines : forall (A : Arith) (sorter : list A -> list A),
  sorter_ok sorter -> forall (v : list A) (o : vop A), step_spec v o (vstep sorter v o).
Proof. intros A sorter Hs v o. exact (step_refines sorter Hs v o). Qed.
Check vec_step_refines : forall (A : Arith) (sorter : list A -> list A),
  sorter_ok sorter -> forall (v : list A) (o : vop A), step_spec v o (vstep sorter v o).
Print Assumptions vec_step_refines.

(* the sorter with which the model is RUN in the correspondence check (insertion sort on the element order)
   meets the contract whenever the order is total -- so at Qc the history theorem holds outright *)
Theorem isort_meets_contract : forall (A : Arith), (forall x y : A, leb x y = true \/ leb y x = true) ->
  sorter_ok (isort (A := A) leb).
Proof. intros A Htot. exact (isort_sorter_ok Htot). Qed.
Check isort_meets_contract : forall (A : Arith), (forall x y : A, leb x y = true \/ leb y x = true) ->
  sorter_ok (isort (A := A) leb).
Print Assumptions isort_meets_contract.

Theorem vec_run_refines_Qc : forall (ops : list (vop AQ)) (v : list AQ), run_spec (isort (A := AQ) leb) v ops.
Proof. intros ops v. exact (vec_run_refines_Qc_lemma ops v). Qed.
Check vec_run_refines_Qc : forall (ops : list (vop AQ)) (v : list AQ), run_spec (isort (A := AQ) leb) v ops.
Print Assumptions vec_run_refines_Qc.

(* non-vacuity: the sorter used to RUN the model (insertion sort on Qc's order) meets the contract on a concrete
   list, and a concrete history runs to the expected state through a panic (pop on empty is skipped) *)
Example vec_run_refines_nonvacuous :
  let l := [q 3 1; q (-1) 2; q 2 1; q (-1) 2] in
  Permutation (isort (A := AQ) leb l) l /\ Sorted (le_rel (A := AQ)) (isort (A := AQ) leb l) /\
  vrun_state (A := AQ) (isort (A := AQ) leb) [] [@VPop AQ; @VPush AQ (q 3 1); @VPushFront AQ (q 2 1); @VInsert AQ 1 (q 5 1); @VSort AQ; @VSwap AQ 0 2]
    = [q 5 1; q 3 1; q 2 1].
Proof.
  cbv zeta. split; [|split].
  - vm_compute isort.
    apply perm_trans with [q (-1) 2; q 3 1; q 2 1; q (-1) 2]; [|apply perm_swap].
    apply perm_skip.
    apply perm_trans with [q 3 1; q (-1) 2; q 2 1]; [|apply perm_skip; apply perm_swap].
    apply perm_trans with [q (-1) 2; q 3 1; q 2 1]; [|apply perm_swap].
    apply perm_skip. apply perm_swap.
  - vm_compute isort. repeat (constructor; try reflexivity).
  - vm_compute. reflexivity.
Qed.

(* ---------------------------------------------------------------- element-wise operators *)
Theorem elementwise_spec : forall (A : Arith) (u w : list A) (c : A),
  (length u = length w -> exists s d, vadd u w = Ok s /\ vsub u w = Ok d /\ length s = length u /\ length d = length u /\
      forall i, i < length u -> nth i s zero = add (nth i u zero) (nth i w zero) /\
                                nth i d zero = sub (nth i u zero) (nth i w zero)) /\
  (length u <> length w -> vadd u w = Panic Guard /\ vsub u w = Panic Guard) /\
  (length (vneg u) = length u /\ length (vscale u c) = length u /\ length (vscale_l c u) = length u /\
   length (vabs u) = length u /\ length (vadd_scalar u c) = length u /\ length (vsub_scalar u c) = length u) /\
  (forall i, i < length u ->
      nth i (vneg u) zero = neg (nth i u zero) /\ nth i (vscale u c) zero = mul (nth i u zero) c /\
      nth i (vscale_l c u) zero = mul c (nth i u zero) /\ nth i (vabs u) zero = abs (nth i u zero) /\
      nth i (vadd_scalar u c) zero = add (nth i u zero) c /\ nth i (vsub_scalar u c) zero = sub (nth i u zero) c).
Proof. intros A u w c. exact (elementwise_spec_lemma u w c). Qed.
Check elementwise_spec : forall (A : Arith) (u w : list A) (c : A),
  (length u = length w -> exists s d, vadd u w = Ok s /\ vsub u w = Ok d /\ length s = length u /\ length d = length u /\
      forall i, i < length u -> nth i s zero = add (nth i u zero) (nth i w zero) /\
                                nth i d zero = sub (nth i u zero) (nth i w zero)) /\
  (length u <> length w -> vadd u w = Panic Guard /\ vsub u w = Panic Guard) /\
  (length (vneg u) = length u /\ length (vscale u c) = length u /\ length (vscale_l c u) = length u /\
   length (vabs u) = length u /\ length (vadd_scalar u c) = length u /\ length (vsub_scalar u c) = length u) /\
  (forall i, i < length u ->
      nth i (vneg u) zero = neg (nth i u zero) /\ nth i (vscale u c) zero = mul (nth i u zero) c /\
      nth i (vscale_l c u) zero = mul c (nth i u zero) /\ nth i (vabs u) zero = abs (nth i u zero) /\
      nth i (vadd_scalar u c) zero = add (nth i u zero) c /\ nth i (vsub_scalar u c) zero = sub (nth i u zero) c).
Print Assumptions elementwise_spec.

Example elementwise_spec_nonvacuous :
  length [q 1 2; q 3 1] = length [q 2 1; q (-1) 3] /\
  vadd (A := AQ) [q 1 2; q 3 1] [q 2 1; q (-1) 3] = Ok [q 5 2; q 8 3] /\
  length [q 1 2; q 3 1] <> length [q 2 1] /\ vsub (A := AQ) [q 1 2; q 3 1] [q 2 1] = Panic Guard.
Proof. repeat split; try reflexivity. discriminate. Qed.

Theorem vdiv_spec : forall (F : SArith) (FL : FieldLaws F) (v : list F) (s : F),
  (s <> zero -> vdiv v s = Ok (map (fun x => mul x (fl_inv F FL s)) v)) /\
  (s = zero -> v <> [] -> vdiv v s = Panic DivZero) /\
  (v = [] -> vdiv v s = Ok []).
Proof. intros F FL v s. exact (vdiv_spec_lemma FL v s). Qed.
Check vdiv_spec : forall (F : SArith) (FL : FieldLaws F) (v : list F) (s : F),
  (s <> zero -> vdiv v s = Ok (map (fun x => mul x (fl_inv F FL s)) v)) /\
  (s = zero -> v <> [] -> vdiv v s = Panic DivZero) /\
  (v = [] -> vdiv v s = Ok []).
Print Assumptions vdiv_spec.

(* ---------------------------------------------------------------- complex vectors *)
Theorem conj_real_spec : forall (F : SArith), RingLaws F -> forall (v : list (cplx F)),
  length (vconj v) = length v /\ length (vreal v) = length v /\
  (forall i d, i < length v -> nth i (vconj v) (conj d) = conj (nth i v d)) /\
  (forall i d, i < length v -> nth i (vreal v) (re d) = re (nth i v d)) /\
  vconj (vconj v) = v /\ vreal (vconj v) = vreal v.
Proof. intros F RL v. exact (conj_real_spec_lemma RL v). Qed.
Check conj_real_spec : forall (F : SArith), RingLaws F -> forall (v : list (cplx F)),
  length (vconj v) = length v /\ length (vreal v) = length v /\
  (forall i d, i < length v -> nth i (vconj v) (conj d) = conj (nth i v d)) /\
  (forall i d, i < length v -> nth i (vreal v) (re d) = re (nth i v d)) /\
  vconj (vconj v) = v /\ vreal (vconj v) = vreal v.
Print Assumptions conj_real_spec.

(* ---------------------------------------------------------------- range reductions *)
Theorem sum_slice_spec : forall (A : Arith) (v : list A) s e,
  (s <= e -> e < length v ->
     sum_slice v s e = Ok (sum_n (e - s + 1) (fun k => nth (s + k) v zero))) /\
  (e < s \/ length v <= e -> sum_slice v s e = Panic Guard).
Proof. intros A v s e. exact (sum_slice_spec_lemma v s e). Qed.
Check sum_slice_spec : forall (A : Arith) (v : list A) s e,
  (s <= e -> e < length v ->
     sum_slice v s e = Ok (sum_n (e - s + 1) (fun k => nth (s + k) v zero))) /\
  (e < s \/ length v <= e -> sum_slice v s e = Panic Guard).
Print Assumptions sum_slice_spec.

Example sum_slice_spec_nonvacuous :
  1 <= 2 /\ 2 < length [q 1 1; q 1 2; q 1 3; q 5 1] /\
  sum_slice (A := AQ) [q 1 1; q 1 2; q 1 3; q 5 1] 1 2 = Ok (q 5 6) /\
  sum_slice (A := AQ) [q 1 1; q 1 2; q 1 3; q 5 1] 2 4 = Panic Guard /\
  sum_slice (A := AQ) [q 1 1; q 1 2; q 1 3; q 5 1] 3 2 = Panic Guard.
Proof. repeat split; auto with arith. Qed.

Theorem product_slice_spec : forall (A : Arith) (v : list A) s e,
  (s <= e -> e < length v ->
     product_slice v s e = Ok (prod_from (nth s v zero) (e - s) (fun k => nth (s + 1 + k) v zero))) /\
  (e < s \/ length v <= e -> product_slice v s e = Panic Guard).
Proof. intros A v s e. exact (product_slice_spec_lemma v s e). Qed.
Check product_slice_spec : forall (A : Arith) (v : list A) s e,
  (s <= e -> e < length v ->
     product_slice v s e = Ok (prod_from (nth s v zero) (e - s) (fun k => nth (s + 1 + k) v zero))) /\
  (e < s \/ length v <= e -> product_slice v s e = Panic Guard).
Print Assumptions product_slice_spec.

Example product_slice_spec_nonvacuous :
  product_slice (A := AQ) [q 2 1; q 1 2; q 3 1; q 5 1] 1 3 = Ok (q 15 2).
Proof. reflexivity. Qed.

Theorem sum_spec : forall (A : Arith) (v : list A),
  (v <> [] -> vsum v = Ok (sum_n (length v) (fun k => nth k v zero))) /\ (v = [] -> vsum v = Panic Underflow).
Proof. intros A v. exact (vsum_spec_lemma v). Qed.
Check sum_spec : forall (A : Arith) (v : list A),
  (v <> [] -> vsum v = Ok (sum_n (length v) (fun k => nth k v zero))) /\ (v = [] -> vsum v = Panic Underflow).
Print Assumptions sum_spec.

(* ---------------------------------------------------------------- dot product over a ring *)
Theorem dot_symmetric : forall (A : Arith), RingLaws A -> forall (u w : list A), dot u w = dot w u.
Proof. intros A RL u w. exact (dot_sym_lemma RL u w). Qed.
Check dot_symmetric : forall (A : Arith), RingLaws A -> forall (u w : list A), dot u w = dot w u.
Print Assumptions dot_symmetric.

Theorem dot_bilinear : forall (A : Arith), RingLaws A -> forall (u u' w : list A) (c : A),
  length u = length u' -> length u = length w ->
  (exists s, vadd u u' = Ok s /\ dot s w = Ok (add (dot_raw u w) (dot_raw u' w))) /\
  (exists d, vsub u u' = Ok d /\ dot d w = Ok (sub (dot_raw u w) (dot_raw u' w))) /\
  dot (vscale u c) w = Ok (mul c (dot_raw u w)) /\
  dot (vneg u) w = Ok (neg (dot_raw u w)) /\
  (exists s, vadd u u' = Ok s /\ dot w s = Ok (add (dot_raw w u) (dot_raw w u'))) /\
  dot w (vscale u c) = Ok (mul c (dot_raw w u)).
Proof. intros A RL u u' w c H1 H2. exact (dot_bilinear_lemma RL u u' w c H1 H2). Qed.
Check dot_bilinear : forall (A : Arith), RingLaws A -> forall (u u' w : list A) (c : A),
  length u = length u' -> length u = length w ->
  (exists s, vadd u u' = Ok s /\ dot s w = Ok (add (dot_raw u w) (dot_raw u' w))) /\
  (exists d, vsub u u' = Ok d /\ dot d w = Ok (sub (dot_raw u w) (dot_raw u' w))) /\
  dot (vscale u c) w = Ok (mul c (dot_raw u w)) /\
  dot (vneg u) w = Ok (neg (dot_raw u w)) /\
  (exists s, vadd u u' = Ok s /\ dot w s = Ok (add (dot_raw w u) (dot_raw w u'))) /\
  dot w (vscale u c) = Ok (mul c (dot_raw w u)).
Print Assumptions dot_bilinear.

Lemma AQ_RingLaws15 : RingLaws AQ.
Proof. constructor. exact Qcrt. Qed.

Example dot_bilinear_nonvacuous :
  RingLaws AQ /\ length [q 1 2; q 3 1] = length [q 2 1; q (-1) 3] /\ length [q 1 2; q 3 1] = length [q 4 1; q 6 1] /\
  dot (A := AQ) [q 1 2; q 3 1] [q 4 1; q 6 1] = Ok (q 20 1).
Proof. split; [exact AQ_RingLaws15|]. repeat split. Qed.

(* ---------------------------------------------------------------- exactly-representable f64 data (IEEE binary64, Flocq)
   "match their definitions exactly on exactly-representable data": for integer-valued f64 vectors whose partial sums
   stay below 2^53 in absolute value no operation of dot / sum_slice rounds -- the float instance of the model returns
   exactly the integer value of the definition.  [ExactW x z]: x is finite and its real value is the integer z.
   (The primitive-float modules are not imported here so that Print Assumptions shows qualified axiom names.) *)
Theorem dot_exact_float : forall (v w : list AF) (zs ws : list Z),
  Forall2 ExactW v zs -> Forall2 ExactW w ws -> length zs = length ws -> (zadot zs ws < 2 ^ 53)%Z ->
  exists x, dot (A := AF) v w = Ok x /\ ExactW x (zdot zs ws).
Proof. intros v w zs ws Hv Hw Hl Hb. exact (dot_exact_float_lemma v w zs ws Hv Hw Hl Hb). Qed.
Check dot_exact_float : forall (v w : list AF) (zs ws : list Z),
  Forall2 ExactW v zs -> Forall2 ExactW w ws -> length zs = length ws -> (zadot zs ws < 2 ^ 53)%Z ->
  exists x, dot (A := AF) v w = Ok x /\ ExactW x (zdot zs ws).
Print Assumptions dot_exact_float.
Print Assumptions audit_separator.

Theorem sum_slice_exact_float : forall (v : list AF) (zs : list Z) s e (x : AF),
  Forall2 ExactW v zs -> (zasuml zs < 2 ^ 53)%Z -> sum_slice (A := AF) v s e = Ok x ->
  ExactW x (zsuml (slice zs s e)).
Proof. intros v zs s e x Hv Hb E. exact (sum_slice_exact_float_lemma v zs s e x Hv Hb E). Qed.
Check sum_slice_exact_float : forall (v : list AF) (zs : list Z) s e (x : AF),
  Forall2 ExactW v zs -> (zasuml zs < 2 ^ 53)%Z -> sum_slice (A := AF) v s e = Ok x ->
  ExactW x (zsuml (slice zs s e)).
Print Assumptions sum_slice_exact_float.
Print Assumptions audit_separator.

Theorem elementwise_exact_float : forall (u w : list AF) (zs ws : list Z) (c : AF) (k : Z),
  Forall2 ExactW u zs -> Forall2 ExactW w ws -> length zs = length ws -> ExactW c k ->
  (Forall (fun p => (Z.abs (fst p + snd p) < 2 ^ 53)%Z) (combine zs ws) ->
     exists s, vadd (A := AF) u w = Ok s /\ Forall2 ExactW s (map (fun p => (fst p + snd p)%Z) (combine zs ws))) /\
  (Forall (fun p => (Z.abs (fst p - snd p) < 2 ^ 53)%Z) (combine zs ws) ->
     exists d, vsub (A := AF) u w = Ok d /\ Forall2 ExactW d (map (fun p => (fst p - snd p)%Z) (combine zs ws))) /\
  (Forall (fun z => (Z.abs (z * k) < 2 ^ 53)%Z) zs -> Forall2 ExactW (vscale (A := AF) u c) (map (fun z => (z * k)%Z) zs)) /\
  Forall2 ExactW (vneg (A := AF) u) (map Z.opp zs) /\
  Forall2 ExactW (vabs (A := AF) u) (map Z.abs zs).
Proof. intros u w zs ws c k Hu Hw Hl Hc. exact (elementwise_exact_float_lemma u w zs ws c k Hu Hw Hl Hc). Qed.
Check elementwise_exact_float : forall (u w : list AF) (zs ws : list Z) (c : AF) (k : Z),
  Forall2 ExactW u zs -> Forall2 ExactW w ws -> length zs = length ws -> ExactW c k ->
  (Forall (fun p => (Z.abs (fst p + snd p) < 2 ^ 53)%Z) (combine zs ws) ->
     exists s, vadd (A := AF) u w = Ok s /\ Forall2 ExactW s (map (fun p => (fst p + snd p)%Z) (combine zs ws))) /\
  (Forall (fun p => (Z.abs (fst p - snd p) < 2 ^ 53)%Z) (combine zs ws) ->
     exists d, vsub (A := AF) u w = Ok d /\ Forall2 ExactW d (map (fun p => (fst p - snd p)%Z) (combine zs ws))) /\
  (Forall (fun z => (Z.abs (z * k) < 2 ^ 53)%Z) zs -> Forall2 ExactW (vscale (A := AF) u c) (map (fun z => (z * k)%Z) zs)) /\
  Forall2 ExactW (vneg (A := AF) u) (map Z.opp zs) /\
  Forall2 ExactW (vabs (A := AF) u) (map Z.abs zs).
Print Assumptions elementwise_exact_float.
Print Assumptions audit_separator.

Theorem norm_1_exact_float : forall (v : list AF) (zs : list Z),
  Forall2 ExactW v zs -> (zasuml zs < 2 ^ 53)%Z -> ExactW (norm_1 (A := AF) v) (zasuml zs).
Proof. intros v zs Hv Hb. exact (norm_1_exact_float_lemma v zs Hv Hb). Qed.
Check norm_1_exact_float : forall (v : list AF) (zs : list Z),
  Forall2 ExactW v zs -> (zasuml zs < 2 ^ 53)%Z -> ExactW (norm_1 (A := AF) v) (zasuml zs).
Print Assumptions norm_1_exact_float.
Print Assumptions audit_separator.

Example exact_float_nonvacuous :
  Forall2 ExactW ex15_v ex15_z /\ length ex15_z = length ex15_z /\ (zadot ex15_z ex15_z < 2 ^ 53)%Z /\
  (zasuml ex15_z < 2 ^ 53)%Z /\ is_ok (sum_slice (A := AF) ex15_v 1 3) = true /\ zsuml (slice ex15_z 1 3) = 3%Z.
Proof. split; [exact ex15_exact|]. repeat split; vm_compute; reflexivity. Qed.

(* ---------------------------------------------------------------- linspace *)
Theorem linspace_ends : forall (F : SArith), FieldLaws F -> OfNatLaws F -> forall (a b : F) n, 2 <= n ->
  exists l, linspace a b n = Ok l /\ length l = n /\ hd zero l = a /\ last l zero = b.
Proof. intros F FL ON a b n H. exact (linspace_ends_lemma FL ON a b n H). Qed.
Check linspace_ends : forall (F : SArith), FieldLaws F -> OfNatLaws F -> forall (a b : F) n, 2 <= n ->
  exists l, linspace a b n = Ok l /\ length l = n /\ hd zero l = a /\ last l zero = b.
Print Assumptions linspace_ends.

Theorem linspace_monotone : forall (a b : R) n, (a < b)%R -> 2 <= n ->
  exists l, linspace (F := SAR) a b n = Ok l /\ length l = n /\
            forall i j, i < j < n -> (nth i l 0 < nth j l 0)%R.
Proof. intros a b n Hab Hn. exact (linspace_monotone_lemma a b n Hab Hn). Qed.
Check linspace_monotone : forall (a b : R) n, (a < b)%R -> 2 <= n ->
  exists l, linspace (F := SAR) a b n = Ok l /\ length l = n /\
            forall i j, i < j < n -> (nth i l 0 < nth j l 0)%R.
Print Assumptions linspace_monotone.
Print Assumptions audit_separator.

(* power spacing over R (libm's pow as the real power function rpow): starts at a, ends at b, strictly monotone *)
Theorem powspace_spec : forall (a b p : R) n, 2 <= n -> (0 < p)%R ->
  exists l, powspace (F := SAR) rpow a b n p = Ok l /\ length l = n /\ hd 0%R l = a /\ last l 0%R = b /\
            ((a < b)%R -> forall i j, i < j < n -> (nth i l 0 < nth j l 0)%R).
Proof. intros a b p n Hn Hp. exact (powspace_spec_lemma a b p n Hn Hp). Qed.
Check powspace_spec : forall (a b p : R) n, 2 <= n -> (0 < p)%R ->
  exists l, powspace (F := SAR) rpow a b n p = Ok l /\ length l = n /\ hd 0%R l = a /\ last l 0%R = b /\
            ((a < b)%R -> forall i j, i < j < n -> (nth i l 0 < nth j l 0)%R).
Print Assumptions powspace_spec.
Print Assumptions audit_separator.

(* non-vacuity: the hypotheses hold at R (FieldLaws, OfNatLaws) and for concrete end points *)
Example linspace_nonvacuous :
  inhabited (FieldLaws SAR) /\ OfNatLaws SAR /\ (1 < 3)%R /\ 2 <= 5.
Proof.
  split; [exact (inhabits AR_FieldLaws)|]. split; [exact SAR_OfNatLaws|]. split; [|auto with arith].
  apply (Rplus_lt_reg_l (-1)%R). replace (-1 + 1)%R with 0%R by ring. replace (-1 + 3)%R with 2%R by ring. exact Rlt_0_2.
Qed.

(* ---------------------------------------------------------------- norm laws over R *)
Theorem norm_nonneg : forall (v : list R),
  (0 <= norm_1 (A := AR) v)%R /\ (0 <= norm_2 (F := SAR) Rabs v)%R /\
  (forall m, norm_inf (F := SAR) Rabs v = Ok m -> (0 <= m)%R).
Proof.
  intros v. exact (Logic.conj (norm1_nonneg_lemma v) (Logic.conj (norm2_nonneg_lemma v) (norm_inf_nonneg_lemma v))).
Qed.
Check norm_nonneg : forall (v : list R),
  (0 <= norm_1 (A := AR) v)%R /\ (0 <= norm_2 (F := SAR) Rabs v)%R /\
  (forall m, norm_inf (F := SAR) Rabs v = Ok m -> (0 <= m)%R).
Print Assumptions norm_nonneg.
Print Assumptions audit_separator.

Theorem norm_homogeneous : forall (v : list R) (c : R),
  norm_1 (A := AR) (vscale (A := AR) v c) = (Rabs c * norm_1 (A := AR) v)%R /\
  norm_2 (F := SAR) Rabs (vscale (A := AR) v c) = (Rabs c * norm_2 (F := SAR) Rabs v)%R /\
  (forall m, norm_inf (F := SAR) Rabs v = Ok m ->
             norm_inf (F := SAR) Rabs (vscale (A := AR) v c) = Ok (Rabs c * m)%R).
Proof.
  intros v c. exact (Logic.conj (norm1_homog_lemma v c) (Logic.conj (norm2_homog_lemma v c) (norm_inf_homog_lemma v c))).
Qed.
Check norm_homogeneous : forall (v : list R) (c : R),
  norm_1 (A := AR) (vscale (A := AR) v c) = (Rabs c * norm_1 (A := AR) v)%R /\
  norm_2 (F := SAR) Rabs (vscale (A := AR) v c) = (Rabs c * norm_2 (F := SAR) Rabs v)%R /\
  (forall m, norm_inf (F := SAR) Rabs v = Ok m ->
             norm_inf (F := SAR) Rabs (vscale (A := AR) v c) = Ok (Rabs c * m)%R).
Print Assumptions norm_homogeneous.
Print Assumptions audit_separator.

Theorem norm1_triangle : forall (u v s : list R), vadd (A := AR) u v = Ok s ->
  (norm_1 (A := AR) s <= norm_1 (A := AR) u + norm_1 (A := AR) v)%R.
Proof. intros u v s E. exact (norm1_triangle_lemma u v s E). Qed.
Check norm1_triangle : forall (u v s : list R), vadd (A := AR) u v = Ok s ->
  (norm_1 (A := AR) s <= norm_1 (A := AR) u + norm_1 (A := AR) v)%R.
Print Assumptions norm1_triangle.
Print Assumptions audit_separator.

Theorem norm2_triangle : forall (u v s : list R), vadd (A := AR) u v = Ok s ->
  (norm_2 (F := SAR) Rabs s <= norm_2 (F := SAR) Rabs u + norm_2 (F := SAR) Rabs v)%R.
Proof. intros u v s E. exact (norm2_triangle_lemma u v s E). Qed.
Check norm2_triangle : forall (u v s : list R), vadd (A := AR) u v = Ok s ->
  (norm_2 (F := SAR) Rabs s <= norm_2 (F := SAR) Rabs u + norm_2 (F := SAR) Rabs v)%R.
Print Assumptions norm2_triangle.
Print Assumptions audit_separator.

Theorem norm_inf_triangle : forall (u v s : list R) (a b : R), vadd (A := AR) u v = Ok s ->
  norm_inf (F := SAR) Rabs u = Ok a -> norm_inf (F := SAR) Rabs v = Ok b ->
  exists m, norm_inf (F := SAR) Rabs s = Ok m /\ (m <= a + b)%R.
Proof. intros u v s a b E Ea Eb. exact (norm_inf_triangle_lemma u v s a b E Ea Eb). Qed.
Check norm_inf_triangle : forall (u v s : list R) (a b : R), vadd (A := AR) u v = Ok s ->
  norm_inf (F := SAR) Rabs u = Ok a -> norm_inf (F := SAR) Rabs v = Ok b ->
  exists m, norm_inf (F := SAR) Rabs s = Ok m /\ (m <= a + b)%R.
Print Assumptions norm_inf_triangle.
Print Assumptions audit_separator.

Theorem norm_chain : forall (v : list R), v <> [] ->
  exists m, norm_inf (F := SAR) Rabs v = Ok m /\
            (m <= norm_2 (F := SAR) Rabs v)%R /\ (norm_2 (F := SAR) Rabs v <= norm_1 (A := AR) v)%R.
Proof. intros v H. exact (norm_chain_lemma v H). Qed.
Check norm_chain : forall (v : list R), v <> [] ->
  exists m, norm_inf (F := SAR) Rabs v = Ok m /\
            (m <= norm_2 (F := SAR) Rabs v)%R /\ (norm_2 (F := SAR) Rabs v <= norm_1 (A := AR) v)%R.
Print Assumptions norm_chain.
Print Assumptions audit_separator.

(* norm_p, with libm's pow on non-negative arguments taken as the real power function [rpow] (0^p = 0):
   non-negative, absolutely homogeneous for p > 0, equal to norm_1 at p = 1 and to norm_2 at p = 2 (so their
   triangle inequality and the chain are laws of norm_p at those exponents).  Minkowski for general p: not proved. *)
Theorem norm_p_laws : forall (v : list R) (c p : R),
  (forall m, norm_p (F := SAR) Rabs rpow v p = Ok m -> (0 <= m)%R) /\
  ((0 < p)%R -> exists m, norm_p (F := SAR) Rabs rpow v p = Ok m /\
                          norm_p (F := SAR) Rabs rpow (vscale (A := AR) v c) p = Ok (Rabs c * m)%R).
Proof.
  intros v c p. exact (Logic.conj (norm_p_nonneg_lemma v p) (norm_p_homog_lemma v c p)).
Qed.
Check norm_p_laws : forall (v : list R) (c p : R),
  (forall m, norm_p (F := SAR) Rabs rpow v p = Ok m -> (0 <= m)%R) /\
  ((0 < p)%R -> exists m, norm_p (F := SAR) Rabs rpow v p = Ok m /\
                          norm_p (F := SAR) Rabs rpow (vscale (A := AR) v c) p = Ok (Rabs c * m)%R).
Print Assumptions norm_p_laws.
Print Assumptions audit_separator.

Theorem norm_p_at_1_and_2 : forall (v : list R),
  norm_p (F := SAR) Rabs rpow v 1%R = Ok (norm_1 (A := AR) v) /\
  norm_p (F := SAR) Rabs rpow v 2%R = Ok (norm_2 (F := SAR) Rabs v).
Proof. intros v. exact (Logic.conj (norm_p_1_lemma v) (norm_p_2_lemma v)). Qed.
Check norm_p_at_1_and_2 : forall (v : list R),
  norm_p (F := SAR) Rabs rpow v 1%R = Ok (norm_1 (A := AR) v) /\
  norm_p (F := SAR) Rabs rpow v 2%R = Ok (norm_2 (F := SAR) Rabs v).
Print Assumptions norm_p_at_1_and_2.
Print Assumptions audit_separator.

(* non-vacuity of the triangle / chain hypotheses: a concrete sum of equal-length real vectors is defined and
   norm_inf of it is a value *)
Example norm_laws_nonvacuous :
  vadd (A := AR) [1; -2]%R [3; 4]%R = Ok [(1 + 3)%R; (-2 + 4)%R] /\
  [1; -2]%R <> [] /\ exists m, norm_inf (F := SAR) Rabs [1; -2]%R = Ok m.
Proof.
  split; [reflexivity|]. split; [discriminate|]. rewrite norm_inf_R. eexists; reflexivity.
Qed.

(* ---- tie to the source by proof (package r2c): the functions regenerated from /repo/src on this run by the Rust-subset ->
   Gallina translator (driver/rust2coq.py -> gen/Src*.v) are equal, for all arguments, to the hand-written model functions
   the theorems above are about (Proofs/SrcEq*.v).  A change of a loop bound, index, operator or statement order in the
   source breaks the corresponding src_<function> lemma and with it this obligation. *)
From OV Require Proofs.SrcEqVector.
Theorem model_is_source_C15_Vector : forall A : Arith, @SrcEqVector.model_is_source_Vector A.
Proof. intros A. exact SrcEqVector.model_is_source_Vector_lemma. Qed.
Check model_is_source_C15_Vector : forall A : Arith, @SrcEqVector.model_is_source_Vector A.
Print Assumptions model_is_source_C15_Vector.
From OV Require Proofs.SrcEqVec64.
Theorem model_is_source_C15_Vec64 : forall (F : SArith) fabs powf, @SrcEqVec64.model_is_source_Vec64 F fabs powf.
Proof. intros F fabs powf. exact (SrcEqVec64.model_is_source_Vec64_lemma (F:=F) fabs powf). Qed.
Check model_is_source_C15_Vec64 : forall (F : SArith) fabs powf, @SrcEqVec64.model_is_source_Vec64 F fabs powf.
Print Assumptions model_is_source_C15_Vec64.
(* ---- tie of the model to the source of this run (package r2c2): gen/SrcVectorOps.v is regenerated from
   src/vector/{mod,operations,functions}.rs (find, resize, Index, clear, swap, push, push_front, insert, pop, size, new, zeros,
   ones) by driver/rust2coq.py on every check run; Proofs/SrcEqVectorOps.v proves each equal to its model of Model/Vector.v. *)
From OV Require Proofs.SrcEqVectorOps.
Theorem model_is_source_C15_VectorOps : forall A : Arith, @SrcEqVectorOps.model_is_source_VectorOps A.
Proof. intros A. exact SrcEqVectorOps.model_is_source_VectorOps_lemma. Qed.
Check model_is_source_C15_VectorOps : forall A : Arith, @SrcEqVectorOps.model_is_source_VectorOps A.
Print Assumptions model_is_source_C15_VectorOps.
(* ---- tie of the model to the source of this run (package r2c2): gen/SrcWrapVector.v is regenerated on every check run from
   src/vector/{arithmetic,mod}.rs: the consuming forms of + and - (they delegate to the by-reference forms), empty, create, Clone;
   Proofs/SrcEqWrapVector.v proves each regenerated function equal to its hand-written model. *)
From OV Require Proofs.SrcEqWrapVector.
Theorem model_is_source_C15_WrapVector : forall A : Arith, @SrcEqWrapVector.model_is_source_WrapVector A.
Proof. intros A. exact SrcEqWrapVector.model_is_source_WrapVector_lemma. Qed.
Check model_is_source_C15_WrapVector : forall A : Arith, @SrcEqWrapVector.model_is_source_WrapVector A.
Print Assumptions model_is_source_C15_WrapVector.
(* ---- gen/SrcVecCmplx.v: src/vector/vec_cmplx.rs (conj, real, norm_inf of Vector<Complex<T>>) regenerated on every check
   run (+ Tridiagonal::<Complex<T>>::conj of src/tridiagonal.rs); Proofs/SrcEqVecCmplx.v proves conj / real equal to vconj / vreal of Model/Vector.v and norm_inf equal to the loop
   formulation Newton.norm_inf (NCplx F) that the Newton model calls. *)
From OV Require Proofs.SrcEqVecCmplx.
Theorem model_is_source_C15_VecCmplx : forall F : SArith, @SrcEqVecCmplx.model_is_source_VecCmplx F.
Proof. intros F. exact SrcEqVecCmplx.model_is_source_VecCmplx_lemma. Qed.
Check model_is_source_C15_VecCmplx : forall F : SArith, @SrcEqVecCmplx.model_is_source_VecCmplx F.
Print Assumptions model_is_source_C15_VecCmplx.
(* ======================================================================================================
   C15 (vectors), rounding half -- package round.  Append to Props/C15.v.
   The dot product "to rounding accuracy": backward and forward error of Model/Vector.v [dot]
   (a) in the STANDARD MODEL of floating-point arithmetic (Base/RoundModel.v: the same Gallina [dot] at the
       arithmetic ARm whose operations are the exact ones times (1+d), |d| <= u), for EVERY length n with n u < 1;
   (b) for the PRIMITIVE-FLOAT instance itself ([dot] at AF, IEEE binary64), through Flocq: whenever the computed
       result is finite and no product underflows.
   Unproved remainder: (a) assumes the standard model (discharged for round-to-nearest-even with unbounded exponent in
   Proofs/RoundFlx.v, and for binary64 on the no-underflow domain in Proofs/RoundDotFloat.v); (b) says nothing when a
   product falls into the subnormal range (the absolute-error term of gradual underflow is not analysed) or when the
   result overflows.
   ====================================================================================================== *)
From Coq Require Import Reals Floats Lra Lia.
From OV Require Import Base.RoundModel Proofs.RoundDot Proofs.RoundFlx Proofs.ComplexRound Proofs.RoundDotFloat Inst.FloatInst.

(* Higham (3.4): fl(x.y) = Sum_i x_i y_i (1 + th_i), |th_i| <= gam n = n u / (1 - n u) *)
Theorem dot_backward_error : forall (u : R), (0 <= u < 1)%R ->
  forall (fadd fsub fmul fdiv : R -> R -> R),
  (forall x y : R, exists d : R, (Rabs d <= u)%R /\ fadd x y = ((x + y) * (1 + d))%R) ->
  (forall x y : R, exists d : R, (Rabs d <= u)%R /\ fmul x y = (x * y * (1 + d))%R) ->
  (forall a b : R, fadd 0%R (fmul a b) = fmul a b) ->
  forall (x y : list R) (r : R),
  (INR (length x) * u < 1)%R -> dot (A := ARm fadd fsub fmul fdiv) x y = Ok r ->
  exists th : nat -> R,
    (forall k, (k < length x)%nat -> (Rabs (th k) <= gam u (length x))%R) /\
    r = Rsum (length x) (fun k => (nth k x 0 * nth k y 0 * (1 + th k))%R).
Proof. intros u Hu fadd fsub fmul fdiv Ha Hm H0 x y r. exact (dot_backward_error_lemma u Hu fadd fsub fmul fdiv Ha Hm H0 x y r). Qed.
Check dot_backward_error : forall (u : R), (0 <= u < 1)%R ->
  forall (fadd fsub fmul fdiv : R -> R -> R),
  (forall x y : R, exists d : R, (Rabs d <= u)%R /\ fadd x y = ((x + y) * (1 + d))%R) ->
  (forall x y : R, exists d : R, (Rabs d <= u)%R /\ fmul x y = (x * y * (1 + d))%R) ->
  (forall a b : R, fadd 0%R (fmul a b) = fmul a b) ->
  forall (x y : list R) (r : R),
  (INR (length x) * u < 1)%R -> dot (A := ARm fadd fsub fmul fdiv) x y = Ok r ->
  exists th : nat -> R,
    (forall k, (k < length x)%nat -> (Rabs (th k) <= gam u (length x))%R) /\
    r = Rsum (length x) (fun k => (nth k x 0 * nth k y 0 * (1 + th k))%R).
Print Assumptions dot_backward_error.
(* the hypotheses are met by an arithmetic that rounds every operation (53-bit round-to-nearest-even), and dot answers in it *)
Example dot_backward_error_nonvacuous :
  (0 <= ux < 1)%R /\
  (forall x y : R, exists d : R, (Rabs d <= ux)%R /\ xadd x y = ((x + y) * (1 + d))%R) /\
  (forall x y : R, exists d : R, (Rabs d <= ux)%R /\ xmul x y = (x * y * (1 + d))%R) /\
  (forall a b : R, xadd 0%R (xmul a b) = xmul a b) /\
  (INR (length [1%R; 2%R; 3%R]) * ux < 1)%R /\
  (exists r, dot (A := AFlx) [1%R; 2%R; 3%R] [4%R; 5%R; 6%R] = Ok r) /\
  xdiv 1%R 3%R <> (1 / 3)%R.
Proof.
  split; [exact ux_range|]. split; [exact xadd_ok|]. split; [exact xmul_ok|]. split; [exact xadd_0_mul|].
  split; [cbn [length INR]; pose proof ux_small; lra|]. split; [eexists; reflexivity|exact xdiv_inexact].
Qed.

(* Higham (3.5): |fl(x.y) - x.y| <= gam n Sum_i |x_i| |y_i| *)
Theorem dot_forward_error : forall (u : R), (0 <= u < 1)%R ->
  forall (fadd fsub fmul fdiv : R -> R -> R),
  (forall x y : R, exists d : R, (Rabs d <= u)%R /\ fadd x y = ((x + y) * (1 + d))%R) ->
  (forall x y : R, exists d : R, (Rabs d <= u)%R /\ fmul x y = (x * y * (1 + d))%R) ->
  (forall a b : R, fadd 0%R (fmul a b) = fmul a b) ->
  forall (x y : list R) (r : R),
  (INR (length x) * u < 1)%R -> dot (A := ARm fadd fsub fmul fdiv) x y = Ok r ->
  (Rabs (r - Rsum (length x) (fun k => nth k x 0 * nth k y 0))
     <= gam u (length x) * Rsum (length x) (fun k => Rabs (nth k x 0) * Rabs (nth k y 0)))%R.
Proof. intros u Hu fadd fsub fmul fdiv Ha Hm H0 x y r. exact (dot_forward_error_lemma u Hu fadd fsub fmul fdiv Ha Hm H0 x y r). Qed.
Check dot_forward_error : forall (u : R), (0 <= u < 1)%R ->
  forall (fadd fsub fmul fdiv : R -> R -> R),
  (forall x y : R, exists d : R, (Rabs d <= u)%R /\ fadd x y = ((x + y) * (1 + d))%R) ->
  (forall x y : R, exists d : R, (Rabs d <= u)%R /\ fmul x y = (x * y * (1 + d))%R) ->
  (forall a b : R, fadd 0%R (fmul a b) = fmul a b) ->
  forall (x y : list R) (r : R),
  (INR (length x) * u < 1)%R -> dot (A := ARm fadd fsub fmul fdiv) x y = Ok r ->
  (Rabs (r - Rsum (length x) (fun k => nth k x 0 * nth k y 0))
     <= gam u (length x) * Rsum (length x) (fun k => Rabs (nth k x 0) * Rabs (nth k y 0)))%R.
Print Assumptions dot_forward_error.
Example dot_forward_error_nonvacuous :   (* same instance as above *)
  (0 <= ux < 1)%R /\ (INR (length [1%R; 2%R; 3%R]) * ux < 1)%R /\
  (exists r, dot (A := AFlx) [1%R; 2%R; 3%R] [4%R; 5%R; 6%R] = Ok r).
Proof. split; [exact ux_range|]. split; [cbn [length INR]; pose proof ux_small; lra|eexists; reflexivity]. Qed.

(* without the exact first addition 0 + x_0 y_0: the same with gam (n+1) -- the pure standard model *)
Theorem dot_backward_error_pure : forall (u : R), (0 <= u < 1)%R ->
  forall (fadd fsub fmul fdiv : R -> R -> R),
  (forall x y : R, exists d : R, (Rabs d <= u)%R /\ fadd x y = ((x + y) * (1 + d))%R) ->
  (forall x y : R, exists d : R, (Rabs d <= u)%R /\ fmul x y = (x * y * (1 + d))%R) ->
  forall (x y : list R) (r : R),
  (INR (S (length x)) * u < 1)%R -> dot (A := ARm fadd fsub fmul fdiv) x y = Ok r ->
  exists th : nat -> R,
    (forall k, (k < length x)%nat -> (Rabs (th k) <= gam u (S (length x)))%R) /\
    r = Rsum (length x) (fun k => (nth k x 0 * nth k y 0 * (1 + th k))%R).
Proof. intros u Hu fadd fsub fmul fdiv Ha Hm x y r. exact (dot_backward_error_pure_lemma u Hu fadd fsub fmul fdiv Ha Hm x y r). Qed.
Check dot_backward_error_pure : forall (u : R), (0 <= u < 1)%R ->
  forall (fadd fsub fmul fdiv : R -> R -> R),
  (forall x y : R, exists d : R, (Rabs d <= u)%R /\ fadd x y = ((x + y) * (1 + d))%R) ->
  (forall x y : R, exists d : R, (Rabs d <= u)%R /\ fmul x y = (x * y * (1 + d))%R) ->
  forall (x y : list R) (r : R),
  (INR (S (length x)) * u < 1)%R -> dot (A := ARm fadd fsub fmul fdiv) x y = Ok r ->
  exists th : nat -> R,
    (forall k, (k < length x)%nat -> (Rabs (th k) <= gam u (S (length x)))%R) /\
    r = Rsum (length x) (fun k => (nth k x 0 * nth k y 0 * (1 + th k))%R).
Print Assumptions dot_backward_error_pure.
Example dot_backward_error_pure_nonvacuous :
  (0 <= ux < 1)%R /\ (INR (S (length [1%R; 2%R; 3%R])) * ux < 1)%R /\
  (exists r, dot (A := AFlx) [1%R; 2%R; 3%R] [4%R; 5%R; 6%R] = Ok r).
Proof. split; [exact ux_range|]. split; [cbn [length INR]; pose proof ux_small; lra|eexists; reflexivity]. Qed.

(* the primitive-float instance (IEEE binary64, u = 2^-53): FR is the real value of a float *)
Theorem dot_backward_error_float : forall (v w : list PrimFloat.float) (r : PrimFloat.float),
  dot (A := AF) v w = Ok r -> ffinite r ->
  (forall k, (k < length v)%nat -> no_underflow (FR (nth k v 0%float) * FR (nth k w 0%float))%R) ->
  (INR (length v) * u64 < 1)%R ->
  exists th : nat -> R,
    (forall k, (k < length v)%nat -> (Rabs (th k) <= g64 (length v))%R) /\
    FR r = Rsum (length v) (fun k => (FR (nth k v 0%float) * FR (nth k w 0%float) * (1 + th k))%R).
Proof. exact dot_backward_error_float_lemma. Qed.
Check dot_backward_error_float : forall (v w : list PrimFloat.float) (r : PrimFloat.float),
  dot (A := AF) v w = Ok r -> ffinite r ->
  (forall k, (k < length v)%nat -> no_underflow (FR (nth k v 0%float) * FR (nth k w 0%float))%R) ->
  (INR (length v) * u64 < 1)%R ->
  exists th : nat -> R,
    (forall k, (k < length v)%nat -> (Rabs (th k) <= g64 (length v))%R) /\
    FR r = Rsum (length v) (fun k => (FR (nth k v 0%float) * FR (nth k w 0%float) * (1 + th k))%R).
Print Assumptions dot_backward_error_float.
(* 0x1.999999999999ap-4 is the double nearest 0.1 and its product with 3 is inexact: the hypotheses hold on data that do round *)
Example dot_backward_error_float_nonvacuous :
  let v := [1.5%float; 2%float; 0x1.999999999999ap-4%float] in let w := [3%float; 4%float; 3%float] in
  (exists r, dot (A := AF) v w = Ok r /\ ffinite r) /\
  (forall k, (k < length v)%nat -> no_underflow (FR (nth k v 0%float) * FR (nth k w 0%float))%R) /\
  (INR (length v) * u64 < 1)%R.
Proof.
  cbn zeta. split; [eexists; split; [reflexivity|apply ffinite_SF; reflexivity]|]. split.
  - intros [|[|[|k]]] Hk; cbn [nth]; cbn in Hk; try lia.
    + assert (Ea : FR 1.5%float = 1.5%R) by fr_eval. assert (Eb : FR 3%float = 3%R) by fr_eval.
      rewrite Ea, Eb. apply no_underflow_ge1. rewrite Rabs_pos_eq; lra.
    + assert (Ea : FR 2%float = 2%R) by fr_eval. assert (Eb : FR 4%float = 4%R) by fr_eval.
      rewrite Ea, Eb. apply no_underflow_ge1. rewrite Rabs_pos_eq; lra.
    + right. assert (Eb : FR 3%float = 3%R) by fr_eval. rewrite Eb.
      assert (Ea : (/ 16 <= FR 0x1.999999999999ap-4%float)%R) by fr_eval.
      apply Rle_trans with (Flocq.Core.Raux.bpow Flocq.Core.Zaux.radix2 (-4)).
      * apply Flocq.Core.Raux.bpow_le. lia.
      * change (Flocq.Core.Raux.bpow Flocq.Core.Zaux.radix2 (-4)) with (/ 16)%R. rewrite Rabs_pos_eq; lra.
  - cbn [length INR]. pose proof u64_small. lra.
Qed.

Theorem dot_forward_error_float : forall (v w : list PrimFloat.float) (r : PrimFloat.float),
  dot (A := AF) v w = Ok r -> ffinite r ->
  (forall k, (k < length v)%nat -> no_underflow (FR (nth k v 0%float) * FR (nth k w 0%float))%R) ->
  (INR (length v) * u64 < 1)%R ->
  (Rabs (FR r - Rsum (length v) (fun k => FR (nth k v 0%float) * FR (nth k w 0%float)))
     <= g64 (length v) * Rsum (length v) (fun k => Rabs (FR (nth k v 0%float)) * Rabs (FR (nth k w 0%float))))%R.
Proof. exact dot_forward_error_float_lemma. Qed.
Check dot_forward_error_float : forall (v w : list PrimFloat.float) (r : PrimFloat.float),
  dot (A := AF) v w = Ok r -> ffinite r ->
  (forall k, (k < length v)%nat -> no_underflow (FR (nth k v 0%float) * FR (nth k w 0%float))%R) ->
  (INR (length v) * u64 < 1)%R ->
  (Rabs (FR r - Rsum (length v) (fun k => FR (nth k v 0%float) * FR (nth k w 0%float)))
     <= g64 (length v) * Rsum (length v) (fun k => Rabs (FR (nth k v 0%float)) * Rabs (FR (nth k w 0%float))))%R.
Print Assumptions dot_forward_error_float.
Example dot_forward_error_float_nonvacuous :   (* exactly representable data *)
  let v := [1.5%float; 2%float] in let w := [3%float; 4%float] in
  (exists r, dot (A := AF) v w = Ok r /\ ffinite r) /\ (INR (length v) * u64 < 1)%R.
Proof.
  cbn zeta. split; [eexists; split; [reflexivity|apply ffinite_SF; reflexivity]|].
  cbn [length INR]. pose proof u64_small. lra.
Qed.

(* ---- norm_1 "to rounding accuracy" (standard model): relative error gam n, since all terms have one sign ---- *)
From OV Require Import Proofs.RoundNorm.

Theorem norm_1_backward_error : forall (u : R), (0 <= u < 1)%R ->
  forall (fadd fsub fmul fdiv : R -> R -> R),
  (forall x y : R, exists d : R, (Rabs d <= u)%R /\ fadd x y = ((x + y) * (1 + d))%R) ->
  forall (v : list R), (INR (length v) * u < 1)%R ->
  exists th : nat -> R,
    (forall k, (k < length v)%nat -> (Rabs (th k) <= gam u (length v))%R) /\
    norm_1 (A := ARm fadd fsub fmul fdiv) v = Rsum (length v) (fun k => (Rabs (nth k v 0) * (1 + th k))%R).
Proof. intros u Hu fadd fsub fmul fdiv Ha v. exact (norm_1_backward_error_lemma u Hu fadd fsub fmul fdiv Ha v). Qed.
Check norm_1_backward_error : forall (u : R), (0 <= u < 1)%R ->
  forall (fadd fsub fmul fdiv : R -> R -> R),
  (forall x y : R, exists d : R, (Rabs d <= u)%R /\ fadd x y = ((x + y) * (1 + d))%R) ->
  forall (v : list R), (INR (length v) * u < 1)%R ->
  exists th : nat -> R,
    (forall k, (k < length v)%nat -> (Rabs (th k) <= gam u (length v))%R) /\
    norm_1 (A := ARm fadd fsub fmul fdiv) v = Rsum (length v) (fun k => (Rabs (nth k v 0) * (1 + th k))%R).
Print Assumptions norm_1_backward_error.
Example norm_1_backward_error_nonvacuous :
  (0 <= ux < 1)%R /\
  (forall x y : R, exists d : R, (Rabs d <= ux)%R /\ xadd x y = ((x + y) * (1 + d))%R) /\
  (INR (length [1%R; (-2)%R; 3%R]) * ux < 1)%R.
Proof. split; [exact ux_range|]. split; [exact xadd_ok|cbn [length INR]; pose proof ux_small; lra]. Qed.

Theorem norm_1_relative_error : forall (u : R), (0 <= u < 1)%R ->
  forall (fadd fsub fmul fdiv : R -> R -> R),
  (forall x y : R, exists d : R, (Rabs d <= u)%R /\ fadd x y = ((x + y) * (1 + d))%R) ->
  forall (v : list R), (INR (length v) * u < 1)%R ->
  (Rabs (norm_1 (A := ARm fadd fsub fmul fdiv) v - Rsum (length v) (fun k => Rabs (nth k v 0)))
     <= gam u (length v) * Rsum (length v) (fun k => Rabs (nth k v 0)))%R.
Proof. intros u Hu fadd fsub fmul fdiv Ha v. exact (norm_1_relative_error_lemma u Hu fadd fsub fmul fdiv Ha v). Qed.
Check norm_1_relative_error : forall (u : R), (0 <= u < 1)%R ->
  forall (fadd fsub fmul fdiv : R -> R -> R),
  (forall x y : R, exists d : R, (Rabs d <= u)%R /\ fadd x y = ((x + y) * (1 + d))%R) ->
  forall (v : list R), (INR (length v) * u < 1)%R ->
  (Rabs (norm_1 (A := ARm fadd fsub fmul fdiv) v - Rsum (length v) (fun k => Rabs (nth k v 0)))
     <= gam u (length v) * Rsum (length v) (fun k => Rabs (nth k v 0)))%R.
Print Assumptions norm_1_relative_error.
Example norm_1_relative_error_nonvacuous :
  (0 <= ux < 1)%R /\ (INR (length [1%R; (-2)%R; 3%R]) * ux < 1)%R.
Proof. split; [exact ux_range|cbn [length INR]; pose proof ux_small; lra]. Qed.

(* ---- norm_2 "to rounding accuracy": standard model extended by a rounded square root; relative error gam (n+1) ---- *)
From OV Require Import Proofs.RoundNorm2.

Theorem norm_2_relative_error : forall (u : R), (0 <= u < 1)%R ->
  forall (fadd fsub fmul fdiv : R -> R -> R) (fsqrt : R -> R),
  (forall x y : R, exists d : R, (Rabs d <= u)%R /\ fadd x y = ((x + y) * (1 + d))%R) ->
  (forall x y : R, exists d : R, (Rabs d <= u)%R /\ fmul x y = (x * y * (1 + d))%R) ->
  (forall a b : R, fadd 0%R (fmul a b) = fmul a b) ->
  (forall x : R, (0 <= x)%R -> exists d : R, (Rabs d <= u)%R /\ fsqrt x = (R_sqrt.sqrt x * (1 + d))%R) ->
  forall (v : list R), (INR (length v + 1) * u < 1)%R ->
  exists th : R, (Rabs th <= gam u (length v + 1))%R /\
    (norm_2 (F := SARm fadd fsub fmul fdiv fsqrt) Rabs v : R)
    = (R_sqrt.sqrt (Rsum (length v) (fun k => nth k v 0 * nth k v 0)) * (1 + th))%R.
Proof. intros u Hu fadd fsub fmul fdiv fsqrt Ha Hm H0 Hs v. exact (norm_2_relative_error_lemma u Hu fadd fsub fmul fdiv fsqrt Ha Hm H0 Hs v). Qed.
Check norm_2_relative_error : forall (u : R), (0 <= u < 1)%R ->
  forall (fadd fsub fmul fdiv : R -> R -> R) (fsqrt : R -> R),
  (forall x y : R, exists d : R, (Rabs d <= u)%R /\ fadd x y = ((x + y) * (1 + d))%R) ->
  (forall x y : R, exists d : R, (Rabs d <= u)%R /\ fmul x y = (x * y * (1 + d))%R) ->
  (forall a b : R, fadd 0%R (fmul a b) = fmul a b) ->
  (forall x : R, (0 <= x)%R -> exists d : R, (Rabs d <= u)%R /\ fsqrt x = (R_sqrt.sqrt x * (1 + d))%R) ->
  forall (v : list R), (INR (length v + 1) * u < 1)%R ->
  exists th : R, (Rabs th <= gam u (length v + 1))%R /\
    (norm_2 (F := SARm fadd fsub fmul fdiv fsqrt) Rabs v : R)
    = (R_sqrt.sqrt (Rsum (length v) (fun k => nth k v 0 * nth k v 0)) * (1 + th))%R.
Print Assumptions norm_2_relative_error.
(* the hypotheses are met by 53-bit round-to-nearest-even after every operation, the square root included *)
Example norm_2_relative_error_nonvacuous :
  (0 <= ux < 1)%R /\
  (forall x y : R, exists d : R, (Rabs d <= ux)%R /\ xadd x y = ((x + y) * (1 + d))%R) /\
  (forall x y : R, exists d : R, (Rabs d <= ux)%R /\ xmul x y = (x * y * (1 + d))%R) /\
  (forall a b : R, xadd 0%R (xmul a b) = xmul a b) /\
  (forall x : R, (0 <= x)%R -> exists d : R, (Rabs d <= ux)%R /\ rndx (R_sqrt.sqrt x) = (R_sqrt.sqrt x * (1 + d))%R) /\
  (INR (length [3%R; (-4)%R] + 1) * ux < 1)%R.
Proof.
  split; [exact ux_range|]. split; [exact xadd_ok|]. split; [exact xmul_ok|]. split; [exact xadd_0_mul|].
  split; [intros x _; apply rndx_rel|cbn [length Nat.add INR]; pose proof ux_small; lra].
Qed.

(* ---- recursive summation (sum_slice / sum) "to rounding accuracy": standard model, and the primitive floats with NO side
   condition beyond a finite result (float additions never lose relative accuracy to underflow) ---- *)
From OV Require Import Proofs.RoundSum.

Theorem sum_slice_backward_error : forall (u : R), (0 <= u < 1)%R ->
  forall (fadd fsub fmul fdiv : R -> R -> R),
  (forall x y : R, exists d : R, (Rabs d <= u)%R /\ fadd x y = ((x + y) * (1 + d))%R) ->
  forall (v : list R) (s e : nat) (r : R),
  (INR (length (slice v s e)) * u < 1)%R -> sum_slice (A := ARm fadd fsub fmul fdiv) v s e = Ok r ->
  exists th : nat -> R,
    (forall k, (k < length (slice v s e))%nat -> (Rabs (th k) <= gam u (length (slice v s e)))%R) /\
    r = Rsum (length (slice v s e)) (fun k => (nth k (slice v s e) 0 * (1 + th k))%R).
Proof. intros u Hu fadd fsub fmul fdiv Ha v s e r. exact (sum_slice_backward_error_lemma u Hu fadd fsub fmul fdiv Ha v s e r). Qed.
Check sum_slice_backward_error : forall (u : R), (0 <= u < 1)%R ->
  forall (fadd fsub fmul fdiv : R -> R -> R),
  (forall x y : R, exists d : R, (Rabs d <= u)%R /\ fadd x y = ((x + y) * (1 + d))%R) ->
  forall (v : list R) (s e : nat) (r : R),
  (INR (length (slice v s e)) * u < 1)%R -> sum_slice (A := ARm fadd fsub fmul fdiv) v s e = Ok r ->
  exists th : nat -> R,
    (forall k, (k < length (slice v s e))%nat -> (Rabs (th k) <= gam u (length (slice v s e)))%R) /\
    r = Rsum (length (slice v s e)) (fun k => (nth k (slice v s e) 0 * (1 + th k))%R).
Print Assumptions sum_slice_backward_error.
Example sum_slice_backward_error_nonvacuous :
  let v := [1%R; 2%R; 3%R; 4%R] in
  (0 <= ux < 1)%R /\
  (forall x y : R, exists d : R, (Rabs d <= ux)%R /\ xadd x y = ((x + y) * (1 + d))%R) /\
  (INR (length (slice v 1 2)) * ux < 1)%R /\ length (slice v 1 2) = 2%nat /\
  exists r, sum_slice (A := AFlx) v 1 2 = Ok r.
Proof.
  cbn zeta. split; [exact ux_range|]. split; [exact xadd_ok|].
  split; [cbn; pose proof ux_small; lra|]. split; [reflexivity|eexists; reflexivity].
Qed.

Theorem sum_slice_forward_error : forall (u : R), (0 <= u < 1)%R ->
  forall (fadd fsub fmul fdiv : R -> R -> R),
  (forall x y : R, exists d : R, (Rabs d <= u)%R /\ fadd x y = ((x + y) * (1 + d))%R) ->
  forall (v : list R) (s e : nat) (r : R),
  (INR (length (slice v s e)) * u < 1)%R -> sum_slice (A := ARm fadd fsub fmul fdiv) v s e = Ok r ->
  (Rabs (r - Rsum (length (slice v s e)) (fun k => nth k (slice v s e) 0))
     <= gam u (length (slice v s e)) * Rsum (length (slice v s e)) (fun k => Rabs (nth k (slice v s e) 0)))%R.
Proof. intros u Hu fadd fsub fmul fdiv Ha v s e r. exact (sum_slice_forward_error_lemma u Hu fadd fsub fmul fdiv Ha v s e r). Qed.
Check sum_slice_forward_error : forall (u : R), (0 <= u < 1)%R ->
  forall (fadd fsub fmul fdiv : R -> R -> R),
  (forall x y : R, exists d : R, (Rabs d <= u)%R /\ fadd x y = ((x + y) * (1 + d))%R) ->
  forall (v : list R) (s e : nat) (r : R),
  (INR (length (slice v s e)) * u < 1)%R -> sum_slice (A := ARm fadd fsub fmul fdiv) v s e = Ok r ->
  (Rabs (r - Rsum (length (slice v s e)) (fun k => nth k (slice v s e) 0))
     <= gam u (length (slice v s e)) * Rsum (length (slice v s e)) (fun k => Rabs (nth k (slice v s e) 0)))%R.
Print Assumptions sum_slice_forward_error.
Example sum_slice_forward_error_nonvacuous :
  let v := [1%R; 2%R; 3%R; 4%R] in
  (0 <= ux < 1)%R /\ (INR (length (slice v 1 2)) * ux < 1)%R /\ exists r, sum_slice (A := AFlx) v 1 2 = Ok r.
Proof. cbn zeta. split; [exact ux_range|]. split; [cbn; pose proof ux_small; lra|eexists; reflexivity]. Qed.

Theorem sum_slice_backward_error_float : forall (v : list PrimFloat.float) (s e : nat) (r : PrimFloat.float),
  sum_slice (A := AF) v s e = Ok r -> ffinite r -> (INR (length (slice v s e)) * u64 < 1)%R ->
  exists th : nat -> R,
    (forall k, (k < length (slice v s e))%nat -> (Rabs (th k) <= g64 (length (slice v s e)))%R) /\
    FR r = Rsum (length (slice v s e)) (fun k => (FR (nth k (slice v s e) 0%float) * (1 + th k))%R).
Proof. exact sum_slice_backward_error_float_lemma. Qed.
Check sum_slice_backward_error_float : forall (v : list PrimFloat.float) (s e : nat) (r : PrimFloat.float),
  sum_slice (A := AF) v s e = Ok r -> ffinite r -> (INR (length (slice v s e)) * u64 < 1)%R ->
  exists th : nat -> R,
    (forall k, (k < length (slice v s e))%nat -> (Rabs (th k) <= g64 (length (slice v s e)))%R) /\
    FR r = Rsum (length (slice v s e)) (fun k => (FR (nth k (slice v s e) 0%float) * (1 + th k))%R).
Print Assumptions sum_slice_backward_error_float.
Example sum_slice_backward_error_float_nonvacuous :   (* 0.1 + 1.5 + 3 in binary64 (0.1 as its nearest double): inexact *)
  let v := [0x1.999999999999ap-4%float; 1.5%float; 3%float] in
  (exists r, sum_slice (A := AF) v 0 2 = Ok r /\ ffinite r) /\ (INR (length (slice v 0 2)) * u64 < 1)%R.
Proof.
  cbn zeta. split; [eexists; split; [reflexivity|apply ffinite_SF; reflexivity]|].
  cbn; pose proof u64_small; lra.
Qed.

Theorem sum_slice_forward_error_float : forall (v : list PrimFloat.float) (s e : nat) (r : PrimFloat.float),
  sum_slice (A := AF) v s e = Ok r -> ffinite r -> (INR (length (slice v s e)) * u64 < 1)%R ->
  (Rabs (FR r - Rsum (length (slice v s e)) (fun k => FR (nth k (slice v s e) 0%float)))
     <= g64 (length (slice v s e)) * Rsum (length (slice v s e)) (fun k => Rabs (FR (nth k (slice v s e) 0%float))))%R.
Proof. exact sum_slice_forward_error_float_lemma. Qed.
Check sum_slice_forward_error_float : forall (v : list PrimFloat.float) (s e : nat) (r : PrimFloat.float),
  sum_slice (A := AF) v s e = Ok r -> ffinite r -> (INR (length (slice v s e)) * u64 < 1)%R ->
  (Rabs (FR r - Rsum (length (slice v s e)) (fun k => FR (nth k (slice v s e) 0%float)))
     <= g64 (length (slice v s e)) * Rsum (length (slice v s e)) (fun k => Rabs (FR (nth k (slice v s e) 0%float))))%R.
Print Assumptions sum_slice_forward_error_float.
Example sum_slice_forward_error_float_nonvacuous :
  let v := [0x1.999999999999ap-4%float; (-1.5)%float; 3%float] in
  (exists r, sum_slice (A := AF) v 0 2 = Ok r /\ ffinite r) /\ (INR (length (slice v 0 2)) * u64 < 1)%R.
Proof.
  cbn zeta. split; [eexists; split; [reflexivity|apply ffinite_SF; reflexivity]|].
  cbn; pose proof u64_small; lra.
Qed.

(* norm_1 at the primitive floats: relative error gam n whenever the computed norm is finite *)
Theorem norm_1_relative_error_float : forall (v : list PrimFloat.float),
  ffinite (norm_1 (A := AF) v) -> (INR (length v) * u64 < 1)%R ->
  (Rabs (FR (norm_1 (A := AF) v) - Rsum (length v) (fun k => Rabs (FR (nth k v 0%float))))
     <= g64 (length v) * Rsum (length v) (fun k => Rabs (FR (nth k v 0%float))))%R.
Proof. exact norm_1_relative_error_float_lemma. Qed.
Check norm_1_relative_error_float : forall (v : list PrimFloat.float),
  ffinite (norm_1 (A := AF) v) -> (INR (length v) * u64 < 1)%R ->
  (Rabs (FR (norm_1 (A := AF) v) - Rsum (length v) (fun k => Rabs (FR (nth k v 0%float))))
     <= g64 (length v) * Rsum (length v) (fun k => Rabs (FR (nth k v 0%float))))%R.
Print Assumptions norm_1_relative_error_float.
Example norm_1_relative_error_float_nonvacuous :
  let v := [0x1.999999999999ap-4%float; (-1.5)%float; 3%float] in
  ffinite (norm_1 (A := AF) v) /\ (INR (length v) * u64 < 1)%R.
Proof. cbn zeta. split; [apply ffinite_SF; reflexivity|cbn; pose proof u64_small; lra]. Qed.

(* Proofs/Round2PinExact.v -- package round2, item 4: pin blocks (format of CONVENTIONS section 2) for the binary64
   exactness theorems of Proofs/Round2Lin.v (C15: linspace), Proofs/Round2Mesh.v (C19: Mesh1D::trapezium) and
   Proofs/Round2MeshB.v (C19: Mesh1D::get_interpolated_vars).  To be appended to Props/C15.v resp. Props/C19.v.
   FR x = real value of the primitive float x, ffinite x = x is finite (Proofs/ComplexRound.v); bpow radix2 e = 2^e. *)
From Coq Require Import ZArith Reals Floats Lia Lra List Bool Arith.
From Flocq Require Import Core.Core IEEE754.BinarySingleNaN IEEE754.PrimFloat.
From OV Require Import Base.Panic Base.Arith Model.Vector Model.Mesh Inst.FloatInst Proofs.MeshBase Proofs.MeshQuad
                       Proofs.ParDotFloat Proofs.ComplexRound Proofs.Round2Lin Proofs.Round2Mesh Proofs.Round2MeshB.
From OV Require gen.Params.
Import ListNotations.

(* ==== C15 ==== *)
(* linspace at binary64, first element: a + h*0 has the value of a whenever the step h = (b-a)/((n as f64) - 1) is
   finite, and is the float a itself unless a is a zero (a = -0, h >= 0 gives +0); the length is n.
   (For n = 1 the step is (b-a)/0 -- infinite or NaN -- and the only element is NaN: linspace_size1_nan.) *)
Theorem linspace_first_exact_float : forall (a b : PrimFloat.float) (n : nat) (v : list PrimFloat.float),
  linspace (F := SAF) a b n = Ok v -> (1 <= n)%nat -> ffinite a ->
  ffinite ((b - a) / (f_of_nat n - 1))%float ->
  length v = n /\ ffinite (nth 0 v 0%float) /\ FR (nth 0 v 0%float) = FR a /\
  (FR a <> 0%R -> nth 0 v 0%float = a).
Proof. intros a b n v E Hn Fa Fh. exact (linspace_first_exact_float_lemma a b n v E Hn Fa Fh). Qed.
Check linspace_first_exact_float : forall (a b : PrimFloat.float) (n : nat) (v : list PrimFloat.float),
  linspace (F := SAF) a b n = Ok v -> (1 <= n)%nat -> ffinite a ->
  ffinite ((b - a) / (f_of_nat n - 1))%float ->
  length v = n /\ ffinite (nth 0 v 0%float) /\ FR (nth 0 v 0%float) = FR a /\
  (FR a <> 0%R -> nth 0 v 0%float = a).
Print Assumptions linspace_first_exact_float.
Example linspace_first_exact_float_nonvacuous :
  linspace (F := SAF) 0.25%float 1.75%float 5 = Ok [0.25; 0.625; 1; 1.375; 1.75]%float /\ (1 <= 5)%nat /\
  ffinite 0.25%float /\ ffinite ((1.75 - 0.25) / (f_of_nat 5 - 1))%float /\ FR 0.25%float <> 0%R /\
  (* the sign caveat is real: for a = -0 the first element is +0 *)
  (exists v, linspace (F := SAF) (-0)%float 1%float 3 = Ok v /\
             PrimFloat.get_sign (nth 0 v 0%float) = false /\ PrimFloat.get_sign (-0)%float = true).
Proof.
  split; [vm_compute; reflexivity|]. split; [lia|]. split; [vm_compute; reflexivity|].
  split; [vm_compute; reflexivity|]. split; [|exact linspace_first_negzero].
  rewrite (Dy_FR _ _ _ ex_lin_a). simpl. lra.
Qed.

(* linspace at binary64 on dyadic endpoints a = ma 2^e, b = mb 2^e with size 2^k + 1: no operation rounds; element i
   is EXACTLY the real grid point a + (b - a) i / (size - 1), the last element is b itself.
   The bounds say: the numerators of b - a, a, b, scaled to the grid 2^(e-k) of the elements, fit in 53 bits, and
   the step (b-a)/2^k does not underflow. *)
Theorem linspace_exact_dyadic_float : forall (a b : PrimFloat.float) (ma mb e : Z) (k : nat) (v : list PrimFloat.float),
  ffinite a -> FR a = (IZR ma * bpow radix2 e)%R -> ffinite b -> FR b = (IZR mb * bpow radix2 e)%R ->
  (k <= 52)%nat -> (-1074 + Z.of_nat k <= e <= 971)%Z ->
  (Z.abs (mb - ma) * 2 ^ Z.of_nat k < 2 ^ 53)%Z ->
  (Z.abs ma * 2 ^ Z.of_nat k < 2 ^ 53)%Z -> (Z.abs mb * 2 ^ Z.of_nat k < 2 ^ 53)%Z ->
  linspace (F := SAF) a b (2 ^ k + 1) = Ok v ->
  length v = (2 ^ k + 1)%nat /\
  (forall i, (i <= 2 ^ k)%nat ->
     ffinite (nth i v 0%float) /\
     FR (nth i v 0%float) = (FR a + (FR b - FR a) * INR i / INR (2 ^ k))%R) /\
  FR (nth (2 ^ k) v 0%float) = FR b /\
  (FR b <> 0%R -> nth (2 ^ k) v 0%float = b).
Proof.
  intros a b ma mb e k v Fa Ra Fb Rb Hk He Hd Ha Hb E.
  exact (linspace_exact_dyadic_float_lemma a b ma mb e k v Fa Ra Fb Rb Hk He Hd Ha Hb E).
Qed.
Check linspace_exact_dyadic_float : forall (a b : PrimFloat.float) (ma mb e : Z) (k : nat) (v : list PrimFloat.float),
  ffinite a -> FR a = (IZR ma * bpow radix2 e)%R -> ffinite b -> FR b = (IZR mb * bpow radix2 e)%R ->
  (k <= 52)%nat -> (-1074 + Z.of_nat k <= e <= 971)%Z ->
  (Z.abs (mb - ma) * 2 ^ Z.of_nat k < 2 ^ 53)%Z ->
  (Z.abs ma * 2 ^ Z.of_nat k < 2 ^ 53)%Z -> (Z.abs mb * 2 ^ Z.of_nat k < 2 ^ 53)%Z ->
  linspace (F := SAF) a b (2 ^ k + 1) = Ok v ->
  length v = (2 ^ k + 1)%nat /\
  (forall i, (i <= 2 ^ k)%nat ->
     ffinite (nth i v 0%float) /\
     FR (nth i v 0%float) = (FR a + (FR b - FR a) * INR i / INR (2 ^ k))%R) /\
  FR (nth (2 ^ k) v 0%float) = FR b /\
  (FR b <> 0%R -> nth (2 ^ k) v 0%float = b).
Print Assumptions linspace_exact_dyadic_float.
(* a = 1/4, b = 7/4 on the grid 2^-2, size 2^2 + 1; and the hypotheses fail to hold for linspace(0,1,50), whose last
   element is 1 - 2^-53 *)
Example linspace_exact_dyadic_float_nonvacuous :
  ffinite 0.25%float /\ FR 0.25%float = (IZR 1 * bpow radix2 (-2))%R /\
  ffinite 1.75%float /\ FR 1.75%float = (IZR 7 * bpow radix2 (-2))%R /\
  (2 <= 52)%nat /\ (-1074 + Z.of_nat 2 <= -2 <= 971)%Z /\
  (Z.abs (7 - 1) * 2 ^ Z.of_nat 2 < 2 ^ 53)%Z /\ (Z.abs 1 * 2 ^ Z.of_nat 2 < 2 ^ 53)%Z /\
  (Z.abs 7 * 2 ^ Z.of_nat 2 < 2 ^ 53)%Z /\
  linspace (F := SAF) 0.25%float 1.75%float (2 ^ 2 + 1) = Ok [0.25; 0.625; 1; 1.375; 1.75]%float /\
  (exists v, linspace (F := SAF) 0%float 1%float 50 = Ok v /\ PrimFloat.eqb (nth 49 v 0%float) 1%float = false /\
             PrimFloat.ltb (nth 49 v 0%float) 1%float = true).
Proof.
  split; [exact (proj1 ex_lin_a)|]. split; [exact (proj2 ex_lin_a)|].
  split; [exact (proj1 ex_lin_b)|]. split; [exact (proj2 ex_lin_b)|].
  split; [lia|]. split; [simpl; lia|]. split; [simpl; lia|]. split; [simpl; lia|]. split; [simpl; lia|].
  split; [exact linspace_exact_dyadic_example|exact linspace_last_not_b].
Qed.

(* linspace at binary64 for ANY size n >= 2 when the step is exact: endpoints ma 2^e, mb 2^e on a common exponent with
   (n - 1) | (mb - ma) -- e.g. integer endpoints whose difference is a multiple of the number of intervals
   (linspace(0,10,11)); the dyadic case above is the instance n - 1 = 2^k on the grid 2^(e-k).  Every element is
   exactly (ma + d i) 2^e = a + (b - a) i / (n - 1), the last one is b itself. *)
Theorem linspace_exact_divisible_float : forall (a b : PrimFloat.float) (ma mb d e : Z) (n : nat) (v : list PrimFloat.float),
  ffinite a -> FR a = (IZR ma * bpow radix2 e)%R -> ffinite b -> FR b = (IZR mb * bpow radix2 e)%R ->
  (2 <= n)%nat -> (Z.of_nat n < 2 ^ 53)%Z -> (-1074 <= e <= 971)%Z ->
  (mb - ma = d * (Z.of_nat n - 1))%Z ->
  (Z.abs (mb - ma) < 2 ^ 53)%Z -> (Z.abs ma < 2 ^ 53)%Z -> (Z.abs mb < 2 ^ 53)%Z ->
  linspace (F := SAF) a b n = Ok v ->
  length v = n /\
  (forall i, (i < n)%nat ->
     ffinite (nth i v 0%float) /\
     FR (nth i v 0%float) = (FR a + (FR b - FR a) * INR i / INR (n - 1))%R /\
     FR (nth i v 0%float) = (IZR (ma + d * Z.of_nat i) * bpow radix2 e)%R) /\
  FR (nth (n - 1) v 0%float) = FR b /\
  (FR b <> 0%R -> nth (n - 1) v 0%float = b).
Proof.
  intros a b ma mb d e n v Fa Ra Fb Rb Hn Hn' He Hdiv Hd Ha Hb E.
  exact (linspace_exact_divisible_float_lemma a b ma mb d e n v Fa Ra Fb Rb Hn Hn' He Hdiv Hd Ha Hb E).
Qed.
Check linspace_exact_divisible_float : forall (a b : PrimFloat.float) (ma mb d e : Z) (n : nat) (v : list PrimFloat.float),
  ffinite a -> FR a = (IZR ma * bpow radix2 e)%R -> ffinite b -> FR b = (IZR mb * bpow radix2 e)%R ->
  (2 <= n)%nat -> (Z.of_nat n < 2 ^ 53)%Z -> (-1074 <= e <= 971)%Z ->
  (mb - ma = d * (Z.of_nat n - 1))%Z ->
  (Z.abs (mb - ma) < 2 ^ 53)%Z -> (Z.abs ma < 2 ^ 53)%Z -> (Z.abs mb < 2 ^ 53)%Z ->
  linspace (F := SAF) a b n = Ok v ->
  length v = n /\
  (forall i, (i < n)%nat ->
     ffinite (nth i v 0%float) /\
     FR (nth i v 0%float) = (FR a + (FR b - FR a) * INR i / INR (n - 1))%R /\
     FR (nth i v 0%float) = (IZR (ma + d * Z.of_nat i) * bpow radix2 e)%R) /\
  FR (nth (n - 1) v 0%float) = FR b /\
  (FR b <> 0%R -> nth (n - 1) v 0%float = b).
Print Assumptions linspace_exact_divisible_float.
(* a = -3, b = 12, n = 6: step 3 *)
Example linspace_exact_divisible_float_nonvacuous :
  ffinite (-3)%float /\ FR (-3)%float = (IZR (-3) * bpow radix2 0)%R /\
  ffinite 12%float /\ FR 12%float = (IZR 12 * bpow radix2 0)%R /\
  (2 <= 6)%nat /\ (Z.of_nat 6 < 2 ^ 53)%Z /\ (-1074 <= 0 <= 971)%Z /\
  (12 - -3 = 3 * (Z.of_nat 6 - 1))%Z /\
  (Z.abs (12 - -3) < 2 ^ 53)%Z /\ (Z.abs (-3) < 2 ^ 53)%Z /\ (Z.abs 12 < 2 ^ 53)%Z /\
  linspace (F := SAF) (-3)%float 12%float 6 = Ok [-3; 0; 3; 6; 9; 12]%float.
Proof.
  split; [exact (proj1 ex_lin_m3)|]. split; [exact (proj2 ex_lin_m3)|].
  split; [exact (proj1 ex_lin_12)|]. split; [exact (proj2 ex_lin_12)|].
  split; [lia|]. split; [simpl; lia|]. split; [lia|]. split; [simpl; lia|].
  split; [simpl; lia|]. split; [simpl; lia|]. split; [simpl; lia|]. exact linspace_exact_divisible_example.
Qed.

(* the step h = (b - a)/((n as f64) - 1) of linspace is finite whenever b - a is finite and 2 <= n < 2^53
   (discharges the hypothesis of linspace_first_exact_float; for n = 1 the step is a division by zero) *)
Theorem linspace_step_finite_float : forall (a b : PrimFloat.float) (n : nat),
  ffinite (b - a)%float -> (2 <= n)%nat -> (Z.of_nat n < 2 ^ 53)%Z ->
  ffinite ((b - a) / (f_of_nat n - 1))%float.
Proof. intros a b n Fd Hn Hn'. exact (lin_h_finite a b n Fd Hn Hn'). Qed.
Check linspace_step_finite_float : forall (a b : PrimFloat.float) (n : nat),
  ffinite (b - a)%float -> (2 <= n)%nat -> (Z.of_nat n < 2 ^ 53)%Z ->
  ffinite ((b - a) / (f_of_nat n - 1))%float.
Print Assumptions linspace_step_finite_float.
Example linspace_step_finite_float_nonvacuous :
  ffinite (1.75 - 0.25)%float /\ (2 <= 5)%nat /\ (Z.of_nat 5 < 2 ^ 53)%Z /\
  (* n = 1: the step is not finite *)
  PrimFloat.is_finite ((1.75 - 0.25) / (f_of_nat 1 - 1))%float = false.
Proof. split; [vm_compute; reflexivity|]. split; [lia|]. split; [simpl; lia|vm_compute; reflexivity]. Qed.


(* ======================================================================================================
   C15 (vectors), rounding half at binary64 -- package round2.  Append to Props/C15.v.
   norm_2 "to rounding accuracy" for the PRIMITIVE-FLOAT instance itself (norm_2 at SAF, IEEE binary64), through Flocq:
   whenever the computed norm is finite and no square underflows, it is the exact Euclidean norm of the data times
   (1 + th), |th| <= gam_{n+1}, u = 2^-53.  (The standard-model statement is norm_2_relative_error of package round.)
   Unproved remainder: squares that fall into the subnormal range, overflowing squares (the unscaled-squares finding of
   C15 is exactly the case where the hypothesis "finite" fails for representable norms).
   ====================================================================================================== *)
From Coq Require Import Reals Floats List Lra Lia.
From OV Require Import Base.RoundModel Model.Vector Model.Iter Inst.FloatInst Proofs.ComplexRound Proofs.RoundDotFloat
  Proofs.Round2Norm2F.
Import ListNotations.

Theorem norm_2_relative_error_float : forall (v : list PrimFloat.float),
  ffinite (norm_2 (F := SAF) PrimFloat.abs v) ->
  (forall k, (k < length v)%nat -> no_underflow (FR (nth k v 0%float) * FR (nth k v 0%float))%R) ->
  (INR (length v + 1) * u64 < 1)%R ->
  exists th : R, (Rabs th <= g64 (length v + 1))%R /\
    FR (norm_2 (F := SAF) PrimFloat.abs v)
    = (R_sqrt.sqrt (Rsum (length v) (fun k => (FR (nth k v 0%float) * FR (nth k v 0%float))%R)) * (1 + th))%R.
Proof. intros v. exact (norm_2_relative_error_float_lemma v). Qed.
Check norm_2_relative_error_float : forall (v : list PrimFloat.float),
  ffinite (norm_2 (F := SAF) PrimFloat.abs v) ->
  (forall k, (k < length v)%nat -> no_underflow (FR (nth k v 0%float) * FR (nth k v 0%float))%R) ->
  (INR (length v + 1) * u64 < 1)%R ->
  exists th : R, (Rabs th <= g64 (length v + 1))%R /\
    FR (norm_2 (F := SAF) PrimFloat.abs v)
    = (R_sqrt.sqrt (Rsum (length v) (fun k => (FR (nth k v 0%float) * FR (nth k v 0%float))%R)) * (1 + th))%R.
Print Assumptions norm_2_relative_error_float.
(* [1; 1]: the norm sqrt 2 is inexact, the computed one is finite, the squares are 1 *)
Example norm_2_relative_error_float_nonvacuous :
  ffinite (norm_2 (F := SAF) PrimFloat.abs ex_n2) /\
  (forall k, (k < length ex_n2)%nat -> no_underflow (FR (nth k ex_n2 0%float) * FR (nth k ex_n2 0%float))%R) /\
  (INR (length ex_n2 + 1) * u64 < 1)%R.
Proof. exact ex_n2_conditions. Qed.

(* ======================================================================================================
   C15 (vectors), norm laws for COMPLEX and RATIONAL vectors -- package cnorm (review item A5).  Append to Props/C15.v.
   The property quantifies its norm laws over rationals, f64 and Complex<f64>; the blocks above prove them for real
   vectors.  Here, about the same model functions at the complex arithmetic over the reals
   (ComplexR.ACR = CArith ComplexR.SAR: Model/Complex.v's operators, Signed::abs z = (|z|, 0), |z| = sqrt (re^2 + im^2);
   ComplexR.SAR is the same record as the SAR of the blocks above: instances_agree) and at Qc (Inst/QcInst.v, AQ):
     cnorm_inf        Vector<Complex<f64>>::norm_inf (vec_cmplx.rs:34), the fold of Model/Vector.v that is run against the
                      implementation (kinds vec.cx, vec.cnormlaws): equal to the function regenerated from the source on this
                      run (cnorm_inf_is_source); its only panic is Index, exactly on the empty vector; over R it is THE maximum
                      of the moduli, non-negative, definite, absolutely homogeneous, and satisfies the triangle inequality;
     norm_1 at ACR    the generic norm_1 through Signed::abs: the complex number (sum of the moduli, 0); non-negative, definite,
                      homogeneous, triangle inequality;  norm_inf <= re norm_1 <= n * norm_inf;
     norm_1 at AQ     sum of the rational absolute values; the same laws;  max |x_i| <= norm_1 <= n * max |x_i|
                      (Vector<Rat> has no norm_inf in the code: the maximum is stated as an attained upper bound);
     dot at ACR       Vector::dot does NOT conjugate (functions.rs:38-46): it is the bilinear sum, not an inner product
                      (cdot_is_bilinear_not_hermitian: dot [i] [i] = -1).  The true Cauchy-Schwarz inequality for it:
                      |sum u_i v_i| <= sqrt (sum |u_i|^2) * sqrt (sum |v_i|^2).
     at Complex<f64>  (IEEE binary64 through Flocq) "exact on exactly-representable data": on Gaussian integers of integer modulus
                      (a^2 + b^2 = m^2 < 2^53, e.g. 3+4i) nothing rounds: norm_inf returns exactly max m_i, norm_1 exactly (sum m_i, +0).
     "to rounding accuracy" (standard model of floating-point arithmetic with a rounded square root, as for norm_2 above):
                      fl(|z|) = |z|(1 + th), |th| <= gam 3;  fl(norm_inf v) = max|z_i| (1 + th), |th| <= gam 3;
                      re fl(norm_1 v) = Sum |z_k| (1 + th_k), |th_k| <= gam (n+3), im fl(norm_1 v) = 0 -- for every length.
   Not proved: the standard model itself for Complex<f64> when re^2 + im^2 overflows or underflows (there the laws FAIL on the
   real code: norm_inf [1e200 + 0i] = inf, norm_inf [1e-200 + 1e-200i] = 0 -- the complex twin of the recorded finding
   f64-square-range; not in the default search); the search (kind vec.cnormlaws, 1e-12 slack) draws entries of moderate magnitude.
   ====================================================================================================== *)
From OV Require Proofs.ComplexR Proofs.VectorCx2 Proofs.VectorCx2Q Proofs.VectorCx2F Proofs.VectorCx2R gen.SrcVecCmplx.

Theorem instances_agree : VectorR.AR = ComplexR.AR /\ VectorR.SAR = ComplexR.SAR.
Proof. exact VectorCx2.instances_agree_lemma. Qed.
Check instances_agree : VectorR.AR = ComplexR.AR /\ VectorR.SAR = ComplexR.SAR.
Print Assumptions instances_agree.
Print Assumptions audit_separator.

(* ---------------------------------------------------------------- complex norm_inf: tie to the source, panic condition *)
Theorem cnorm_inf_is_source : forall (F : SArith) (v : list (cplx F)),
  SrcVecCmplx.s_cnorm_inf (F := F) v = cnorm_inf v.
Proof. intros F v. exact (VectorCx2.cnorm_inf_is_source_lemma v). Qed.
Check cnorm_inf_is_source : forall (F : SArith) (v : list (cplx F)),
  SrcVecCmplx.s_cnorm_inf (F := F) v = cnorm_inf v.
Print Assumptions cnorm_inf_is_source.

Theorem cnorm_inf_panics_iff_empty : forall (F : SArith) (v : list (cplx F)),
  (cnorm_inf v = Panic Index <-> v = []) /\
  (forall k, cnorm_inf v = Panic k -> k = Index /\ v = []) /\
  (v <> [] -> exists m, cnorm_inf v = Ok m).
Proof. intros F v. exact (VectorCx2.cnorm_inf_panic_lemma v). Qed.
Check cnorm_inf_panics_iff_empty : forall (F : SArith) (v : list (cplx F)),
  (cnorm_inf v = Panic Index <-> v = []) /\
  (forall k, cnorm_inf v = Panic k -> k = Index /\ v = []) /\
  (v <> [] -> exists m, cnorm_inf v = Ok m).
Print Assumptions cnorm_inf_panics_iff_empty.

(* ---------------------------------------------------------------- complex norm_inf over C = R x R *)
Theorem cnorm_inf_is_max : forall (v : list (cplx ComplexR.AR)) (m : R),
  cnorm_inf (F := ComplexR.SAR) v = Ok m <->
  (exists z, In z v /\ @Model.Complex.cabs ComplexR.SAR z = m) /\
  (forall z, In z v -> (@Model.Complex.cabs ComplexR.SAR z <= m)%R).
Proof. intros v m. exact (VectorCx2.cnorm_inf_max_lemma v m). Qed.
Check cnorm_inf_is_max : forall (v : list (cplx ComplexR.AR)) (m : R),
  cnorm_inf (F := ComplexR.SAR) v = Ok m <->
  (exists z, In z v /\ @Model.Complex.cabs ComplexR.SAR z = m) /\
  (forall z, In z v -> (@Model.Complex.cabs ComplexR.SAR z <= m)%R).
Print Assumptions cnorm_inf_is_max.
Print Assumptions audit_separator.

Theorem cnorm_inf_nonneg_definite : forall (v : list (cplx ComplexR.AR)) (m : R),
  cnorm_inf (F := ComplexR.SAR) v = Ok m ->
  (0 <= m)%R /\ (m = 0%R <-> forall z, In z v -> z = czero).
Proof.
  intros v m E. exact (Logic.conj (VectorCx2.cnorm_inf_nonneg_lemma v m E) (VectorCx2.cnorm_inf_definite_lemma v m E)).
Qed.
Check cnorm_inf_nonneg_definite : forall (v : list (cplx ComplexR.AR)) (m : R),
  cnorm_inf (F := ComplexR.SAR) v = Ok m ->
  (0 <= m)%R /\ (m = 0%R <-> forall z, In z v -> z = czero).
Print Assumptions cnorm_inf_nonneg_definite.
Print Assumptions audit_separator.

Theorem cnorm_inf_homogeneous : forall (v : list (cplx ComplexR.AR)) (c : cplx ComplexR.AR) (m : R),
  cnorm_inf (F := ComplexR.SAR) v = Ok m ->
  cnorm_inf (F := ComplexR.SAR) (vscale (A := ComplexR.ACR) v c) = Ok (@Model.Complex.cabs ComplexR.SAR c * m)%R.
Proof. intros v c m E. exact (VectorCx2.cnorm_inf_homog_lemma v c m E). Qed.
Check cnorm_inf_homogeneous : forall (v : list (cplx ComplexR.AR)) (c : cplx ComplexR.AR) (m : R),
  cnorm_inf (F := ComplexR.SAR) v = Ok m ->
  cnorm_inf (F := ComplexR.SAR) (vscale (A := ComplexR.ACR) v c) = Ok (@Model.Complex.cabs ComplexR.SAR c * m)%R.
Print Assumptions cnorm_inf_homogeneous.
Print Assumptions audit_separator.

Theorem cnorm_inf_triangle : forall (u v s : list (cplx ComplexR.AR)) (a b : R),
  vadd (A := ComplexR.ACR) u v = Ok s ->
  cnorm_inf (F := ComplexR.SAR) u = Ok a -> cnorm_inf (F := ComplexR.SAR) v = Ok b ->
  exists m, cnorm_inf (F := ComplexR.SAR) s = Ok m /\ (m <= a + b)%R.
Proof. intros u v s a b E Ea Eb. exact (VectorCx2.cnorm_inf_triangle_lemma u v s a b E Ea Eb). Qed.
Check cnorm_inf_triangle : forall (u v s : list (cplx ComplexR.AR)) (a b : R),
  vadd (A := ComplexR.ACR) u v = Ok s ->
  cnorm_inf (F := ComplexR.SAR) u = Ok a -> cnorm_inf (F := ComplexR.SAR) v = Ok b ->
  exists m, cnorm_inf (F := ComplexR.SAR) s = Ok m /\ (m <= a + b)%R.
Print Assumptions cnorm_inf_triangle.
Print Assumptions audit_separator.

(* ---------------------------------------------------------------- generic norm_1 at the complex instance *)
Theorem cnorm1_value : forall (v : list (cplx ComplexR.AR)),
  norm_1 (A := ComplexR.ACR) v
  = mkC (A := ComplexR.AR) (VectorR.Rsum (map (@Model.Complex.cabs ComplexR.SAR) v)) 0%R.
Proof. intros v. exact (VectorCx2.cnorm1_value_lemma v). Qed.
Check cnorm1_value : forall (v : list (cplx ComplexR.AR)),
  norm_1 (A := ComplexR.ACR) v
  = mkC (A := ComplexR.AR) (VectorR.Rsum (map (@Model.Complex.cabs ComplexR.SAR) v)) 0%R.
Print Assumptions cnorm1_value.
Print Assumptions audit_separator.

Theorem cnorm1_nonneg_definite : forall (v : list (cplx ComplexR.AR)),
  (0 <= re (norm_1 (A := ComplexR.ACR) v))%R /\ im (norm_1 (A := ComplexR.ACR) v) = 0%R /\
  (norm_1 (A := ComplexR.ACR) v = czero <-> forall z, In z v -> z = czero).
Proof.
  intros v. exact (Logic.conj (proj1 (VectorCx2.cnorm1_nonneg_lemma v))
                  (Logic.conj (proj2 (VectorCx2.cnorm1_nonneg_lemma v)) (VectorCx2.cnorm1_definite_lemma v))).
Qed.
Check cnorm1_nonneg_definite : forall (v : list (cplx ComplexR.AR)),
  (0 <= re (norm_1 (A := ComplexR.ACR) v))%R /\ im (norm_1 (A := ComplexR.ACR) v) = 0%R /\
  (norm_1 (A := ComplexR.ACR) v = czero <-> forall z, In z v -> z = czero).
Print Assumptions cnorm1_nonneg_definite.
Print Assumptions audit_separator.

Theorem cnorm1_homogeneous : forall (v : list (cplx ComplexR.AR)) (c : cplx ComplexR.AR),
  norm_1 (A := ComplexR.ACR) (vscale (A := ComplexR.ACR) v c)
  = @Base.Arith.mul ComplexR.ACR (@Base.Arith.abs ComplexR.ACR c) (norm_1 (A := ComplexR.ACR) v) /\
  re (norm_1 (A := ComplexR.ACR) (vscale (A := ComplexR.ACR) v c))
  = (@Model.Complex.cabs ComplexR.SAR c * re (norm_1 (A := ComplexR.ACR) v))%R.
Proof. intros v c. exact (VectorCx2.cnorm1_homog_lemma v c). Qed.
Check cnorm1_homogeneous : forall (v : list (cplx ComplexR.AR)) (c : cplx ComplexR.AR),
  norm_1 (A := ComplexR.ACR) (vscale (A := ComplexR.ACR) v c)
  = @Base.Arith.mul ComplexR.ACR (@Base.Arith.abs ComplexR.ACR c) (norm_1 (A := ComplexR.ACR) v) /\
  re (norm_1 (A := ComplexR.ACR) (vscale (A := ComplexR.ACR) v c))
  = (@Model.Complex.cabs ComplexR.SAR c * re (norm_1 (A := ComplexR.ACR) v))%R.
Print Assumptions cnorm1_homogeneous.
Print Assumptions audit_separator.

Theorem cnorm1_triangle : forall (u v s : list (cplx ComplexR.AR)), vadd (A := ComplexR.ACR) u v = Ok s ->
  (re (norm_1 (A := ComplexR.ACR) s) <= re (norm_1 (A := ComplexR.ACR) u) + re (norm_1 (A := ComplexR.ACR) v))%R.
Proof. intros u v s E. exact (VectorCx2.cnorm1_triangle_lemma u v s E). Qed.
Check cnorm1_triangle : forall (u v s : list (cplx ComplexR.AR)), vadd (A := ComplexR.ACR) u v = Ok s ->
  (re (norm_1 (A := ComplexR.ACR) s) <= re (norm_1 (A := ComplexR.ACR) u) + re (norm_1 (A := ComplexR.ACR) v))%R.
Print Assumptions cnorm1_triangle.
Print Assumptions audit_separator.

Theorem cnorm_chain : forall (v : list (cplx ComplexR.AR)) (m : R), cnorm_inf (F := ComplexR.SAR) v = Ok m ->
  (m <= re (norm_1 (A := ComplexR.ACR) v))%R /\ (re (norm_1 (A := ComplexR.ACR) v) <= INR (length v) * m)%R.
Proof. intros v m E. exact (VectorCx2.cnorm_inf_le_norm1_lemma v m E). Qed.
Check cnorm_chain : forall (v : list (cplx ComplexR.AR)) (m : R), cnorm_inf (F := ComplexR.SAR) v = Ok m ->
  (m <= re (norm_1 (A := ComplexR.ACR) v))%R /\ (re (norm_1 (A := ComplexR.ACR) v) <= INR (length v) * m)%R.
Print Assumptions cnorm_chain.
Print Assumptions audit_separator.

(* ---------------------------------------------------------------- Cauchy-Schwarz for the bilinear complex dot *)
Theorem cdot_cauchy_schwarz : forall (u v : list (cplx ComplexR.AR)) (d : cplx ComplexR.AR),
  dot (A := ComplexR.ACR) u v = Ok d ->
  (@Model.Complex.cabs ComplexR.SAR d
   <= R_sqrt.sqrt (VectorR.Rsum (map (fun z : cplx ComplexR.AR => re z * re z + im z * im z) u)) *
      R_sqrt.sqrt (VectorR.Rsum (map (fun z : cplx ComplexR.AR => re z * re z + im z * im z) v)))%R.
Proof. intros u v d E. exact (VectorCx2.cdot_cauchy_schwarz_lemma u v d E). Qed.
Check cdot_cauchy_schwarz : forall (u v : list (cplx ComplexR.AR)) (d : cplx ComplexR.AR),
  dot (A := ComplexR.ACR) u v = Ok d ->
  (@Model.Complex.cabs ComplexR.SAR d
   <= R_sqrt.sqrt (VectorR.Rsum (map (fun z : cplx ComplexR.AR => re z * re z + im z * im z) u)) *
      R_sqrt.sqrt (VectorR.Rsum (map (fun z : cplx ComplexR.AR => re z * re z + im z * im z) v)))%R.
Print Assumptions cdot_cauchy_schwarz.
Print Assumptions audit_separator.

Theorem cdot_is_bilinear_not_hermitian :
  dot (A := ComplexR.ACR) [mkC (A := ComplexR.AR) 0%R 1%R] [mkC (A := ComplexR.AR) 0%R 1%R]
  = Ok (mkC (A := ComplexR.AR) (-1)%R 0%R).
Proof. exact VectorCx2.cdot_not_hermitian. Qed.
Check cdot_is_bilinear_not_hermitian :
  dot (A := ComplexR.ACR) [mkC (A := ComplexR.AR) 0%R 1%R] [mkC (A := ComplexR.AR) 0%R 1%R]
  = Ok (mkC (A := ComplexR.AR) (-1)%R 0%R).
Print Assumptions cdot_is_bilinear_not_hermitian.
Print Assumptions audit_separator.

(* the raw loop (combine stops at the shorter vector) satisfies the same inequality without the size guard *)
Theorem cdot_raw_cauchy_schwarz : forall (u v : list (cplx ComplexR.AR)),
  (@Model.Complex.cabs ComplexR.SAR (dot_raw (A := ComplexR.ACR) u v)
   <= R_sqrt.sqrt (VectorR.Rsum (map (fun z : cplx ComplexR.AR => re z * re z + im z * im z) u)) *
      R_sqrt.sqrt (VectorR.Rsum (map (fun z : cplx ComplexR.AR => re z * re z + im z * im z) v)))%R.
Proof. intros u v. exact (VectorCx2.cdot_raw_cauchy_schwarz_lemma u v). Qed.
Check cdot_raw_cauchy_schwarz : forall (u v : list (cplx ComplexR.AR)),
  (@Model.Complex.cabs ComplexR.SAR (dot_raw (A := ComplexR.ACR) u v)
   <= R_sqrt.sqrt (VectorR.Rsum (map (fun z : cplx ComplexR.AR => re z * re z + im z * im z) u)) *
      R_sqrt.sqrt (VectorR.Rsum (map (fun z : cplx ComplexR.AR => re z * re z + im z * im z) v)))%R.
Print Assumptions cdot_raw_cauchy_schwarz.
Print Assumptions audit_separator.

(* the complex norms are the REAL norms (the functions of the blocks above, at VectorR.SAR) of the vector of moduli *)
Theorem cnorm_via_moduli : forall (v : list (cplx ComplexR.AR)),
  cnorm_inf (F := ComplexR.SAR) v
  = Model.Vector.norm_inf (F := VectorR.SAR) Rabs (map (@Model.Complex.cabs ComplexR.SAR) v) /\
  norm_1 (A := ComplexR.ACR) v
  = mkC (A := ComplexR.AR) (norm_1 (A := VectorR.AR) (map (@Model.Complex.cabs ComplexR.SAR) v)) 0%R.
Proof. intros v. exact (VectorCx2.cnorm_via_moduli_lemma v). Qed.
Check cnorm_via_moduli : forall (v : list (cplx ComplexR.AR)),
  cnorm_inf (F := ComplexR.SAR) v
  = Model.Vector.norm_inf (F := VectorR.SAR) Rabs (map (@Model.Complex.cabs ComplexR.SAR) v) /\
  norm_1 (A := ComplexR.ACR) v
  = mkC (A := ComplexR.AR) (norm_1 (A := VectorR.AR) (map (@Model.Complex.cabs ComplexR.SAR) v)) 0%R.
Print Assumptions cnorm_via_moduli.
Print Assumptions audit_separator.

(* non-vacuity of the hypotheses of the complex laws: a concrete sum of equal-length complex vectors is defined, norm_inf of a
   non-empty complex vector is a value (5 = |3 + 4i|), and the dot product of equal-length vectors is a value *)
Example cnorm_laws_nonvacuous :
  vadd (A := ComplexR.ACR) [mkC (A := ComplexR.AR) 3%R 4%R; mkC (A := ComplexR.AR) 0%R (-1)%R]
                           [mkC (A := ComplexR.AR) 1%R 0%R; mkC (A := ComplexR.AR) 2%R 2%R]
  = Ok [@Base.Arith.add ComplexR.ACR (mkC (A := ComplexR.AR) 3%R 4%R) (mkC (A := ComplexR.AR) 1%R 0%R);
        @Base.Arith.add ComplexR.ACR (mkC (A := ComplexR.AR) 0%R (-1)%R) (mkC (A := ComplexR.AR) 2%R 2%R)] /\
  (exists m, cnorm_inf (F := ComplexR.SAR) [mkC (A := ComplexR.AR) 3%R 4%R; mkC (A := ComplexR.AR) 0%R (-1)%R] = Ok m) /\
  (exists d, dot (A := ComplexR.ACR) [mkC (A := ComplexR.AR) 3%R 4%R] [mkC (A := ComplexR.AR) 1%R 0%R] = Ok d).
Proof.
  split; [reflexivity|]. split; [|eexists; reflexivity].
  apply (proj2 (proj2 (VectorCx2.cnorm_inf_panic_lemma (F := ComplexR.SAR) _))). discriminate.
Qed.

(* ---------------------------------------------------------------- generic norm_1 at Qc (rational vectors) *)
Theorem qnorm1_value : forall (v : list Qc), norm_1 (A := AQ) v = VectorCx2Q.Qcsum (map Qcabs.Qcabs v).
Proof. intros v. exact (VectorCx2Q.qnorm1_value_lemma v). Qed.
Check qnorm1_value : forall (v : list Qc), norm_1 (A := AQ) v = VectorCx2Q.Qcsum (map Qcabs.Qcabs v).
Print Assumptions qnorm1_value.

Theorem qnorm1_nonneg_definite : forall (v : list Qc),
  (0 <= norm_1 (A := AQ) v)%Qc /\ (norm_1 (A := AQ) v = 0%Qc <-> forall x, In x v -> x = 0%Qc).
Proof. intros v. exact (Logic.conj (VectorCx2Q.qnorm1_nonneg_lemma v) (VectorCx2Q.qnorm1_definite_lemma v)). Qed.
Check qnorm1_nonneg_definite : forall (v : list Qc),
  (0 <= norm_1 (A := AQ) v)%Qc /\ (norm_1 (A := AQ) v = 0%Qc <-> forall x, In x v -> x = 0%Qc).
Print Assumptions qnorm1_nonneg_definite.

Theorem qnorm1_homogeneous : forall (v : list Qc) (c : Qc),
  norm_1 (A := AQ) (vscale (A := AQ) v c) = (Qcabs.Qcabs c * norm_1 (A := AQ) v)%Qc.
Proof. intros v c. exact (VectorCx2Q.qnorm1_homog_lemma v c). Qed.
Check qnorm1_homogeneous : forall (v : list Qc) (c : Qc),
  norm_1 (A := AQ) (vscale (A := AQ) v c) = (Qcabs.Qcabs c * norm_1 (A := AQ) v)%Qc.
Print Assumptions qnorm1_homogeneous.

Theorem qnorm1_triangle : forall (u v s : list Qc), vadd (A := AQ) u v = Ok s ->
  (norm_1 (A := AQ) s <= norm_1 (A := AQ) u + norm_1 (A := AQ) v)%Qc.
Proof. intros u v s E. exact (VectorCx2Q.qnorm1_triangle_lemma u v s E). Qed.
Check qnorm1_triangle : forall (u v s : list Qc), vadd (A := AQ) u v = Ok s ->
  (norm_1 (A := AQ) s <= norm_1 (A := AQ) u + norm_1 (A := AQ) v)%Qc.
Print Assumptions qnorm1_triangle.

Theorem qnorm_chain : forall (v : list Qc), v <> [] ->
  exists x, In x v /\ (forall y, In y v -> (Qcabs.Qcabs y <= Qcabs.Qcabs x)%Qc) /\
            (Qcabs.Qcabs x <= norm_1 (A := AQ) v)%Qc /\
            (norm_1 (A := AQ) v <= VectorCx2Q.Qc_of_nat (length v) * Qcabs.Qcabs x)%Qc.
Proof. intros v H. exact (VectorCx2Q.qnorm_chain_lemma v H). Qed.
Check qnorm_chain : forall (v : list Qc), v <> [] ->
  exists x, In x v /\ (forall y, In y v -> (Qcabs.Qcabs y <= Qcabs.Qcabs x)%Qc) /\
            (Qcabs.Qcabs x <= norm_1 (A := AQ) v)%Qc /\
            (norm_1 (A := AQ) v <= VectorCx2Q.Qc_of_nat (length v) * Qcabs.Qcabs x)%Qc.
Print Assumptions qnorm_chain.

(* the model's Signed::abs on Qc (`if x < 0 {-x} else {x}`) IS the rational absolute value used in the statements above *)
Theorem qabs_is_abs : forall x : Qc, @Base.Arith.abs AQ x = Qcabs.Qcabs x.
Proof. intros x. exact (VectorCx2Q.Qc_abs_Qcabs x). Qed.
Check qabs_is_abs : forall x : Qc, @Base.Arith.abs AQ x = Qcabs.Qcabs x.
Print Assumptions qabs_is_abs.

Example qnorm_laws_nonvacuous :
  vadd (A := AQ) [q 1 2; q (-3) 1] [q 1 1; q 1 1] = Ok [@Base.Arith.add AQ (q 1 2) (q 1 1); @Base.Arith.add AQ (q (-3) 1) (q 1 1)] /\
  [q 1 2; q (-3) 1] <> [].
Proof. split; [reflexivity|discriminate]. Qed.

(* ---------------------------------------------------------------- Complex<f64>: exact on exactly-representable data (Flocq) *)
(* [VectorCx2F.GaussExact z m]: the two components of z hold integers a, b (finite floats of these values) with
   a*a + b*b = m*m, 0 <= m, m*m < 2^53 -- a Gaussian integer of integer modulus m.  [ExactW x z]: x is finite, of value z. *)
Theorem cnorm_inf_exact_float : forall (z0 : cplx AF) (t : list (cplx AF)) (m0 : Z) (ms : list Z),
  VectorCx2F.GaussExact z0 m0 -> Forall2 VectorCx2F.GaussExact t ms ->
  exists r, cnorm_inf (F := SAF) (z0 :: t) = Ok r /\ ParDotFloat.ExactW r (VectorCx2F.zmaxl m0 ms) /\
            In (VectorCx2F.zmaxl m0 ms) (m0 :: ms) /\ (forall m, In m (m0 :: ms) -> (m <= VectorCx2F.zmaxl m0 ms)%Z).
Proof.
  intros z0 t m0 ms H0 Ht. destruct (VectorCx2F.cnorm_inf_exact_float_lemma z0 t m0 ms H0 Ht) as (r & E & X).
  exists r. exact (Logic.conj E (Logic.conj X (VectorCx2F.zmaxl_spec m0 ms))).
Qed.
Check cnorm_inf_exact_float : forall (z0 : cplx AF) (t : list (cplx AF)) (m0 : Z) (ms : list Z),
  VectorCx2F.GaussExact z0 m0 -> Forall2 VectorCx2F.GaussExact t ms ->
  exists r, cnorm_inf (F := SAF) (z0 :: t) = Ok r /\ ParDotFloat.ExactW r (VectorCx2F.zmaxl m0 ms) /\
            In (VectorCx2F.zmaxl m0 ms) (m0 :: ms) /\ (forall m, In m (m0 :: ms) -> (m <= VectorCx2F.zmaxl m0 ms)%Z).
Print Assumptions cnorm_inf_exact_float.
Print Assumptions audit_separator.

Theorem cnorm1_exact_float : forall (v : list (cplx AF)) (ms : list Z),
  Forall2 VectorCx2F.GaussExact v ms -> (VectorFloat.zsuml ms < 2 ^ 53)%Z ->
  ParDotFloat.ExactW (re (norm_1 (A := ACF) v)) (VectorFloat.zsuml ms) /\ im (norm_1 (A := ACF) v) = 0%float.
Proof. intros v ms Hv Hb. exact (VectorCx2F.cnorm1_exact_float_lemma v ms Hv Hb). Qed.
Check cnorm1_exact_float : forall (v : list (cplx AF)) (ms : list Z),
  Forall2 VectorCx2F.GaussExact v ms -> (VectorFloat.zsuml ms < 2 ^ 53)%Z ->
  ParDotFloat.ExactW (re (norm_1 (A := ACF) v)) (VectorFloat.zsuml ms) /\ im (norm_1 (A := ACF) v) = 0%float.
Print Assumptions cnorm1_exact_float.
Print Assumptions audit_separator.

(* non-vacuity: [3+4i; -5; -5+12i] are Gaussian integers of moduli 5, 5, 13; their sum 23 is below 2^53 *)
Example cnorm_exact_float_nonvacuous :
  Forall2 VectorCx2F.GaussExact VectorCx2F.exc_v VectorCx2F.exc_m /\ (VectorFloat.zsuml VectorCx2F.exc_m < 2 ^ 53)%Z.
Proof. split; [exact VectorCx2F.exc_exact|]. vm_compute. reflexivity. Qed.

(* ---------------------------------------------------------------- complex norms "to rounding accuracy" (standard model) *)
(* The same Gallina functions at the standard-model arithmetic (RoundModel.ARm: every + and * is the exact result times (1+d),
   |d| <= u; RoundNorm2.SARm adds the rounded square root), as for norm_2_relative_error above.  Comparisons are exact. *)
Theorem cabs_relative_error : forall (u : R), (0 <= u < 1)%R ->
  forall (fadd fsub fmul fdiv : R -> R -> R) (fsqrt : R -> R),
  (forall x y : R, exists d : R, (Rabs d <= u)%R /\ fadd x y = ((x + y) * (1 + d))%R) ->
  (forall x y : R, exists d : R, (Rabs d <= u)%R /\ fmul x y = (x * y * (1 + d))%R) ->
  (forall x : R, (0 <= x)%R -> exists d : R, (Rabs d <= u)%R /\ fsqrt x = (R_sqrt.sqrt x * (1 + d))%R) ->
  forall (z : cplx (RoundModel.ARm fadd fsub fmul fdiv)), (INR 3 * u < 1)%R ->
  exists th : R, (Rabs th <= RoundModel.gam u 3)%R /\
    (@Model.Complex.cabs (RoundNorm2.SARm fadd fsub fmul fdiv fsqrt) z : R) = (R_sqrt.sqrt (re z * re z + im z * im z) * (1 + th))%R.
Proof. intros u Hu fadd fsub fmul fdiv fsqrt Ha Hm Hs z. exact (VectorCx2R.cabs_relative_error_lemma u Hu fadd fsub fmul fdiv fsqrt Ha Hm Hs z). Qed.
Check cabs_relative_error : forall (u : R), (0 <= u < 1)%R ->
  forall (fadd fsub fmul fdiv : R -> R -> R) (fsqrt : R -> R),
  (forall x y : R, exists d : R, (Rabs d <= u)%R /\ fadd x y = ((x + y) * (1 + d))%R) ->
  (forall x y : R, exists d : R, (Rabs d <= u)%R /\ fmul x y = (x * y * (1 + d))%R) ->
  (forall x : R, (0 <= x)%R -> exists d : R, (Rabs d <= u)%R /\ fsqrt x = (R_sqrt.sqrt x * (1 + d))%R) ->
  forall (z : cplx (RoundModel.ARm fadd fsub fmul fdiv)), (INR 3 * u < 1)%R ->
  exists th : R, (Rabs th <= RoundModel.gam u 3)%R /\
    (@Model.Complex.cabs (RoundNorm2.SARm fadd fsub fmul fdiv fsqrt) z : R) = (R_sqrt.sqrt (re z * re z + im z * im z) * (1 + th))%R.
Print Assumptions cabs_relative_error.
Print Assumptions audit_separator.

Theorem cnorm_inf_relative_error : forall (u : R), (0 <= u < 1)%R ->
  forall (fadd fsub fmul fdiv : R -> R -> R) (fsqrt : R -> R),
  (forall x y : R, exists d : R, (Rabs d <= u)%R /\ fadd x y = ((x + y) * (1 + d))%R) ->
  (forall x y : R, exists d : R, (Rabs d <= u)%R /\ fmul x y = (x * y * (1 + d))%R) ->
  (forall x : R, (0 <= x)%R -> exists d : R, (Rabs d <= u)%R /\ fsqrt x = (R_sqrt.sqrt x * (1 + d))%R) ->
  forall (v : list (cplx (RoundModel.ARm fadd fsub fmul fdiv))) (m : R), (INR 3 * u < 1)%R ->
  cnorm_inf (F := RoundNorm2.SARm fadd fsub fmul fdiv fsqrt) v = Ok m ->
  exists (z : cplx (RoundModel.ARm fadd fsub fmul fdiv)) (th : R), In z v /\
    (forall w, In w v -> (R_sqrt.sqrt (re w * re w + im w * im w) <= R_sqrt.sqrt (re z * re z + im z * im z))%R) /\
    (Rabs th <= RoundModel.gam u 3)%R /\ m = (R_sqrt.sqrt (re z * re z + im z * im z) * (1 + th))%R.
Proof. intros u Hu fadd fsub fmul fdiv fsqrt Ha Hm Hs v m. exact (VectorCx2R.cnorm_inf_relative_error_lemma u Hu fadd fsub fmul fdiv fsqrt Ha Hm Hs v m). Qed.
Check cnorm_inf_relative_error : forall (u : R), (0 <= u < 1)%R ->
  forall (fadd fsub fmul fdiv : R -> R -> R) (fsqrt : R -> R),
  (forall x y : R, exists d : R, (Rabs d <= u)%R /\ fadd x y = ((x + y) * (1 + d))%R) ->
  (forall x y : R, exists d : R, (Rabs d <= u)%R /\ fmul x y = (x * y * (1 + d))%R) ->
  (forall x : R, (0 <= x)%R -> exists d : R, (Rabs d <= u)%R /\ fsqrt x = (R_sqrt.sqrt x * (1 + d))%R) ->
  forall (v : list (cplx (RoundModel.ARm fadd fsub fmul fdiv))) (m : R), (INR 3 * u < 1)%R ->
  cnorm_inf (F := RoundNorm2.SARm fadd fsub fmul fdiv fsqrt) v = Ok m ->
  exists (z : cplx (RoundModel.ARm fadd fsub fmul fdiv)) (th : R), In z v /\
    (forall w, In w v -> (R_sqrt.sqrt (re w * re w + im w * im w) <= R_sqrt.sqrt (re z * re z + im z * im z))%R) /\
    (Rabs th <= RoundModel.gam u 3)%R /\ m = (R_sqrt.sqrt (re z * re z + im z * im z) * (1 + th))%R.
Print Assumptions cnorm_inf_relative_error.
Print Assumptions audit_separator.

Theorem cnorm1_backward_error : forall (u : R), (0 <= u < 1)%R ->
  forall (fadd fsub fmul fdiv : R -> R -> R) (fsqrt : R -> R),
  (forall x y : R, exists d : R, (Rabs d <= u)%R /\ fadd x y = ((x + y) * (1 + d))%R) ->
  (forall x y : R, exists d : R, (Rabs d <= u)%R /\ fmul x y = (x * y * (1 + d))%R) ->
  (forall x : R, (0 <= x)%R -> exists d : R, (Rabs d <= u)%R /\ fsqrt x = (R_sqrt.sqrt x * (1 + d))%R) ->
  forall (v : list (cplx (RoundModel.ARm fadd fsub fmul fdiv))), (INR (length v + 3) * u < 1)%R ->
  exists th : nat -> R,
    (forall k, k < length v -> (Rabs (th k) <= RoundModel.gam u (length v + 3))%R) /\
    re (norm_1 (A := CArith (RoundNorm2.SARm fadd fsub fmul fdiv fsqrt)) v)
    = RoundModel.Rsum (length v) (fun k => (R_sqrt.sqrt (re (nth k v (@czero (RoundModel.ARm fadd fsub fmul fdiv))) * re (nth k v (@czero (RoundModel.ARm fadd fsub fmul fdiv))) + im (nth k v (@czero (RoundModel.ARm fadd fsub fmul fdiv))) * im (nth k v (@czero (RoundModel.ARm fadd fsub fmul fdiv)))) * (1 + th k))%R) /\
    im (norm_1 (A := CArith (RoundNorm2.SARm fadd fsub fmul fdiv fsqrt)) v) = 0%R.
Proof. intros u Hu fadd fsub fmul fdiv fsqrt Ha Hm Hs v. exact (VectorCx2R.cnorm1_backward_error_lemma u Hu fadd fsub fmul fdiv fsqrt Ha Hm Hs v). Qed.
Check cnorm1_backward_error : forall (u : R), (0 <= u < 1)%R ->
  forall (fadd fsub fmul fdiv : R -> R -> R) (fsqrt : R -> R),
  (forall x y : R, exists d : R, (Rabs d <= u)%R /\ fadd x y = ((x + y) * (1 + d))%R) ->
  (forall x y : R, exists d : R, (Rabs d <= u)%R /\ fmul x y = (x * y * (1 + d))%R) ->
  (forall x : R, (0 <= x)%R -> exists d : R, (Rabs d <= u)%R /\ fsqrt x = (R_sqrt.sqrt x * (1 + d))%R) ->
  forall (v : list (cplx (RoundModel.ARm fadd fsub fmul fdiv))), (INR (length v + 3) * u < 1)%R ->
  exists th : nat -> R,
    (forall k, k < length v -> (Rabs (th k) <= RoundModel.gam u (length v + 3))%R) /\
    re (norm_1 (A := CArith (RoundNorm2.SARm fadd fsub fmul fdiv fsqrt)) v)
    = RoundModel.Rsum (length v) (fun k => (R_sqrt.sqrt (re (nth k v (@czero (RoundModel.ARm fadd fsub fmul fdiv))) * re (nth k v (@czero (RoundModel.ARm fadd fsub fmul fdiv))) + im (nth k v (@czero (RoundModel.ARm fadd fsub fmul fdiv))) * im (nth k v (@czero (RoundModel.ARm fadd fsub fmul fdiv)))) * (1 + th k))%R) /\
    im (norm_1 (A := CArith (RoundNorm2.SARm fadd fsub fmul fdiv fsqrt)) v) = 0%R.
Print Assumptions cnorm1_backward_error.
Print Assumptions audit_separator.

Theorem cnorm1_relative_error : forall (u : R), (0 <= u < 1)%R ->
  forall (fadd fsub fmul fdiv : R -> R -> R) (fsqrt : R -> R),
  (forall x y : R, exists d : R, (Rabs d <= u)%R /\ fadd x y = ((x + y) * (1 + d))%R) ->
  (forall x y : R, exists d : R, (Rabs d <= u)%R /\ fmul x y = (x * y * (1 + d))%R) ->
  (forall x : R, (0 <= x)%R -> exists d : R, (Rabs d <= u)%R /\ fsqrt x = (R_sqrt.sqrt x * (1 + d))%R) ->
  forall (v : list (cplx (RoundModel.ARm fadd fsub fmul fdiv))), (INR (length v + 3) * u < 1)%R ->
  (Rabs (re (norm_1 (A := CArith (RoundNorm2.SARm fadd fsub fmul fdiv fsqrt)) v)
         - RoundModel.Rsum (length v) (fun k => R_sqrt.sqrt (re (nth k v (@czero (RoundModel.ARm fadd fsub fmul fdiv))) * re (nth k v (@czero (RoundModel.ARm fadd fsub fmul fdiv))) + im (nth k v (@czero (RoundModel.ARm fadd fsub fmul fdiv))) * im (nth k v (@czero (RoundModel.ARm fadd fsub fmul fdiv))))))
   <= RoundModel.gam u (length v + 3) * RoundModel.Rsum (length v) (fun k => R_sqrt.sqrt (re (nth k v (@czero (RoundModel.ARm fadd fsub fmul fdiv))) * re (nth k v (@czero (RoundModel.ARm fadd fsub fmul fdiv))) + im (nth k v (@czero (RoundModel.ARm fadd fsub fmul fdiv))) * im (nth k v (@czero (RoundModel.ARm fadd fsub fmul fdiv))))))%R.
Proof. intros u Hu fadd fsub fmul fdiv fsqrt Ha Hm Hs v. exact (VectorCx2R.cnorm1_relative_error_lemma u Hu fadd fsub fmul fdiv fsqrt Ha Hm Hs v). Qed.
Check cnorm1_relative_error : forall (u : R), (0 <= u < 1)%R ->
  forall (fadd fsub fmul fdiv : R -> R -> R) (fsqrt : R -> R),
  (forall x y : R, exists d : R, (Rabs d <= u)%R /\ fadd x y = ((x + y) * (1 + d))%R) ->
  (forall x y : R, exists d : R, (Rabs d <= u)%R /\ fmul x y = (x * y * (1 + d))%R) ->
  (forall x : R, (0 <= x)%R -> exists d : R, (Rabs d <= u)%R /\ fsqrt x = (R_sqrt.sqrt x * (1 + d))%R) ->
  forall (v : list (cplx (RoundModel.ARm fadd fsub fmul fdiv))), (INR (length v + 3) * u < 1)%R ->
  (Rabs (re (norm_1 (A := CArith (RoundNorm2.SARm fadd fsub fmul fdiv fsqrt)) v)
         - RoundModel.Rsum (length v) (fun k => R_sqrt.sqrt (re (nth k v (@czero (RoundModel.ARm fadd fsub fmul fdiv))) * re (nth k v (@czero (RoundModel.ARm fadd fsub fmul fdiv))) + im (nth k v (@czero (RoundModel.ARm fadd fsub fmul fdiv))) * im (nth k v (@czero (RoundModel.ARm fadd fsub fmul fdiv))))))
   <= RoundModel.gam u (length v + 3) * RoundModel.Rsum (length v) (fun k => R_sqrt.sqrt (re (nth k v (@czero (RoundModel.ARm fadd fsub fmul fdiv))) * re (nth k v (@czero (RoundModel.ARm fadd fsub fmul fdiv))) + im (nth k v (@czero (RoundModel.ARm fadd fsub fmul fdiv))) * im (nth k v (@czero (RoundModel.ARm fadd fsub fmul fdiv))))))%R.
Print Assumptions cnorm1_relative_error.
Print Assumptions audit_separator.

(* the hypotheses are met by 53-bit round-to-nearest-even after every operation, the square root included *)
Example cnorm_relative_error_nonvacuous :
  (0 <= ux < 1)%R /\
  (forall x y : R, exists d : R, (Rabs d <= ux)%R /\ xadd x y = ((x + y) * (1 + d))%R) /\
  (forall x y : R, exists d : R, (Rabs d <= ux)%R /\ xmul x y = (x * y * (1 + d))%R) /\
  (forall x : R, (0 <= x)%R -> exists d : R, (Rabs d <= ux)%R /\ rndx (R_sqrt.sqrt x) = (R_sqrt.sqrt x * (1 + d))%R) /\
  (INR (2 + 3) * ux < 1)%R.
Proof.
  split; [exact ux_range|]. split; [exact xadd_ok|]. split; [exact xmul_ok|].
  split; [intros x _; apply rndx_rel|cbn [Nat.add INR]; pose proof ux_small; lra].
Qed.
