(* Props/C15.v -- stub, to be filled in *)
