(* Props/C19.v -- stub, to be filled in *)
