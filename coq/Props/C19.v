(* Props/C19.v -- property theorems only: Theorem / exact lemma / Check (pins the statement) /
   Print Assumptions, and beside every implication an Example showing its hypotheses are met by a
   concrete non-trivial input.

   C19: meshes return what was stored through every access path; piecewise-linear interpolation
   returns nodal values at nodes and the linear interpolant inside a cell; trapezium quadrature is
   the sum of the cell contributions and exact on (bi)linear data; a written 1-D mesh reads back.

   Storage theorems: any arithmetic A, any coordinate type X, all sizes (Closed under the global
   context).  Interpolation / quadrature: the same model functions at the arithmetic AR of the
   reals (Proofs/MeshBase.v), the window being the constant snapR regenerated from the source;
   [spaced snap xs] = consecutive nodes more than 2*snap apart (strictly increasing).
   NOT proved (DESIGN 10): floating-point accuracy of the f64 instance (tied bit-for-bit to the
   implementation and searched on every check), number formatting (abstract: parse (fmt x) = x). *)
From Coq Require Import List Arith Bool Reals Lra.
From OV Require Import Base.Panic.
From OV Require Import Base.Arith.
From OV Require Import Model.Vector.
From OV Require Import Model.Matrix.
From OV Require Import Model.Mesh.
From OV Require Import Inst.QcInst.
From OV Require Import Proofs.MeshBase.
From OV Require Import Proofs.MeshStore.
From OV Require Import Proofs.MeshQuad.
From OV Require Import Proofs.MeshInterp.
From OV Require Import Proofs.MeshIO.
From OV Require Import Proofs.MeshInterp2.
From OV Require Import Proofs.MeshQuad2.
From OV Require Import Proofs.MeshIO2.
From OV Require Import Model.MeshOps.
From OV Require Import Proofs.MeshHist.
Import ListNotations.

(* a 3 x 2 grid with 2 variables per node, over the rationals, coordinates in nat *)
Definition ex_m2 : mesh2 AQ nat := mesh2_new [10; 20; 30] [1; 2] 2.
Definition ex_m1 : mesh1 AQ nat := mesh1_new [10; 20; 30] 2.
Lemma ex_m2_wf : wf2 ex_m2. Proof. apply mesh2_new_wf. Qed.
Lemma ex_m1_wf : wf1 ex_m1. Proof. apply mesh1_new_wf. Qed.

(* ------------------------------------------------------------------ P1: storage laws *)

Theorem mesh1_get_set : forall (A : Arith) (X : Type) (m : mesh1 A X) node v,
  wf1 m -> node < nnodes1 m -> length v = m1_nvars m ->
  exists m', set_nodes_vars1 m node v = Ok m' /\ wf1 m' /\
    m1_nodes m' = m1_nodes m /\ m1_nvars m' = m1_nvars m /\
    (forall node', node' < nnodes1 m ->
       get_nodes_vars1 m' node' = if node =? node' then Ok v else get_nodes_vars1 m node') /\
    (forall node', index1 m' node' = if node =? node' then Ok v else index1 m node').
Proof. intros A X m node v. exact (MeshStore.mesh1_get_set m node v). Qed.
Check mesh1_get_set : forall (A : Arith) (X : Type) (m : mesh1 A X) node v,
  wf1 m -> node < nnodes1 m -> length v = m1_nvars m ->
  exists m', set_nodes_vars1 m node v = Ok m' /\ wf1 m' /\
    m1_nodes m' = m1_nodes m /\ m1_nvars m' = m1_nvars m /\
    (forall node', node' < nnodes1 m ->
       get_nodes_vars1 m' node' = if node =? node' then Ok v else get_nodes_vars1 m node') /\
    (forall node', index1 m' node' = if node =? node' then Ok v else index1 m node').
Print Assumptions mesh1_get_set.
Example mesh1_get_set_nonvacuous : wf1 ex_m1 /\ 2 < nnodes1 ex_m1 /\ length [q 5 1; q 7 2] = m1_nvars ex_m1.
Proof. split; [exact ex_m1_wf|]. cbn. auto. Qed.

Theorem mesh2_get_set : forall (A : Arith) (X : Type) (m : mesh2 A X) i j v,
  wf2 m -> i < m2_nx m -> j < m2_ny m -> length v = m2_nvars m ->
  exists m', set_nodes_vars2 m i j v = Ok m' /\ wf2 m' /\ shape2_eq m' m /\
    (forall i' j', i' < m2_nx m -> j' < m2_ny m ->
       get_nodes_vars2 m' i' j' = if (i =? i') && (j =? j') then Ok v else get_nodes_vars2 m i' j') /\
    (forall i' j', i' < m2_nx m -> j' < m2_ny m ->
       index2 m' i' j' = if (i =? i') && (j =? j') then Ok v else index2 m i' j').
Proof. intros A X m i j v. exact (MeshStore.mesh2_get_set m i j v). Qed.
Check mesh2_get_set : forall (A : Arith) (X : Type) (m : mesh2 A X) i j v,
  wf2 m -> i < m2_nx m -> j < m2_ny m -> length v = m2_nvars m ->
  exists m', set_nodes_vars2 m i j v = Ok m' /\ wf2 m' /\ shape2_eq m' m /\
    (forall i' j', i' < m2_nx m -> j' < m2_ny m ->
       get_nodes_vars2 m' i' j' = if (i =? i') && (j =? j') then Ok v else get_nodes_vars2 m i' j') /\
    (forall i' j', i' < m2_nx m -> j' < m2_ny m ->
       index2 m' i' j' = if (i =? i') && (j =? j') then Ok v else index2 m i' j').
Print Assumptions mesh2_get_set.
Example mesh2_get_set_nonvacuous :
  wf2 ex_m2 /\ 2 < m2_nx ex_m2 /\ 1 < m2_ny ex_m2 /\ length [q 5 1; q 7 2] = m2_nvars ex_m2.
Proof. split; [exact ex_m2_wf|]. cbn. auto. Qed.

(* the unguarded index operators: mesh[(i,j)][var] = x *)
Theorem mesh2_index_set_elem : forall (A : Arith) (X : Type) (m : mesh2 A X) i j var (x : A) old_row,
  wf2 m -> i < m2_nx m -> j < m2_ny m -> var < m2_nvars m -> index2 m i j = Ok old_row ->
  exists m', index2_set_elem m i j var x = Ok m' /\ wf2 m' /\ shape2_eq m' m /\
    (forall i' j', i' < m2_nx m -> j' < m2_ny m ->
       index2 m' i' j' = if (i =? i') && (j =? j') then Ok (upd_list old_row var x) else index2 m i' j') /\
    (forall i' j', i' < m2_nx m -> j' < m2_ny m ->
       get_nodes_vars2 m' i' j' = if (i =? i') && (j =? j') then Ok (upd_list old_row var x) else get_nodes_vars2 m i' j').
Proof. intros A X m i j var x old_row. exact (MeshStore.index2_set_elem_spec m i j var x old_row). Qed.
Check mesh2_index_set_elem : forall (A : Arith) (X : Type) (m : mesh2 A X) i j var (x : A) old_row,
  wf2 m -> i < m2_nx m -> j < m2_ny m -> var < m2_nvars m -> index2 m i j = Ok old_row ->
  exists m', index2_set_elem m i j var x = Ok m' /\ wf2 m' /\ shape2_eq m' m /\
    (forall i' j', i' < m2_nx m -> j' < m2_ny m ->
       index2 m' i' j' = if (i =? i') && (j =? j') then Ok (upd_list old_row var x) else index2 m i' j') /\
    (forall i' j', i' < m2_nx m -> j' < m2_ny m ->
       get_nodes_vars2 m' i' j' = if (i =? i') && (j =? j') then Ok (upd_list old_row var x) else get_nodes_vars2 m i' j').
Print Assumptions mesh2_index_set_elem.
Example mesh2_index_set_elem_nonvacuous :
  wf2 ex_m2 /\ 2 < m2_nx ex_m2 /\ 1 < m2_ny ex_m2 /\ 1 < m2_nvars ex_m2 /\ index2 ex_m2 2 1 = Ok [q 0 1; q 0 1].
Proof. split; [exact ex_m2_wf|]. cbn. auto. Qed.

(* out-of-range nodes are rejected (Underflow is the `nx - 1` of an empty direction) *)
Theorem mesh2_get_guard : forall (A : Arith) (X : Type) (m : mesh2 A X) i j,
  m2_nx m <= i \/ m2_ny m <= j -> exists k, get_nodes_vars2 m i j = Panic k /\ (k = Guard \/ k = Underflow).
Proof. intros A X m i j. exact (MeshStore.get_nodes_vars2_guard m i j). Qed.
Check mesh2_get_guard : forall (A : Arith) (X : Type) (m : mesh2 A X) i j,
  m2_nx m <= i \/ m2_ny m <= j -> exists k, get_nodes_vars2 m i j = Panic k /\ (k = Guard \/ k = Underflow).
Print Assumptions mesh2_get_guard.
Example mesh2_get_guard_nonvacuous : m2_nx ex_m2 <= 3 \/ m2_ny ex_m2 <= 0.
Proof. left. cbn. auto. Qed.

Theorem cross_section_xnode_spec : forall (A : Arith) (X : Type) (m : mesh2 A X) i,
  wf2 m -> i < m2_nx m ->
  exists s, cross_section_xnode m i = Ok s /\ wf1 s /\ m1_nodes s = m2_y m /\ m1_nvars s = m2_nvars m /\
    forall j, j < m2_ny m -> get_nodes_vars1 s j = get_nodes_vars2 m i j.
Proof. intros A X m i. exact (MeshStore.cross_section_xnode_spec m i). Qed.
Check cross_section_xnode_spec : forall (A : Arith) (X : Type) (m : mesh2 A X) i,
  wf2 m -> i < m2_nx m ->
  exists s, cross_section_xnode m i = Ok s /\ wf1 s /\ m1_nodes s = m2_y m /\ m1_nvars s = m2_nvars m /\
    forall j, j < m2_ny m -> get_nodes_vars1 s j = get_nodes_vars2 m i j.
Print Assumptions cross_section_xnode_spec.
Example cross_section_xnode_spec_nonvacuous : wf2 ex_m2 /\ 2 < m2_nx ex_m2.
Proof. split; [exact ex_m2_wf|]. cbn. auto. Qed.

Theorem cross_section_ynode_spec : forall (A : Arith) (X : Type) (m : mesh2 A X) j,
  wf2 m -> j < m2_ny m ->
  exists s, cross_section_ynode m j = Ok s /\ wf1 s /\ m1_nodes s = m2_x m /\ m1_nvars s = m2_nvars m /\
    forall i, i < m2_nx m -> get_nodes_vars1 s i = get_nodes_vars2 m i j.
Proof. intros A X m j. exact (MeshStore.cross_section_ynode_spec m j). Qed.
Check cross_section_ynode_spec : forall (A : Arith) (X : Type) (m : mesh2 A X) j,
  wf2 m -> j < m2_ny m ->
  exists s, cross_section_ynode m j = Ok s /\ wf1 s /\ m1_nodes s = m2_x m /\ m1_nvars s = m2_nvars m /\
    forall i, i < m2_nx m -> get_nodes_vars1 s i = get_nodes_vars2 m i j.
Print Assumptions cross_section_ynode_spec.
Example cross_section_ynode_spec_nonvacuous : wf2 ex_m2 /\ 1 < m2_ny ex_m2.
Proof. split; [exact ex_m2_wf|]. cbn. auto. Qed.

Theorem var_as_matrix_spec : forall (A : Arith) (X : Type) (m : mesh2 A X) var,
  wf2 m -> var < m2_nvars m ->
  exists M, var_as_matrix m var = Ok M /\ rows M = m2_nx m /\ cols M = m2_ny m /\
    length (buf M) = m2_nx m * m2_ny m /\
    forall i j, i < m2_nx m -> j < m2_ny m -> mget M i j = (let* r := get_nodes_vars2 m i j in rd r var).
Proof. intros A X m var. exact (MeshStore.var_as_matrix_spec m var). Qed.
Check var_as_matrix_spec : forall (A : Arith) (X : Type) (m : mesh2 A X) var,
  wf2 m -> var < m2_nvars m ->
  exists M, var_as_matrix m var = Ok M /\ rows M = m2_nx m /\ cols M = m2_ny m /\
    length (buf M) = m2_nx m * m2_ny m /\
    forall i j, i < m2_nx m -> j < m2_ny m -> mget M i j = (let* r := get_nodes_vars2 m i j in rd r var).
Print Assumptions var_as_matrix_spec.
Example var_as_matrix_spec_nonvacuous : wf2 ex_m2 /\ 1 < m2_nvars ex_m2.
Proof. split; [exact ex_m2_wf|]. cbn. auto. Qed.

Theorem assign2_spec : forall (A : Arith) (X : Type) (m : mesh2 A X) (x : A),
  wf2 m ->
  exists m', assign2 m x = Ok m' /\ wf2 m' /\ shape2_eq m' m /\
    m2_vars m' = repeat (repeat x (m2_nvars m)) (m2_nx m * m2_ny m) /\
    forall i j, i < m2_nx m -> j < m2_ny m -> get_nodes_vars2 m' i j = Ok (repeat x (m2_nvars m)).
Proof. intros A X m x. exact (MeshStore.assign2_spec m x). Qed.
Check assign2_spec : forall (A : Arith) (X : Type) (m : mesh2 A X) (x : A),
  wf2 m ->
  exists m', assign2 m x = Ok m' /\ wf2 m' /\ shape2_eq m' m /\
    m2_vars m' = repeat (repeat x (m2_nvars m)) (m2_nx m * m2_ny m) /\
    forall i j, i < m2_nx m -> j < m2_ny m -> get_nodes_vars2 m' i j = Ok (repeat x (m2_nvars m)).
Print Assumptions assign2_spec.
Example assign2_spec_nonvacuous : wf2 ex_m2 /\ 0 < m2_nx ex_m2 * m2_ny ex_m2 * m2_nvars ex_m2.
Proof. split; [exact ex_m2_wf|]. cbn. auto 20. Qed.

Theorem apply2_spec : forall (A : Arith) (X : Type) (func : X -> X -> res A) (f : nat -> nat -> A) (m : mesh2 A X) var,
  wf2 m -> var < m2_nvars m ->
  (forall i j, i < m2_nx m -> j < m2_ny m ->
     exists x y, nth_error (m2_x m) i = Some x /\ nth_error (m2_y m) j = Some y /\ func x y = Ok (f i j)) ->
  exists m', apply2 func m var = Ok m' /\ wf2 m' /\ shape2_eq m' m /\
    forall i j, i < m2_nx m -> j < m2_ny m ->
      exists r, get_nodes_vars2 m i j = Ok r /\ get_nodes_vars2 m' i j = Ok (upd_list r var (f i j)).
Proof. intros A X func f m var. exact (MeshStore.apply2_spec func f m var). Qed.
Check apply2_spec : forall (A : Arith) (X : Type) (func : X -> X -> res A) (f : nat -> nat -> A) (m : mesh2 A X) var,
  wf2 m -> var < m2_nvars m ->
  (forall i j, i < m2_nx m -> j < m2_ny m ->
     exists x y, nth_error (m2_x m) i = Some x /\ nth_error (m2_y m) j = Some y /\ func x y = Ok (f i j)) ->
  exists m', apply2 func m var = Ok m' /\ wf2 m' /\ shape2_eq m' m /\
    forall i j, i < m2_nx m -> j < m2_ny m ->
      exists r, get_nodes_vars2 m i j = Ok r /\ get_nodes_vars2 m' i j = Ok (upd_list r var (f i j)).
Print Assumptions apply2_spec.
Example apply2_spec_nonvacuous :
  let func := fun x y : nat => @Ok AQ (q (Z.of_nat (x + y)) 1) in
  let f := fun i j : nat => q (Z.of_nat (nth i (m2_x ex_m2) 0 + nth j (m2_y ex_m2) 0)) 1 in
  wf2 ex_m2 /\ 1 < m2_nvars ex_m2 /\
  (forall i j, i < m2_nx ex_m2 -> j < m2_ny ex_m2 ->
     exists x y, nth_error (m2_x ex_m2) i = Some x /\ nth_error (m2_y ex_m2) j = Some y /\ func x y = Ok (f i j)).
Proof.
  cbv zeta. split; [exact ex_m2_wf|]. split; [cbn; auto|].
  intros i j Hi Hj. cbn in Hi, Hj.
  destruct i as [|[|[|i]]]; try (exfalso; inversion Hi as [|? H1]; inversion H1 as [|? H2]; inversion H2 as [|? H3]; inversion H3);
  destruct j as [|[|j]]; try (exfalso; inversion Hj as [|? H1]; inversion H1 as [|? H2]; inversion H2);
  cbn; eauto.
Qed.

(* any sequence of valid writes: the mesh after the run answers every in-range read as the
   function-update specification does *)
Theorem mesh2_writes_refine : forall (A : Arith) (X : Type) (m : mesh2 A X) ops g,
  wf2 m -> Forall (wvalid2 m) ops ->
  (forall i j, i < m2_nx m -> j < m2_ny m -> get_nodes_vars2 m i j = Ok (g i j)) ->
  exists m', wrun2 m ops = Ok m' /\ wf2 m' /\ shape2_eq m' m /\
    forall i j, i < m2_nx m -> j < m2_ny m ->
      get_nodes_vars2 m' i j = Ok (fold_left (sstep2 (m2_nvars m)) ops g i j).
Proof. intros A X m ops g. exact (MeshStore.mesh2_writes_refine m ops g). Qed.
Check mesh2_writes_refine : forall (A : Arith) (X : Type) (m : mesh2 A X) ops g,
  wf2 m -> Forall (wvalid2 m) ops ->
  (forall i j, i < m2_nx m -> j < m2_ny m -> get_nodes_vars2 m i j = Ok (g i j)) ->
  exists m', wrun2 m ops = Ok m' /\ wf2 m' /\ shape2_eq m' m /\
    forall i j, i < m2_nx m -> j < m2_ny m ->
      get_nodes_vars2 m' i j = Ok (fold_left (sstep2 (m2_nvars m)) ops g i j).
Print Assumptions mesh2_writes_refine.
Example mesh2_writes_refine_nonvacuous :
  let ops : list (@wop2 AQ) := [@WSet AQ 2 1 [q 1 1; q 2 1]; @WSetElem AQ 0 1 1 (q 3 1); @WAssign AQ (q 4 1); @WSetIdx AQ 1 0 [q 5 1; q 6 1]] in
  wf2 ex_m2 /\ Forall (wvalid2 ex_m2) ops /\
  (forall i j, i < m2_nx ex_m2 -> j < m2_ny ex_m2 -> get_nodes_vars2 ex_m2 i j = Ok (repeat (q 0 1) 2)).
Proof.
  cbv zeta. split; [exact ex_m2_wf|]. split.
  - repeat constructor.
  - intros i j Hi Hj. exact (mesh2_new_get [10; 20; 30] [1; 2] 2 i j Hi Hj).
Qed.

Theorem mesh1_writes_refine : forall (A : Arith) (X : Type) (m : mesh1 A X) ops g,
  wf1 m -> Forall (wvalid1 m) ops ->
  (forall node, node < nnodes1 m -> get_nodes_vars1 m node = Ok (g node)) ->
  exists m', wrun1 m ops = Ok m' /\ wf1 m' /\ m1_nodes m' = m1_nodes m /\ m1_nvars m' = m1_nvars m /\
    forall node, node < nnodes1 m -> get_nodes_vars1 m' node = Ok (fold_left sstep1 ops g node).
Proof. intros A X m ops g. exact (MeshStore.mesh1_writes_refine m ops g). Qed.
Check mesh1_writes_refine : forall (A : Arith) (X : Type) (m : mesh1 A X) ops g,
  wf1 m -> Forall (wvalid1 m) ops ->
  (forall node, node < nnodes1 m -> get_nodes_vars1 m node = Ok (g node)) ->
  exists m', wrun1 m ops = Ok m' /\ wf1 m' /\ m1_nodes m' = m1_nodes m /\ m1_nvars m' = m1_nvars m /\
    forall node, node < nnodes1 m -> get_nodes_vars1 m' node = Ok (fold_left sstep1 ops g node).
Print Assumptions mesh1_writes_refine.
Example mesh1_writes_refine_nonvacuous :
  let ops : list (@wop1 AQ) := [@W1Set AQ 2 [q 1 1; q 2 1]; @W1SetElem AQ 0 1 (q 3 1); @W1SetIdx AQ 1 [q 5 1; q 6 1]] in
  wf1 ex_m1 /\ Forall (wvalid1 ex_m1) ops /\
  (forall node, node < nnodes1 ex_m1 -> get_nodes_vars1 ex_m1 node = Ok (repeat (q 0 1) 2)).
Proof.
  cbv zeta. split; [exact ex_m1_wf|]. split.
  - repeat constructor.
  - intros node Hn. exact (mesh1_new_get [10; 20; 30] 2 node Hn).
Qed.

(* ------------------------------------------------------------------ P2: interpolation over R *)

Theorem interp_at_node : forall (m : mesh1 AR R) k,
  wf1 m -> 2 <= length (m1_nodes m) -> spaced snapR (m1_nodes m) -> k < length (m1_nodes m) ->
  @interp1 AR snapR m (nth k (m1_nodes m) 0%R) = Ok (nth k (m1_vars m) []).
Proof. intros m k. exact (MeshInterp.interp_at_node_snapR m k). Qed.
Check interp_at_node : forall (m : mesh1 AR R) k,
  wf1 m -> 2 <= length (m1_nodes m) -> spaced snapR (m1_nodes m) -> k < length (m1_nodes m) ->
  @interp1 AR snapR m (nth k (m1_nodes m) 0%R) = Ok (nth k (m1_vars m) []).
Print Assumptions interp_at_node.
Print Assumptions ex_m2_wf. (* closed; separator: ends the axiom list above for the driver's parser, whose axiom pattern would otherwise read the next Check's `name :` *)
Example interp_at_node_nonvacuous :
  (0 < snapR)%R /\ wf1 ex_imesh /\ 2 <= length (m1_nodes ex_imesh) /\ spaced snapR (m1_nodes ex_imesh) /\
  1 < length (m1_nodes ex_imesh) /\ @interp1 AR snapR ex_imesh 1%R = Ok [7%R].
Proof. exact MeshInterp.interp_at_node_nonvacuous. Qed.

Theorem interp_in_cell : forall (m : mesh1 AR R) k (x : R),
  wf1 m -> spaced snapR (m1_nodes m) -> k + 1 < length (m1_nodes m) ->
  (nth k (m1_nodes m) 0 + snapR <= x)%R -> (x <= nth (k + 1) (m1_nodes m) 0 - snapR)%R ->
  @interp1 AR snapR m x =
  Ok (lerp_row (nth k (m1_nodes m) 0%R) (nth (k + 1) (m1_nodes m) 0%R) x (nth k (m1_vars m) []) (nth (k + 1) (m1_vars m) [])).
Proof. intros m k x. exact (MeshInterp.interp_in_cell_snapR m k x). Qed.
Check interp_in_cell : forall (m : mesh1 AR R) k (x : R),
  wf1 m -> spaced snapR (m1_nodes m) -> k + 1 < length (m1_nodes m) ->
  (nth k (m1_nodes m) 0 + snapR <= x)%R -> (x <= nth (k + 1) (m1_nodes m) 0 - snapR)%R ->
  @interp1 AR snapR m x =
  Ok (lerp_row (nth k (m1_nodes m) 0%R) (nth (k + 1) (m1_nodes m) 0%R) x (nth k (m1_vars m) []) (nth (k + 1) (m1_vars m) [])).
Print Assumptions interp_in_cell.
Print Assumptions ex_m2_wf. (* closed; separator: ends the axiom list above for the driver's parser, whose axiom pattern would otherwise read the next Check's `name :` *)
Example interp_in_cell_nonvacuous :
  (0 < snapR)%R /\ wf1 ex_imesh /\ spaced snapR (m1_nodes ex_imesh) /\ 1 + 1 < length (m1_nodes ex_imesh) /\
  (nth 1 (m1_nodes ex_imesh) 0 + snapR <= 2)%R /\ (2 <= nth (1 + 1) (m1_nodes ex_imesh) 0 - snapR)%R /\
  @interp1 AR snapR ex_imesh 2%R = Ok [9%R].
Proof. exact MeshInterp.interp_in_cell_nonvacuous. Qed.

(* ------------------------------------------------------------------ P2: quadrature over R *)

Theorem trapezium_cells : forall (m : mesh1 AR R) var (half : R),
  wf1 m -> var < m1_nvars m -> 1 <= length (m1_nodes m) ->
  @trapezium1 AR half m var =
  Ok (sumR (length (m1_nodes m) - 1)
        (fun k => (half * (node1 m (k + 1) - node1 m k) * (val1 m var k + val1 m var (k + 1)))%R)).
Proof. intros m var half. exact (MeshQuad.trapezium1_cells m var half). Qed.
Check trapezium_cells : forall (m : mesh1 AR R) var (half : R),
  wf1 m -> var < m1_nvars m -> 1 <= length (m1_nodes m) ->
  @trapezium1 AR half m var =
  Ok (sumR (length (m1_nodes m) - 1)
        (fun k => (half * (node1 m (k + 1) - node1 m k) * (val1 m var k + val1 m var (k + 1)))%R)).
Print Assumptions trapezium_cells.
Print Assumptions ex_m2_wf. (* closed; separator: ends the axiom list above for the driver's parser, whose axiom pattern would otherwise read the next Check's `name :` *)
Example trapezium_cells_nonvacuous : wf1 ex_mesh1 /\ 0 < m1_nvars ex_mesh1 /\ 1 <= length (m1_nodes ex_mesh1).
Proof. destruct MeshQuad.trapezium1_linear_exact_nonvacuous as (H1 & H2 & H3 & _). auto. Qed.

Theorem trapezium_linear_exact : forall (m : mesh1 AR R) var (a b : R),
  wf1 m -> var < m1_nvars m -> 1 <= length (m1_nodes m) ->
  (forall k, k < length (m1_nodes m) -> val1 m var k = (a * node1 m k + b)%R) ->
  @trapezium1 AR halfR m var =
  Ok (a * (node1 m (length (m1_nodes m) - 1) * node1 m (length (m1_nodes m) - 1) - node1 m 0 * node1 m 0) / 2
      + b * (node1 m (length (m1_nodes m) - 1) - node1 m 0))%R.
Proof. intros m var a b. exact (MeshQuad.trapezium1_linear_exact m var a b). Qed.
Check trapezium_linear_exact : forall (m : mesh1 AR R) var (a b : R),
  wf1 m -> var < m1_nvars m -> 1 <= length (m1_nodes m) ->
  (forall k, k < length (m1_nodes m) -> val1 m var k = (a * node1 m k + b)%R) ->
  @trapezium1 AR halfR m var =
  Ok (a * (node1 m (length (m1_nodes m) - 1) * node1 m (length (m1_nodes m) - 1) - node1 m 0 * node1 m 0) / 2
      + b * (node1 m (length (m1_nodes m) - 1) - node1 m 0))%R.
Print Assumptions trapezium_linear_exact.
Print Assumptions ex_m2_wf. (* closed; separator: ends the axiom list above for the driver's parser, whose axiom pattern would otherwise read the next Check's `name :` *)
Example trapezium_linear_exact_nonvacuous :
  wf1 ex_mesh1 /\ 0 < m1_nvars ex_mesh1 /\ 1 <= length (m1_nodes ex_mesh1) /\
  (forall k, k < length (m1_nodes ex_mesh1) -> val1 ex_mesh1 0 k = (2 * node1 ex_mesh1 k + 1)%R) /\
  @trapezium1 AR halfR ex_mesh1 0 = Ok 12%R.
Proof. exact MeshQuad.trapezium1_linear_exact_nonvacuous. Qed.

Theorem trapezium2_cells : forall (m : mesh2 AR R) var (quarter : R),
  wf2 m -> var < m2_nvars m -> 1 <= m2_nx m -> 1 <= m2_ny m ->
  @trapezium2 AR quarter m var =
  Ok (sumR (m2_nx m - 1) (fun i => sumR (m2_ny m - 1) (fun j => cell2 quarter m var i j))).
Proof. intros m var quarter. exact (MeshQuad.trapezium2_cells m var quarter). Qed.
Check trapezium2_cells : forall (m : mesh2 AR R) var (quarter : R),
  wf2 m -> var < m2_nvars m -> 1 <= m2_nx m -> 1 <= m2_ny m ->
  @trapezium2 AR quarter m var =
  Ok (sumR (m2_nx m - 1) (fun i => sumR (m2_ny m - 1) (fun j => cell2 quarter m var i j))).
Print Assumptions trapezium2_cells.
Print Assumptions ex_m2_wf. (* closed; separator: ends the axiom list above for the driver's parser, whose axiom pattern would otherwise read the next Check's `name :` *)
Example trapezium2_cells_nonvacuous : wf2 ex_mesh2 /\ 0 < m2_nvars ex_mesh2 /\ 1 <= m2_nx ex_mesh2 /\ 1 <= m2_ny ex_mesh2.
Proof. destruct MeshQuad.trapezium2_bilinear_exact_nonvacuous as (H1 & H2 & H3 & H4 & _). auto. Qed.

Theorem trapezium2_bilinear_exact : forall (m : mesh2 AR R) var (a b c d : R),
  wf2 m -> var < m2_nvars m -> 1 <= m2_nx m -> 1 <= m2_ny m ->
  (forall i j, i < m2_nx m -> j < m2_ny m ->
     val2 m var i j = (a + b * nodex2 m i + c * nodey2 m j + d * nodex2 m i * nodey2 m j)%R) ->
  let x0 := nodex2 m 0 in let xl := nodex2 m (m2_nx m - 1) in
  let y0 := nodey2 m 0 in let yl := nodey2 m (m2_ny m - 1) in
  let DX := (xl - x0)%R in let SX := ((xl * xl - x0 * x0) / 2)%R in
  let DY := (yl - y0)%R in let SY := ((yl * yl - y0 * y0) / 2)%R in
  @trapezium2 AR quarterR m var = Ok (a * DX * DY + b * SX * DY + c * DX * SY + d * SX * SY)%R.
Proof. intros m var a b c d. exact (MeshQuad.trapezium2_bilinear_exact m var a b c d). Qed.
Check trapezium2_bilinear_exact : forall (m : mesh2 AR R) var (a b c d : R),
  wf2 m -> var < m2_nvars m -> 1 <= m2_nx m -> 1 <= m2_ny m ->
  (forall i j, i < m2_nx m -> j < m2_ny m ->
     val2 m var i j = (a + b * nodex2 m i + c * nodey2 m j + d * nodex2 m i * nodey2 m j)%R) ->
  let x0 := nodex2 m 0 in let xl := nodex2 m (m2_nx m - 1) in
  let y0 := nodey2 m 0 in let yl := nodey2 m (m2_ny m - 1) in
  let DX := (xl - x0)%R in let SX := ((xl * xl - x0 * x0) / 2)%R in
  let DY := (yl - y0)%R in let SY := ((yl * yl - y0 * y0) / 2)%R in
  @trapezium2 AR quarterR m var = Ok (a * DX * DY + b * SX * DY + c * DX * SY + d * SX * SY)%R.
Print Assumptions trapezium2_bilinear_exact.
Print Assumptions ex_m2_wf. (* closed; separator: ends the axiom list above for the driver's parser, whose axiom pattern would otherwise read the next Check's `name :` *)
Example trapezium2_bilinear_exact_nonvacuous :
  wf2 ex_mesh2 /\ 0 < m2_nvars ex_mesh2 /\ 1 <= m2_nx ex_mesh2 /\ 1 <= m2_ny ex_mesh2 /\
  (forall i j, i < m2_nx ex_mesh2 -> j < m2_ny ex_mesh2 ->
     val2 ex_mesh2 0 i j = (1 + 2 * nodex2 ex_mesh2 i + 3 * nodey2 ex_mesh2 j + 4 * nodex2 ex_mesh2 i * nodey2 ex_mesh2 j)%R) /\
  @trapezium2 AR quarterR ex_mesh2 0 = Ok 81%R.
Proof. exact MeshQuad.trapezium2_bilinear_exact_nonvacuous. Qed.

(* ------------------------------------------------------------------ P2: output / read as a token layout *)
(* number formatting and parsing are abstract: any tok, fmt, parse with parse (fmt x) = Ok x *)

(* output writes one line per node: the node, then its nvars variables (nvars + 1 tokens per line) *)
Theorem output1_layout : forall (A : Arith) (tok : Type) (fmt : A -> tok) (m : mesh1 A A),
  wf1 m ->
  output1 tok fmt fmt m = Ok (layout1 tok fmt m) /\
  length (layout1 tok fmt m) = length (m1_nodes m) /\
  Forall (fun l => length l = m1_nvars m + 1) (layout1 tok fmt m).
Proof.
  intros A tok fmt m H. split; [exact (MeshIO.output1_layout tok fmt m H)|].
  split; [exact (MeshIO.layout1_length tok fmt m H)|exact (MeshIO.layout1_line_length tok fmt m H)].
Qed.
Check output1_layout : forall (A : Arith) (tok : Type) (fmt : A -> tok) (m : mesh1 A A),
  wf1 m ->
  output1 tok fmt fmt m = Ok (layout1 tok fmt m) /\
  length (layout1 tok fmt m) = length (m1_nodes m) /\
  Forall (fun l => length l = m1_nvars m + 1) (layout1 tok fmt m).
Print Assumptions output1_layout.

(* reading the written tokens into ANY mesh with the same nvars (whatever nodes / values it held)
   reproduces the written mesh *)
Theorem read_layout_roundtrip : forall (A : Arith) (tok : Type) (fmt : A -> tok) (parse : tok -> res A),
  (forall x, parse (fmt x) = Ok x) ->
  forall m m0 : mesh1 A A,
  wf1 m -> m1_nvars m0 = m1_nvars m -> Forall (fun r => length r = m1_nvars m0) (m1_vars m0) ->
  (let* lines := output1 tok fmt fmt m in read1 tok parse m0 (concat lines)) = Ok m.
Proof. intros A tok fmt parse Hpf m m0. exact (MeshIO.read_output_roundtrip tok fmt parse Hpf m m0). Qed.
Check read_layout_roundtrip : forall (A : Arith) (tok : Type) (fmt : A -> tok) (parse : tok -> res A),
  (forall x, parse (fmt x) = Ok x) ->
  forall m m0 : mesh1 A A,
  wf1 m -> m1_nvars m0 = m1_nvars m -> Forall (fun r => length r = m1_nvars m0) (m1_vars m0) ->
  (let* lines := output1 tok fmt fmt m in read1 tok parse m0 (concat lines)) = Ok m.
Print Assumptions read_layout_roundtrip.
(* tokens = the numbers themselves (fmt = id, parse = Ok); a 3-node mesh with data read into a
   5-node mesh holding other data *)
Definition ex_io : mesh1 AQ Qcanon.Qc := @mkM1 AQ Qcanon.Qc 2 [q 0 1; q 1 2; q 3 1] [[q 1 1; q 2 1]; [q 3 1; q 4 1]; [q 5 1; q 6 1]].
Definition ex_io0 : mesh1 AQ Qcanon.Qc := @mkM1 AQ Qcanon.Qc 2 [q 9 1; q 8 1; q 7 1; q 6 1; q 5 1] (repeat [q 7 1; q 7 1] 5).
Example read_layout_roundtrip_nonvacuous :
  (forall x : AQ, (fun t => @Ok AQ t) ((fun x => x) x) = Ok x) /\
  wf1 ex_io /\ m1_nvars ex_io0 = m1_nvars ex_io /\ Forall (fun r => length r = m1_nvars ex_io0) (m1_vars ex_io0).
Proof.
  split; [reflexivity|]. split; [|split; [reflexivity|]].
  - split; [reflexivity|]. repeat constructor.
  - repeat constructor.
Qed.
Example output1_layout_nonvacuous : wf1 ex_io.
Proof. split; [reflexivity|]. repeat constructor. Qed.

(* Mesh2D::output: for every y node, one line per x node (x, y, the variables), then an empty line *)
Theorem output2_layout : forall (A : Arith) (tok : Type) (fmt : A -> tok) (m : mesh2 A A),
  wf2 m ->
  output2 tok fmt fmt m = Ok (layout2 tok fmt m) /\ length (layout2 tok fmt m) = m2_ny m * (m2_nx m + 1).
Proof.
  intros A tok fmt m H. split; [exact (MeshIO.output2_layout tok fmt m H)|exact (MeshIO.layout2_length tok fmt m)].
Qed.
Check output2_layout : forall (A : Arith) (tok : Type) (fmt : A -> tok) (m : mesh2 A A),
  wf2 m ->
  output2 tok fmt fmt m = Ok (layout2 tok fmt m) /\ length (layout2 tok fmt m) = m2_ny m * (m2_nx m + 1).
Print Assumptions output2_layout.
Example output2_layout_nonvacuous : wf2 (mesh2_new (A:=AQ) [q 0 1; q 1 1; q 3 1] [q 0 1; q 2 1] 2).
Proof. apply mesh2_new_wf. Qed.

(* ------------------------------------------------------------------ P3: the interpolation loop, completely *)
(* cellv m k x = the line of cell k evaluated at x (MeshInterp.v).  Inside the snapping window of a node
   the line of the cell to its right is used (cells k-1 and k both match; the later one overwrites), at the
   last node the line of the last cell; outside the grid the zero-initialised result is returned. *)

Theorem interp_near_node : forall (m : mesh1 AR R) k (x : R),
  wf1 m -> spaced snapR (m1_nodes m) -> 2 <= length (m1_nodes m) -> k < length (m1_nodes m) ->
  (Rabs (x - nth k (m1_nodes m) 0) < snapR)%R ->
  @interp1 AR snapR m x = Ok (cellv m (Nat.min k (length (m1_nodes m) - 2)) x).
Proof. intros m k x. exact (MeshInterp2.interp_near_node m snapR k x snapR_pos). Qed.
Check interp_near_node : forall (m : mesh1 AR R) k (x : R),
  wf1 m -> spaced snapR (m1_nodes m) -> 2 <= length (m1_nodes m) -> k < length (m1_nodes m) ->
  (Rabs (x - nth k (m1_nodes m) 0) < snapR)%R ->
  @interp1 AR snapR m x = Ok (cellv m (Nat.min k (length (m1_nodes m) - 2)) x).
Print Assumptions interp_near_node.
Print Assumptions ex_m2_wf. (* closed; separator for the driver's parser *)
Example interp_near_node_nonvacuous :
  wf1 ex_imesh /\ spaced snapR (m1_nodes ex_imesh) /\ 2 <= length (m1_nodes ex_imesh) /\ 1 < length (m1_nodes ex_imesh) /\
  (Rabs (1 - nth 1 (m1_nodes ex_imesh) 0) < snapR)%R.
Proof.
  destruct MeshInterp.interp_at_node_nonvacuous as (Hs & Hwf & Hn & Hsp & Hk & _).
  split; [exact Hwf|]. split; [exact Hsp|]. split; [exact Hn|]. split; [exact Hk|].
  unfold ex_imesh; cbn [m1_nodes nth]. apply Rabs_def1; lra.
Qed.

Theorem interp_near_node_bound : forall (m : mesh1 AR R) k (x : R) c,
  wf1 m -> spaced snapR (m1_nodes m) -> 2 <= length (m1_nodes m) -> k < length (m1_nodes m) ->
  (Rabs (x - nth k (m1_nodes m) 0) < snapR)%R -> c < m1_nvars m ->
  let k' := Nat.min k (length (m1_nodes m) - 2) in
  let slope := ((nth c (nth (k' + 1) (m1_vars m) []) 0 - nth c (nth k' (m1_vars m) []) 0) /
                (nth (k' + 1) (m1_nodes m) 0 - nth k' (m1_nodes m) 0))%R in
  exists r, @interp1 AR snapR m x = Ok r /\
            (Rabs (nth c r 0 - nth c (nth k (m1_vars m) []) 0) <= Rabs slope * snapR)%R.
Proof. intros m k x c. exact (MeshInterp2.interp_near_node_bound m snapR k x c snapR_pos). Qed.
Check interp_near_node_bound : forall (m : mesh1 AR R) k (x : R) c,
  wf1 m -> spaced snapR (m1_nodes m) -> 2 <= length (m1_nodes m) -> k < length (m1_nodes m) ->
  (Rabs (x - nth k (m1_nodes m) 0) < snapR)%R -> c < m1_nvars m ->
  let k' := Nat.min k (length (m1_nodes m) - 2) in
  let slope := ((nth c (nth (k' + 1) (m1_vars m) []) 0 - nth c (nth k' (m1_vars m) []) 0) /
                (nth (k' + 1) (m1_nodes m) 0 - nth k' (m1_nodes m) 0))%R in
  exists r, @interp1 AR snapR m x = Ok r /\
            (Rabs (nth c r 0 - nth c (nth k (m1_vars m) []) 0) <= Rabs slope * snapR)%R.
Print Assumptions interp_near_node_bound.
Print Assumptions ex_m2_wf. (* closed; separator for the driver's parser *)

Example interp_near_node_bound_nonvacuous :
  wf1 ex_imesh /\ spaced snapR (m1_nodes ex_imesh) /\ 2 <= length (m1_nodes ex_imesh) /\ 1 < length (m1_nodes ex_imesh) /\
  (Rabs (1 - nth 1 (m1_nodes ex_imesh) 0) < snapR)%R /\ 0 < m1_nvars ex_imesh.
Proof.
  destruct interp_near_node_nonvacuous as (H1 & H2 & H3 & H4 & H5).
  repeat (split; [assumption|]). cbn. auto.
Qed.

Theorem interp_outside_left : forall (m : mesh1 AR R) (x : R),
  spaced snapR (m1_nodes m) -> 1 <= length (m1_nodes m) -> (x + snapR <= nth 0 (m1_nodes m) 0)%R ->
  @interp1 AR snapR m x = Ok (repeat 0%R (m1_nvars m)).
Proof. intros m x. exact (MeshInterp2.interp_outside_left m snapR x snapR_pos). Qed.
Check interp_outside_left : forall (m : mesh1 AR R) (x : R),
  spaced snapR (m1_nodes m) -> 1 <= length (m1_nodes m) -> (x + snapR <= nth 0 (m1_nodes m) 0)%R ->
  @interp1 AR snapR m x = Ok (repeat 0%R (m1_nvars m)).
Print Assumptions interp_outside_left.
Print Assumptions ex_m2_wf. (* closed; separator for the driver's parser *)
Example interp_outside_left_nonvacuous :
  spaced snapR (m1_nodes ex_imesh) /\ 1 <= length (m1_nodes ex_imesh) /\ (-1 + snapR <= nth 0 (m1_nodes ex_imesh) 0)%R.
Proof.
  destruct MeshInterp.interp_at_node_nonvacuous as (Hs & Hwf & Hn & Hsp & Hk & _).
  split; [exact Hsp|]. split; [cbn; auto|]. unfold ex_imesh; cbn [m1_nodes nth length Nat.sub]. unfold snapR in *; cbn in *; lra.
Qed.

Theorem interp_outside_right : forall (m : mesh1 AR R) (x : R),
  spaced snapR (m1_nodes m) -> 1 <= length (m1_nodes m) ->
  (nth (length (m1_nodes m) - 1) (m1_nodes m) 0 + snapR <= x)%R ->
  @interp1 AR snapR m x = Ok (repeat 0%R (m1_nvars m)).
Proof. intros m x. exact (MeshInterp2.interp_outside_right m snapR x snapR_pos). Qed.
Check interp_outside_right : forall (m : mesh1 AR R) (x : R),
  spaced snapR (m1_nodes m) -> 1 <= length (m1_nodes m) ->
  (nth (length (m1_nodes m) - 1) (m1_nodes m) 0 + snapR <= x)%R ->
  @interp1 AR snapR m x = Ok (repeat 0%R (m1_nvars m)).
Print Assumptions interp_outside_right.
Print Assumptions ex_m2_wf. (* closed; separator for the driver's parser *)
Example interp_outside_right_nonvacuous :
  spaced snapR (m1_nodes ex_imesh) /\ 1 <= length (m1_nodes ex_imesh) /\
  (nth (length (m1_nodes ex_imesh) - 1) (m1_nodes ex_imesh) 0 + snapR <= 5)%R.
Proof.
  destruct MeshInterp.interp_at_node_nonvacuous as (Hs & Hwf & Hn & Hsp & Hk & _).
  split; [exact Hsp|]. split; [cbn; auto|]. unfold ex_imesh; cbn [m1_nodes nth length Nat.sub]. unfold snapR in *; cbn in *; lra.
Qed.

Theorem interp_total : forall (m : mesh1 AR R) (x : R),
  wf1 m -> spaced snapR (m1_nodes m) -> 2 <= length (m1_nodes m) ->
  ((x + snapR <= nth 0 (m1_nodes m) 0)%R /\ @interp1 AR snapR m x = Ok (repeat 0%R (m1_nvars m))) \/
  ((nth (length (m1_nodes m) - 1) (m1_nodes m) 0 + snapR <= x)%R /\ @interp1 AR snapR m x = Ok (repeat 0%R (m1_nvars m))) \/
  (exists k, k < length (m1_nodes m) /\ (Rabs (x - nth k (m1_nodes m) 0) < snapR)%R /\
             @interp1 AR snapR m x = Ok (cellv m (Nat.min k (length (m1_nodes m) - 2)) x)) \/
  (exists k, k + 1 < length (m1_nodes m) /\ (nth k (m1_nodes m) 0 + snapR <= x)%R /\ (x <= nth (k + 1) (m1_nodes m) 0 - snapR)%R /\
             @interp1 AR snapR m x = Ok (cellv m k x)).
Proof. intros m x. exact (MeshInterp2.interp_total m snapR x snapR_pos). Qed.
Check interp_total : forall (m : mesh1 AR R) (x : R),
  wf1 m -> spaced snapR (m1_nodes m) -> 2 <= length (m1_nodes m) ->
  ((x + snapR <= nth 0 (m1_nodes m) 0)%R /\ @interp1 AR snapR m x = Ok (repeat 0%R (m1_nvars m))) \/
  ((nth (length (m1_nodes m) - 1) (m1_nodes m) 0 + snapR <= x)%R /\ @interp1 AR snapR m x = Ok (repeat 0%R (m1_nvars m))) \/
  (exists k, k < length (m1_nodes m) /\ (Rabs (x - nth k (m1_nodes m) 0) < snapR)%R /\
             @interp1 AR snapR m x = Ok (cellv m (Nat.min k (length (m1_nodes m) - 2)) x)) \/
  (exists k, k + 1 < length (m1_nodes m) /\ (nth k (m1_nodes m) 0 + snapR <= x)%R /\ (x <= nth (k + 1) (m1_nodes m) 0 - snapR)%R /\
             @interp1 AR snapR m x = Ok (cellv m k x)).
Print Assumptions interp_total.
Print Assumptions ex_m2_wf. (* closed; separator for the driver's parser *)
Example interp_total_nonvacuous : wf1 ex_imesh /\ spaced snapR (m1_nodes ex_imesh) /\ 2 <= length (m1_nodes ex_imesh).
Proof. destruct MeshInterp.interp_at_node_nonvacuous as (Hs & Hwf & Hn & Hsp & Hk & _). auto. Qed.

(* piecewise-linear interpolation reproduces linear data at EVERY point of the grid range, the
   snapping windows included (there the neighbouring cell's line is the same line) *)
Theorem interp_linear_exact : forall (m : mesh1 AR R) (x : R) c (a b : R),
  wf1 m -> spaced snapR (m1_nodes m) -> 2 <= length (m1_nodes m) -> c < m1_nvars m ->
  (forall k, k < length (m1_nodes m) -> nth c (nth k (m1_vars m) []) 0%R = (a * nth k (m1_nodes m) 0 + b)%R) ->
  (nth 0 (m1_nodes m) 0 - snapR < x)%R -> (x < nth (length (m1_nodes m) - 1) (m1_nodes m) 0 + snapR)%R ->
  exists r, @interp1 AR snapR m x = Ok r /\ nth c r 0%R = (a * x + b)%R.
Proof. intros m x c a b. exact (MeshInterp2.interp_linear_exact_snapR m x c a b). Qed.
Check interp_linear_exact : forall (m : mesh1 AR R) (x : R) c (a b : R),
  wf1 m -> spaced snapR (m1_nodes m) -> 2 <= length (m1_nodes m) -> c < m1_nvars m ->
  (forall k, k < length (m1_nodes m) -> nth c (nth k (m1_vars m) []) 0%R = (a * nth k (m1_nodes m) 0 + b)%R) ->
  (nth 0 (m1_nodes m) 0 - snapR < x)%R -> (x < nth (length (m1_nodes m) - 1) (m1_nodes m) 0 + snapR)%R ->
  exists r, @interp1 AR snapR m x = Ok r /\ nth c r 0%R = (a * x + b)%R.
Print Assumptions interp_linear_exact.
Print Assumptions ex_m2_wf. (* closed; separator for the driver's parser *)
Example interp_linear_exact_nonvacuous :
  (0 < snapR)%R /\ wf1 ex_lmesh /\ spaced snapR (m1_nodes ex_lmesh) /\ 2 <= length (m1_nodes ex_lmesh) /\ 0 < m1_nvars ex_lmesh /\
  (forall k, k < length (m1_nodes ex_lmesh) -> nth 0 (nth k (m1_vars ex_lmesh) []) 0%R = (2 * nth k (m1_nodes ex_lmesh) 0 + 1)%R) /\
  (nth 0 (m1_nodes ex_lmesh) 0 - snapR < 2)%R /\ (2 < nth (length (m1_nodes ex_lmesh) - 1) (m1_nodes ex_lmesh) 0 + snapR)%R /\
  @interp1 AR snapR ex_lmesh 2%R = Ok [5%R].
Proof. exact MeshInterp2.interp_linear_exact_nonvacuous. Qed.

(* ------------------------------------------------------------------ more quadrature / storage / reader *)

Theorem square_trapezium2_cells : forall (m : mesh2 AR R) var (quarter : R),
  wf2 m -> var < m2_nvars m -> 1 <= m2_nx m -> 1 <= m2_ny m ->
  @square_trapezium2 AR quarter m var =
  Ok (sumR (m2_nx m - 1) (fun i => sumR (m2_ny m - 1) (fun j =>
        (quarter * (nodex2 m (i + 1) - nodex2 m i) * (nodey2 m (j + 1) - nodey2 m j) *
         (val2 m var i j * val2 m var i j + val2 m var (i + 1) j * val2 m var (i + 1) j +
          val2 m var i (j + 1) * val2 m var i (j + 1) + val2 m var (i + 1) (j + 1) * val2 m var (i + 1) (j + 1)))%R))).
Proof. intros m var quarter. exact (MeshQuad2.square_trapezium2_cells m var quarter). Qed.
Check square_trapezium2_cells : forall (m : mesh2 AR R) var (quarter : R),
  wf2 m -> var < m2_nvars m -> 1 <= m2_nx m -> 1 <= m2_ny m ->
  @square_trapezium2 AR quarter m var =
  Ok (sumR (m2_nx m - 1) (fun i => sumR (m2_ny m - 1) (fun j =>
        (quarter * (nodex2 m (i + 1) - nodex2 m i) * (nodey2 m (j + 1) - nodey2 m j) *
         (val2 m var i j * val2 m var i j + val2 m var (i + 1) j * val2 m var (i + 1) j +
          val2 m var i (j + 1) * val2 m var i (j + 1) + val2 m var (i + 1) (j + 1) * val2 m var (i + 1) (j + 1)))%R))).
Print Assumptions square_trapezium2_cells.
Print Assumptions ex_m2_wf. (* closed; separator for the driver's parser *)
Example square_trapezium2_cells_nonvacuous : wf2 ex_mesh2 /\ 0 < m2_nvars ex_mesh2 /\ 1 <= m2_nx ex_mesh2 /\ 1 <= m2_ny ex_mesh2.
Proof. exact trapezium2_cells_nonvacuous. Qed.

Theorem idx_bijection : forall nx ny,
  (forall i j, i < nx -> j < ny -> i * ny + j < nx * ny) /\
  (forall i j i' j', j < ny -> j' < ny -> i * ny + j = i' * ny + j' -> i = i' /\ j = j') /\
  (forall k, k < nx * ny -> exists i j, i < nx /\ j < ny /\ k = i * ny + j).
Proof. exact MeshIO2.idx_bijection. Qed.
Check idx_bijection : forall nx ny,
  (forall i j, i < nx -> j < ny -> i * ny + j < nx * ny) /\
  (forall i j i' j', j < ny -> j' < ny -> i * ny + j = i' * ny + j' -> i = i' /\ j = j') /\
  (forall k, k < nx * ny -> exists i j, i < nx /\ j < ny /\ k = i * ny + j).
Print Assumptions idx_bijection.

Theorem mesh2_every_slot_is_a_node : forall (A : Arith) (X : Type) (m : mesh2 A X),
  wf2 m -> forall k, k < length (m2_vars m) ->
  exists i j, i < m2_nx m /\ j < m2_ny m /\ index2 m i j = rd (m2_vars m) k.
Proof. intros A X m. exact (MeshIO2.mesh2_every_slot_is_a_node m). Qed.
Check mesh2_every_slot_is_a_node : forall (A : Arith) (X : Type) (m : mesh2 A X),
  wf2 m -> forall k, k < length (m2_vars m) ->
  exists i j, i < m2_nx m /\ j < m2_ny m /\ index2 m i j = rd (m2_vars m) k.
Print Assumptions mesh2_every_slot_is_a_node.
Example mesh2_every_slot_is_a_node_nonvacuous : wf2 ex_m2 /\ 5 < length (m2_vars ex_m2).
Proof. split; [exact ex_m2_wf|]. cbn. auto. Qed.

Theorem read1_tokens_spec : forall (A : Arith) (tok : Type) (parse : tok -> res A) (m0 : mesh1 A A) (toks : list tok) (n : nat) (val : nat -> A),
  length toks = n * (m1_nvars m0 + 1) ->
  (forall i, i < length toks -> exists t, nth_error toks i = Some t /\ parse t = Ok (val i)) ->
  Forall (fun r => length r = m1_nvars m0) (m1_vars m0) ->
  read1 tok parse m0 toks =
  Ok (mkM1 (m1_nvars m0) (map (fun k => val (k * (m1_nvars m0 + 1))) (seq 0 n))
           (map (fun k => map (fun v => val (k * (m1_nvars m0 + 1) + S v)) (seq 0 (m1_nvars m0))) (seq 0 n))).
Proof. intros A tok parse m0 toks n val. exact (MeshIO2.read1_tokens_spec tok parse m0 toks n val). Qed.
Check read1_tokens_spec : forall (A : Arith) (tok : Type) (parse : tok -> res A) (m0 : mesh1 A A) (toks : list tok) (n : nat) (val : nat -> A),
  length toks = n * (m1_nvars m0 + 1) ->
  (forall i, i < length toks -> exists t, nth_error toks i = Some t /\ parse t = Ok (val i)) ->
  Forall (fun r => length r = m1_nvars m0) (m1_vars m0) ->
  read1 tok parse m0 toks =
  Ok (mkM1 (m1_nvars m0) (map (fun k => val (k * (m1_nvars m0 + 1))) (seq 0 n))
           (map (fun k => map (fun v => val (k * (m1_nvars m0 + 1) + S v)) (seq 0 (m1_nvars m0))) (seq 0 n))).
Print Assumptions read1_tokens_spec.
Example read1_tokens_spec_nonvacuous :
  let toks := [q 0 1; q 1 1; q 2 1; q 1 2; q 3 1; q 4 1] in
  length toks = 2 * (m1_nvars ex_io0 + 1) /\
  (forall i, i < length toks -> exists t, nth_error toks i = Some t /\ (fun t => @Ok AQ t) t = Ok (nth i toks (q 0 1))) /\
  Forall (fun r => length r = m1_nvars ex_io0) (m1_vars ex_io0).
Proof.
  cbv zeta. split; [reflexivity|]. split.
  - intros i Hi. destruct (nth_error [q 0 1; q 1 1; q 2 1; q 1 2; q 3 1; q 4 1] i) as [t|] eqn:E.
    + exists t. split; [reflexivity|]. f_equal. symmetry. now apply nth_error_nth.
    + apply nth_error_None in E. exfalso. apply (Nat.lt_irrefl i). eapply Nat.lt_le_trans; eauto.
  - repeat constructor.
Qed.

Theorem read1_bad_token : forall (A : Arith) (tok : Type) (parse : tok -> res A) (m0 : mesh1 A A) (toks : list tok) i t k,
  nth_error toks i = Some t -> parse t = Panic k -> exists k', read1 tok parse m0 toks = Panic k'.
Proof. intros A tok parse m0 toks i t k. exact (MeshIO2.read1_bad_token tok parse m0 toks i t k). Qed.
Check read1_bad_token : forall (A : Arith) (tok : Type) (parse : tok -> res A) (m0 : mesh1 A A) (toks : list tok) i t k,
  nth_error toks i = Some t -> parse t = Panic k -> exists k', read1 tok parse m0 toks = Panic k'.
Print Assumptions read1_bad_token.
Example read1_bad_token_nonvacuous :
  nth_error [true; false; true] 1 = Some false /\ (fun b : bool => if b then @Ok AQ (q 1 1) else Panic Unwrap) false = Panic Unwrap.
Proof. split; reflexivity. Qed.

(* ------------------------------------------------------------------ the tied step function *)
(* step2 / step1 (Model/MeshOps.v) are the step functions that every check run executes against the
   implementation, operation by operation; on writes they are the steps of the refinement theorem *)

Theorem tied_writes_refine2 : forall (A : Arith) (K : @mconst A) (m : mesh2 A A) ws g,
  wf2 m -> Forall (wvalid2 m) ws ->
  (forall i j, i < m2_nx m -> j < m2_ny m -> get_nodes_vars2 m i j = Ok (g i j)) ->
  exists m', state2 K m (map op2_of_write ws) = Ok m' /\ wf2 m' /\ shape2_eq m' m /\
    forall i j, i < m2_nx m -> j < m2_ny m ->
      step2 K m' (O2Get i j) = Ok (m', VV (fold_left (sstep2 (m2_nvars m)) ws g i j)).
Proof. intros A K m ws g. exact (MeshHist.tied_writes_refine2 K m ws g). Qed.
Check tied_writes_refine2 : forall (A : Arith) (K : @mconst A) (m : mesh2 A A) ws g,
  wf2 m -> Forall (wvalid2 m) ws ->
  (forall i j, i < m2_nx m -> j < m2_ny m -> get_nodes_vars2 m i j = Ok (g i j)) ->
  exists m', state2 K m (map op2_of_write ws) = Ok m' /\ wf2 m' /\ shape2_eq m' m /\
    forall i j, i < m2_nx m -> j < m2_ny m ->
      step2 K m' (O2Get i j) = Ok (m', VV (fold_left (sstep2 (m2_nvars m)) ws g i j)).
Print Assumptions tied_writes_refine2.
Example tied_writes_refine2_nonvacuous :
  let m : mesh2 AQ AQ := mesh2_new [q 0 1; q 1 2; q 2 1] [q 0 1; q 3 1] 2 in
  let ws : list (@wop2 AQ) := [@WSet AQ 2 1 [q 1 1; q 2 1]; @WSetElem AQ 0 1 1 (q 3 1); @WAssign AQ (q 4 1); @WSetIdx AQ 1 0 [q 5 1; q 6 1]] in
  wf2 m /\ Forall (wvalid2 m) ws /\
  (forall i j, i < m2_nx m -> j < m2_ny m -> get_nodes_vars2 m i j = Ok (repeat (q 0 1) 2)).
Proof.
  cbv zeta. split; [apply mesh2_new_wf|]. split.
  - repeat constructor.
  - intros i j Hi Hj. exact (mesh2_new_get [q 0 1; q 1 2; q 2 1] [q 0 1; q 3 1] 2 i j Hi Hj).
Qed.

Theorem tied_writes_refine1 : forall (A : Arith) (K : @mconst A) (m : mesh1 A A) ws g,
  wf1 m -> Forall (wvalid1 m) ws ->
  (forall node, node < nnodes1 m -> get_nodes_vars1 m node = Ok (g node)) ->
  exists m', state1 K m (map op1_of_write ws) = Ok m' /\ wf1 m' /\
    m1_nodes m' = m1_nodes m /\ m1_nvars m' = m1_nvars m /\
    forall node, node < nnodes1 m ->
      step1 K m' (O1Get node) = Ok (m', VV (fold_left sstep1 ws g node)).
Proof. intros A K m ws g. exact (MeshHist.tied_writes_refine1 K m ws g). Qed.
Check tied_writes_refine1 : forall (A : Arith) (K : @mconst A) (m : mesh1 A A) ws g,
  wf1 m -> Forall (wvalid1 m) ws ->
  (forall node, node < nnodes1 m -> get_nodes_vars1 m node = Ok (g node)) ->
  exists m', state1 K m (map op1_of_write ws) = Ok m' /\ wf1 m' /\
    m1_nodes m' = m1_nodes m /\ m1_nvars m' = m1_nvars m /\
    forall node, node < nnodes1 m ->
      step1 K m' (O1Get node) = Ok (m', VV (fold_left sstep1 ws g node)).
Print Assumptions tied_writes_refine1.
Example tied_writes_refine1_nonvacuous :
  let m : mesh1 AQ AQ := mesh1_new [q 0 1; q 1 2; q 2 1] 2 in
  let ws : list (@wop1 AQ) := [@W1Set AQ 2 [q 1 1; q 2 1]; @W1SetElem AQ 0 1 (q 3 1); @W1SetIdx AQ 1 [q 5 1; q 6 1]] in
  wf1 m /\ Forall (wvalid1 m) ws /\
  (forall node, node < nnodes1 m -> get_nodes_vars1 m node = Ok (repeat (q 0 1) 2)).
Proof.
  cbv zeta. split; [apply mesh1_new_wf|]. split.
  - repeat constructor.
  - intros node Hn. exact (mesh1_new_get [q 0 1; q 1 2; q 2 1] 2 node Hn).
Qed.

(* ---- tie of the model to the source of this run (package r2c2): gen/SrcMesh.v is regenerated from src/mesh1d.rs and
   src/mesh2d.rs by driver/rust2coq.py on every check run (26 functions: every storage path, Index, the interpolation loop,
   the three trapezium rules, assign / apply / cross sections / var_as_matrix; file I/O excluded); Proofs/SrcEqMesh.v proves
   each regenerated function equal to its hand-written model of Model/Mesh.v, for every arithmetic, every coordinate type and
   every mesh value (well-formed or not).  The literals 0.5 / 0.25 / 1.0e-7 are the model's parameters half / quarter / snap. *)
From OV Require Proofs.SrcEqMesh.
Theorem model_is_source_C19_Mesh : forall (A : Arith) (X : Type), @SrcEqMesh.model_is_source_Mesh A X.
Proof. intros A X. exact SrcEqMesh.model_is_source_Mesh_lemma. Qed.
Check model_is_source_C19_Mesh : forall (A : Arith) (X : Type), @SrcEqMesh.model_is_source_Mesh A X.
Print Assumptions model_is_source_C19_Mesh.

(* Proofs/Round2PinExact.v -- package round2, item 4: pin blocks (format of CONVENTIONS section 2) for the binary64
   exactness theorems of Proofs/Round2Lin.v (C15: linspace), Proofs/Round2Mesh.v (C19: Mesh1D::trapezium) and
   Proofs/Round2MeshB.v (C19: Mesh1D::get_interpolated_vars).  To be appended to Props/C15.v resp. Props/C19.v.
   FR x = real value of the primitive float x, ffinite x = x is finite (Proofs/ComplexRound.v); bpow radix2 e = 2^e. *)
From Coq Require Import ZArith Reals Floats Lia Lra List Bool Arith.
From Flocq Require Import Core.Core IEEE754.BinarySingleNaN IEEE754.PrimFloat.
From OV Require Import Base.Panic Base.Arith Model.Vector Model.Mesh Inst.FloatInst Proofs.MeshBase Proofs.MeshQuad
                       Proofs.ParDotFloat Proofs.ComplexRound Proofs.Round2Lin Proofs.Round2Mesh Proofs.Round2MeshB.
From OV Require gen.Params.
Import ListNotations.

(* ==== C19 ==== *)
(* Mesh1D::trapezium at binary64 ("integer-valued, so f64 results are exact"): node coordinates X_k 2^e and nodal
   data F_k 2^g (integer-valued data: g = 0; integer nodes: e = 0) with cell widths, neighbour sums and the running
   sum of |numerators| below 2^53: the result is finite and EXACTLY the value of the rule over the reals. *)
Theorem trapezium_exact_float : forall (m : mesh1 AF PrimFloat.float) (var : nat) (X F : nat -> Z) (e g : Z),
  let n := length (m1_nodes m) in
  let x := fun k => nth k (m1_nodes m) 0%float in
  let f := fun k => nth var (nth k (m1_vars m) []) 0%float in
  let c := fun k => ((X (k + 1)%nat - X k) * (F k + F (k + 1)%nat))%Z in
  wf1 m -> (var < m1_nvars m)%nat -> (1 <= n)%nat ->
  (forall k, (k < n)%nat -> ffinite (x k) /\ FR (x k) = (IZR (X k) * bpow radix2 e)%R) ->
  (forall k, (k < n)%nat -> ffinite (f k) /\ FR (f k) = (IZR (F k) * bpow radix2 g)%R) ->
  (-1073 <= e <= 971)%Z -> (-1074 <= g <= 971)%Z -> (-1073 <= e + g <= 972)%Z ->
  (forall k, (k + 1 < n)%nat -> (Z.abs (X (k + 1)%nat - X k) < 2 ^ 53)%Z) ->
  (forall k, (k + 1 < n)%nat -> (Z.abs (F k + F (k + 1)%nat) < 2 ^ 53)%Z) ->
  (zsum_n (n - 1) (fun k => Z.abs (c k)) < 2 ^ 53)%Z ->
  exists r, trapezium1 (A := AF) 0.5%float m var = Ok r /\ ffinite r /\
            FR r = sumR (n - 1) (fun k => (/ 2 * (FR (x (k + 1)%nat) - FR (x k)) * (FR (f k) + FR (f (k + 1)%nat)))%R) /\
            FR r = (IZR (zsum_n (n - 1) c) * bpow radix2 (e + g - 1))%R.
Proof.
  intros m var X F e g n x f c Hwf Hv Hn HX HF He Hg Heg Hdx Hs Hb.
  exact (trapezium_exact_float_lemma m var X F e g Hwf Hv Hn HX HF He Hg Heg Hdx Hs Hb).
Qed.
Check trapezium_exact_float : forall (m : mesh1 AF PrimFloat.float) (var : nat) (X F : nat -> Z) (e g : Z),
  let n := length (m1_nodes m) in
  let x := fun k => nth k (m1_nodes m) 0%float in
  let f := fun k => nth var (nth k (m1_vars m) []) 0%float in
  let c := fun k => ((X (k + 1)%nat - X k) * (F k + F (k + 1)%nat))%Z in
  wf1 m -> (var < m1_nvars m)%nat -> (1 <= n)%nat ->
  (forall k, (k < n)%nat -> ffinite (x k) /\ FR (x k) = (IZR (X k) * bpow radix2 e)%R) ->
  (forall k, (k < n)%nat -> ffinite (f k) /\ FR (f k) = (IZR (F k) * bpow radix2 g)%R) ->
  (-1073 <= e <= 971)%Z -> (-1074 <= g <= 971)%Z -> (-1073 <= e + g <= 972)%Z ->
  (forall k, (k + 1 < n)%nat -> (Z.abs (X (k + 1)%nat - X k) < 2 ^ 53)%Z) ->
  (forall k, (k + 1 < n)%nat -> (Z.abs (F k + F (k + 1)%nat) < 2 ^ 53)%Z) ->
  (zsum_n (n - 1) (fun k => Z.abs (c k)) < 2 ^ 53)%Z ->
  exists r, trapezium1 (A := AF) 0.5%float m var = Ok r /\ ffinite r /\
            FR r = sumR (n - 1) (fun k => (/ 2 * (FR (x (k + 1)%nat) - FR (x k)) * (FR (f k) + FR (f (k + 1)%nat)))%R) /\
            FR r = (IZR (zsum_n (n - 1) c) * bpow radix2 (e + g - 1))%R.
Print Assumptions trapezium_exact_float.
(* nodes 0, 1/4, 3/4, 2 (grid 2^-2), integer data 3, -5, 7, 2: the rule gives 47/8 = 5.875 exactly *)
Example trapezium_exact_float_nonvacuous :
  let m := ex_tmesh in
  let n := length (m1_nodes m) in
  let x := fun k => nth k (m1_nodes m) 0%float in
  let f := fun k => nth 0 (nth k (m1_vars m) []) 0%float in
  let c := fun k => ((ex_tX (k + 1)%nat - ex_tX k) * (ex_tF k + ex_tF (k + 1)%nat))%Z in
  wf1 m /\ (0 < m1_nvars m)%nat /\ (1 <= n)%nat /\
  (forall k, (k < n)%nat -> ffinite (x k) /\ FR (x k) = (IZR (ex_tX k) * bpow radix2 (-2))%R) /\
  (forall k, (k < n)%nat -> ffinite (f k) /\ FR (f k) = (IZR (ex_tF k) * bpow radix2 0)%R) /\
  (-1073 <= -2 <= 971)%Z /\ (-1074 <= 0 <= 971)%Z /\ (-1073 <= -2 + 0 <= 972)%Z /\
  (forall k, (k + 1 < n)%nat -> (Z.abs (ex_tX (k + 1)%nat - ex_tX k) < 2 ^ 53)%Z) /\
  (forall k, (k + 1 < n)%nat -> (Z.abs (ex_tF k + ex_tF (k + 1)%nat) < 2 ^ 53)%Z) /\
  (zsum_n (n - 1) (fun k => Z.abs (c k)) < 2 ^ 53)%Z /\
  trapezium1 (A := AF) 0.5%float m 0 = Ok 5.875%float.
Proof.
  cbv zeta. split; [exact ex_tmesh_wf|]. split; [cbn; lia|]. split; [cbn; lia|].
  split; [exact ex_tmesh_nodes|]. split; [exact ex_tmesh_vals|].
  split; [lia|]. split; [lia|]. split; [lia|].
  split; [exact ex_tmesh_dx|]. split; [exact ex_tmesh_df|]. split; [vm_compute; reflexivity|exact ex_tmesh_value].
Qed.

(* Mesh2D::trapezium at binary64: coordinates X_i 2^ex, Y_j 2^ey, nodal data F_ij 2^g (integer-valued: g = 0); cell
   sizes, the partial sums of the four corner values and the running sum of |numerators| below 2^53: the single
   running sum over both loops is exact and equals the double sum of the rule over the reals. *)
Theorem trapezium2_exact_float : forall (m : mesh2 AF PrimFloat.float) (var : nat) (X Y : nat -> Z) (F : nat -> nat -> Z)
  (ex ey g : Z),
  let nx := m2_nx m in let ny := m2_ny m in
  let x := fun i => nth i (m2_x m) 0%float in
  let y := fun j => nth j (m2_y m) 0%float in
  let f := fun i j => nth var (nth (i * m2_ny m + j) (m2_vars m) []) 0%float in
  let c := fun i j => ((X (i + 1)%nat - X i) * (Y (j + 1)%nat - Y j)
                       * (F i j + F (i + 1)%nat j + F i (j + 1)%nat + F (i + 1)%nat (j + 1)%nat))%Z in
  wf2 m -> (var < m2_nvars m)%nat -> (1 <= nx)%nat -> (1 <= ny)%nat ->
  (forall i, (i < nx)%nat -> ffinite (x i) /\ FR (x i) = (IZR (X i) * bpow radix2 ex)%R) ->
  (forall j, (j < ny)%nat -> ffinite (y j) /\ FR (y j) = (IZR (Y j) * bpow radix2 ey)%R) ->
  (forall i j, (i < nx)%nat -> (j < ny)%nat -> ffinite (f i j) /\ FR (f i j) = (IZR (F i j) * bpow radix2 g)%R) ->
  (-1072 <= ex <= 971)%Z -> (-1074 <= ey <= 971)%Z -> (-1074 <= g <= 971)%Z ->
  (-1072 <= ex + ey <= 973)%Z -> (-1072 <= ex + ey + g <= 973)%Z ->
  (forall i, (i + 1 < nx)%nat -> (Z.abs (X (i + 1)%nat - X i) < 2 ^ 53)%Z) ->
  (forall j, (j + 1 < ny)%nat -> (Z.abs (Y (j + 1)%nat - Y j) < 2 ^ 53)%Z) ->
  (forall i j, (i + 1 < nx)%nat -> (j + 1 < ny)%nat ->
     (Z.abs ((X (i + 1)%nat - X i) * (Y (j + 1)%nat - Y j)) < 2 ^ 53)%Z) ->
  (forall i j, (i + 1 < nx)%nat -> (j + 1 < ny)%nat ->
     (Z.abs (F i j + F (i + 1)%nat j) < 2 ^ 53 /\ Z.abs (F i j + F (i + 1)%nat j + F i (j + 1)%nat) < 2 ^ 53 /\
      Z.abs (F i j + F (i + 1)%nat j + F i (j + 1)%nat + F (i + 1)%nat (j + 1)%nat) < 2 ^ 53)%Z) ->
  (zsum_n (nx - 1) (fun i => zsum_n (ny - 1) (fun j => Z.abs (c i j))) < 2 ^ 53)%Z ->
  exists r, trapezium2 (A := AF) 0.25%float m var = Ok r /\ ffinite r /\
    FR r = sumR (nx - 1) (fun i => sumR (ny - 1) (fun j =>
             (/ 4 * (FR (x (i + 1)%nat) - FR (x i)) * (FR (y (j + 1)%nat) - FR (y j))
             * (FR (f i j) + FR (f (i + 1)%nat j) + FR (f i (j + 1)%nat) + FR (f (i + 1)%nat (j + 1)%nat)))%R)) /\
    FR r = (IZR (zsum_n (nx - 1) (fun i => zsum_n (ny - 1) (c i))) * bpow radix2 (ex + ey + g - 2))%R.
Proof.
  intros m var X Y F ex ey g nx ny x y f c Hwf Hv Hnx Hny HX HY HF Hex Hey Hg Hxy Hxyg Hdx Hdy Hdxy HS Hb.
  exact (trapezium2_exact_float_lemma m var X Y F ex ey g Hwf Hv Hnx Hny HX HY HF Hex Hey Hg Hxy Hxyg Hdx Hdy Hdxy HS Hb).
Qed.
Check trapezium2_exact_float : forall (m : mesh2 AF PrimFloat.float) (var : nat) (X Y : nat -> Z) (F : nat -> nat -> Z)
  (ex ey g : Z),
  let nx := m2_nx m in let ny := m2_ny m in
  let x := fun i => nth i (m2_x m) 0%float in
  let y := fun j => nth j (m2_y m) 0%float in
  let f := fun i j => nth var (nth (i * m2_ny m + j) (m2_vars m) []) 0%float in
  let c := fun i j => ((X (i + 1)%nat - X i) * (Y (j + 1)%nat - Y j)
                       * (F i j + F (i + 1)%nat j + F i (j + 1)%nat + F (i + 1)%nat (j + 1)%nat))%Z in
  wf2 m -> (var < m2_nvars m)%nat -> (1 <= nx)%nat -> (1 <= ny)%nat ->
  (forall i, (i < nx)%nat -> ffinite (x i) /\ FR (x i) = (IZR (X i) * bpow radix2 ex)%R) ->
  (forall j, (j < ny)%nat -> ffinite (y j) /\ FR (y j) = (IZR (Y j) * bpow radix2 ey)%R) ->
  (forall i j, (i < nx)%nat -> (j < ny)%nat -> ffinite (f i j) /\ FR (f i j) = (IZR (F i j) * bpow radix2 g)%R) ->
  (-1072 <= ex <= 971)%Z -> (-1074 <= ey <= 971)%Z -> (-1074 <= g <= 971)%Z ->
  (-1072 <= ex + ey <= 973)%Z -> (-1072 <= ex + ey + g <= 973)%Z ->
  (forall i, (i + 1 < nx)%nat -> (Z.abs (X (i + 1)%nat - X i) < 2 ^ 53)%Z) ->
  (forall j, (j + 1 < ny)%nat -> (Z.abs (Y (j + 1)%nat - Y j) < 2 ^ 53)%Z) ->
  (forall i j, (i + 1 < nx)%nat -> (j + 1 < ny)%nat ->
     (Z.abs ((X (i + 1)%nat - X i) * (Y (j + 1)%nat - Y j)) < 2 ^ 53)%Z) ->
  (forall i j, (i + 1 < nx)%nat -> (j + 1 < ny)%nat ->
     (Z.abs (F i j + F (i + 1)%nat j) < 2 ^ 53 /\ Z.abs (F i j + F (i + 1)%nat j + F i (j + 1)%nat) < 2 ^ 53 /\
      Z.abs (F i j + F (i + 1)%nat j + F i (j + 1)%nat + F (i + 1)%nat (j + 1)%nat) < 2 ^ 53)%Z) ->
  (zsum_n (nx - 1) (fun i => zsum_n (ny - 1) (fun j => Z.abs (c i j))) < 2 ^ 53)%Z ->
  exists r, trapezium2 (A := AF) 0.25%float m var = Ok r /\ ffinite r /\
    FR r = sumR (nx - 1) (fun i => sumR (ny - 1) (fun j =>
             (/ 4 * (FR (x (i + 1)%nat) - FR (x i)) * (FR (y (j + 1)%nat) - FR (y j))
             * (FR (f i j) + FR (f (i + 1)%nat j) + FR (f i (j + 1)%nat) + FR (f (i + 1)%nat (j + 1)%nat)))%R)) /\
    FR r = (IZR (zsum_n (nx - 1) (fun i => zsum_n (ny - 1) (c i))) * bpow radix2 (ex + ey + g - 2))%R.
Print Assumptions trapezium2_exact_float.
(* x in {0, 1/2}, y in {0, 1, 3}, data 1 + 8x + 3y + 16xy at the nodes (integers): the rule gives 81/4 exactly *)
Example trapezium2_exact_float_nonvacuous :
  let m := ex_tmesh2 in
  let nx := m2_nx m in let ny := m2_ny m in
  let x := fun i => nth i (m2_x m) 0%float in
  let y := fun j => nth j (m2_y m) 0%float in
  let f := fun i j => nth 0 (nth (i * m2_ny m + j) (m2_vars m) []) 0%float in
  wf2 m /\ (0 < m2_nvars m)%nat /\ (1 <= nx)%nat /\ (1 <= ny)%nat /\
  (forall i, (i < nx)%nat -> ffinite (x i) /\ FR (x i) = (IZR (ex_t2X i) * bpow radix2 (-1))%R) /\
  (forall j, (j < ny)%nat -> ffinite (y j) /\ FR (y j) = (IZR (ex_t2Y j) * bpow radix2 0)%R) /\
  (forall i j, (i < nx)%nat -> (j < ny)%nat -> ffinite (f i j) /\ FR (f i j) = (IZR (ex_t2F i j) * bpow radix2 0)%R) /\
  (-1072 <= -1 <= 971)%Z /\ (-1074 <= 0 <= 971)%Z /\ (-1072 <= -1 + 0 <= 973)%Z /\ (-1072 <= -1 + 0 + 0 <= 973)%Z /\
  (forall i, (i + 1 < nx)%nat -> (Z.abs (ex_t2X (i + 1)%nat - ex_t2X i) < 2 ^ 53)%Z) /\
  (forall j, (j + 1 < ny)%nat -> (Z.abs (ex_t2Y (j + 1)%nat - ex_t2Y j) < 2 ^ 53)%Z) /\
  (forall i j, (i + 1 < nx)%nat -> (j + 1 < ny)%nat ->
     (Z.abs ((ex_t2X (i + 1)%nat - ex_t2X i) * (ex_t2Y (j + 1)%nat - ex_t2Y j)) < 2 ^ 53)%Z) /\
  (forall i j, (i + 1 < nx)%nat -> (j + 1 < ny)%nat ->
     (Z.abs (ex_t2F i j + ex_t2F (i + 1)%nat j) < 2 ^ 53 /\
      Z.abs (ex_t2F i j + ex_t2F (i + 1)%nat j + ex_t2F i (j + 1)%nat) < 2 ^ 53 /\
      Z.abs (ex_t2F i j + ex_t2F (i + 1)%nat j + ex_t2F i (j + 1)%nat + ex_t2F (i + 1)%nat (j + 1)%nat) < 2 ^ 53)%Z) /\
  (zsum_n (nx - 1) (fun i => zsum_n (ny - 1) (fun j => Z.abs
     ((ex_t2X (i + 1)%nat - ex_t2X i) * (ex_t2Y (j + 1)%nat - ex_t2Y j)
      * (ex_t2F i j + ex_t2F (i + 1)%nat j + ex_t2F i (j + 1)%nat + ex_t2F (i + 1)%nat (j + 1)%nat)))) < 2 ^ 53)%Z /\
  trapezium2 (A := AF) 0.25%float m 0 = Ok 20.25%float.
Proof.
  cbv zeta. split; [exact ex_tmesh2_wf|]. split; [cbn; lia|]. split; [cbn; lia|]. split; [cbn; lia|].
  split; [exact ex_tmesh2_x|]. split; [exact ex_tmesh2_y|]. split; [exact ex_tmesh2_f|].
  split; [lia|]. split; [lia|]. split; [lia|]. split; [lia|].
  split; [intros i Hi; destruct i as [|i]; [cbn; lia|cbn in Hi; lia]|].
  split; [intros j Hj; do 2 (destruct j as [|j]; [cbn; lia|]); cbn in Hj; lia|].
  split; [intros i j Hi Hj; destruct i as [|i]; [|cbn in Hi; lia]; do 2 (destruct j as [|j]; [cbn; lia|]); cbn in Hj; lia|].
  split; [intros i j Hi Hj; destruct i as [|i]; [|cbn in Hi; lia]; do 2 (destruct j as [|j]; [cbn; lia|]); cbn in Hj; lia|].
  split; [vm_compute; reflexivity|exact ex_tmesh2_value].
Qed.

(* Mesh1D::get_interpolated_vars at binary64 with the code's window (MESH_SNAP = 1e-7): node coordinates X_k 2^e on
   a grid no finer than the window (e >= -23), strictly increasing; x = Xx 2^e on the grid, j the LAST cell containing
   it; cell j of width 2^P 2^e with nodal data F 2^g (integer-valued: g = 0) whose numerators, scaled by 2^P, fit in
   53 bits.  Then the result is finite and EXACTLY the linear interpolant over the reals; at the left node of the
   cell it returns that node's values and at the last node of the mesh the last node's values.
   (Every cell is tested and a later matching cell overwrites: at an interior node both neighbouring cells match.) *)
Theorem interp_exact_float : forall (m : mesh1 AF PrimFloat.float) (x : PrimFloat.float) (X F0 F1 : nat -> Z)
  (Xx e g P : Z) (j : nat),
  let n := length (m1_nodes m) in
  let xs := fun k => nth k (m1_nodes m) 0%float in
  let L := fun v => nth v (nth j (m1_vars m) []) 0%float in
  let Rr := fun v => nth v (nth (j + 1) (m1_vars m) []) 0%float in
  wf1 m -> (j + 1 < n)%nat ->
  (forall k, (k < n)%nat -> ffinite (xs k) /\ FR (xs k) = (IZR (X k) * bpow radix2 e)%R) ->
  (forall k, (k + 1 < n)%nat -> (X k < X (k + 1)%nat)%Z) ->
  ffinite x -> FR x = (IZR Xx * bpow radix2 e)%R ->
  (forall k, (k < n)%nat -> (Z.abs (X k - Xx) < 2 ^ 53)%Z) ->
  (-23 <= e <= 971)%Z ->
  (X j <= Xx <= X (j + 1)%nat)%Z -> (Xx = X (j + 1)%nat -> (j + 2 = n)%nat) ->
  (X (j + 1)%nat - X j = 2 ^ P)%Z -> (0 <= P <= 52)%Z ->
  (forall v, (v < m1_nvars m)%nat -> ffinite (L v) /\ FR (L v) = (IZR (F0 v) * bpow radix2 g)%R) ->
  (forall v, (v < m1_nvars m)%nat -> ffinite (Rr v) /\ FR (Rr v) = (IZR (F1 v) * bpow radix2 g)%R) ->
  (forall v, (v < m1_nvars m)%nat ->
     (Z.abs (F1 v - F0 v) * 2 ^ P < 2 ^ 53 /\ Z.abs (F0 v) * 2 ^ P < 2 ^ 53 /\ Z.abs (F1 v) * 2 ^ P < 2 ^ 53)%Z) ->
  (-1074 <= g <= 971)%Z -> (-1074 <= g - P - e <= 971)%Z -> (-1074 <= g - P)%Z ->
  exists r, interp1 (A := AF) Params.MESH_SNAP m x = Ok r /\ length r = m1_nvars m /\
    forall v, (v < m1_nvars m)%nat ->
      ffinite (nth v r 0%float) /\
      FR (nth v r 0%float)
        = (FR (L v) + (FR (Rr v) - FR (L v)) / (FR (xs (j + 1)%nat) - FR (xs j)) * (FR x - FR (xs j)))%R /\
      (Xx = X j -> FR (nth v r 0%float) = FR (L v)) /\
      (Xx = X (j + 1)%nat -> FR (nth v r 0%float) = FR (Rr v)).
Proof.
  intros m x X F0 F1 Xx e g P j n xs L Rr Hwf Hj HX Hinc Fx Rx Hb He Hin Hlast HP HP' HF0 HF1 HFb Hg Hq Hgp.
  exact (interp_exact_float_lemma m x X F0 F1 Xx e g P j Hwf Hj HX Hinc Fx Rx Hb He Hin Hlast HP HP' HF0 HF1 HFb Hg Hq Hgp).
Qed.
Check interp_exact_float : forall (m : mesh1 AF PrimFloat.float) (x : PrimFloat.float) (X F0 F1 : nat -> Z)
  (Xx e g P : Z) (j : nat),
  let n := length (m1_nodes m) in
  let xs := fun k => nth k (m1_nodes m) 0%float in
  let L := fun v => nth v (nth j (m1_vars m) []) 0%float in
  let Rr := fun v => nth v (nth (j + 1) (m1_vars m) []) 0%float in
  wf1 m -> (j + 1 < n)%nat ->
  (forall k, (k < n)%nat -> ffinite (xs k) /\ FR (xs k) = (IZR (X k) * bpow radix2 e)%R) ->
  (forall k, (k + 1 < n)%nat -> (X k < X (k + 1)%nat)%Z) ->
  ffinite x -> FR x = (IZR Xx * bpow radix2 e)%R ->
  (forall k, (k < n)%nat -> (Z.abs (X k - Xx) < 2 ^ 53)%Z) ->
  (-23 <= e <= 971)%Z ->
  (X j <= Xx <= X (j + 1)%nat)%Z -> (Xx = X (j + 1)%nat -> (j + 2 = n)%nat) ->
  (X (j + 1)%nat - X j = 2 ^ P)%Z -> (0 <= P <= 52)%Z ->
  (forall v, (v < m1_nvars m)%nat -> ffinite (L v) /\ FR (L v) = (IZR (F0 v) * bpow radix2 g)%R) ->
  (forall v, (v < m1_nvars m)%nat -> ffinite (Rr v) /\ FR (Rr v) = (IZR (F1 v) * bpow radix2 g)%R) ->
  (forall v, (v < m1_nvars m)%nat ->
     (Z.abs (F1 v - F0 v) * 2 ^ P < 2 ^ 53 /\ Z.abs (F0 v) * 2 ^ P < 2 ^ 53 /\ Z.abs (F1 v) * 2 ^ P < 2 ^ 53)%Z) ->
  (-1074 <= g <= 971)%Z -> (-1074 <= g - P - e <= 971)%Z -> (-1074 <= g - P)%Z ->
  exists r, interp1 (A := AF) Params.MESH_SNAP m x = Ok r /\ length r = m1_nvars m /\
    forall v, (v < m1_nvars m)%nat ->
      ffinite (nth v r 0%float) /\
      FR (nth v r 0%float)
        = (FR (L v) + (FR (Rr v) - FR (L v)) / (FR (xs (j + 1)%nat) - FR (xs j)) * (FR x - FR (xs j)))%R /\
      (Xx = X j -> FR (nth v r 0%float) = FR (L v)) /\
      (Xx = X (j + 1)%nat -> FR (nth v r 0%float) = FR (Rr v)).
Print Assumptions interp_exact_float.
(* nodes 0, 1/4, 3/4, 7/4 (grid 2^-2, cell widths 1, 2, 4 grid units), integer data 3, -5, 7, 2; x = 1/2 in cell 1:
   -5 + (12 / 0.5) * 0.25 = 1; at the interior node 3/4 the value 7, at the last node the value 2 *)
Example interp_exact_float_nonvacuous :
  let m := ex_imeshF in
  let n := length (m1_nodes m) in
  let xs := fun k => nth k (m1_nodes m) 0%float in
  let L := fun v => nth v (nth 1 (m1_vars m) []) 0%float in
  let Rr := fun v => nth v (nth (1 + 1) (m1_vars m) []) 0%float in
  wf1 m /\ (1 + 1 < n)%nat /\
  (forall k, (k < n)%nat -> ffinite (xs k) /\ FR (xs k) = (IZR (ex_iX k) * bpow radix2 (-2))%R) /\
  (forall k, (k + 1 < n)%nat -> (ex_iX k < ex_iX (k + 1)%nat)%Z) /\
  ffinite 0.5%float /\ FR 0.5%float = (IZR 2 * bpow radix2 (-2))%R /\
  (forall k, (k < n)%nat -> (Z.abs (ex_iX k - 2) < 2 ^ 53)%Z) /\
  (-23 <= -2 <= 971)%Z /\
  (ex_iX 1 <= 2 <= ex_iX (1 + 1)%nat)%Z /\ (2%Z = ex_iX (1 + 1)%nat -> (1 + 2 = n)%nat) /\
  (ex_iX (1 + 1)%nat - ex_iX 1 = 2 ^ 1)%Z /\ (0 <= 1 <= 52)%Z /\
  (forall v, (v < m1_nvars m)%nat -> ffinite (L v) /\ FR (L v) = (IZR (-5) * bpow radix2 0)%R) /\
  (forall v, (v < m1_nvars m)%nat -> ffinite (Rr v) /\ FR (Rr v) = (IZR 7 * bpow radix2 0)%R) /\
  (forall v : nat, (v < m1_nvars m)%nat ->
     (Z.abs (7 - -5) * 2 ^ 1 < 2 ^ 53 /\ Z.abs (-5) * 2 ^ 1 < 2 ^ 53 /\ Z.abs 7 * 2 ^ 1 < 2 ^ 53)%Z) /\
  (-1074 <= 0 <= 971)%Z /\ (-1074 <= 0 - 1 - -2 <= 971)%Z /\ (-1074 <= 0 - 1)%Z /\
  interp1 (A := AF) Params.MESH_SNAP m 0.5%float = Ok [1%float] /\
  interp1 (A := AF) Params.MESH_SNAP m 0.75%float = Ok [7%float] /\
  interp1 (A := AF) Params.MESH_SNAP m 1.75%float = Ok [2%float].
Proof.
  cbv zeta. split; [exact ex_imeshF_wf|]. split; [cbn; lia|].
  split; [exact ex_imeshF_nodes|]. split; [exact ex_imeshF_incr|].
  split; [exact (proj1 ex_imeshF_x)|]. split; [exact (proj2 ex_imeshF_x)|].
  split; [exact ex_imeshF_bound|]. split; [lia|]. split; [cbn; lia|]. split; [cbn; lia|].
  split; [cbn; lia|]. split; [lia|]. split; [exact ex_imeshF_L|]. split; [exact ex_imeshF_R|].
  split; [intros; simpl; lia|]. split; [lia|]. split; [lia|]. split; [lia|]. exact ex_imeshF_values.
Qed.

(* Mesh1D::get_interpolated_vars at binary64 AT A NODE k other than the last: node coordinates on a grid 2^e no finer
   than the window, ANY finite nodal data, ANY cell widths: the nodal values of node k are returned exactly (the float
   itself unless it is a zero) as soon as the slopes of cell k are finite -- the winning cell is cell k with x - xl = 0.
   At the LAST node the result is left + ((right - left)/w) * w, equal to `right` only up to rounding unless w is a
   power of two (interp_exact_float): for nodes 0, 49 and data 0, 1 it is 1 - 2^-53 (interp_last_node_inexact). *)
Theorem interp_node_exact_float : forall (m : mesh1 AF PrimFloat.float) (x : PrimFloat.float) (X : nat -> Z) (e : Z) (k : nat),
  let n := length (m1_nodes m) in
  let xs := fun i => nth i (m1_nodes m) 0%float in
  let L := fun v => nth v (nth k (m1_vars m) []) 0%float in
  let Rr := fun v => nth v (nth (k + 1) (m1_vars m) []) 0%float in
  wf1 m -> (k + 1 < n)%nat ->
  (forall i, (i < n)%nat -> ffinite (xs i) /\ FR (xs i) = (IZR (X i) * bpow radix2 e)%R) ->
  (forall i, (i + 1 < n)%nat -> (X i < X (i + 1)%nat)%Z) ->
  ffinite x -> FR x = FR (xs k) ->
  (forall i, (i < n)%nat -> (Z.abs (X i - X k) < 2 ^ 53)%Z) ->
  (-23 <= e <= 971)%Z ->
  (forall v, (v < m1_nvars m)%nat -> ffinite (L v) /\ ffinite ((Rr v - L v) / (xs (k + 1)%nat - xs k))%float) ->
  exists r, interp1 (A := AF) Params.MESH_SNAP m x = Ok r /\ length r = m1_nvars m /\
    forall v, (v < m1_nvars m)%nat ->
      ffinite (nth v r 0%float) /\ FR (nth v r 0%float) = FR (L v) /\
      (FR (L v) <> 0%R -> nth v r 0%float = L v).
Proof.
  intros m x X e k n xs L Rr Hwf Hk HX Hinc Fx Rx Hb He Hq.
  exact (interp_node_exact_float_lemma m x X e k Hwf Hk HX Hinc Fx Rx Hb He Hq).
Qed.
Check interp_node_exact_float : forall (m : mesh1 AF PrimFloat.float) (x : PrimFloat.float) (X : nat -> Z) (e : Z) (k : nat),
  let n := length (m1_nodes m) in
  let xs := fun i => nth i (m1_nodes m) 0%float in
  let L := fun v => nth v (nth k (m1_vars m) []) 0%float in
  let Rr := fun v => nth v (nth (k + 1) (m1_vars m) []) 0%float in
  wf1 m -> (k + 1 < n)%nat ->
  (forall i, (i < n)%nat -> ffinite (xs i) /\ FR (xs i) = (IZR (X i) * bpow radix2 e)%R) ->
  (forall i, (i + 1 < n)%nat -> (X i < X (i + 1)%nat)%Z) ->
  ffinite x -> FR x = FR (xs k) ->
  (forall i, (i < n)%nat -> (Z.abs (X i - X k) < 2 ^ 53)%Z) ->
  (-23 <= e <= 971)%Z ->
  (forall v, (v < m1_nvars m)%nat -> ffinite (L v) /\ ffinite ((Rr v - L v) / (xs (k + 1)%nat - xs k))%float) ->
  exists r, interp1 (A := AF) Params.MESH_SNAP m x = Ok r /\ length r = m1_nvars m /\
    forall v, (v < m1_nvars m)%nat ->
      ffinite (nth v r 0%float) /\ FR (nth v r 0%float) = FR (L v) /\
      (FR (L v) <> 0%R -> nth v r 0%float = L v).
Print Assumptions interp_node_exact_float.
Example interp_node_exact_float_nonvacuous :
  let m := ex_imesh49 in
  let n := length (m1_nodes m) in
  let xs := fun i => nth i (m1_nodes m) 0%float in
  let L := fun v => nth v (nth 0 (m1_vars m) []) 0%float in
  let Rr := fun v => nth v (nth (0 + 1) (m1_vars m) []) 0%float in
  wf1 m /\ (0 + 1 < n)%nat /\
  (forall i, (i < n)%nat -> ffinite (xs i) /\ FR (xs i) = (IZR (ex_i49X i) * bpow radix2 0)%R) /\
  (forall i, (i + 1 < n)%nat -> (ex_i49X i < ex_i49X (i + 1)%nat)%Z) /\
  ffinite 0%float /\ FR 0%float = FR (xs 0%nat) /\
  (forall i, (i < n)%nat -> (Z.abs (ex_i49X i - ex_i49X 0) < 2 ^ 53)%Z) /\
  (-23 <= 0 <= 971)%Z /\
  (forall v, (v < m1_nvars m)%nat -> ffinite (L v) /\ ffinite ((Rr v - L v) / (xs (0 + 1)%nat - xs 0%nat))%float) /\
  interp1 (A := AF) Params.MESH_SNAP m 0%float = Ok [0%float] /\
  (* and the last node of the same mesh is NOT reproduced *)
  (exists r, interp1 (A := AF) Params.MESH_SNAP m 49%float = Ok [r] /\
             PrimFloat.eqb r 1%float = false /\ PrimFloat.ltb r 1%float = true).
Proof.
  cbv zeta. split; [exact ex_imesh49_wf|]. split; [cbn; lia|]. split; [exact ex_imesh49_nodes|].
  split; [intros i Hi; destruct i as [|i]; [cbn; lia|cbn in Hi; lia]|].
  split; [vm_compute; reflexivity|]. split; [reflexivity|].
  split; [intros i Hi; do 2 (destruct i as [|i]; [cbn; lia|]); cbn in Hi; lia|].
  split; [lia|]. split; [exact ex_imesh49_slopes|]. exact interp_last_node_inexact.
Qed.


(* ---------------------------------------------------------------------------------------------------------------
   C19, round three (package meshio3): the file round trip for a formatter that ROUNDS.
   Mesh1D::output writes `{number:.prec$}` (fixed point, prec digits after the point -- src/mesh1d.rs:154-156; the same in
   Mesh2D::output / output_var), so `parse (fmt x) = Ok x` -- the hypothesis of read_layout_roundtrip above -- holds only for
   values with at most prec decimals.  The theorems below assume instead   parse (fmt x) = Ok (rnd x)   for an arbitrary
   function rnd (and only of the values the mesh holds where that is enough):
     read_layout_roundtrip_rounded   the mesh read back = the written mesh with every node and every value replaced by its
                                     rounding (map_mesh1 rnd m): same nvars, same number of nodes, same order
     rounded_mesh_entries            what map_mesh1 is, entry by entry
     read_layout_roundtrip_held      the values held survive printing  ->  the mesh read back is the mesh written
     roundtrip_idempotent            fmt (rnd x) = fmt x  ->  rnd (rnd x) = rnd x, the file written from the re-read mesh is
                                     the first file token for token, and reading it again returns the same mesh
     read_written_bad_token          a held value whose token does not parse: read panics
     read1_ok_or_parse_panic         read on ANY token list (any length) into a well-formed mesh: a well-formed mesh with
                                     ceil(len / (nvars+1)) nodes, or the panic of the parser on one of the tokens -- the
                                     indexing `self.vars[i / (nvars+1)][var]` can never go out of range
     read1_ok_iff                    read returns a mesh  <->  every token parses
     read1_panic_class               a parser with one panic (f64::from_str(..).unwrap(): Unwrap): read returns exactly
                                     that panic, exactly when some token does not parse
     read1_any_length                the complete result of read on ANY token list whose tokens parse, entry by entry:
                                     vars[k][v] = the token at position k*(nvars+1)+v+1 IF THE FILE HAS ONE, else the
                                     value of the mesh read into (or 0 beyond its nodes)
     read1_incomplete_line           so a file ending in an incomplete line is read without error and the missing
                                     variables of the last node silently keep stale values (observed on the
                                     implementation: the file "1 2 3 / 4 5" read into a mesh holding 80..83 gives vars[1] = [5, 81])
     tied_reread_rounded, tied_file_rounded
                                     the step function executed against the implementation on every run (tokens carried
                                     as the numbers they parse to, fmt = the measured table value -> printed value,
                                     parse = Ok) returns the mesh rounded by that table
   A concrete instance on the exact tier (Proofs/MeshIO3Fmt.v, MeshIO3Inst.v), so that the hypotheses are met by
   something that is not the identity: division rounded to nearest with ties to even (rneQ), the fixed-point formatter
   {:.N} = the one the code uses (fmt_fix / parse_fix / rnd_fix: token = sign + the digits as one integer) and the
   scientific formatter {:.Ne} (fmt_sci / parse_sci / rnd_sci: sign, N+1 digits, decimal exponent):
     rneQ_nearest_even               |rneQ q - q| <= 1/2, equality only at a tie and then the result is even; integers fixed
     fix_formatter_laws              parse (fmt x) = Ok (rnd x), fmt (rnd x) = fmt x, |rnd x - x| <= 10^-N / 2
     fix_fixpoints                   rnd x = x  <->  x has at most N decimals
     sci_formatter_laws              the same with |rnd x - x| <= |x| 10^-N / 2 (relative), and what is printed has exactly
                                     N+1 significant digits (or is 0)
     sci_formatter_ulp               10^e <= |x| < 10^(e+1) for e = dexp x, and |rnd x - x| <= 10^(e-N) / 2: half a unit of the
                                     last of the N+1 digits; the printed exponent is e, or e+1 with mantissa 1.00..0 (carry)
     file_roundtrip_fix, file_roundtrip_fix_twice, file_roundtrip_fix_exact, file_roundtrip_sci
                                     Mesh1D<Rat,Rat>: write + read = the mesh rounded entry by entry, every entry within
                                     half a unit of the last digit; a second round trip is the identity; entries with at
                                     most N decimals come back unchanged
     read_fix_outcome                reading any token list: a mesh or Panic Unwrap, the panic iff a token is malformed
   The SECOND rounding (Proofs/MeshIO3Fl.v): f64::from_str rounds the decimal to a binary64.  With the parser followed by
   an ARBITRARY function fl on the rationals:
     fmt_fix_near                    a number strictly within half a unit of the last digit of a decimal prints as it
     file_roundtrip_fix_fl           write + read = every entry replaced by fl (rnd_fix N entry)   (nothing asked of fl)
     file_roundtrip_fix_fl_twice     if fl moves every printed decimal by less than 10^-N / 2, the second file is the
                                     first file and the second round trip is the identity
     file_roundtrip_fix_fl_twice_rel the same from a relative error bound |fl y - y| <= u |y| for entries with
                                     u |decimal| < 10^-N / 2 (binary64, u = 2^-53: |decimal| < 10^-N * 4.5e15), and
                                     |read back - written| <= 10^-N / 2 + u |decimal|.  That the standard library's
                                     from_str satisfies the bound (correct rounding, no overflow/underflow) is assumed,
                                     not proved; beyond the bound on the entries nothing is proved here
     file_roundtrip_fix_nearest      NO bound on the entries: if the entries lie in a set F (the binary64 numbers) and
                                     fl y is at least as close to y as every element of F (from_str rounds to nearest),
                                     then fmt (fl (rnd x)) = fmt x for every x in F -- at a tie the printed last digit is
                                     even, so the tie read back prints the same -- hence second file = first file, second
                                     round trip = identity, and |read back - written| <= 10^-N
   Mesh2D (Proofs/MeshIO3Out2.v):
     output_var2_layout              output_var writes, for every j, one line x_i y_j v(i,j) per i and an empty line;
                                     a variable that does not exist panics (Index) on the first node
     output2_contents                line j*(nx+1)+i of the file of output is the line of node (i,j) = x_i, y_j, then the
                                     nvars variables of the node at slot i*ny+j; line j*(nx+1)+nx is empty; token
                                     (j*nx+i)*(nvars+2)+c of the whitespace-token stream is token c of that line
     output_var2_is_projection       the file of output_var = the file of output with the other variables' columns removed
   Proofs/MeshIO3Sample.v: recorded output of the Rust standard library's `{:.*}` / `{:.*e}` on 240 binary64 values (6 exact
   ties, 7 negative values rounding to zero): the digits are fmt_fix / fmt_sci of the exact rational value of the float.
   NOT modelled: the sign of a negative value that rounds to zero (Rust prints "-0.00" and reads -0.0; rationals have no
   signed zero, the model's token is unsigned), NaN / infinities; the binary64 rounding of f64::from_str is a parameter
   (fl) of the last five formatter theorems and absent from the others (exact rational arithmetic).
   --------------------------------------------------------------------------------------------------------------- *)
From Coq Require Import ZArith QArith Qabs Qcanon.
Close Scope Qc_scope.
Close Scope Q_scope.
From OV Require Import Proofs.MeshIO3.
From OV Require Import Proofs.MeshIO3Fmt.
From OV Require Import Proofs.MeshIO3Inst.
From OV Require Import Proofs.MeshIO3Out2.
From OV Require Import Proofs.MeshIO3Any.
From OV Require Import Proofs.MeshIO3Fl.
From OV Require Proofs.MeshIO3Sample.

Theorem read_layout_roundtrip_rounded : forall (A : Arith) (tok : Type) (fmt : A -> tok) (parse : tok -> res A) (rnd : A -> A),
  (forall x, parse (fmt x) = Ok (rnd x)) ->
  forall m m0 : mesh1 A A,
  wf1 m -> m1_nvars m0 = m1_nvars m -> Forall (fun r => length r = m1_nvars m0) (m1_vars m0) ->
  (let* lines := output1 tok fmt fmt m in read1 tok parse m0 (concat lines)) = Ok (map_mesh1 rnd m).
Proof. intros A tok fmt parse rnd Hp m m0. exact (MeshIO3.read_layout_roundtrip_rounded tok fmt parse rnd Hp m m0). Qed.
Check read_layout_roundtrip_rounded : forall (A : Arith) (tok : Type) (fmt : A -> tok) (parse : tok -> res A) (rnd : A -> A),
  (forall x, parse (fmt x) = Ok (rnd x)) ->
  forall m m0 : mesh1 A A,
  wf1 m -> m1_nvars m0 = m1_nvars m -> Forall (fun r => length r = m1_nvars m0) (m1_vars m0) ->
  (let* lines := output1 tok fmt fmt m in read1 tok parse m0 (concat lines)) = Ok (map_mesh1 rnd m).
Print Assumptions read_layout_roundtrip_rounded.
(* the fixed-point formatter with two decimals; a 3-node mesh holding 1/3, -2/7, 12.345, ... read into a 4-node mesh
   holding other data; the rounding is not the identity on it *)
Example read_layout_roundtrip_rounded_nonvacuous :
  (forall x : AQ, parse_fix 2 (fmt_fix 2 x) = Ok (rnd_fix 2 x)) /\
  wf1 ex_r /\ m1_nvars ex_r0 = m1_nvars ex_r /\ Forall (fun r => length r = m1_nvars ex_r0) (m1_vars ex_r0) /\
  map_mesh1 (A:=AQ) (rnd_fix 2) ex_r <> ex_r.
Proof.
  split; [exact (parse_fmt_fix 2)|]. split; [exact ex_r_wf|]. split; [reflexivity|].
  split; [repeat constructor | exact (proj2 file_roundtrip_fix_run)].
Qed.

Theorem rounded_mesh_entries : forall (A : Arith) (f : A -> A) (m : mesh1 A A),
  wf1 m ->
  wf1 (map_mesh1 f m) /\
  m1_nvars (map_mesh1 f m) = m1_nvars m /\
  length (m1_nodes (map_mesh1 f m)) = length (m1_nodes m) /\
  length (m1_vars (map_mesh1 f m)) = length (m1_vars m) /\
  (forall k, k < length (m1_nodes m) -> nth k (m1_nodes (map_mesh1 f m)) zero = f (nth k (m1_nodes m) zero)) /\
  (forall k v, k < length (m1_nodes m) -> v < m1_nvars m ->
     nth v (nth k (m1_vars (map_mesh1 f m)) []) zero = f (nth v (nth k (m1_vars m) []) zero)).
Proof. intros A f m H. split; [exact (MeshIO3.map_mesh1_wf f m H) | exact (MeshIO3.map_mesh1_entries f m H)]. Qed.
Check rounded_mesh_entries : forall (A : Arith) (f : A -> A) (m : mesh1 A A),
  wf1 m ->
  wf1 (map_mesh1 f m) /\
  m1_nvars (map_mesh1 f m) = m1_nvars m /\
  length (m1_nodes (map_mesh1 f m)) = length (m1_nodes m) /\
  length (m1_vars (map_mesh1 f m)) = length (m1_vars m) /\
  (forall k, k < length (m1_nodes m) -> nth k (m1_nodes (map_mesh1 f m)) zero = f (nth k (m1_nodes m) zero)) /\
  (forall k v, k < length (m1_nodes m) -> v < m1_nvars m ->
     nth v (nth k (m1_vars (map_mesh1 f m)) []) zero = f (nth v (nth k (m1_vars m) []) zero)).
Print Assumptions rounded_mesh_entries.
Example rounded_mesh_entries_nonvacuous : wf1 ex_r /\ 2 < length (m1_nodes ex_r) /\ 1 < m1_nvars ex_r.
Proof. split; [exact ex_r_wf|]. split; cbn; auto. Qed.

Theorem read_layout_roundtrip_held : forall (A : Arith) (tok : Type) (fmt : A -> tok) (parse : tok -> res A) (m m0 : mesh1 A A),
  (forall x, In x (m1_nodes m ++ concat (m1_vars m)) -> parse (fmt x) = Ok x) ->
  wf1 m -> m1_nvars m0 = m1_nvars m -> Forall (fun r => length r = m1_nvars m0) (m1_vars m0) ->
  (let* lines := output1 tok fmt fmt m in read1 tok parse m0 (concat lines)) = Ok m.
Proof. intros A tok fmt parse m m0. exact (MeshIO3.read_layout_roundtrip_held tok fmt parse m m0). Qed.
Check read_layout_roundtrip_held : forall (A : Arith) (tok : Type) (fmt : A -> tok) (parse : tok -> res A) (m m0 : mesh1 A A),
  (forall x, In x (m1_nodes m ++ concat (m1_vars m)) -> parse (fmt x) = Ok x) ->
  wf1 m -> m1_nvars m0 = m1_nvars m -> Forall (fun r => length r = m1_nvars m0) (m1_vars m0) ->
  (let* lines := output1 tok fmt fmt m in read1 tok parse m0 (concat lines)) = Ok m.
Print Assumptions read_layout_roundtrip_held.
(* one decimal: every entry of ex_h survives, 1/3 would not *)
Example read_layout_roundtrip_held_nonvacuous :
  (forall x : Qc, In x (m1_nodes ex_h ++ concat (m1_vars ex_h)) -> parse_fix 1 (fmt_fix 1 x) = Ok x) /\
  wf1 ex_h /\ m1_nvars ex_r0 = m1_nvars ex_h /\ Forall (fun r => length r = m1_nvars ex_r0) (m1_vars ex_r0) /\
  parse_fix 1 (fmt_fix 1 (q 1 3)) <> Ok (q 1 3).
Proof.
  split; [exact ex_h_survives|]. split; [exact ex_h_wf|]. split; [reflexivity|].
  split; [repeat constructor | exact third_does_not_survive].
Qed.

Theorem roundtrip_idempotent : forall (A : Arith) (tok : Type) (fmt : A -> tok) (parse : tok -> res A) (rnd : A -> A),
  (forall x, parse (fmt x) = Ok (rnd x)) -> (forall x, fmt (rnd x) = fmt x) ->
  (forall x, rnd (rnd x) = rnd x) /\
  forall m m0 m1 : mesh1 A A,
  wf1 m -> m1_nvars m0 = m1_nvars m -> m1_nvars m1 = m1_nvars m ->
  Forall (fun r => length r = m1_nvars m0) (m1_vars m0) ->
  Forall (fun r => length r = m1_nvars m1) (m1_vars m1) ->
  exists lines m',
    output1 tok fmt fmt m = Ok lines /\
    read1 tok parse m0 (concat lines) = Ok m' /\ m' = map_mesh1 rnd m /\
    output1 tok fmt fmt m' = Ok lines /\
    read1 tok parse m1 (concat lines) = Ok m'.
Proof. intros A tok fmt parse rnd Hp Hf. split; [exact (MeshIO3.rnd_idempotent tok fmt parse rnd Hp Hf)|].
  intros m m0 m1. exact (MeshIO3.roundtrip_twice tok fmt parse rnd Hp Hf m m0 m1). Qed.
Check roundtrip_idempotent : forall (A : Arith) (tok : Type) (fmt : A -> tok) (parse : tok -> res A) (rnd : A -> A),
  (forall x, parse (fmt x) = Ok (rnd x)) -> (forall x, fmt (rnd x) = fmt x) ->
  (forall x, rnd (rnd x) = rnd x) /\
  forall m m0 m1 : mesh1 A A,
  wf1 m -> m1_nvars m0 = m1_nvars m -> m1_nvars m1 = m1_nvars m ->
  Forall (fun r => length r = m1_nvars m0) (m1_vars m0) ->
  Forall (fun r => length r = m1_nvars m1) (m1_vars m1) ->
  exists lines m',
    output1 tok fmt fmt m = Ok lines /\
    read1 tok parse m0 (concat lines) = Ok m' /\ m' = map_mesh1 rnd m /\
    output1 tok fmt fmt m' = Ok lines /\
    read1 tok parse m1 (concat lines) = Ok m'.
Print Assumptions roundtrip_idempotent.
Example roundtrip_idempotent_nonvacuous :
  (forall x : AQ, parse_sci 2 (fmt_sci 2 x) = Ok (rnd_sci 2 x)) /\ (forall x : AQ, fmt_sci 2 (rnd_sci 2 x) = fmt_sci 2 x) /\
  wf1 ex_r /\ m1_nvars ex_r0 = m1_nvars ex_r /\ Forall (fun r => length r = m1_nvars ex_r0) (m1_vars ex_r0).
Proof.
  split; [exact (parse_fmt_sci 2)|]. split; [exact (fmt_rnd_sci 2)|]. split; [exact ex_r_wf|].
  split; [reflexivity | repeat constructor].
Qed.

Theorem read_written_bad_token : forall (A : Arith) (tok : Type) (fmt : A -> tok) (parse : tok -> res A) (m m0 : mesh1 A A) x k,
  wf1 m -> In x (m1_nodes m ++ concat (m1_vars m)) -> parse (fmt x) = Panic k ->
  exists k', (let* lines := output1 tok fmt fmt m in read1 tok parse m0 (concat lines)) = Panic k'.
Proof. intros A tok fmt parse m m0 x k. exact (MeshIO3.read_written_bad_token tok fmt parse m m0 x k). Qed.
Check read_written_bad_token : forall (A : Arith) (tok : Type) (fmt : A -> tok) (parse : tok -> res A) (m m0 : mesh1 A A) x k,
  wf1 m -> In x (m1_nodes m ++ concat (m1_vars m)) -> parse (fmt x) = Panic k ->
  exists k', (let* lines := output1 tok fmt fmt m in read1 tok parse m0 (concat lines)) = Panic k'.
Print Assumptions read_written_bad_token.
(* a formatter that writes a malformed token for negative values; ex_r holds -2/7 *)
Example read_written_bad_token_nonvacuous :
  wf1 ex_r /\ In (q (-2) 7) (m1_nodes ex_r ++ concat (m1_vars ex_r)) /\ parse_fix 2 (fmt_bad (q (-2) 7)) = Panic Unwrap.
Proof. split; [exact ex_r_wf|]. split; [cbn; auto 10 | reflexivity]. Qed.

Theorem read1_ok_or_parse_panic : forall (A : Arith) (tok : Type) (parse : tok -> res A) (m0 : mesh1 A A) (toks : list tok),
  Forall (fun r => length r = m1_nvars m0) (m1_vars m0) ->
  match read1 tok parse m0 toks with
  | Ok m' => wf1 m' /\ m1_nvars m' = m1_nvars m0 /\
             length (m1_nodes m') = (length toks + m1_nvars m0) / (m1_nvars m0 + 1)
  | Panic k => exists t, In t toks /\ parse t = Panic k
  end.
Proof. intros A tok parse m0 toks. exact (MeshIO3.read1_ok_or_parse_panic tok parse m0 toks). Qed.
Check read1_ok_or_parse_panic : forall (A : Arith) (tok : Type) (parse : tok -> res A) (m0 : mesh1 A A) (toks : list tok),
  Forall (fun r => length r = m1_nvars m0) (m1_vars m0) ->
  match read1 tok parse m0 toks with
  | Ok m' => wf1 m' /\ m1_nvars m' = m1_nvars m0 /\
             length (m1_nodes m') = (length toks + m1_nvars m0) / (m1_nvars m0 + 1)
  | Panic k => exists t, In t toks /\ parse t = Panic k
  end.
Print Assumptions read1_ok_or_parse_panic.
(* five tokens for nvars = 2: one complete line and an incomplete one *)
Example read1_ok_or_parse_panic_nonvacuous :
  Forall (fun r => length r = m1_nvars ex_r0) (m1_vars ex_r0) /\
  (length [FTok false 1; FTok false 2; FTok true 3; FTok false 4; FTok false 5] + m1_nvars ex_r0) / (m1_nvars ex_r0 + 1) = 2.
Proof. split; [repeat constructor | reflexivity]. Qed.

Theorem read1_ok_iff : forall (A : Arith) (tok : Type) (parse : tok -> res A) (m0 : mesh1 A A) (toks : list tok),
  Forall (fun r => length r = m1_nvars m0) (m1_vars m0) ->
  ((exists m', read1 tok parse m0 toks = Ok m') <-> Forall (fun t => exists x, parse t = Ok x) toks).
Proof. intros A tok parse m0 toks. exact (MeshIO3.read1_ok_iff tok parse m0 toks). Qed.
Check read1_ok_iff : forall (A : Arith) (tok : Type) (parse : tok -> res A) (m0 : mesh1 A A) (toks : list tok),
  Forall (fun r => length r = m1_nvars m0) (m1_vars m0) ->
  ((exists m', read1 tok parse m0 toks = Ok m') <-> Forall (fun t => exists x, parse t = Ok x) toks).
Print Assumptions read1_ok_iff.
Example read1_ok_iff_nonvacuous :
  Forall (fun r => length r = m1_nvars ex_r0) (m1_vars ex_r0) /\
  Forall (fun t => exists x, parse_fix 2 t = Ok x) [FTok false 1; FTok true 25] /\
  ~ Forall (fun t => exists x, parse_fix 2 t = Ok x) [FTok false 1; FTok false (-1)].
Proof.
  split; [repeat constructor|]. split.
  - repeat constructor; eexists; reflexivity.
  - intros H. inversion H as [|? ? _ H2]. inversion H2 as [|? ? [y Hy] _]. discriminate.
Qed.

Theorem read1_panic_class : forall (A : Arith) (tok : Type) (parse : tok -> res A) (m0 : mesh1 A A) (toks : list tok) k,
  Forall (fun r => length r = m1_nvars m0) (m1_vars m0) ->
  (forall t k', In t toks -> parse t = Panic k' -> k' = k) ->
  (read1 tok parse m0 toks = Panic k <-> exists t, In t toks /\ parse t = Panic k) /\
  (forall k', read1 tok parse m0 toks = Panic k' -> k' = k).
Proof. intros A tok parse m0 toks k. exact (MeshIO3.read1_panic_class tok parse m0 toks k). Qed.
Check read1_panic_class : forall (A : Arith) (tok : Type) (parse : tok -> res A) (m0 : mesh1 A A) (toks : list tok) k,
  Forall (fun r => length r = m1_nvars m0) (m1_vars m0) ->
  (forall t k', In t toks -> parse t = Panic k' -> k' = k) ->
  (read1 tok parse m0 toks = Panic k <-> exists t, In t toks /\ parse t = Panic k) /\
  (forall k', read1 tok parse m0 toks = Panic k' -> k' = k).
Print Assumptions read1_panic_class.
Example read1_panic_class_nonvacuous :
  Forall (fun r => length r = m1_nvars ex_r0) (m1_vars ex_r0) /\
  (forall t k', In t [FTok false 1; FTok false (-1)] -> parse_fix 2 t = Panic k' -> k' = Unwrap) /\
  In (FTok false (-1)) [FTok false 1; FTok false (-1)] /\ parse_fix 2 (FTok false (-1)) = Panic Unwrap.
Proof.
  split; [repeat constructor|]. split; [intros t k' _ H; now apply parse_fix_panic in H|].
  split; [cbn; auto | reflexivity].
Qed.

Theorem tied_reread_rounded : forall (A : Arith) (K : @mconst A) (m : mesh1 A A) tbl,
  wf1 m ->
  step1 K m (O1Reread tbl) =
  Ok (map_mesh1 (fmt_tbl tbl) m, VLinesM1 (layout1 A (fmt_tbl tbl) m) (map_mesh1 (fmt_tbl tbl) m)).
Proof. intros A K m tbl. exact (MeshIO3.tied_reread_rounded K m tbl). Qed.
Check tied_reread_rounded : forall (A : Arith) (K : @mconst A) (m : mesh1 A A) tbl,
  wf1 m ->
  step1 K m (O1Reread tbl) =
  Ok (map_mesh1 (fmt_tbl tbl) m, VLinesM1 (layout1 A (fmt_tbl tbl) m) (map_mesh1 (fmt_tbl tbl) m)).
Print Assumptions tied_reread_rounded.
Example tied_reread_rounded_nonvacuous : wf1 ex_r /\ fmt_tbl (A:=AQ) [(q 1 3, q 33 100)] (q 1 3) <> q 1 3.
Proof.
  split; [exact ex_r_wf|]. intros E. apply (f_equal this) in E. vm_compute in E. discriminate.
Qed.

Theorem tied_file_rounded : forall (A : Arith) (K : @mconst A) (m : mesh1 A A) tbl nodes2,
  wf1 m ->
  step1 K m (O1File tbl (m1_nvars m) nodes2) =
  Ok (m, VLinesM1 (layout1 A (fmt_tbl tbl) m) (map_mesh1 (fmt_tbl tbl) m)).
Proof. intros A K m tbl nodes2. exact (MeshIO3.tied_file_rounded K m tbl nodes2). Qed.
Check tied_file_rounded : forall (A : Arith) (K : @mconst A) (m : mesh1 A A) tbl nodes2,
  wf1 m ->
  step1 K m (O1File tbl (m1_nvars m) nodes2) =
  Ok (m, VLinesM1 (layout1 A (fmt_tbl tbl) m) (map_mesh1 (fmt_tbl tbl) m)).
Print Assumptions tied_file_rounded.
Example tied_file_rounded_nonvacuous : wf1 ex_r.
Proof. exact ex_r_wf. Qed.

Theorem read1_any_length : forall (A : Arith) (tok : Type) (parse : tok -> res A) (m0 : mesh1 A A) (toks : list tok) (val : nat -> A),
  (forall i, i < length toks -> exists t, nth_error toks i = Some t /\ parse t = Ok (val i)) ->
  Forall (fun r => length r = m1_nvars m0) (m1_vars m0) ->
  let w := m1_nvars m0 + 1 in
  let N := (length toks + m1_nvars m0) / w in
  read1 tok parse m0 toks =
  Ok (mkM1 (m1_nvars m0)
        (map (fun k => val (k * w)) (seq 0 N))
        (map (fun k => map (fun v =>
                if k * w + S v <? length toks then val (k * w + S v)
                else if k <? length (m1_vars m0) then nth v (nth k (m1_vars m0) []) zero
                else zero) (seq 0 (m1_nvars m0))) (seq 0 N))).
Proof. intros A tok parse m0 toks val. exact (MeshIO3Any.read1_any_length_spec tok parse m0 toks val). Qed.
Check read1_any_length : forall (A : Arith) (tok : Type) (parse : tok -> res A) (m0 : mesh1 A A) (toks : list tok) (val : nat -> A),
  (forall i, i < length toks -> exists t, nth_error toks i = Some t /\ parse t = Ok (val i)) ->
  Forall (fun r => length r = m1_nvars m0) (m1_vars m0) ->
  let w := m1_nvars m0 + 1 in
  let N := (length toks + m1_nvars m0) / w in
  read1 tok parse m0 toks =
  Ok (mkM1 (m1_nvars m0)
        (map (fun k => val (k * w)) (seq 0 N))
        (map (fun k => map (fun v =>
                if k * w + S v <? length toks then val (k * w + S v)
                else if k <? length (m1_vars m0) then nth v (nth k (m1_vars m0) []) zero
                else zero) (seq 0 (m1_nvars m0))) (seq 0 N))).
Print Assumptions read1_any_length.
(* five tokens, nvars = 2, read into a 4-node mesh holding 7s: nodes 1 4, variables [2 3] [5 7] *)
Example read1_any_length_nonvacuous :
  (forall i, i < length [FTok false 1; FTok false 2; FTok false 3; FTok false 4; FTok false 5] ->
     exists t, nth_error [FTok false 1; FTok false 2; FTok false 3; FTok false 4; FTok false 5] i = Some t /\
               parse_fix 0 t = Ok (Q2Qc (inject_Z (Z.of_nat i + 1)))) /\
  Forall (fun r => length r = m1_nvars ex_r0) (m1_vars ex_r0) /\
  meshQ_view (@read1 AQ ftok (parse_fix 0) ex_r0 [FTok false 1; FTok false 2; FTok false 3; FTok false 4; FTok false 5]) =
  Some (2, [1; 4]%Q, [[2; 3]; [5; 7]]%Q).
Proof.
  split; [|split; [repeat constructor | exact read_incomplete_line_run]].
  intros i Hi. cbn [length] in Hi.
  do 5 (destruct i as [|i]; [eexists; split; [reflexivity|]; apply (f_equal (@Ok Qc)); apply Qc_is_canon; reflexivity|]).
  exfalso. apply (Nat.lt_irrefl 5). eapply Nat.le_lt_trans; [|exact Hi]. do 5 apply le_n_S. apply Nat.le_0_l.
Qed.

Theorem read1_incomplete_line : forall (A : Arith) (tok : Type) (parse : tok -> res A) (m0 : mesh1 A A) (toks : list tok) (val : nat -> A) n r,
  (forall i, i < length toks -> exists t, nth_error toks i = Some t /\ parse t = Ok (val i)) ->
  Forall (fun r => length r = m1_nvars m0) (m1_vars m0) ->
  length toks = n * (m1_nvars m0 + 1) + r -> 0 < r < m1_nvars m0 + 1 ->
  exists m', read1 tok parse m0 toks = Ok m' /\
    length (m1_nodes m') = n + 1 /\
    nth n (m1_nodes m') zero = val (n * (m1_nvars m0 + 1)) /\
    forall v, v < m1_nvars m0 ->
      nth v (nth n (m1_vars m') []) zero =
      if S v <? r then val (n * (m1_nvars m0 + 1) + S v)
      else if n <? length (m1_vars m0) then nth v (nth n (m1_vars m0) []) zero else zero.
Proof. intros A tok parse m0 toks val n r. exact (MeshIO3Any.read1_incomplete_line tok parse m0 toks val n r). Qed.
Check read1_incomplete_line : forall (A : Arith) (tok : Type) (parse : tok -> res A) (m0 : mesh1 A A) (toks : list tok) (val : nat -> A) n r,
  (forall i, i < length toks -> exists t, nth_error toks i = Some t /\ parse t = Ok (val i)) ->
  Forall (fun r => length r = m1_nvars m0) (m1_vars m0) ->
  length toks = n * (m1_nvars m0 + 1) + r -> 0 < r < m1_nvars m0 + 1 ->
  exists m', read1 tok parse m0 toks = Ok m' /\
    length (m1_nodes m') = n + 1 /\
    nth n (m1_nodes m') zero = val (n * (m1_nvars m0 + 1)) /\
    forall v, v < m1_nvars m0 ->
      nth v (nth n (m1_vars m') []) zero =
      if S v <? r then val (n * (m1_nvars m0 + 1) + S v)
      else if n <? length (m1_vars m0) then nth v (nth n (m1_vars m0) []) zero else zero.
Print Assumptions read1_incomplete_line.
Example read1_incomplete_line_nonvacuous :
  length [FTok false 1; FTok false 2; FTok false 3; FTok false 4; FTok false 5] = 1 * (m1_nvars ex_r0 + 1) + 2 /\
  0 < 2 < m1_nvars ex_r0 + 1.
Proof. split; [reflexivity | cbn; auto]. Qed.

Theorem rneQ_nearest_even : forall q : Q,
  (Qabs (inject_Z (rneQ q) - q) <= 1 # 2)%Q /\
  ((Qabs (inject_Z (rneQ q) - q) == 1 # 2)%Q -> Z.even (rneQ q) = true) /\
  (forall n : Z, rneQ (inject_Z n) = n) /\
  (forall q' : Q, (q == q')%Q -> rneQ q = rneQ q').
Proof. intros q. split; [exact (MeshIO3Fmt.rneQ_abs_err q)|]. split; [exact (MeshIO3Fmt.rneQ_half_even q)|].
  split; [exact MeshIO3Fmt.rneQ_inject | exact (MeshIO3Fmt.rneQ_proper q)]. Qed.
Check rneQ_nearest_even : forall q : Q,
  (Qabs (inject_Z (rneQ q) - q) <= 1 # 2)%Q /\
  ((Qabs (inject_Z (rneQ q) - q) == 1 # 2)%Q -> Z.even (rneQ q) = true) /\
  (forall n : Z, rneQ (inject_Z n) = n) /\
  (forall q' : Q, (q == q')%Q -> rneQ q = rneQ q').
Print Assumptions rneQ_nearest_even.
(* 5/2 -> 2, 7/2 -> 4, -5/2 -> -2, 1/3 -> 0, 2/3 -> 1 *)
Example rneQ_nearest_even_nonvacuous :
  map rneQ [(5 # 2)%Q; (7 # 2)%Q; (-5 # 2)%Q; (1 # 3)%Q; (2 # 3)%Q] = [2; 4; -2; 0; 1]%Z /\
  (Qabs (inject_Z (rneQ (5 # 2)) - (5 # 2)) == 1 # 2)%Q.
Proof. split; reflexivity. Qed.

Theorem fix_formatter_laws : forall (N : nat) (x : Qc),
  parse_fix N (fmt_fix N x) = Ok (rnd_fix N x) /\
  fmt_fix N (rnd_fix N x) = fmt_fix N x /\
  (Qabs (rnd_fix N x - x) <= (1 # 2) / inject_Z (10 ^ Z.of_nat N))%Q /\
  fmt_fix N x = FTok (Qneg x && negb (fixn N x =? 0)%Z) (rneQ (Qabs x * inject_Z (10 ^ Z.of_nat N))) /\
  (0 <= ft_int (fmt_fix N x))%Z.
Proof. intros N x. split; [exact (MeshIO3Fmt.parse_fmt_fix N x)|]. split; [exact (MeshIO3Fmt.fmt_rnd_fix N x)|].
  split; [exact (MeshIO3Fmt.rnd_fix_err N x)|]. split; [reflexivity | exact (MeshIO3Fmt.fixn_nonneg N x)]. Qed.
Check fix_formatter_laws : forall (N : nat) (x : Qc),
  parse_fix N (fmt_fix N x) = Ok (rnd_fix N x) /\
  fmt_fix N (rnd_fix N x) = fmt_fix N x /\
  (Qabs (rnd_fix N x - x) <= (1 # 2) / inject_Z (10 ^ Z.of_nat N))%Q /\
  fmt_fix N x = FTok (Qneg x && negb (fixn N x =? 0)%Z) (rneQ (Qabs x * inject_Z (10 ^ Z.of_nat N))) /\
  (0 <= ft_int (fmt_fix N x))%Z.
Print Assumptions fix_formatter_laws.
(* two decimals: 1/3 -> 0.33, -2/7 -> -0.29, 12.345 -> 12.34 (tie to even), -1/1000 -> 0.00, 9.995 -> 10.00 *)
Example fix_formatter_laws_nonvacuous :
  map (fmt_fix 2) [q 1 3; q (-2) 7; q 12345 1000; q (-1) 1000; q 9995 1000] =
  [FTok false 33; FTok true 29; FTok false 1234; FTok false 0; FTok false 1000].
Proof. vm_compute. reflexivity. Qed.

Theorem fix_fixpoints : forall (N : nat) (x : Qc),
  rnd_fix N x = x <-> exists z : Z, (x == inject_Z z / inject_Z (10 ^ Z.of_nat N))%Q.
Proof. intros N x. exact (MeshIO3Fmt.rnd_fix_fixpoint N x). Qed.
Check fix_fixpoints : forall (N : nat) (x : Qc),
  rnd_fix N x = x <-> exists z : Z, (x == inject_Z z / inject_Z (10 ^ Z.of_nat N))%Q.
Print Assumptions fix_fixpoints.
Example fix_fixpoints_nonvacuous : (q 1234 100 == inject_Z 1234 / inject_Z (10 ^ Z.of_nat 2))%Q.
Proof. reflexivity. Qed.

Theorem sci_formatter_laws : forall (N : nat) (x : Qc),
  parse_sci N (fmt_sci N x) = Ok (rnd_sci N x) /\
  fmt_sci N (rnd_sci N x) = fmt_sci N x /\
  (Qabs (rnd_sci N x - x) <= Qabs x * ((1 # 2) / inject_Z (10 ^ Z.of_nat N)))%Q /\
  ((10 ^ Z.of_nat N <= st_mant (fmt_sci N x) < 10 ^ Z.of_nat (S N))%Z \/ fmt_sci N x = STok false 0 0) /\
  (rnd_sci N x == inject_Z (if st_neg (fmt_sci N x) then - st_mant (fmt_sci N x) else st_mant (fmt_sci N x)) *
                  (10 # 1) ^ (st_exp (fmt_sci N x) - Z.of_nat N))%Q.
Proof. intros N x. split; [exact (MeshIO3Fmt.parse_fmt_sci N x)|]. split; [exact (MeshIO3Fmt.fmt_rnd_sci N x)|].
  split; [exact (MeshIO3Fmt.rnd_sci_err N x)|]. split; [exact (MeshIO3Fmt.fmt_sciQ_canonical N x)|].
  exact (MeshIO3Fmt.Q2Qc_this _). Qed.
Check sci_formatter_laws : forall (N : nat) (x : Qc),
  parse_sci N (fmt_sci N x) = Ok (rnd_sci N x) /\
  fmt_sci N (rnd_sci N x) = fmt_sci N x /\
  (Qabs (rnd_sci N x - x) <= Qabs x * ((1 # 2) / inject_Z (10 ^ Z.of_nat N)))%Q /\
  ((10 ^ Z.of_nat N <= st_mant (fmt_sci N x) < 10 ^ Z.of_nat (S N))%Z \/ fmt_sci N x = STok false 0 0) /\
  (rnd_sci N x == inject_Z (if st_neg (fmt_sci N x) then - st_mant (fmt_sci N x) else st_mant (fmt_sci N x)) *
                  (10 # 1) ^ (st_exp (fmt_sci N x) - Z.of_nat N))%Q.
Print Assumptions sci_formatter_laws.
(* three significant digits: 1/3 -> 3.33e-1, -2/7 -> -2.86e-1, 12.345 -> 1.23e1, 9.995 -> 1.00e1 (carry), 1/123456 -> 8.10e-6 *)
Example sci_formatter_laws_nonvacuous :
  map (fmt_sci 2) [q 1 3; q (-2) 7; q 12345 1000; q 9995 1000; q 1 123456; q 0 1] =
  [STok false 333 (-1); STok true 286 (-1); STok false 123 1; STok false 100 1; STok false 810 (-6); STok false 0 0].
Proof. vm_compute. reflexivity. Qed.

Theorem sci_formatter_ulp : forall (N : nat) (x : Qc), ~ (x == 0)%Q ->
  ((10 # 1) ^ dexp x <= Qabs x < (10 # 1) ^ (dexp x + 1))%Q /\
  (Qabs (rnd_sci N x - x) <= (1 # 2) * (10 # 1) ^ (dexp x - Z.of_nat N))%Q /\
  (st_exp (fmt_sci N x) = dexp x \/
   st_exp (fmt_sci N x) = (dexp x + 1)%Z /\ st_mant (fmt_sci N x) = (10 ^ Z.of_nat N)%Z).
Proof. intros N x. exact (MeshIO3Fmt.rnd_sci_ulp N x). Qed.
Check sci_formatter_ulp : forall (N : nat) (x : Qc), ~ (x == 0)%Q ->
  ((10 # 1) ^ dexp x <= Qabs x < (10 # 1) ^ (dexp x + 1))%Q /\
  (Qabs (rnd_sci N x - x) <= (1 # 2) * (10 # 1) ^ (dexp x - Z.of_nat N))%Q /\
  (st_exp (fmt_sci N x) = dexp x \/
   st_exp (fmt_sci N x) = (dexp x + 1)%Z /\ st_mant (fmt_sci N x) = (10 ^ Z.of_nat N)%Z).
Print Assumptions sci_formatter_ulp.
(* 9.995 lies in the decade of 10^0; three digits: 9.995 -> 10.0 = 1.00e1 (the carry case) *)
Example sci_formatter_ulp_nonvacuous :
  ~ (q 9995 1000 == 0)%Q /\ dexp (q 9995 1000) = 0%Z /\ fmt_sci 2 (q 9995 1000) = STok false 100 1.
Proof. split; [discriminate|]. split; vm_compute; reflexivity. Qed.

Theorem file_roundtrip_fix : forall (N : nat) (m m0 : mesh1 AQ AQ),
  wf1 m -> m1_nvars m0 = m1_nvars m -> Forall (fun r => length r = m1_nvars m0) (m1_vars m0) ->
  (let* lines := @output1 AQ AQ ftok (fmt_fix N) (fmt_fix N) m in
   @read1 AQ ftok (parse_fix N) m0 (concat lines)) = Ok (map_mesh1 (A:=AQ) (rnd_fix N) m) /\
  (forall k, k < length (m1_nodes m) ->
     (Qabs (nth k (m1_nodes (map_mesh1 (A:=AQ) (rnd_fix N) m)) 0%Qc - nth k (m1_nodes m) 0%Qc)
       <= (1 # 2) / inject_Z (10 ^ Z.of_nat N))%Q) /\
  (forall k v, k < length (m1_nodes m) -> v < m1_nvars m ->
     (Qabs (nth v (nth k (m1_vars (map_mesh1 (A:=AQ) (rnd_fix N) m)) []) 0%Qc - nth v (nth k (m1_vars m) []) 0%Qc)
       <= (1 # 2) / inject_Z (10 ^ Z.of_nat N))%Q).
Proof. intros N m m0 Hwf Hnv Hall. split; [exact (MeshIO3Inst.file_roundtrip_fix N m m0 Hwf Hnv Hall)|].
  exact (MeshIO3Inst.file_roundtrip_fix_close N m Hwf). Qed.
Check file_roundtrip_fix : forall (N : nat) (m m0 : mesh1 AQ AQ),
  wf1 m -> m1_nvars m0 = m1_nvars m -> Forall (fun r => length r = m1_nvars m0) (m1_vars m0) ->
  (let* lines := @output1 AQ AQ ftok (fmt_fix N) (fmt_fix N) m in
   @read1 AQ ftok (parse_fix N) m0 (concat lines)) = Ok (map_mesh1 (A:=AQ) (rnd_fix N) m) /\
  (forall k, k < length (m1_nodes m) ->
     (Qabs (nth k (m1_nodes (map_mesh1 (A:=AQ) (rnd_fix N) m)) 0%Qc - nth k (m1_nodes m) 0%Qc)
       <= (1 # 2) / inject_Z (10 ^ Z.of_nat N))%Q) /\
  (forall k v, k < length (m1_nodes m) -> v < m1_nvars m ->
     (Qabs (nth v (nth k (m1_vars (map_mesh1 (A:=AQ) (rnd_fix N) m)) []) 0%Qc - nth v (nth k (m1_vars m) []) 0%Qc)
       <= (1 # 2) / inject_Z (10 ^ Z.of_nat N))%Q).
Print Assumptions file_roundtrip_fix.
(* computed: the mesh read back is ex_r with 1/3 -> 33/100, 1/8 -> 12/100, -2/7 -> -29/100, 12.345 -> 12.34, -1/1000 -> 0,
   9.995 -> 10, 22/7 -> 3.14, and it is not ex_r *)
Example file_roundtrip_fix_nonvacuous :
  meshQ_view (let* lines := @output1 AQ AQ ftok (fmt_fix 2) (fmt_fix 2) ex_r in
              @read1 AQ ftok (parse_fix 2) ex_r0 (concat lines)) = meshQ_view (Ok ex_r_fix2) /\
  map_mesh1 (A:=AQ) (rnd_fix 2) ex_r <> ex_r.
Proof. exact file_roundtrip_fix_run. Qed.

Theorem file_roundtrip_fix_twice : forall (N : nat) (m m0 m1 : mesh1 AQ AQ),
  wf1 m -> m1_nvars m0 = m1_nvars m -> m1_nvars m1 = m1_nvars m ->
  Forall (fun r => length r = m1_nvars m0) (m1_vars m0) ->
  Forall (fun r => length r = m1_nvars m1) (m1_vars m1) ->
  exists lines m',
    @output1 AQ AQ ftok (fmt_fix N) (fmt_fix N) m = Ok lines /\
    @read1 AQ ftok (parse_fix N) m0 (concat lines) = Ok m' /\ m' = map_mesh1 (A:=AQ) (rnd_fix N) m /\
    @output1 AQ AQ ftok (fmt_fix N) (fmt_fix N) m' = Ok lines /\
    @read1 AQ ftok (parse_fix N) m1 (concat lines) = Ok m'.
Proof. intros N m m0 m1. exact (MeshIO3Inst.file_roundtrip_fix_twice N m m0 m1). Qed.
Check file_roundtrip_fix_twice : forall (N : nat) (m m0 m1 : mesh1 AQ AQ),
  wf1 m -> m1_nvars m0 = m1_nvars m -> m1_nvars m1 = m1_nvars m ->
  Forall (fun r => length r = m1_nvars m0) (m1_vars m0) ->
  Forall (fun r => length r = m1_nvars m1) (m1_vars m1) ->
  exists lines m',
    @output1 AQ AQ ftok (fmt_fix N) (fmt_fix N) m = Ok lines /\
    @read1 AQ ftok (parse_fix N) m0 (concat lines) = Ok m' /\ m' = map_mesh1 (A:=AQ) (rnd_fix N) m /\
    @output1 AQ AQ ftok (fmt_fix N) (fmt_fix N) m' = Ok lines /\
    @read1 AQ ftok (parse_fix N) m1 (concat lines) = Ok m'.
Print Assumptions file_roundtrip_fix_twice.
Example file_roundtrip_fix_twice_nonvacuous :
  wf1 ex_r /\ m1_nvars ex_r0 = m1_nvars ex_r /\ Forall (fun r => length r = m1_nvars ex_r0) (m1_vars ex_r0).
Proof. split; [exact ex_r_wf|]. split; [reflexivity | repeat constructor]. Qed.

Theorem file_roundtrip_fix_exact : forall (N : nat) (m m0 : mesh1 AQ AQ),
  (forall x : Qc, In x (m1_nodes m ++ concat (m1_vars m)) ->
     exists z : Z, (x == inject_Z z / inject_Z (10 ^ Z.of_nat N))%Q) ->
  wf1 m -> m1_nvars m0 = m1_nvars m -> Forall (fun r => length r = m1_nvars m0) (m1_vars m0) ->
  (let* lines := @output1 AQ AQ ftok (fmt_fix N) (fmt_fix N) m in
   @read1 AQ ftok (parse_fix N) m0 (concat lines)) = Ok m.
Proof. intros N m m0. exact (MeshIO3Inst.file_roundtrip_fix_exact N m m0). Qed.
Check file_roundtrip_fix_exact : forall (N : nat) (m m0 : mesh1 AQ AQ),
  (forall x : Qc, In x (m1_nodes m ++ concat (m1_vars m)) ->
     exists z : Z, (x == inject_Z z / inject_Z (10 ^ Z.of_nat N))%Q) ->
  wf1 m -> m1_nvars m0 = m1_nvars m -> Forall (fun r => length r = m1_nvars m0) (m1_vars m0) ->
  (let* lines := @output1 AQ AQ ftok (fmt_fix N) (fmt_fix N) m in
   @read1 AQ ftok (parse_fix N) m0 (concat lines)) = Ok m.
Print Assumptions file_roundtrip_fix_exact.
Example file_roundtrip_fix_exact_nonvacuous :
  (forall x : Qc, In x (m1_nodes ex_h ++ concat (m1_vars ex_h)) ->
     exists z : Z, (x == inject_Z z / inject_Z (10 ^ Z.of_nat 1))%Q) /\ wf1 ex_h.
Proof.
  split; [|exact ex_h_wf]. intros x Hx. apply (MeshIO3Fmt.rnd_fix_fixpoint 1 x).
  pose proof (ex_h_survives x Hx) as E. rewrite MeshIO3Fmt.parse_fmt_fix in E. now injection E.
Qed.

Theorem file_roundtrip_sci : forall (N : nat) (m m0 : mesh1 AQ AQ),
  wf1 m -> m1_nvars m0 = m1_nvars m -> Forall (fun r => length r = m1_nvars m0) (m1_vars m0) ->
  (let* lines := @output1 AQ AQ stok (fmt_sci N) (fmt_sci N) m in
   @read1 AQ stok (parse_sci N) m0 (concat lines)) = Ok (map_mesh1 (A:=AQ) (rnd_sci N) m) /\
  (forall k, k < length (m1_nodes m) ->
     (Qabs (nth k (m1_nodes (map_mesh1 (A:=AQ) (rnd_sci N) m)) 0%Qc - nth k (m1_nodes m) 0%Qc)
       <= Qabs (nth k (m1_nodes m) 0%Qc) * ((1 # 2) / inject_Z (10 ^ Z.of_nat N)))%Q) /\
  (forall k v, k < length (m1_nodes m) -> v < m1_nvars m ->
     (Qabs (nth v (nth k (m1_vars (map_mesh1 (A:=AQ) (rnd_sci N) m)) []) 0%Qc - nth v (nth k (m1_vars m) []) 0%Qc)
       <= Qabs (nth v (nth k (m1_vars m) []) 0%Qc) * ((1 # 2) / inject_Z (10 ^ Z.of_nat N)))%Q).
Proof. intros N m m0 Hwf Hnv Hall. split; [exact (MeshIO3Inst.file_roundtrip_sci N m m0 Hwf Hnv Hall)|].
  exact (MeshIO3Inst.file_roundtrip_sci_close N m Hwf). Qed.
Check file_roundtrip_sci : forall (N : nat) (m m0 : mesh1 AQ AQ),
  wf1 m -> m1_nvars m0 = m1_nvars m -> Forall (fun r => length r = m1_nvars m0) (m1_vars m0) ->
  (let* lines := @output1 AQ AQ stok (fmt_sci N) (fmt_sci N) m in
   @read1 AQ stok (parse_sci N) m0 (concat lines)) = Ok (map_mesh1 (A:=AQ) (rnd_sci N) m) /\
  (forall k, k < length (m1_nodes m) ->
     (Qabs (nth k (m1_nodes (map_mesh1 (A:=AQ) (rnd_sci N) m)) 0%Qc - nth k (m1_nodes m) 0%Qc)
       <= Qabs (nth k (m1_nodes m) 0%Qc) * ((1 # 2) / inject_Z (10 ^ Z.of_nat N)))%Q) /\
  (forall k v, k < length (m1_nodes m) -> v < m1_nvars m ->
     (Qabs (nth v (nth k (m1_vars (map_mesh1 (A:=AQ) (rnd_sci N) m)) []) 0%Qc - nth v (nth k (m1_vars m) []) 0%Qc)
       <= Qabs (nth v (nth k (m1_vars m) []) 0%Qc) * ((1 # 2) / inject_Z (10 ^ Z.of_nat N)))%Q).
Print Assumptions file_roundtrip_sci.
Example file_roundtrip_sci_nonvacuous :
  meshQ_view (let* lines := @output1 AQ AQ stok (fmt_sci 2) (fmt_sci 2) ex_r in
              @read1 AQ stok (parse_sci 2) ex_r0 (concat lines)) = meshQ_view (Ok ex_r_sci2).
Proof. exact file_roundtrip_sci_run. Qed.

Theorem read_fix_outcome : forall (N : nat) (m0 : mesh1 AQ AQ) (toks : list ftok),
  Forall (fun r => length r = m1_nvars m0) (m1_vars m0) ->
  (@read1 AQ ftok (parse_fix N) m0 toks = Panic Unwrap <-> exists t, In t toks /\ (ft_int t < 0)%Z) /\
  (forall k, @read1 AQ ftok (parse_fix N) m0 toks = Panic k -> k = Unwrap).
Proof. intros N m0 toks. exact (MeshIO3Inst.read_fix_outcome N m0 toks). Qed.
Check read_fix_outcome : forall (N : nat) (m0 : mesh1 AQ AQ) (toks : list ftok),
  Forall (fun r => length r = m1_nvars m0) (m1_vars m0) ->
  (@read1 AQ ftok (parse_fix N) m0 toks = Panic Unwrap <-> exists t, In t toks /\ (ft_int t < 0)%Z) /\
  (forall k, @read1 AQ ftok (parse_fix N) m0 toks = Panic k -> k = Unwrap).
Print Assumptions read_fix_outcome.
Example read_fix_outcome_nonvacuous :
  Forall (fun r => length r = m1_nvars ex_r0) (m1_vars ex_r0) /\
  @read1 AQ ftok (parse_fix 2) ex_r0 [FTok false 1; FTok false (-1); FTok false 2] = Panic Unwrap.
Proof. split; [repeat constructor | vm_compute; reflexivity]. Qed.

Theorem fmt_fix_near : forall (N : nat) (z : Z) (y : Q),
  (Qabs (y - inject_Z z / inject_Z (10 ^ Z.of_nat N)) < (1 # 2) / inject_Z (10 ^ Z.of_nat N))%Q ->
  fmt_fixQ N y = fmt_fixQ N (inject_Z z / inject_Z (10 ^ Z.of_nat N))%Q.
Proof. intros N z y. exact (MeshIO3Fl.fmt_fixQ_near N z y). Qed.
Check fmt_fix_near : forall (N : nat) (z : Z) (y : Q),
  (Qabs (y - inject_Z z / inject_Z (10 ^ Z.of_nat N)) < (1 # 2) / inject_Z (10 ^ Z.of_nat N))%Q ->
  fmt_fixQ N y = fmt_fixQ N (inject_Z z / inject_Z (10 ^ Z.of_nat N))%Q.
Print Assumptions fmt_fix_near.
(* 0.33 rounded to a multiple of 2^-20 is 173015/524288; it still prints 0.33 *)
Example fmt_fix_near_nonvacuous :
  (Qabs ((173015 # 524288) - inject_Z 33 / inject_Z (10 ^ Z.of_nat 2)) < (1 # 2) / inject_Z (10 ^ Z.of_nat 2))%Q /\
  ~ ((173015 # 524288) == inject_Z 33 / inject_Z (10 ^ Z.of_nat 2))%Q.
Proof. split; [reflexivity | discriminate]. Qed.

Theorem file_roundtrip_fix_fl : forall (fl : Qc -> Qc) (N : nat) (m m0 : mesh1 AQ AQ),
  wf1 m -> m1_nvars m0 = m1_nvars m -> Forall (fun r => length r = m1_nvars m0) (m1_vars m0) ->
  (let* lines := @output1 AQ AQ ftok (fmt_fix N) (fmt_fix N) m in
   @read1 AQ ftok (parse_fix_fl fl N) m0 (concat lines)) = Ok (map_mesh1 (A:=AQ) (rnd_fix_fl fl N) m) /\
  (forall x : Qc, rnd_fix_fl fl N x = fl (rnd_fix N x) /\
     (Qabs (rnd_fix_fl fl N x - x) <= (1 # 2) / inject_Z (10 ^ Z.of_nat N) + Qabs (fl (rnd_fix N x) - rnd_fix N x))%Q).
Proof. intros fl N m m0 Hwf Hnv Hall. split; [exact (MeshIO3Fl.file_roundtrip_fix_fl fl N m m0 Hwf Hnv Hall)|].
  intros x. split; [reflexivity | exact (MeshIO3Fl.rnd_fix_fl_err fl N x)]. Qed.
Check file_roundtrip_fix_fl : forall (fl : Qc -> Qc) (N : nat) (m m0 : mesh1 AQ AQ),
  wf1 m -> m1_nvars m0 = m1_nvars m -> Forall (fun r => length r = m1_nvars m0) (m1_vars m0) ->
  (let* lines := @output1 AQ AQ ftok (fmt_fix N) (fmt_fix N) m in
   @read1 AQ ftok (parse_fix_fl fl N) m0 (concat lines)) = Ok (map_mesh1 (A:=AQ) (rnd_fix_fl fl N) m) /\
  (forall x : Qc, rnd_fix_fl fl N x = fl (rnd_fix N x) /\
     (Qabs (rnd_fix_fl fl N x - x) <= (1 # 2) / inject_Z (10 ^ Z.of_nat N) + Qabs (fl (rnd_fix N x) - rnd_fix N x))%Q).
Print Assumptions file_roundtrip_fix_fl.
(* the parser rounds to multiples of 2^-20: 1/3 -> 0.33 -> 173015/524288 *)
Example file_roundtrip_fix_fl_nonvacuous :
  meshQ_view (let* lines := @output1 AQ AQ ftok (fmt_fix 2) (fmt_fix 2) ex_r in
              @read1 AQ ftok (parse_fix_fl fl_bin20 2) ex_r0 (concat lines)) =
  meshQ_view (Ok (map_mesh1 (A:=AQ) (rnd_fix_fl fl_bin20 2) ex_r)) /\
  this (rnd_fix_fl fl_bin20 2 (q 1 3)) = (173015 # 524288)%Q /\
  fmt_fix 2 (rnd_fix_fl fl_bin20 2 (q 1 3)) = FTok false 33.
Proof. exact fl_bin20_run. Qed.

Theorem file_roundtrip_fix_fl_twice : forall (fl : Qc -> Qc) (N : nat) (m m0 m1 : mesh1 AQ AQ),
  (forall x : Qc, In x (m1_nodes m ++ concat (m1_vars m)) ->
     (Qabs (fl (rnd_fix N x) - rnd_fix N x) < (1 # 2) / inject_Z (10 ^ Z.of_nat N))%Q) ->
  wf1 m -> m1_nvars m0 = m1_nvars m -> m1_nvars m1 = m1_nvars m ->
  Forall (fun r => length r = m1_nvars m0) (m1_vars m0) ->
  Forall (fun r => length r = m1_nvars m1) (m1_vars m1) ->
  exists lines m',
    @output1 AQ AQ ftok (fmt_fix N) (fmt_fix N) m = Ok lines /\
    @read1 AQ ftok (parse_fix_fl fl N) m0 (concat lines) = Ok m' /\
    m' = map_mesh1 (A:=AQ) (rnd_fix_fl fl N) m /\
    @output1 AQ AQ ftok (fmt_fix N) (fmt_fix N) m' = Ok lines /\
    @read1 AQ ftok (parse_fix_fl fl N) m1 (concat lines) = Ok m'.
Proof. intros fl N m m0 m1. exact (MeshIO3Fl.file_roundtrip_fix_fl_twice fl N m m0 m1). Qed.
Check file_roundtrip_fix_fl_twice : forall (fl : Qc -> Qc) (N : nat) (m m0 m1 : mesh1 AQ AQ),
  (forall x : Qc, In x (m1_nodes m ++ concat (m1_vars m)) ->
     (Qabs (fl (rnd_fix N x) - rnd_fix N x) < (1 # 2) / inject_Z (10 ^ Z.of_nat N))%Q) ->
  wf1 m -> m1_nvars m0 = m1_nvars m -> m1_nvars m1 = m1_nvars m ->
  Forall (fun r => length r = m1_nvars m0) (m1_vars m0) ->
  Forall (fun r => length r = m1_nvars m1) (m1_vars m1) ->
  exists lines m',
    @output1 AQ AQ ftok (fmt_fix N) (fmt_fix N) m = Ok lines /\
    @read1 AQ ftok (parse_fix_fl fl N) m0 (concat lines) = Ok m' /\
    m' = map_mesh1 (A:=AQ) (rnd_fix_fl fl N) m /\
    @output1 AQ AQ ftok (fmt_fix N) (fmt_fix N) m' = Ok lines /\
    @read1 AQ ftok (parse_fix_fl fl N) m1 (concat lines) = Ok m'.
Print Assumptions file_roundtrip_fix_fl_twice.
Example file_roundtrip_fix_fl_twice_nonvacuous :
  (forall x : Qc, In x (m1_nodes ex_r ++ concat (m1_vars ex_r)) ->
     (Qabs (fl_bin20 (rnd_fix 2 x) - rnd_fix 2 x) < (1 # 2) / inject_Z (10 ^ Z.of_nat 2))%Q) /\ wf1 ex_r.
Proof.
  split; [|exact ex_r_wf]. intros x _. eapply Qle_lt_trans; [apply fl_bin20_err | reflexivity].
Qed.

Theorem file_roundtrip_fix_fl_twice_rel : forall (fl : Qc -> Qc) (u : Q),
  (forall y : Qc, (Qabs (fl y - y) <= u * Qabs y)%Q) ->
  forall (N : nat) (m m0 m1 : mesh1 AQ AQ),
  (forall x : Qc, In x (m1_nodes m ++ concat (m1_vars m)) ->
     (u * Qabs (rnd_fix N x) < (1 # 2) / inject_Z (10 ^ Z.of_nat N))%Q) ->
  wf1 m -> m1_nvars m0 = m1_nvars m -> m1_nvars m1 = m1_nvars m ->
  Forall (fun r => length r = m1_nvars m0) (m1_vars m0) ->
  Forall (fun r => length r = m1_nvars m1) (m1_vars m1) ->
  (exists lines m',
    @output1 AQ AQ ftok (fmt_fix N) (fmt_fix N) m = Ok lines /\
    @read1 AQ ftok (parse_fix_fl fl N) m0 (concat lines) = Ok m' /\
    m' = map_mesh1 (A:=AQ) (rnd_fix_fl fl N) m /\
    @output1 AQ AQ ftok (fmt_fix N) (fmt_fix N) m' = Ok lines /\
    @read1 AQ ftok (parse_fix_fl fl N) m1 (concat lines) = Ok m') /\
  (forall x : Qc, (Qabs (rnd_fix_fl fl N x - x) <= (1 # 2) / inject_Z (10 ^ Z.of_nat N) + u * Qabs (rnd_fix N x))%Q).
Proof. intros fl u Hrel N m m0 m1 Hb Hwf Hnv0 Hnv1 Hall0 Hall1.
  split; [exact (MeshIO3Fl.file_roundtrip_fix_fl_twice_rel fl u Hrel N m m0 m1 Hb Hwf Hnv0 Hnv1 Hall0 Hall1)|].
  exact (MeshIO3Fl.rnd_fix_fl_err_rel fl u Hrel N). Qed.
Check file_roundtrip_fix_fl_twice_rel : forall (fl : Qc -> Qc) (u : Q),
  (forall y : Qc, (Qabs (fl y - y) <= u * Qabs y)%Q) ->
  forall (N : nat) (m m0 m1 : mesh1 AQ AQ),
  (forall x : Qc, In x (m1_nodes m ++ concat (m1_vars m)) ->
     (u * Qabs (rnd_fix N x) < (1 # 2) / inject_Z (10 ^ Z.of_nat N))%Q) ->
  wf1 m -> m1_nvars m0 = m1_nvars m -> m1_nvars m1 = m1_nvars m ->
  Forall (fun r => length r = m1_nvars m0) (m1_vars m0) ->
  Forall (fun r => length r = m1_nvars m1) (m1_vars m1) ->
  (exists lines m',
    @output1 AQ AQ ftok (fmt_fix N) (fmt_fix N) m = Ok lines /\
    @read1 AQ ftok (parse_fix_fl fl N) m0 (concat lines) = Ok m' /\
    m' = map_mesh1 (A:=AQ) (rnd_fix_fl fl N) m /\
    @output1 AQ AQ ftok (fmt_fix N) (fmt_fix N) m' = Ok lines /\
    @read1 AQ ftok (parse_fix_fl fl N) m1 (concat lines) = Ok m') /\
  (forall x : Qc, (Qabs (rnd_fix_fl fl N x - x) <= (1 # 2) / inject_Z (10 ^ Z.of_nat N) + u * Qabs (rnd_fix N x))%Q).
Print Assumptions file_roundtrip_fix_fl_twice_rel.
(* a relative perturbation of exactly 2^-30; the entries of ex_r are below 10^-2 / (2 * 2^-30) *)
Example file_roundtrip_fix_fl_twice_rel_nonvacuous :
  (forall y : Qc, (Qabs (fl_scale y - y) <= (1 # 1073741824) * Qabs y)%Q) /\
  (forall x : Qc, In x (m1_nodes ex_r ++ concat (m1_vars ex_r)) ->
     ((1 # 1073741824) * Qabs (rnd_fix 2 x) < (1 # 2) / inject_Z (10 ^ Z.of_nat 2))%Q) /\
  fl_scale (q 1 3) <> q 1 3.
Proof.
  split; [exact fl_scale_rel|]. split.
  - intros x Hx. cbn in Hx. repeat (destruct Hx as [<-|Hx]; [vm_compute; reflexivity|]). destruct Hx.
  - intros E. apply (f_equal this) in E. vm_compute in E. discriminate.
Qed.

Theorem file_roundtrip_fix_nearest : forall (fl : Qc -> Qc) (F : Qc -> Prop),
  (forall y f : Qc, F f -> (Qabs (fl y - y) <= Qabs (f - y))%Q) ->
  forall (N : nat),
  (forall x : Qc, F x -> fmt_fix N (rnd_fix_fl fl N x) = fmt_fix N x /\
                         (Qabs (rnd_fix_fl fl N x - x) <= 1 / inject_Z (10 ^ Z.of_nat N))%Q) /\
  forall m m0 m1 : mesh1 AQ AQ,
  (forall x : Qc, In x (m1_nodes m ++ concat (m1_vars m)) -> F x) ->
  wf1 m -> m1_nvars m0 = m1_nvars m -> m1_nvars m1 = m1_nvars m ->
  Forall (fun r => length r = m1_nvars m0) (m1_vars m0) ->
  Forall (fun r => length r = m1_nvars m1) (m1_vars m1) ->
  exists lines m',
    @output1 AQ AQ ftok (fmt_fix N) (fmt_fix N) m = Ok lines /\
    @read1 AQ ftok (parse_fix_fl fl N) m0 (concat lines) = Ok m' /\
    m' = map_mesh1 (A:=AQ) (rnd_fix_fl fl N) m /\
    @output1 AQ AQ ftok (fmt_fix N) (fmt_fix N) m' = Ok lines /\
    @read1 AQ ftok (parse_fix_fl fl N) m1 (concat lines) = Ok m'.
Proof. intros fl F Hn N. split.
  - intros x HF. split; [exact (MeshIO3Fl.fmt_rnd_fix_proj fl F Hn N x HF) | exact (MeshIO3Fl.rnd_fix_proj_err fl F Hn N x HF)].
  - intros m m0 m1. exact (MeshIO3Fl.file_roundtrip_fix_proj_twice fl F Hn N m m0 m1). Qed.
Check file_roundtrip_fix_nearest : forall (fl : Qc -> Qc) (F : Qc -> Prop),
  (forall y f : Qc, F f -> (Qabs (fl y - y) <= Qabs (f - y))%Q) ->
  forall (N : nat),
  (forall x : Qc, F x -> fmt_fix N (rnd_fix_fl fl N x) = fmt_fix N x /\
                         (Qabs (rnd_fix_fl fl N x - x) <= 1 / inject_Z (10 ^ Z.of_nat N))%Q) /\
  forall m m0 m1 : mesh1 AQ AQ,
  (forall x : Qc, In x (m1_nodes m ++ concat (m1_vars m)) -> F x) ->
  wf1 m -> m1_nvars m0 = m1_nvars m -> m1_nvars m1 = m1_nvars m ->
  Forall (fun r => length r = m1_nvars m0) (m1_vars m0) ->
  Forall (fun r => length r = m1_nvars m1) (m1_vars m1) ->
  exists lines m',
    @output1 AQ AQ ftok (fmt_fix N) (fmt_fix N) m = Ok lines /\
    @read1 AQ ftok (parse_fix_fl fl N) m0 (concat lines) = Ok m' /\
    m' = map_mesh1 (A:=AQ) (rnd_fix_fl fl N) m /\
    @output1 AQ AQ ftok (fmt_fix N) (fmt_fix N) m' = Ok lines /\
    @read1 AQ ftok (parse_fix_fl fl N) m1 (concat lines) = Ok m'.
Print Assumptions file_roundtrip_fix_nearest.
(* F = the multiples of 1/8, fl = nearest multiple of 1/8; 97/8 = 12.125 is a tie at two decimals: printed 12.12,
   parsed as 12.12 = 303/25, rounded by the parser to 12.125 again; 1000001/8 is far beyond any relative bound *)
Example file_roundtrip_fix_nearest_nonvacuous :
  (forall y f : Qc, F8 f -> (Qabs (fl8 y - y) <= Qabs (f - y))%Q) /\
  (forall x : Qc, In x (m1_nodes ex_f8 ++ concat (m1_vars ex_f8)) -> F8 x) /\
  fmt_fix 2 (q 97 8) = FTok false 1212 /\
  this (rnd_fix_fl fl8 2 (q 97 8)) = (97 # 8)%Q /\ this (rnd_fix 2 (q 97 8)) = (303 # 25)%Q.
Proof. split; [exact fl8_nearest | exact proj_run]. Qed.

Theorem output_var2_layout : forall (A : Arith) (tok : Type) (fmt : A -> tok) (m : mesh2 A A) var,
  wf2 m ->
  (var < m2_nvars m ->
     output_var2 tok fmt fmt m var = Ok (layout_var2 tok fmt m var) /\
     length (layout_var2 tok fmt m var) = m2_ny m * (m2_nx m + 1) /\
     (forall i j, i < m2_nx m -> j < m2_ny m ->
        nth_error (layout_var2 tok fmt m var) (j * (m2_nx m + 1) + i) =
        Some [fmt (nth i (m2_x m) zero); fmt (nth j (m2_y m) zero);
              fmt (nth var (nth (i * m2_ny m + j) (m2_vars m) []) zero)]) /\
     (forall j, j < m2_ny m -> nth_error (layout_var2 tok fmt m var) (j * (m2_nx m + 1) + m2_nx m) = Some [])) /\
  (m2_nvars m <= var -> 0 < m2_nx m -> 0 < m2_ny m -> output_var2 tok fmt fmt m var = Panic Index).
Proof. intros A tok fmt m var Hwf. split.
  - intros Hv. split; [exact (MeshIO3Out2.output_var2_layout tok fmt m var Hwf Hv)|].
    split; [exact (MeshIO3Out2.layout_var2_length tok fmt m var)|].
    split; [exact (MeshIO3Out2.layout_var2_line tok fmt m var) | exact (MeshIO3Out2.layout_var2_blank tok fmt m var)].
  - exact (MeshIO3Out2.output_var2_bad_var tok fmt m var Hwf). Qed.
Check output_var2_layout : forall (A : Arith) (tok : Type) (fmt : A -> tok) (m : mesh2 A A) var,
  wf2 m ->
  (var < m2_nvars m ->
     output_var2 tok fmt fmt m var = Ok (layout_var2 tok fmt m var) /\
     length (layout_var2 tok fmt m var) = m2_ny m * (m2_nx m + 1) /\
     (forall i j, i < m2_nx m -> j < m2_ny m ->
        nth_error (layout_var2 tok fmt m var) (j * (m2_nx m + 1) + i) =
        Some [fmt (nth i (m2_x m) zero); fmt (nth j (m2_y m) zero);
              fmt (nth var (nth (i * m2_ny m + j) (m2_vars m) []) zero)]) /\
     (forall j, j < m2_ny m -> nth_error (layout_var2 tok fmt m var) (j * (m2_nx m + 1) + m2_nx m) = Some [])) /\
  (m2_nvars m <= var -> 0 < m2_nx m -> 0 < m2_ny m -> output_var2 tok fmt fmt m var = Panic Index).
Print Assumptions output_var2_layout.
Example output_var2_layout_nonvacuous :
  wf2 (mesh2_new (A:=AQ) [q 0 1; q 1 1; q 3 1] [q 0 1; q 2 1] 2) /\
  1 < m2_nvars (mesh2_new (A:=AQ) [q 0 1; q 1 1; q 3 1] [q 0 1; q 2 1] 2).
Proof. split; [apply mesh2_new_wf | cbn; auto]. Qed.

Theorem output2_contents : forall (A : Arith) (tok : Type) (fmt : A -> tok) (m : mesh2 A A),
  wf2 m ->
  (forall i j, i < m2_nx m -> j < m2_ny m ->
     nth_error (layout2 tok fmt m) (j * (m2_nx m + 1) + i) = Some (line2 tok fmt m j i) /\
     length (line2 tok fmt m j i) = m2_nvars m + 2 /\
     nth_error (line2 tok fmt m j i) 0 = Some (fmt (nth i (m2_x m) zero)) /\
     nth_error (line2 tok fmt m j i) 1 = Some (fmt (nth j (m2_y m) zero)) /\
     (forall v, v < m2_nvars m ->
        nth_error (line2 tok fmt m j i) (v + 2) = Some (fmt (nth v (nth (i * m2_ny m + j) (m2_vars m) []) zero))) /\
     (forall c, c < m2_nvars m + 2 ->
        nth_error (concat (layout2 tok fmt m)) ((j * m2_nx m + i) * (m2_nvars m + 2) + c) =
        nth_error (line2 tok fmt m j i) c)) /\
  (forall j, j < m2_ny m -> nth_error (layout2 tok fmt m) (j * (m2_nx m + 1) + m2_nx m) = Some []) /\
  length (concat (layout2 tok fmt m)) = m2_ny m * m2_nx m * (m2_nvars m + 2).
Proof. intros A tok fmt m Hwf. split; [|split].
  - intros i j Hi Hj. split; [exact (MeshIO3Out2.layout2_line tok fmt m i j Hi Hj)|].
    destruct (MeshIO3Out2.line2_tokens tok fmt m i j Hwf Hi Hj) as (H1 & H2 & H3 & H4).
    split; [exact H1|]. split; [exact H2|]. split; [exact H3|]. split; [exact H4|].
    intros c Hc. exact (MeshIO3Out2.layout2_token tok fmt m i j c Hwf Hi Hj Hc).
  - exact (MeshIO3Out2.layout2_blank tok fmt m).
  - exact (MeshIO3Out2.layout2_toks_length tok fmt m Hwf). Qed.
Check output2_contents : forall (A : Arith) (tok : Type) (fmt : A -> tok) (m : mesh2 A A),
  wf2 m ->
  (forall i j, i < m2_nx m -> j < m2_ny m ->
     nth_error (layout2 tok fmt m) (j * (m2_nx m + 1) + i) = Some (line2 tok fmt m j i) /\
     length (line2 tok fmt m j i) = m2_nvars m + 2 /\
     nth_error (line2 tok fmt m j i) 0 = Some (fmt (nth i (m2_x m) zero)) /\
     nth_error (line2 tok fmt m j i) 1 = Some (fmt (nth j (m2_y m) zero)) /\
     (forall v, v < m2_nvars m ->
        nth_error (line2 tok fmt m j i) (v + 2) = Some (fmt (nth v (nth (i * m2_ny m + j) (m2_vars m) []) zero))) /\
     (forall c, c < m2_nvars m + 2 ->
        nth_error (concat (layout2 tok fmt m)) ((j * m2_nx m + i) * (m2_nvars m + 2) + c) =
        nth_error (line2 tok fmt m j i) c)) /\
  (forall j, j < m2_ny m -> nth_error (layout2 tok fmt m) (j * (m2_nx m + 1) + m2_nx m) = Some []) /\
  length (concat (layout2 tok fmt m)) = m2_ny m * m2_nx m * (m2_nvars m + 2).
Print Assumptions output2_contents.
Example output2_contents_nonvacuous :
  wf2 (mesh2_new (A:=AQ) [q 0 1; q 1 1; q 3 1] [q 0 1; q 2 1] 2) /\
  2 < m2_nx (mesh2_new (A:=AQ) [q 0 1; q 1 1; q 3 1] [q 0 1; q 2 1] 2) /\
  1 < m2_ny (mesh2_new (A:=AQ) [q 0 1; q 1 1; q 3 1] [q 0 1; q 2 1] 2).
Proof. split; [apply mesh2_new_wf | cbn; auto]. Qed.

Theorem output_var2_is_projection : forall (A : Arith) (tok : Type) (fmt : A -> tok) (m : mesh2 A A) var,
  wf2 m -> var < m2_nvars m ->
  layout_var2 tok fmt m var = map (pick_var tok var) (layout2 tok fmt m).
Proof. intros A tok fmt m var. exact (MeshIO3Out2.layout_var2_pick tok fmt m var). Qed.
Check output_var2_is_projection : forall (A : Arith) (tok : Type) (fmt : A -> tok) (m : mesh2 A A) var,
  wf2 m -> var < m2_nvars m ->
  layout_var2 tok fmt m var = map (pick_var tok var) (layout2 tok fmt m).
Print Assumptions output_var2_is_projection.
Example output_var2_is_projection_nonvacuous :
  pick_var nat 1 [10; 20; 31; 32; 33] = [10; 20; 32] /\ pick_var nat 1 [] = [].
Proof. split; reflexivity. Qed.

