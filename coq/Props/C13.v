(* Props/C13.v -- stub, to be filled in *)
