(* Props/C13.v -- property theorems only: Theorem / exact lemma / Check (pins the statement) / Print Assumptions.
   C13: complex arithmetic is exact field arithmetic; operator variants and the ordering agree.
   The model is Model/Complex.v (every operator impl of src/complex/mod.rs as its own function; the compound
   assignments as the statement sequences of the source).  Contents:
     exact half   complex_ring, complex_identities, conj_abs_sqr_laws, mixed_real_forms, cdiv_cancel / _formula /
                  _unique / _panics_iff / _real_scalar / _one, complex_field (formally real F)      -- abstract ring / field
     variants     assign_eq_binary (any arithmetic with commutative +), assign_eq_binary_any_arith (no law),
                  assign_eq_binary_float (the float instance: bit for bit)
     ordering     cmp_total, cmp_trans, cmp_equal_iff_eq, cmp_derived_ops                           -- any strict total order
     instances    complex_Qc_ring, complex_Qc_field, cdiv_Qc, cmp_total_Qc (closed); complex_R_field, cabs_laws (R axioms)
     few ulps     cmul_ / cadd_csub_ / abs_sqr_cmul_r_ / cdiv_rounding_bound: for the FLOAT INSTANCE of the model
                  (Coq primitive binary64 through Flocq), no overflow / subnormal intermediate.
   Not proved: that Rust's f64 operations are these IEEE operations (assumption; every float case of the tie is
   bit-identical), accuracy of abs (sqrt) and of z / r, behaviour on overflow / underflow. *)
From Coq Require Import List Arith Bool Ring_theory Field_theory QArith Qcanon Reals Lra Lia.
From Flocq Require Import Core.
From OV Require Import Base.Panic Base.Arith Model.Complex Inst.QcInst Inst.FloatInst Proofs.Complex Proofs.ComplexQc Proofs.ComplexFloat Proofs.ComplexField Proofs.ComplexRound Proofs.ComplexR.

(* ---- Complex F is the commutative ring F[i] ---- *)
Theorem complex_ring : forall A : Arith,
  ring_theory (@zero A) one add mul sub neg eq ->
  ring_theory (@czero A) cone cadd cmul csub cneg eq.
Proof. intros A R. exact (complex_ring_lemma R). Qed.
Check complex_ring : forall A : Arith,
  ring_theory (@zero A) one add mul sub neg eq ->
  ring_theory (@czero A) cone cadd cmul csub cneg eq.
Print Assumptions complex_ring.
Example complex_ring_nonvacuous : ring_theory (@zero AQ) one add mul sub neg eq.
Proof. exact AQ_ring. Qed.

(* zero and one are identities, on either side, for the complex and for the real-scalar forms *)
Theorem complex_identities : forall A : Arith,
  ring_theory (@zero A) one add mul sub neg eq -> forall z : cplx A,
  cadd z czero = z /\ cadd czero z = z /\ csub z czero = z /\ cmul z cone = z /\ cmul cone z = z /\
  cadd_r z zero = z /\ csub_r z zero = z /\ cmul_r z one = z /\ rmul_c one z = z.
Proof. intros A R z. exact (identities_lemma R z). Qed.
Check complex_identities : forall A : Arith,
  ring_theory (@zero A) one add mul sub neg eq -> forall z : cplx A,
  cadd z czero = z /\ cadd czero z = z /\ csub z czero = z /\ cmul z cone = z /\ cmul cone z = z /\
  cadd_r z zero = z /\ csub_r z zero = z /\ cmul_r z one = z /\ rmul_c one z = z.
Print Assumptions complex_identities.

(* conjugation is an involutive ring automorphism; z * conj z = |z|^2; |.|^2 is multiplicative *)
Theorem conj_abs_sqr_laws : forall A : Arith,
  ring_theory (@zero A) one add mul sub neg eq -> forall z w : cplx A,
  conj (conj z) = z /\
  conj (cadd z w) = cadd (conj z) (conj w) /\
  conj (csub z w) = csub (conj z) (conj w) /\
  conj (cmul z w) = cmul (conj z) (conj w) /\
  conj (cneg z) = cneg (conj z) /\
  cmul z (conj z) = cof_r (abs_sqr z) /\
  abs_sqr (cmul z w) = mul (abs_sqr z) (abs_sqr w) /\
  abs_sqr (conj z) = abs_sqr z /\
  abs_sqr (cneg z) = abs_sqr z /\
  cadd z (conj z) = cof_r (add (re z) (re z)).
Proof. intros A R z w. exact (conj_abs_sqr_laws_lemma R z w). Qed.
Check conj_abs_sqr_laws : forall A : Arith,
  ring_theory (@zero A) one add mul sub neg eq -> forall z w : cplx A,
  conj (conj z) = z /\
  conj (cadd z w) = cadd (conj z) (conj w) /\
  conj (csub z w) = csub (conj z) (conj w) /\
  conj (cmul z w) = cmul (conj z) (conj w) /\
  conj (cneg z) = cneg (conj z) /\
  cmul z (conj z) = cof_r (abs_sqr z) /\
  abs_sqr (cmul z w) = mul (abs_sqr z) (abs_sqr w) /\
  abs_sqr (conj z) = abs_sqr z /\
  abs_sqr (cneg z) = abs_sqr z /\
  cadd z (conj z) = cof_r (add (re z) (re z)).
Print Assumptions conj_abs_sqr_laws.

(* the mixed complex/real operators (real scalar on either side) are the complex operators with (r, 0) *)
Theorem mixed_real_forms : forall A : Arith,
  ring_theory (@zero A) one add mul sub neg eq -> forall (z : cplx A) (r : A),
  cadd_r z r = cadd z (cof_r r) /\ csub_r z r = csub z (cof_r r) /\
  cmul_r z r = cmul z (cof_r r) /\ rmul_c r z = cmul (cof_r r) z.
Proof. intros A R z r. exact (mixed_real_forms_lemma R z r). Qed.
Check mixed_real_forms : forall A : Arith,
  ring_theory (@zero A) one add mul sub neg eq -> forall (z : cplx A) (r : A),
  cadd_r z r = cadd z (cof_r r) /\ csub_r z r = csub z (cof_r r) /\
  cmul_r z r = cmul z (cof_r r) /\ rmul_c r z = cmul (cof_r r) z.
Print Assumptions mixed_real_forms.

(* ---- division over a field ---- *)
(* Appendix E pins  abs_sqr w <> 0 -> cmul (cdiv z w) w = z ; cdiv returns a `res` (it panics for Complex<Rat>
   when |w|^2 = 0), so the statement names the value q it returns. *)
Theorem cdiv_cancel : forall (A : Arith) (F : FieldLaws A) (z w : cplx A),
  abs_sqr w <> zero -> exists q, cdiv z w = Ok q /\ cmul q w = z /\ cmul w q = z.
Proof. intros A F z w H. exact (cdiv_cancel_lemma F z w H). Qed.
Check cdiv_cancel : forall (A : Arith) (F : FieldLaws A) (z w : cplx A),
  abs_sqr w <> zero -> exists q, cdiv z w = Ok q /\ cmul q w = z /\ cmul w q = z.
Print Assumptions cdiv_cancel.
Example cdiv_cancel_nonvacuous : exists (F : FieldLaws AQ) (w : cplx AQ), abs_sqr w <> zero /\ im w <> zero.
Proof. exists AQ_FieldLaws, (mkC (q 1 2 : AQ) (q (-3) 1 : AQ)). split; intros H; discriminate H. Qed.

Theorem cdiv_formula : forall (A : Arith) (F : FieldLaws A) (z w : cplx A),
  abs_sqr w <> zero -> cdiv z w = Ok (cmul_r (cmul z (conj w)) (fl_inv A F (abs_sqr w))).
Proof. intros A F z w H. exact (cdiv_formula_lemma F z w H). Qed.
Check cdiv_formula : forall (A : Arith) (F : FieldLaws A) (z w : cplx A),
  abs_sqr w <> zero -> cdiv z w = Ok (cmul_r (cmul z (conj w)) (fl_inv A F (abs_sqr w))).
Print Assumptions cdiv_formula.

Theorem cdiv_unique : forall (A : Arith) (F : FieldLaws A) (z w q : cplx A),
  abs_sqr w <> zero -> cmul q w = z -> cdiv z w = Ok q.
Proof. intros A F z w q H E. exact (cdiv_unique_lemma F z w q H E). Qed.
Check cdiv_unique : forall (A : Arith) (F : FieldLaws A) (z w q : cplx A),
  abs_sqr w <> zero -> cmul q w = z -> cdiv z w = Ok q.
Print Assumptions cdiv_unique.

Theorem cdiv_panics_iff : forall (A : Arith) (F : FieldLaws A) (z w : cplx A),
  cdiv z w = Panic DivZero <-> abs_sqr w = zero.
Proof. intros A F z w. exact (cdiv_panics_iff_lemma F z w). Qed.
Check cdiv_panics_iff : forall (A : Arith) (F : FieldLaws A) (z w : cplx A),
  cdiv z w = Panic DivZero <-> abs_sqr w = zero.
Print Assumptions cdiv_panics_iff.

Theorem cdiv_real_scalar : forall (A : Arith) (F : FieldLaws A) (z : cplx A) (r : A),
  cdiv_r z r = cdiv z (cof_r r).
Proof. intros A F z r. exact (cdiv_r_lemma F z r). Qed.
Check cdiv_real_scalar : forall (A : Arith) (F : FieldLaws A) (z : cplx A) (r : A),
  cdiv_r z r = cdiv z (cof_r r).
Print Assumptions cdiv_real_scalar.

Theorem cdiv_one : forall (A : Arith) (F : FieldLaws A) (z : cplx A),
  cdiv z cone = Ok z /\ cdiv_r z one = Ok z.
Proof. intros A F z. exact (cdiv_one_lemma F z). Qed.
Check cdiv_one : forall (A : Arith) (F : FieldLaws A) (z : cplx A),
  cdiv z cone = Ok z /\ cdiv_r z one = Ok z.
Print Assumptions cdiv_one.

(* Complex F is a field when F is a formally real field (Q, R): usable with `Add Field` and, through
   CFieldLaws, by every theorem of the development stated for `FieldLaws A` *)
Theorem complex_field : forall (A : Arith) (F : FieldLaws A), formally_real A ->
  field_theory (@czero A) cone cadd cmul csub cneg (cdivt F) (cinv F) eq /\
  (forall z w : cplx A, cdiv z w = if ceqb w czero then Panic DivZero else Ok (cmul z (cinv F w))).
Proof. intros A F FR. split; [exact (complex_field_lemma F FR) | exact (cdiv_field_lemma F FR)]. Qed.
Check complex_field : forall (A : Arith) (F : FieldLaws A), formally_real A ->
  field_theory (@czero A) cone cadd cmul csub cneg (cdivt F) (cinv F) eq /\
  (forall z w : cplx A, cdiv z w = if ceqb w czero then Panic DivZero else Ok (cmul z (cinv F w))).
Print Assumptions complex_field.
Example complex_field_nonvacuous : exists F : FieldLaws AQ, formally_real AQ.
Proof. exists AQ_FieldLaws. exact AQ_formally_real. Qed.

(* ---- the compound-assignment forms (statement sequences of the source) equal the binary forms ---- *)
Theorem assign_eq_binary : forall A : Arith, (forall x y : A, add x y = add y x) ->
  forall (z w : cplx A) (r : A),
  cmul_assign z w = cmul z w /\ cdiv_assign z w = cdiv z w /\ cadd_assign z w = cadd z w /\
  csub_assign z w = csub z w /\ cadd_assign_r z r = cadd_r z r /\ csub_assign_r z r = csub_r z r /\
  cmul_assign_r z r = cmul_r z r /\ cdiv_assign_r z r = cdiv_r z r.
Proof. intros A C z w r. exact (assign_eq_binary_lemma C z w r). Qed.
Check assign_eq_binary : forall A : Arith, (forall x y : A, add x y = add y x) ->
  forall (z w : cplx A) (r : A),
  cmul_assign z w = cmul z w /\ cdiv_assign z w = cdiv z w /\ cadd_assign z w = cadd z w /\
  csub_assign z w = csub z w /\ cadd_assign_r z r = cadd_r z r /\ csub_assign_r z r = csub_r z r /\
  cmul_assign_r z r = cmul_r z r /\ cdiv_assign_r z r = cdiv_r z r.
Print Assumptions assign_eq_binary.
Example assign_eq_binary_nonvacuous : forall x y : AQ, add x y = add y x.
Proof. intros x y. apply Qcplus_comm. Qed.

(* seven of the eight hold for ANY arithmetic (no law: the float instance included); f64 * z is z * f64 *)
Theorem assign_eq_binary_any_arith : forall (A : Arith) (z w : cplx A) (r : A),
  cdiv_assign z w = cdiv z w /\ cadd_assign z w = cadd z w /\ csub_assign z w = csub z w /\
  cadd_assign_r z r = cadd_r z r /\ csub_assign_r z r = csub_r z r /\
  cmul_assign_r z r = cmul_r z r /\ cdiv_assign_r z r = cdiv_r z r.
Proof. intros A z w r. exact (assign_eq_binary_any_arith_lemma z w r). Qed.
Check assign_eq_binary_any_arith : forall (A : Arith) (z w : cplx A) (r : A),
  cdiv_assign z w = cdiv z w /\ cadd_assign z w = cadd z w /\ csub_assign z w = csub z w /\
  cadd_assign_r z r = cadd_r z r /\ csub_assign_r z r = csub_r z r /\
  cmul_assign_r z r = cmul_r z r /\ cdiv_assign_r z r = cdiv_r z r.
Print Assumptions assign_eq_binary_any_arith.

(* the float instance (Complex<f64> in the float tier): IEEE + is commutative (FloatAxioms specification of the
   primitive operations), so all eight forms agree bit for bit -- NaN, infinities and signed zeros included *)
Theorem assign_eq_binary_float : forall (z w : cplx AF) (r : AF),
  cmul_assign z w = cmul z w /\ cdiv_assign z w = cdiv z w /\ cadd_assign z w = cadd z w /\
  csub_assign z w = csub z w /\ cadd_assign_r z r = cadd_r z r /\ csub_assign_r z r = csub_r z r /\
  cmul_assign_r z r = cmul_r z r /\ cdiv_assign_r z r = cdiv_r z r.
Proof. intros z w r. exact (assign_eq_binary_float_lemma z w r). Qed.
Check assign_eq_binary_float : forall (z w : cplx AF) (r : AF),
  cmul_assign z w = cmul z w /\ cdiv_assign z w = cdiv z w /\ cadd_assign z w = cadd z w /\
  csub_assign z w = csub z w /\ cadd_assign_r z r = cadd_r z r /\ csub_assign_r z r = csub_r z r /\
  cmul_assign_r z r = cmul_r z r /\ cdiv_assign_r z r = cdiv_r z r.
Print Assumptions assign_eq_binary_float.
Print Assumptions cplx_ext. (* closed; ends the axiom list above for the audit's output parser *)

(* ---- equality and the lexicographic ordering ---- *)
Theorem cmp_total : forall A : Arith, OrderLaws A -> forall z w : cplx A,
  exactly_one (cltb z w = true) (z = w) (cltb w z = true).
Proof. intros A O z w. exact (cmp_total_lemma O z w). Qed.
Check cmp_total : forall A : Arith, OrderLaws A -> forall z w : cplx A,
  exactly_one (cltb z w = true) (z = w) (cltb w z = true).
Print Assumptions cmp_total.
Example cmp_total_nonvacuous : OrderLaws AQ.
Proof. exact AQ_order. Qed.

Theorem cmp_trans : forall A : Arith, OrderLaws A -> forall z w v : cplx A,
  cltb z w = true -> cltb w v = true -> cltb z v = true.
Proof. intros A O z w v H1 H2. exact (cltb_trans_lemma O z w v H1 H2). Qed.
Check cmp_trans : forall A : Arith, OrderLaws A -> forall z w v : cplx A,
  cltb z w = true -> cltb w v = true -> cltb z v = true.
Print Assumptions cmp_trans.
Example cmp_trans_nonvacuous : exists z w v : cplx AQ, cltb z w = true /\ cltb w v = true /\ re z = re w /\ re w <> re v.
Proof.
  exists (mkC (q 1 2 : AQ) (q (-3) 1 : AQ)), (mkC (q 1 2 : AQ) (q 2 1 : AQ)), (mkC (q 2 3 : AQ) (q (-7) 1 : AQ)).
  repeat split. intros H; discriminate H.
Qed.

(* partial_cmp never answers None, Equal iff eq iff the same number, Less / Greater iff < / > *)
Theorem cmp_equal_iff_eq : forall A : Arith, OrderLaws A -> forall z w : cplx A,
  (ccmp z w = Some Eq <-> ceqb z w = true) /\ (ceqb z w = true <-> z = w) /\
  (ccmp z w = Some Lt <-> cltb z w = true) /\ (ccmp z w = Some Gt <-> cltb w z = true) /\ ccmp z w <> None.
Proof. intros A O z w. exact (cmp_equal_iff_eq_lemma O z w). Qed.
Check cmp_equal_iff_eq : forall A : Arith, OrderLaws A -> forall z w : cplx A,
  (ccmp z w = Some Eq <-> ceqb z w = true) /\ (ceqb z w = true <-> z = w) /\
  (ccmp z w = Some Lt <-> cltb z w = true) /\ (ccmp z w = Some Gt <-> cltb w z = true) /\ ccmp z w <> None.
Print Assumptions cmp_equal_iff_eq.

(* the operators Rust derives from partial_cmp (lt le gt ge) agree with each other and with eq *)
Theorem cmp_derived_ops : forall A : Arith, OrderLaws A -> forall z w : cplx A,
  clt_pc z w = cltb z w /\ cle_pc z w = cleb z w /\ cgt_pc z w = cltb w z /\ cge_pc z w = cleb w z /\
  cleb z w = cltb z w || ceqb z w.
Proof. intros A O z w. exact (derived_ops_lemma O z w). Qed.
Check cmp_derived_ops : forall A : Arith, OrderLaws A -> forall z w : cplx A,
  clt_pc z w = cltb z w /\ cle_pc z w = cleb z w /\ cgt_pc z w = cltb w z /\ cge_pc z w = cleb w z /\
  cleb z w = cltb z w || ceqb z w.
Print Assumptions cmp_derived_ops.

(* ---- corollaries at the exact-tier instance (Complex<Rat> = Qc[i]): no hypothesis left ---- *)
Theorem complex_Qc_ring : ring_theory (@czero AQ) cone cadd cmul csub cneg eq.
Proof. exact (complex_ring_lemma AQ_ring). Qed.
Check complex_Qc_ring : ring_theory (@czero AQ) cone cadd cmul csub cneg eq.
Print Assumptions complex_Qc_ring.

Theorem complex_Qc_field :
  field_theory (@czero AQ) cone cadd cmul csub cneg (cdivt AQ_FieldLaws) (cinv AQ_FieldLaws) eq.
Proof. exact complex_Qc_field_lemma. Qed.
Check complex_Qc_field :
  field_theory (@czero AQ) cone cadd cmul csub cneg (cdivt AQ_FieldLaws) (cinv AQ_FieldLaws) eq.
Print Assumptions complex_Qc_field.

Theorem cdiv_Qc : forall z w : cplx AQ,
  (w <> czero -> exists q, cdiv z w = Ok q /\ cmul q w = z) /\
  (w = czero -> cdiv z w = Panic DivZero).
Proof. intros z w. exact (cdiv_Qc_lemma z w). Qed.
Check cdiv_Qc : forall z w : cplx AQ,
  (w <> czero -> exists q, cdiv z w = Ok q /\ cmul q w = z) /\
  (w = czero -> cdiv z w = Panic DivZero).
Print Assumptions cdiv_Qc.

Theorem cmp_total_Qc : forall z w : cplx AQ,
  exactly_one (cltb z w = true) (z = w) (cltb w z = true).
Proof. intros z w. exact (cmp_total_lemma AQ_order z w). Qed.
Check cmp_total_Qc : forall z w : cplx AQ,
  exactly_one (cltb z w = true) (z = w) (cltb w z = true).
Print Assumptions cmp_total_Qc.

(* ---- corollaries at C = R x R (classical reals): the field of complex numbers, its lexicographic order,
   and the modulus |z| = sqrt(abs_sqr z) of Complex::<f64>::abs over R ---- *)
Theorem complex_R_field :
  field_theory (@czero AR) cone cadd cmul csub cneg (cdivt AR_FieldLaws) (cinv AR_FieldLaws) eq /\
  (forall z w : cplx AR, exactly_one (cltb z w = true) (z = w) (cltb w z = true)) /\
  MagLaws ACR.
Proof. split; [exact complex_R_field_lemma|]. split; [exact (cmp_total_lemma AR_order) | exact ACR_MagLaws]. Qed.
Check complex_R_field :
  field_theory (@czero AR) cone cadd cmul csub cneg (cdivt AR_FieldLaws) (cinv AR_FieldLaws) eq /\
  (forall z w : cplx AR, exactly_one (cltb z w = true) (z = w) (cltb w z = true)) /\
  MagLaws ACR.
Print Assumptions complex_R_field.
Print Assumptions cplx_ext. (* closed; ends the axiom list above for the audit's output parser *)

Theorem cabs_laws : forall z w : cplx AR,
  (@cabs SAR z * @cabs SAR z = abs_sqr z)%R /\ (@cabs SAR (cmul z w) = @cabs SAR z * @cabs SAR w)%R /\
  (@cabs SAR z = 0%R <-> z = czero).
Proof.
  intros z w. split; [exact (cabs_sqr_lemma z)|]. split; [exact (cabs_mul_lemma z w)|]. exact (cabs_zero_iff_lemma z).
Qed.
Check cabs_laws : forall z w : cplx AR,
  (@cabs SAR z * @cabs SAR z = abs_sqr z)%R /\ (@cabs SAR (cmul z w) = @cabs SAR z * @cabs SAR w)%R /\
  (@cabs SAR z = 0%R <-> z = czero).
Print Assumptions cabs_laws.
Print Assumptions cplx_ext. (* closed; ends the axiom list above for the audit's output parser *)

(* ---- P3: the "few ulps" half, for the float instance of the model itself ----
   For finite z, w : Complex<f64> (cplx AF, Coq's primitive binary64 = the arithmetic of the float tier) whose four
   products and two sums neither overflow nor fall into the subnormal range, the product as the code computes it,
   (fl(fl(ac) - fl(bd)), fl(fl(ad) + fl(bc))), is finite and satisfies the NORMWISE bound
       |fl(z*w) - z*w|^2 <= 2 (2u + u^2)^2 |z|^2 |w|^2 ,   u = 2^-53     (|error| <= 2.83 u |z| |w|),
   real values taken through Flocq's B2R o Prim2B.  (Componentwise accuracy is false: the real part can cancel.)
   Assumptions: the four standard real-number axioms + the FloatAxioms specification of the primitive operations. *)
Theorem cmul_rounding_bound : forall z w : cplx AF,
  let a := FR (re z) in let b := FR (im z) in let c := FR (re w) in let d := FR (im w) in
  ffinite (re z) -> ffinite (im z) -> ffinite (re w) -> ffinite (im w) ->
  in_range (a * c) -> in_range (b * d) -> in_range (a * d) -> in_range (b * c) ->
  in_range (rnd64 (a * c) - rnd64 (b * d)) -> in_range (rnd64 (a * d) + rnd64 (b * c)) ->
  ffinite (re (cmul z w)) /\ ffinite (im (cmul z w)) /\
  let er := (FR (re (cmul z w)) - (a * c - b * d))%R in
  let ei := (FR (im (cmul z w)) - (a * d + b * c))%R in
  (er * er + ei * ei <= 2 * ((2 * u64 + u64 * u64) * (2 * u64 + u64 * u64)) * ((a * a + b * b) * (c * c + d * d)))%R.
Proof. intros z w. exact (cmul_rounding_bound_lemma z w). Qed.
Check cmul_rounding_bound : forall z w : cplx AF,
  let a := FR (re z) in let b := FR (im z) in let c := FR (re w) in let d := FR (im w) in
  ffinite (re z) -> ffinite (im z) -> ffinite (re w) -> ffinite (im w) ->
  in_range (a * c) -> in_range (b * d) -> in_range (a * d) -> in_range (b * c) ->
  in_range (rnd64 (a * c) - rnd64 (b * d)) -> in_range (rnd64 (a * d) + rnd64 (b * c)) ->
  ffinite (re (cmul z w)) /\ ffinite (im (cmul z w)) /\
  let er := (FR (re (cmul z w)) - (a * c - b * d))%R in
  let ei := (FR (im (cmul z w)) - (a * d + b * c))%R in
  (er * er + ei * ei <= 2 * ((2 * u64 + u64 * u64) * (2 * u64 + u64 * u64)) * ((a * a + b * b) * (c * c + d * d)))%R.
Print Assumptions cmul_rounding_bound.
Print Assumptions cplx_ext. (* closed; ends the axiom list above for the audit's output parser *)
(* non-vacuity: (1.5 + 2i)(3 - 0.5i) -- every operand component non-zero -- meets every hypothesis *)
Example cmul_rounding_bound_nonvacuous_at :
  let z := @mkC AF (FloatInst.fz false 3 (-1)) (FloatInst.fz false 2 0) in
  let w := @mkC AF (FloatInst.fz false 3 0) (FloatInst.fz true 1 (-1)) in
  let a := FR (re z) in let b := FR (im z) in let c := FR (re w) in let d := FR (im w) in
  ffinite (re z) /\ ffinite (im z) /\ ffinite (re w) /\ ffinite (im w) /\
  in_range (a * c) /\ in_range (b * d) /\ in_range (a * d) /\ in_range (b * c) /\
  in_range (rnd64 (a * c) - rnd64 (b * d)) /\ in_range (rnd64 (a * d) + rnd64 (b * c)).
Proof. exact cmul_rounding_bound_nonvacuous. Qed.

(* + and - round each component once (relative error u per component); |z|^2 has relative error 2u + u^2;
   z * r (= r * z) rounds each component once *)
Theorem cadd_csub_rounding_bound : forall z w : cplx AF,
  let a := FR (re z) in let b := FR (im z) in let c := FR (re w) in let d := FR (im w) in
  ffinite (re z) -> ffinite (im z) -> ffinite (re w) -> ffinite (im w) ->
  (in_range (a + c) -> in_range (b + d) ->
   ffinite (re (cadd z w)) /\ ffinite (im (cadd z w)) /\
   (Rabs (FR (re (cadd z w)) - (a + c)) <= u64 * Rabs (a + c))%R /\
   (Rabs (FR (im (cadd z w)) - (b + d)) <= u64 * Rabs (b + d))%R) /\
  (in_range (a - c) -> in_range (b - d) ->
   ffinite (re (csub z w)) /\ ffinite (im (csub z w)) /\
   (Rabs (FR (re (csub z w)) - (a - c)) <= u64 * Rabs (a - c))%R /\
   (Rabs (FR (im (csub z w)) - (b - d)) <= u64 * Rabs (b - d))%R).
Proof. intros z w. exact (cadd_csub_rounding_bound_lemma z w). Qed.
Check cadd_csub_rounding_bound : forall z w : cplx AF,
  let a := FR (re z) in let b := FR (im z) in let c := FR (re w) in let d := FR (im w) in
  ffinite (re z) -> ffinite (im z) -> ffinite (re w) -> ffinite (im w) ->
  (in_range (a + c) -> in_range (b + d) ->
   ffinite (re (cadd z w)) /\ ffinite (im (cadd z w)) /\
   (Rabs (FR (re (cadd z w)) - (a + c)) <= u64 * Rabs (a + c))%R /\
   (Rabs (FR (im (cadd z w)) - (b + d)) <= u64 * Rabs (b + d))%R) /\
  (in_range (a - c) -> in_range (b - d) ->
   ffinite (re (csub z w)) /\ ffinite (im (csub z w)) /\
   (Rabs (FR (re (csub z w)) - (a - c)) <= u64 * Rabs (a - c))%R /\
   (Rabs (FR (im (csub z w)) - (b - d)) <= u64 * Rabs (b - d))%R).
Print Assumptions cadd_csub_rounding_bound.
Print Assumptions cplx_ext. (* closed; ends the axiom list above for the audit's output parser *)
Example cadd_csub_rounding_bound_nonvacuous : in_range (FR (FloatInst.fz false 3 (-1)) + FR (FloatInst.fz false 3 0)).
Proof. exact cadd_csub_rounding_bound_nonvacuous_lemma. Qed.

Theorem abs_sqr_cmul_r_rounding_bound : forall (z : cplx AF) (r : AF),
  let a := FR (re z) in let b := FR (im z) in let s := FR r in
  ffinite (re z) -> ffinite (im z) ->
  (in_range (a * a) -> in_range (b * b) -> in_range (rnd64 (a * a) + rnd64 (b * b)) ->
   ffinite (abs_sqr z) /\
   (Rabs (FR (abs_sqr z) - (a * a + b * b)) <= (2 * u64 + u64 * u64) * (a * a + b * b))%R) /\
  (ffinite r -> in_range (a * s) -> in_range (b * s) ->
   ffinite (re (cmul_r z r)) /\ ffinite (im (cmul_r z r)) /\ rmul_c r z = cmul_r z r /\
   (Rabs (FR (re (cmul_r z r)) - a * s) <= u64 * Rabs (a * s))%R /\
   (Rabs (FR (im (cmul_r z r)) - b * s) <= u64 * Rabs (b * s))%R).
Proof. intros z r. exact (abs_sqr_cmul_r_rounding_bound_lemma z r). Qed.
Check abs_sqr_cmul_r_rounding_bound : forall (z : cplx AF) (r : AF),
  let a := FR (re z) in let b := FR (im z) in let s := FR r in
  ffinite (re z) -> ffinite (im z) ->
  (in_range (a * a) -> in_range (b * b) -> in_range (rnd64 (a * a) + rnd64 (b * b)) ->
   ffinite (abs_sqr z) /\
   (Rabs (FR (abs_sqr z) - (a * a + b * b)) <= (2 * u64 + u64 * u64) * (a * a + b * b))%R) /\
  (ffinite r -> in_range (a * s) -> in_range (b * s) ->
   ffinite (re (cmul_r z r)) /\ ffinite (im (cmul_r z r)) /\ rmul_c r z = cmul_r z r /\
   (Rabs (FR (re (cmul_r z r)) - a * s) <= u64 * Rabs (a * s))%R /\
   (Rabs (FR (im (cmul_r z r)) - b * s) <= u64 * Rabs (b * s))%R).
Print Assumptions abs_sqr_cmul_r_rounding_bound.
Print Assumptions cplx_ext. (* closed; ends the axiom list above for the audit's output parser *)
Example abs_sqr_cmul_r_rounding_bound_nonvacuous :
  let a := FR (FloatInst.fz false 3 (-1)) in let b := FR (FloatInst.fz true 1 (-1)) in
  in_range (a * a) /\ in_range (b * b) /\ in_range (a * b).
Proof. exact abs_sqr_cmul_r_rounding_bound_nonvacuous_lemma. Qed.

(* the quotient as the code computes it, den = fl(fl(cc)+fl(dd)), (fl(fl(fl(ac)+fl(bd))/den), fl(fl(fl(bc)-fl(ad))/den)):
   normwise  |fl(z/w) - z/w|^2 <= 2 kappa^2 |z|^2/|w|^2 ,  kappa = (2g + u(1+g))/(1-g), g = 2u + u^2  (about 7.1 u |z|/|w|) *)
Theorem cdiv_rounding_bound : forall z w : cplx AF,
  let a := FR (re z) in let b := FR (im z) in let c := FR (re w) in let d := FR (im w) in
  let D1 := rnd64 (rnd64 (c * c) + rnd64 (d * d)) in
  let R1 := rnd64 (rnd64 (a * c) + rnd64 (b * d)) in
  let I1 := rnd64 (rnd64 (b * c) - rnd64 (a * d)) in
  ffinite (re z) -> ffinite (im z) -> ffinite (re w) -> ffinite (im w) -> (0 < c * c + d * d)%R ->
  in_range (c * c) -> in_range (d * d) -> in_range (rnd64 (c * c) + rnd64 (d * d)) ->
  in_range (a * c) -> in_range (b * d) -> in_range (rnd64 (a * c) + rnd64 (b * d)) ->
  in_range (b * c) -> in_range (a * d) -> in_range (rnd64 (b * c) - rnd64 (a * d)) ->
  in_range (R1 / D1) -> in_range (I1 / D1) ->
  exists q, cdiv z w = Ok q /\ ffinite (re q) /\ ffinite (im q) /\
  let er := (FR (re q) - (a * c + b * d) / (c * c + d * d))%R in
  let ei := (FR (im q) - (b * c - a * d) / (c * c + d * d))%R in
  (er * er + ei * ei <=
    2 * (kappa u64 (2 * u64 + u64 * u64) * kappa u64 (2 * u64 + u64 * u64)) * ((a * a + b * b) / (c * c + d * d)))%R.
Proof. intros z w. exact (cdiv_rounding_bound_lemma z w). Qed.
Check cdiv_rounding_bound : forall z w : cplx AF,
  let a := FR (re z) in let b := FR (im z) in let c := FR (re w) in let d := FR (im w) in
  let D1 := rnd64 (rnd64 (c * c) + rnd64 (d * d)) in
  let R1 := rnd64 (rnd64 (a * c) + rnd64 (b * d)) in
  let I1 := rnd64 (rnd64 (b * c) - rnd64 (a * d)) in
  ffinite (re z) -> ffinite (im z) -> ffinite (re w) -> ffinite (im w) -> (0 < c * c + d * d)%R ->
  in_range (c * c) -> in_range (d * d) -> in_range (rnd64 (c * c) + rnd64 (d * d)) ->
  in_range (a * c) -> in_range (b * d) -> in_range (rnd64 (a * c) + rnd64 (b * d)) ->
  in_range (b * c) -> in_range (a * d) -> in_range (rnd64 (b * c) - rnd64 (a * d)) ->
  in_range (R1 / D1) -> in_range (I1 / D1) ->
  exists q, cdiv z w = Ok q /\ ffinite (re q) /\ ffinite (im q) /\
  let er := (FR (re q) - (a * c + b * d) / (c * c + d * d))%R in
  let ei := (FR (im q) - (b * c - a * d) / (c * c + d * d))%R in
  (er * er + ei * ei <=
    2 * (kappa u64 (2 * u64 + u64 * u64) * kappa u64 (2 * u64 + u64 * u64)) * ((a * a + b * b) / (c * c + d * d)))%R.
Print Assumptions cdiv_rounding_bound.
Print Assumptions cplx_ext. (* closed; ends the axiom list above for the audit's output parser *)
Example cdiv_rounding_bound_nonvacuous_at :
  let z := @mkC AF (FloatInst.fz false 3 (-1)) (FloatInst.fz false 2 0) in
  let w := @mkC AF (FloatInst.fz false 3 0) (FloatInst.fz true 1 (-1)) in
  let a := FR (re z) in let b := FR (im z) in let c := FR (re w) in let d := FR (im w) in
  let D1 := rnd64 (rnd64 (c * c) + rnd64 (d * d)) in
  let R1 := rnd64 (rnd64 (a * c) + rnd64 (b * d)) in
  let I1 := rnd64 (rnd64 (b * c) - rnd64 (a * d)) in
  ffinite (re z) /\ ffinite (im z) /\ ffinite (re w) /\ ffinite (im w) /\ (0 < c * c + d * d)%R /\
  in_range (c * c) /\ in_range (d * d) /\ in_range (rnd64 (c * c) + rnd64 (d * d)) /\
  in_range (a * c) /\ in_range (b * d) /\ in_range (rnd64 (a * c) + rnd64 (b * d)) /\
  in_range (b * c) /\ in_range (a * d) /\ in_range (rnd64 (b * c) - rnd64 (a * d)) /\
  in_range (R1 / D1) /\ in_range (I1 / D1).
Proof. exact cdiv_rounding_bound_nonvacuous. Qed.

(* negation and conjugation are exact; z / r (and z /= r) divides each component once; the modulus
   |z| = fl(sqrt(fl(fl(a*a) + fl(b*b)))) of Complex::<f64>::abs has relative error g + u(1+g), g = 2u + u^2 (about 3u) *)
Theorem cneg_conj_exact : forall z : cplx AF,
  FR (re (cneg z)) = (- FR (re z))%R /\ FR (im (cneg z)) = (- FR (im z))%R /\
  re (conj z) = re z /\ FR (im (conj z)) = (- FR (im z))%R.
Proof. intros z. exact (cneg_conj_exact_lemma z). Qed.
Check cneg_conj_exact : forall z : cplx AF,
  FR (re (cneg z)) = (- FR (re z))%R /\ FR (im (cneg z)) = (- FR (im z))%R /\
  re (conj z) = re z /\ FR (im (conj z)) = (- FR (im z))%R.
Print Assumptions cneg_conj_exact.
Print Assumptions cplx_ext. (* closed; ends the axiom list above for the audit's output parser *)

Theorem cdiv_r_rounding_bound : forall (z : cplx AF) (r : AF),
  let a := FR (re z) in let b := FR (im z) in let s := FR r in
  ffinite (re z) -> ffinite (im z) -> s <> 0%R -> in_range (a / s) -> in_range (b / s) ->
  exists q, cdiv_r z r = Ok q /\ cdiv_assign_r z r = Ok q /\ ffinite (re q) /\ ffinite (im q) /\
  (Rabs (FR (re q) - a / s) <= u64 * Rabs (a / s))%R /\ (Rabs (FR (im q) - b / s) <= u64 * Rabs (b / s))%R.
Proof. intros z r. exact (cdiv_r_rounding_bound_lemma z r). Qed.
Check cdiv_r_rounding_bound : forall (z : cplx AF) (r : AF),
  let a := FR (re z) in let b := FR (im z) in let s := FR r in
  ffinite (re z) -> ffinite (im z) -> s <> 0%R -> in_range (a / s) -> in_range (b / s) ->
  exists q, cdiv_r z r = Ok q /\ cdiv_assign_r z r = Ok q /\ ffinite (re q) /\ ffinite (im q) /\
  (Rabs (FR (re q) - a / s) <= u64 * Rabs (a / s))%R /\ (Rabs (FR (im q) - b / s) <= u64 * Rabs (b / s))%R.
Print Assumptions cdiv_r_rounding_bound.
Print Assumptions cplx_ext. (* closed; ends the axiom list above for the audit's output parser *)

Theorem cabs_rounding_bound : forall z : cplx AF,
  let a := FR (re z) in let b := FR (im z) in
  ffinite (re z) -> ffinite (im z) -> (0 < a * a + b * b)%R ->
  in_range (a * a) -> in_range (b * b) -> in_range (rnd64 (a * a) + rnd64 (b * b)) ->
  no_underflow (R_sqrt.sqrt (rnd64 (rnd64 (a * a) + rnd64 (b * b)))) ->
  (Rabs (FR (@cabs SAF z) - R_sqrt.sqrt (a * a + b * b)) <=
    ((2 * u64 + u64 * u64) + u64 * (1 + (2 * u64 + u64 * u64))) * R_sqrt.sqrt (a * a + b * b))%R.
Proof. intros z. exact (cabs_rounding_bound_lemma z). Qed.
Check cabs_rounding_bound : forall z : cplx AF,
  let a := FR (re z) in let b := FR (im z) in
  ffinite (re z) -> ffinite (im z) -> (0 < a * a + b * b)%R ->
  in_range (a * a) -> in_range (b * b) -> in_range (rnd64 (a * a) + rnd64 (b * b)) ->
  no_underflow (R_sqrt.sqrt (rnd64 (rnd64 (a * a) + rnd64 (b * b)))) ->
  (Rabs (FR (@cabs SAF z) - R_sqrt.sqrt (a * a + b * b)) <=
    ((2 * u64 + u64 * u64) + u64 * (1 + (2 * u64 + u64 * u64))) * R_sqrt.sqrt (a * a + b * b))%R.
Print Assumptions cabs_rounding_bound.
Print Assumptions cplx_ext. (* closed; ends the axiom list above for the audit's output parser *)
(* non-vacuity of the last two: z = 1.5 + 2i, r = -0.5 *)
Example cdiv_r_cabs_rounding_bound_nonvacuous :
  let z := @mkC AF (FloatInst.fz false 3 (-1)) (FloatInst.fz false 2 0) in let r : AF := FloatInst.fz true 1 (-1) in
  let a := FR (re z) in let b := FR (im z) in let s := FR r in
  ffinite (re z) /\ ffinite (im z) /\ s <> 0%R /\ in_range (a / s) /\ in_range (b / s) /\
  (0 < a * a + b * b)%R /\ in_range (a * a) /\ in_range (b * b) /\ in_range (rnd64 (a * a) + rnd64 (b * b)) /\
  no_underflow (R_sqrt.sqrt (rnd64 (rnd64 (a * a) + rnd64 (b * b)))).
Proof. exact cdiv_r_cabs_rounding_bound_nonvacuous_lemma. Qed.


(* ---- tie to the source by proof: the operator definitions regenerated from src/complex/mod.rs on this run
   (gen/ComplexOps.v, driver/translate.py) are convertible with the hand-written model every theorem above is about. *)
From OV Require Import gen.ComplexOps Proofs.ComplexGen.
Theorem model_is_source_C13 : forall A : Arith, @model_is_source A.
Proof. intros A. exact model_is_source_lemma. Qed.
Check model_is_source_C13 : forall A : Arith, @model_is_source A.
Print Assumptions model_is_source_C13.
