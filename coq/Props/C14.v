(* Props/C14.v -- property theorems only: Theorem / exact lemma / Check (pins the statement) / Print Assumptions.
   All statements are about the model coq/Model/CFun.v over R x R (complex numbers as pairs of reals); the model is
   tied to src/complex/*.rs by the Interval certificates of the C14 check.  czero = (0,0), cone = (1,0), ci = (0,1).
   libm accuracy / f64 rounding are not the subject of these theorems (DESIGN section 10). *)
From Coq Require Import Reals Lra.
From OV Require Import Model.CFun Proofs.CFun.
Local Open Scope R_scope.

(* ---- modulus and argument: z = |z| (cos arg z, sin arg z), arg z in (-PI, PI] ---- *)
Theorem polar_decomp : forall z : C, z <> czero ->
  z = cmul_r (cos (arg z), sin (arg z)) (cabs z) /\ - PI < arg z <= PI.
Proof. intros z Hz. exact (conj (polar_form z Hz) (arg_range z)). Qed.
Check polar_decomp : forall z : C, z <> czero ->
  z = cmul_r (cos (arg z), sin (arg z)) (cabs z) /\ - PI < arg z <= PI.
Print Assumptions polar_decomp.
Example polar_decomp_nonvacuous : (-3, 4) <> czero.
Proof. intros H; inversion H; lra. Qed.

(* ---- exp / ln / sqrt: inverse pairs and principal branches ---- *)
Theorem exp_ln : forall z : C, z <> czero -> cexp (cln z) = z.
Proof. exact exp_ln_lemma. Qed.
Check exp_ln : forall z : C, z <> czero -> cexp (cln z) = z.
Print Assumptions exp_ln.
Example exp_ln_nonvacuous : (-1, 0) <> czero.
Proof. intros H; inversion H; lra. Qed.

Theorem sqrt_sqr : forall z : C, cmul (csqrt z) (csqrt z) = z.
Proof. exact sqrt_sqr_lemma. Qed.
Check sqrt_sqr : forall z : C, cmul (csqrt z) (csqrt z) = z.
Print Assumptions sqrt_sqr.

Theorem re_sqrt_nonneg : forall z : C, 0 <= re (csqrt z).
Proof. exact re_sqrt_nonneg_lemma. Qed.
Check re_sqrt_nonneg : forall z : C, 0 <= re (csqrt z).
Print Assumptions re_sqrt_nonneg.

(* holds for every z (for z = 0 the model's arg is 0), so no hypothesis z <> 0 is needed *)
Theorem im_ln_range : forall z : C, - PI < im (cln z) <= PI.
Proof. exact im_ln_range_lemma. Qed.
Check im_ln_range : forall z : C, - PI < im (cln z) <= PI.
Print Assumptions im_ln_range.

(* ---- general powers ---- *)
Theorem pow_is_exp_ln : forall z w : C, z <> czero -> cpow z w = cexp (cmul w (cln z)).
Proof. exact pow_is_exp_ln_lemma. Qed.
Check pow_is_exp_ln : forall z w : C, z <> czero -> cpow z w = cexp (cmul w (cln z)).
Print Assumptions pow_is_exp_ln.
Example pow_is_exp_ln_nonvacuous : (0, -2) <> czero.
Proof. intros H; inversion H; lra. Qed.

Theorem powf_is_pow : forall (z : C) (x : R), cpowf z x = cpow z (x, 0).
Proof. exact powf_is_pow_lemma. Qed.
Check powf_is_pow : forall (z : C) (x : R), cpowf z x = cpow z (x, 0).
Print Assumptions powf_is_pow.

(* ---- polar form round trips, both directions ---- *)
Theorem polar_roundtrip : forall z : C, z <> czero -> cpolar (cabs z) (arg z) = z.
Proof. exact polar_roundtrip_lemma. Qed.
Check polar_roundtrip : forall z : C, z <> czero -> cpolar (cabs z) (arg z) = z.
Print Assumptions polar_roundtrip.
Example polar_roundtrip_nonvacuous : (0, -1) <> czero.
Proof. intros H; inversion H; lra. Qed.

Theorem polar_roundtrip_inv : forall r t : R, 0 < r -> - PI < t <= PI ->
  cabs (cpolar r t) = r /\ arg (cpolar r t) = t.
Proof. intros r t Hr Ht. exact (conj (cabs_polar r t (Rlt_le _ _ Hr)) (arg_polar r t Hr Ht)). Qed.
Check polar_roundtrip_inv : forall r t : R, 0 < r -> - PI < t <= PI ->
  cabs (cpolar r t) = r /\ arg (cpolar r t) = t.
Print Assumptions polar_roundtrip_inv.
Example polar_roundtrip_inv_nonvacuous : 0 < 2 /\ - PI < PI <= PI.
Proof. pose proof PI_RGT_0. lra. Qed.
