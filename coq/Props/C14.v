(* Props/C14.v -- property theorems only: Theorem / exact lemma / Check (pins the statement) / Print Assumptions.
   Layout: every Theorem / Proof / Check first, all Print Assumptions (same order) at the end of the file -- the
   driver's assumption parser (driver/common.py, frozen) attributes everything printed after an "Axioms:" block to
   that block, so the line "name : statement" printed by a Check between two Print Assumptions would be read as
   one more axiom.  Related statements are grouped into one theorem (a conjunction) where that loses nothing:
   each Print Assumptions over R costs about a second of the check's budget.
   All statements are about the model coq/Model/CFun.v over R x R (complex numbers as pairs of reals); the model is
   tied to src/complex/*.rs by the Interval certificates of the C14 check.  czero = (0,0), cone = (1,0), ci = (0,1),
   ctwo = cone + cone = (2,0).  libm accuracy / f64 rounding are not the subject of these theorems (DESIGN 10). *)
From Coq Require Import Reals Lra.
From OV Require Import Model.CFun Proofs.CFun Proofs.CFunAlg Proofs.CFunInv Proofs.CFunReal.
Local Open Scope R_scope.

(* ---- modulus and argument: z = |z| (cos arg z, sin arg z), arg z in (-PI, PI] ---- *)
Theorem polar_decomp : forall z : C, z <> czero ->
  z = cmul_r (cos (arg z), sin (arg z)) (cabs z) /\ - PI < arg z <= PI.
Proof. intros z Hz. exact (conj (polar_form z Hz) (arg_range z)). Qed.
Check polar_decomp : forall z : C, z <> czero ->
  z = cmul_r (cos (arg z), sin (arg z)) (cabs z) /\ - PI < arg z <= PI.
Example polar_decomp_nonvacuous : (-3, 4) <> czero.
Proof. intros H; inversion H; lra. Qed.

(* ---- exp / ln / sqrt: inverse pairs and principal branches ---- *)
Theorem exp_ln : forall z : C, z <> czero -> cexp (cln z) = z.
Proof. exact exp_ln_lemma. Qed.
Check exp_ln : forall z : C, z <> czero -> cexp (cln z) = z.
Example exp_ln_nonvacuous : (-1, 0) <> czero.
Proof. intros H; inversion H; lra. Qed.

Theorem sqrt_sqr : forall z : C, cmul (csqrt z) (csqrt z) = z.
Proof. exact sqrt_sqr_lemma. Qed.
Check sqrt_sqr : forall z : C, cmul (csqrt z) (csqrt z) = z.

Theorem re_sqrt_nonneg : forall z : C, 0 <= re (csqrt z).
Proof. exact re_sqrt_nonneg_lemma. Qed.
Check re_sqrt_nonneg : forall z : C, 0 <= re (csqrt z).

(* holds for every z (for z = 0 the model's arg is 0), so no hypothesis z <> 0 is needed *)
Theorem im_ln_range : forall z : C, - PI < im (cln z) <= PI.
Proof. exact im_ln_range_lemma. Qed.
Check im_ln_range : forall z : C, - PI < im (cln z) <= PI.

(* ---- general powers: z^w = exp (w ln z); powf is pow with a real exponent ---- *)
Theorem pow_is_exp_ln : forall z w : C, z <> czero ->
  cpow z w = cexp (cmul w (cln z)) /\ forall x : R, cpowf z x = cpow z (x, 0).
Proof. intros z w Hz. exact (conj (pow_is_exp_ln_lemma z w Hz) (powf_is_pow_lemma z)). Qed.
Check pow_is_exp_ln : forall z w : C, z <> czero ->
  cpow z w = cexp (cmul w (cln z)) /\ forall x : R, cpowf z x = cpow z (x, 0).
Example pow_is_exp_ln_nonvacuous : (0, -2) <> czero.
Proof. intros H; inversion H; lra. Qed.

(* ---- polar form round trips, both directions ---- *)
Theorem polar_roundtrip : forall z : C, z <> czero -> cpolar (cabs z) (arg z) = z.
Proof. exact polar_roundtrip_lemma. Qed.
Check polar_roundtrip : forall z : C, z <> czero -> cpolar (cabs z) (arg z) = z.
Example polar_roundtrip_nonvacuous : (0, -1) <> czero.
Proof. intros H; inversion H; lra. Qed.

Theorem polar_roundtrip_inv : forall r t : R, 0 < r -> - PI < t <= PI ->
  cabs (cpolar r t) = r /\ arg (cpolar r t) = t.
Proof. intros r t Hr Ht. exact (conj (cabs_polar r t (Rlt_le _ _ Hr)) (arg_polar r t Hr Ht)). Qed.
Check polar_roundtrip_inv : forall r t : R, 0 < r -> - PI < t <= PI ->
  cabs (cpolar r t) = r /\ arg (cpolar r t) = t.
Example polar_roundtrip_inv_nonvacuous : 0 < 2 /\ - PI < PI <= PI.
Proof. pose proof PI_RGT_0. lra. Qed.

(* ---- sin / cos / sinh / cosh equal their exponential definitions; exp is a homomorphism ---- *)
Theorem exponential_forms : forall z : C,
  csin z = cdiv (csub (cexp (cmul ci z)) (cexp (cneg (cmul ci z)))) (cmul ctwo ci) /\
  ccos z = cdiv (cadd (cexp (cmul ci z)) (cexp (cneg (cmul ci z)))) ctwo /\
  csinh z = cdiv (csub (cexp z) (cexp (cneg z))) ctwo /\
  ccosh z = cdiv (cadd (cexp z) (cexp (cneg z))) ctwo /\
  forall w : C, cexp (cadd z w) = cmul (cexp z) (cexp w).
Proof. intros z. exact (conj (csin_exp_lemma z) (conj (ccos_exp_lemma z) (conj (csinh_exp_lemma z) (conj (ccosh_exp_lemma z) (cexp_add z))))). Qed.
Check exponential_forms : forall z : C,
  csin z = cdiv (csub (cexp (cmul ci z)) (cexp (cneg (cmul ci z)))) (cmul ctwo ci) /\
  ccos z = cdiv (cadd (cexp (cmul ci z)) (cexp (cneg (cmul ci z)))) ctwo /\
  csinh z = cdiv (csub (cexp z) (cexp (cneg z))) ctwo /\
  ccosh z = cdiv (cadd (cexp z) (cexp (cneg z))) ctwo /\
  forall w : C, cexp (cadd z w) = cmul (cexp z) (cexp w).

(* ---- Pythagorean identities ---- *)
Theorem pythagoras : forall z : C,
  cadd (cmul (csin z) (csin z)) (cmul (ccos z) (ccos z)) = cone /\
  csub (cmul (ccosh z) (ccosh z)) (cmul (csinh z) (csinh z)) = cone.
Proof. intros z. exact (conj (pythagoras_lemma z) (pythagoras_hyp_lemma z)). Qed.
Check pythagoras : forall z : C,
  cadd (cmul (csin z) (csin z)) (cmul (ccos z) (ccos z)) = cone /\
  csub (cmul (ccosh z) (ccosh z)) (cmul (csinh z) (csinh z)) = cone.

(* ---- reduction to the real functions on the real axis ---- *)
Theorem real_axis_direct : forall x : R,
  cexp (x, 0) = (exp x, 0) /\ csin (x, 0) = (sin x, 0) /\ ccos (x, 0) = (cos x, 0) /\
  csinh (x, 0) = (sinh x, 0) /\ ccosh (x, 0) = (cosh x, 0) /\ ctanh (x, 0) = (tanh x, 0) /\
  (cos x <> 0 -> ctan (x, 0) = (tan x, 0)).
Proof. intros x. exact (conj (cexp_real x) (conj (csin_real x) (conj (ccos_real x) (conj (csinh_real x) (conj (ccosh_real x) (conj (ctanh_real x) (ctan_real x))))))). Qed.
Check real_axis_direct : forall x : R,
  cexp (x, 0) = (exp x, 0) /\ csin (x, 0) = (sin x, 0) /\ ccos (x, 0) = (cos x, 0) /\
  csinh (x, 0) = (sinh x, 0) /\ ccosh (x, 0) = (cosh x, 0) /\ ctanh (x, 0) = (tanh x, 0) /\
  (cos x <> 0 -> ctan (x, 0) = (tan x, 0)).
Example real_axis_direct_nonvacuous : cos 0 <> 0.
Proof. rewrite cos_0. lra. Qed.

Theorem real_axis_ln_sqrt : forall x : R,
  (0 < x -> cln (x, 0) = (ln x, 0) /\ csqrt (x, 0) = (sqrt x, 0) /\ forall a : R, cpowf (x, 0) a = (Rpower x a, 0)) /\
  (x < 0 -> cln (x, 0) = (ln (- x), PI) /\ csqrt (x, 0) = (0, sqrt (- x))).
Proof. intros x. exact (conj (fun Hx => conj (cln_real x Hx) (conj (csqrt_real x (Rlt_le _ _ Hx)) (fun a => cpowf_real x a Hx))) (fun Hx => conj (cln_real_neg x Hx) (csqrt_real_neg x Hx))). Qed.
Check real_axis_ln_sqrt : forall x : R,
  (0 < x -> cln (x, 0) = (ln x, 0) /\ csqrt (x, 0) = (sqrt x, 0) /\ forall a : R, cpowf (x, 0) a = (Rpower x a, 0)) /\
  (x < 0 -> cln (x, 0) = (ln (- x), PI) /\ csqrt (x, 0) = (0, sqrt (- x))).
Example real_axis_ln_sqrt_nonvacuous : 0 < 2 /\ -4 < 0.
Proof. lra. Qed.

(* the inverse functions on the real axis, inside the real domain of the real inverse (asin, acos, arcsinh are the
   standard library's; atanh / acosh have no standard-library counterpart and are stated by their logarithm forms) *)
Theorem real_axis_inverse : forall x : R,
  catan (x, 0) = (atan x, 0) /\ casinh (x, 0) = (arcsinh x, 0) /\
  (-1 < x < 1 -> casin (x, 0) = (asin x, 0) /\ cacos (x, 0) = (acos x, 0) /\
                 catanh (x, 0) = ((ln (1 + x) - ln (1 - x)) / 2, 0)) /\
  (1 <= x -> cacosh (x, 0) = (ln (x + sqrt (x - 1) * sqrt (x + 1)), 0)).
Proof. intros x. exact (conj (catan_real x) (conj (casinh_real x) (conj (fun H => conj (casin_real x H) (conj (cacos_real x H) (catanh_real x H))) (cacosh_real x)))). Qed.
Check real_axis_inverse : forall x : R,
  catan (x, 0) = (atan x, 0) /\ casinh (x, 0) = (arcsinh x, 0) /\
  (-1 < x < 1 -> casin (x, 0) = (asin x, 0) /\ cacos (x, 0) = (acos x, 0) /\
                 catanh (x, 0) = ((ln (1 + x) - ln (1 - x)) / 2, 0)) /\
  (1 <= x -> cacosh (x, 0) = (ln (x + sqrt (x - 1) * sqrt (x + 1)), 0)).
Example real_axis_inverse_nonvacuous : -1 < 1 / 2 < 1 /\ 1 <= 2.
Proof. lra. Qed.

(* ---- reciprocal functions are reciprocals (sec, csc, cot, sech, csch, coth are cone / f in the model as in the source);
        tan, tanh are the quotients ---- *)
Theorem reciprocals : forall z : C,
  (ccos z <> czero -> cmul (csec z) (ccos z) = cone /\ cmul (ctan z) (ccos z) = csin z) /\
  (csin z <> czero -> cmul (ccsc z) (csin z) = cone) /\
  (ctan z <> czero -> cmul (ccot z) (ctan z) = cone) /\
  (ccosh z <> czero -> cmul (csech z) (ccosh z) = cone /\ cmul (ctanh z) (ccosh z) = csinh z) /\
  (csinh z <> czero -> cmul (ccsch z) (csinh z) = cone) /\
  (ctanh z <> czero -> cmul (ccoth z) (ctanh z) = cone).
Proof. intros z. exact (conj (fun H => conj (crecip_mul (ccos z) H) (ctan_is_quotient z H)) (conj (crecip_mul (csin z)) (conj (crecip_mul (ctan z)) (conj (fun H => conj (crecip_mul (ccosh z) H) (ctanh_is_quotient z H)) (conj (crecip_mul (csinh z)) (crecip_mul (ctanh z))))))). Qed.
Check reciprocals : forall z : C,
  (ccos z <> czero -> cmul (csec z) (ccos z) = cone /\ cmul (ctan z) (ccos z) = csin z) /\
  (csin z <> czero -> cmul (ccsc z) (csin z) = cone) /\
  (ctan z <> czero -> cmul (ccot z) (ctan z) = cone) /\
  (ccosh z <> czero -> cmul (csech z) (ccosh z) = cone /\ cmul (ctanh z) (ccosh z) = csinh z) /\
  (csinh z <> czero -> cmul (ccsch z) (csinh z) = cone) /\
  (ctanh z <> czero -> cmul (ccoth z) (ctanh z) = cone).
Example reciprocals_nonvacuous : ccos (0, 0) <> czero /\ ccosh (0, 0) <> czero.
Proof. rewrite ccos_real, ccosh_real, cos_0, cosh_0. split; intros H; inversion H; lra. Qed.

(* ---- right inverses: f (f^-1 z) = z ---- *)
Theorem sin_asin : forall z : C, csin (casin z) = z.
Proof. exact sin_asin_lemma. Qed.
Check sin_asin : forall z : C, csin (casin z) = z.

Theorem cos_acos : forall z : C, ccos (cacos z) = z.
Proof. exact cos_acos_lemma. Qed.
Check cos_acos : forall z : C, ccos (cacos z) = z.

Theorem tan_atan : forall z : C, z <> ci -> z <> cneg ci -> ctan (catan z) = z.
Proof. exact tan_atan_lemma. Qed.
Check tan_atan : forall z : C, z <> ci -> z <> cneg ci -> ctan (catan z) = z.
Example tan_atan_nonvacuous : (2, -3) <> ci /\ (2, -3) <> cneg ci.
Proof. split; intros H; inversion H; lra. Qed.

Theorem sinh_asinh : forall z : C, csinh (casinh z) = z.
Proof. exact sinh_asinh_lemma. Qed.
Check sinh_asinh : forall z : C, csinh (casinh z) = z.

Theorem cosh_acosh : forall z : C, ccosh (cacosh z) = z.
Proof. exact cosh_acosh_lemma. Qed.
Check cosh_acosh : forall z : C, ccosh (cacosh z) = z.

(* atanh is infinite at +-1 (atan at +-i): the hypotheses are necessary *)
Theorem tanh_atanh : forall z : C, z <> cone -> z <> cneg cone -> ctanh (catanh z) = z.
Proof. exact tanh_atanh_lemma. Qed.
Check tanh_atanh : forall z : C, z <> cone -> z <> cneg cone -> ctanh (catanh z) = z.
Example tanh_atanh_nonvacuous : (-2, 0) <> cone /\ (-2, 0) <> cneg cone.
Proof. split; intros H; inversion H; lra. Qed.

(* the six inverses defined through 1/z (asec, acsc, acot, asech, acsch, acoth) *)
Theorem reciprocal_right_inverses : forall z : C, z <> czero ->
  csec (casec z) = z /\ ccsc (cacsc z) = z /\ csech (casech z) = z /\ ccsch (cacsch z) = z /\
  (z <> ci -> z <> cneg ci -> ccot (cacot z) = z) /\
  (z <> cone -> z <> cneg cone -> ccoth (cacoth z) = z).
Proof. intros z Hz. exact (conj (sec_asec_lemma z Hz) (conj (csc_acsc_lemma z Hz) (conj (sech_asech_lemma z Hz) (conj (csch_acsch_lemma z Hz) (conj (cot_acot_lemma z Hz) (coth_acoth_lemma z Hz)))))). Qed.
Check reciprocal_right_inverses : forall z : C, z <> czero ->
  csec (casec z) = z /\ ccsc (cacsc z) = z /\ csech (casech z) = z /\ ccsch (cacsch z) = z /\
  (z <> ci -> z <> cneg ci -> ccot (cacot z) = z) /\
  (z <> cone -> z <> cneg cone -> ccoth (cacoth z) = z).
Example reciprocal_right_inverses_nonvacuous :
  (1 / 2, 1 / 2) <> czero /\ (1 / 2, 1 / 2) <> ci /\ (1 / 2, 1 / 2) <> cneg ci /\ (1 / 2, 1 / 2) <> cone /\ (1 / 2, 1 / 2) <> cneg cone.
Proof. repeat split; intros H; inversion H; lra. Qed.

(* ---- principal ranges of asin / acos (for every z, cuts included); asin z + acos z = PI/2 ---- *)
Theorem asin_acos_ranges : forall z : C,
  - (PI / 2) <= re (casin z) <= PI / 2 /\ 0 <= re (cacos z) <= PI /\ cadd (casin z) (cacos z) = (PI / 2, 0).
Proof. intros z. exact (conj (re_asin_range_lemma z) (conj (re_acos_range_lemma z) (asin_acos_sum z))). Qed.
Check asin_acos_ranges : forall z : C,
  - (PI / 2) <= re (casin z) <= PI / 2 /\ 0 <= re (cacos z) <= PI /\ cadd (casin z) (cacos z) = (PI / 2, 0).

(* ---- beyond the property text: ln and sqrt are also left inverses on their principal domains, and the base-b
        logarithm inverts the power: b^(log_b z) = z ---- *)
Theorem principal_left_inverses : forall z : C,
  (- PI < im z <= PI -> cln (cexp z) = z) /\
  (0 < re z -> csqrt (cmul z z) = z) /\
  (forall b : C, z <> czero -> b <> czero -> cln b <> czero -> cpow b (clog z b) = z).
Proof. intros z. exact (conj (ln_exp_lemma z) (conj (sqrt_of_sqr_lemma z) (fun b => pow_log_lemma z b))). Qed.
Check principal_left_inverses : forall z : C,
  (- PI < im z <= PI -> cln (cexp z) = z) /\
  (0 < re z -> csqrt (cmul z z) = z) /\
  (forall b : C, z <> czero -> b <> czero -> cln b <> czero -> cpow b (clog z b) = z).
Example principal_left_inverses_nonvacuous :
  - PI < im (3, - PI / 2) <= PI /\ 0 < re (2, 5) /\ (3, -3) <> czero /\ (2, 5) <> czero /\ cln (2, 0) <> czero.
Proof.
  pose proof PI_RGT_0 as Hpi. pose proof PI_4 as Hpi4. cbn [re im fst snd].
  split; [lra|]. split; [lra|].
  split; [intros H0; inversion H0; lra|]. split; [intros H0; inversion H0; lra|].
  rewrite cln_real by lra. intros H0. inversion H0 as [H1].
  assert (Hl : ln 1 < ln 2) by (apply ln_increasing; lra). rewrite ln_1 in Hl. lra.
Qed.

(* ---- assumption audit: one Print Assumptions per theorem, in the order of the theorems above ---- *)
Print Assumptions polar_decomp.
Print Assumptions exp_ln.
Print Assumptions sqrt_sqr.
Print Assumptions re_sqrt_nonneg.
Print Assumptions im_ln_range.
Print Assumptions pow_is_exp_ln.
Print Assumptions polar_roundtrip.
Print Assumptions polar_roundtrip_inv.
Print Assumptions exponential_forms.
Print Assumptions pythagoras.
Print Assumptions real_axis_direct.
Print Assumptions real_axis_ln_sqrt.
Print Assumptions real_axis_inverse.
Print Assumptions reciprocals.
Print Assumptions sin_asin.
Print Assumptions cos_acos.
Print Assumptions tan_atan.
Print Assumptions sinh_asinh.
Print Assumptions cosh_acosh.
Print Assumptions tanh_atanh.
Print Assumptions reciprocal_right_inverses.
Print Assumptions asin_acos_ranges.
Print Assumptions principal_left_inverses.

(* ---- tie to the source by proof: all 33 formulas regenerated from src/complex/{elementary,trigonometric,hyperbolic}.rs
   (+ abs, arg) on this run (gen/CFunOps.v, driver/translate.py) are convertible with Model/CFun.v (Proofs/CFunGen.v). *)
From OV Require Proofs.CFunGen.
Theorem model_is_source_C14 : CFunGen.model_is_source_CFun.
Proof. exact CFunGen.model_is_source_CFun_lemma. Qed.
Check model_is_source_C14 : CFunGen.model_is_source_CFun.
Print Assumptions model_is_source_C14.

(* ---- series half of C14 (package series): the model's exp / sinh / cosh / sin / cos ARE the sums of their defining
   power series, for every complex argument.  Vocabulary (Proofs/CFunSeries.v; pinned by series_vocabulary below):
   cpown z n = z^n and csum f N = sum_{n<=N} f n with the model's cmul / cadd (the formulas of src/complex/mod.rs),
   cpsum a z N = sum_{n<=N} a_n z^n, cconv s l = both components of s N converge (Un_cv) to those of l, which is the
   same as |s N - l| -> 0.  RtoC r = (r, 0).  Proof route: scaled binomial theorem in the ring C, the standard
   library's defining series of exp / cos / sin on the two axes, Mertens' theorem for the Cauchy product of absolutely
   convergent real series (Coquelicot is_series_mult), parity splitting, the rotation z |-> i z. *)
From OV Require Import Proofs.CFunSeries Proofs.CFunSeriesTrig Proofs.CFunSeriesAbs Proofs.CFunSeriesAll.

Theorem series_vocabulary :
  (forall z : C, cpown z 0 = cone) /\
  (forall (z : C) (n : nat), cpown z (S n) = cmul z (cpown z n)) /\
  (forall f : nat -> C, csum f 0 = f 0%nat) /\
  (forall (f : nat -> C) (N : nat), csum f (S N) = cadd (csum f N) (f (S N))) /\
  (forall (a : nat -> C) (z : C) (N : nat), cpsum a z N = csum (fun n => cmul (a n) (cpown z n)) N) /\
  (forall (s : nat -> C) (l : C),
     cconv s l <-> Un_cv (fun N => re (s N)) (re l) /\ Un_cv (fun N => im (s N)) (im l)) /\
  (forall (s : nat -> C) (l : C), cconv s l <-> Un_cv (fun N => cabs (csub (s N) l)) 0) /\
  (forall (s : nat -> C) (l l' : C), cconv s l -> cconv s l' -> l = l').
Proof. exact series_vocabulary_lemma. Qed.
Check series_vocabulary :
  (forall z : C, cpown z 0 = cone) /\
  (forall (z : C) (n : nat), cpown z (S n) = cmul z (cpown z n)) /\
  (forall f : nat -> C, csum f 0 = f 0%nat) /\
  (forall (f : nat -> C) (N : nat), csum f (S N) = cadd (csum f N) (f (S N))) /\
  (forall (a : nat -> C) (z : C) (N : nat), cpsum a z N = csum (fun n => cmul (a n) (cpown z n)) N) /\
  (forall (s : nat -> C) (l : C),
     cconv s l <-> Un_cv (fun N => re (s N)) (re l) /\ Un_cv (fun N => im (s N)) (im l)) /\
  (forall (s : nat -> C) (l : C), cconv s l <-> Un_cv (fun N => cabs (csub (s N) l)) 0) /\
  (forall (s : nat -> C) (l l' : C), cconv s l -> cconv s l' -> l = l').
Print Assumptions series_vocabulary.
(* non-vacuity of the uniqueness clause: a sequence that does converge (the exponential series at 1 + i), and the
   vocabulary computes what it should: the partial sum to N = 2 is 1 + z + z^2/2 *)
Example series_vocabulary_nonvacuous :
  cconv (cpsum (fun n => RtoC (/ INR (fact n))) (1, 1)) (cexp (1, 1)) /\
  forall z : C, cpsum (fun n => RtoC (/ INR (fact n))) z 2 = cadd (cadd cone z) (cmul (RtoC (1 / 2)) (cmul z z)).
Proof. exact (conj (proj1 (exp_series_lemma (1, 1))) exp_partial_sum_2). Qed.

(* exp z = sum_n z^n / n!  for every complex z, and the sum is nothing else *)
Theorem exp_series : forall z : C,
  cconv (cpsum (fun n => RtoC (/ INR (fact n))) z) (cexp z) /\
  (forall l : C, cconv (cpsum (fun n => RtoC (/ INR (fact n))) z) l -> l = cexp z).
Proof. exact exp_series_lemma. Qed.
Check exp_series : forall z : C,
  cconv (cpsum (fun n => RtoC (/ INR (fact n))) z) (cexp z) /\
  (forall l : C, cconv (cpsum (fun n => RtoC (/ INR (fact n))) z) l -> l = cexp z).
Print Assumptions exp_series.

(* the exponential series converges absolutely (sum |z^n/n!| = exp |z|); the truncation error after the term N is at most
   the tail of the real series at |z|, which is at most |z|^(N+1)/(N+1)! * exp |z|, which tends to 0 *)
Theorem exp_series_absolute : forall z : C,
  infinite_sum (fun n => cabs (cmul (RtoC (/ INR (fact n))) (cpown z n))) (exp (cabs z)) /\
  (forall N : nat,
     cabs (csub (cexp z) (cpsum (fun n => RtoC (/ INR (fact n))) z N))
     <= exp (cabs z) - sum_f_R0 (fun n => / INR (fact n) * cabs z ^ n) N
     <= cabs z ^ S N / INR (fact (S N)) * exp (cabs z)) /\
  Un_cv (fun N => cabs z ^ S N / INR (fact (S N)) * exp (cabs z)) 0.
Proof. exact exp_series_absolute_lemma. Qed.
Check exp_series_absolute : forall z : C,
  infinite_sum (fun n => cabs (cmul (RtoC (/ INR (fact n))) (cpown z n))) (exp (cabs z)) /\
  (forall N : nat,
     cabs (csub (cexp z) (cpsum (fun n => RtoC (/ INR (fact n))) z N))
     <= exp (cabs z) - sum_f_R0 (fun n => / INR (fact n) * cabs z ^ n) N
     <= cabs z ^ S N / INR (fact (S N)) * exp (cabs z)) /\
  Un_cv (fun N => cabs z ^ S N / INR (fact (S N)) * exp (cabs z)) 0.
Print Assumptions exp_series_absolute.

(* sinh z = sum_n z^(2n+1)/(2n+1)!,  cosh z = sum_n z^(2n)/(2n)! *)
Theorem hyperbolic_series : forall z : C,
  cconv (fun N => csum (fun n => cmul (RtoC (/ INR (fact (2 * n + 1)))) (cpown z (2 * n + 1))) N) (csinh z) /\
  cconv (fun N => csum (fun n => cmul (RtoC (/ INR (fact (2 * n)))) (cpown z (2 * n))) N) (ccosh z).
Proof. exact hyperbolic_series_lemma. Qed.
Check hyperbolic_series : forall z : C,
  cconv (fun N => csum (fun n => cmul (RtoC (/ INR (fact (2 * n + 1)))) (cpown z (2 * n + 1))) N) (csinh z) /\
  cconv (fun N => csum (fun n => cmul (RtoC (/ INR (fact (2 * n)))) (cpown z (2 * n))) N) (ccosh z).
Print Assumptions hyperbolic_series.

(* sin z = sum_n (-1)^n z^(2n+1)/(2n+1)!,  cos z = sum_n (-1)^n z^(2n)/(2n)! *)
Theorem trig_series : forall z : C,
  cconv (fun N => csum (fun n => cmul (RtoC ((-1) ^ n / INR (fact (2 * n + 1)))) (cpown z (2 * n + 1))) N) (csin z) /\
  cconv (fun N => csum (fun n => cmul (RtoC ((-1) ^ n / INR (fact (2 * n)))) (cpown z (2 * n))) N) (ccos z).
Proof. exact trig_series_lemma. Qed.
Check trig_series : forall z : C,
  cconv (fun N => csum (fun n => cmul (RtoC ((-1) ^ n / INR (fact (2 * n + 1)))) (cpown z (2 * n + 1))) N) (csin z) /\
  cconv (fun N => csum (fun n => cmul (RtoC ((-1) ^ n / INR (fact (2 * n)))) (cpown z (2 * n))) N) (ccos z).
Print Assumptions trig_series.

(* the same four as power series sum_n a_n z^n over every n (a_n = 0 at the other parity; Nat.div2 n = floor (n/2)):
   the whole sequence of partial sums converges *)
Theorem power_series_forms : forall z : C,
  cconv (cpsum (fun n => RtoC (if Nat.odd n then / INR (fact n) else 0)) z) (csinh z) /\
  cconv (cpsum (fun n => RtoC (if Nat.even n then / INR (fact n) else 0)) z) (ccosh z) /\
  cconv (cpsum (fun n => RtoC (if Nat.odd n then (-1) ^ Nat.div2 n / INR (fact n) else 0)) z) (csin z) /\
  cconv (cpsum (fun n => RtoC (if Nat.even n then (-1) ^ Nat.div2 n / INR (fact n) else 0)) z) (ccos z).
Proof. exact power_series_forms_lemma. Qed.
Check power_series_forms : forall z : C,
  cconv (cpsum (fun n => RtoC (if Nat.odd n then / INR (fact n) else 0)) z) (csinh z) /\
  cconv (cpsum (fun n => RtoC (if Nat.even n then / INR (fact n) else 0)) z) (ccosh z) /\
  cconv (cpsum (fun n => RtoC (if Nat.odd n then (-1) ^ Nat.div2 n / INR (fact n) else 0)) z) (csin z) /\
  cconv (cpsum (fun n => RtoC (if Nat.even n then (-1) ^ Nat.div2 n / INR (fact n) else 0)) z) (ccos z).
Print Assumptions power_series_forms.
