(* Props/C14.v -- stub, to be filled in *)
