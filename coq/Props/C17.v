(* Props/C17.v -- property theorems only: Theorem / exact lemma / Check (pins the statement) /
   Print Assumptions.  C17: Newton iteration (src/newton.rs; model: Model/Newton.v).

   All six solve methods are ONE loop [nloop step max_iter guess []] over a method-specific pass
   [step] (scalar_step / sys_step / sysjac_step; see the three `..._is_nloop` examples); the user
   function is an arbitrary [f : X -> res X] (it may panic) and NO law of the arithmetic is
   assumed in the termination half.  [NOps] collects what differs between f64 and Cmplx.

   Statements differ from DESIGN Appendix E where the model forces it: the model returns
   [res (result * call points)], so "evals (newton ...)" reads "newton ... = Ok (r, evs) ->";
   when the user function (or a guard of the step solver) panics the Rust code panics too and
   there is nothing to bound.  The iterate sequence is [niter step k guess] (stopping tests
   ignored).

   Not proved (gap, see driver/c17.py UNPROVED): convergence beyond the affine and x^2 - c families;
   float rounding (tie).  The "affine systems likewise" item of P2 is proved RELATIVE to the
   soundness of the step solver (C01's solve_basic_sound, another package), which enters as an
   explicit premise: newton_sys_affine_partial / newton_sysjac_affine_partial. *)
From Coq Require Import List Arith Reals Lra ZArith QArith Qcanon.
From OV Require Import Base.Panic Base.Arith Model.Vector Model.Matrix Model.Solve Model.Newton
  Proofs.Matrix Proofs.NewtonLoop Proofs.Newton Proofs.NewtonJac Proofs.NewtonSys Proofs.NewtonReal Inst.QcInst.
Import ListNotations.
Local Open Scope nat_scope.

Example newton_scalar_is_nloop : forall O c f,
  newton_scalar O c f = nloop (scalar_step O (tol c) (delta c) f) (max_iter c) (guess c) [].
Proof. reflexivity. Qed.
Example newton_sys_is_nloop : forall O c f,
  newton_sys O c f = nloop (sys_step O (tol c) (delta c) f) (max_iter c) (guess c) [].
Proof. reflexivity. Qed.
Example newton_sysjac_is_nloop : forall O c f jac,
  newton_sysjac O c f jac = nloop (sysjac_step O (tol c) f jac) (max_iter c) (guess c) [].
Proof. reflexivity. Qed.

(* ---- concrete runs at Qc used as non-vacuity witnesses: x^2 - 2 from 1 (delta 1/8), three
        passes: 1 -> 3/2 -> 17/12 -> 577/408; the third |dx| = 1/408 ---- *)
Definition fq (x : AQ) : res AQ := Ok (x * x - q 2 1)%Qc.
Definition cq (t : Qc) (n : nat) : ncfg (NR (NReal AQ)) (NA (NReal AQ)) := mkCfg t (q 1 8) n (q 1 1).

(* Err after three passes with tol = 1/1000: nine calls *)
Example newton_err_nonvacuous :
  exists x evs, newton_scalar (NReal AQ) (cq (q 1 1000) 3) fq = Ok (NErr x, evs) /\
                this x = (577 # 408)%Q /\ length evs = 9.
Proof. do 2 eexists. split; [vm_compute; reflexivity|]. vm_compute. auto. Qed.

(* Ok at the third pass with tol = 1/100 *)
Example newton_ok_nonvacuous :
  exists x evs, newton_scalar (NReal AQ) (cq (q 1 100) 5) fq = Ok (NOk x, evs) /\
                this x = (577 # 408)%Q /\ length evs = 9.
Proof. do 2 eexists. split; [vm_compute; reflexivity|]. vm_compute. auto. Qed.

(* a 2 x 2 affine system, finite-difference and supplied Jacobian: Ok at the second pass *)
Definition gq (v : list AQ) : res (list AQ) :=
  let* x := rd v 0 in let* y := rd v 1 in
  Ok [(q 2 1 * x + y - q 3 1)%Qc; (x + q 3 1 * y - q 5 1)%Qc].
Definition jq (v : list AQ) : res (matrix AQ) := Ok (@mkM AQ [q 2 1; q 1 1; q 1 1; q 3 1] 2 2).
Definition cq2 : ncfg (NR (NReal AQ)) (list (NA (NReal AQ))) := mkCfg (q 1 1000) (q 1 8) 5 [q 0 1; q 0 1].

Example newton_sys_nonvacuous :
  exists x evs, newton_sys (NReal AQ) cq2 gq = Ok (NOk x, evs) /\
                map this x = [4 # 5; 7 # 5]%Q /\ length evs = 8.
Proof. do 2 eexists. split; [vm_compute; reflexivity|]. vm_compute. auto. Qed.

Example newton_sysjac_nonvacuous :
  exists x evs, newton_sysjac (NReal AQ) cq2 gq jq = Ok (NOk x, evs) /\
                map this x = [4 # 5; 7 # 5]%Q /\
                length (filter is_CF evs) = 2 /\ length (filter is_CJ evs) = 2.
Proof. do 2 eexists. split; [vm_compute; reflexivity|]. vm_compute. auto. Qed.

(* ---------------- bounded work ---------------- *)
Theorem newton_scalar_bounded : forall (O : NOps) (c : ncfg (NR O) (NA O)) (f : NA O -> res (NA O)) r evs,
  newton_scalar O c f = Ok (r, evs) -> length evs <= 3 * max_iter c.
Proof. intros O c f r evs H. exact (newton_scalar_bounded_lemma O c f r evs H). Qed.
Check newton_scalar_bounded : forall (O : NOps) (c : ncfg (NR O) (NA O)) (f : NA O -> res (NA O)) r evs,
  newton_scalar O c f = Ok (r, evs) -> length evs <= 3 * max_iter c.
Print Assumptions newton_scalar_bounded.

Theorem newton_scalar_err_calls : forall (O : NOps) (c : ncfg (NR O) (NA O)) (f : NA O -> res (NA O)) x evs,
  newton_scalar O c f = Ok (NErr x, evs) -> length evs = 3 * max_iter c.
Proof. intros O c f x evs H. exact (newton_scalar_err_calls_lemma O c f x evs H). Qed.
Check newton_scalar_err_calls : forall (O : NOps) (c : ncfg (NR O) (NA O)) (f : NA O -> res (NA O)) x evs,
  newton_scalar O c f = Ok (NErr x, evs) -> length evs = 3 * max_iter c.
Print Assumptions newton_scalar_err_calls.

Theorem newton_sys_bounded : forall (O : NOps) (c : ncfg (NR O) (list (NA O))) (f : list (NA O) -> res (list (NA O))) r evs,
  newton_sys O c f = Ok (r, evs) -> length evs <= (length (guess c) + 2) * max_iter c.
Proof. intros O c f r evs H. exact (newton_sys_bounded_lemma O c f r evs H). Qed.
Check newton_sys_bounded : forall (O : NOps) (c : ncfg (NR O) (list (NA O))) (f : list (NA O) -> res (list (NA O))) r evs,
  newton_sys O c f = Ok (r, evs) -> length evs <= (length (guess c) + 2) * max_iter c.
Print Assumptions newton_sys_bounded.

Theorem newton_sysjac_bounded : forall (O : NOps) (c : ncfg (NR O) (list (NA O))) (f : list (NA O) -> res (list (NA O))) jac r evs,
  newton_sysjac O c f jac = Ok (r, evs) ->
  length (filter is_CF evs) <= max_iter c /\ length (filter is_CJ evs) <= max_iter c.
Proof. intros O c f jac r evs H. exact (newton_sysjac_bounded_lemma O c f jac r evs H). Qed.
Check newton_sysjac_bounded : forall (O : NOps) (c : ncfg (NR O) (list (NA O))) (f : list (NA O) -> res (list (NA O))) jac r evs,
  newton_sysjac O c f jac = Ok (r, evs) ->
  length (filter is_CF evs) <= max_iter c /\ length (filter is_CJ evs) <= max_iter c.
Print Assumptions newton_sysjac_bounded.

(* ---------------- Err carries the last iterate; the test failed at every pass ---------------- *)
Theorem newton_err_is_last : forall (X E : Type) (step : X -> res (X * bool * list E)) n x0 x evs,
  nloop step n x0 [] = Ok (NErr x, evs) ->
  niter step n x0 = Ok x /\
  forall k, k < n -> exists xk x' e, niter step k x0 = Ok xk /\ step xk = Ok (x', false, e).
Proof. intros X E step n x0 x evs H. exact (nloop_err step n x0 [] x evs H). Qed.
Check newton_err_is_last : forall (X E : Type) (step : X -> res (X * bool * list E)) n x0 x evs,
  nloop step n x0 [] = Ok (NErr x, evs) ->
  niter step n x0 = Ok x /\
  forall k, k < n -> exists xk x' e, niter step k x0 = Ok xk /\ step xk = Ok (x', false, e).
Print Assumptions newton_err_is_last.

(* ---------------- Ok x: the test held at the pass that produced x (and at none before) -------- *)
Theorem newton_ok_test_held : forall (X E : Type) (step : X -> res (X * bool * list E)) n x0 x evs,
  nloop step n x0 [] = Ok (NOk x, evs) ->
  exists k xk e, k < n /\ niter step k x0 = Ok xk /\ step xk = Ok (x, true, e) /\
    forall j, j < k -> exists xj x' e', niter step j x0 = Ok xj /\ step xj = Ok (x', false, e').
Proof. intros X E step n x0 x evs H. exact (nloop_ok step n x0 [] x evs H). Qed.
Check newton_ok_test_held : forall (X E : Type) (step : X -> res (X * bool * list E)) n x0 x evs,
  nloop step n x0 [] = Ok (NOk x, evs) ->
  exists k xk e, k < n /\ niter step k x0 = Ok xk /\ step xk = Ok (x, true, e) /\
    forall j, j < k -> exists xj x' e', niter step j x0 = Ok xj /\ step xj = Ok (x', false, e').
Print Assumptions newton_ok_test_held.

(* the stopping test of a system pass, spelled out: || f(x) ||_inf <= tol, and the new iterate is
   x - dx with dx the answer of solve_basic on the (finite-difference) Jacobian *)
Theorem sys_pass_spec : forall (O : NOps) tl dl (f : list (NA O) -> res (list (NA O))) x x' b e,
  sys_step O tl dl f x = Ok (x', b, e) ->
  exists fv maxres J jev dx,
    f x = Ok fv /\ norm_inf O fv = Ok maxres /\ jacobian O f x (emb O dl) = Ok (J, jev) /\
    solve_basic J fv = Ok dx /\ length dx = length x /\
    x' = zipw sub x dx /\ b = leb maxres tl /\ e = x :: jev.
Proof. intros O tl dl f x x' b e H. exact (sys_step_inv O tl dl f x x' b e H). Qed.
Check sys_pass_spec : forall (O : NOps) tl dl (f : list (NA O) -> res (list (NA O))) x x' b e,
  sys_step O tl dl f x = Ok (x', b, e) ->
  exists fv maxres J jev dx,
    f x = Ok fv /\ norm_inf O fv = Ok maxres /\ jacobian O f x (emb O dl) = Ok (J, jev) /\
    solve_basic J fv = Ok dx /\ length dx = length x /\
    x' = zipw sub x dx /\ b = leb maxres tl /\ e = x :: jev.
Print Assumptions sys_pass_spec.

(* the stopping test of a scalar pass, spelled out: |f(x) / ((f(x+d) - f(x-d)) / (2 d))| <= tol *)
Theorem scalar_pass_spec : forall (O : NOps) tl dl (f : NA O -> res (NA O)) x x' b e,
  scalar_step O tl dl f x = Ok (x', b, e) ->
  exists fp fm deriv fc dx,
    f (add x (emb O dl)) = Ok fp /\ f (sub x (emb O dl)) = Ok fm /\
    divr O (sub fp fm) (mul (two O) dl) = Ok deriv /\ f x = Ok fc /\ div fc deriv = Ok dx /\
    x' = sub x dx /\ b = leb (mag O dx) tl.
Proof. intros O tl dl f x x' b e H. exact (scalar_step_inv O tl dl f x x' b e H). Qed.
Check scalar_pass_spec : forall (O : NOps) tl dl (f : NA O -> res (NA O)) x x' b e,
  scalar_step O tl dl f x = Ok (x', b, e) ->
  exists fp fm deriv fc dx,
    f (add x (emb O dl)) = Ok fp /\ f (sub x (emb O dl)) = Ok fm /\
    divr O (sub fp fm) (mul (two O) dl) = Ok deriv /\ f x = Ok fc /\ div fc deriv = Ok dx /\
    x' = sub x dx /\ b = leb (mag O dx) tl.
Print Assumptions scalar_pass_spec.

(* ---------------- max_iter = 0 gives Err guess without a single call ---------------- *)
Theorem newton_zero_iter : forall (X E : Type) (step : X -> res (X * bool * list E)) x0,
  nloop step 0 x0 [] = Ok (NErr x0, []).
Proof. intros X E step x0. exact (nloop_zero step x0). Qed.
Check newton_zero_iter : forall (X E : Type) (step : X -> res (X * bool * list E)) x0,
  nloop step 0 x0 [] = Ok (NErr x0, []).
Print Assumptions newton_zero_iter.

(* ---------------- the result depends on (tol, delta, max_iter, guess) and on the function only
                    through its values at the call points ---------------- *)
Theorem newton_scalar_local : forall (O : NOps) (c : ncfg (NR O) (NA O)) (f g : NA O -> res (NA O)) r evs,
  newton_scalar O c f = Ok (r, evs) -> (forall p, In p evs -> f p = g p) ->
  newton_scalar O c g = Ok (r, evs).
Proof. intros O c f g r evs H Hin. exact (newton_scalar_local_lemma O c f g r evs H Hin). Qed.
Check newton_scalar_local : forall (O : NOps) (c : ncfg (NR O) (NA O)) (f g : NA O -> res (NA O)) r evs,
  newton_scalar O c f = Ok (r, evs) -> (forall p, In p evs -> f p = g p) ->
  newton_scalar O c g = Ok (r, evs).
Print Assumptions newton_scalar_local.

Theorem newton_sys_local : forall (O : NOps) (c : ncfg (NR O) (list (NA O))) (f g : list (NA O) -> res (list (NA O))) r evs,
  newton_sys O c f = Ok (r, evs) -> (forall p, In p evs -> f p = g p) ->
  newton_sys O c g = Ok (r, evs).
Proof. intros O c f g r evs H Hin. exact (newton_sys_local_lemma O c f g r evs H Hin). Qed.
Check newton_sys_local : forall (O : NOps) (c : ncfg (NR O) (list (NA O))) (f g : list (NA O) -> res (list (NA O))) r evs,
  newton_sys O c f = Ok (r, evs) -> (forall p, In p evs -> f p = g p) ->
  newton_sys O c g = Ok (r, evs).
Print Assumptions newton_sys_local.

Theorem newton_sysjac_local : forall (O : NOps) (c : ncfg (NR O) (list (NA O))) (f g : list (NA O) -> res (list (NA O))) jf jg r evs,
  newton_sysjac O c f jf = Ok (r, evs) ->
  (forall p, In (CF p) evs -> f p = g p) -> (forall p, In (CJ p) evs -> jf p = jg p) ->
  newton_sysjac O c g jg = Ok (r, evs).
Proof. intros O c f g jf jg r evs H Hf Hj. exact (newton_sysjac_local_lemma O c f g jf jg r evs H Hf Hj). Qed.
Check newton_sysjac_local : forall (O : NOps) (c : ncfg (NR O) (list (NA O))) (f g : list (NA O) -> res (list (NA O))) jf jg r evs,
  newton_sysjac O c f jf = Ok (r, evs) ->
  (forall p, In (CF p) evs -> f p = g p) -> (forall p, In (CJ p) evs -> jf p = jg p) ->
  newton_sysjac O c g jg = Ok (r, evs).
Print Assumptions newton_sysjac_local.

(* ---------------- affine systems over a field: an exact root after at most two passes ----------
   FULL statement wanted (DESIGN 7, C17 P2 "affine systems likewise"): for nonsingular M the
   solvers return Ok of the exact root of Mx + c.  PROVED here: whenever the run does not panic
   it returns Ok x with Mx + c = 0 componentwise, GIVEN the soundness statement of the step solver
   (solve_basic_sound_stmt = C01's solve_basic_sound).  GAP: (i) that premise is another package's
   theorem; (ii) absence of a zero-pivot panic for nonsingular M (C01's solve_complete) is not
   used, hence the "= Ok (r, evs) ->" form.  The order enters only through |0| < |0| = false and
   |0| <= tol.  (newton_sys_nonvacuous / newton_sysjac_nonvacuous above run such systems at Qc.) *)
Theorem newton_sys_affine_partial : forall (O : NOps), FieldLaws (NA O) ->
  forall (M : matrix (NA O)) (c0 : list (NA O)) (tl dl : NR O),
  wf M -> rows M = cols M -> emb O dl <> zero ->
  ltb (mag O zero) (mag O zero) = false -> leb (mag O zero) tl = true ->
  solve_basic_sound_stmt O ->
  forall n x0 r evs, length x0 = cols M -> 2 <= n ->
  newton_sys O (mkCfg tl dl n x0) (fun p => Ok (aff O M c0 p)) = Ok (r, evs) ->
  exists x, r = NOk x /\ is_root O M c0 x.
Proof.
  intros O FL M c0 tl dl HW Hsq Hd Hlt Hle Hs n x0 r evs L0 Hn H.
  exact (newton_sys_affine_lemma O FL M c0 tl dl HW Hsq Hd Hlt Hle Hs n x0 r evs L0 Hn H).
Qed.
Check newton_sys_affine_partial : forall (O : NOps), FieldLaws (NA O) ->
  forall (M : matrix (NA O)) (c0 : list (NA O)) (tl dl : NR O),
  wf M -> rows M = cols M -> emb O dl <> zero ->
  ltb (mag O zero) (mag O zero) = false -> leb (mag O zero) tl = true ->
  solve_basic_sound_stmt O ->
  forall n x0 r evs, length x0 = cols M -> 2 <= n ->
  newton_sys O (mkCfg tl dl n x0) (fun p => Ok (aff O M c0 p)) = Ok (r, evs) ->
  exists x, r = NOk x /\ is_root O M c0 x.
Print Assumptions newton_sys_affine_partial.

Theorem newton_sysjac_affine_partial : forall (O : NOps), FieldLaws (NA O) ->
  forall (M : matrix (NA O)) (c0 : list (NA O)) (tl dl : NR O),
  wf M -> rows M = cols M ->
  ltb (mag O zero) (mag O zero) = false -> leb (mag O zero) tl = true ->
  solve_basic_sound_stmt O ->
  forall n x0 r evs, length x0 = cols M -> 2 <= n ->
  newton_sysjac O (mkCfg tl dl n x0) (fun p => Ok (aff O M c0 p)) (fun _ => Ok M) = Ok (r, evs) ->
  exists x, r = NOk x /\ is_root O M c0 x.
Proof.
  intros O FL M c0 tl dl HW Hsq Hlt Hle Hs n x0 r evs L0 Hn H.
  exact (newton_sysjac_affine_lemma O FL M c0 tl dl HW Hsq Hlt Hle Hs n x0 r evs L0 Hn H).
Qed.
Check newton_sysjac_affine_partial : forall (O : NOps), FieldLaws (NA O) ->
  forall (M : matrix (NA O)) (c0 : list (NA O)) (tl dl : NR O),
  wf M -> rows M = cols M ->
  ltb (mag O zero) (mag O zero) = false -> leb (mag O zero) tl = true ->
  solve_basic_sound_stmt O ->
  forall n x0 r evs, length x0 = cols M -> 2 <= n ->
  newton_sysjac O (mkCfg tl dl n x0) (fun p => Ok (aff O M c0 p)) (fun _ => Ok M) = Ok (r, evs) ->
  exists x, r = NOk x /\ is_root O M c0 x.
Print Assumptions newton_sysjac_affine_partial.

(* a run of the model on such a system at Qc: [[2,1],[1,3]] x + [-3,-5], Ok of the exact root (4/5, 7/5) *)
Example newton_sys_affine_nonvacuous :
  let M := @mkM AQ [q 2 1; q 1 1; q 1 1; q 3 1] 2 2 in
  exists x evs, newton_sys (NReal AQ) cq2 (fun p => Ok (aff (NReal AQ) M [q (-3) 1; q (-5) 1] p)) = Ok (NOk x, evs) /\
                map this x = [4 # 5; 7 # 5]%Q /\
                map this (aff (NReal AQ) M [q (-3) 1; q (-5) 1] x) = [0 # 1; 0 # 1]%Q.
Proof. intros M. do 2 eexists. split; [vm_compute; reflexivity|]. vm_compute. auto. Qed.

(* ---------------- convergence over R: two families ----------------
   (their two Print Assumptions come after both Checks, at the end of the file: the driver's
   audit reads the axiom list of a theorem up to the next Print Assumptions output, and a Check
   output in between would be read as an axiom name) *)
Local Open Scope R_scope.

Theorem newton_affine_exact : forall (a b tl dl : R) (n : nat) (x0 : R),
  a <> 0 -> dl <> 0 -> 0 <= tl -> (2 <= n)%nat ->
  exists evs, newton_scalar NRl (mkCfg tl dl n x0) (fun x => Ok (a * x + b)) = Ok (NOk (- b / a), evs).
Proof. intros a b tl dl n x0 Ha Hd Ht Hn. exact (newton_affine_lemma a b tl dl Ha Hd n x0 Ht Hn). Qed.
Check newton_affine_exact : forall (a b tl dl : R) (n : nat) (x0 : R),
  a <> 0 -> dl <> 0 -> 0 <= tl -> (2 <= n)%nat ->
  exists evs, newton_scalar NRl (mkCfg tl dl n x0) (fun x => Ok (a * x + b)) = Ok (NOk (- b / a), evs).

Theorem newton_sqrt : forall (c tl dl : R) (n : nat) (x0 x : R) evs,
  0 < c -> dl <> 0 -> 0 < x0 ->
  newton_scalar NRl (mkCfg tl dl n x0) (fun x => Ok (x * x - c)) = Ok (NOk x, evs) ->
  Rabs (x - R_sqrt.sqrt c) <= tl.
Proof. intros c tl dl n x0 x evs Hc Hd H0 H. exact (newton_sqrt_lemma c tl dl Hc Hd n x0 x evs H0 H). Qed.
Check newton_sqrt : forall (c tl dl : R) (n : nat) (x0 x : R) evs,
  0 < c -> dl <> 0 -> 0 < x0 ->
  newton_scalar NRl (mkCfg tl dl n x0) (fun x => Ok (x * x - c)) = Ok (NOk x, evs) ->
  Rabs (x - R_sqrt.sqrt c) <= tl.

Example newton_affine_exact_nonvacuous :
  exists evs, newton_scalar NRl (mkCfg 0 1 2%nat 5) (fun x => Ok (2 * x + 6)) = Ok (NOk (- 6 / 2), evs).
Proof. apply newton_affine_exact; try lra; auto. Qed.

Example newton_sqrt_nonvacuous :
  exists evs, newton_scalar NRl (mkCfg 0 1 1%nat 2) (fun x => Ok (x * x - 4)) = Ok (NOk 2, evs).
Proof. exact newton_sqrt_witness. Qed.

Print Assumptions newton_affine_exact.
Print Assumptions newton_sqrt.
(* ---- tie of the model to the source of this run (package r2c2): gen/SrcNewton.v / gen/SrcNewtonC.v are regenerated from
   src/newton.rs and src/matrix/functions.rs by driver/rust2coq.py on every check run; Proofs/SrcEqNewton.v and
   Proofs/SrcEqNewtonC.v prove ERASURE -- each of the six regenerated solve methods and of the two finite-difference Jacobians
   equals the instrumented model of Model/Newton.v (at NReal A resp. NCplx S) with the recorded call points projected away,
   for every arithmetic, every configuration and every closure (an arbitrary function X -> res X); panics included. *)
From OV Require Proofs.SrcEqNewton.
Theorem model_is_source_C17_Newton : forall A : Arith, @SrcEqNewton.model_is_source_Newton A.
Proof. intros A. exact SrcEqNewton.model_is_source_Newton_lemma. Qed.
Check model_is_source_C17_Newton : forall A : Arith, @SrcEqNewton.model_is_source_Newton A.
Print Assumptions model_is_source_C17_Newton.
From OV Require Proofs.SrcEqNewtonC.
Theorem model_is_source_C17_NewtonC : forall S : SArith, @SrcEqNewtonC.model_is_source_NewtonC S.
Proof. intros S. exact SrcEqNewtonC.model_is_source_NewtonC_lemma. Qed.
Check model_is_source_C17_NewtonC : forall S : SArith, @SrcEqNewtonC.model_is_source_NewtonC S.
Print Assumptions model_is_source_C17_NewtonC.
(* ---- tie of the model to the source of this run (package r2c2): gen/SrcWrapNewton.v is regenerated on every check run from
   src/newton.rs: the setters tolerance / delta / iterations / guess and parameters;
   Proofs/SrcEqWrapNewton.v proves each regenerated function equal to its hand-written model. *)
From OV Require Proofs.SrcEqWrapNewton.
Theorem model_is_source_C17_WrapNewton : forall A : Arith, @SrcEqWrapNewton.model_is_source_WrapNewton A.
Proof. intros A. exact SrcEqWrapNewton.model_is_source_WrapNewton_lemma. Qed.
Check model_is_source_C17_WrapNewton : forall A : Arith, @SrcEqWrapNewton.model_is_source_WrapNewton A.
Print Assumptions model_is_source_C17_WrapNewton.
(* ---- the callee Vec64::norm_inf of the vector solvers: the regenerated function (gen/SrcVec64.v, f64::abs instantiated by
   the arithmetic's abs) is the loop formulation Newton.norm_inf (NReal _) the Newton model calls *)
Theorem model_is_source_C17_norm_inf : forall (F : SArith) (v : list (T (SA F))),
  OV.gen.SrcVec64.s_norm_inf (@OV.Base.Arith.abs (SA F)) v = OV.Model.Newton.norm_inf (OV.Model.Newton.NReal (SA F)) v.
Proof. intros F v. exact (SrcEqNewton.callee_norm_inf v). Qed.
Check model_is_source_C17_norm_inf : forall (F : SArith) (v : list (T (SA F))),
  OV.gen.SrcVec64.s_norm_inf (@OV.Base.Arith.abs (SA F)) v = OV.Model.Newton.norm_inf (OV.Model.Newton.NReal (SA F)) v.
Print Assumptions model_is_source_C17_norm_inf.
(* non-vacuity: the regenerated Newton<f64>::solve runs (float instance, f(x) = x*x - 2 from x0 = 1) and returns Ok(sqrt 2) *)
From Coq Require Import Floats.
From OV Require Import Inst.FloatInst.
Example model_is_source_C17_Newton_nonvacuous :
  SrcNewton.s_newton_solve_f64 (A:=AF) (@mkCfg (T AF) (T AF) 0x1p-30%float 0x1p-27%float 20 1%float) (fun x : T AF => Ok (x*x - 2)%float)
  = Ok (NOk 0x1.6a09e667f3bcdp+0%float).
Proof. vm_compute. reflexivity. Qed.
