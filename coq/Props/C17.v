(* Props/C17.v -- stub, to be filled in *)
