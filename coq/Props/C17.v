(* Props/C17.v -- property theorems only: Theorem / exact lemma / Check (pins the statement) /
   Print Assumptions.  C17: Newton iteration (src/newton.rs; model: Model/Newton.v).

   All six solve methods are ONE loop [nloop step max_iter guess []] over a method-specific pass
   [step] (scalar_step / sys_step / sysjac_step; see the three `..._is_nloop` examples); the user
   function is an arbitrary [f : X -> res X] (it may panic) and NO law of the arithmetic is
   assumed in the termination half.  [NOps] collects what differs between f64 and Cmplx.

   Statements differ from DESIGN Appendix E where the model forces it: the model returns
   [res (result * call points)], so "evals (newton ...)" reads "newton ... = Ok (r, evs) ->";
   when the user function (or a guard of the step solver) panics the Rust code panics too and
   there is nothing to bound.  The iterate sequence is [niter step k guess] (stopping tests
   ignored).

   Not proved (gap, see driver/c17.py UNPROVED): convergence beyond the affine and x^2 - c families;
   float rounding (tie).  The "affine systems likewise" item of P2 is proved RELATIVE to the
   soundness of the step solver (C01's solve_basic_sound, another package), which enters as an
   explicit premise: newton_sys_affine_partial / newton_sysjac_affine_partial. *)
From Coq Require Import List Arith Reals Lra ZArith QArith Qcanon.
From OV Require Import Base.Panic Base.Arith Model.Vector Model.Matrix Model.Solve Model.Newton
  Proofs.Matrix Proofs.NewtonLoop Proofs.Newton Proofs.NewtonJac Proofs.NewtonSys Proofs.NewtonReal Inst.QcInst.
Import ListNotations.
Local Open Scope nat_scope.

Example newton_scalar_is_nloop : forall O c f,
  newton_scalar O c f = nloop (scalar_step O (tol c) (delta c) f) (max_iter c) (guess c) [].
Proof. reflexivity. Qed.
Example newton_sys_is_nloop : forall O c f,
  newton_sys O c f = nloop (sys_step O (tol c) (delta c) f) (max_iter c) (guess c) [].
Proof. reflexivity. Qed.
Example newton_sysjac_is_nloop : forall O c f jac,
  newton_sysjac O c f jac = nloop (sysjac_step O (tol c) f jac) (max_iter c) (guess c) [].
Proof. reflexivity. Qed.

(* ---- concrete runs at Qc used as non-vacuity witnesses: x^2 - 2 from 1 (delta 1/8), three
        passes: 1 -> 3/2 -> 17/12 -> 577/408; the third |dx| = 1/408 ---- *)
Definition fq (x : AQ) : res AQ := Ok (x * x - q 2 1)%Qc.
Definition cq (t : Qc) (n : nat) : ncfg (NR (NReal AQ)) (NA (NReal AQ)) := mkCfg t (q 1 8) n (q 1 1).

(* Err after three passes with tol = 1/1000: nine calls *)
Example newton_err_nonvacuous :
  exists x evs, newton_scalar (NReal AQ) (cq (q 1 1000) 3) fq = Ok (NErr x, evs) /\
                this x = (577 # 408)%Q /\ length evs = 9.
Proof. do 2 eexists. split; [vm_compute; reflexivity|]. vm_compute. auto. Qed.

(* Ok at the third pass with tol = 1/100 *)
Example newton_ok_nonvacuous :
  exists x evs, newton_scalar (NReal AQ) (cq (q 1 100) 5) fq = Ok (NOk x, evs) /\
                this x = (577 # 408)%Q /\ length evs = 9.
Proof. do 2 eexists. split; [vm_compute; reflexivity|]. vm_compute. auto. Qed.

(* a 2 x 2 affine system, finite-difference and supplied Jacobian: Ok at the second pass *)
Definition gq (v : list AQ) : res (list AQ) :=
  let* x := rd v 0 in let* y := rd v 1 in
  Ok [(q 2 1 * x + y - q 3 1)%Qc; (x + q 3 1 * y - q 5 1)%Qc].
Definition jq (v : list AQ) : res (matrix AQ) := Ok (@mkM AQ [q 2 1; q 1 1; q 1 1; q 3 1] 2 2).
Definition cq2 : ncfg (NR (NReal AQ)) (list (NA (NReal AQ))) := mkCfg (q 1 1000) (q 1 8) 5 [q 0 1; q 0 1].

Example newton_sys_nonvacuous :
  exists x evs, newton_sys (NReal AQ) cq2 gq = Ok (NOk x, evs) /\
                map this x = [4 # 5; 7 # 5]%Q /\ length evs = 8.
Proof. do 2 eexists. split; [vm_compute; reflexivity|]. vm_compute. auto. Qed.

Example newton_sysjac_nonvacuous :
  exists x evs, newton_sysjac (NReal AQ) cq2 gq jq = Ok (NOk x, evs) /\
                map this x = [4 # 5; 7 # 5]%Q /\
                length (filter is_CF evs) = 2 /\ length (filter is_CJ evs) = 2.
Proof. do 2 eexists. split; [vm_compute; reflexivity|]. vm_compute. auto. Qed.

(* ---------------- bounded work ---------------- *)
Theorem newton_scalar_bounded : forall (O : NOps) (c : ncfg (NR O) (NA O)) (f : NA O -> res (NA O)) r evs,
  newton_scalar O c f = Ok (r, evs) -> length evs <= 3 * max_iter c.
Proof. intros O c f r evs H. exact (newton_scalar_bounded_lemma O c f r evs H). Qed.
Check newton_scalar_bounded : forall (O : NOps) (c : ncfg (NR O) (NA O)) (f : NA O -> res (NA O)) r evs,
  newton_scalar O c f = Ok (r, evs) -> length evs <= 3 * max_iter c.
Print Assumptions newton_scalar_bounded.

Theorem newton_scalar_err_calls : forall (O : NOps) (c : ncfg (NR O) (NA O)) (f : NA O -> res (NA O)) x evs,
  newton_scalar O c f = Ok (NErr x, evs) -> length evs = 3 * max_iter c.
Proof. intros O c f x evs H. exact (newton_scalar_err_calls_lemma O c f x evs H). Qed.
Check newton_scalar_err_calls : forall (O : NOps) (c : ncfg (NR O) (NA O)) (f : NA O -> res (NA O)) x evs,
  newton_scalar O c f = Ok (NErr x, evs) -> length evs = 3 * max_iter c.
Print Assumptions newton_scalar_err_calls.

Theorem newton_sys_bounded : forall (O : NOps) (c : ncfg (NR O) (list (NA O))) (f : list (NA O) -> res (list (NA O))) r evs,
  newton_sys O c f = Ok (r, evs) -> length evs <= (length (guess c) + 2) * max_iter c.
Proof. intros O c f r evs H. exact (newton_sys_bounded_lemma O c f r evs H). Qed.
Check newton_sys_bounded : forall (O : NOps) (c : ncfg (NR O) (list (NA O))) (f : list (NA O) -> res (list (NA O))) r evs,
  newton_sys O c f = Ok (r, evs) -> length evs <= (length (guess c) + 2) * max_iter c.
Print Assumptions newton_sys_bounded.

Theorem newton_sysjac_bounded : forall (O : NOps) (c : ncfg (NR O) (list (NA O))) (f : list (NA O) -> res (list (NA O))) jac r evs,
  newton_sysjac O c f jac = Ok (r, evs) ->
  length (filter is_CF evs) <= max_iter c /\ length (filter is_CJ evs) <= max_iter c.
Proof. intros O c f jac r evs H. exact (newton_sysjac_bounded_lemma O c f jac r evs H). Qed.
Check newton_sysjac_bounded : forall (O : NOps) (c : ncfg (NR O) (list (NA O))) (f : list (NA O) -> res (list (NA O))) jac r evs,
  newton_sysjac O c f jac = Ok (r, evs) ->
  length (filter is_CF evs) <= max_iter c /\ length (filter is_CJ evs) <= max_iter c.
Print Assumptions newton_sysjac_bounded.

(* ---------------- Err carries the last iterate; the test failed at every pass ---------------- *)
Theorem newton_err_is_last : forall (X E : Type) (step : X -> res (X * bool * list E)) n x0 x evs,
  nloop step n x0 [] = Ok (NErr x, evs) ->
  niter step n x0 = Ok x /\
  forall k, k < n -> exists xk x' e, niter step k x0 = Ok xk /\ step xk = Ok (x', false, e).
Proof. intros X E step n x0 x evs H. exact (nloop_err step n x0 [] x evs H). Qed.
Check newton_err_is_last : forall (X E : Type) (step : X -> res (X * bool * list E)) n x0 x evs,
  nloop step n x0 [] = Ok (NErr x, evs) ->
  niter step n x0 = Ok x /\
  forall k, k < n -> exists xk x' e, niter step k x0 = Ok xk /\ step xk = Ok (x', false, e).
Print Assumptions newton_err_is_last.

(* ---------------- Ok x: the test held at the pass that produced x (and at none before) -------- *)
Theorem newton_ok_test_held : forall (X E : Type) (step : X -> res (X * bool * list E)) n x0 x evs,
  nloop step n x0 [] = Ok (NOk x, evs) ->
  exists k xk e, k < n /\ niter step k x0 = Ok xk /\ step xk = Ok (x, true, e) /\
    forall j, j < k -> exists xj x' e', niter step j x0 = Ok xj /\ step xj = Ok (x', false, e').
Proof. intros X E step n x0 x evs H. exact (nloop_ok step n x0 [] x evs H). Qed.
Check newton_ok_test_held : forall (X E : Type) (step : X -> res (X * bool * list E)) n x0 x evs,
  nloop step n x0 [] = Ok (NOk x, evs) ->
  exists k xk e, k < n /\ niter step k x0 = Ok xk /\ step xk = Ok (x, true, e) /\
    forall j, j < k -> exists xj x' e', niter step j x0 = Ok xj /\ step xj = Ok (x', false, e').
Print Assumptions newton_ok_test_held.

(* the stopping test of a system pass, spelled out: || f(x) ||_inf <= tol, and the new iterate is
   x - dx with dx the answer of solve_basic on the (finite-difference) Jacobian *)
Theorem sys_pass_spec : forall (O : NOps) tl dl (f : list (NA O) -> res (list (NA O))) x x' b e,
  sys_step O tl dl f x = Ok (x', b, e) ->
  exists fv maxres J jev dx,
    f x = Ok fv /\ norm_inf O fv = Ok maxres /\ jacobian O f x (emb O dl) = Ok (J, jev) /\
    solve_basic J fv = Ok dx /\ length dx = length x /\
    x' = zipw sub x dx /\ b = leb maxres tl /\ e = x :: jev.
Proof. intros O tl dl f x x' b e H. exact (sys_step_inv O tl dl f x x' b e H). Qed.
Check sys_pass_spec : forall (O : NOps) tl dl (f : list (NA O) -> res (list (NA O))) x x' b e,
  sys_step O tl dl f x = Ok (x', b, e) ->
  exists fv maxres J jev dx,
    f x = Ok fv /\ norm_inf O fv = Ok maxres /\ jacobian O f x (emb O dl) = Ok (J, jev) /\
    solve_basic J fv = Ok dx /\ length dx = length x /\
    x' = zipw sub x dx /\ b = leb maxres tl /\ e = x :: jev.
Print Assumptions sys_pass_spec.

(* the stopping test of a scalar pass, spelled out: |f(x) / ((f(x+d) - f(x-d)) / (2 d))| <= tol *)
Theorem scalar_pass_spec : forall (O : NOps) tl dl (f : NA O -> res (NA O)) x x' b e,
  scalar_step O tl dl f x = Ok (x', b, e) ->
  exists fp fm deriv fc dx,
    f (add x (emb O dl)) = Ok fp /\ f (sub x (emb O dl)) = Ok fm /\
    divr O (sub fp fm) (mul (two O) dl) = Ok deriv /\ f x = Ok fc /\ div fc deriv = Ok dx /\
    x' = sub x dx /\ b = leb (mag O dx) tl.
Proof. intros O tl dl f x x' b e H. exact (scalar_step_inv O tl dl f x x' b e H). Qed.
Check scalar_pass_spec : forall (O : NOps) tl dl (f : NA O -> res (NA O)) x x' b e,
  scalar_step O tl dl f x = Ok (x', b, e) ->
  exists fp fm deriv fc dx,
    f (add x (emb O dl)) = Ok fp /\ f (sub x (emb O dl)) = Ok fm /\
    divr O (sub fp fm) (mul (two O) dl) = Ok deriv /\ f x = Ok fc /\ div fc deriv = Ok dx /\
    x' = sub x dx /\ b = leb (mag O dx) tl.
Print Assumptions scalar_pass_spec.

(* ---------------- max_iter = 0 gives Err guess without a single call ---------------- *)
Theorem newton_zero_iter : forall (X E : Type) (step : X -> res (X * bool * list E)) x0,
  nloop step 0 x0 [] = Ok (NErr x0, []).
Proof. intros X E step x0. exact (nloop_zero step x0). Qed.
Check newton_zero_iter : forall (X E : Type) (step : X -> res (X * bool * list E)) x0,
  nloop step 0 x0 [] = Ok (NErr x0, []).
Print Assumptions newton_zero_iter.

(* ---------------- the result depends on (tol, delta, max_iter, guess) and on the function only
                    through its values at the call points ---------------- *)
Theorem newton_scalar_local : forall (O : NOps) (c : ncfg (NR O) (NA O)) (f g : NA O -> res (NA O)) r evs,
  newton_scalar O c f = Ok (r, evs) -> (forall p, In p evs -> f p = g p) ->
  newton_scalar O c g = Ok (r, evs).
Proof. intros O c f g r evs H Hin. exact (newton_scalar_local_lemma O c f g r evs H Hin). Qed.
Check newton_scalar_local : forall (O : NOps) (c : ncfg (NR O) (NA O)) (f g : NA O -> res (NA O)) r evs,
  newton_scalar O c f = Ok (r, evs) -> (forall p, In p evs -> f p = g p) ->
  newton_scalar O c g = Ok (r, evs).
Print Assumptions newton_scalar_local.

Theorem newton_sys_local : forall (O : NOps) (c : ncfg (NR O) (list (NA O))) (f g : list (NA O) -> res (list (NA O))) r evs,
  newton_sys O c f = Ok (r, evs) -> (forall p, In p evs -> f p = g p) ->
  newton_sys O c g = Ok (r, evs).
Proof. intros O c f g r evs H Hin. exact (newton_sys_local_lemma O c f g r evs H Hin). Qed.
Check newton_sys_local : forall (O : NOps) (c : ncfg (NR O) (list (NA O))) (f g : list (NA O) -> res (list (NA O))) r evs,
  newton_sys O c f = Ok (r, evs) -> (forall p, In p evs -> f p = g p) ->
  newton_sys O c g = Ok (r, evs).
Print Assumptions newton_sys_local.

Theorem newton_sysjac_local : forall (O : NOps) (c : ncfg (NR O) (list (NA O))) (f g : list (NA O) -> res (list (NA O))) jf jg r evs,
  newton_sysjac O c f jf = Ok (r, evs) ->
  (forall p, In (CF p) evs -> f p = g p) -> (forall p, In (CJ p) evs -> jf p = jg p) ->
  newton_sysjac O c g jg = Ok (r, evs).
Proof. intros O c f g jf jg r evs H Hf Hj. exact (newton_sysjac_local_lemma O c f g jf jg r evs H Hf Hj). Qed.
Check newton_sysjac_local : forall (O : NOps) (c : ncfg (NR O) (list (NA O))) (f g : list (NA O) -> res (list (NA O))) jf jg r evs,
  newton_sysjac O c f jf = Ok (r, evs) ->
  (forall p, In (CF p) evs -> f p = g p) -> (forall p, In (CJ p) evs -> jf p = jg p) ->
  newton_sysjac O c g jg = Ok (r, evs).
Print Assumptions newton_sysjac_local.

(* ---------------- affine systems over a field: an exact root after at most two passes ----------
   FULL statement wanted (DESIGN 7, C17 P2 "affine systems likewise"): for nonsingular M the
   solvers return Ok of the exact root of Mx + c.  PROVED here: whenever the run does not panic
   it returns Ok x with Mx + c = 0 componentwise, GIVEN the soundness statement of the step solver
   (solve_basic_sound_stmt = C01's solve_basic_sound).  GAP: (i) that premise is another package's
   theorem; (ii) absence of a zero-pivot panic for nonsingular M (C01's solve_complete) is not
   used, hence the "= Ok (r, evs) ->" form.  The order enters only through |0| < |0| = false and
   |0| <= tol.  (newton_sys_nonvacuous / newton_sysjac_nonvacuous above run such systems at Qc.) *)
Theorem newton_sys_affine_partial : forall (O : NOps), FieldLaws (NA O) ->
  forall (M : matrix (NA O)) (c0 : list (NA O)) (tl dl : NR O),
  wf M -> rows M = cols M -> emb O dl <> zero ->
  ltb (mag O zero) (mag O zero) = false -> leb (mag O zero) tl = true ->
  solve_basic_sound_stmt O ->
  forall n x0 r evs, length x0 = cols M -> 2 <= n ->
  newton_sys O (mkCfg tl dl n x0) (fun p => Ok (aff O M c0 p)) = Ok (r, evs) ->
  exists x, r = NOk x /\ is_root O M c0 x.
Proof.
  intros O FL M c0 tl dl HW Hsq Hd Hlt Hle Hs n x0 r evs L0 Hn H.
  exact (newton_sys_affine_lemma O FL M c0 tl dl HW Hsq Hd Hlt Hle Hs n x0 r evs L0 Hn H).
Qed.
Check newton_sys_affine_partial : forall (O : NOps), FieldLaws (NA O) ->
  forall (M : matrix (NA O)) (c0 : list (NA O)) (tl dl : NR O),
  wf M -> rows M = cols M -> emb O dl <> zero ->
  ltb (mag O zero) (mag O zero) = false -> leb (mag O zero) tl = true ->
  solve_basic_sound_stmt O ->
  forall n x0 r evs, length x0 = cols M -> 2 <= n ->
  newton_sys O (mkCfg tl dl n x0) (fun p => Ok (aff O M c0 p)) = Ok (r, evs) ->
  exists x, r = NOk x /\ is_root O M c0 x.
Print Assumptions newton_sys_affine_partial.

Theorem newton_sysjac_affine_partial : forall (O : NOps), FieldLaws (NA O) ->
  forall (M : matrix (NA O)) (c0 : list (NA O)) (tl dl : NR O),
  wf M -> rows M = cols M ->
  ltb (mag O zero) (mag O zero) = false -> leb (mag O zero) tl = true ->
  solve_basic_sound_stmt O ->
  forall n x0 r evs, length x0 = cols M -> 2 <= n ->
  newton_sysjac O (mkCfg tl dl n x0) (fun p => Ok (aff O M c0 p)) (fun _ => Ok M) = Ok (r, evs) ->
  exists x, r = NOk x /\ is_root O M c0 x.
Proof.
  intros O FL M c0 tl dl HW Hsq Hlt Hle Hs n x0 r evs L0 Hn H.
  exact (newton_sysjac_affine_lemma O FL M c0 tl dl HW Hsq Hlt Hle Hs n x0 r evs L0 Hn H).
Qed.
Check newton_sysjac_affine_partial : forall (O : NOps), FieldLaws (NA O) ->
  forall (M : matrix (NA O)) (c0 : list (NA O)) (tl dl : NR O),
  wf M -> rows M = cols M ->
  ltb (mag O zero) (mag O zero) = false -> leb (mag O zero) tl = true ->
  solve_basic_sound_stmt O ->
  forall n x0 r evs, length x0 = cols M -> 2 <= n ->
  newton_sysjac O (mkCfg tl dl n x0) (fun p => Ok (aff O M c0 p)) (fun _ => Ok M) = Ok (r, evs) ->
  exists x, r = NOk x /\ is_root O M c0 x.
Print Assumptions newton_sysjac_affine_partial.

(* a run of the model on such a system at Qc: [[2,1],[1,3]] x + [-3,-5], Ok of the exact root (4/5, 7/5) *)
Example newton_sys_affine_nonvacuous :
  let M := @mkM AQ [q 2 1; q 1 1; q 1 1; q 3 1] 2 2 in
  exists x evs, newton_sys (NReal AQ) cq2 (fun p => Ok (aff (NReal AQ) M [q (-3) 1; q (-5) 1] p)) = Ok (NOk x, evs) /\
                map this x = [4 # 5; 7 # 5]%Q /\
                map this (aff (NReal AQ) M [q (-3) 1; q (-5) 1] x) = [0 # 1; 0 # 1]%Q.
Proof. intros M. do 2 eexists. split; [vm_compute; reflexivity|]. vm_compute. auto. Qed.

(* ---------------- convergence over R: two families ----------------
   (their two Print Assumptions come after both Checks, at the end of the file: the driver's
   audit reads the axiom list of a theorem up to the next Print Assumptions output, and a Check
   output in between would be read as an axiom name) *)
Local Open Scope R_scope.

Theorem newton_affine_exact : forall (a b tl dl : R) (n : nat) (x0 : R),
  a <> 0 -> dl <> 0 -> 0 <= tl -> (2 <= n)%nat ->
  exists evs, newton_scalar NRl (mkCfg tl dl n x0) (fun x => Ok (a * x + b)) = Ok (NOk (- b / a), evs).
Proof. intros a b tl dl n x0 Ha Hd Ht Hn. exact (newton_affine_lemma a b tl dl Ha Hd n x0 Ht Hn). Qed.
Check newton_affine_exact : forall (a b tl dl : R) (n : nat) (x0 : R),
  a <> 0 -> dl <> 0 -> 0 <= tl -> (2 <= n)%nat ->
  exists evs, newton_scalar NRl (mkCfg tl dl n x0) (fun x => Ok (a * x + b)) = Ok (NOk (- b / a), evs).

Theorem newton_sqrt : forall (c tl dl : R) (n : nat) (x0 x : R) evs,
  0 < c -> dl <> 0 -> 0 < x0 ->
  newton_scalar NRl (mkCfg tl dl n x0) (fun x => Ok (x * x - c)) = Ok (NOk x, evs) ->
  Rabs (x - R_sqrt.sqrt c) <= tl.
Proof. intros c tl dl n x0 x evs Hc Hd H0 H. exact (newton_sqrt_lemma c tl dl Hc Hd n x0 x evs H0 H). Qed.
Check newton_sqrt : forall (c tl dl : R) (n : nat) (x0 x : R) evs,
  0 < c -> dl <> 0 -> 0 < x0 ->
  newton_scalar NRl (mkCfg tl dl n x0) (fun x => Ok (x * x - c)) = Ok (NOk x, evs) ->
  Rabs (x - R_sqrt.sqrt c) <= tl.

Example newton_affine_exact_nonvacuous :
  exists evs, newton_scalar NRl (mkCfg 0 1 2%nat 5) (fun x => Ok (2 * x + 6)) = Ok (NOk (- 6 / 2), evs).
Proof. apply newton_affine_exact; try lra; auto. Qed.

Example newton_sqrt_nonvacuous :
  exists evs, newton_scalar NRl (mkCfg 0 1 1%nat 2) (fun x => Ok (x * x - 4)) = Ok (NOk 2, evs).
Proof. exact newton_sqrt_witness. Qed.

Print Assumptions newton_affine_exact.
Print Assumptions newton_sqrt.
(* ======================================================================================
   C17, round two (package newton2) -- to be appended at the END of Props/C17.v.

   What is added to the success half of C17 ("inside its basin of quadratic convergence the
   solver returns Ok at a distance of the order of the tolerance from the root"):

   A. affine systems, the `_partial` premise discharged (C01: solve_basic_sound + solve_basic_complete
      + solutions_unique): newton_sys_affine / newton_sysjac_affine -- no panic, Ok of THE root
      within two passes, over any FieldLaws + PivLaws arithmetic; corollaries at Qc, R and C.
   B. general differentiable f over R (on [a,b]: f' exists, 0 < m <= |f'| <= Mb, f' L-Lipschitz),
      the code's finite-difference scalar solve (newton_scalar at NRl):
        newton_ok_near_root_general   "Ok => distance of the order of tol" : covers the SECOND half
                                      of the sentence (given the last pass lay in [a,b]);
        newton_basin_no_panic / _contraction / _ok / _pass_count
                                      "inside the basin => Ok": covers the FIRST half, the basin being
                                      |x0 - r| <= rho with (L/m)(rho + |delta|) < 1.
   C. the supplied-derivative variant on a 1 x 1 system (newton_sysjac at NRl, exact f'):
        newton_quadratic_step         one-step inequality |x' - r| <= (L/m) |x - r|^2;
        newton_monotone_*             convex increasing f from the right of the root: no panic,
                                      monotone iterates, Ok within an explicit number of passes,
                                      0 <= x - r <= tol / f'(r)  (both halves, global basin).
   D. further variants and the sharpness of the hypotheses:
        newton_sqrt_converges         x^2 - c from ANY x0 > 0: Ok as soon as (max_iter - 1) tol > (x0 + c/x0)/2 - sqrt c
                                      (completes newton_sqrt: first half of the sentence, basin = half line);
        central_difference_truncation / scalar_derivative_truncation
                                      the slope of the scalar pass is within (delta^2/6) sup|f^(3)| of f'(y);
        newton_scalar_affine_exact / newton_affine_exact_C
                                      the scalar solve on a z + b over any field, and Newton<Cmplx>::solve;
        newton_sys1d_ok_near_root / newton_sys1d_basin_no_panic / newton_sys1d_basin_ok
                                      the finite-difference SYSTEM solve (func, norm_inf, Mat64::jacobian,
                                      solve_basic, vector update) on a nonlinear 1 x 1 system, both halves;
        newton_sys_affine_one_pass    2 <= max_iter is sharp: one pass already yields the exact root but reports
                                      it as Err unless the guess had a small residual;
        newton_sys_empty_panics / newton_sysjac_empty_panics
                                      1 <= rows M is sharp: a 0-dimensional system panics (norm_inf reads vec[0]).
   E. nonlinear systems of ANY dimension in the decoupled case F(x)_i = f_i(x_i) with the exact diagonal Jacobian
      (solve_jacobian over R): sysjac_decoupled_pass, newton_decoupled_no_panic / _ok_close / _ok -- both halves,
      sup-norm basin, quadratic contraction; the dim x dim elimination of each pass is discharged by C01;
      and the same for the finite-difference variant (solve): newton_fd_decoupled_no_panic / _ok_close / _ok.
   Still not proved: float rounding (tie); basins for COUPLED nonlinear systems of dimension > 1; nonlinear complex functions.
   ====================================================================================== *)
From Coq Require Import Lia.
From OV Require Import Proofs.SolveBase Proofs.Solve Proofs.SolveQc Proofs.Newton2Sys Proofs.Newton2Real
  Proofs.Newton2Scalar Proofs.Newton2Mono Proofs.Newton2Sqrt Proofs.Newton2Sys1d Proofs.Newton2Diag Proofs.Newton2Wit.
From OV Require Proofs.SolveC Proofs.Newton2Inst Proofs.Newton2Cplx Proofs.Newton2Cdq Proofs.Newton2DiagFD.
Local Close Scope R_scope.
Local Open Scope nat_scope.

(* ---------------- A. affine systems: no panic, Ok of the unique root within two passes ---------------- *)
Theorem newton_sys_affine : forall (O : NOps), FieldLaws (NA O) -> PivLaws (NA O) ->
  forall (M : matrix (NA O)) (c0 : list (NA O)) (tl dl : NR O),
  wf M -> rows M = cols M -> 1 <= rows M -> emb O dl <> zero ->
  ltb (mag O zero) (mag O zero) = false -> leb (mag O zero) tl = true ->
  (exists N : nat -> nat -> NA O, left_inverse (rows M) N (ent M)) ->
  forall n x0, length x0 = cols M -> 2 <= n ->
  exists x evs, newton_sys O (mkCfg tl dl n x0) (fun p => Ok (aff O M c0 p)) = Ok (NOk x, evs) /\
    length x = cols M /\ is_root O M c0 x /\
    (forall y, length y = cols M -> is_root O M c0 y -> y = x) /\
    length evs <= 2 * (cols M + 2).
Proof. exact newton_sys_affine_full. Qed.
Check newton_sys_affine : forall (O : NOps), FieldLaws (NA O) -> PivLaws (NA O) ->
  forall (M : matrix (NA O)) (c0 : list (NA O)) (tl dl : NR O),
  wf M -> rows M = cols M -> 1 <= rows M -> emb O dl <> zero ->
  ltb (mag O zero) (mag O zero) = false -> leb (mag O zero) tl = true ->
  (exists N : nat -> nat -> NA O, left_inverse (rows M) N (ent M)) ->
  forall n x0, length x0 = cols M -> 2 <= n ->
  exists x evs, newton_sys O (mkCfg tl dl n x0) (fun p => Ok (aff O M c0 p)) = Ok (NOk x, evs) /\
    length x = cols M /\ is_root O M c0 x /\
    (forall y, length y = cols M -> is_root O M c0 y -> y = x) /\
    length evs <= 2 * (cols M + 2).
Print Assumptions newton_sys_affine.

Theorem newton_sysjac_affine : forall (O : NOps), FieldLaws (NA O) -> PivLaws (NA O) ->
  forall (M : matrix (NA O)) (c0 : list (NA O)) (tl dl : NR O),
  wf M -> rows M = cols M -> 1 <= rows M ->
  ltb (mag O zero) (mag O zero) = false -> leb (mag O zero) tl = true ->
  (exists N : nat -> nat -> NA O, left_inverse (rows M) N (ent M)) ->
  forall n x0, length x0 = cols M -> 2 <= n ->
  exists x evs, newton_sysjac O (mkCfg tl dl n x0) (fun p => Ok (aff O M c0 p)) (fun _ => Ok M) = Ok (NOk x, evs) /\
    length x = cols M /\ is_root O M c0 x /\
    (forall y, length y = cols M -> is_root O M c0 y -> y = x) /\
    length evs <= 4.
Proof. exact newton_sysjac_affine_full. Qed.
Check newton_sysjac_affine : forall (O : NOps), FieldLaws (NA O) -> PivLaws (NA O) ->
  forall (M : matrix (NA O)) (c0 : list (NA O)) (tl dl : NR O),
  wf M -> rows M = cols M -> 1 <= rows M ->
  ltb (mag O zero) (mag O zero) = false -> leb (mag O zero) tl = true ->
  (exists N : nat -> nat -> NA O, left_inverse (rows M) N (ent M)) ->
  forall n x0, length x0 = cols M -> 2 <= n ->
  exists x evs, newton_sysjac O (mkCfg tl dl n x0) (fun p => Ok (aff O M c0 p)) (fun _ => Ok M) = Ok (NOk x, evs) /\
    length x = cols M /\ is_root O M c0 x /\
    (forall y, length y = cols M -> is_root O M c0 y -> y = x) /\
    length evs <= 4.
Print Assumptions newton_sysjac_affine.

(* the hypotheses hold at Qc for [[2,1],[1,3]] (inverse [[3/5,-1/5],[-1/5,2/5]]), delta = 1/8, tol = 1/1000;
   newton_sys_affine_nonvacuous above is the run of the model on that system *)
Example newton_sys_affine_hyps_nonvacuous :
  PivLaws AQ /\ wf M2q /\ rows M2q = cols M2q /\ 1 <= rows M2q /\ emb (NReal AQ) (q 1 8) <> zero /\
  ltb (mag (NReal AQ) zero) (mag (NReal AQ) zero) = false /\ leb (mag (NReal AQ) zero) (q 1 1000) = true /\
  (exists N : nat -> nat -> AQ, left_inverse (rows M2q) N (ent M2q)) /\ length [q 0 1; q 0 1] = cols M2q.
Proof.
  split; [exact AQ_PivLaws|]. split; [reflexivity|]. split; [reflexivity|]. split; [cbn; lia|].
  split; [exact q18_nonzero|]. split; [reflexivity|]. split; [reflexivity|].
  split; [exists (ent N2q); exact M2q_left_inverse|reflexivity].
Qed.

(* at Qc, the arithmetic of the exact tier of the correspondence check *)
Theorem newton_sys_affine_Qc : forall (M : matrix AQ) (c0 : list AQ) (tl dl : Qc) n x0,
  wf M -> rows M = cols M -> 1 <= rows M -> dl <> 0%Qc -> (0 <= tl)%Qc ->
  (exists N : nat -> nat -> AQ, left_inverse (rows M) N (ent M)) ->
  length x0 = cols M -> 2 <= n ->
  exists x evs, newton_sys (NReal AQ) (mkCfg tl dl n x0) (fun p => Ok (aff (NReal AQ) M c0 p)) = Ok (NOk x, evs) /\
    length x = cols M /\ is_root (NReal AQ) M c0 x /\
    (forall y, length y = cols M -> is_root (NReal AQ) M c0 y -> y = x) /\
    length evs <= 2 * (cols M + 2).
Proof. exact Newton2Inst.newton_sys_affine_Qc_lemma. Qed.
Check newton_sys_affine_Qc : forall (M : matrix AQ) (c0 : list AQ) (tl dl : Qc) n x0,
  wf M -> rows M = cols M -> 1 <= rows M -> dl <> 0%Qc -> (0 <= tl)%Qc ->
  (exists N : nat -> nat -> AQ, left_inverse (rows M) N (ent M)) ->
  length x0 = cols M -> 2 <= n ->
  exists x evs, newton_sys (NReal AQ) (mkCfg tl dl n x0) (fun p => Ok (aff (NReal AQ) M c0 p)) = Ok (NOk x, evs) /\
    length x = cols M /\ is_root (NReal AQ) M c0 x /\
    (forall y, length y = cols M -> is_root (NReal AQ) M c0 y -> y = x) /\
    length evs <= 2 * (cols M + 2).
Print Assumptions newton_sys_affine_Qc.

Theorem newton_sysjac_affine_Qc : forall (M : matrix AQ) (c0 : list AQ) (tl dl : Qc) n x0,
  wf M -> rows M = cols M -> 1 <= rows M -> (0 <= tl)%Qc ->
  (exists N : nat -> nat -> AQ, left_inverse (rows M) N (ent M)) ->
  length x0 = cols M -> 2 <= n ->
  exists x evs, newton_sysjac (NReal AQ) (mkCfg tl dl n x0) (fun p => Ok (aff (NReal AQ) M c0 p)) (fun _ => Ok M) = Ok (NOk x, evs) /\
    length x = cols M /\ is_root (NReal AQ) M c0 x /\
    (forall y, length y = cols M -> is_root (NReal AQ) M c0 y -> y = x) /\
    length evs <= 4.
Proof. exact Newton2Inst.newton_sysjac_affine_Qc_lemma. Qed.
Check newton_sysjac_affine_Qc : forall (M : matrix AQ) (c0 : list AQ) (tl dl : Qc) n x0,
  wf M -> rows M = cols M -> 1 <= rows M -> (0 <= tl)%Qc ->
  (exists N : nat -> nat -> AQ, left_inverse (rows M) N (ent M)) ->
  length x0 = cols M -> 2 <= n ->
  exists x evs, newton_sysjac (NReal AQ) (mkCfg tl dl n x0) (fun p => Ok (aff (NReal AQ) M c0 p)) (fun _ => Ok M) = Ok (NOk x, evs) /\
    length x = cols M /\ is_root (NReal AQ) M c0 x /\
    (forall y, length y = cols M -> is_root (NReal AQ) M c0 y -> y = x) /\
    length evs <= 4.
Print Assumptions newton_sysjac_affine_Qc.

Example newton_sys_affine_Qc_nonvacuous :
  wf M2q /\ rows M2q = cols M2q /\ 1 <= rows M2q /\ q 1 8 <> 0%Qc /\ (0 <= q 1 1000)%Qc /\
  (exists N : nat -> nat -> AQ, left_inverse (rows M2q) N (ent M2q)) /\ length [q 0 1; q 0 1] = cols M2q.
Proof.
  split; [reflexivity|]. split; [reflexivity|]. split; [cbn; lia|]. split; [exact q18_nonzero|].
  split; [discriminate|]. split; [exists (ent N2q); exact M2q_left_inverse|reflexivity].
Qed.

(* over the reals (NRl, the idealisation of Newton<Vec64>) *)
Theorem newton_sys_affine_R : forall (M : matrix AR) (c0 : list AR) (tl dl : R) n x0,
  wf M -> rows M = cols M -> 1 <= rows M -> dl <> 0%R -> (0 <= tl)%R ->
  (exists N : nat -> nat -> AR, left_inverse (rows M) N (ent M)) ->
  length x0 = cols M -> 2 <= n ->
  exists x evs, newton_sys NRl (mkCfg tl dl n x0) (fun p => Ok (aff NRl M c0 p)) = Ok (NOk x, evs) /\
    length x = cols M /\ is_root NRl M c0 x /\
    (forall y, length y = cols M -> is_root NRl M c0 y -> y = x) /\
    length evs <= 2 * (cols M + 2).
Proof. exact newton_sys_affine_R_lemma. Qed.
Check newton_sys_affine_R : forall (M : matrix AR) (c0 : list AR) (tl dl : R) n x0,
  wf M -> rows M = cols M -> 1 <= rows M -> dl <> 0%R -> (0 <= tl)%R ->
  (exists N : nat -> nat -> AR, left_inverse (rows M) N (ent M)) ->
  length x0 = cols M -> 2 <= n ->
  exists x evs, newton_sys NRl (mkCfg tl dl n x0) (fun p => Ok (aff NRl M c0 p)) = Ok (NOk x, evs) /\
    length x = cols M /\ is_root NRl M c0 x /\
    (forall y, length y = cols M -> is_root NRl M c0 y -> y = x) /\
    length evs <= 2 * (cols M + 2).
Print Assumptions newton_sys_affine_R.

Theorem newton_sysjac_affine_R : forall (M : matrix AR) (c0 : list AR) (tl dl : R) n x0,
  wf M -> rows M = cols M -> 1 <= rows M -> (0 <= tl)%R ->
  (exists N : nat -> nat -> AR, left_inverse (rows M) N (ent M)) ->
  length x0 = cols M -> 2 <= n ->
  exists x evs, newton_sysjac NRl (mkCfg tl dl n x0) (fun p => Ok (aff NRl M c0 p)) (fun _ => Ok M) = Ok (NOk x, evs) /\
    length x = cols M /\ is_root NRl M c0 x /\
    (forall y, length y = cols M -> is_root NRl M c0 y -> y = x) /\
    length evs <= 4.
Proof. exact newton_sysjac_affine_R_lemma. Qed.
Check newton_sysjac_affine_R : forall (M : matrix AR) (c0 : list AR) (tl dl : R) n x0,
  wf M -> rows M = cols M -> 1 <= rows M -> (0 <= tl)%R ->
  (exists N : nat -> nat -> AR, left_inverse (rows M) N (ent M)) ->
  length x0 = cols M -> 2 <= n ->
  exists x evs, newton_sysjac NRl (mkCfg tl dl n x0) (fun p => Ok (aff NRl M c0 p)) (fun _ => Ok M) = Ok (NOk x, evs) /\
    length x = cols M /\ is_root NRl M c0 x /\
    (forall y, length y = cols M -> is_root NRl M c0 y -> y = x) /\
    length evs <= 4.
Print Assumptions newton_sysjac_affine_R.

Example newton_sys_affine_R_nonvacuous :
  wf M2r /\ rows M2r = cols M2r /\ 1 <= rows M2r /\
  (exists N : nat -> nat -> AR, left_inverse (rows M2r) N (ent M2r)) /\ length [0%R; 0%R] = cols M2r.
Proof.
  split; [reflexivity|]. split; [reflexivity|]. split; [cbn; lia|].
  split; [exists (ent N2r); exact M2r_left_inverse|reflexivity].
Qed.

(* over C = R[i] through NCplx (Newton2Inst.NCR = NCplx SolveC.SAR: tol and delta real, |z| = sqrt(re^2 + im^2),
   delta enters as (delta, 0)): the idealisation of Newton<Vector<Cmplx>> *)
Theorem newton_sys_affine_C : forall (M : matrix SolveC.ACR) (c0 : list SolveC.ACR) (tl dl : R) n x0,
  wf M -> rows M = cols M -> 1 <= rows M -> dl <> 0%R -> (0 <= tl)%R ->
  (exists N : nat -> nat -> SolveC.ACR, left_inverse (rows M) N (ent M)) ->
  length x0 = cols M -> 2 <= n ->
  exists x evs, newton_sys Newton2Inst.NCR (mkCfg tl dl n x0) (fun p => Ok (aff Newton2Inst.NCR M c0 p)) = Ok (NOk x, evs) /\
    length x = cols M /\ is_root Newton2Inst.NCR M c0 x /\
    (forall y, length y = cols M -> is_root Newton2Inst.NCR M c0 y -> y = x) /\
    length evs <= 2 * (cols M + 2).
Proof. exact Newton2Inst.newton_sys_affine_C_lemma. Qed.
Check newton_sys_affine_C : forall (M : matrix SolveC.ACR) (c0 : list SolveC.ACR) (tl dl : R) n x0,
  wf M -> rows M = cols M -> 1 <= rows M -> dl <> 0%R -> (0 <= tl)%R ->
  (exists N : nat -> nat -> SolveC.ACR, left_inverse (rows M) N (ent M)) ->
  length x0 = cols M -> 2 <= n ->
  exists x evs, newton_sys Newton2Inst.NCR (mkCfg tl dl n x0) (fun p => Ok (aff Newton2Inst.NCR M c0 p)) = Ok (NOk x, evs) /\
    length x = cols M /\ is_root Newton2Inst.NCR M c0 x /\
    (forall y, length y = cols M -> is_root Newton2Inst.NCR M c0 y -> y = x) /\
    length evs <= 2 * (cols M + 2).
Print Assumptions newton_sys_affine_C.

Theorem newton_sysjac_affine_C : forall (M : matrix SolveC.ACR) (c0 : list SolveC.ACR) (tl dl : R) n x0,
  wf M -> rows M = cols M -> 1 <= rows M -> (0 <= tl)%R ->
  (exists N : nat -> nat -> SolveC.ACR, left_inverse (rows M) N (ent M)) ->
  length x0 = cols M -> 2 <= n ->
  exists x evs, newton_sysjac Newton2Inst.NCR (mkCfg tl dl n x0) (fun p => Ok (aff Newton2Inst.NCR M c0 p)) (fun _ => Ok M) = Ok (NOk x, evs) /\
    length x = cols M /\ is_root Newton2Inst.NCR M c0 x /\
    (forall y, length y = cols M -> is_root Newton2Inst.NCR M c0 y -> y = x) /\
    length evs <= 4.
Proof. exact Newton2Inst.newton_sysjac_affine_C_lemma. Qed.
Check newton_sysjac_affine_C : forall (M : matrix SolveC.ACR) (c0 : list SolveC.ACR) (tl dl : R) n x0,
  wf M -> rows M = cols M -> 1 <= rows M -> (0 <= tl)%R ->
  (exists N : nat -> nat -> SolveC.ACR, left_inverse (rows M) N (ent M)) ->
  length x0 = cols M -> 2 <= n ->
  exists x evs, newton_sysjac Newton2Inst.NCR (mkCfg tl dl n x0) (fun p => Ok (aff Newton2Inst.NCR M c0 p)) (fun _ => Ok M) = Ok (NOk x, evs) /\
    length x = cols M /\ is_root Newton2Inst.NCR M c0 x /\
    (forall y, length y = cols M -> is_root Newton2Inst.NCR M c0 y -> y = x) /\
    length evs <= 4.
Print Assumptions newton_sysjac_affine_C.

(* [[1, i], [0, 1]] with inverse [[1, -i], [0, 1]] *)
Example newton_sys_affine_C_nonvacuous :
  wf Newton2Inst.M2c /\ rows Newton2Inst.M2c = cols Newton2Inst.M2c /\ 1 <= rows Newton2Inst.M2c /\
  (exists N : nat -> nat -> SolveC.ACR, left_inverse (rows Newton2Inst.M2c) N (ent Newton2Inst.M2c)).
Proof.
  split; [reflexivity|]. split; [reflexivity|]. split; [cbn; lia|].
  exists (ent Newton2Inst.N2c). exact Newton2Inst.M2c_left_inverse.
Qed.

(* ---------------- B. general f over R, the finite-difference scalar solve ---------------- *)
Local Open Scope R_scope.

(* Ok => close.  [last evs 0] is the point at which the last pass started (each pass calls f at
   y + delta, y - delta, y in this order). *)
Theorem newton_ok_near_root_general : forall (f f' : R -> R) (a b m Mb L r : R),
  (forall c, a <= c <= b -> derivable_pt_lim f c (f' c)) -> 0 < m -> 0 <= L ->
  (forall c, a <= c <= b -> m <= Rabs (f' c)) -> (forall c, a <= c <= b -> Rabs (f' c) <= Mb) ->
  (forall u v, a <= u <= b -> a <= v <= b -> Rabs (f' u - f' v) <= L * Rabs (u - v)) ->
  a <= r <= b -> f r = 0 ->
  forall (tl dl : R) (n : nat) (x0 x : R) (evs : list R),
  newton_scalar NRl (mkCfg tl dl n x0) (fun t => Ok (f t)) = Ok (NOk x, evs) ->
  a <= last evs 0 - Rabs dl -> last evs 0 + Rabs dl <= b ->
  Rabs (last evs 0 - r) <= Mb / m * tl /\
  Rabs (x - r) <= L / m * (Mb / m * tl * (Mb / m * tl + Rabs dl)).
Proof. exact newton_ok_near_root_lemma. Qed.
Check newton_ok_near_root_general : forall (f f' : R -> R) (a b m Mb L r : R),
  (forall c, a <= c <= b -> derivable_pt_lim f c (f' c)) -> 0 < m -> 0 <= L ->
  (forall c, a <= c <= b -> m <= Rabs (f' c)) -> (forall c, a <= c <= b -> Rabs (f' c) <= Mb) ->
  (forall u v, a <= u <= b -> a <= v <= b -> Rabs (f' u - f' v) <= L * Rabs (u - v)) ->
  a <= r <= b -> f r = 0 ->
  forall (tl dl : R) (n : nat) (x0 x : R) (evs : list R),
  newton_scalar NRl (mkCfg tl dl n x0) (fun t => Ok (f t)) = Ok (NOk x, evs) ->
  a <= last evs 0 - Rabs dl -> last evs 0 + Rabs dl <= b ->
  Rabs (last evs 0 - r) <= Mb / m * tl /\
  Rabs (x - r) <= L / m * (Mb / m * tl * (Mb / m * tl + Rabs dl)).
Print Assumptions newton_ok_near_root_general.

(* x^3 - 2 on [1, 2] (m = 3, Mb = 12, L = 12, root rc = exp (ln 2 / 3)); the run from 5/4 with delta = 1/4,
   tol = 1 answers Ok after one pass, whose call points 3/2, 1, 5/4 lie in [1, 2] *)
Example newton_ok_near_root_general_nonvacuous :
  (forall c, 1 <= c <= 2 -> derivable_pt_lim cube2 c (cube2' c)) /\ 0 < 3 /\ 0 <= 12 /\
  (forall c, 1 <= c <= 2 -> 3 <= Rabs (cube2' c)) /\ (forall c, 1 <= c <= 2 -> Rabs (cube2' c) <= 12) /\
  (forall u v, 1 <= u <= 2 -> 1 <= v <= 2 -> Rabs (cube2' u - cube2' v) <= 12 * Rabs (u - v)) /\
  1 <= rc <= 2 /\ cube2 rc = 0 /\
  exists x evs, newton_scalar NRl (mkCfg 1 (1 / 4) 1%nat (5 / 4)) (fun t => Ok (cube2 t)) = Ok (NOk x, evs) /\
    1 <= last evs 0 - Rabs (1 / 4) /\ last evs 0 + Rabs (1 / 4) <= 2.
Proof.
  pose proof rc_bounds as Hrc.
  split; [intros c _; apply cube2_der|]. split; [lra|]. split; [lra|].
  split; [exact cube2_lo|]. split; [exact cube2_hi|]. split; [exact cube2_lip|].
  split; [lra|]. split; [exact rc_root|].
  do 2 eexists. split; [exact cube2_run|]. cbn [last]. rewrite Rabs_right by lra. lra.
Qed.

(* inside the basin: no panic *)
Theorem newton_basin_no_panic : forall (f f' : R -> R) (a b m Mb L r : R),
  (forall c, a <= c <= b -> derivable_pt_lim f c (f' c)) -> 0 < m -> 0 <= L ->
  (forall c, a <= c <= b -> m <= Rabs (f' c)) -> (forall c, a <= c <= b -> Rabs (f' c) <= Mb) ->
  (forall u v, a <= u <= b -> a <= v <= b -> Rabs (f' u - f' v) <= L * Rabs (u - v)) ->
  a <= r <= b -> f r = 0 ->
  forall rho tl dl : R, 0 <= rho -> dl <> 0 -> a <= r - rho - Rabs dl -> r + rho + Rabs dl <= b ->
  L / m * (rho + Rabs dl) < 1 ->
  forall (n : nat) (x0 : R), Rabs (x0 - r) <= rho ->
  exists res evs, newton_scalar NRl (mkCfg tl dl n x0) (fun t => Ok (f t)) = Ok (res, evs).
Proof. exact newton_basin_total_lemma. Qed.
Check newton_basin_no_panic : forall (f f' : R -> R) (a b m Mb L r : R),
  (forall c, a <= c <= b -> derivable_pt_lim f c (f' c)) -> 0 < m -> 0 <= L ->
  (forall c, a <= c <= b -> m <= Rabs (f' c)) -> (forall c, a <= c <= b -> Rabs (f' c) <= Mb) ->
  (forall u v, a <= u <= b -> a <= v <= b -> Rabs (f' u - f' v) <= L * Rabs (u - v)) ->
  a <= r <= b -> f r = 0 ->
  forall rho tl dl : R, 0 <= rho -> dl <> 0 -> a <= r - rho - Rabs dl -> r + rho + Rabs dl <= b ->
  L / m * (rho + Rabs dl) < 1 ->
  forall (n : nat) (x0 : R), Rabs (x0 - r) <= rho ->
  exists res evs, newton_scalar NRl (mkCfg tl dl n x0) (fun t => Ok (f t)) = Ok (res, evs).
Print Assumptions newton_basin_no_panic.

(* inside the basin: the k-th iterate is within q^k |x0 - r| of the root, q = (L/m)(rho + |delta|);
   one pass obeys |x' - r| <= (L/m) |y - r| (|y - r| + |delta|)  (Proofs/Newton2Real.v fd_pass_err) *)
Theorem newton_basin_contraction : forall (f f' : R -> R) (a b m Mb L r : R),
  (forall c, a <= c <= b -> derivable_pt_lim f c (f' c)) -> 0 < m -> 0 <= L ->
  (forall c, a <= c <= b -> m <= Rabs (f' c)) -> (forall c, a <= c <= b -> Rabs (f' c) <= Mb) ->
  (forall u v, a <= u <= b -> a <= v <= b -> Rabs (f' u - f' v) <= L * Rabs (u - v)) ->
  a <= r <= b -> f r = 0 ->
  forall rho tl dl : R, 0 <= rho -> dl <> 0 -> a <= r - rho - Rabs dl -> r + rho + Rabs dl <= b ->
  L / m * (rho + Rabs dl) < 1 ->
  forall (k : nat) (x0 xk : R), Rabs (x0 - r) <= rho ->
  niter (scalar_step NRl tl dl (fun t => Ok (f t))) k x0 = Ok xk ->
  Rabs (xk - r) <= (L / m * (rho + Rabs dl)) ^ k * Rabs (x0 - r).
Proof. exact newton_basin_iterates_lemma. Qed.
Check newton_basin_contraction : forall (f f' : R -> R) (a b m Mb L r : R),
  (forall c, a <= c <= b -> derivable_pt_lim f c (f' c)) -> 0 < m -> 0 <= L ->
  (forall c, a <= c <= b -> m <= Rabs (f' c)) -> (forall c, a <= c <= b -> Rabs (f' c) <= Mb) ->
  (forall u v, a <= u <= b -> a <= v <= b -> Rabs (f' u - f' v) <= L * Rabs (u - v)) ->
  a <= r <= b -> f r = 0 ->
  forall rho tl dl : R, 0 <= rho -> dl <> 0 -> a <= r - rho - Rabs dl -> r + rho + Rabs dl <= b ->
  L / m * (rho + Rabs dl) < 1 ->
  forall (k : nat) (x0 xk : R), Rabs (x0 - r) <= rho ->
  niter (scalar_step NRl tl dl (fun t => Ok (f t))) k x0 = Ok xk ->
  Rabs (xk - r) <= (L / m * (rho + Rabs dl)) ^ k * Rabs (x0 - r).
Print Assumptions newton_basin_contraction.

(* inside the basin: Ok as soon as max_iter exceeds an N with (Mb/m) q^N rho <= tol, at a distance of the
   order of tol (of tol (tol + |delta|), in fact) from the root *)
Theorem newton_basin_ok : forall (f f' : R -> R) (a b m Mb L r : R),
  (forall c, a <= c <= b -> derivable_pt_lim f c (f' c)) -> 0 < m -> 0 <= L ->
  (forall c, a <= c <= b -> m <= Rabs (f' c)) -> (forall c, a <= c <= b -> Rabs (f' c) <= Mb) ->
  (forall u v, a <= u <= b -> a <= v <= b -> Rabs (f' u - f' v) <= L * Rabs (u - v)) ->
  a <= r <= b -> f r = 0 ->
  forall rho tl dl : R, 0 <= rho -> dl <> 0 -> a <= r - rho - Rabs dl -> r + rho + Rabs dl <= b ->
  L / m * (rho + Rabs dl) < 1 ->
  forall (N n : nat) (x0 : R), Rabs (x0 - r) <= rho ->
  Mb / m * ((L / m * (rho + Rabs dl)) ^ N * rho) <= tl -> (N < n)%nat ->
  exists x evs, newton_scalar NRl (mkCfg tl dl n x0) (fun t => Ok (f t)) = Ok (NOk x, evs) /\
    Rabs (x - r) <= rho /\
    Rabs (x - r) <= L / m * (Mb / m * tl * (Mb / m * tl + Rabs dl)).
Proof. exact newton_basin_ok_lemma. Qed.
Check newton_basin_ok : forall (f f' : R -> R) (a b m Mb L r : R),
  (forall c, a <= c <= b -> derivable_pt_lim f c (f' c)) -> 0 < m -> 0 <= L ->
  (forall c, a <= c <= b -> m <= Rabs (f' c)) -> (forall c, a <= c <= b -> Rabs (f' c) <= Mb) ->
  (forall u v, a <= u <= b -> a <= v <= b -> Rabs (f' u - f' v) <= L * Rabs (u - v)) ->
  a <= r <= b -> f r = 0 ->
  forall rho tl dl : R, 0 <= rho -> dl <> 0 -> a <= r - rho - Rabs dl -> r + rho + Rabs dl <= b ->
  L / m * (rho + Rabs dl) < 1 ->
  forall (N n : nat) (x0 : R), Rabs (x0 - r) <= rho ->
  Mb / m * ((L / m * (rho + Rabs dl)) ^ N * rho) <= tl -> (N < n)%nat ->
  exists x evs, newton_scalar NRl (mkCfg tl dl n x0) (fun t => Ok (f t)) = Ok (NOk x, evs) /\
    Rabs (x - r) <= rho /\
    Rabs (x - r) <= L / m * (Mb / m * tl * (Mb / m * tl + Rabs dl)).
Print Assumptions newton_basin_ok.

(* such an N exists for every positive tolerance *)
Theorem newton_basin_pass_count : forall (f' : R -> R) (a b m Mb L r : R),
  0 < m -> 0 <= L ->
  (forall c, a <= c <= b -> m <= Rabs (f' c)) -> (forall c, a <= c <= b -> Rabs (f' c) <= Mb) ->
  a <= r <= b ->
  forall rho tl dl : R, 0 <= rho -> a <= r - rho - Rabs dl -> r + rho + Rabs dl <= b ->
  L / m * (rho + Rabs dl) < 1 -> 0 < tl ->
  exists N : nat, Mb / m * ((L / m * (rho + Rabs dl)) ^ N * rho) <= tl.
Proof. exact basin_N_exists_lemma. Qed.
Check newton_basin_pass_count : forall (f' : R -> R) (a b m Mb L r : R),
  0 < m -> 0 <= L ->
  (forall c, a <= c <= b -> m <= Rabs (f' c)) -> (forall c, a <= c <= b -> Rabs (f' c) <= Mb) ->
  a <= r <= b ->
  forall rho tl dl : R, 0 <= rho -> a <= r - rho - Rabs dl -> r + rho + Rabs dl <= b ->
  L / m * (rho + Rabs dl) < 1 -> 0 < tl ->
  exists N : nat, Mb / m * ((L / m * (rho + Rabs dl)) ^ N * rho) <= tl.
Print Assumptions newton_basin_pass_count.

(* the basin hypotheses hold for x^3 - 2 with rho = delta = 1/10 (q = 4/5), x0 = 5/4, tol = 1, N = 0, max_iter = 1
   (the hypotheses on f are those of newton_ok_near_root_general_nonvacuous) *)
Example newton_basin_nonvacuous :
  0 <= 1 / 10 /\ 1 / 10 <> 0 /\ 1 <= rc - 1 / 10 - Rabs (1 / 10) /\ rc + 1 / 10 + Rabs (1 / 10) <= 2 /\
  12 / 3 * (1 / 10 + Rabs (1 / 10)) < 1 /\ Rabs (5 / 4 - rc) <= 1 / 10 /\
  12 / 3 * ((12 / 3 * (1 / 10 + Rabs (1 / 10))) ^ 0 * (1 / 10)) <= 1 /\ (0 < 1)%nat.
Proof.
  pose proof rc_bounds as Hrc. rewrite (Rabs_right (1 / 10)) by lra.
  repeat split; try lra; [|auto].
  unfold Rabs. destruct (Rcase_abs (5 / 4 - rc)); lra.
Qed.

(* ---------------- C. the supplied-derivative variant on a 1 x 1 system ---------------- *)
(* quadratic convergence, one step: the pass of solve_jacobian on p = [y] |-> [f y] with Jacobian [[f' y]] *)
Theorem newton_quadratic_step : forall (f f' : R -> R) (a b m Mb L r : R),
  (forall c, a <= c <= b -> derivable_pt_lim f c (f' c)) -> 0 < m -> 0 <= L ->
  (forall c, a <= c <= b -> m <= Rabs (f' c)) -> (forall c, a <= c <= b -> Rabs (f' c) <= Mb) ->
  (forall u v, a <= u <= b -> a <= v <= b -> Rabs (f' u - f' v) <= L * Rabs (u - v)) ->
  a <= r <= b -> f r = 0 ->
  forall (tl y : R), a <= y <= b ->
  exists x' bt e,
    sysjac_step NRl tl (fun p => let* x := rd p 0 in Ok [f x])
                       (fun p => let* x := rd p 0 in Ok (@mkM AR [f' x] 1 1)) [y] = Ok ([x'], bt, e) /\
    Rabs (x' - r) <= L / m * (Rabs (y - r) * Rabs (y - r)).
Proof. exact newton_quadratic_lemma. Qed.
Check newton_quadratic_step : forall (f f' : R -> R) (a b m Mb L r : R),
  (forall c, a <= c <= b -> derivable_pt_lim f c (f' c)) -> 0 < m -> 0 <= L ->
  (forall c, a <= c <= b -> m <= Rabs (f' c)) -> (forall c, a <= c <= b -> Rabs (f' c) <= Mb) ->
  (forall u v, a <= u <= b -> a <= v <= b -> Rabs (f' u - f' v) <= L * Rabs (u - v)) ->
  a <= r <= b -> f r = 0 ->
  forall (tl y : R), a <= y <= b ->
  exists x' bt e,
    sysjac_step NRl tl (fun p => let* x := rd p 0 in Ok [f x])
                       (fun p => let* x := rd p 0 in Ok (@mkM AR [f' x] 1 1)) [y] = Ok ([x'], bt, e) /\
    Rabs (x' - r) <= L / m * (Rabs (y - r) * Rabs (y - r)).
Print Assumptions newton_quadratic_step.
(* non-vacuity: the hypotheses on f are those of newton_ok_near_root_general_nonvacuous; y = 5/4 lies in [1, 2] *)

(* monotone global convergence: f' nondecreasing on [r, x0] (f convex), 0 < f'(r), start right of the root *)
Theorem newton_monotone_no_panic : forall (f f' : R -> R) (r x0 tl : R),
  r <= x0 -> f r = 0 -> (forall c, r <= c <= x0 -> derivable_pt_lim f c (f' c)) ->
  (forall u v, r <= u -> u <= v -> v <= x0 -> f' u <= f' v) -> 0 < f' r ->
  forall (dl : R) (n : nat),
  exists res evs,
    newton_sysjac NRl (mkCfg tl dl n [x0]) (fun p => let* x := rd p 0 in Ok [f x])
                  (fun p => let* x := rd p 0 in Ok (@mkM AR [f' x] 1 1)) = Ok (res, evs).
Proof. exact newton_monotone_total_lemma. Qed.
Check newton_monotone_no_panic : forall (f f' : R -> R) (r x0 tl : R),
  r <= x0 -> f r = 0 -> (forall c, r <= c <= x0 -> derivable_pt_lim f c (f' c)) ->
  (forall u v, r <= u -> u <= v -> v <= x0 -> f' u <= f' v) -> 0 < f' r ->
  forall (dl : R) (n : nat),
  exists res evs,
    newton_sysjac NRl (mkCfg tl dl n [x0]) (fun p => let* x := rd p 0 in Ok [f x])
                  (fun p => let* x := rd p 0 in Ok (@mkM AR [f' x] 1 1)) = Ok (res, evs).
Print Assumptions newton_monotone_no_panic.

(* the iterates: x_k in [r, x0], x_{k+1} = x_k - f(x_k)/f'(x_k), r <= x_{k+1} <= x_k *)
Theorem newton_monotone_iterates : forall (f f' : R -> R) (r x0 tl : R),
  r <= x0 -> f r = 0 -> (forall c, r <= c <= x0 -> derivable_pt_lim f c (f' c)) ->
  (forall u v, r <= u -> u <= v -> v <= x0 -> f' u <= f' v) -> 0 < f' r ->
  forall (k : nat) (pk : list R),
  niter (sysjac_step NRl tl (fun p => let* x := rd p 0 in Ok [f x])
                            (fun p => let* x := rd p 0 in Ok (@mkM AR [f' x] 1 1))) k [x0] = Ok pk ->
  exists z, pk = [z] /\ r <= z <= x0 /\
    niter (sysjac_step NRl tl (fun p => let* x := rd p 0 in Ok [f x])
                              (fun p => let* x := rd p 0 in Ok (@mkM AR [f' x] 1 1))) (S k) [x0]
      = Ok [z - f z / f' z] /\
    r <= z - f z / f' z <= z.
Proof. exact newton_monotone_iterates_lemma. Qed.
Check newton_monotone_iterates : forall (f f' : R -> R) (r x0 tl : R),
  r <= x0 -> f r = 0 -> (forall c, r <= c <= x0 -> derivable_pt_lim f c (f' c)) ->
  (forall u v, r <= u -> u <= v -> v <= x0 -> f' u <= f' v) -> 0 < f' r ->
  forall (k : nat) (pk : list R),
  niter (sysjac_step NRl tl (fun p => let* x := rd p 0 in Ok [f x])
                            (fun p => let* x := rd p 0 in Ok (@mkM AR [f' x] 1 1))) k [x0] = Ok pk ->
  exists z, pk = [z] /\ r <= z <= x0 /\
    niter (sysjac_step NRl tl (fun p => let* x := rd p 0 in Ok [f x])
                              (fun p => let* x := rd p 0 in Ok (@mkM AR [f' x] 1 1))) (S k) [x0]
      = Ok [z - f z / f' z] /\
    r <= z - f z / f' z <= z.
Print Assumptions newton_monotone_iterates.

(* every Ok answer lies within tol / f'(r) to the right of the root *)
Theorem newton_monotone_ok_close : forall (f f' : R -> R) (r x0 tl : R),
  r <= x0 -> f r = 0 -> (forall c, r <= c <= x0 -> derivable_pt_lim f c (f' c)) ->
  (forall u v, r <= u -> u <= v -> v <= x0 -> f' u <= f' v) -> 0 < f' r ->
  forall (dl : R) (n : nat) (p : list R) evs,
  newton_sysjac NRl (mkCfg tl dl n [x0]) (fun p => let* x := rd p 0 in Ok [f x])
                (fun p => let* x := rd p 0 in Ok (@mkM AR [f' x] 1 1)) = Ok (NOk p, evs) ->
  exists x, p = [x] /\ r <= x <= x0 /\ x - r <= tl / f' r.
Proof. exact newton_monotone_ok_close_lemma. Qed.
Check newton_monotone_ok_close : forall (f f' : R -> R) (r x0 tl : R),
  r <= x0 -> f r = 0 -> (forall c, r <= c <= x0 -> derivable_pt_lim f c (f' c)) ->
  (forall u v, r <= u -> u <= v -> v <= x0 -> f' u <= f' v) -> 0 < f' r ->
  forall (dl : R) (n : nat) (p : list R) evs,
  newton_sysjac NRl (mkCfg tl dl n [x0]) (fun p => let* x := rd p 0 in Ok [f x])
                (fun p => let* x := rd p 0 in Ok (@mkM AR [f' x] 1 1)) = Ok (NOk p, evs) ->
  exists x, p = [x] /\ r <= x <= x0 /\ x - r <= tl / f' r.
Print Assumptions newton_monotone_ok_close.

(* global convergence with an explicit pass count: max_iter * tol > f'(x0) (x0 - r) => Ok *)
Theorem newton_monotone : forall (f f' : R -> R) (r x0 tl : R),
  r <= x0 -> f r = 0 -> (forall c, r <= c <= x0 -> derivable_pt_lim f c (f' c)) ->
  (forall u v, r <= u -> u <= v -> v <= x0 -> f' u <= f' v) -> 0 < f' r ->
  forall (dl : R) (n : nat), f' x0 * (x0 - r) < INR n * tl ->
  exists x evs,
    newton_sysjac NRl (mkCfg tl dl n [x0]) (fun p => let* x := rd p 0 in Ok [f x])
                  (fun p => let* x := rd p 0 in Ok (@mkM AR [f' x] 1 1)) = Ok (NOk [x], evs) /\
    r <= x <= x0 /\ x - r <= tl / f' r.
Proof. exact newton_monotone_ok_lemma. Qed.
Check newton_monotone : forall (f f' : R -> R) (r x0 tl : R),
  r <= x0 -> f r = 0 -> (forall c, r <= c <= x0 -> derivable_pt_lim f c (f' c)) ->
  (forall u v, r <= u -> u <= v -> v <= x0 -> f' u <= f' v) -> 0 < f' r ->
  forall (dl : R) (n : nat), f' x0 * (x0 - r) < INR n * tl ->
  exists x evs,
    newton_sysjac NRl (mkCfg tl dl n [x0]) (fun p => let* x := rd p 0 in Ok [f x])
                  (fun p => let* x := rd p 0 in Ok (@mkM AR [f' x] 1 1)) = Ok (NOk [x], evs) /\
    r <= x <= x0 /\ x - r <= tl / f' r.
Print Assumptions newton_monotone.

(* x^3 - 2 from x0 = 2 with tol = 1/2: the budget f'(2) (2 - rc) < 12 * 0.8 = 9.6 is exceeded by 20 passes *)
Example newton_monotone_nonvacuous :
  rc <= 2 /\ cube2 rc = 0 /\ (forall c, rc <= c <= 2 -> derivable_pt_lim cube2 c (cube2' c)) /\
  (forall u v, rc <= u -> u <= v -> v <= 2 -> cube2' u <= cube2' v) /\ 0 < cube2' rc /\
  cube2' 2 * (2 - rc) < INR 20 * (1 / 2).
Proof.
  pose proof rc_bounds as Hrc.
  split; [lra|]. split; [exact rc_root|]. split; [intros c _; apply cube2_der|].
  split; [exact cube2_convex|]. split; [exact cube2_pos_at_root|].
  unfold cube2'. replace (INR 20) with 20 by (cbn; ring). lra.
Qed.

(* ---------------- D. further variants; sharpness ---------------- *)
(* x^2 - c: from any positive start the answer IS Ok (and then within tol of sqrt c) once max_iter is large enough *)
Theorem newton_sqrt_converges : forall (c tl dl : R), 0 < c -> dl <> 0 ->
  forall (n : nat) (x0 : R), 0 < x0 ->
  (x0 + c / x0) / 2 - R_sqrt.sqrt c < INR (n - 1) * tl ->
  exists x evs, newton_scalar NRl (mkCfg tl dl n x0) (fun x => Ok (x * x - c)) = Ok (NOk x, evs) /\
    Rabs (x - R_sqrt.sqrt c) <= tl.
Proof. exact newton_sqrt_converges_lemma. Qed.
Check newton_sqrt_converges : forall (c tl dl : R), 0 < c -> dl <> 0 ->
  forall (n : nat) (x0 : R), 0 < x0 ->
  (x0 + c / x0) / 2 - R_sqrt.sqrt c < INR (n - 1) * tl ->
  exists x evs, newton_scalar NRl (mkCfg tl dl n x0) (fun x => Ok (x * x - c)) = Ok (NOk x, evs) /\
    Rabs (x - R_sqrt.sqrt c) <= tl.
Print Assumptions newton_sqrt_converges.

(* c = 4 from x0 = 1 (first iterate 5/2), tol = 1/2, three passes allowed *)
Example newton_sqrt_converges_nonvacuous :
  0 < 4 /\ 1 <> 0 /\ 0 < 1 /\ (1 + 4 / 1) / 2 - R_sqrt.sqrt 4 < INR (3 - 1) * (1 / 2).
Proof.
  replace 4 with (2 * 2) at 3 by ring. rewrite sqrt_square by lra. cbn [INR Nat.sub]. lra.
Qed.

(* accuracy of the slope the scalar pass divides by: the central difference quotient
   (f(y + delta) - f(y - delta)) / (2 delta) is within (delta^2 / 6) sup |f^(3)| of f'(y) *)
Theorem central_difference_truncation : forall (g g1 g2 g3 : R -> R) (y d B : R), d <> 0 ->
  (forall x, y - Rabs d <= x <= y + Rabs d -> derivable_pt_lim g x (g1 x)) ->
  (forall x, y - Rabs d <= x <= y + Rabs d -> derivable_pt_lim g1 x (g2 x)) ->
  (forall x, y - Rabs d <= x <= y + Rabs d -> derivable_pt_lim g2 x (g3 x)) ->
  (forall x, y - Rabs d <= x <= y + Rabs d -> Rabs (g3 x) <= B) ->
  Rabs ((g (y + d) - g (y - d)) / (2 * d) - g1 y) <= d * d / 6 * B.
Proof. exact Newton2Cdq.central_diff_trunc. Qed.
Check central_difference_truncation : forall (g g1 g2 g3 : R -> R) (y d B : R), d <> 0 ->
  (forall x, y - Rabs d <= x <= y + Rabs d -> derivable_pt_lim g x (g1 x)) ->
  (forall x, y - Rabs d <= x <= y + Rabs d -> derivable_pt_lim g1 x (g2 x)) ->
  (forall x, y - Rabs d <= x <= y + Rabs d -> derivable_pt_lim g2 x (g3 x)) ->
  (forall x, y - Rabs d <= x <= y + Rabs d -> Rabs (g3 x) <= B) ->
  Rabs ((g (y + d) - g (y - d)) / (2 * d) - g1 y) <= d * d / 6 * B.
Print Assumptions central_difference_truncation.

Theorem scalar_derivative_truncation : forall (f f1 f2 f3 : R -> R) (B tl dl y x' : R) bt e,
  scalar_step NRl tl dl (fun t => Ok (f t)) y = Ok (x', bt, e) ->
  (forall x, y - Rabs dl <= x <= y + Rabs dl -> derivable_pt_lim f x (f1 x)) ->
  (forall x, y - Rabs dl <= x <= y + Rabs dl -> derivable_pt_lim f1 x (f2 x)) ->
  (forall x, y - Rabs dl <= x <= y + Rabs dl -> derivable_pt_lim f2 x (f3 x)) ->
  (forall x, y - Rabs dl <= x <= y + Rabs dl -> Rabs (f3 x) <= B) ->
  x' = y - f y / ((f (y + dl) - f (y - dl)) / (2 * dl)) /\
  Rabs ((f (y + dl) - f (y - dl)) / (2 * dl) - f1 y) <= dl * dl / 6 * B.
Proof. exact Newton2Cdq.scalar_deriv_trunc_lemma. Qed.
Check scalar_derivative_truncation : forall (f f1 f2 f3 : R -> R) (B tl dl y x' : R) bt e,
  scalar_step NRl tl dl (fun t => Ok (f t)) y = Ok (x', bt, e) ->
  (forall x, y - Rabs dl <= x <= y + Rabs dl -> derivable_pt_lim f x (f1 x)) ->
  (forall x, y - Rabs dl <= x <= y + Rabs dl -> derivable_pt_lim f1 x (f2 x)) ->
  (forall x, y - Rabs dl <= x <= y + Rabs dl -> derivable_pt_lim f2 x (f3 x)) ->
  (forall x, y - Rabs dl <= x <= y + Rabs dl -> Rabs (f3 x) <= B) ->
  x' = y - f y / ((f (y + dl) - f (y - dl)) / (2 * dl)) /\
  Rabs ((f (y + dl) - f (y - dl)) / (2 * dl) - f1 y) <= dl * dl / 6 * B.
Print Assumptions scalar_derivative_truncation.

(* x^3 - 2 at y = 5/4, delta = 1/4: the quotient is 19/4, f'(5/4) = 75/16, the third derivative is 6 = B,
   and the bound (1/16)/6 * 6 = 1/16 is attained *)
Example scalar_derivative_truncation_nonvacuous :
  (exists x' bt e, scalar_step NRl 1 (1 / 4) (fun t => Ok (cube2 t)) (5 / 4) = Ok (x', bt, e)) /\
  (forall x, derivable_pt_lim cube2 x (cube2' x)) /\ (forall x, derivable_pt_lim cube2' x (6 * x)) /\
  (forall x, derivable_pt_lim (fun x => 6 * x) x 6) /\ Rabs 6 <= 6.
Proof.
  split; [do 3 eexists; exact cube2_pass|]. split; [exact cube2_der|]. split; [exact cube2_der2|].
  split; [exact cube2_der3|]. rewrite Rabs_right; lra.
Qed.

(* the finite-difference system solve on a nonlinear 1 x 1 system p = [x] |-> [f x]:
   Ok => close (y is the iterate at which the pass that answered started) *)
Theorem newton_sys1d_ok_near_root : forall (f f' : R -> R) (a b m Mb L r : R),
  (forall c, a <= c <= b -> derivable_pt_lim f c (f' c)) -> 0 < m -> 0 <= L ->
  (forall c, a <= c <= b -> m <= Rabs (f' c)) -> (forall c, a <= c <= b -> Rabs (f' c) <= Mb) ->
  (forall u v, a <= u <= b -> a <= v <= b -> Rabs (f' u - f' v) <= L * Rabs (u - v)) ->
  a <= r <= b -> f r = 0 ->
  forall (tl dl : R) (n : nat) (x0 : R) (p : list R) evs,
  newton_sys NRl (mkCfg tl dl n [x0]) (fun p => let* x := rd p 0 in Ok [f x]) = Ok (NOk p, evs) ->
  exists x y k, (k < n)%nat /\ p = [x] /\
    niter (sys_step NRl tl dl (fun p => let* x := rd p 0 in Ok [f x])) k [x0] = Ok [y] /\
    (a <= y - Rabs dl -> y + Rabs dl <= b ->
     Rabs (y - r) <= tl / m /\ Rabs (x - r) <= L / m * (tl / m * (tl / m + Rabs dl))).
Proof. exact newton_sys1d_ok_near_root_lemma. Qed.
Check newton_sys1d_ok_near_root : forall (f f' : R -> R) (a b m Mb L r : R),
  (forall c, a <= c <= b -> derivable_pt_lim f c (f' c)) -> 0 < m -> 0 <= L ->
  (forall c, a <= c <= b -> m <= Rabs (f' c)) -> (forall c, a <= c <= b -> Rabs (f' c) <= Mb) ->
  (forall u v, a <= u <= b -> a <= v <= b -> Rabs (f' u - f' v) <= L * Rabs (u - v)) ->
  a <= r <= b -> f r = 0 ->
  forall (tl dl : R) (n : nat) (x0 : R) (p : list R) evs,
  newton_sys NRl (mkCfg tl dl n [x0]) (fun p => let* x := rd p 0 in Ok [f x]) = Ok (NOk p, evs) ->
  exists x y k, (k < n)%nat /\ p = [x] /\
    niter (sys_step NRl tl dl (fun p => let* x := rd p 0 in Ok [f x])) k [x0] = Ok [y] /\
    (a <= y - Rabs dl -> y + Rabs dl <= b ->
     Rabs (y - r) <= tl / m /\ Rabs (x - r) <= L / m * (tl / m * (tl / m + Rabs dl))).
Print Assumptions newton_sys1d_ok_near_root.

Theorem newton_sys1d_basin_no_panic : forall (f f' : R -> R) (a b m Mb L r : R),
  (forall c, a <= c <= b -> derivable_pt_lim f c (f' c)) -> 0 < m -> 0 <= L ->
  (forall c, a <= c <= b -> m <= Rabs (f' c)) -> (forall c, a <= c <= b -> Rabs (f' c) <= Mb) ->
  (forall u v, a <= u <= b -> a <= v <= b -> Rabs (f' u - f' v) <= L * Rabs (u - v)) ->
  a <= r <= b -> f r = 0 ->
  forall rho tl dl : R, 0 <= rho -> dl <> 0 -> a <= r - rho - Rabs dl -> r + rho + Rabs dl <= b ->
  L / m * (rho + Rabs dl) < 1 ->
  forall (n : nat) (x0 : R), Rabs (x0 - r) <= rho ->
  exists res evs, newton_sys NRl (mkCfg tl dl n [x0]) (fun p => let* x := rd p 0 in Ok [f x]) = Ok (res, evs).
Proof. exact newton_sys1d_basin_total_lemma. Qed.
Check newton_sys1d_basin_no_panic : forall (f f' : R -> R) (a b m Mb L r : R),
  (forall c, a <= c <= b -> derivable_pt_lim f c (f' c)) -> 0 < m -> 0 <= L ->
  (forall c, a <= c <= b -> m <= Rabs (f' c)) -> (forall c, a <= c <= b -> Rabs (f' c) <= Mb) ->
  (forall u v, a <= u <= b -> a <= v <= b -> Rabs (f' u - f' v) <= L * Rabs (u - v)) ->
  a <= r <= b -> f r = 0 ->
  forall rho tl dl : R, 0 <= rho -> dl <> 0 -> a <= r - rho - Rabs dl -> r + rho + Rabs dl <= b ->
  L / m * (rho + Rabs dl) < 1 ->
  forall (n : nat) (x0 : R), Rabs (x0 - r) <= rho ->
  exists res evs, newton_sys NRl (mkCfg tl dl n [x0]) (fun p => let* x := rd p 0 in Ok [f x]) = Ok (res, evs).
Print Assumptions newton_sys1d_basin_no_panic.

Theorem newton_sys1d_basin_ok : forall (f f' : R -> R) (a b m Mb L r : R),
  (forall c, a <= c <= b -> derivable_pt_lim f c (f' c)) -> 0 < m -> 0 <= L ->
  (forall c, a <= c <= b -> m <= Rabs (f' c)) -> (forall c, a <= c <= b -> Rabs (f' c) <= Mb) ->
  (forall u v, a <= u <= b -> a <= v <= b -> Rabs (f' u - f' v) <= L * Rabs (u - v)) ->
  a <= r <= b -> f r = 0 ->
  forall rho tl dl : R, 0 <= rho -> dl <> 0 -> a <= r - rho - Rabs dl -> r + rho + Rabs dl <= b ->
  L / m * (rho + Rabs dl) < 1 ->
  forall (N n : nat) (x0 : R), Rabs (x0 - r) <= rho ->
  Mb * ((L / m * (rho + Rabs dl)) ^ N * rho) <= tl -> (N < n)%nat ->
  exists x evs, newton_sys NRl (mkCfg tl dl n [x0]) (fun p => let* x := rd p 0 in Ok [f x]) = Ok (NOk [x], evs) /\
    Rabs (x - r) <= rho /\
    Rabs (x - r) <= L / m * (tl / m * (tl / m + Rabs dl)).
Proof. exact newton_sys1d_basin_ok_lemma. Qed.
Check newton_sys1d_basin_ok : forall (f f' : R -> R) (a b m Mb L r : R),
  (forall c, a <= c <= b -> derivable_pt_lim f c (f' c)) -> 0 < m -> 0 <= L ->
  (forall c, a <= c <= b -> m <= Rabs (f' c)) -> (forall c, a <= c <= b -> Rabs (f' c) <= Mb) ->
  (forall u v, a <= u <= b -> a <= v <= b -> Rabs (f' u - f' v) <= L * Rabs (u - v)) ->
  a <= r <= b -> f r = 0 ->
  forall rho tl dl : R, 0 <= rho -> dl <> 0 -> a <= r - rho - Rabs dl -> r + rho + Rabs dl <= b ->
  L / m * (rho + Rabs dl) < 1 ->
  forall (N n : nat) (x0 : R), Rabs (x0 - r) <= rho ->
  Mb * ((L / m * (rho + Rabs dl)) ^ N * rho) <= tl -> (N < n)%nat ->
  exists x evs, newton_sys NRl (mkCfg tl dl n [x0]) (fun p => let* x := rd p 0 in Ok [f x]) = Ok (NOk [x], evs) /\
    Rabs (x - r) <= rho /\
    Rabs (x - r) <= L / m * (tl / m * (tl / m + Rabs dl)).
Print Assumptions newton_sys1d_basin_ok.

(* x^3 - 2 again (hypotheses on f: newton_ok_near_root_general_nonvacuous; basin: newton_basin_nonvacuous) with
   tol = 2: Mb q^0 rho = 12/10 <= 2 *)
Example newton_sys1d_basin_nonvacuous :
  12 * ((12 / 3 * (1 / 10 + Rabs (1 / 10))) ^ 0 * (1 / 10)) <= 2 /\ (0 < 1)%nat.
Proof. split; [cbn [pow]; lra|auto]. Qed.
Local Close Scope R_scope.

(* the scalar solve on an affine function over any field: exact root -b/a within two passes, at most six calls.
   The hypothesis on divr says that "element / real" undoes the multiplication by 2 delta (f64 / f64, Complex / f64). *)
Theorem newton_scalar_affine_exact : forall (O : NOps) (FL : FieldLaws (NA O)) (a b : NA O) (tl dl : NR O),
  a <> zero ->
  (forall z : NA O, divr O (mul z (add (emb O dl) (emb O dl))) (mul (two O) dl) = Ok z) ->
  leb (mag O zero) tl = true ->
  forall n x0, 2 <= n ->
  exists evs, newton_scalar O (mkCfg tl dl n x0) (fun x => Ok (add (mul a x) b)) =
                Ok (NOk (neg (mul b (fl_inv (NA O) FL a))), evs) /\ length evs <= 6.
Proof. exact Newton2Cplx.newton_scalar_affine_lemma. Qed.
Check newton_scalar_affine_exact : forall (O : NOps) (FL : FieldLaws (NA O)) (a b : NA O) (tl dl : NR O),
  a <> zero ->
  (forall z : NA O, divr O (mul z (add (emb O dl) (emb O dl))) (mul (two O) dl) = Ok z) ->
  leb (mag O zero) tl = true ->
  forall n x0, 2 <= n ->
  exists evs, newton_scalar O (mkCfg tl dl n x0) (fun x => Ok (add (mul a x) b)) =
                Ok (NOk (neg (mul b (fl_inv (NA O) FL a))), evs) /\ length evs <= 6.
Print Assumptions newton_scalar_affine_exact.

(* Newton<Cmplx>::solve on a z + b *)
Theorem newton_affine_exact_C : forall (a b : SolveC.ACR) (tl dl : R) (n : nat) (x0 : SolveC.ACR),
  a <> zero -> dl <> 0%R -> (0 <= tl)%R -> 2 <= n ->
  exists evs, newton_scalar Newton2Inst.NCR (mkCfg tl dl n x0) (fun z => Ok (add (mul a z) b)) =
                Ok (NOk (neg (mul b (SolveC.C_inv a))), evs) /\
              add (mul a (neg (mul b (SolveC.C_inv a)))) b = zero /\ length evs <= 6.
Proof. exact Newton2Cplx.newton_affine_exact_C_lemma. Qed.
Check newton_affine_exact_C : forall (a b : SolveC.ACR) (tl dl : R) (n : nat) (x0 : SolveC.ACR),
  a <> zero -> dl <> 0%R -> (0 <= tl)%R -> 2 <= n ->
  exists evs, newton_scalar Newton2Inst.NCR (mkCfg tl dl n x0) (fun z => Ok (add (mul a z) b)) =
                Ok (NOk (neg (mul b (SolveC.C_inv a))), evs) /\
              add (mul a (neg (mul b (SolveC.C_inv a)))) b = zero /\ length evs <= 6.
Print Assumptions newton_affine_exact_C.

(* a = i is a nonzero slope; and the divr hypothesis of newton_scalar_affine_exact holds at C for delta = 1/8 *)
Example newton_affine_exact_C_nonvacuous :
  Complex.mkC (A:=SolveR.AR) 0%R 1%R <> (zero : SolveC.ACR) /\
  (forall z : SolveC.ACR,
     divr Newton2Inst.NCR (mul z (add (emb Newton2Inst.NCR (1 / 8)%R) (emb Newton2Inst.NCR (1 / 8)%R)))
          (mul (two Newton2Inst.NCR) (1 / 8)%R) = Ok z).
Proof. split; [exact Newton2Cplx.i_nonzero|]. apply Newton2Cplx.NCR_divr. lra. Qed.

(* sharpness of 2 <= max_iter: with one pass the value is the exact root, the verdict depends on the residual of the guess *)
Theorem newton_sys_affine_one_pass : forall (O : NOps), FieldLaws (NA O) -> PivLaws (NA O) ->
  forall (M : matrix (NA O)) (c0 : list (NA O)) (tl dl : NR O),
  wf M -> rows M = cols M -> 1 <= rows M -> emb O dl <> zero ->
  ltb (mag O zero) (mag O zero) = false -> leb (mag O zero) tl = true ->
  (exists N : nat -> nat -> NA O, left_inverse (rows M) N (ent M)) ->
  forall x0, length x0 = cols M ->
  exists x evs mr, norm_inf O (aff O M c0 x0) = Ok mr /\ is_root O M c0 x /\
    newton_sys O (mkCfg tl dl 1 x0) (fun p => Ok (aff O M c0 p)) = Ok ((if leb mr tl then NOk x else NErr x), evs).
Proof. exact newton_sys_affine_one_pass_lemma. Qed.
Check newton_sys_affine_one_pass : forall (O : NOps), FieldLaws (NA O) -> PivLaws (NA O) ->
  forall (M : matrix (NA O)) (c0 : list (NA O)) (tl dl : NR O),
  wf M -> rows M = cols M -> 1 <= rows M -> emb O dl <> zero ->
  ltb (mag O zero) (mag O zero) = false -> leb (mag O zero) tl = true ->
  (exists N : nat -> nat -> NA O, left_inverse (rows M) N (ent M)) ->
  forall x0, length x0 = cols M ->
  exists x evs mr, norm_inf O (aff O M c0 x0) = Ok mr /\ is_root O M c0 x /\
    newton_sys O (mkCfg tl dl 1 x0) (fun p => Ok (aff O M c0 p)) = Ok ((if leb mr tl then NOk x else NErr x), evs).
Print Assumptions newton_sys_affine_one_pass.
(* non-vacuity: newton_sys_affine_hyps_nonvacuous; on that system from (0,0) the residual norm 5 exceeds tol = 1/1000:
   the real code answers Err (4/5, 7/5) for max_iter = 1 (observed through the executor) *)

(* sharpness of 1 <= rows M: a 0-dimensional system panics in the residual norm (Vector::norm_inf reads vec[0]) *)
Theorem newton_sys_empty_panics : forall (O : NOps) (tl dl : NR O) (n : nat) (f : list (NA O) -> res (list (NA O))),
  f [] = Ok [] -> newton_sys O (mkCfg tl dl (S n) []) f = Panic Index.
Proof. exact newton_sys_empty_panics_lemma. Qed.
Check newton_sys_empty_panics : forall (O : NOps) (tl dl : NR O) (n : nat) (f : list (NA O) -> res (list (NA O))),
  f [] = Ok [] -> newton_sys O (mkCfg tl dl (S n) []) f = Panic Index.
Print Assumptions newton_sys_empty_panics.

Theorem newton_sysjac_empty_panics : forall (O : NOps) (tl dl : NR O) (n : nat) (f : list (NA O) -> res (list (NA O))) jac,
  f [] = Ok [] -> newton_sysjac O (mkCfg tl dl (S n) []) f jac = Panic Index.
Proof. exact newton_sysjac_empty_panics_lemma. Qed.
Check newton_sysjac_empty_panics : forall (O : NOps) (tl dl : NR O) (n : nat) (f : list (NA O) -> res (list (NA O))) jac,
  f [] = Ok [] -> newton_sysjac O (mkCfg tl dl (S n) []) f jac = Panic Index.
Print Assumptions newton_sysjac_empty_panics.

Example newton_sys_empty_panics_nonvacuous : (fun p : list AQ => Ok p) [] = Ok [].
Proof. reflexivity. Qed.

(* ---------------- E. nonlinear systems of ANY dimension, decoupled case (solve_jacobian over R) ----------------
   F(x)_i = f_i(x_i), jac(x) = diag(f_i'(x_i)), i < dim, for arbitrary closures returning these values; each f_i as in
   part B on [a_i, b_i] with common constants m, Mb, L and root r_i.  The dim x dim Gaussian elimination of every pass
   is discharged by C01 (completeness + soundness + a left inverse of the diagonal matrix). *)
Local Open Scope R_scope.
Definition decoupled_system (dim : nat) (f f' : nat -> R -> R) (F : list R -> res (list R)) (Jc : list R -> res (matrix AR)) : Prop :=
  (forall x, length x = dim ->
     exists v, F x = Ok v /\ length v = dim /\ forall i, (i < dim)%nat -> nth i v 0 = f i (nth i x 0)) /\
  (forall x, length x = dim ->
     exists J, Jc x = Ok J /\ wf J /\ rows J = dim /\ cols J = dim /\
       forall i j, (i < dim)%nat -> (j < dim)%nat -> ent J i j = if (i =? j)%nat then f' i (nth i x 0) else 0).
Definition smooth_components (dim : nat) (f f' : nat -> R -> R) (a b r : nat -> R) (m Mb L : R) : Prop :=
  (forall i, (i < dim)%nat -> forall c, a i <= c <= b i -> derivable_pt_lim (f i) c (f' i c)) /\ 0 < m /\ 0 <= L /\
  (forall i, (i < dim)%nat -> forall c, a i <= c <= b i -> m <= Rabs (f' i c)) /\
  (forall i, (i < dim)%nat -> forall c, a i <= c <= b i -> Rabs (f' i c) <= Mb) /\
  (forall i, (i < dim)%nat -> forall u v, a i <= u <= b i -> a i <= v <= b i -> Rabs (f' i u - f' i v) <= L * Rabs (u - v)) /\
  (forall i, (i < dim)%nat -> f i (r i) = 0).

(* one pass, any dimension: x'_i = x_i - f_i(x_i)/f_i'(x_i), the test compares max_i |f_i(x_i)| with tol *)
Theorem sysjac_decoupled_pass : forall (dim : nat) (f f' : nat -> R -> R) F Jc, (1 <= dim)%nat ->
  decoupled_system dim f f' F Jc ->
  forall (tl : R) (x : list R), length x = dim -> (forall i, (i < dim)%nat -> f' i (nth i x 0) <> 0) ->
  exists x' mr e, sysjac_step NRl tl F Jc x = Ok (x', R_leb mr tl, e) /\ length x' = dim /\
    (forall i, (i < dim)%nat -> nth i x' 0 = nth i x 0 - f i (nth i x 0) / f' i (nth i x 0)) /\
    (forall i, (i < dim)%nat -> Rabs (f i (nth i x 0)) <= mr) /\
    (exists i, (i < dim)%nat /\ mr = Rabs (f i (nth i x 0))).
Proof. intros dim f f' F Jc Hd [HF HJ]. exact (diag_pass dim f f' F Jc Hd HF HJ). Qed.
Check sysjac_decoupled_pass : forall (dim : nat) (f f' : nat -> R -> R) F Jc, (1 <= dim)%nat ->
  decoupled_system dim f f' F Jc ->
  forall (tl : R) (x : list R), length x = dim -> (forall i, (i < dim)%nat -> f' i (nth i x 0) <> 0) ->
  exists x' mr e, sysjac_step NRl tl F Jc x = Ok (x', R_leb mr tl, e) /\ length x' = dim /\
    (forall i, (i < dim)%nat -> nth i x' 0 = nth i x 0 - f i (nth i x 0) / f' i (nth i x 0)) /\
    (forall i, (i < dim)%nat -> Rabs (f i (nth i x 0)) <= mr) /\
    (exists i, (i < dim)%nat /\ mr = Rabs (f i (nth i x 0))).
Print Assumptions sysjac_decoupled_pass.

(* sup-norm basin |x0_i - r_i| <= rho with (L/m) rho < 1 inside the intervals: no panic *)
Theorem newton_decoupled_no_panic : forall (dim : nat) (f f' : nat -> R -> R) F Jc, (1 <= dim)%nat ->
  decoupled_system dim f f' F Jc ->
  forall (a b r : nat -> R) (m Mb L rho tl : R), smooth_components dim f f' a b r m Mb L ->
  0 <= rho -> (forall i, (i < dim)%nat -> a i <= r i - rho /\ r i + rho <= b i) -> L / m * rho < 1 ->
  forall (dl : R) (n : nat) (x0 : list R),
  (length x0 = dim /\ forall i, (i < dim)%nat -> Rabs (nth i x0 0 - r i) <= rho) ->
  exists res evs, newton_sysjac NRl (mkCfg tl dl n x0) F Jc = Ok (res, evs).
Proof.
  intros dim f f' F Jc Hd [HF HJ] a b r m Mb L rho tl (H1 & H2 & H3 & H4 & H5 & H6 & H7).
  exact (newton_diag_total_lemma dim f f' F Jc Hd HF HJ a b r m Mb L rho tl H1 H2 H3 H4 H5 H6 H7).
Qed.
Check newton_decoupled_no_panic : forall (dim : nat) (f f' : nat -> R -> R) F Jc, (1 <= dim)%nat ->
  decoupled_system dim f f' F Jc ->
  forall (a b r : nat -> R) (m Mb L rho tl : R), smooth_components dim f f' a b r m Mb L ->
  0 <= rho -> (forall i, (i < dim)%nat -> a i <= r i - rho /\ r i + rho <= b i) -> L / m * rho < 1 ->
  forall (dl : R) (n : nat) (x0 : list R),
  (length x0 = dim /\ forall i, (i < dim)%nat -> Rabs (nth i x0 0 - r i) <= rho) ->
  exists res evs, newton_sysjac NRl (mkCfg tl dl n x0) F Jc = Ok (res, evs).
Print Assumptions newton_decoupled_no_panic.

(* every Ok answer is componentwise within (L/m) (tol/m)^2 of the root *)
Theorem newton_decoupled_ok_close : forall (dim : nat) (f f' : nat -> R -> R) F Jc, (1 <= dim)%nat ->
  decoupled_system dim f f' F Jc ->
  forall (a b r : nat -> R) (m Mb L rho tl : R), smooth_components dim f f' a b r m Mb L ->
  0 <= rho -> (forall i, (i < dim)%nat -> a i <= r i - rho /\ r i + rho <= b i) -> L / m * rho < 1 ->
  forall (dl : R) (n : nat) (x0 x : list R) evs,
  (length x0 = dim /\ forall i, (i < dim)%nat -> Rabs (nth i x0 0 - r i) <= rho) ->
  newton_sysjac NRl (mkCfg tl dl n x0) F Jc = Ok (NOk x, evs) ->
  (length x = dim /\ forall i, (i < dim)%nat -> Rabs (nth i x 0 - r i) <= rho) /\
  forall i, (i < dim)%nat -> Rabs (nth i x 0 - r i) <= L / m * (tl / m * (tl / m)).
Proof.
  intros dim f f' F Jc Hd [HF HJ] a b r m Mb L rho tl (H1 & H2 & H3 & H4 & H5 & H6 & H7).
  exact (newton_diag_ok_close_lemma dim f f' F Jc Hd HF HJ a b r m Mb L rho tl H1 H2 H3 H4 H5 H6 H7).
Qed.
Check newton_decoupled_ok_close : forall (dim : nat) (f f' : nat -> R -> R) F Jc, (1 <= dim)%nat ->
  decoupled_system dim f f' F Jc ->
  forall (a b r : nat -> R) (m Mb L rho tl : R), smooth_components dim f f' a b r m Mb L ->
  0 <= rho -> (forall i, (i < dim)%nat -> a i <= r i - rho /\ r i + rho <= b i) -> L / m * rho < 1 ->
  forall (dl : R) (n : nat) (x0 x : list R) evs,
  (length x0 = dim /\ forall i, (i < dim)%nat -> Rabs (nth i x0 0 - r i) <= rho) ->
  newton_sysjac NRl (mkCfg tl dl n x0) F Jc = Ok (NOk x, evs) ->
  (length x = dim /\ forall i, (i < dim)%nat -> Rabs (nth i x 0 - r i) <= rho) /\
  forall i, (i < dim)%nat -> Rabs (nth i x 0 - r i) <= L / m * (tl / m * (tl / m)).
Print Assumptions newton_decoupled_ok_close.

(* and the answer IS Ok as soon as Mb q^N rho <= tol with q = (L/m) rho and N < max_iter *)
Theorem newton_decoupled_ok : forall (dim : nat) (f f' : nat -> R -> R) F Jc, (1 <= dim)%nat ->
  decoupled_system dim f f' F Jc ->
  forall (a b r : nat -> R) (m Mb L rho tl : R), smooth_components dim f f' a b r m Mb L ->
  0 <= rho -> (forall i, (i < dim)%nat -> a i <= r i - rho /\ r i + rho <= b i) -> L / m * rho < 1 ->
  forall (dl : R) (N n : nat) (x0 : list R),
  (length x0 = dim /\ forall i, (i < dim)%nat -> Rabs (nth i x0 0 - r i) <= rho) ->
  Mb * ((L / m * rho) ^ N * rho) <= tl -> (N < n)%nat ->
  exists x evs, newton_sysjac NRl (mkCfg tl dl n x0) F Jc = Ok (NOk x, evs) /\
    (length x = dim /\ forall i, (i < dim)%nat -> Rabs (nth i x 0 - r i) <= rho) /\
    forall i, (i < dim)%nat -> Rabs (nth i x 0 - r i) <= L / m * (tl / m * (tl / m)).
Proof.
  intros dim f f' F Jc Hd [HF HJ] a b r m Mb L rho tl (H1 & H2 & H3 & H4 & H5 & H6 & H7).
  exact (newton_diag_ok_lemma dim f f' F Jc Hd HF HJ a b r m Mb L rho tl H1 H2 H3 H4 H5 H6 H7).
Qed.
Check newton_decoupled_ok : forall (dim : nat) (f f' : nat -> R -> R) F Jc, (1 <= dim)%nat ->
  decoupled_system dim f f' F Jc ->
  forall (a b r : nat -> R) (m Mb L rho tl : R), smooth_components dim f f' a b r m Mb L ->
  0 <= rho -> (forall i, (i < dim)%nat -> a i <= r i - rho /\ r i + rho <= b i) -> L / m * rho < 1 ->
  forall (dl : R) (N n : nat) (x0 : list R),
  (length x0 = dim /\ forall i, (i < dim)%nat -> Rabs (nth i x0 0 - r i) <= rho) ->
  Mb * ((L / m * rho) ^ N * rho) <= tl -> (N < n)%nat ->
  exists x evs, newton_sysjac NRl (mkCfg tl dl n x0) F Jc = Ok (NOk x, evs) /\
    (length x = dim /\ forall i, (i < dim)%nat -> Rabs (nth i x 0 - r i) <= rho) /\
    forall i, (i < dim)%nat -> Rabs (nth i x 0 - r i) <= L / m * (tl / m * (tl / m)).
Print Assumptions newton_decoupled_ok.

(* (x, y) |-> (x^3 - 2, y^3 - 2) with its diagonal Jacobian, from (5/4, 13/10), rho = 1/10 (q = 2/5), tol = 2, N = 0 *)
Example newton_decoupled_nonvacuous :
  (1 <= 2)%nat /\ decoupled_system 2 (fun _ => cube2) (fun _ => cube2') F2w J2w /\
  smooth_components 2 (fun _ => cube2) (fun _ => cube2') (fun _ => 1) (fun _ => 2) (fun _ => rc) 3 12 12 /\
  0 <= 1 / 10 /\ (forall i, (i < 2)%nat -> 1 <= rc - 1 / 10 /\ rc + 1 / 10 <= 2) /\ 12 / 3 * (1 / 10) < 1 /\
  (length [5 / 4; 13 / 10] = 2%nat /\ forall i, (i < 2)%nat -> Rabs (nth i [5 / 4; 13 / 10] 0 - rc) <= 1 / 10) /\
  12 * ((12 / 3 * (1 / 10)) ^ 0 * (1 / 10)) <= 2 /\ (0 < 1)%nat.
Proof.
  pose proof rc_bounds as Hrc.
  split; [lia|]. split; [split; [exact F2w_spec|exact J2w_spec]|].
  split.
  { split; [intros i _ c _; apply cube2_der|]. split; [lra|]. split; [lra|].
    split; [intros i _; exact cube2_lo|]. split; [intros i _; exact cube2_hi|].
    split; [intros i _; exact cube2_lip|]. intros i _. exact rc_root. }
  split; [lra|]. split; [intros i _; lra|]. split; [lra|]. split; [exact ball2w|].
  split; [cbn [pow]; lra|auto].
Qed.
Local Close Scope R_scope.

(* the same with the FINITE-DIFFERENCE Jacobian (Newton<Vec64>::solve): the Jacobian of a decoupled map is exactly
   diagonal over R (Props/C18.v jacobian_decoupled_diagonal), its diagonal entries are values of f_i' within |delta|
   of x_i, so q = (L/m)(rho + |delta|) and the final distance is (L/m)(tol/m)(tol/m + |delta|) *)
Local Open Scope R_scope.
Definition decoupled_map (dim : nat) (f : nat -> R -> R) (F : list R -> res (list R)) : Prop :=
  forall x, length x = dim ->
    exists v, F x = Ok v /\ length v = dim /\ forall i, (i < dim)%nat -> nth i v 0 = f i (nth i x 0).

Theorem newton_fd_decoupled_no_panic : forall (dim : nat) (f f' : nat -> R -> R) F, (1 <= dim)%nat ->
  decoupled_map dim f F ->
  forall (a b r : nat -> R) (m Mb L rho tl dl : R), smooth_components dim f f' a b r m Mb L ->
  0 <= rho -> dl <> 0 ->
  (forall i, (i < dim)%nat -> a i <= r i - rho - Rabs dl /\ r i + rho + Rabs dl <= b i) ->
  L / m * (rho + Rabs dl) < 1 ->
  forall (n : nat) (x0 : list R),
  (length x0 = dim /\ forall i, (i < dim)%nat -> Rabs (nth i x0 0 - r i) <= rho) ->
  exists res evs, newton_sys NRl (mkCfg tl dl n x0) F = Ok (res, evs).
Proof.
  intros dim f f' F Hd HF a b r m Mb L rho tl dl (H1 & H2 & H3 & H4 & H5 & H6 & H7).
  exact (Newton2DiagFD.newton_fd_decoupled_total_lemma dim f f' F Hd HF a b r m Mb L rho tl dl H1 H2 H3 H4 H5 H6 H7).
Qed.
Check newton_fd_decoupled_no_panic : forall (dim : nat) (f f' : nat -> R -> R) F, (1 <= dim)%nat ->
  decoupled_map dim f F ->
  forall (a b r : nat -> R) (m Mb L rho tl dl : R), smooth_components dim f f' a b r m Mb L ->
  0 <= rho -> dl <> 0 ->
  (forall i, (i < dim)%nat -> a i <= r i - rho - Rabs dl /\ r i + rho + Rabs dl <= b i) ->
  L / m * (rho + Rabs dl) < 1 ->
  forall (n : nat) (x0 : list R),
  (length x0 = dim /\ forall i, (i < dim)%nat -> Rabs (nth i x0 0 - r i) <= rho) ->
  exists res evs, newton_sys NRl (mkCfg tl dl n x0) F = Ok (res, evs).
Print Assumptions newton_fd_decoupled_no_panic.

Theorem newton_fd_decoupled_ok_close : forall (dim : nat) (f f' : nat -> R -> R) F, (1 <= dim)%nat ->
  decoupled_map dim f F ->
  forall (a b r : nat -> R) (m Mb L rho tl dl : R), smooth_components dim f f' a b r m Mb L ->
  0 <= rho -> dl <> 0 ->
  (forall i, (i < dim)%nat -> a i <= r i - rho - Rabs dl /\ r i + rho + Rabs dl <= b i) ->
  L / m * (rho + Rabs dl) < 1 ->
  forall (n : nat) (x0 x : list R) evs,
  (length x0 = dim /\ forall i, (i < dim)%nat -> Rabs (nth i x0 0 - r i) <= rho) ->
  newton_sys NRl (mkCfg tl dl n x0) F = Ok (NOk x, evs) ->
  (length x = dim /\ forall i, (i < dim)%nat -> Rabs (nth i x 0 - r i) <= rho) /\
  forall i, (i < dim)%nat -> Rabs (nth i x 0 - r i) <= L / m * (tl / m * (tl / m + Rabs dl)).
Proof.
  intros dim f f' F Hd HF a b r m Mb L rho tl dl (H1 & H2 & H3 & H4 & H5 & H6 & H7).
  exact (Newton2DiagFD.newton_fd_decoupled_ok_close_lemma dim f f' F Hd HF a b r m Mb L rho tl dl H1 H2 H3 H4 H5 H6 H7).
Qed.
Check newton_fd_decoupled_ok_close : forall (dim : nat) (f f' : nat -> R -> R) F, (1 <= dim)%nat ->
  decoupled_map dim f F ->
  forall (a b r : nat -> R) (m Mb L rho tl dl : R), smooth_components dim f f' a b r m Mb L ->
  0 <= rho -> dl <> 0 ->
  (forall i, (i < dim)%nat -> a i <= r i - rho - Rabs dl /\ r i + rho + Rabs dl <= b i) ->
  L / m * (rho + Rabs dl) < 1 ->
  forall (n : nat) (x0 x : list R) evs,
  (length x0 = dim /\ forall i, (i < dim)%nat -> Rabs (nth i x0 0 - r i) <= rho) ->
  newton_sys NRl (mkCfg tl dl n x0) F = Ok (NOk x, evs) ->
  (length x = dim /\ forall i, (i < dim)%nat -> Rabs (nth i x 0 - r i) <= rho) /\
  forall i, (i < dim)%nat -> Rabs (nth i x 0 - r i) <= L / m * (tl / m * (tl / m + Rabs dl)).
Print Assumptions newton_fd_decoupled_ok_close.

Theorem newton_fd_decoupled_ok : forall (dim : nat) (f f' : nat -> R -> R) F, (1 <= dim)%nat ->
  decoupled_map dim f F ->
  forall (a b r : nat -> R) (m Mb L rho tl dl : R), smooth_components dim f f' a b r m Mb L ->
  0 <= rho -> dl <> 0 ->
  (forall i, (i < dim)%nat -> a i <= r i - rho - Rabs dl /\ r i + rho + Rabs dl <= b i) ->
  L / m * (rho + Rabs dl) < 1 ->
  forall (N n : nat) (x0 : list R),
  (length x0 = dim /\ forall i, (i < dim)%nat -> Rabs (nth i x0 0 - r i) <= rho) ->
  Mb * ((L / m * (rho + Rabs dl)) ^ N * rho) <= tl -> (N < n)%nat ->
  exists x evs, newton_sys NRl (mkCfg tl dl n x0) F = Ok (NOk x, evs) /\
    (length x = dim /\ forall i, (i < dim)%nat -> Rabs (nth i x 0 - r i) <= rho) /\
    forall i, (i < dim)%nat -> Rabs (nth i x 0 - r i) <= L / m * (tl / m * (tl / m + Rabs dl)).
Proof.
  intros dim f f' F Hd HF a b r m Mb L rho tl dl (H1 & H2 & H3 & H4 & H5 & H6 & H7).
  exact (Newton2DiagFD.newton_fd_decoupled_ok_lemma dim f f' F Hd HF a b r m Mb L rho tl dl H1 H2 H3 H4 H5 H6 H7).
Qed.
Check newton_fd_decoupled_ok : forall (dim : nat) (f f' : nat -> R -> R) F, (1 <= dim)%nat ->
  decoupled_map dim f F ->
  forall (a b r : nat -> R) (m Mb L rho tl dl : R), smooth_components dim f f' a b r m Mb L ->
  0 <= rho -> dl <> 0 ->
  (forall i, (i < dim)%nat -> a i <= r i - rho - Rabs dl /\ r i + rho + Rabs dl <= b i) ->
  L / m * (rho + Rabs dl) < 1 ->
  forall (N n : nat) (x0 : list R),
  (length x0 = dim /\ forall i, (i < dim)%nat -> Rabs (nth i x0 0 - r i) <= rho) ->
  Mb * ((L / m * (rho + Rabs dl)) ^ N * rho) <= tl -> (N < n)%nat ->
  exists x evs, newton_sys NRl (mkCfg tl dl n x0) F = Ok (NOk x, evs) /\
    (length x = dim /\ forall i, (i < dim)%nat -> Rabs (nth i x 0 - r i) <= rho) /\
    forall i, (i < dim)%nat -> Rabs (nth i x 0 - r i) <= L / m * (tl / m * (tl / m + Rabs dl)).
Print Assumptions newton_fd_decoupled_ok.

(* the system of newton_decoupled_nonvacuous with delta = 1/10: q = 4/5 *)
Example newton_fd_decoupled_nonvacuous :
  decoupled_map 2 (fun _ => cube2) F2w /\ 1 / 10 <> 0 /\
  (forall i, (i < 2)%nat -> 1 <= rc - 1 / 10 - Rabs (1 / 10) /\ rc + 1 / 10 + Rabs (1 / 10) <= 2) /\
  12 / 3 * (1 / 10 + Rabs (1 / 10)) < 1 /\
  12 * ((12 / 3 * (1 / 10 + Rabs (1 / 10))) ^ 0 * (1 / 10)) <= 2.
Proof.
  pose proof rc_bounds as Hrc. rewrite (Rabs_right (1 / 10)) by lra.
  split; [exact F2w_spec|]. split; [lra|]. split; [intros i _; lra|]. split; [lra|cbn [pow]; lra].
Qed.
Local Close Scope R_scope.
(* ---- tie of the model to the source of this run (package r2c2): gen/SrcNewton.v / gen/SrcNewtonC.v are regenerated from
   src/newton.rs and src/matrix/functions.rs by driver/rust2coq.py on every check run; Proofs/SrcEqNewton.v and
   Proofs/SrcEqNewtonC.v prove ERASURE -- each of the six regenerated solve methods and of the two finite-difference Jacobians
   equals the instrumented model of Model/Newton.v (at NReal A resp. NCplx S) with the recorded call points projected away,
   for every arithmetic, every configuration and every closure (an arbitrary function X -> res X); panics included. *)
From OV Require Proofs.SrcEqNewton.
Theorem model_is_source_C17_Newton : forall A : Arith, @SrcEqNewton.model_is_source_Newton A.
Proof. intros A. exact SrcEqNewton.model_is_source_Newton_lemma. Qed.
Check model_is_source_C17_Newton : forall A : Arith, @SrcEqNewton.model_is_source_Newton A.
Print Assumptions model_is_source_C17_Newton.
From OV Require Proofs.SrcEqNewtonC.
Theorem model_is_source_C17_NewtonC : forall S : SArith, @SrcEqNewtonC.model_is_source_NewtonC S.
Proof. intros S. exact SrcEqNewtonC.model_is_source_NewtonC_lemma. Qed.
Check model_is_source_C17_NewtonC : forall S : SArith, @SrcEqNewtonC.model_is_source_NewtonC S.
Print Assumptions model_is_source_C17_NewtonC.
(* ---- tie of the model to the source of this run (package r2c2): gen/SrcWrapNewton.v is regenerated on every check run from
   src/newton.rs: the setters tolerance / delta / iterations / guess and parameters;
   Proofs/SrcEqWrapNewton.v proves each regenerated function equal to its hand-written model. *)
From OV Require Proofs.SrcEqWrapNewton.
Theorem model_is_source_C17_WrapNewton : forall A : Arith, @SrcEqWrapNewton.model_is_source_WrapNewton A.
Proof. intros A. exact SrcEqWrapNewton.model_is_source_WrapNewton_lemma. Qed.
Check model_is_source_C17_WrapNewton : forall A : Arith, @SrcEqWrapNewton.model_is_source_WrapNewton A.
Print Assumptions model_is_source_C17_WrapNewton.
(* ---- the callee Vec64::norm_inf of the vector solvers: the regenerated function (gen/SrcVec64.v, f64::abs instantiated by
   the arithmetic's abs) is the loop formulation Newton.norm_inf (NReal _) the Newton model calls *)
Theorem model_is_source_C17_norm_inf : forall (F : SArith) (v : list (T (SA F))),
  OV.gen.SrcVec64.s_norm_inf (@OV.Base.Arith.abs (SA F)) v = OV.Model.Newton.norm_inf (OV.Model.Newton.NReal (SA F)) v.
Proof. intros F v. exact (SrcEqNewton.callee_norm_inf v). Qed.
Check model_is_source_C17_norm_inf : forall (F : SArith) (v : list (T (SA F))),
  OV.gen.SrcVec64.s_norm_inf (@OV.Base.Arith.abs (SA F)) v = OV.Model.Newton.norm_inf (OV.Model.Newton.NReal (SA F)) v.
Print Assumptions model_is_source_C17_norm_inf.
(* non-vacuity: the regenerated Newton<f64>::solve runs (float instance, f(x) = x*x - 2 from x0 = 1) and returns Ok(sqrt 2) *)
From Coq Require Import Floats.
From OV Require Import Inst.FloatInst.
Example model_is_source_C17_Newton_nonvacuous :
  SrcNewton.s_newton_solve_f64 (A:=AF) (@mkCfg (T AF) (T AF) 0x1p-30%float 0x1p-27%float 20 1%float) (fun x : T AF => Ok (x*x - 2)%float)
  = Ok (NOk 0x1.6a09e667f3bcdp+0%float).
Proof. vm_compute. reflexivity. Qed.
