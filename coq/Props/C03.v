(* Props/C03.v -- property theorems only. *)
From Coq Require Import List Arith.
From OV Require Import Base.Panic Base.Arith Model.Vector Model.Matrix Model.MatOps.
