(* Props/C03.v -- property theorems only: Theorem / exact lemma / Check (pins the statement) / Print Assumptions. *)
From Coq Require Import List Arith.
From OV Require Import Base.Panic Base.Arith Model.Vector Model.Matrix Model.MatOps Proofs.Matrix.

Theorem mat_new_wf : forall (A : Arith) r c (x : A),
  wf (mat_new r c x) /\ rows (mat_new r c x) = r /\ cols (mat_new r c x) = c.
Proof. intros A r c x. exact (mat_new_wf_lemma r c x). Qed.
Check mat_new_wf : forall (A : Arith) r c (x : A),
  wf (mat_new r c x) /\ rows (mat_new r c x) = r /\ cols (mat_new r c x) = c.
Print Assumptions mat_new_wf.
