(* Props/C12.v -- stub, to be filled in *)
