(* Props/C12.v -- polynomial division: u = q*v + r, deg r < deg v, for every divisor with a nonzero leading
   coefficient; zero divisors are an error; the routine never panics or spins.
   Property theorems only: Theorem / exact lemma / Check (pins the statement) / Print Assumptions.

   polydiv : list A -> list A -> res (list A * list A + pderr)   (Model/Poly.v, the code after repair e504d5d)
     Ok (inl (q, r))    the Rust Ok((q, r))
     Ok (inr EZeroDiv)  Err("... divide by zero polynomial")
     Ok (inr EMaxIter)  Err("... exceeded maximum iterations")      Panic k : the Rust code would panic
   POLYDIV_MAX is regenerated from the source constant MAX on every check run (gen/Params.v).

   What is NOT proved: the size of the floating-point residual u - (q*v + r) (searched by the driver). *)
From Coq Require Import List Arith ZArith.
From OV Require Import Base.Panic Base.Arith gen.Params Inst.QcInst Inst.FloatInst Model.Complex Model.Poly
  Proofs.Poly Proofs.PolyDiv Proofs.PolyDivUnique Legacy.C12Refuted.
Import ListNotations.

(* ---------------------------------------------------------------- every arithmetic: never spins, never panics *)
(* No algebraic law is assumed: only that 0 == 0 and that division by a value that is not == 0 returns.
   Both hold for f64 and Complex<f64> (division never panics there) as much as for exact rationals. *)
Theorem polydiv_terminates_any_arith : forall (A : Arith), eqb (@zero A) zero = true ->
  (forall x y : A, eqb y zero = false -> exists z, div x y = Ok z) ->
  forall u v : list A, v <> [] -> is_zero v = false -> eqb (last v zero) zero = false -> length u <= POLYDIV_MAX ->
  exists q r, polydiv u v = Ok (inl (q, r)) /\ (is_zero r = true \/ length r < length v).
Proof. intros A H0 Hd u v Nv Zv Lv Lu. exact (polydiv_total H0 Hd u v Nv Zv Lv Lu). Qed.
Check polydiv_terminates_any_arith : forall (A : Arith), eqb (@zero A) zero = true ->
  (forall x y : A, eqb y zero = false -> exists z, div x y = Ok z) ->
  forall u v : list A, v <> [] -> is_zero v = false -> eqb (last v zero) zero = false -> length u <= POLYDIV_MAX ->
  exists q r, polydiv u v = Ok (inl (q, r)) /\ (is_zero r = true \/ length r < length v).
Print Assumptions polydiv_terminates_any_arith.
(* non-vacuous: binary64 with the committed witness of the repaired defect, (x^2+2x+1) / (49x+1)
   (stated in Legacy/C12Refuted.v, where the float notations are open) *)
Example polydiv_terminates_any_arith_nonvacuous :
  eqb (@zero AF) zero = true /\ (forall x y : AF, eqb y zero = false -> exists z, div x y = Ok z) /\
  witness2_v <> [] /\ is_zero witness2_v = false /\
  eqb (last witness2_v zero) zero = false /\ length witness2_u <= POLYDIV_MAX.
Proof. exact any_arith_hyps_hold_on_witness2. Qed.

(* ... and the loop body runs at most length u = deg u + 1 times: any fuel >= length u gives the same answer *)
Theorem polydiv_passes_bounded : forall (A : Arith), eqb (@zero A) zero = true ->
  (forall x y : A, eqb y zero = false -> exists z, div x y = Ok z) ->
  forall u v : list A, v <> [] -> is_zero v = false -> eqb (last v zero) zero = false -> length u <= POLYDIV_MAX ->
  forall fuel, length u <= fuel -> polydiv_loop fuel 0 [] u v = polydiv u v.
Proof. intros A H0 Hd u v Nv Zv Lv Lu. exact (polydiv_passes H0 Hd u v Nv Zv Lv Lu). Qed.
Check polydiv_passes_bounded : forall (A : Arith), eqb (@zero A) zero = true ->
  (forall x y : A, eqb y zero = false -> exists z, div x y = Ok z) ->
  forall u v : list A, v <> [] -> is_zero v = false -> eqb (last v zero) zero = false -> length u <= POLYDIV_MAX ->
  forall fuel, length u <= fuel -> polydiv_loop fuel 0 [] u v = polydiv u v.
Print Assumptions polydiv_passes_bounded.

(* the two float instances, hypotheses discharged: EVERY f64 / Complex<f64> input *)
Theorem polydiv_terminates_f64 : forall u v : list AF,
  v <> [] -> is_zero v = false -> eqb (last v zero) zero = false -> length u <= POLYDIV_MAX ->
  exists q r, polydiv u v = Ok (inl (q, r)) /\ (is_zero r = true \/ length r < length v).
Proof. exact (@polydiv_total AF eq_refl (fun x y _ => ex_intro _ _ eq_refl)). Qed.
Check polydiv_terminates_f64 : forall u v : list AF,
  v <> [] -> is_zero v = false -> eqb (last v zero) zero = false -> length u <= POLYDIV_MAX ->
  exists q r, polydiv u v = Ok (inl (q, r)) /\ (is_zero r = true \/ length r < length v).
Print Assumptions polydiv_terminates_f64.
Print Assumptions polydiv_zero_divisor_lemma.   (* closed; ends the listing of float primitives above for the driver's parser *)

Theorem polydiv_terminates_complex_f64 : forall u v : list ACF,
  v <> [] -> is_zero v = false -> eqb (last v zero) zero = false -> length u <= POLYDIV_MAX ->
  exists q r, polydiv u v = Ok (inl (q, r)) /\ (is_zero r = true \/ length r < length v).
Proof. exact (@polydiv_total ACF eq_refl (fun x y _ => ex_intro _ _ eq_refl)). Qed.
Check polydiv_terminates_complex_f64 : forall u v : list ACF,
  v <> [] -> is_zero v = false -> eqb (last v zero) zero = false -> length u <= POLYDIV_MAX ->
  exists q r, polydiv u v = Ok (inl (q, r)) /\ (is_zero r = true \/ length r < length v).
Print Assumptions polydiv_terminates_complex_f64.
Print Assumptions polydiv_zero_divisor_lemma.   (* closed; ends the listing of float primitives above for the driver's parser *)

(* EVERY f64 / Complex<f64> input (NaN, infinities, zero leading coefficient included) is classified: the error value
   exactly for the empty / all-zero divisor, otherwise Ok(q, r) with r zero or shorter than v -- never a panic, never
   the iteration cap ("the routine never panics or spins", for dividends of at most MAX coefficients) *)
Theorem polydiv_f64_outcomes : forall u v : list AF, length u <= POLYDIV_MAX ->
  ((v = [] \/ is_zero v = true) /\ polydiv u v = Ok (inr EZeroDiv)) \/
  (v <> [] /\ is_zero v = false /\
   exists q r, polydiv u v = Ok (inl (q, r)) /\ (is_zero r = true \/ length r < length v)).
Proof. exact (@polydiv_outcomes AF eq_refl (fun x y => ex_intro _ _ eq_refl)). Qed.
Check polydiv_f64_outcomes : forall u v : list AF, length u <= POLYDIV_MAX ->
  ((v = [] \/ is_zero v = true) /\ polydiv u v = Ok (inr EZeroDiv)) \/
  (v <> [] /\ is_zero v = false /\
   exists q r, polydiv u v = Ok (inl (q, r)) /\ (is_zero r = true \/ length r < length v)).
Print Assumptions polydiv_f64_outcomes.
Print Assumptions polydiv_zero_divisor_lemma.   (* closed; ends the listing of float primitives above for the driver's parser *)
Theorem polydiv_complex_f64_outcomes : forall u v : list ACF, length u <= POLYDIV_MAX ->
  ((v = [] \/ is_zero v = true) /\ polydiv u v = Ok (inr EZeroDiv)) \/
  (v <> [] /\ is_zero v = false /\
   exists q r, polydiv u v = Ok (inl (q, r)) /\ (is_zero r = true \/ length r < length v)).
Proof. exact (@polydiv_outcomes ACF eq_refl (fun x y => ex_intro _ _ eq_refl)). Qed.
Check polydiv_complex_f64_outcomes : forall u v : list ACF, length u <= POLYDIV_MAX ->
  ((v = [] \/ is_zero v = true) /\ polydiv u v = Ok (inr EZeroDiv)) \/
  (v <> [] /\ is_zero v = false /\
   exists q r, polydiv u v = Ok (inl (q, r)) /\ (is_zero r = true \/ length r < length v)).
Print Assumptions polydiv_complex_f64_outcomes.
Print Assumptions polydiv_zero_divisor_lemma.   (* closed; ends the listing of float primitives above for the driver's parser *)
(* whenever the answer is Ok(q, r), r is zero or formally shorter than v -- every arithmetic, no hypothesis *)
Theorem polydiv_remainder_degree : forall (A : Arith) (u v q r : list A),
  polydiv u v = Ok (inl (q, r)) -> is_zero r = true \/ length r < length v.
Proof. intros A u v q r E. exact (polydiv_exit u v q r E). Qed.
Check polydiv_remainder_degree : forall (A : Arith) (u v q r : list A),
  polydiv u v = Ok (inl (q, r)) -> is_zero r = true \/ length r < length v.
Print Assumptions polydiv_remainder_degree.

(* ---------------------------------------------------------------- zero divisors are the error value, never a panic *)
Theorem polydiv_zero_divisor : forall (A : Arith) (u v : list A),
  (v = [] \/ is_zero v = true) -> polydiv u v = Ok (inr EZeroDiv).
Proof. intros A u v H. exact (polydiv_zero_divisor_lemma u v H). Qed.
Check polydiv_zero_divisor : forall (A : Arith) (u v : list A),
  (v = [] \/ is_zero v = true) -> polydiv u v = Ok (inr EZeroDiv).
Print Assumptions polydiv_zero_divisor.
Example polydiv_zero_divisor_nonvacuous : is_zero ([q 0 1; q 0 1; q 0 1] : list AQ) = true.
Proof. reflexivity. Qed.

(* ---------------------------------------------------------------- any field: u = q*v + r *)
Theorem polydiv_identity : forall (A : Arith), FieldLaws A -> forall u v q r : list A,
  polydiv u v = Ok (inl (q, r)) -> forall k, nth k u zero = nth k (padd (pmul q v) r) zero.
Proof. intros A FL u v q r E k. exact (polydiv_identity_lemma FL u v q r E k). Qed.
Check polydiv_identity : forall (A : Arith), FieldLaws A -> forall u v q r : list A,
  polydiv u v = Ok (inl (q, r)) -> forall k, nth k u zero = nth k (padd (pmul q v) r) zero.
Print Assumptions polydiv_identity.
Example polydiv_identity_nonvacuous :
  exists q' r', polydiv ([q 1 1; q 2 1; q 1 1; q (-3) 2] : list AQ) [q 1 1; q 49 1] = Ok (inl (q', r')) /\ length q' = 3.
Proof. eexists; eexists. split; vm_compute; reflexivity. Qed.

(* the headline over a field: every divisor with a nonzero leading coefficient *)
Theorem polydiv_field : forall (A : Arith), FieldLaws A -> forall u v : list A,
  v <> [] -> last v zero <> zero -> length u <= POLYDIV_MAX ->
  exists q r, polydiv u v = Ok (inl (q, r)) /\ (is_zero r = true \/ length r < length v) /\
              forall k, nth k u zero = nth k (padd (pmul q v) r) zero.
Proof. intros A FL u v Nv Lv Lu. exact (polydiv_field_total_lemma FL u v Nv Lv Lu). Qed.
Check polydiv_field : forall (A : Arith), FieldLaws A -> forall u v : list A,
  v <> [] -> last v zero <> zero -> length u <= POLYDIV_MAX ->
  exists q r, polydiv u v = Ok (inl (q, r)) /\ (is_zero r = true \/ length r < length v) /\
              forall k, nth k u zero = nth k (padd (pmul q v) r) zero.
Print Assumptions polydiv_field.
Example polydiv_field_nonvacuous :
  ([q 1 1; q 49 1] : list AQ) <> [] /\ last ([q 1 1; q 49 1] : list AQ) zero <> zero /\
  length ([q 1 1; q 2 1; q 1 1] : list AQ) <= POLYDIV_MAX.
Proof. split; [discriminate|]. split; [discriminate|]. apply Nat.leb_le. vm_compute. reflexivity. Qed.

(* ... and that specification determines q and r (as polynomials): polydiv computes THE Euclidean division *)
Theorem polydiv_unique : forall (A : Arith), FieldLaws A -> forall u v q r q' r' : list A,
  v <> [] -> last v zero <> zero ->
  (forall k, nth k u zero = nth k (padd (pmul q v) r) zero) -> (is_zero r = true \/ length r < length v) ->
  (forall k, nth k u zero = nth k (padd (pmul q' v) r') zero) -> (is_zero r' = true \/ length r' < length v) ->
  (forall k, nth k q zero = nth k q' zero) /\ (forall k, nth k r zero = nth k r' zero).
Proof. intros A FL u v q r q' r' Nv Lv I1 S1 I2 S2. exact (polydiv_unique_lemma FL v Nv Lv u q r q' r' I1 S1 I2 S2). Qed.
Check polydiv_unique : forall (A : Arith), FieldLaws A -> forall u v q r q' r' : list A,
  v <> [] -> last v zero <> zero ->
  (forall k, nth k u zero = nth k (padd (pmul q v) r) zero) -> (is_zero r = true \/ length r < length v) ->
  (forall k, nth k u zero = nth k (padd (pmul q' v) r') zero) -> (is_zero r' = true \/ length r' < length v) ->
  (forall k, nth k q zero = nth k q' zero) /\ (forall k, nth k r zero = nth k r' zero).
Print Assumptions polydiv_unique.
Example polydiv_unique_nonvacuous :
  ([q 1 1; q 49 1] : list AQ) <> [] /\ last ([q 1 1; q 49 1] : list AQ) zero <> zero /\
  (forall k, nth k ([q 1 1; q 50 1; q 49 1] : list AQ) zero = nth k (padd (pmul ([q 1 1; q 1 1] : list AQ) [q 1 1; q 49 1]) [q 0 1]) zero) /\
  is_zero ([q 0 1] : list AQ) = true.
Proof.
  split; [discriminate|]. split; [discriminate|]. split; [|reflexivity].
  intros k. do 4 (destruct k as [|k]; [apply Qc_eqb_spec; vm_compute; reflexivity|]). now destruct k.
Qed.

(* the same at Qc, hypothesis discharged *)
Theorem polydiv_Qc : forall u v : list AQ,
  v <> [] -> last v zero <> zero -> length u <= POLYDIV_MAX ->
  exists q r, polydiv u v = Ok (inl (q, r)) /\ (is_zero r = true \/ length r < length v) /\
              forall k, nth k u zero = nth k (padd (pmul q v) r) zero.
Proof. exact (polydiv_field_total_lemma AQ_FieldLaws). Qed.
Check polydiv_Qc : forall u v : list AQ,
  v <> [] -> last v zero <> zero -> length u <= POLYDIV_MAX ->
  exists q r, polydiv u v = Ok (inl (q, r)) /\ (is_zero r = true \/ length r < length v) /\
              forall k, nth k u zero = nth k (padd (pmul q v) r) zero.
Print Assumptions polydiv_Qc.

(* ---------------------------------------------------------------- the pre-repair loop is refuted by the same hypotheses *)
(* (Legacy/C12Refuted.v) binary64, u = x, v = 49x: every hypothesis of polydiv_terminates_any_arith holds, the legacy
   loop returns the iteration-cap error, the repaired one returns Ok -- the theorem above separates the two. *)
Theorem polydiv_legacy_is_refuted :
  exists u v : list AF,
    v <> [] /\ is_zero v = false /\ eqb (last v zero) zero = false /\ length u <= POLYDIV_MAX /\
    polydiv_legacy u v = Ok (inr EMaxIter) /\
    exists q r, polydiv u v = Ok (inl (q, r)).
Proof. exact polydiv_legacy_refuted. Qed.
Check polydiv_legacy_is_refuted :
  exists u v : list AF,
    v <> [] /\ is_zero v = false /\ eqb (last v zero) zero = false /\ length u <= POLYDIV_MAX /\
    polydiv_legacy u v = Ok (inr EMaxIter) /\
    exists q r, polydiv u v = Ok (inl (q, r)).
Print Assumptions polydiv_legacy_is_refuted.
Print Assumptions polydiv_zero_divisor_lemma.   (* closed; ends the listing of float primitives above for the driver's parser *)

(* ---- tie to the source by proof (package r2c): the functions regenerated from /repo/src on this run by the Rust-subset ->
   Gallina translator (driver/rust2coq.py -> gen/Src*.v) are equal, for all arguments, to the hand-written model functions
   the theorems above are about (Proofs/SrcEq*.v).  A change of a loop bound, index, operator or statement order in the
   source breaks the corresponding src_<function> lemma and with it this obligation. *)
From OV Require Proofs.SrcEqPoly.
Theorem model_is_source_C12_Poly : forall A : Arith, @SrcEqPoly.model_is_source_Poly A.
Proof. intros A. exact SrcEqPoly.model_is_source_Poly_lemma. Qed.
Check model_is_source_C12_Poly : forall A : Arith, @SrcEqPoly.model_is_source_Poly A.
Print Assumptions model_is_source_C12_Poly.
