(* Props/C12.v -- polynomial division: u = q*v + r, deg r < deg v, for every divisor with a nonzero leading
   coefficient; zero divisors are an error; the routine never panics or spins.
   Property theorems only: Theorem / exact lemma / Check (pins the statement) / Print Assumptions.

   polydiv : list A -> list A -> res (list A * list A + pderr)   (Model/Poly.v, the code after repair e504d5d)
     Ok (inl (q, r))    the Rust Ok((q, r))
     Ok (inr EZeroDiv)  Err("... divide by zero polynomial")
     Ok (inr EMaxIter)  Err("... exceeded maximum iterations")      Panic k : the Rust code would panic
   POLYDIV_MAX is regenerated from the source constant MAX on every check run (gen/Params.v).

   What is NOT proved: the size of the floating-point residual u - (q*v + r) (searched by the driver). *)
From Coq Require Import List Arith ZArith.
From OV Require Import Base.Panic Base.Arith gen.Params Inst.QcInst Inst.FloatInst Model.Complex Model.Poly
  Proofs.Poly Proofs.PolyDiv Proofs.PolyDivUnique Legacy.C12Refuted.
Import ListNotations.

(* ---------------------------------------------------------------- every arithmetic: never spins, never panics *)
(* No algebraic law is assumed: only that 0 == 0 and that division by a value that is not == 0 returns.
   Both hold for f64 and Complex<f64> (division never panics there) as much as for exact rationals. *)
Theorem polydiv_terminates_any_arith : forall (A : Arith), eqb (@zero A) zero = true ->
  (forall x y : A, eqb y zero = false -> exists z, div x y = Ok z) ->
  forall u v : list A, v <> [] -> is_zero v = false -> eqb (last v zero) zero = false -> length u <= POLYDIV_MAX ->
  exists q r, polydiv u v = Ok (inl (q, r)) /\ (is_zero r = true \/ length r < length v).
Proof. intros A H0 Hd u v Nv Zv Lv Lu. exact (polydiv_total H0 Hd u v Nv Zv Lv Lu). Qed.
Check polydiv_terminates_any_arith : forall (A : Arith), eqb (@zero A) zero = true ->
  (forall x y : A, eqb y zero = false -> exists z, div x y = Ok z) ->
  forall u v : list A, v <> [] -> is_zero v = false -> eqb (last v zero) zero = false -> length u <= POLYDIV_MAX ->
  exists q r, polydiv u v = Ok (inl (q, r)) /\ (is_zero r = true \/ length r < length v).
Print Assumptions polydiv_terminates_any_arith.
(* non-vacuous: binary64 with the committed witness of the repaired defect, (x^2+2x+1) / (49x+1)
   (stated in Legacy/C12Refuted.v, where the float notations are open) *)
Example polydiv_terminates_any_arith_nonvacuous :
  eqb (@zero AF) zero = true /\ (forall x y : AF, eqb y zero = false -> exists z, div x y = Ok z) /\
  witness2_v <> [] /\ is_zero witness2_v = false /\
  eqb (last witness2_v zero) zero = false /\ length witness2_u <= POLYDIV_MAX.
Proof. exact any_arith_hyps_hold_on_witness2. Qed.

(* ... and the loop body runs at most length u = deg u + 1 times: any fuel >= length u gives the same answer *)
Theorem polydiv_passes_bounded : forall (A : Arith), eqb (@zero A) zero = true ->
  (forall x y : A, eqb y zero = false -> exists z, div x y = Ok z) ->
  forall u v : list A, v <> [] -> is_zero v = false -> eqb (last v zero) zero = false -> length u <= POLYDIV_MAX ->
  forall fuel, length u <= fuel -> polydiv_loop fuel 0 [] u v = polydiv u v.
Proof. intros A H0 Hd u v Nv Zv Lv Lu. exact (polydiv_passes H0 Hd u v Nv Zv Lv Lu). Qed.
Check polydiv_passes_bounded : forall (A : Arith), eqb (@zero A) zero = true ->
  (forall x y : A, eqb y zero = false -> exists z, div x y = Ok z) ->
  forall u v : list A, v <> [] -> is_zero v = false -> eqb (last v zero) zero = false -> length u <= POLYDIV_MAX ->
  forall fuel, length u <= fuel -> polydiv_loop fuel 0 [] u v = polydiv u v.
Print Assumptions polydiv_passes_bounded.

(* the two float instances, hypotheses discharged: EVERY f64 / Complex<f64> input *)
Theorem polydiv_terminates_f64 : forall u v : list AF,
  v <> [] -> is_zero v = false -> eqb (last v zero) zero = false -> length u <= POLYDIV_MAX ->
  exists q r, polydiv u v = Ok (inl (q, r)) /\ (is_zero r = true \/ length r < length v).
Proof. exact (@polydiv_total AF eq_refl (fun x y _ => ex_intro _ _ eq_refl)). Qed.
Check polydiv_terminates_f64 : forall u v : list AF,
  v <> [] -> is_zero v = false -> eqb (last v zero) zero = false -> length u <= POLYDIV_MAX ->
  exists q r, polydiv u v = Ok (inl (q, r)) /\ (is_zero r = true \/ length r < length v).
Print Assumptions polydiv_terminates_f64.
Print Assumptions polydiv_zero_divisor_lemma.   (* closed; ends the listing of float primitives above for the driver's parser *)

Theorem polydiv_terminates_complex_f64 : forall u v : list ACF,
  v <> [] -> is_zero v = false -> eqb (last v zero) zero = false -> length u <= POLYDIV_MAX ->
  exists q r, polydiv u v = Ok (inl (q, r)) /\ (is_zero r = true \/ length r < length v).
Proof. exact (@polydiv_total ACF eq_refl (fun x y _ => ex_intro _ _ eq_refl)). Qed.
Check polydiv_terminates_complex_f64 : forall u v : list ACF,
  v <> [] -> is_zero v = false -> eqb (last v zero) zero = false -> length u <= POLYDIV_MAX ->
  exists q r, polydiv u v = Ok (inl (q, r)) /\ (is_zero r = true \/ length r < length v).
Print Assumptions polydiv_terminates_complex_f64.
Print Assumptions polydiv_zero_divisor_lemma.   (* closed; ends the listing of float primitives above for the driver's parser *)

(* EVERY f64 / Complex<f64> input (NaN, infinities, zero leading coefficient included) is classified: the error value
   exactly for the empty / all-zero divisor, otherwise Ok(q, r) with r zero or shorter than v -- never a panic, never
   the iteration cap ("the routine never panics or spins", for dividends of at most MAX coefficients) *)
Theorem polydiv_f64_outcomes : forall u v : list AF, length u <= POLYDIV_MAX ->
  ((v = [] \/ is_zero v = true) /\ polydiv u v = Ok (inr EZeroDiv)) \/
  (v <> [] /\ is_zero v = false /\
   exists q r, polydiv u v = Ok (inl (q, r)) /\ (is_zero r = true \/ length r < length v)).
Proof. exact (@polydiv_outcomes AF eq_refl (fun x y => ex_intro _ _ eq_refl)). Qed.
Check polydiv_f64_outcomes : forall u v : list AF, length u <= POLYDIV_MAX ->
  ((v = [] \/ is_zero v = true) /\ polydiv u v = Ok (inr EZeroDiv)) \/
  (v <> [] /\ is_zero v = false /\
   exists q r, polydiv u v = Ok (inl (q, r)) /\ (is_zero r = true \/ length r < length v)).
Print Assumptions polydiv_f64_outcomes.
Print Assumptions polydiv_zero_divisor_lemma.   (* closed; ends the listing of float primitives above for the driver's parser *)
Theorem polydiv_complex_f64_outcomes : forall u v : list ACF, length u <= POLYDIV_MAX ->
  ((v = [] \/ is_zero v = true) /\ polydiv u v = Ok (inr EZeroDiv)) \/
  (v <> [] /\ is_zero v = false /\
   exists q r, polydiv u v = Ok (inl (q, r)) /\ (is_zero r = true \/ length r < length v)).
Proof. exact (@polydiv_outcomes ACF eq_refl (fun x y => ex_intro _ _ eq_refl)). Qed.
Check polydiv_complex_f64_outcomes : forall u v : list ACF, length u <= POLYDIV_MAX ->
  ((v = [] \/ is_zero v = true) /\ polydiv u v = Ok (inr EZeroDiv)) \/
  (v <> [] /\ is_zero v = false /\
   exists q r, polydiv u v = Ok (inl (q, r)) /\ (is_zero r = true \/ length r < length v)).
Print Assumptions polydiv_complex_f64_outcomes.
Print Assumptions polydiv_zero_divisor_lemma.   (* closed; ends the listing of float primitives above for the driver's parser *)
(* whenever the answer is Ok(q, r), r is zero or formally shorter than v -- every arithmetic, no hypothesis *)
Theorem polydiv_remainder_degree : forall (A : Arith) (u v q r : list A),
  polydiv u v = Ok (inl (q, r)) -> is_zero r = true \/ length r < length v.
Proof. intros A u v q r E. exact (polydiv_exit u v q r E). Qed.
Check polydiv_remainder_degree : forall (A : Arith) (u v q r : list A),
  polydiv u v = Ok (inl (q, r)) -> is_zero r = true \/ length r < length v.
Print Assumptions polydiv_remainder_degree.

(* ---------------------------------------------------------------- zero divisors are the error value, never a panic *)
Theorem polydiv_zero_divisor : forall (A : Arith) (u v : list A),
  (v = [] \/ is_zero v = true) -> polydiv u v = Ok (inr EZeroDiv).
Proof. intros A u v H. exact (polydiv_zero_divisor_lemma u v H). Qed.
Check polydiv_zero_divisor : forall (A : Arith) (u v : list A),
  (v = [] \/ is_zero v = true) -> polydiv u v = Ok (inr EZeroDiv).
Print Assumptions polydiv_zero_divisor.
Example polydiv_zero_divisor_nonvacuous : is_zero ([q 0 1; q 0 1; q 0 1] : list AQ) = true.
Proof. reflexivity. Qed.

(* ---------------------------------------------------------------- any field: u = q*v + r *)
Theorem polydiv_identity : forall (A : Arith), FieldLaws A -> forall u v q r : list A,
  polydiv u v = Ok (inl (q, r)) -> forall k, nth k u zero = nth k (padd (pmul q v) r) zero.
Proof. intros A FL u v q r E k. exact (polydiv_identity_lemma FL u v q r E k). Qed.
Check polydiv_identity : forall (A : Arith), FieldLaws A -> forall u v q r : list A,
  polydiv u v = Ok (inl (q, r)) -> forall k, nth k u zero = nth k (padd (pmul q v) r) zero.
Print Assumptions polydiv_identity.
Example polydiv_identity_nonvacuous :
  exists q' r', polydiv ([q 1 1; q 2 1; q 1 1; q (-3) 2] : list AQ) [q 1 1; q 49 1] = Ok (inl (q', r')) /\ length q' = 3.
Proof. eexists; eexists. split; vm_compute; reflexivity. Qed.

(* the headline over a field: every divisor with a nonzero leading coefficient *)
Theorem polydiv_field : forall (A : Arith), FieldLaws A -> forall u v : list A,
  v <> [] -> last v zero <> zero -> length u <= POLYDIV_MAX ->
  exists q r, polydiv u v = Ok (inl (q, r)) /\ (is_zero r = true \/ length r < length v) /\
              forall k, nth k u zero = nth k (padd (pmul q v) r) zero.
Proof. intros A FL u v Nv Lv Lu. exact (polydiv_field_total_lemma FL u v Nv Lv Lu). Qed.
Check polydiv_field : forall (A : Arith), FieldLaws A -> forall u v : list A,
  v <> [] -> last v zero <> zero -> length u <= POLYDIV_MAX ->
  exists q r, polydiv u v = Ok (inl (q, r)) /\ (is_zero r = true \/ length r < length v) /\
              forall k, nth k u zero = nth k (padd (pmul q v) r) zero.
Print Assumptions polydiv_field.
Example polydiv_field_nonvacuous :
  ([q 1 1; q 49 1] : list AQ) <> [] /\ last ([q 1 1; q 49 1] : list AQ) zero <> zero /\
  length ([q 1 1; q 2 1; q 1 1] : list AQ) <= POLYDIV_MAX.
Proof. split; [discriminate|]. split; [discriminate|]. apply Nat.leb_le. vm_compute. reflexivity. Qed.

(* ... and that specification determines q and r (as polynomials): polydiv computes THE Euclidean division *)
Theorem polydiv_unique : forall (A : Arith), FieldLaws A -> forall u v q r q' r' : list A,
  v <> [] -> last v zero <> zero ->
  (forall k, nth k u zero = nth k (padd (pmul q v) r) zero) -> (is_zero r = true \/ length r < length v) ->
  (forall k, nth k u zero = nth k (padd (pmul q' v) r') zero) -> (is_zero r' = true \/ length r' < length v) ->
  (forall k, nth k q zero = nth k q' zero) /\ (forall k, nth k r zero = nth k r' zero).
Proof. intros A FL u v q r q' r' Nv Lv I1 S1 I2 S2. exact (polydiv_unique_lemma FL v Nv Lv u q r q' r' I1 S1 I2 S2). Qed.
Check polydiv_unique : forall (A : Arith), FieldLaws A -> forall u v q r q' r' : list A,
  v <> [] -> last v zero <> zero ->
  (forall k, nth k u zero = nth k (padd (pmul q v) r) zero) -> (is_zero r = true \/ length r < length v) ->
  (forall k, nth k u zero = nth k (padd (pmul q' v) r') zero) -> (is_zero r' = true \/ length r' < length v) ->
  (forall k, nth k q zero = nth k q' zero) /\ (forall k, nth k r zero = nth k r' zero).
Print Assumptions polydiv_unique.
Example polydiv_unique_nonvacuous :
  ([q 1 1; q 49 1] : list AQ) <> [] /\ last ([q 1 1; q 49 1] : list AQ) zero <> zero /\
  (forall k, nth k ([q 1 1; q 50 1; q 49 1] : list AQ) zero = nth k (padd (pmul ([q 1 1; q 1 1] : list AQ) [q 1 1; q 49 1]) [q 0 1]) zero) /\
  is_zero ([q 0 1] : list AQ) = true.
Proof.
  split; [discriminate|]. split; [discriminate|]. split; [|reflexivity].
  intros k. do 4 (destruct k as [|k]; [apply Qc_eqb_spec; vm_compute; reflexivity|]). now destruct k.
Qed.

(* the same at Qc, hypothesis discharged *)
Theorem polydiv_Qc : forall u v : list AQ,
  v <> [] -> last v zero <> zero -> length u <= POLYDIV_MAX ->
  exists q r, polydiv u v = Ok (inl (q, r)) /\ (is_zero r = true \/ length r < length v) /\
              forall k, nth k u zero = nth k (padd (pmul q v) r) zero.
Proof. exact (polydiv_field_total_lemma AQ_FieldLaws). Qed.
Check polydiv_Qc : forall u v : list AQ,
  v <> [] -> last v zero <> zero -> length u <= POLYDIV_MAX ->
  exists q r, polydiv u v = Ok (inl (q, r)) /\ (is_zero r = true \/ length r < length v) /\
              forall k, nth k u zero = nth k (padd (pmul q v) r) zero.
Print Assumptions polydiv_Qc.

(* ---------------------------------------------------------------- the pre-repair loop is refuted by the same hypotheses *)
(* (Legacy/C12Refuted.v) binary64, u = x, v = 49x: every hypothesis of polydiv_terminates_any_arith holds, the legacy
   loop returns the iteration-cap error, the repaired one returns Ok -- the theorem above separates the two. *)
Theorem polydiv_legacy_is_refuted :
  exists u v : list AF,
    v <> [] /\ is_zero v = false /\ eqb (last v zero) zero = false /\ length u <= POLYDIV_MAX /\
    polydiv_legacy u v = Ok (inr EMaxIter) /\
    exists q r, polydiv u v = Ok (inl (q, r)).
Proof. exact polydiv_legacy_refuted. Qed.
Check polydiv_legacy_is_refuted :
  exists u v : list AF,
    v <> [] /\ is_zero v = false /\ eqb (last v zero) zero = false /\ length u <= POLYDIV_MAX /\
    polydiv_legacy u v = Ok (inr EMaxIter) /\
    exists q r, polydiv u v = Ok (inl (q, r)).
Print Assumptions polydiv_legacy_is_refuted.
Print Assumptions polydiv_zero_divisor_lemma.   (* closed; ends the listing of float primitives above for the driver's parser *)

(* ---- tie to the source by proof (package r2c): the functions regenerated from /repo/src on this run by the Rust-subset ->
   Gallina translator (driver/rust2coq.py -> gen/Src*.v) are equal, for all arguments, to the hand-written model functions
   the theorems above are about (Proofs/SrcEq*.v).  A change of a loop bound, index, operator or statement order in the
   source breaks the corresponding src_<function> lemma and with it this obligation. *)
From OV Require Proofs.SrcEqPoly.
Theorem model_is_source_C12_Poly : forall A : Arith, @SrcEqPoly.model_is_source_Poly A.
Proof. intros A. exact SrcEqPoly.model_is_source_Poly_lemma. Qed.
Check model_is_source_C12_Poly : forall A : Arith, @SrcEqPoly.model_is_source_Poly A.
Print Assumptions model_is_source_C12_Poly.

(* ======================================================================================================
   C12 (polynomial division), rounding half -- package round2.  Append to Props/C12.v.
   "u = q*v + r to rounding accuracy over floats": the model's [polydiv] (Model/Poly.v, the loop after the repair
   e504d5d, which SETS the cancelled leading coefficient to zero) in the STANDARD MODEL of floating-point arithmetic
   (Base/RoundModel.v: the same Gallina [polydiv] at the arithmetic ARm whose operations are the exact ones times
   (1+d), |d| <= u).  For every coefficient index k, with the EXACT real convolution (q*v)_k = Sum_{i<=k} q_i v_{k-i}:
   (a) | a_k - (q*v)_k - r_k |  <=  gam (2 M) ( |a_k| + Sum_{i<=k} |q_i| |v_{k-i}| )        (polydiv_rounded_identity)
   (b) | a_k - (q*v)_k - r_k |  <=  gam (4 M) ( Sum_{i<=k} |q_i| |v_{k-i}| + |r_k| )        (polydiv_rounded_residual)
   M = min(N, len v),  N = len a + 1 - len v  (N bounds the number of passes of the loop, and one coefficient is touched
   by at most len v of them; gam n = n u / (1 - n u)).  The residual of each cancelled leading coefficient,
   r_top - fl(r_top / v_top) v_top, which the repaired loop discards, is part of the bounded error.
   Hypotheses beside the (1+d) laws: the leading coefficient of v is not zero; the dividend's coefficients belong to
   the set F of floating-point numbers; results of -, *, / are in F and 0 + x = x + 0 = x - 0 = x for x in F (true of
   every correctly rounded arithmetic; discharged for 53-bit round-to-nearest-even in Proofs/Round2PolyB.v).
   (c) polydiv_rounded_identity_float / polydiv_rounded_residual_float: both bounds for the PRIMITIVE-FLOAT instance
   itself ([polydiv] at AF, IEEE binary64, u = 2^-53), through Flocq: whenever the answer (q, r) is finite and no
   quotient r_top / v_top and no product c * v_j of the run underflows ([pd_nounder], a condition on computable values
   of the run; intermediate finiteness is derived from the finite answer).
   Unproved remainder: (a), (b) assume the standard model; (c) says nothing when the answer is not finite or a
   quotient / product falls into the subnormal range (the absolute error of gradual underflow is not analysed).
   ====================================================================================================== *)
From Coq Require Import List Reals Lra Lia Floats.
From OV Require Import Base.Panic Base.Arith Base.RoundModel gen.Params Model.Poly Inst.FloatInst Proofs.PolyDiv Proofs.RoundFlx
  Proofs.ComplexRound Proofs.RoundDotFloat Proofs.Round2Poly Proofs.Round2PolyB.
Import ListNotations.

Theorem polydiv_rounded_identity : forall (u : R), (0 <= u < 1)%R ->
  forall (fadd fsub fmul fdiv : R -> R -> R),
  (forall x y : R, exists d : R, (Rabs d <= u)%R /\ fadd x y = ((x + y) * (1 + d))%R) ->
  (forall x y : R, exists d : R, (Rabs d <= u)%R /\ fsub x y = ((x - y) * (1 + d))%R) ->
  (forall x y : R, exists d : R, (Rabs d <= u)%R /\ fmul x y = (x * y * (1 + d))%R) ->
  (forall x y : R, y <> 0%R -> exists d : R, (Rabs d <= u)%R /\ fdiv x y = (x / y * (1 + d))%R) ->
  forall (F : R -> Prop),
  (forall x y : R, F (fsub x y)) -> (forall x y : R, F (fmul x y)) -> (forall x y : R, F (fdiv x y)) ->
  (forall x : R, F x -> fadd 0%R x = x) -> (forall x : R, F x -> fadd x 0%R = x) ->
  (forall x : R, F x -> fsub x 0%R = x) ->
  forall (a v q r : list R),
  last v 0%R <> 0%R -> Forall F a -> (INR (2 * Nat.min (length a + 1 - length v) (length v)) * u < 1)%R ->
  polydiv (A := ARm fadd fsub fmul fdiv) a v = Ok (inl (q, r)) ->
  forall k : nat,
  (Rabs (nth k a 0 - Rsum (S k) (fun i => nth i q 0 * nth (k - i) v 0) - nth k r 0)
     <= gam u (2 * Nat.min (length a + 1 - length v) (length v))
        * (Rabs (nth k a 0) + Rsum (S k) (fun i => Rabs (nth i q 0) * Rabs (nth (k - i) v 0))))%R.
Proof. intros u Hu fadd fsub fmul fdiv Ha Hs Hm Hd F F1 F2 F3 Z1 Z2 Z3 a v q r Hv Fa Hn E. exact (polydiv_rounded_identity_lemma u Hu fadd fsub fmul fdiv Ha Hs Hm Hd F F1 F2 F3 Z1 Z2 Z3 v Hv a q r Fa Hn E). Qed.
Check polydiv_rounded_identity : forall (u : R), (0 <= u < 1)%R ->
  forall (fadd fsub fmul fdiv : R -> R -> R),
  (forall x y : R, exists d : R, (Rabs d <= u)%R /\ fadd x y = ((x + y) * (1 + d))%R) ->
  (forall x y : R, exists d : R, (Rabs d <= u)%R /\ fsub x y = ((x - y) * (1 + d))%R) ->
  (forall x y : R, exists d : R, (Rabs d <= u)%R /\ fmul x y = (x * y * (1 + d))%R) ->
  (forall x y : R, y <> 0%R -> exists d : R, (Rabs d <= u)%R /\ fdiv x y = (x / y * (1 + d))%R) ->
  forall (F : R -> Prop),
  (forall x y : R, F (fsub x y)) -> (forall x y : R, F (fmul x y)) -> (forall x y : R, F (fdiv x y)) ->
  (forall x : R, F x -> fadd 0%R x = x) -> (forall x : R, F x -> fadd x 0%R = x) ->
  (forall x : R, F x -> fsub x 0%R = x) ->
  forall (a v q r : list R),
  last v 0%R <> 0%R -> Forall F a -> (INR (2 * Nat.min (length a + 1 - length v) (length v)) * u < 1)%R ->
  polydiv (A := ARm fadd fsub fmul fdiv) a v = Ok (inl (q, r)) ->
  forall k : nat,
  (Rabs (nth k a 0 - Rsum (S k) (fun i => nth i q 0 * nth (k - i) v 0) - nth k r 0)
     <= gam u (2 * Nat.min (length a + 1 - length v) (length v))
        * (Rabs (nth k a 0) + Rsum (S k) (fun i => Rabs (nth i q 0) * Rabs (nth (k - i) v 0))))%R.
Print Assumptions polydiv_rounded_identity.
(* the hypotheses are met by an arithmetic that rounds every operation (53-bit round-to-nearest-even), with F the
   numbers of that format, and polydiv answers in it with an inexact quotient:
   (1 + x + x^2) / (1 + 3x) = c2 + c x remainder y,  c = fl(1/3) <> 1/3,  c2 = fl(fl(1 - c)/3),  y = fl(1 - c2) *)
Example polydiv_rounded_identity_nonvacuous :
  (0 <= ux < 1)%R /\
  (forall x y : R, exists d : R, (Rabs d <= ux)%R /\ xadd x y = ((x + y) * (1 + d))%R) /\
  (forall x y : R, exists d : R, (Rabs d <= ux)%R /\ xsub x y = ((x - y) * (1 + d))%R) /\
  (forall x y : R, exists d : R, (Rabs d <= ux)%R /\ xmul x y = (x * y * (1 + d))%R) /\
  (forall x y : R, y <> 0%R -> exists d : R, (Rabs d <= ux)%R /\ xdiv x y = (x / y * (1 + d))%R) /\
  (forall x y : R, Fx (xsub x y)) /\ (forall x y : R, Fx (xmul x y)) /\ (forall x y : R, Fx (xdiv x y)) /\
  (forall x : R, Fx x -> xadd 0%R x = x) /\ (forall x : R, Fx x -> xadd x 0%R = x) /\
  (forall x : R, Fx x -> xsub x 0%R = x) /\
  last [1%R; 3%R] 0%R <> 0%R /\ Forall Fx [1%R; 1%R; 1%R] /\
  (INR (2 * Nat.min (length [1%R; 1%R; 1%R] + 1 - length [1%R; 3%R]) (length [1%R; 3%R])) * ux < 1)%R /\
  polydiv (A := AFlx) [1%R; 1%R; 1%R] [1%R; 3%R] = Ok (inl ([ex_c2; xdiv 1%R 3%R], [ex_y])) /\
  xdiv 1%R 3%R <> (1 / 3)%R.
Proof.
  split; [exact ux_range|]. split; [exact xadd_ok|]. split; [exact xsub_ok|]. split; [exact xmul_ok|].
  split; [exact xdiv_ok|]. split; [exact Fx_sub|]. split; [exact Fx_mul|]. split; [exact Fx_div|].
  split; [exact xadd_0_l|]. split; [exact xadd_0_r|]. split; [exact xsub_0_r|].
  split; [cbn; lra|]. split; [repeat constructor; exact Fx_1|].
  split; [cbn [length Nat.add Nat.sub Nat.mul Nat.min INR]; pose proof ux_small; lra|].
  split; [exact ex2_polydiv|exact xdiv_inexact].
Qed.

(* the same error against the computed quotient and remainder only: gam (4 M) ( Sum |q_i||v_{k-i}| + |r_k| ) *)
Theorem polydiv_rounded_residual : forall (u : R), (0 <= u < 1)%R ->
  forall (fadd fsub fmul fdiv : R -> R -> R),
  (forall x y : R, exists d : R, (Rabs d <= u)%R /\ fadd x y = ((x + y) * (1 + d))%R) ->
  (forall x y : R, exists d : R, (Rabs d <= u)%R /\ fsub x y = ((x - y) * (1 + d))%R) ->
  (forall x y : R, exists d : R, (Rabs d <= u)%R /\ fmul x y = (x * y * (1 + d))%R) ->
  (forall x y : R, y <> 0%R -> exists d : R, (Rabs d <= u)%R /\ fdiv x y = (x / y * (1 + d))%R) ->
  forall (F : R -> Prop),
  (forall x y : R, F (fsub x y)) -> (forall x y : R, F (fmul x y)) -> (forall x y : R, F (fdiv x y)) ->
  (forall x : R, F x -> fadd 0%R x = x) -> (forall x : R, F x -> fadd x 0%R = x) ->
  (forall x : R, F x -> fsub x 0%R = x) ->
  forall (a v q r : list R),
  last v 0%R <> 0%R -> Forall F a -> (INR (4 * Nat.min (length a + 1 - length v) (length v)) * u < 1)%R ->
  polydiv (A := ARm fadd fsub fmul fdiv) a v = Ok (inl (q, r)) ->
  forall k : nat,
  (Rabs (nth k a 0 - Rsum (S k) (fun i => nth i q 0 * nth (k - i) v 0) - nth k r 0)
     <= gam u (4 * Nat.min (length a + 1 - length v) (length v))
        * (Rsum (S k) (fun i => Rabs (nth i q 0) * Rabs (nth (k - i) v 0)) + Rabs (nth k r 0)))%R.
Proof. intros u Hu fadd fsub fmul fdiv Ha Hs Hm Hd F F1 F2 F3 Z1 Z2 Z3 a v q r Hv Fa Hn E. exact (polydiv_rounded_residual_lemma u Hu fadd fsub fmul fdiv Ha Hs Hm Hd F F1 F2 F3 Z1 Z2 Z3 v Hv a q r Fa Hn E). Qed.
Check polydiv_rounded_residual : forall (u : R), (0 <= u < 1)%R ->
  forall (fadd fsub fmul fdiv : R -> R -> R),
  (forall x y : R, exists d : R, (Rabs d <= u)%R /\ fadd x y = ((x + y) * (1 + d))%R) ->
  (forall x y : R, exists d : R, (Rabs d <= u)%R /\ fsub x y = ((x - y) * (1 + d))%R) ->
  (forall x y : R, exists d : R, (Rabs d <= u)%R /\ fmul x y = (x * y * (1 + d))%R) ->
  (forall x y : R, y <> 0%R -> exists d : R, (Rabs d <= u)%R /\ fdiv x y = (x / y * (1 + d))%R) ->
  forall (F : R -> Prop),
  (forall x y : R, F (fsub x y)) -> (forall x y : R, F (fmul x y)) -> (forall x y : R, F (fdiv x y)) ->
  (forall x : R, F x -> fadd 0%R x = x) -> (forall x : R, F x -> fadd x 0%R = x) ->
  (forall x : R, F x -> fsub x 0%R = x) ->
  forall (a v q r : list R),
  last v 0%R <> 0%R -> Forall F a -> (INR (4 * Nat.min (length a + 1 - length v) (length v)) * u < 1)%R ->
  polydiv (A := ARm fadd fsub fmul fdiv) a v = Ok (inl (q, r)) ->
  forall k : nat,
  (Rabs (nth k a 0 - Rsum (S k) (fun i => nth i q 0 * nth (k - i) v 0) - nth k r 0)
     <= gam u (4 * Nat.min (length a + 1 - length v) (length v))
        * (Rsum (S k) (fun i => Rabs (nth i q 0) * Rabs (nth (k - i) v 0)) + Rabs (nth k r 0)))%R.
Print Assumptions polydiv_rounded_residual.
Example polydiv_rounded_residual_nonvacuous :   (* same instance and division as above *)
  (0 <= ux < 1)%R /\ last [1%R; 3%R] 0%R <> 0%R /\ Forall Fx [1%R; 1%R; 1%R] /\
  (INR (4 * Nat.min (length [1%R; 1%R; 1%R] + 1 - length [1%R; 3%R]) (length [1%R; 3%R])) * ux < 1)%R /\
  polydiv (A := AFlx) [1%R; 1%R; 1%R] [1%R; 3%R] = Ok (inl ([ex_c2; xdiv 1%R 3%R], [ex_y])).
Proof.
  split; [exact ux_range|]. split; [cbn; lra|]. split; [repeat constructor; exact Fx_1|].
  split; [cbn [length Nat.add Nat.sub Nat.mul Nat.min INR]; pose proof ux_small; lra|exact ex2_polydiv].
Qed.

(* the same for the primitive floats themselves (IEEE binary64, u64 = 2^-53, g64 n = gam u64 n), through Flocq *)
Theorem polydiv_rounded_identity_float : forall (a v q r : list PrimFloat.float),
  polydiv (A := AF) a v = Ok (inl (q, r)) -> Forall ffinite q -> Forall ffinite r -> FR (last v 0%float) <> 0%R ->
  pd_nounder (S POLYDIV_MAX) [] a v ->
  (INR (2 * Nat.min (length a + 1 - length v) (length v)) * u64 < 1)%R ->
  forall k : nat,
  (Rabs (FR (nth k a 0%float) - Rsum (S k) (fun i => FR (nth i q 0%float) * FR (nth (k - i) v 0%float))
         - FR (nth k r 0%float))
     <= g64 (2 * Nat.min (length a + 1 - length v) (length v))
        * (Rabs (FR (nth k a 0%float))
           + Rsum (S k) (fun i => Rabs (FR (nth i q 0%float)) * Rabs (FR (nth (k - i) v 0%float)))))%R.
Proof. intros a v q r E Hq Hr Hv P Hn. exact (polydiv_rounded_identity_float_lemma a v q r E Hq Hr Hv P Hn). Qed.
Check polydiv_rounded_identity_float : forall (a v q r : list PrimFloat.float),
  polydiv (A := AF) a v = Ok (inl (q, r)) -> Forall ffinite q -> Forall ffinite r -> FR (last v 0%float) <> 0%R ->
  pd_nounder (S POLYDIV_MAX) [] a v ->
  (INR (2 * Nat.min (length a + 1 - length v) (length v)) * u64 < 1)%R ->
  forall k : nat,
  (Rabs (FR (nth k a 0%float) - Rsum (S k) (fun i => FR (nth i q 0%float) * FR (nth (k - i) v 0%float))
         - FR (nth k r 0%float))
     <= g64 (2 * Nat.min (length a + 1 - length v) (length v))
        * (Rabs (FR (nth k a 0%float))
           + Rsum (S k) (fun i => Rabs (FR (nth i q 0%float)) * Rabs (FR (nth (k - i) v 0%float)))))%R.
Print Assumptions polydiv_rounded_identity_float.
Print Assumptions polydiv_zero_divisor_lemma.   (* closed; ends the listing of float primitives above for the driver's parser *)
(* (1 + x + x^2) / (1 + 3x) at binary64: two passes, quotient coefficients fl(fl(1 - fl(1/3)) / 3) and fl(1/3) < 1/3 *)
Example polydiv_rounded_identity_float_nonvacuous :
  polydiv (A := AF) exf_a exf_v = Ok (inl (exf_q, exf_r)) /\ Forall ffinite exf_q /\ Forall ffinite exf_r /\
  FR (last exf_v 0%float) <> 0%R /\ pd_nounder (S POLYDIV_MAX) [] exf_a exf_v /\
  (INR (2 * Nat.min (length exf_a + 1 - length exf_v) (length exf_v)) * u64 < 1)%R /\
  (FR (nth 1 exf_q 0%float) < 1 / 3)%R.
Proof.
  split; [exact exf_polydiv|]. split; [exact (proj1 exf_fin)|]. split; [exact (proj2 exf_fin)|].
  split; [exact exf_lead|]. split; [exact exf_nounder|]. split; [exact exf_size|exact exf_q_inexact].
Qed.

(* ... and against the computed quotient and remainder only, at binary64 *)
Theorem polydiv_rounded_residual_float : forall (a v q r : list PrimFloat.float),
  polydiv (A := AF) a v = Ok (inl (q, r)) -> Forall ffinite q -> Forall ffinite r -> FR (last v 0%float) <> 0%R ->
  pd_nounder (S POLYDIV_MAX) [] a v ->
  (INR (4 * Nat.min (length a + 1 - length v) (length v)) * u64 < 1)%R ->
  forall k : nat,
  (Rabs (FR (nth k a 0%float) - Rsum (S k) (fun i => FR (nth i q 0%float) * FR (nth (k - i) v 0%float))
         - FR (nth k r 0%float))
     <= g64 (4 * Nat.min (length a + 1 - length v) (length v))
        * (Rsum (S k) (fun i => Rabs (FR (nth i q 0%float)) * Rabs (FR (nth (k - i) v 0%float)))
           + Rabs (FR (nth k r 0%float))))%R.
Proof. intros a v q r E Hq Hr Hv P Hn. exact (polydiv_rounded_residual_float_lemma a v q r E Hq Hr Hv P Hn). Qed.
Check polydiv_rounded_residual_float : forall (a v q r : list PrimFloat.float),
  polydiv (A := AF) a v = Ok (inl (q, r)) -> Forall ffinite q -> Forall ffinite r -> FR (last v 0%float) <> 0%R ->
  pd_nounder (S POLYDIV_MAX) [] a v ->
  (INR (4 * Nat.min (length a + 1 - length v) (length v)) * u64 < 1)%R ->
  forall k : nat,
  (Rabs (FR (nth k a 0%float) - Rsum (S k) (fun i => FR (nth i q 0%float) * FR (nth (k - i) v 0%float))
         - FR (nth k r 0%float))
     <= g64 (4 * Nat.min (length a + 1 - length v) (length v))
        * (Rsum (S k) (fun i => Rabs (FR (nth i q 0%float)) * Rabs (FR (nth (k - i) v 0%float)))
           + Rabs (FR (nth k r 0%float))))%R.
Print Assumptions polydiv_rounded_residual_float.
Print Assumptions polydiv_zero_divisor_lemma.   (* closed; ends the listing of float primitives above for the driver's parser *)
Example polydiv_rounded_residual_float_nonvacuous :   (* same division as above *)
  polydiv (A := AF) exf_a exf_v = Ok (inl (exf_q, exf_r)) /\ Forall ffinite exf_q /\ Forall ffinite exf_r /\
  FR (last exf_v 0%float) <> 0%R /\ pd_nounder (S POLYDIV_MAX) [] exf_a exf_v /\
  (INR (4 * Nat.min (length exf_a + 1 - length exf_v) (length exf_v)) * u64 < 1)%R.
Proof.
  split; [exact exf_polydiv|]. split; [exact (proj1 exf_fin)|]. split; [exact (proj2 exf_fin)|].
  split; [exact exf_lead|]. split; [exact exf_nounder|].
  cbn [length exf_a exf_v Nat.add Nat.sub Nat.mul Nat.min INR]. pose proof u64_small. lra.
Qed.

(* package polyexact (round 4): pin blocks for the binary64 / Complex<f64> EXACTNESS theorems of C11 and C12
   ("all of this holds exactly for exactly-representable coefficients"; "exactly over exact coefficients").
   Format of CONVENTIONS section 2.  No scope is opened: integers carry %Z, floats %float.

   Vocabulary (definitions in the files named):
     ExactW x z   Proofs/ParDotFloat.v   the float x is finite and its real value is the integer z (a zero: either sign)
     Exact  x z   Proofs/ParDotFloat.v   ... and x is not the negative zero: the bit pattern of x is determined by z
     AZ, AZC      Proofs/PolyExact.v     the integers / the Gaussian integers as an arithmetic: the model functions of
                                         Model/Poly.v run there too, and give the exact results the floats are compared with;
                                         AZ's div answers only when the divisor divides (Panic Guard otherwise)
     horner p x   Proofs/Poly.v          a_0 + x (a_1 + x (...)): the value of p at x (peval p x = Ok (horner p x) over a ring)
     eval_fits zs x   := horner |zs| |x| < 2^53          (sum_i |a_i| |x|^i < 2^53)            Proofs/PolyExactF.v
     pmul_fits zs ws  := every coefficient of |zs| * |ws| is < 2^53  (sum_i |a_i| |b_(k-i)|)   Proofs/PolyExactF.v
     same_value r r' z := ExactW r z /\ ExactW r' z /\ (r == r') = true /\ (z <> 0 -> r = r') Proofs/PolyExactF.v
     geom n xi    := 1 + xi + ... + xi^(n-1)                                                   Proofs/PolyExactB.v
     CExactW, CExact, cn1 g = |re g| + |im g|, ceval_fits                                      Proofs/PolyExactC.v
     polydiv_fits N D u v : every pass of the integer long division fits below 2^53              Proofs/PolyExactDiv.v *)
From Coq Require Import ZArith Reals Floats Lia List Bool Arith.
From OV Require Import Base.Panic Base.Arith gen.Params Model.Poly Model.Complex Inst.FloatInst Proofs.Poly
  Proofs.ParDotFloat Proofs.PolyExact Proofs.PolyExactF Proofs.PolyExactB Proofs.PolyExactC Proofs.PolyExactDiv
  Proofs.PolyExactDivZ Proofs.PolyExactDivF Proofs.PolyExactDivC Proofs.PolyExactEx.
Import ListNotations.

(* ==== C12 ==== *)
(* binary64, integer-valued coefficients, divisor with leading coefficient +1 or -1 (monic up to sign): the float long
   division returns EXACTLY the float images of the integer quotient and remainder -- the unique pair (q0, r0) with
   u = q0 v + r0 and r0 zero or shorter than v -- whenever  U (1 + V)^(len u - len v + 1) < 2^53  for bounds U, V of the
   |u_i|, |v_j| (every size met in the loop is below that number).  No panic, no error value *)
Theorem polydiv_exact_float : forall (u v : list PrimFloat.float) (uz vz : list Z) (U V : Z),
  Forall2 ExactW u uz -> Forall2 ExactW v vz -> vz <> [] -> (last vz 0%Z = 1%Z \/ last vz 0%Z = (-1)%Z) ->
  (0 <= U)%Z -> Forall (fun a : Z => (Z.abs a <= U)%Z) uz -> Forall (fun b : Z => (Z.abs b <= V)%Z) vz ->
  (length uz <= POLYDIV_MAX)%nat ->
  (U * (1 + V) ^ Z.of_nat (length uz - length vz + 1) < 2 ^ 53)%Z ->
  exists q r q0 r0, polydiv (A := AF) u v = Ok (inl (q, r)) /\ Forall2 ExactW q q0 /\ Forall2 ExactW r r0 /\
    polydiv (A := AZ) uz vz = Ok (inl (q0, r0)) /\
    (forall k, nth k uz 0%Z = nth k (padd (A := AZ) (pmul (A := AZ) q0 vz) r0) 0%Z) /\
    (is_zero (A := AZ) r0 = true \/ (length r0 < length vz)%nat) /\
    (forall q1 r1 : list Z,
       (forall k, nth k uz 0%Z = nth k (padd (A := AZ) (pmul (A := AZ) q1 vz) r1) 0%Z) ->
       (is_zero (A := AZ) r1 = true \/ (length r1 < length vz)%nat) ->
       (forall k, nth k q0 0%Z = nth k q1 0%Z) /\ (forall k, nth k r0 0%Z = nth k r1 0%Z)).
Proof. exact polydiv_exact_float_monic_lemma. Qed.
Check polydiv_exact_float : forall (u v : list PrimFloat.float) (uz vz : list Z) (U V : Z),
  Forall2 ExactW u uz -> Forall2 ExactW v vz -> vz <> [] -> (last vz 0%Z = 1%Z \/ last vz 0%Z = (-1)%Z) ->
  (0 <= U)%Z -> Forall (fun a : Z => (Z.abs a <= U)%Z) uz -> Forall (fun b : Z => (Z.abs b <= V)%Z) vz ->
  (length uz <= POLYDIV_MAX)%nat ->
  (U * (1 + V) ^ Z.of_nat (length uz - length vz + 1) < 2 ^ 53)%Z ->
  exists q r q0 r0, polydiv (A := AF) u v = Ok (inl (q, r)) /\ Forall2 ExactW q q0 /\ Forall2 ExactW r r0 /\
    polydiv (A := AZ) uz vz = Ok (inl (q0, r0)) /\
    (forall k, nth k uz 0%Z = nth k (padd (A := AZ) (pmul (A := AZ) q0 vz) r0) 0%Z) /\
    (is_zero (A := AZ) r0 = true \/ (length r0 < length vz)%nat) /\
    (forall q1 r1 : list Z,
       (forall k, nth k uz 0%Z = nth k (padd (A := AZ) (pmul (A := AZ) q1 vz) r1) 0%Z) ->
       (is_zero (A := AZ) r1 = true \/ (length r1 < length vz)%nat) ->
       (forall k, nth k q0 0%Z = nth k q1 0%Z) /\ (forall k, nth k r0 0%Z = nth k r1 0%Z)).
Print Assumptions polydiv_exact_float.
(* u = 7 + x - 3x^3 + 2x^4 by v = 3 - 2x + x^2 (U = 7, V = 3: 7 * 4^3 = 448): q = -4 + x + 2x^2, r = 19 - 10x *)
Example polydiv_exact_float_nonvacuous :
  Forall2 ExactW exU exUz /\ Forall2 ExactW exV exVz /\ exVz <> [] /\ (last exVz 0%Z = 1%Z \/ last exVz 0%Z = (-1)%Z) /\
  (0 <= 7)%Z /\ Forall (fun a : Z => (Z.abs a <= 7)%Z) exUz /\ Forall (fun b : Z => (Z.abs b <= 3)%Z) exVz /\
  (length exUz <= POLYDIV_MAX)%nat /\ (7 * (1 + 3) ^ Z.of_nat (length exUz - length exVz + 1) < 2 ^ 53)%Z /\
  polydiv (A := AF) exU exV = Ok (inl ([-4; 1; 2]%float, [19; -10]%float)) /\
  polydiv (A := AZ) exUz exVz = Ok (inl ([-4; 1; 2]%Z, [19; -10]%Z)).
Proof.
  split; [exact exU_exact|]. split; [exact exV_exact|]. split; [discriminate|]. split; [left; reflexivity|].
  split; [lia|]. split; [repeat constructor; cbn; lia|]. split; [repeat constructor; cbn; lia|].
  split; [vm_compute; lia|]. repeat split; vm_compute; reflexivity.
Qed.

(* any nonzero leading coefficient (e.g. a power of two): IF the integer long division goes through (every quotient term is
   an exact integer division: polydiv over AZ answers Ok) the same size condition U (1+V)^(len u - len v + 1) < 2^53
   suffices: the float division returns the float images of the integer quotient and remainder, the unique pair with
   u = q0 v + r0 and r0 zero or shorter than v *)
Theorem polydiv_exact_float_exactdiv : forall (u v : list PrimFloat.float) (uz vz q0 r0 : list Z) (U V : Z),
  Forall2 ExactW u uz -> Forall2 ExactW v vz -> vz <> [] -> last vz 0%Z <> 0%Z ->
  (0 <= U)%Z -> Forall (fun a : Z => (Z.abs a <= U)%Z) uz -> Forall (fun b : Z => (Z.abs b <= V)%Z) vz ->
  (U * (1 + V) ^ Z.of_nat (length uz - length vz + 1) < 2 ^ 53)%Z ->
  polydiv (A := AZ) uz vz = Ok (inl (q0, r0)) ->
  exists q r, polydiv (A := AF) u v = Ok (inl (q, r)) /\ Forall2 ExactW q q0 /\ Forall2 ExactW r r0 /\
    (forall k, nth k uz 0%Z = nth k (padd (A := AZ) (pmul (A := AZ) q0 vz) r0) 0%Z) /\
    (is_zero (A := AZ) r0 = true \/ (length r0 < length vz)%nat) /\
    (forall q1 r1 : list Z,
       (forall k, nth k uz 0%Z = nth k (padd (A := AZ) (pmul (A := AZ) q1 vz) r1) 0%Z) ->
       (is_zero (A := AZ) r1 = true \/ (length r1 < length vz)%nat) ->
       (forall k, nth k q0 0%Z = nth k q1 0%Z) /\ (forall k, nth k r0 0%Z = nth k r1 0%Z)).
Proof. exact polydiv_exact_float_exactdiv_lemma. Qed.
Check polydiv_exact_float_exactdiv : forall (u v : list PrimFloat.float) (uz vz q0 r0 : list Z) (U V : Z),
  Forall2 ExactW u uz -> Forall2 ExactW v vz -> vz <> [] -> last vz 0%Z <> 0%Z ->
  (0 <= U)%Z -> Forall (fun a : Z => (Z.abs a <= U)%Z) uz -> Forall (fun b : Z => (Z.abs b <= V)%Z) vz ->
  (U * (1 + V) ^ Z.of_nat (length uz - length vz + 1) < 2 ^ 53)%Z ->
  polydiv (A := AZ) uz vz = Ok (inl (q0, r0)) ->
  exists q r, polydiv (A := AF) u v = Ok (inl (q, r)) /\ Forall2 ExactW q q0 /\ Forall2 ExactW r r0 /\
    (forall k, nth k uz 0%Z = nth k (padd (A := AZ) (pmul (A := AZ) q0 vz) r0) 0%Z) /\
    (is_zero (A := AZ) r0 = true \/ (length r0 < length vz)%nat) /\
    (forall q1 r1 : list Z,
       (forall k, nth k uz 0%Z = nth k (padd (A := AZ) (pmul (A := AZ) q1 vz) r1) 0%Z) ->
       (is_zero (A := AZ) r1 = true \/ (length r1 < length vz)%nat) ->
       (forall k, nth k q0 0%Z = nth k q1 0%Z) /\ (forall k, nth k r0 0%Z = nth k r1 0%Z)).
Print Assumptions polydiv_exact_float_exactdiv.
(* u = 8 + 2x + 6x^2 + 4x^3 by v = 4 + 2x (U = 8, V = 4: 8 * 5^3 = 1000) *)
Example polydiv_exact_float_exactdiv_nonvacuous :
  Forall2 ExactW exU2 exU2z /\ Forall2 ExactW exV2 exV2z /\ exV2z <> [] /\ last exV2z 0%Z <> 0%Z /\
  (0 <= 8)%Z /\ Forall (fun a : Z => (Z.abs a <= 8)%Z) exU2z /\ Forall (fun b : Z => (Z.abs b <= 4)%Z) exV2z /\
  (8 * (1 + 4) ^ Z.of_nat (length exU2z - length exV2z + 1) < 2 ^ 53)%Z /\
  polydiv (A := AZ) exU2z exV2z = Ok (inl ([3; -1; 2]%Z, [-4]%Z)).
Proof.
  split; [exact exU2_exact|]. split; [exact exV2_exact|]. split; [discriminate|]. split; [discriminate|].
  split; [lia|]. split; [repeat constructor; cbn; lia|]. split; [repeat constructor; cbn; lia|].
  split; vm_compute; reflexivity.
Qed.

(* the general form (any leading coefficient, e.g. a power of two): if the INTEGER long division goes through -- every
   division of a leading coefficient by that of v is exact (AZ's div) -- with answer (q0, r0), and every pass fits below
   2^53 (polydiv_fits: the quotient term, the updated quotient, the products and the updated remainder), then the float
   division returns the float images of (q0, r0) *)
Theorem polydiv_exact_float_run : forall (u v : list PrimFloat.float) (uz vz q0 r0 : list Z),
  Forall2 ExactW u uz -> Forall2 ExactW v vz -> polydiv_fits (ZA := AZ) Z.abs (fun _ _ => True) uz vz ->
  polydiv (A := AZ) uz vz = Ok (inl (q0, r0)) ->
  exists q r, polydiv (A := AF) u v = Ok (inl (q, r)) /\ Forall2 ExactW q q0 /\ Forall2 ExactW r r0.
Proof. exact polydiv_exact_float_run_lemma. Qed.
Check polydiv_exact_float_run : forall (u v : list PrimFloat.float) (uz vz q0 r0 : list Z),
  Forall2 ExactW u uz -> Forall2 ExactW v vz -> polydiv_fits (ZA := AZ) Z.abs (fun _ _ => True) uz vz ->
  polydiv (A := AZ) uz vz = Ok (inl (q0, r0)) ->
  exists q r, polydiv (A := AF) u v = Ok (inl (q, r)) /\ Forall2 ExactW q q0 /\ Forall2 ExactW r r0.
Print Assumptions polydiv_exact_float_run.
(* u = 8 + 2x + 6x^2 + 4x^3 by v = 4 + 2x (leading coefficient 2 divides 4, -2, 6): q = 3 - x + 2x^2, r = -4 *)
Example polydiv_exact_float_run_nonvacuous :
  Forall2 ExactW exU2 exU2z /\ Forall2 ExactW exV2 exV2z /\ polydiv_fits (ZA := AZ) Z.abs (fun _ _ => True) exU2z exV2z /\
  polydiv (A := AZ) exU2z exV2z = Ok (inl ([3; -1; 2]%Z, [-4]%Z)) /\
  polydiv (A := AF) exU2 exV2 = Ok (inl ([3; -1; 2]%float, [-4]%float)).
Proof.
  split; [exact exU2_exact|]. split; [exact exV2_exact|]. split; [exact exU2_fits|]. split; vm_compute; reflexivity.
Qed.
(* an inexact leading division: x^2 by 1 + 3x.  The integer run stops (1/3); the float answer is not integer-valued *)
Example polydiv_exact_float_run_refuted :
  polydiv (A := AZ) [0; 0; 1]%Z [1; 3]%Z = Panic Guard /\
  exists q r, polydiv (A := AF) [0; 0; 1]%float [1; 3]%float = Ok (inl (q, r)) /\
    nth 1 q 0%float = (1 / 3)%float /\ ~ exists z, ExactW (1 / 3)%float z.
Proof. exact polydiv_inexact_refuted. Qed.

(* the integer side on its own: whenever the integer long division answers, u = q v + r coefficient by coefficient and r is
   zero or shorter than v; and such a pair is unique when the leading coefficient of v is nonzero (Z is an integral domain) *)
Theorem polydiv_int_identity_unique : forall (u v q r : list Z), polydiv (A := AZ) u v = Ok (inl (q, r)) ->
  (forall k, nth k u 0%Z = nth k (padd (A := AZ) (pmul (A := AZ) q v) r) 0%Z) /\
  (is_zero (A := AZ) r = true \/ (length r < length v)%nat) /\
  (v <> [] -> last v 0%Z <> 0%Z -> forall q' r' : list Z,
     (forall k, nth k u 0%Z = nth k (padd (A := AZ) (pmul (A := AZ) q' v) r') 0%Z) ->
     (is_zero (A := AZ) r' = true \/ (length r' < length v)%nat) ->
     (forall k, nth k q 0%Z = nth k q' 0%Z) /\ (forall k, nth k r 0%Z = nth k r' 0%Z)).
Proof. intros u v q r E. destruct (polydiv_Z_identity_lemma u v q r E) as [I S]. split; [exact I|]. split; [exact S|].
  intros Nv Lv q' r' I' S'. exact (polydiv_Z_unique_lemma u v q r q' r' Nv Lv I S I' S'). Qed.
Check polydiv_int_identity_unique : forall (u v q r : list Z), polydiv (A := AZ) u v = Ok (inl (q, r)) ->
  (forall k, nth k u 0%Z = nth k (padd (A := AZ) (pmul (A := AZ) q v) r) 0%Z) /\
  (is_zero (A := AZ) r = true \/ (length r < length v)%nat) /\
  (v <> [] -> last v 0%Z <> 0%Z -> forall q' r' : list Z,
     (forall k, nth k u 0%Z = nth k (padd (A := AZ) (pmul (A := AZ) q' v) r') 0%Z) ->
     (is_zero (A := AZ) r' = true \/ (length r' < length v)%nat) ->
     (forall k, nth k q 0%Z = nth k q' 0%Z) /\ (forall k, nth k r 0%Z = nth k r' 0%Z)).
Print Assumptions polydiv_int_identity_unique.
Example polydiv_int_identity_unique_nonvacuous :
  polydiv (A := AZ) exUz exVz = Ok (inl ([-4; 1; 2]%Z, [19; -10]%Z)) /\ exVz <> [] /\ last exVz 0%Z <> 0%Z.
Proof. split; [vm_compute; reflexivity|]. split; discriminate. Qed.

(* Complex<f64> with Gaussian-integer coefficients: the same for the complex long division.  The complex quotient term is
   ((a c + b d)/(c^2 + d^2), (b c - a d)/(c^2 + d^2)): over the Gaussian integers (AZC) both divisions must be exact, and
   cDfit asks that the six products fit:  cn1 lead(r) * cn1 lead(v) < 2^53  and  (cn1 lead(v))^2 < 2^53 *)
Theorem cpolydiv_exact_float_run : forall (u v : list (cplx AF)) (uz vz q0 r0 : list (cplx AZ)),
  Forall2 CExactW u uz -> Forall2 CExactW v vz -> polydiv_fits (ZA := AZC) cn1 cDfit uz vz ->
  polydiv (A := AZC) uz vz = Ok (inl (q0, r0)) ->
  exists q r, polydiv (A := ACF) u v = Ok (inl (q, r)) /\ Forall2 CExactW q q0 /\ Forall2 CExactW r r0.
Proof. exact cpolydiv_exact_float_run_lemma. Qed.
Check cpolydiv_exact_float_run : forall (u v : list (cplx AF)) (uz vz q0 r0 : list (cplx AZ)),
  Forall2 CExactW u uz -> Forall2 CExactW v vz -> polydiv_fits (ZA := AZC) cn1 cDfit uz vz ->
  polydiv (A := AZC) uz vz = Ok (inl (q0, r0)) ->
  exists q r, polydiv (A := ACF) u v = Ok (inl (q, r)) /\ Forall2 CExactW q q0 /\ Forall2 CExactW r r0.
Print Assumptions cpolydiv_exact_float_run.
(* u = (2-i) + 3i x + (1+i) x^2 + 2 x^3 by the monic v = (1+i) + x *)
Example cpolydiv_exact_float_run_nonvacuous :
  Forall2 CExactW exCU exCUz /\ Forall2 CExactW exCV exCVz /\ polydiv_fits (ZA := AZC) cn1 cDfit exCUz exCVz /\
  (exists q0 r0, polydiv (A := AZC) exCUz exCVz = Ok (inl (q0, r0)) /\
     exists q r, polydiv (A := ACF) exCU exCV = Ok (inl (q, r)) /\ length q = 3%nat /\ length r = 1%nat).
Proof.
  split; [exact exCU_exact|]. split; [exact exCV_exact|]. split; [exact exCU_fits|].
  eexists _, _. split; [vm_compute; reflexivity|]. eexists _, _. split; [vm_compute; reflexivity|]. split; reflexivity.
Qed.

