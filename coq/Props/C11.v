(* Props/C11.v -- stub, to be filled in *)
