(* Props/C11.v -- polynomial arithmetic, evaluation and differentiation obey the ring and calculus laws.
   Property theorems only: Theorem / exact lemma / Check (pins the statement) / Print Assumptions.
   All theorems quantify over every coefficient list (every length, the empty polynomial included) and
   every value; "RingLaws A" = the operations of A form a commutative ring (a hypothesis, discharged at Qc
   by AQ_RingLaws below; never an axiom).  nth k p zero is coefficient k (zero beyond the length).

   Reading of "the empty polynomial acts as zero" (DESIGN 7, C11): it is neutral for + and -, absorbing
   for * (pempty_laws); eval / derivative of the empty polynomial PANIC in the code and in the model
   (empty_eval_panics) -- that is why the evaluation theorems carry p <> [] hypotheses. *)
From Coq Require Import List Arith ZArith.
From OV Require Import Base.Panic Base.Arith Inst.QcInst Model.Poly Proofs.Poly Proofs.PolyExtra Proofs.PolyRing.
Import ListNotations.

(* the commutative-ring hypothesis is satisfiable: Qc *)
Definition AQ_RingLaws : RingLaws AQ := {| rl_ring := Field_theory.F_R AQ_field |}.

(* ---------------------------------------------------------------- coefficient formulae *)
Theorem nth_padd : forall (A : Arith), RingLaws A -> forall (p q : list A) k,
  nth k (padd p q) zero = add (nth k p zero) (nth k q zero).
Proof. intros A RL p q k. exact (Proofs.Poly.nth_padd RL p q k). Qed.
Check nth_padd : forall (A : Arith), RingLaws A -> forall (p q : list A) k,
  nth k (padd p q) zero = add (nth k p zero) (nth k q zero).
Print Assumptions nth_padd.
Example nth_padd_nonvacuous : RingLaws AQ. Proof. exact AQ_RingLaws. Qed.

Theorem nth_psub : forall (A : Arith), RingLaws A -> forall (p q : list A) k,
  nth k (psub p q) zero = sub (nth k p zero) (nth k q zero).
Proof. intros A RL p q k. exact (Proofs.Poly.nth_psub RL p q k). Qed.
Check nth_psub : forall (A : Arith), RingLaws A -> forall (p q : list A) k,
  nth k (psub p q) zero = sub (nth k p zero) (nth k q zero).
Print Assumptions nth_psub.

Theorem nth_pneg : forall (A : Arith), RingLaws A -> forall (p : list A) k,
  nth k (pneg p) zero = neg (nth k p zero).
Proof. intros A RL p k. exact (Proofs.Poly.nth_pneg RL p k). Qed.
Check nth_pneg : forall (A : Arith), RingLaws A -> forall (p : list A) k,
  nth k (pneg p) zero = neg (nth k p zero).
Print Assumptions nth_pneg.

Theorem nth_pscale : forall (A : Arith), RingLaws A -> forall (p : list A) (s : A) k,
  nth k (pscale p s) zero = mul (nth k p zero) s.
Proof. intros A RL p s k. exact (Proofs.Poly.nth_pscale RL p s k). Qed.
Check nth_pscale : forall (A : Arith), RingLaws A -> forall (p : list A) (s : A) k,
  nth k (pscale p s) zero = mul (nth k p zero) s.
Print Assumptions nth_pscale.

(* the product is the convolution  c_k = Σ_{i<=k} p_i q_{k-i}  (sum_n (S k) f = f 0 + ... + f k) *)
Theorem nth_pmul : forall (A : Arith), RingLaws A -> forall (p q : list A) k,
  nth k (pmul p q) zero = sum_n (S k) (fun i => mul (nth i p zero) (nth (k - i) q zero)).
Proof. intros A RL p q k. exact (Proofs.Poly.nth_pmul RL p q k). Qed.
Check nth_pmul : forall (A : Arith), RingLaws A -> forall (p q : list A) k,
  nth k (pmul p q) zero = sum_n (S k) (fun i => mul (nth i p zero) (nth (k - i) q zero)).
Print Assumptions nth_pmul.

(* derivative: coefficient k is a_{k+1} added up k+1 times, i.e. (k+1) * a_{k+1} with (k+1) = 1+...+1 *)
Theorem nth_pderiv : forall (A : Arith), RingLaws A -> forall (p d : list A) k, pderiv p = Ok d ->
  nth k d zero = add_times (S k) (nth (S k) p zero) zero /\
  nth k d zero = mul (add_times (S k) one zero) (nth (S k) p zero).
Proof.
  intros A RL p d k E. split.
  - exact (Proofs.Poly.nth_pderiv RL p d k E).
  - exact (eq_trans (Proofs.Poly.nth_pderiv RL p d k E) (nmul_of_nat RL (S k) (nth (S k) p zero))).
Qed.
Check nth_pderiv : forall (A : Arith), RingLaws A -> forall (p d : list A) k, pderiv p = Ok d ->
  nth k d zero = add_times (S k) (nth (S k) p zero) zero /\
  nth k d zero = mul (add_times (S k) one zero) (nth (S k) p zero).
Print Assumptions nth_pderiv.
Example nth_pderiv_nonvacuous : exists d, pderiv ([q 5 1; q 1 2; q 3 1] : list AQ) = Ok d /\ length d = 2.
Proof. eexists; split; reflexivity. Qed.

(* ---------------------------------------------------------------- lengths (every arithmetic, no laws) *)
Theorem poly_lengths : forall (A : Arith) (p q : list A) (s : A),
  length (padd p q) = Nat.max (length p) (length q) /\
  length (psub p q) = Nat.max (length p) (length q) /\
  (p <> [] -> q <> [] -> length (pmul p q) = length p + length q - 1) /\
  length (pneg p) = length p /\ length (pscale p s) = length p /\
  (forall d, pderiv p = Ok d -> length d = length p - 1).
Proof.
  intros A p q s.
  exact (conj (length_padd p q) (conj (length_psub p q) (conj (length_pmul p q)
        (conj (length_pneg p) (conj (length_pscale p s) (pderiv_length p)))))).
Qed.
Check poly_lengths : forall (A : Arith) (p q : list A) (s : A),
  length (padd p q) = Nat.max (length p) (length q) /\
  length (psub p q) = Nat.max (length p) (length q) /\
  (p <> [] -> q <> [] -> length (pmul p q) = length p + length q - 1) /\
  length (pneg p) = length p /\ length (pscale p s) = length p /\
  (forall d, pderiv p = Ok d -> length d = length p - 1).
Print Assumptions poly_lengths.

(* ---------------------------------------------------------------- the empty polynomial (every arithmetic) *)
Theorem pempty_laws : forall (A : Arith) (p : list A),
  padd [] p = p /\ padd p [] = p /\ psub p [] = p /\ psub [] p = pneg p /\ pmul [] p = [] /\ pmul p [] = [].
Proof.
  intros A p.
  exact (conj (padd_nil_l p) (conj (padd_nil_r p) (conj (psub_nil_r p) (conj (psub_nil_l p)
        (conj (pmul_nil_l p) (pmul_nil_r p)))))).
Qed.
Check pempty_laws : forall (A : Arith) (p : list A),
  padd [] p = p /\ padd p [] = p /\ psub p [] = p /\ psub [] p = pneg p /\ pmul [] p = [] /\ pmul p [] = [].
Print Assumptions pempty_laws.

Theorem empty_eval_panics : forall (A : Arith) (p : list A) (x : A),
  peval [] x = Panic Unwrap /\ pderiv (@nil A) = Panic Unwrap /\
  (p <> [] -> pderiv_at p x (length p) = Panic Unwrap).
Proof. intros A p x. exact (conj (peval_nil x) (conj pderiv_nil (pderiv_at_exhausted p x))). Qed.
Check empty_eval_panics : forall (A : Arith) (p : list A) (x : A),
  peval [] x = Panic Unwrap /\ pderiv (@nil A) = Panic Unwrap /\
  (p <> [] -> pderiv_at p x (length p) = Panic Unwrap).
Print Assumptions empty_eval_panics.

(* eval / derivative / trim panic exactly on the empty polynomial (every arithmetic; + - * neg scale are total by type) *)
Theorem poly_panics_exactly : forall (A : Arith) (p : list A) (x : A),
  (p = [] -> peval p x = Panic Unwrap /\ pderiv p = Panic Unwrap /\ ptrim p = Panic Underflow) /\
  (p <> [] -> (exists a, peval p x = Ok a) /\ (exists d, pderiv p = Ok d) /\ (exists t, ptrim p = Ok t)).
Proof. intros A p x. exact (poly_panics_exactly_lemma p x). Qed.
Check poly_panics_exactly : forall (A : Arith) (p : list A) (x : A),
  (p = [] -> peval p x = Panic Unwrap /\ pderiv p = Panic Unwrap /\ ptrim p = Panic Underflow) /\
  (p <> [] -> (exists a, peval p x = Ok a) /\ (exists d, pderiv p = Ok d) /\ (exists t, ptrim p = Ok t)).
Print Assumptions poly_panics_exactly.

(* ---------------------------------------------------------------- evaluation is a ring homomorphism *)
Theorem peval_is_sum : forall (A : Arith), RingLaws A -> forall (p : list A) (x : A), p <> [] ->
  peval p x = Ok (sum_n (length p) (fun i => mul (nth i p zero) (rpow x i))).
Proof.
  intros A RL p x H.
  exact (eq_trans (peval_horner RL p x H) (f_equal Ok (horner_sum RL p x))).
Qed.
Check peval_is_sum : forall (A : Arith), RingLaws A -> forall (p : list A) (x : A), p <> [] ->
  peval p x = Ok (sum_n (length p) (fun i => mul (nth i p zero) (rpow x i))).
Print Assumptions peval_is_sum.
Example peval_is_sum_nonvacuous : RingLaws AQ /\ [q 1 1; q (-2) 3; q 0 1; q 7 1] <> ([] : list AQ).
Proof. split; [exact AQ_RingLaws | discriminate]. Qed.

Theorem peval_padd : forall (A : Arith), RingLaws A -> forall (p q : list A) (x : A), p <> [] -> q <> [] ->
  exists a b, peval p x = Ok a /\ peval q x = Ok b /\ peval (padd p q) x = Ok (add a b).
Proof. intros A RL p q x Hp Hq. exact (peval_padd_lemma RL p q x Hp Hq). Qed.
Check peval_padd : forall (A : Arith), RingLaws A -> forall (p q : list A) (x : A), p <> [] -> q <> [] ->
  exists a b, peval p x = Ok a /\ peval q x = Ok b /\ peval (padd p q) x = Ok (add a b).
Print Assumptions peval_padd.
Example peval_padd_nonvacuous : RingLaws AQ /\ [q 1 1; q 2 1] <> ([] : list AQ) /\ [q 0 1; q 0 1; q 5 3] <> ([] : list AQ).
Proof. split; [exact AQ_RingLaws|split; discriminate]. Qed.

Theorem peval_psub : forall (A : Arith), RingLaws A -> forall (p q : list A) (x : A), p <> [] -> q <> [] ->
  exists a b, peval p x = Ok a /\ peval q x = Ok b /\ peval (psub p q) x = Ok (sub a b).
Proof. intros A RL p q x Hp Hq. exact (peval_psub_lemma RL p q x Hp Hq). Qed.
Check peval_psub : forall (A : Arith), RingLaws A -> forall (p q : list A) (x : A), p <> [] -> q <> [] ->
  exists a b, peval p x = Ok a /\ peval q x = Ok b /\ peval (psub p q) x = Ok (sub a b).
Print Assumptions peval_psub.

Theorem peval_pmul : forall (A : Arith), RingLaws A -> forall (p q : list A) (x : A), p <> [] -> q <> [] ->
  exists a b, peval p x = Ok a /\ peval q x = Ok b /\ peval (pmul p q) x = Ok (mul a b).
Proof. intros A RL p q x Hp Hq. exact (peval_pmul_lemma RL p q x Hp Hq). Qed.
Check peval_pmul : forall (A : Arith), RingLaws A -> forall (p q : list A) (x : A), p <> [] -> q <> [] ->
  exists a b, peval p x = Ok a /\ peval q x = Ok b /\ peval (pmul p q) x = Ok (mul a b).
Print Assumptions peval_pmul.

Theorem peval_pneg_pscale : forall (A : Arith), RingLaws A -> forall (p : list A) (x s : A), p <> [] ->
  exists a, peval p x = Ok a /\ peval (pneg p) x = Ok (neg a) /\ peval (pscale p s) x = Ok (mul a s).
Proof. intros A RL p x s Hp. exact (peval_pneg_pscale_lemma RL p x s Hp). Qed.
Check peval_pneg_pscale : forall (A : Arith), RingLaws A -> forall (p : list A) (x s : A), p <> [] ->
  exists a, peval p x = Ok a /\ peval (pneg p) x = Ok (neg a) /\ peval (pscale p s) x = Ok (mul a s).
Print Assumptions peval_pneg_pscale.

(* ---------------------------------------------------------------- calculus *)
Theorem pderiv_linear : forall (A : Arith), RingLaws A -> forall (p q dp dq : list A) (s : A),
  pderiv p = Ok dp -> pderiv q = Ok dq ->
  pderiv (padd p q) = Ok (padd dp dq) /\ pderiv (pscale p s) = Ok (pscale dp s) /\
  (forall d, pderiv (psub p q) = Ok d -> forall k, nth k d zero = nth k (psub dp dq) zero).
Proof.
  intros A RL p q dp dq s Ep Eq.
  exact (conj (pderiv_padd RL p q dp dq Ep Eq) (conj (pderiv_pscale RL p dp s Ep) (pderiv_psub RL p q dp dq Ep Eq))).
Qed.
Check pderiv_linear : forall (A : Arith), RingLaws A -> forall (p q dp dq : list A) (s : A),
  pderiv p = Ok dp -> pderiv q = Ok dq ->
  pderiv (padd p q) = Ok (padd dp dq) /\ pderiv (pscale p s) = Ok (pscale dp s) /\
  (forall d, pderiv (psub p q) = Ok d -> forall k, nth k d zero = nth k (psub dp dq) zero).
Print Assumptions pderiv_linear.
Example pderiv_linear_nonvacuous : RingLaws AQ /\
  exists dp dq, pderiv ([q 1 1; q 2 1; q 3 1] : list AQ) = Ok dp /\ pderiv ([q 4 1; q (-1) 2] : list AQ) = Ok dq.
Proof. split; [exact AQ_RingLaws|]. eexists; eexists; split; reflexivity. Qed.

(* product rule: (p*q)' = p'*q + p*q' as coefficient lists (hence coefficient by coefficient) *)
Theorem pderiv_product : forall (A : Arith), RingLaws A -> forall (p q dp dq : list A),
  pderiv p = Ok dp -> pderiv q = Ok dq ->
  pderiv (pmul p q) = Ok (padd (pmul dp q) (pmul p dq)).
Proof. intros A RL p q dp dq Ep Eq. exact (pderiv_pmul RL p q dp dq Ep Eq). Qed.
Check pderiv_product : forall (A : Arith), RingLaws A -> forall (p q dp dq : list A),
  pderiv p = Ok dp -> pderiv q = Ok dq ->
  pderiv (pmul p q) = Ok (padd (pmul dp q) (pmul p dq)).
Print Assumptions pderiv_product.
Example pderiv_product_nonvacuous : RingLaws AQ /\
  exists dp dq, pderiv ([q 1 1; q 2 1; q 3 1] : list AQ) = Ok dp /\ pderiv ([q 4 1; q (-1) 2] : list AQ) = Ok dq.
Proof. split; [exact AQ_RingLaws|]. eexists; eexists; split; reflexivity. Qed.

(* repeated differentiation (every arithmetic): order k <= len leaves len-k coefficients, order len = degree+1
   leaves the empty polynomial, every higher order panics *)
Theorem pderiv_n_orders : forall (A : Arith) (p : list A), p <> [] ->
  pderiv_n p (length p) = Ok [] /\
  (forall k, k <= length p -> exists d, pderiv_n p k = Ok d /\ length d = length p - k) /\
  (forall k, length p < k -> pderiv_n p k = Panic Unwrap).
Proof.
  intros A p Hp.
  exact (conj (pderiv_n_exhausts p Hp) (conj (fun k => pderiv_n_length k p) (fun k => pderiv_n_beyond k p))).
Qed.
Check pderiv_n_orders : forall (A : Arith) (p : list A), p <> [] ->
  pderiv_n p (length p) = Ok [] /\
  (forall k, k <= length p -> exists d, pderiv_n p k = Ok d /\ length d = length p - k) /\
  (forall k, length p < k -> pderiv_n p k = Panic Unwrap).
Print Assumptions pderiv_n_orders.
Example pderiv_n_orders_nonvacuous : [q 1 1; q 2 1; q 3 1] <> ([] : list AQ).
Proof. discriminate. Qed.

(* ---------------------------------------------------------------- is_zero / trim / index (anchors: trim / is_zero, index operator) *)
(* the explicit guard of Index / IndexMut fires exactly on index >= len (every arithmetic) *)
Theorem pindex_spec : forall (A : Arith) (p : list A) i (x : A),
  (i < length p -> pindex p i = Ok (nth i p zero) /\ pindex_set p i x = Ok (upd_list p i x)) /\
  (length p <= i -> pindex p i = Panic Guard /\ pindex_set p i x = Panic Guard).
Proof. intros A p i x. exact (pindex_spec_lemma p i x). Qed.
Check pindex_spec : forall (A : Arith) (p : list A) i (x : A),
  (i < length p -> pindex p i = Ok (nth i p zero) /\ pindex_set p i x = Ok (upd_list p i x)) /\
  (length p <= i -> pindex p i = Panic Guard /\ pindex_set p i x = Panic Guard).
Print Assumptions pindex_spec.

(* is_zero and trim compare with ==; where == decides equality (Rat / Qc; not f64: NaN, -0.0) they mean
   "all coefficients are zero" and "drop the zero coefficients above the true degree, keep at least one" *)
Theorem is_zero_spec : forall (A : Arith), (forall x y : A, eqb x y = true <-> x = y) ->
  forall p : list A, is_zero p = true <-> forall k, nth k p zero = zero.
Proof. intros A H p. exact (is_zero_spec_lemma H p). Qed.
Check is_zero_spec : forall (A : Arith), (forall x y : A, eqb x y = true <-> x = y) ->
  forall p : list A, is_zero p = true <-> forall k, nth k p zero = zero.
Print Assumptions is_zero_spec.
Example is_zero_spec_nonvacuous : forall x y : AQ, eqb x y = true <-> x = y.
Proof. exact Qc_eqb_spec. Qed.

Theorem ptrim_spec : forall (A : Arith), (forall x y : A, eqb x y = true <-> x = y) -> forall p : list A,
  (p = [] -> ptrim p = Panic Underflow) /\
  (p <> [] -> exists p' n, ptrim p = Ok p' /\ p = p' ++ repeat zero n /\ p' <> [] /\
                           (forall k, nth k p' zero = nth k p zero) /\ (length p' = 1 \/ last p' zero <> zero)).
Proof. intros A H p. exact (ptrim_spec_lemma H p). Qed.
Check ptrim_spec : forall (A : Arith), (forall x y : A, eqb x y = true <-> x = y) -> forall p : list A,
  (p = [] -> ptrim p = Panic Underflow) /\
  (p <> [] -> exists p' n, ptrim p = Ok p' /\ p = p' ++ repeat zero n /\ p' <> [] /\
                           (forall k, nth k p' zero = nth k p zero) /\ (length p' = 1 \/ last p' zero <> zero)).
Print Assumptions ptrim_spec.
Example ptrim_spec_nonvacuous : (forall x y : AQ, eqb x y = true <-> x = y) /\ [q 1 1; q 0 1; q 2 1; q 0 1; q 0 1] <> ([] : list AQ).
Proof. split; [exact Qc_eqb_spec|discriminate]. Qed.

(* ---------------------------------------------------------------- the ring laws themselves, coefficient by coefficient *)
(* (equality as polynomials: formal trailing zeros ignored; the empty polynomial is the zero of this ring, pempty_laws) *)
Theorem poly_ring_laws : forall (A : Arith), RingLaws A -> forall (p q r : list A) (s : A),
  (forall k, nth k (padd p q) zero = nth k (padd q p) zero) /\
  (forall k, nth k (padd (padd p q) r) zero = nth k (padd p (padd q r)) zero) /\
  (forall k, nth k (padd p (pneg p)) zero = nth k [] zero) /\
  (forall k, nth k (psub p q) zero = nth k (padd p (pneg q)) zero) /\
  (forall k, nth k (pmul p q) zero = nth k (pmul q p) zero) /\
  (forall k, nth k (pmul (pmul p q) r) zero = nth k (pmul p (pmul q r)) zero) /\
  (forall k, nth k (pmul [one] p) zero = nth k p zero) /\
  (forall k, nth k (pmul (padd p q) r) zero = nth k (padd (pmul p r) (pmul q r)) zero) /\
  (forall k, nth k (pscale p s) zero = nth k (pmul [s] p) zero).
Proof.
  intros A RL p q r s.
  exact (conj (padd_comm RL p q) (conj (padd_assoc RL p q r) (conj (padd_neg RL p) (conj (psub_as_add RL p q)
        (conj (pmul_comm RL p q) (conj (pmul_assoc RL p q r) (conj (pmul_one_l RL p)
        (conj (pmul_padd_distr_r RL p q r) (pscale_as_pmul RL p s))))))))).
Qed.
Check poly_ring_laws : forall (A : Arith), RingLaws A -> forall (p q r : list A) (s : A),
  (forall k, nth k (padd p q) zero = nth k (padd q p) zero) /\
  (forall k, nth k (padd (padd p q) r) zero = nth k (padd p (padd q r)) zero) /\
  (forall k, nth k (padd p (pneg p)) zero = nth k [] zero) /\
  (forall k, nth k (psub p q) zero = nth k (padd p (pneg q)) zero) /\
  (forall k, nth k (pmul p q) zero = nth k (pmul q p) zero) /\
  (forall k, nth k (pmul (pmul p q) r) zero = nth k (pmul p (pmul q r)) zero) /\
  (forall k, nth k (pmul [one] p) zero = nth k p zero) /\
  (forall k, nth k (pmul (padd p q) r) zero = nth k (padd (pmul p r) (pmul q r)) zero) /\
  (forall k, nth k (pscale p s) zero = nth k (pmul [s] p) zero).
Print Assumptions poly_ring_laws.

(* ---------------------------------------------------------------- the same at Qc, hypotheses discharged *)
Theorem peval_pmul_Qc : forall (p q : list AQ) (x : AQ), p <> [] -> q <> [] ->
  exists a b, peval p x = Ok a /\ peval q x = Ok b /\ peval (pmul p q) x = Ok (mul a b).
Proof. exact (peval_pmul_lemma AQ_RingLaws). Qed.
Check peval_pmul_Qc : forall (p q : list AQ) (x : AQ), p <> [] -> q <> [] ->
  exists a b, peval p x = Ok a /\ peval q x = Ok b /\ peval (pmul p q) x = Ok (mul a b).
Print Assumptions peval_pmul_Qc.

Theorem pderiv_product_Qc : forall (p q dp dq : list AQ), pderiv p = Ok dp -> pderiv q = Ok dq ->
  pderiv (pmul p q) = Ok (padd (pmul dp q) (pmul p dq)).
Proof. exact (pderiv_pmul AQ_RingLaws). Qed.
Check pderiv_product_Qc : forall (p q dp dq : list AQ), pderiv p = Ok dp -> pderiv q = Ok dq ->
  pderiv (pmul p q) = Ok (padd (pmul dp q) (pmul p dq)).
Print Assumptions pderiv_product_Qc.

(* ---- tie to the source by proof (package r2c): the functions regenerated from /repo/src on this run by the Rust-subset ->
   Gallina translator (driver/rust2coq.py -> gen/Src*.v) are equal, for all arguments, to the hand-written model functions
   the theorems above are about (Proofs/SrcEq*.v).  A change of a loop bound, index, operator or statement order in the
   source breaks the corresponding src_<function> lemma and with it this obligation. *)
From OV Require Proofs.SrcEqPoly.
Theorem model_is_source_C11_Poly : forall A : Arith, @SrcEqPoly.model_is_source_Poly A.
Proof. intros A. exact SrcEqPoly.model_is_source_Poly_lemma. Qed.
Check model_is_source_C11_Poly : forall A : Arith, @SrcEqPoly.model_is_source_Poly A.
Print Assumptions model_is_source_C11_Poly.
(* ---- tie of the model to the source of this run (package r2c2): gen/SrcWrapPoly.v is regenerated on every check run from
   src/polynomial/{arithmetic,mod}.rs: the consuming operator forms, Index, empty, new, quadratic, cubic, size, degree, Clone;
   Proofs/SrcEqWrapPoly.v proves each regenerated function equal to its hand-written model. *)
From OV Require Proofs.SrcEqWrapPoly.
Theorem model_is_source_C11_WrapPoly : forall A : Arith, @SrcEqWrapPoly.model_is_source_WrapPoly A.
Proof. intros A. exact SrcEqWrapPoly.model_is_source_WrapPoly_lemma. Qed.
Check model_is_source_C11_WrapPoly : forall A : Arith, @SrcEqWrapPoly.model_is_source_WrapPoly A.
Print Assumptions model_is_source_C11_WrapPoly.
(* ======================================================================================================
   C11 (polynomial ring and calculus laws), rounding half -- package round.  Append to Props/C11.v.
   Horner evaluation "to rounding accuracy": Model/Poly.v [peval] in the STANDARD MODEL of floating-point arithmetic
   (the same Gallina [peval] at ARm): the computed value is the exact value of a polynomial whose coefficients are
   perturbed relatively by at most gam (2d), d = degree; hence |fl(p(x)) - p(x)| <= gam (2d) Sum |a_i| |x|^i
   (Higham, Accuracy and Stability of Numerical Algorithms, (5.3)), for every degree with 2 d u < 1.
   Unproved remainder: this is the a priori bound; the running (a posteriori) error bound of Higham Alg. 5.1 belongs to
   an algorithm the code does not contain.  The standard model itself for IEEE binary64 is not re-proved here.
   ====================================================================================================== *)
From Coq Require Import Reals Lra Lia.
From OV Require Import Base.RoundModel Proofs.RoundPoly Proofs.RoundFlx.

Theorem peval_backward_error : forall (u : R), (0 <= u < 1)%R ->
  forall (fadd fsub fmul fdiv : R -> R -> R),
  (forall x y : R, exists d : R, (Rabs d <= u)%R /\ fadd x y = ((x + y) * (1 + d))%R) ->
  (forall x y : R, exists d : R, (Rabs d <= u)%R /\ fmul x y = (x * y * (1 + d))%R) ->
  forall (p : list R) (x r : R),
  (INR (2 * (length p - 1)) * u < 1)%R -> peval (A := ARm fadd fsub fmul fdiv) p x = Ok r ->
  exists th : nat -> R,
    (forall i, (i < length p)%nat -> (Rabs (th i) <= gam u (2 * (length p - 1)))%R) /\
    r = Rsum (length p) (fun i => (nth i p 0 * (1 + th i) * x ^ i)%R).
Proof. intros u Hu fadd fsub fmul fdiv Ha Hm p x r. exact (peval_backward_error_lemma u Hu fadd fsub fmul fdiv Ha Hm p x r). Qed.
Check peval_backward_error : forall (u : R), (0 <= u < 1)%R ->
  forall (fadd fsub fmul fdiv : R -> R -> R),
  (forall x y : R, exists d : R, (Rabs d <= u)%R /\ fadd x y = ((x + y) * (1 + d))%R) ->
  (forall x y : R, exists d : R, (Rabs d <= u)%R /\ fmul x y = (x * y * (1 + d))%R) ->
  forall (p : list R) (x r : R),
  (INR (2 * (length p - 1)) * u < 1)%R -> peval (A := ARm fadd fsub fmul fdiv) p x = Ok r ->
  exists th : nat -> R,
    (forall i, (i < length p)%nat -> (Rabs (th i) <= gam u (2 * (length p - 1)))%R) /\
    r = Rsum (length p) (fun i => (nth i p 0 * (1 + th i) * x ^ i)%R).
Print Assumptions peval_backward_error.
(* 1 + 2x + 3x^2 at x = 2 in the arithmetic that rounds every operation to 53 bits *)
Example peval_backward_error_nonvacuous :
  (0 <= ux < 1)%R /\
  (forall x y : R, exists d : R, (Rabs d <= ux)%R /\ xadd x y = ((x + y) * (1 + d))%R) /\
  (forall x y : R, exists d : R, (Rabs d <= ux)%R /\ xmul x y = (x * y * (1 + d))%R) /\
  (INR (2 * (length [1%R; 2%R; 3%R] - 1)) * ux < 1)%R /\
  exists r, peval (A := AFlx) [1%R; 2%R; 3%R] 2%R = Ok r.
Proof.
  split; [exact ux_range|]. split; [exact xadd_ok|]. split; [exact xmul_ok|].
  split; [cbn [length Nat.sub Nat.mul Nat.add INR]; pose proof ux_small; lra|eexists; reflexivity].
Qed.

Theorem peval_forward_error : forall (u : R), (0 <= u < 1)%R ->
  forall (fadd fsub fmul fdiv : R -> R -> R),
  (forall x y : R, exists d : R, (Rabs d <= u)%R /\ fadd x y = ((x + y) * (1 + d))%R) ->
  (forall x y : R, exists d : R, (Rabs d <= u)%R /\ fmul x y = (x * y * (1 + d))%R) ->
  forall (p : list R) (x r : R),
  (INR (2 * (length p - 1)) * u < 1)%R -> peval (A := ARm fadd fsub fmul fdiv) p x = Ok r ->
  (Rabs (r - Rsum (length p) (fun i => nth i p 0 * x ^ i))
     <= gam u (2 * (length p - 1)) * Rsum (length p) (fun i => Rabs (nth i p 0) * Rabs x ^ i))%R.
Proof. intros u Hu fadd fsub fmul fdiv Ha Hm p x r. exact (peval_forward_error_lemma u Hu fadd fsub fmul fdiv Ha Hm p x r). Qed.
Check peval_forward_error : forall (u : R), (0 <= u < 1)%R ->
  forall (fadd fsub fmul fdiv : R -> R -> R),
  (forall x y : R, exists d : R, (Rabs d <= u)%R /\ fadd x y = ((x + y) * (1 + d))%R) ->
  (forall x y : R, exists d : R, (Rabs d <= u)%R /\ fmul x y = (x * y * (1 + d))%R) ->
  forall (p : list R) (x r : R),
  (INR (2 * (length p - 1)) * u < 1)%R -> peval (A := ARm fadd fsub fmul fdiv) p x = Ok r ->
  (Rabs (r - Rsum (length p) (fun i => nth i p 0 * x ^ i))
     <= gam u (2 * (length p - 1)) * Rsum (length p) (fun i => Rabs (nth i p 0) * Rabs x ^ i))%R.
Print Assumptions peval_forward_error.
Example peval_forward_error_nonvacuous :   (* same instance *)
  (0 <= ux < 1)%R /\ (INR (2 * (length [1%R; 2%R; 3%R] - 1)) * ux < 1)%R /\
  exists r, peval (A := AFlx) [1%R; 2%R; 3%R] 2%R = Ok r.
Proof.
  split; [exact ux_range|].
  split; [cbn [length Nat.sub Nat.mul Nat.add INR]; pose proof ux_small; lra|eexists; reflexivity].
Qed.

(* ---- the same at the PRIMITIVE-FLOAT instance (IEEE binary64, u = 2^-53), through Flocq: no hypothesis about rounding
   remains; the result must be finite and no product acc * x of the Horner loop may underflow ([horner_partial p x k] is
   the accumulator after k steps, a float expression in p and x) ---- *)
From Coq Require Import Floats.
From OV Require Import Inst.FloatInst Proofs.ComplexRound Proofs.RoundDotFloat Proofs.RoundPolyFloat.

Theorem peval_backward_error_float : forall (p : list PrimFloat.float) (x r : PrimFloat.float),
  peval (A := AF) p x = Ok r -> ffinite r ->
  (forall k, (k < length p - 1)%nat -> no_underflow (FR (horner_partial p x k) * FR x)%R) ->
  (INR (2 * (length p - 1)) * u64 < 1)%R ->
  exists th : nat -> R,
    (forall i, (i < length p)%nat -> (Rabs (th i) <= g64 (2 * (length p - 1)))%R) /\
    FR r = Rsum (length p) (fun i => (FR (nth i p 0%float) * (1 + th i) * FR x ^ i)%R).
Proof. exact peval_backward_error_float_lemma. Qed.
Check peval_backward_error_float : forall (p : list PrimFloat.float) (x r : PrimFloat.float),
  peval (A := AF) p x = Ok r -> ffinite r ->
  (forall k, (k < length p - 1)%nat -> no_underflow (FR (horner_partial p x k) * FR x)%R) ->
  (INR (2 * (length p - 1)) * u64 < 1)%R ->
  exists th : nat -> R,
    (forall i, (i < length p)%nat -> (Rabs (th i) <= g64 (2 * (length p - 1)))%R) /\
    FR r = Rsum (length p) (fun i => (FR (nth i p 0%float) * (1 + th i) * FR x ^ i)%R).
Print Assumptions peval_backward_error_float.
(* 1 + c x + 3 x^2 at x = 0.5 with c the double nearest 0.1: the sum 1.5 + c is inexact *)
Example peval_backward_error_float_nonvacuous :
  let p := [1%float; 0x1.999999999999ap-4%float; 3%float] in let x := 0.5%float in
  (exists r, peval (A := AF) p x = Ok r /\ ffinite r) /\
  (forall k, (k < length p - 1)%nat -> no_underflow (FR (horner_partial p x k) * FR x)%R) /\
  (INR (2 * (length p - 1)) * u64 < 1)%R.
Proof.
  cbn zeta. split; [eexists; split; [reflexivity|apply ffinite_SF; reflexivity]|]. split.
  - assert (Eh : FR 0.5%float = (/ 2)%R) by fr_eval. assert (E3 : FR 3%float = 3%R) by fr_eval.
    assert (B : (1 <= FR (3 * 0.5 + 0x1.999999999999ap-4)%float <= 2)%R) by (split; fr_eval).
    intros [|[|k]] Hk; cbn in Hk; try lia; apply no_underflow_ge_small.
    + change (horner_partial [1%float; 0x1.999999999999ap-4%float; 3%float] 0.5%float 0) with 3%float.
      rewrite Eh, E3, Rabs_pos_eq; lra.
    + change (horner_partial [1%float; 0x1.999999999999ap-4%float; 3%float] 0.5%float 1)
        with (3 * 0.5 + 0x1.999999999999ap-4)%float.
      rewrite Eh, Rabs_pos_eq; lra.
  - cbn [length Nat.sub Nat.mul Nat.add INR]. pose proof u64_small. lra.
Qed.

Theorem peval_forward_error_float : forall (p : list PrimFloat.float) (x r : PrimFloat.float),
  peval (A := AF) p x = Ok r -> ffinite r ->
  (forall k, (k < length p - 1)%nat -> no_underflow (FR (horner_partial p x k) * FR x)%R) ->
  (INR (2 * (length p - 1)) * u64 < 1)%R ->
  (Rabs (FR r - Rsum (length p) (fun i => FR (nth i p 0%float) * FR x ^ i))
     <= g64 (2 * (length p - 1)) * Rsum (length p) (fun i => Rabs (FR (nth i p 0%float)) * Rabs (FR x) ^ i))%R.
Proof. exact peval_forward_error_float_lemma. Qed.
Check peval_forward_error_float : forall (p : list PrimFloat.float) (x r : PrimFloat.float),
  peval (A := AF) p x = Ok r -> ffinite r ->
  (forall k, (k < length p - 1)%nat -> no_underflow (FR (horner_partial p x k) * FR x)%R) ->
  (INR (2 * (length p - 1)) * u64 < 1)%R ->
  (Rabs (FR r - Rsum (length p) (fun i => FR (nth i p 0%float) * FR x ^ i))
     <= g64 (2 * (length p - 1)) * Rsum (length p) (fun i => Rabs (FR (nth i p 0%float)) * Rabs (FR x) ^ i))%R.
Print Assumptions peval_forward_error_float.
Example peval_forward_error_float_nonvacuous :   (* exactly representable data: 1 + 2x + 3x^2 at 0.5 *)
  let p := [1%float; 2%float; 3%float] in let x := 0.5%float in
  (exists r, peval (A := AF) p x = Ok r /\ ffinite r) /\ (INR (2 * (length p - 1)) * u64 < 1)%R.
Proof.
  cbn zeta. split; [eexists; split; [reflexivity|apply ffinite_SF; reflexivity]|].
  cbn [length Nat.sub Nat.mul Nat.add INR]. pose proof u64_small. lra.
Qed.

(* package polyexact (round 4): pin blocks for the binary64 / Complex<f64> EXACTNESS theorems of C11 and C12
   ("all of this holds exactly for exactly-representable coefficients"; "exactly over exact coefficients").
   Format of CONVENTIONS section 2.  No scope is opened: integers carry %Z, floats %float.

   Vocabulary (definitions in the files named):
     ExactW x z   Proofs/ParDotFloat.v   the float x is finite and its real value is the integer z (a zero: either sign)
     Exact  x z   Proofs/ParDotFloat.v   ... and x is not the negative zero: the bit pattern of x is determined by z
     AZ, AZC      Proofs/PolyExact.v     the integers / the Gaussian integers as an arithmetic: the model functions of
                                         Model/Poly.v run there too, and give the exact results the floats are compared with;
                                         AZ's div answers only when the divisor divides (Panic Guard otherwise)
     horner p x   Proofs/Poly.v          a_0 + x (a_1 + x (...)): the value of p at x (peval p x = Ok (horner p x) over a ring)
     eval_fits zs x   := horner |zs| |x| < 2^53          (sum_i |a_i| |x|^i < 2^53)            Proofs/PolyExactF.v
     pmul_fits zs ws  := every coefficient of |zs| * |ws| is < 2^53  (sum_i |a_i| |b_(k-i)|)   Proofs/PolyExactF.v
     same_value r r' z := ExactW r z /\ ExactW r' z /\ (r == r') = true /\ (z <> 0 -> r = r') Proofs/PolyExactF.v
     geom n xi    := 1 + xi + ... + xi^(n-1)                                                   Proofs/PolyExactB.v
     CExactW, CExact, cn1 g = |re g| + |im g|, ceval_fits                                      Proofs/PolyExactC.v
     polydiv_fits N D u v : every pass of the integer long division fits below 2^53              Proofs/PolyExactDiv.v *)
From Coq Require Import ZArith Reals Floats Lia List Bool Arith.
From OV Require Import Base.Panic Base.Arith gen.Params Model.Poly Model.Complex Inst.FloatInst Proofs.Poly
  Proofs.ParDotFloat Proofs.PolyExact Proofs.PolyExactF Proofs.PolyExactB Proofs.PolyExactC Proofs.PolyExactDiv
  Proofs.PolyExactDivZ Proofs.PolyExactDivF Proofs.PolyExactDivC Proofs.PolyExactEx.
Import ListNotations.

(* ==== C11 ==== *)
(* binary64, integer-valued coefficients (p ~ zs, q ~ ws, s ~ sz through ExactW): every operation returns the float images
   of what the SAME model function returns over the integers, provided the exact results (for the product: the sums
   sum_i |a_i| |b_(k-i)|; for the derivative, which adds a_(i+1) to zero i+1 times: the results (i+1) a_(i+1)) are below 2^53.
   Products, derivatives never contain a negative zero (Exact).  pderiv_n: every derivative of order 1..n must fit.
   Panics: exactly those of the integer run (pderiv zs = Ok dz is part of the hypothesis: the empty polynomial) *)
Theorem poly_ops_exact_float : forall (p q : list PrimFloat.float) (zs ws : list Z) (s : PrimFloat.float) (sz : Z),
  Forall2 ExactW p zs -> Forall2 ExactW q ws -> ExactW s sz ->
  (Forall (fun c : Z => (Z.abs c < 2 ^ 53)%Z) (padd (A := AZ) zs ws) -> Forall2 ExactW (padd (A := AF) p q) (padd (A := AZ) zs ws)) /\
  (Forall (fun c : Z => (Z.abs c < 2 ^ 53)%Z) (psub (A := AZ) zs ws) -> Forall2 ExactW (psub (A := AF) p q) (psub (A := AZ) zs ws)) /\
  Forall2 ExactW (pneg (A := AF) p) (pneg (A := AZ) zs) /\
  (Forall (fun c : Z => (Z.abs c < 2 ^ 53)%Z) (pscale (A := AZ) zs sz) -> Forall2 ExactW (pscale (A := AF) p s) (pscale (A := AZ) zs sz)) /\
  (pmul_fits zs ws -> Forall2 Exact (pmul (A := AF) p q) (pmul (A := AZ) zs ws)) /\
  (forall dz, pderiv (A := AZ) zs = Ok dz -> Forall (fun c : Z => (Z.abs c < 2 ^ 53)%Z) dz ->
     exists d, pderiv (A := AF) p = Ok d /\ Forall2 Exact d dz) /\
  (forall n dz, pderiv_n (A := AZ) zs n = Ok dz ->
     (forall k dk, (1 <= k <= n)%nat -> pderiv_n (A := AZ) zs k = Ok dk -> Forall (fun c : Z => (Z.abs c < 2 ^ 53)%Z) dk) ->
     exists d, pderiv_n (A := AF) p n = Ok d /\ Forall2 ExactW d dz).
Proof. intros p q zs ws s sz Hp Hq Hs.
  exact (Logic.conj (padd_exact_float_lemma p q zs ws Hp Hq) (Logic.conj (psub_exact_float_lemma p q zs ws Hp Hq)
        (Logic.conj (pneg_exact_float_lemma p zs Hp) (Logic.conj (pscale_exact_float_lemma p zs Hp s sz Hs)
        (Logic.conj (pmul_exact_float_lemma p q zs ws Hp Hq) (Logic.conj (pderiv_exact_float_lemma p zs Hp)
        (pderiv_n_exact_float_lemma p zs Hp))))))). Qed.
Check poly_ops_exact_float : forall (p q : list PrimFloat.float) (zs ws : list Z) (s : PrimFloat.float) (sz : Z),
  Forall2 ExactW p zs -> Forall2 ExactW q ws -> ExactW s sz ->
  (Forall (fun c : Z => (Z.abs c < 2 ^ 53)%Z) (padd (A := AZ) zs ws) -> Forall2 ExactW (padd (A := AF) p q) (padd (A := AZ) zs ws)) /\
  (Forall (fun c : Z => (Z.abs c < 2 ^ 53)%Z) (psub (A := AZ) zs ws) -> Forall2 ExactW (psub (A := AF) p q) (psub (A := AZ) zs ws)) /\
  Forall2 ExactW (pneg (A := AF) p) (pneg (A := AZ) zs) /\
  (Forall (fun c : Z => (Z.abs c < 2 ^ 53)%Z) (pscale (A := AZ) zs sz) -> Forall2 ExactW (pscale (A := AF) p s) (pscale (A := AZ) zs sz)) /\
  (pmul_fits zs ws -> Forall2 Exact (pmul (A := AF) p q) (pmul (A := AZ) zs ws)) /\
  (forall dz, pderiv (A := AZ) zs = Ok dz -> Forall (fun c : Z => (Z.abs c < 2 ^ 53)%Z) dz ->
     exists d, pderiv (A := AF) p = Ok d /\ Forall2 Exact d dz) /\
  (forall n dz, pderiv_n (A := AZ) zs n = Ok dz ->
     (forall k dk, (1 <= k <= n)%nat -> pderiv_n (A := AZ) zs k = Ok dk -> Forall (fun c : Z => (Z.abs c < 2 ^ 53)%Z) dk) ->
     exists d, pderiv_n (A := AF) p n = Ok d /\ Forall2 ExactW d dz).
Print Assumptions poly_ops_exact_float.
(* p = 3 - 2x + 5x^3 (degree 3), q = -7 + 4x + x^2 + 2x^4 (degree 4), s = -6 *)
Example poly_ops_exact_float_nonvacuous :
  Forall2 ExactW exP exPz /\ Forall2 ExactW exQ exQz /\ ExactW (-6)%float (-6)%Z /\
  Forall (fun c : Z => (Z.abs c < 2 ^ 53)%Z) (padd (A := AZ) exPz exQz) /\ Forall (fun c : Z => (Z.abs c < 2 ^ 53)%Z) (psub (A := AZ) exPz exQz) /\
  Forall (fun c : Z => (Z.abs c < 2 ^ 53)%Z) (pscale (A := AZ) exPz (-6)%Z) /\ pmul_fits exPz exQz /\
  (exists dz, pderiv_n (A := AZ) exPz 2 = Ok dz /\ dz = [0; 30]%Z) /\
  pmul (A := AF) exP exQ = [-21; 26; -5; -37; 26; 1; 0; 10]%float /\
  pmul (A := AZ) exPz exQz = [-21; 26; -5; -37; 26; 1; 0; 10]%Z /\
  pderiv_n (A := AF) exP 2 = Ok [0; 30]%float.
Proof.
  split; [exact exP_exactW|]. split; [exact exQ_exactW|]. split; [exact ex_s_exact|].
  split; [fits|]. split; [fits|]. split; [fits|]. split; [unfold pmul_fits; fits|].
  split; [eexists; split; vm_compute; reflexivity|]. repeat split; vm_compute; reflexivity.
Qed.
(* outside the bound: 2^53 and 1 are floats, their integer sum 2^53 + 1 is not, and the float sum is 2^53 *)
Example poly_ops_exact_float_refuted :
  padd (A := AF) [9007199254740992%float] [1%float] = [9007199254740992%float] /\
  padd (A := AZ) [2 ^ 53]%Z [1]%Z = [2 ^ 53 + 1]%Z /\ ~ Forall2 ExactW [9007199254740992%float] [2 ^ 53 + 1]%Z.
Proof. exact padd_beyond_refuted. Qed.

(* the same with the size conditions in terms of the INPUTS: |a_i| <= al, |b_j| <= be.
   sum/difference: al + be; scalar multiple: al |s|; product: len p * al * be; derivative: (len p - 1) * al;
   Horner at the integer point x: al (1 + |x| + ... + |x|^(len p - 1))  -- each below 2^53 *)
Theorem poly_exact_float_input_bounds : forall (p q : list PrimFloat.float) (zs ws : list Z) (s x : PrimFloat.float) (sz xz al be : Z),
  Forall2 ExactW p zs -> Forall2 ExactW q ws -> ExactW s sz -> ExactW x xz ->
  (0 <= al)%Z -> (0 <= be)%Z ->
  Forall (fun a : Z => (Z.abs a <= al)%Z) zs -> Forall (fun b : Z => (Z.abs b <= be)%Z) ws ->
  ((al + be < 2 ^ 53)%Z ->
     Forall2 ExactW (padd (A := AF) p q) (padd (A := AZ) zs ws) /\
     Forall2 ExactW (psub (A := AF) p q) (psub (A := AZ) zs ws)) /\
  Forall2 ExactW (pneg (A := AF) p) (pneg (A := AZ) zs) /\
  ((al * Z.abs sz < 2 ^ 53)%Z -> Forall2 ExactW (pscale (A := AF) p s) (pscale (A := AZ) zs sz)) /\
  ((Z.of_nat (length zs) * (al * be) < 2 ^ 53)%Z -> Forall2 Exact (pmul (A := AF) p q) (pmul (A := AZ) zs ws)) /\
  ((Z.of_nat (length zs - 1) * al < 2 ^ 53)%Z -> forall dz, pderiv (A := AZ) zs = Ok dz ->
     exists d, pderiv (A := AF) p = Ok d /\ Forall2 Exact d dz) /\
  ((al * geom (length zs) (Z.abs xz) < 2 ^ 53)%Z -> p <> [] ->
     exists r, peval (A := AF) p x = Ok r /\ ExactW r (horner (A := AZ) zs xz)).
Proof. exact poly_exact_float_bounds_lemma. Qed.
Check poly_exact_float_input_bounds : forall (p q : list PrimFloat.float) (zs ws : list Z) (s x : PrimFloat.float) (sz xz al be : Z),
  Forall2 ExactW p zs -> Forall2 ExactW q ws -> ExactW s sz -> ExactW x xz ->
  (0 <= al)%Z -> (0 <= be)%Z ->
  Forall (fun a : Z => (Z.abs a <= al)%Z) zs -> Forall (fun b : Z => (Z.abs b <= be)%Z) ws ->
  ((al + be < 2 ^ 53)%Z ->
     Forall2 ExactW (padd (A := AF) p q) (padd (A := AZ) zs ws) /\
     Forall2 ExactW (psub (A := AF) p q) (psub (A := AZ) zs ws)) /\
  Forall2 ExactW (pneg (A := AF) p) (pneg (A := AZ) zs) /\
  ((al * Z.abs sz < 2 ^ 53)%Z -> Forall2 ExactW (pscale (A := AF) p s) (pscale (A := AZ) zs sz)) /\
  ((Z.of_nat (length zs) * (al * be) < 2 ^ 53)%Z -> Forall2 Exact (pmul (A := AF) p q) (pmul (A := AZ) zs ws)) /\
  ((Z.of_nat (length zs - 1) * al < 2 ^ 53)%Z -> forall dz, pderiv (A := AZ) zs = Ok dz ->
     exists d, pderiv (A := AF) p = Ok d /\ Forall2 Exact d dz) /\
  ((al * geom (length zs) (Z.abs xz) < 2 ^ 53)%Z -> p <> [] ->
     exists r, peval (A := AF) p x = Ok r /\ ExactW r (horner (A := AZ) zs xz)).
Print Assumptions poly_exact_float_input_bounds.
Example poly_exact_float_input_bounds_nonvacuous :
  Forall2 ExactW exP exPz /\ Forall2 ExactW exQ exQz /\ ExactW (-6)%float (-6)%Z /\ ExactW 3%float 3%Z /\
  (0 <= 5)%Z /\ (0 <= 7)%Z /\
  Forall (fun a : Z => (Z.abs a <= 5)%Z) exPz /\ Forall (fun b : Z => (Z.abs b <= 7)%Z) exQz /\
  (5 + 7 < 2 ^ 53)%Z /\ (5 * Z.abs (-6) < 2 ^ 53)%Z /\ (Z.of_nat (length exPz) * (5 * 7) < 2 ^ 53)%Z /\
  (Z.of_nat (length exPz - 1) * 5 < 2 ^ 53)%Z /\ (5 * geom (length exPz) (Z.abs 3) < 2 ^ 53)%Z /\ exP <> [].
Proof.
  split; [exact exP_exactW|]. split; [exact exQ_exactW|]. split; [exact ex_s_exact|]. split; [exact ex_x_exact|].
  split; [lia|]. split; [lia|]. split; [repeat constructor; cbn; lia|]. split; [repeat constructor; cbn; lia|].
  repeat split; try (vm_compute; reflexivity). discriminate.
Qed.

(* Horner at an integer point with sum_i |a_i| |x|^i < 2^53 is exact: no step rounds; the result is the float image of the
   integer value (and not a negative zero when no coefficient is one) *)
Theorem peval_exact_float : forall (p : list PrimFloat.float) (zs : list Z) (x : PrimFloat.float) (xz : Z),
  Forall2 ExactW p zs -> ExactW x xz -> p <> [] -> eval_fits zs xz ->
  exists r, peval (A := AF) p x = Ok r /\ ExactW r (horner (A := AZ) zs xz) /\
            (Z.abs (horner (A := AZ) zs xz) <= horner (A := AZ) (map Z.abs zs) (Z.abs xz))%Z /\
            (Forall2 Exact p zs -> Exact r (horner (A := AZ) zs xz)).
Proof. exact peval_exact_float_lemma. Qed.
Check peval_exact_float : forall (p : list PrimFloat.float) (zs : list Z) (x : PrimFloat.float) (xz : Z),
  Forall2 ExactW p zs -> ExactW x xz -> p <> [] -> eval_fits zs xz ->
  exists r, peval (A := AF) p x = Ok r /\ ExactW r (horner (A := AZ) zs xz) /\
            (Z.abs (horner (A := AZ) zs xz) <= horner (A := AZ) (map Z.abs zs) (Z.abs xz))%Z /\
            (Forall2 Exact p zs -> Exact r (horner (A := AZ) zs xz)).
Print Assumptions peval_exact_float.
Example peval_exact_float_nonvacuous :   (* 3 - 2x + 5x^3 at x = 3: 132 *)
  Forall2 ExactW exP exPz /\ ExactW 3%float 3%Z /\ exP <> [] /\ eval_fits exPz 3%Z /\
  peval (A := AF) exP 3%float = Ok 132%float /\ horner (A := AZ) exPz 3%Z = 132%Z.
Proof.
  split; [exact exP_exactW|]. split; [exact ex_x_exact|]. split; [discriminate|].
  split; [unfold eval_fits; vm_compute; reflexivity|]. split; vm_compute; reflexivity.
Qed.

(* the homomorphism law of evaluation for the sum, BIT FOR BIT: eval (p + q) x = eval p x + eval q x as floats,
   for integer-valued coefficients none of which is a negative zero, under the bounds (coefficients of p + q, and the three
   Horner sums sum_i |c_i| |x|^i, below 2^53) *)
Theorem peval_padd_exact_float : forall (p q : list PrimFloat.float) (zs ws : list Z) (x : PrimFloat.float) (xz : Z),
  Forall2 Exact p zs -> Forall2 Exact q ws -> ExactW x xz -> p <> [] -> q <> [] ->
  Forall (fun c : Z => (Z.abs c < 2 ^ 53)%Z) (padd (A := AZ) zs ws) ->
  eval_fits zs xz -> eval_fits ws xz -> eval_fits (padd (A := AZ) zs ws) xz ->
  exists rp rq, peval (A := AF) p x = Ok rp /\ peval (A := AF) q x = Ok rq /\
    peval (A := AF) (padd (A := AF) p q) x = Ok (rp + rq)%float /\
    Exact rp (horner (A := AZ) zs xz) /\ Exact rq (horner (A := AZ) ws xz) /\
    Exact (rp + rq)%float (horner (A := AZ) zs xz + horner (A := AZ) ws xz)%Z.
Proof. exact peval_padd_exact_float_lemma. Qed.
Check peval_padd_exact_float : forall (p q : list PrimFloat.float) (zs ws : list Z) (x : PrimFloat.float) (xz : Z),
  Forall2 Exact p zs -> Forall2 Exact q ws -> ExactW x xz -> p <> [] -> q <> [] ->
  Forall (fun c : Z => (Z.abs c < 2 ^ 53)%Z) (padd (A := AZ) zs ws) ->
  eval_fits zs xz -> eval_fits ws xz -> eval_fits (padd (A := AZ) zs ws) xz ->
  exists rp rq, peval (A := AF) p x = Ok rp /\ peval (A := AF) q x = Ok rq /\
    peval (A := AF) (padd (A := AF) p q) x = Ok (rp + rq)%float /\
    Exact rp (horner (A := AZ) zs xz) /\ Exact rq (horner (A := AZ) ws xz) /\
    Exact (rp + rq)%float (horner (A := AZ) zs xz + horner (A := AZ) ws xz)%Z.
Print Assumptions peval_padd_exact_float.
Example peval_padd_exact_float_nonvacuous :
  Forall2 Exact exP exPz /\ Forall2 Exact exQ exQz /\ ExactW 3%float 3%Z /\ exP <> [] /\ exQ <> [] /\
  Forall (fun c : Z => (Z.abs c < 2 ^ 53)%Z) (padd (A := AZ) exPz exQz) /\
  eval_fits exPz 3%Z /\ eval_fits exQz 3%Z /\ eval_fits (padd (A := AZ) exPz exQz) 3%Z.
Proof.
  split; [exact exP_exact|]. split; [exact exQ_exact|]. split; [exact ex_x_exact|]. split; [discriminate|].
  split; [discriminate|]. split; [fits|]. repeat split; unfold eval_fits; vm_compute; reflexivity.
Qed.
(* outside the bound the law FAILS: p = 1 + (2^52+1) x, q = 2, x = 2 -- every coefficient is a float, but
   p(2) + q(2) = 2^53 + 5 is not: eval (p + q) 2 = 2^53 + 4, eval p 2 + eval q 2 = 2^53 + 6.
   And with negative-zero coefficients it fails in the sign: p = q = -0 gives +0 on the left, -0 on the right *)
Example peval_padd_exact_float_refuted :
  (let p := [1; 4503599627370497]%float in let q := [2; 0]%float in
   Forall2 Exact p [1; 2 ^ 52 + 1]%Z /\ Forall2 Exact q [2; 0]%Z /\
   peval (A := AF) (padd (A := AF) p q) 2%float = Ok 9007199254740996%float /\
   peval (A := AF) p 2%float = Ok 9007199254740996%float /\ peval (A := AF) q 2%float = Ok 2%float /\
   (9007199254740996 + 2)%float = 9007199254740998%float /\
   ~ eval_fits (padd (A := AZ) [1; 2 ^ 52 + 1]%Z [2; 0]%Z) 2%Z) /\
  (exists r rp rq, peval (A := AF) (padd (A := AF) [-0]%float [-0]%float) 1%float = Ok r /\
    peval (A := AF) [-0]%float 1%float = Ok rp /\ peval (A := AF) [-0]%float 1%float = Ok rq /\
    is_pos_zero r /\ is_neg_zero (rp + rq)%float /\ ExactW (-0)%float 0%Z /\ ~ Exact (-0)%float 0%Z).
Proof. exact (Logic.conj peval_padd_beyond_refuted peval_padd_negzero_refuted). Qed.

(* the homomorphism law of evaluation for the difference, BIT FOR BIT: eval (p - q) x = eval p x - eval q x as floats,
   for integer-valued coefficients none of which is a negative zero, under the bounds (coefficients of p - q, and the three
   Horner sums sum_i |c_i| |x|^i, below 2^53) *)
Theorem peval_psub_exact_float : forall (p q : list PrimFloat.float) (zs ws : list Z) (x : PrimFloat.float) (xz : Z),
  Forall2 Exact p zs -> Forall2 Exact q ws -> ExactW x xz -> p <> [] -> q <> [] ->
  Forall (fun c : Z => (Z.abs c < 2 ^ 53)%Z) (psub (A := AZ) zs ws) ->
  eval_fits zs xz -> eval_fits ws xz -> eval_fits (psub (A := AZ) zs ws) xz ->
  exists rp rq, peval (A := AF) p x = Ok rp /\ peval (A := AF) q x = Ok rq /\
    peval (A := AF) (psub (A := AF) p q) x = Ok (rp - rq)%float /\
    Exact rp (horner (A := AZ) zs xz) /\ Exact rq (horner (A := AZ) ws xz) /\
    Exact (rp - rq)%float (horner (A := AZ) zs xz - horner (A := AZ) ws xz)%Z.
Proof. exact peval_psub_exact_float_lemma. Qed.
Check peval_psub_exact_float : forall (p q : list PrimFloat.float) (zs ws : list Z) (x : PrimFloat.float) (xz : Z),
  Forall2 Exact p zs -> Forall2 Exact q ws -> ExactW x xz -> p <> [] -> q <> [] ->
  Forall (fun c : Z => (Z.abs c < 2 ^ 53)%Z) (psub (A := AZ) zs ws) ->
  eval_fits zs xz -> eval_fits ws xz -> eval_fits (psub (A := AZ) zs ws) xz ->
  exists rp rq, peval (A := AF) p x = Ok rp /\ peval (A := AF) q x = Ok rq /\
    peval (A := AF) (psub (A := AF) p q) x = Ok (rp - rq)%float /\
    Exact rp (horner (A := AZ) zs xz) /\ Exact rq (horner (A := AZ) ws xz) /\
    Exact (rp - rq)%float (horner (A := AZ) zs xz - horner (A := AZ) ws xz)%Z.
Print Assumptions peval_psub_exact_float.
Example peval_psub_exact_float_nonvacuous :
  Forall2 Exact exP exPz /\ Forall2 Exact exQ exQz /\ ExactW 3%float 3%Z /\ exP <> [] /\ exQ <> [] /\
  Forall (fun c : Z => (Z.abs c < 2 ^ 53)%Z) (psub (A := AZ) exPz exQz) /\
  eval_fits exPz 3%Z /\ eval_fits exQz 3%Z /\ eval_fits (psub (A := AZ) exPz exQz) 3%Z.
Proof.
  split; [exact exP_exact|]. split; [exact exQ_exact|]. split; [exact ex_x_exact|]. split; [discriminate|].
  split; [discriminate|]. split; [fits|]. repeat split; unfold eval_fits; vm_compute; reflexivity.
Qed.

(* eval (p * q) x and eval p x * eval q x hold the SAME integer (and are == ; identical bits unless that integer is 0:
   a product of values can be -0 where the product polynomial evaluates to +0) *)
Theorem peval_pmul_exact_float : forall (p q : list PrimFloat.float) (zs ws : list Z) (x : PrimFloat.float) (xz : Z),
  Forall2 ExactW p zs -> Forall2 ExactW q ws -> ExactW x xz -> p <> [] -> q <> [] ->
  pmul_fits zs ws -> eval_fits zs xz -> eval_fits ws xz -> eval_fits (pmul (A := AZ) zs ws) xz ->
  (horner (A := AZ) (map Z.abs zs) (Z.abs xz) * horner (A := AZ) (map Z.abs ws) (Z.abs xz) < 2 ^ 53)%Z ->
  exists rp rq r, peval (A := AF) p x = Ok rp /\ peval (A := AF) q x = Ok rq /\
    peval (A := AF) (pmul (A := AF) p q) x = Ok r /\
    same_value r (rp * rq)%float (horner (A := AZ) zs xz * horner (A := AZ) ws xz)%Z.
Proof. exact peval_pmul_exact_float_lemma. Qed.
Check peval_pmul_exact_float : forall (p q : list PrimFloat.float) (zs ws : list Z) (x : PrimFloat.float) (xz : Z),
  Forall2 ExactW p zs -> Forall2 ExactW q ws -> ExactW x xz -> p <> [] -> q <> [] ->
  pmul_fits zs ws -> eval_fits zs xz -> eval_fits ws xz -> eval_fits (pmul (A := AZ) zs ws) xz ->
  (horner (A := AZ) (map Z.abs zs) (Z.abs xz) * horner (A := AZ) (map Z.abs ws) (Z.abs xz) < 2 ^ 53)%Z ->
  exists rp rq r, peval (A := AF) p x = Ok rp /\ peval (A := AF) q x = Ok rq /\
    peval (A := AF) (pmul (A := AF) p q) x = Ok r /\
    same_value r (rp * rq)%float (horner (A := AZ) zs xz * horner (A := AZ) ws xz)%Z.
Print Assumptions peval_pmul_exact_float.
Example peval_pmul_exact_float_nonvacuous :
  Forall2 ExactW exP exPz /\ Forall2 ExactW exQ exQz /\ ExactW 3%float 3%Z /\ exP <> [] /\ exQ <> [] /\
  pmul_fits exPz exQz /\ eval_fits exPz 3%Z /\ eval_fits exQz 3%Z /\ eval_fits (pmul (A := AZ) exPz exQz) 3%Z /\
  (horner (A := AZ) (map Z.abs exPz) (Z.abs 3) * horner (A := AZ) (map Z.abs exQz) (Z.abs 3) < 2 ^ 53)%Z.
Proof.
  split; [exact exP_exactW|]. split; [exact exQ_exactW|]. split; [exact ex_x_exact|]. split; [discriminate|].
  split; [discriminate|]. split; [unfold pmul_fits; fits|]. repeat split; unfold eval_fits; vm_compute; reflexivity.
Qed.
(* the sign of a zero: p = 0, q = -3: eval (p*q) 1 = +0, eval p 1 * eval q 1 = -0 *)
Example peval_pmul_exact_float_refuted :
  exists r rp rq, peval (A := AF) (pmul (A := AF) [0]%float [-3]%float) 1%float = Ok r /\
    peval (A := AF) [0]%float 1%float = Ok rp /\ peval (A := AF) [-3]%float 1%float = Ok rq /\
    is_pos_zero r /\ is_neg_zero (rp * rq)%float.
Proof. exact peval_pmul_sign_refuted. Qed.

(* eval (-p) x and -(eval p x) hold the same integer (== ; identical unless it is 0) *)
Theorem peval_pneg_exact_float : forall (p : list PrimFloat.float) (zs : list Z) (x : PrimFloat.float) (xz : Z),
  Forall2 ExactW p zs -> ExactW x xz -> p <> [] -> eval_fits zs xz ->
  exists rp r, peval (A := AF) p x = Ok rp /\ peval (A := AF) (pneg (A := AF) p) x = Ok r /\
    same_value r (- rp)%float (- horner (A := AZ) zs xz)%Z.
Proof. exact peval_pneg_exact_float_lemma. Qed.
Check peval_pneg_exact_float : forall (p : list PrimFloat.float) (zs : list Z) (x : PrimFloat.float) (xz : Z),
  Forall2 ExactW p zs -> ExactW x xz -> p <> [] -> eval_fits zs xz ->
  exists rp r, peval (A := AF) p x = Ok rp /\ peval (A := AF) (pneg (A := AF) p) x = Ok r /\
    same_value r (- rp)%float (- horner (A := AZ) zs xz)%Z.
Print Assumptions peval_pneg_exact_float.
Example peval_pneg_exact_float_nonvacuous :
  Forall2 ExactW exP exPz /\ ExactW 3%float 3%Z /\ exP <> [] /\ eval_fits exPz 3%Z.
Proof.
  split; [exact exP_exactW|]. split; [exact ex_x_exact|]. split; [discriminate|]. unfold eval_fits; vm_compute; reflexivity.
Qed.
(* p = 1 - x at x = 1: eval (-p) 1 = +0 but -(eval p 1) = -0 *)
Example peval_pneg_exact_float_refuted :
  exists r rp, peval (A := AF) (pneg (A := AF) [1; -1]%float) 1%float = Ok r /\
    peval (A := AF) [1; -1]%float 1%float = Ok rp /\ is_pos_zero r /\ is_neg_zero (- rp)%float.
Proof. exact peval_pneg_sign_refuted. Qed.

(* eval (s p) x and (eval p x) * s hold the same integer (== ; identical unless it is 0) *)
Theorem peval_pscale_exact_float : forall (p : list PrimFloat.float) (zs : list Z) (x : PrimFloat.float) (xz : Z) (s : PrimFloat.float) (sz : Z),
  Forall2 ExactW p zs -> ExactW x xz -> ExactW s sz -> p <> [] ->
  Forall (fun c : Z => (Z.abs c < 2 ^ 53)%Z) (pscale (A := AZ) zs sz) -> eval_fits zs xz -> eval_fits (pscale (A := AZ) zs sz) xz ->
  (horner (A := AZ) (map Z.abs zs) (Z.abs xz) * Z.abs sz < 2 ^ 53)%Z ->
  exists rp r, peval (A := AF) p x = Ok rp /\ peval (A := AF) (pscale (A := AF) p s) x = Ok r /\
    same_value r (rp * s)%float (horner (A := AZ) zs xz * sz)%Z.
Proof. exact peval_pscale_exact_float_lemma. Qed.
Check peval_pscale_exact_float : forall (p : list PrimFloat.float) (zs : list Z) (x : PrimFloat.float) (xz : Z) (s : PrimFloat.float) (sz : Z),
  Forall2 ExactW p zs -> ExactW x xz -> ExactW s sz -> p <> [] ->
  Forall (fun c : Z => (Z.abs c < 2 ^ 53)%Z) (pscale (A := AZ) zs sz) -> eval_fits zs xz -> eval_fits (pscale (A := AZ) zs sz) xz ->
  (horner (A := AZ) (map Z.abs zs) (Z.abs xz) * Z.abs sz < 2 ^ 53)%Z ->
  exists rp r, peval (A := AF) p x = Ok rp /\ peval (A := AF) (pscale (A := AF) p s) x = Ok r /\
    same_value r (rp * s)%float (horner (A := AZ) zs xz * sz)%Z.
Print Assumptions peval_pscale_exact_float.
Example peval_pscale_exact_float_nonvacuous :
  Forall2 ExactW exP exPz /\ ExactW 3%float 3%Z /\ ExactW (-6)%float (-6)%Z /\ exP <> [] /\
  Forall (fun c : Z => (Z.abs c < 2 ^ 53)%Z) (pscale (A := AZ) exPz (-6)%Z) /\ eval_fits exPz 3%Z /\
  eval_fits (pscale (A := AZ) exPz (-6)%Z) 3%Z /\
  (horner (A := AZ) (map Z.abs exPz) (Z.abs 3) * Z.abs (-6) < 2 ^ 53)%Z.
Proof.
  split; [exact exP_exactW|]. split; [exact ex_x_exact|]. split; [exact ex_s_exact|]. split; [discriminate|].
  split; [fits|]. repeat split; unfold eval_fits; vm_compute; reflexivity.
Qed.

(* differentiation is linear, BIT FOR BIT, for ANY integer-valued operands (negative zeros included: every coefficient of a
   derivative and of a sum of two non-empty operands is accumulated from +0), when the sums and both derivatives fit *)
Theorem pderiv_padd_exact_float : forall (p q : list PrimFloat.float) (zs ws dzs dws : list Z),
  Forall2 ExactW p zs -> Forall2 ExactW q ws ->
  pderiv (A := AZ) zs = Ok dzs -> pderiv (A := AZ) ws = Ok dws ->
  Forall (fun c : Z => (Z.abs c < 2 ^ 53)%Z) (padd (A := AZ) zs ws) -> Forall (fun c : Z => (Z.abs c < 2 ^ 53)%Z) dzs -> Forall (fun c : Z => (Z.abs c < 2 ^ 53)%Z) dws ->
  Forall (fun c : Z => (Z.abs c < 2 ^ 53)%Z) (padd (A := AZ) dzs dws) ->
  exists dp dq, pderiv (A := AF) p = Ok dp /\ pderiv (A := AF) q = Ok dq /\
    pderiv (A := AF) (padd (A := AF) p q) = Ok (padd (A := AF) dp dq) /\
    Forall2 Exact (padd (A := AF) dp dq) (padd (A := AZ) dzs dws).
Proof. exact pderiv_padd_exact_float_lemma. Qed.
Check pderiv_padd_exact_float : forall (p q : list PrimFloat.float) (zs ws dzs dws : list Z),
  Forall2 ExactW p zs -> Forall2 ExactW q ws ->
  pderiv (A := AZ) zs = Ok dzs -> pderiv (A := AZ) ws = Ok dws ->
  Forall (fun c : Z => (Z.abs c < 2 ^ 53)%Z) (padd (A := AZ) zs ws) -> Forall (fun c : Z => (Z.abs c < 2 ^ 53)%Z) dzs -> Forall (fun c : Z => (Z.abs c < 2 ^ 53)%Z) dws ->
  Forall (fun c : Z => (Z.abs c < 2 ^ 53)%Z) (padd (A := AZ) dzs dws) ->
  exists dp dq, pderiv (A := AF) p = Ok dp /\ pderiv (A := AF) q = Ok dq /\
    pderiv (A := AF) (padd (A := AF) p q) = Ok (padd (A := AF) dp dq) /\
    Forall2 Exact (padd (A := AF) dp dq) (padd (A := AZ) dzs dws).
Print Assumptions pderiv_padd_exact_float.
Example pderiv_padd_exact_float_nonvacuous :
  Forall2 ExactW exP exPz /\ Forall2 ExactW exQ exQz /\
  pderiv (A := AZ) exPz = Ok [-2; 0; 15]%Z /\ pderiv (A := AZ) exQz = Ok [4; 2; 0; 8]%Z /\
  Forall (fun c : Z => (Z.abs c < 2 ^ 53)%Z) (padd (A := AZ) exPz exQz) /\ Forall (fun c : Z => (Z.abs c < 2 ^ 53)%Z) [-2; 0; 15]%Z /\ Forall (fun c : Z => (Z.abs c < 2 ^ 53)%Z) [4; 2; 0; 8]%Z /\
  Forall (fun c : Z => (Z.abs c < 2 ^ 53)%Z) (padd (A := AZ) [-2; 0; 15]%Z [4; 2; 0; 8]%Z).
Proof.
  split; [exact exP_exactW|]. split; [exact exQ_exactW|]. split; [vm_compute; reflexivity|]. split; [vm_compute; reflexivity|].
  repeat split; fits.
Qed.

(* the product rule (p q)' = p' q + p q', BIT FOR BIT, for any integer-valued operands, when the three products, the two derivatives and the final sum fit *)
Theorem pderiv_pmul_exact_float : forall (p q : list PrimFloat.float) (zs ws dzs dws : list Z),
  Forall2 ExactW p zs -> Forall2 ExactW q ws ->
  pderiv (A := AZ) zs = Ok dzs -> pderiv (A := AZ) ws = Ok dws ->
  pmul_fits zs ws -> Forall (fun c : Z => (Z.abs c < 2 ^ 53)%Z) dzs -> Forall (fun c : Z => (Z.abs c < 2 ^ 53)%Z) dws -> pmul_fits dzs ws -> pmul_fits zs dws ->
  Forall (fun c : Z => (Z.abs c < 2 ^ 53)%Z) (padd (A := AZ) (pmul (A := AZ) dzs ws) (pmul (A := AZ) zs dws)) ->
  exists dp dq, pderiv (A := AF) p = Ok dp /\ pderiv (A := AF) q = Ok dq /\
    pderiv (A := AF) (pmul (A := AF) p q) = Ok (padd (A := AF) (pmul (A := AF) dp q) (pmul (A := AF) p dq)) /\
    Forall2 Exact (padd (A := AF) (pmul (A := AF) dp q) (pmul (A := AF) p dq))
                  (padd (A := AZ) (pmul (A := AZ) dzs ws) (pmul (A := AZ) zs dws)).
Proof. exact pderiv_pmul_exact_float_lemma. Qed.
Check pderiv_pmul_exact_float : forall (p q : list PrimFloat.float) (zs ws dzs dws : list Z),
  Forall2 ExactW p zs -> Forall2 ExactW q ws ->
  pderiv (A := AZ) zs = Ok dzs -> pderiv (A := AZ) ws = Ok dws ->
  pmul_fits zs ws -> Forall (fun c : Z => (Z.abs c < 2 ^ 53)%Z) dzs -> Forall (fun c : Z => (Z.abs c < 2 ^ 53)%Z) dws -> pmul_fits dzs ws -> pmul_fits zs dws ->
  Forall (fun c : Z => (Z.abs c < 2 ^ 53)%Z) (padd (A := AZ) (pmul (A := AZ) dzs ws) (pmul (A := AZ) zs dws)) ->
  exists dp dq, pderiv (A := AF) p = Ok dp /\ pderiv (A := AF) q = Ok dq /\
    pderiv (A := AF) (pmul (A := AF) p q) = Ok (padd (A := AF) (pmul (A := AF) dp q) (pmul (A := AF) p dq)) /\
    Forall2 Exact (padd (A := AF) (pmul (A := AF) dp q) (pmul (A := AF) p dq))
                  (padd (A := AZ) (pmul (A := AZ) dzs ws) (pmul (A := AZ) zs dws)).
Print Assumptions pderiv_pmul_exact_float.
Example pderiv_pmul_exact_float_nonvacuous :
  Forall2 ExactW exP exPz /\ Forall2 ExactW exQ exQz /\
  pderiv (A := AZ) exPz = Ok [-2; 0; 15]%Z /\ pderiv (A := AZ) exQz = Ok [4; 2; 0; 8]%Z /\
  pmul_fits exPz exQz /\ Forall (fun c : Z => (Z.abs c < 2 ^ 53)%Z) [-2; 0; 15]%Z /\ Forall (fun c : Z => (Z.abs c < 2 ^ 53)%Z) [4; 2; 0; 8]%Z /\
  pmul_fits [-2; 0; 15]%Z exQz /\ pmul_fits exPz [4; 2; 0; 8]%Z /\
  Forall (fun c : Z => (Z.abs c < 2 ^ 53)%Z) (padd (A := AZ) (pmul (A := AZ) [-2; 0; 15]%Z exQz) (pmul (A := AZ) exPz [4; 2; 0; 8]%Z)).
Proof.
  split; [exact exP_exactW|]. split; [exact exQ_exactW|]. split; [vm_compute; reflexivity|]. split; [vm_compute; reflexivity|].
  repeat split; unfold pmul_fits; fits.
Qed.

(* (s p)' and s p' hold the same integers coefficient by coefficient (a zero coefficient may differ in sign) *)
Theorem pderiv_pscale_exact_float : forall (p : list PrimFloat.float) (zs dzs : list Z) (s : PrimFloat.float) (sz : Z),
  Forall2 ExactW p zs -> ExactW s sz -> pderiv (A := AZ) zs = Ok dzs ->
  Forall (fun c : Z => (Z.abs c < 2 ^ 53)%Z) (pscale (A := AZ) zs sz) -> Forall (fun c : Z => (Z.abs c < 2 ^ 53)%Z) dzs -> Forall (fun c : Z => (Z.abs c < 2 ^ 53)%Z) (pscale (A := AZ) dzs sz) ->
  exists dp d, pderiv (A := AF) p = Ok dp /\ pderiv (A := AF) (pscale (A := AF) p s) = Ok d /\
    Forall2 ExactW d (pscale (A := AZ) dzs sz) /\ Forall2 ExactW (pscale (A := AF) dp s) (pscale (A := AZ) dzs sz).
Proof. exact pderiv_pscale_exact_float_lemma. Qed.
Check pderiv_pscale_exact_float : forall (p : list PrimFloat.float) (zs dzs : list Z) (s : PrimFloat.float) (sz : Z),
  Forall2 ExactW p zs -> ExactW s sz -> pderiv (A := AZ) zs = Ok dzs ->
  Forall (fun c : Z => (Z.abs c < 2 ^ 53)%Z) (pscale (A := AZ) zs sz) -> Forall (fun c : Z => (Z.abs c < 2 ^ 53)%Z) dzs -> Forall (fun c : Z => (Z.abs c < 2 ^ 53)%Z) (pscale (A := AZ) dzs sz) ->
  exists dp d, pderiv (A := AF) p = Ok dp /\ pderiv (A := AF) (pscale (A := AF) p s) = Ok d /\
    Forall2 ExactW d (pscale (A := AZ) dzs sz) /\ Forall2 ExactW (pscale (A := AF) dp s) (pscale (A := AZ) dzs sz).
Print Assumptions pderiv_pscale_exact_float.
Example pderiv_pscale_exact_float_nonvacuous :
  Forall2 ExactW exP exPz /\ ExactW (-6)%float (-6)%Z /\ pderiv (A := AZ) exPz = Ok [-2; 0; 15]%Z /\
  Forall (fun c : Z => (Z.abs c < 2 ^ 53)%Z) (pscale (A := AZ) exPz (-6)%Z) /\ Forall (fun c : Z => (Z.abs c < 2 ^ 53)%Z) [-2; 0; 15]%Z /\
  Forall (fun c : Z => (Z.abs c < 2 ^ 53)%Z) (pscale (A := AZ) [-2; 0; 15]%Z (-6)%Z).
Proof.
  split; [exact exP_exactW|]. split; [exact ex_s_exact|]. split; [vm_compute; reflexivity|]. repeat split; fits.
Qed.
(* p = 0 + 0x, s = -1: (s p)' = [+0] but s p' = [-0] *)
Example pderiv_pscale_exact_float_refuted :
  exists d dp, pderiv (A := AF) (pscale (A := AF) [0; 0]%float (-1)%float) = Ok d /\ pderiv (A := AF) [0; 0]%float = Ok dp /\
    is_pos_zero (nth 0 d 1%float) /\ is_neg_zero (nth 0 (pscale (A := AF) dp (-1)%float) 1%float).
Proof. exact pderiv_pscale_sign_refuted. Qed.

(* the sum and the difference of two NON-EMPTY integer-valued operands never contain a negative zero (coefficient i is
   (0 + p_i) + q_i resp. (0 + p_i) - q_i and 0 + (-0) = +0), whatever the signs of the zeros in the operands: the results
   are the bit patterns determined by the integer results *)
Theorem padd_psub_no_negative_zero_float : forall (p q : list PrimFloat.float) (zs ws : list Z),
  Forall2 ExactW p zs -> Forall2 ExactW q ws -> p <> [] -> q <> [] ->
  (Forall (fun c : Z => (Z.abs c < 2 ^ 53)%Z) (padd (A := AZ) zs ws) -> Forall2 Exact (padd (A := AF) p q) (padd (A := AZ) zs ws)) /\
  (Forall (fun c : Z => (Z.abs c < 2 ^ 53)%Z) (psub (A := AZ) zs ws) -> Forall2 Exact (psub (A := AF) p q) (psub (A := AZ) zs ws)).
Proof. exact padd_psub_no_negzero_float_lemma. Qed.
Check padd_psub_no_negative_zero_float : forall (p q : list PrimFloat.float) (zs ws : list Z),
  Forall2 ExactW p zs -> Forall2 ExactW q ws -> p <> [] -> q <> [] ->
  (Forall (fun c : Z => (Z.abs c < 2 ^ 53)%Z) (padd (A := AZ) zs ws) -> Forall2 Exact (padd (A := AF) p q) (padd (A := AZ) zs ws)) /\
  (Forall (fun c : Z => (Z.abs c < 2 ^ 53)%Z) (psub (A := AZ) zs ws) -> Forall2 Exact (psub (A := AF) p q) (psub (A := AZ) zs ws)).
Print Assumptions padd_psub_no_negative_zero_float.
Example padd_psub_no_negative_zero_float_nonvacuous :   (* (-0) + (-0) as constant polynomials is +0 *)
  Forall2 ExactW [-0]%float [0]%Z /\ [-0]%float <> [] /\ Forall (fun c : Z => (Z.abs c < 2 ^ 53)%Z) (padd (A := AZ) [0]%Z [0]%Z) /\
  is_pos_zero (nth 0 (padd (A := AF) [-0]%float [-0]%float) 1%float) /\ is_neg_zero (-0)%float.
Proof.
  split; [repeat constructor; exactw|]. split; [discriminate|]. split; [fits|]. split; vm_compute; reflexivity.
Qed.

(* derivative_at: the n-th derivative evaluated at an integer point, when every derivative of order 1..n and the Horner sum fit *)
Theorem pderiv_at_exact_float : forall (p : list PrimFloat.float) (zs dz : list Z) (x : PrimFloat.float) (xz : Z) (n : nat),
  Forall2 ExactW p zs -> ExactW x xz -> pderiv_n (A := AZ) zs n = Ok dz -> dz <> [] ->
  (forall k dk, (1 <= k <= n)%nat -> pderiv_n (A := AZ) zs k = Ok dk -> Forall (fun c : Z => (Z.abs c < 2 ^ 53)%Z) dk) ->
  eval_fits dz xz ->
  exists r, pderiv_at (A := AF) p x n = Ok r /\ ExactW r (horner (A := AZ) dz xz) /\
            pderiv_at (A := AZ) zs xz n = Ok (horner (A := AZ) dz xz).
Proof. exact pderiv_at_exact_float_lemma. Qed.
Check pderiv_at_exact_float : forall (p : list PrimFloat.float) (zs dz : list Z) (x : PrimFloat.float) (xz : Z) (n : nat),
  Forall2 ExactW p zs -> ExactW x xz -> pderiv_n (A := AZ) zs n = Ok dz -> dz <> [] ->
  (forall k dk, (1 <= k <= n)%nat -> pderiv_n (A := AZ) zs k = Ok dk -> Forall (fun c : Z => (Z.abs c < 2 ^ 53)%Z) dk) ->
  eval_fits dz xz ->
  exists r, pderiv_at (A := AF) p x n = Ok r /\ ExactW r (horner (A := AZ) dz xz) /\
            pderiv_at (A := AZ) zs xz n = Ok (horner (A := AZ) dz xz).
Print Assumptions pderiv_at_exact_float.
Example pderiv_at_exact_float_nonvacuous :   (* (3 - 2x + 5x^3)'' = 30x at x = 3: 90 *)
  Forall2 ExactW exP exPz /\ ExactW 3%float 3%Z /\ pderiv_n (A := AZ) exPz 2 = Ok [0; 30]%Z /\ [0; 30]%Z <> [] /\
  eval_fits [0; 30]%Z 3%Z /\ pderiv_at (A := AF) exP 3%float 2 = Ok 90%float.
Proof.
  split; [exact exP_exactW|]. split; [exact ex_x_exact|]. split; [vm_compute; reflexivity|]. split; [discriminate|].
  split; [unfold eval_fits; vm_compute; reflexivity|]. vm_compute; reflexivity.
Qed.

(* both additive evaluation laws, bit for bit, from ONE condition on the inputs:
   (al + be) (1 + |x| + ... + |x|^(max (len p) (len q) - 1)) < 2^53  with |a_i| <= al, |b_j| <= be *)
Theorem peval_padd_psub_exact_float_input_bounds : forall (p q : list PrimFloat.float) (zs ws : list Z) (x : PrimFloat.float) (xz al be : Z),
  Forall2 Exact p zs -> Forall2 Exact q ws -> ExactW x xz -> p <> [] -> q <> [] ->
  (0 <= al)%Z -> (0 <= be)%Z ->
  Forall (fun a : Z => (Z.abs a <= al)%Z) zs -> Forall (fun b : Z => (Z.abs b <= be)%Z) ws ->
  ((al + be) * geom (Nat.max (length zs) (length ws)) (Z.abs xz) < 2 ^ 53)%Z ->
  exists rp rq, peval (A := AF) p x = Ok rp /\ peval (A := AF) q x = Ok rq /\
    peval (A := AF) (padd (A := AF) p q) x = Ok (rp + rq)%float /\
    peval (A := AF) (psub (A := AF) p q) x = Ok (rp - rq)%float /\
    Exact rp (horner (A := AZ) zs xz) /\ Exact rq (horner (A := AZ) ws xz).
Proof. exact peval_padd_psub_exact_float_bounds_lemma. Qed.
Check peval_padd_psub_exact_float_input_bounds : forall (p q : list PrimFloat.float) (zs ws : list Z) (x : PrimFloat.float) (xz al be : Z),
  Forall2 Exact p zs -> Forall2 Exact q ws -> ExactW x xz -> p <> [] -> q <> [] ->
  (0 <= al)%Z -> (0 <= be)%Z ->
  Forall (fun a : Z => (Z.abs a <= al)%Z) zs -> Forall (fun b : Z => (Z.abs b <= be)%Z) ws ->
  ((al + be) * geom (Nat.max (length zs) (length ws)) (Z.abs xz) < 2 ^ 53)%Z ->
  exists rp rq, peval (A := AF) p x = Ok rp /\ peval (A := AF) q x = Ok rq /\
    peval (A := AF) (padd (A := AF) p q) x = Ok (rp + rq)%float /\
    peval (A := AF) (psub (A := AF) p q) x = Ok (rp - rq)%float /\
    Exact rp (horner (A := AZ) zs xz) /\ Exact rq (horner (A := AZ) ws xz).
Print Assumptions peval_padd_psub_exact_float_input_bounds.
Example peval_padd_psub_exact_float_input_bounds_nonvacuous :
  Forall2 Exact exP exPz /\ Forall2 Exact exQ exQz /\ ExactW 3%float 3%Z /\ exP <> [] /\ exQ <> [] /\
  (0 <= 5)%Z /\ (0 <= 7)%Z /\
  Forall (fun a : Z => (Z.abs a <= 5)%Z) exPz /\ Forall (fun b : Z => (Z.abs b <= 7)%Z) exQz /\
  ((5 + 7) * geom (Nat.max (length exPz) (length exQz)) (Z.abs 3) < 2 ^ 53)%Z.
Proof.
  split; [exact exP_exact|]. split; [exact exQ_exact|]. split; [exact ex_x_exact|]. split; [discriminate|].
  split; [discriminate|]. split; [lia|]. split; [lia|]. split; [repeat constructor; cbn; lia|].
  split; [repeat constructor; cbn; lia|]. vm_compute; reflexivity.
Qed.

(* Complex<f64> with Gaussian-integer coefficients (CExactW: both components integer-valued).  Size of a Gaussian integer:
   cn1 g = |re g| + |im g|; the complex product is 4 real products and 2 sums, each bounded by cn1 g * cn1 h *)
Theorem cpoly_ops_exact_float : forall (p q : list (cplx AF)) (zs ws : list (cplx AZ)),
  Forall2 CExactW p zs -> Forall2 CExactW q ws ->
  (Forall (fun g : cplx AZ => (cn1 g < 2 ^ 53)%Z) (padd (A := AZC) zs ws) -> Forall2 CExactW (padd (A := ACF) p q) (padd (A := AZC) zs ws)) /\
  (Forall (fun g : cplx AZ => (cn1 g < 2 ^ 53)%Z) (psub (A := AZC) zs ws) -> Forall2 CExactW (psub (A := ACF) p q) (psub (A := AZC) zs ws)) /\
  Forall2 CExactW (pneg (A := ACF) p) (pneg (A := AZC) zs) /\
  (Forall (fun c : Z => (c < 2 ^ 53)%Z) (pmul (A := AZ) (map cn1 zs) (map cn1 ws)) ->
     Forall2 CExact (pmul (A := ACF) p q) (pmul (A := AZC) zs ws)).
Proof. exact cpoly_ops_exact_float_lemma. Qed.
Check cpoly_ops_exact_float : forall (p q : list (cplx AF)) (zs ws : list (cplx AZ)),
  Forall2 CExactW p zs -> Forall2 CExactW q ws ->
  (Forall (fun g : cplx AZ => (cn1 g < 2 ^ 53)%Z) (padd (A := AZC) zs ws) -> Forall2 CExactW (padd (A := ACF) p q) (padd (A := AZC) zs ws)) /\
  (Forall (fun g : cplx AZ => (cn1 g < 2 ^ 53)%Z) (psub (A := AZC) zs ws) -> Forall2 CExactW (psub (A := ACF) p q) (psub (A := AZC) zs ws)) /\
  Forall2 CExactW (pneg (A := ACF) p) (pneg (A := AZC) zs) /\
  (Forall (fun c : Z => (c < 2 ^ 53)%Z) (pmul (A := AZ) (map cn1 zs) (map cn1 ws)) ->
     Forall2 CExact (pmul (A := ACF) p q) (pmul (A := AZC) zs ws)).
Print Assumptions cpoly_ops_exact_float.
(* p = (1+2i) + (3-i) x, q = (-2+i) + 4i x + (1+i) x^2 *)
Example cpoly_ops_exact_float_nonvacuous :
  Forall2 CExactW exCP exCPz /\ Forall2 CExactW exCQ exCQz /\
  Forall (fun g : cplx AZ => (cn1 g < 2 ^ 53)%Z) (padd (A := AZC) exCPz exCQz) /\ Forall (fun g : cplx AZ => (cn1 g < 2 ^ 53)%Z) (psub (A := AZC) exCPz exCQz) /\
  Forall (fun c : Z => (c < 2 ^ 53)%Z) (pmul (A := AZ) (map cn1 exCPz) (map cn1 exCQz)) /\
  pmul (A := ACF) exCP exCQ = [cF (-4) (-3); cF (-13) 9; cF 3 15; cF 4 2]%float /\
  pmul (A := AZC) exCPz exCQz = [cZ (-4) (-3); cZ (-13) 9; cZ 3 15; cZ 4 2]%Z.
Proof.
  split; [exact exCP_exactW|]. split; [exact exCQ_exactW|]. split; [fits|]. split; [fits|]. split; [fits|].
  split; vm_compute; reflexivity.
Qed.

(* Horner for Complex<f64> at a Gaussian-integer point with sum_i cn1 a_i (cn1 x)^i < 2^53 is exact *)
Theorem cpeval_exact_float : forall (p : list (cplx AF)) (zs : list (cplx AZ)) (x : cplx AF) (xz : cplx AZ),
  Forall2 CExactW p zs -> CExactW x xz -> p <> [] -> ceval_fits zs xz ->
  exists r, peval (A := ACF) p x = Ok r /\ CExactW r (horner (A := AZC) zs xz) /\
            (Forall2 CExact p zs -> CExact r (horner (A := AZC) zs xz)).
Proof. exact cpeval_exact_float_lemma. Qed.
Check cpeval_exact_float : forall (p : list (cplx AF)) (zs : list (cplx AZ)) (x : cplx AF) (xz : cplx AZ),
  Forall2 CExactW p zs -> CExactW x xz -> p <> [] -> ceval_fits zs xz ->
  exists r, peval (A := ACF) p x = Ok r /\ CExactW r (horner (A := AZC) zs xz) /\
            (Forall2 CExact p zs -> CExact r (horner (A := AZC) zs xz)).
Print Assumptions cpeval_exact_float.
Example cpeval_exact_float_nonvacuous :   (* q at x = 2 - i *)
  Forall2 CExactW exCQ exCQz /\ CExactW (cF 2 (-1))%float (cZ 2 (-1))%Z /\ exCQ <> [] /\
  ceval_fits exCQz (cZ 2 (-1))%Z /\
  peval (A := ACF) exCQ (cF 2 (-1))%float = Ok (cF 9 8)%float /\ horner (A := AZC) exCQz (cZ 2 (-1))%Z = cZ 9 8.
Proof.
  split; [exact exCQ_exactW|]. split; [exact exCx_exact|]. split; [discriminate|].
  split; [unfold ceval_fits; vm_compute; reflexivity|]. split; vm_compute; reflexivity.
Qed.

(* the additive evaluation law for Complex<f64>, bit for bit in both components (cadd of Model/Complex.v) *)
Theorem cpeval_padd_exact_float : forall (p q : list (cplx AF)) (zs ws : list (cplx AZ)) (x : cplx AF) (xz : cplx AZ),
  Forall2 CExact p zs -> Forall2 CExact q ws -> CExactW x xz -> p <> [] -> q <> [] ->
  Forall (fun g : cplx AZ => (cn1 g < 2 ^ 53)%Z) (padd (A := AZC) zs ws) ->
  ceval_fits zs xz -> ceval_fits ws xz -> ceval_fits (padd (A := AZC) zs ws) xz ->
  exists rp rq, peval (A := ACF) p x = Ok rp /\ peval (A := ACF) q x = Ok rq /\
    peval (A := ACF) (padd (A := ACF) p q) x = Ok (cadd rp rq) /\
    CExact rp (horner (A := AZC) zs xz) /\ CExact rq (horner (A := AZC) ws xz).
Proof. exact cpeval_padd_exact_float_lemma. Qed.
Check cpeval_padd_exact_float : forall (p q : list (cplx AF)) (zs ws : list (cplx AZ)) (x : cplx AF) (xz : cplx AZ),
  Forall2 CExact p zs -> Forall2 CExact q ws -> CExactW x xz -> p <> [] -> q <> [] ->
  Forall (fun g : cplx AZ => (cn1 g < 2 ^ 53)%Z) (padd (A := AZC) zs ws) ->
  ceval_fits zs xz -> ceval_fits ws xz -> ceval_fits (padd (A := AZC) zs ws) xz ->
  exists rp rq, peval (A := ACF) p x = Ok rp /\ peval (A := ACF) q x = Ok rq /\
    peval (A := ACF) (padd (A := ACF) p q) x = Ok (cadd rp rq) /\
    CExact rp (horner (A := AZC) zs xz) /\ CExact rq (horner (A := AZC) ws xz).
Print Assumptions cpeval_padd_exact_float.
Example cpeval_padd_exact_float_nonvacuous :
  Forall2 CExact exCP exCPz /\ Forall2 CExact exCQ exCQz /\ CExactW (cF 2 (-1))%float (cZ 2 (-1))%Z /\
  exCP <> [] /\ exCQ <> [] /\ Forall (fun g : cplx AZ => (cn1 g < 2 ^ 53)%Z) (padd (A := AZC) exCPz exCQz) /\
  ceval_fits exCPz (cZ 2 (-1))%Z /\ ceval_fits exCQz (cZ 2 (-1))%Z /\
  ceval_fits (padd (A := AZC) exCPz exCQz) (cZ 2 (-1))%Z.
Proof.
  split; [exact exCP_exact|]. split; [exact exCQ_exact|]. split; [exact exCx_exact|]. split; [discriminate|].
  split; [discriminate|]. split; [fits|]. repeat split; unfold ceval_fits; vm_compute; reflexivity.
Qed.

(* the additive evaluation law for Complex<f64>, bit for bit in both components (csub of Model/Complex.v) *)
Theorem cpeval_psub_exact_float : forall (p q : list (cplx AF)) (zs ws : list (cplx AZ)) (x : cplx AF) (xz : cplx AZ),
  Forall2 CExact p zs -> Forall2 CExact q ws -> CExactW x xz -> p <> [] -> q <> [] ->
  Forall (fun g : cplx AZ => (cn1 g < 2 ^ 53)%Z) (psub (A := AZC) zs ws) ->
  ceval_fits zs xz -> ceval_fits ws xz -> ceval_fits (psub (A := AZC) zs ws) xz ->
  exists rp rq, peval (A := ACF) p x = Ok rp /\ peval (A := ACF) q x = Ok rq /\
    peval (A := ACF) (psub (A := ACF) p q) x = Ok (csub rp rq) /\
    CExact rp (horner (A := AZC) zs xz) /\ CExact rq (horner (A := AZC) ws xz).
Proof. exact cpeval_psub_exact_float_lemma. Qed.
Check cpeval_psub_exact_float : forall (p q : list (cplx AF)) (zs ws : list (cplx AZ)) (x : cplx AF) (xz : cplx AZ),
  Forall2 CExact p zs -> Forall2 CExact q ws -> CExactW x xz -> p <> [] -> q <> [] ->
  Forall (fun g : cplx AZ => (cn1 g < 2 ^ 53)%Z) (psub (A := AZC) zs ws) ->
  ceval_fits zs xz -> ceval_fits ws xz -> ceval_fits (psub (A := AZC) zs ws) xz ->
  exists rp rq, peval (A := ACF) p x = Ok rp /\ peval (A := ACF) q x = Ok rq /\
    peval (A := ACF) (psub (A := ACF) p q) x = Ok (csub rp rq) /\
    CExact rp (horner (A := AZC) zs xz) /\ CExact rq (horner (A := AZC) ws xz).
Print Assumptions cpeval_psub_exact_float.
Example cpeval_psub_exact_float_nonvacuous :
  Forall2 CExact exCP exCPz /\ Forall2 CExact exCQ exCQz /\ CExactW (cF 2 (-1))%float (cZ 2 (-1))%Z /\
  exCP <> [] /\ exCQ <> [] /\ Forall (fun g : cplx AZ => (cn1 g < 2 ^ 53)%Z) (psub (A := AZC) exCPz exCQz) /\
  ceval_fits exCPz (cZ 2 (-1))%Z /\ ceval_fits exCQz (cZ 2 (-1))%Z /\
  ceval_fits (psub (A := AZC) exCPz exCQz) (cZ 2 (-1))%Z.
Proof.
  split; [exact exCP_exact|]. split; [exact exCQ_exact|]. split; [exact exCx_exact|]. split; [discriminate|].
  split; [discriminate|]. split; [fits|]. repeat split; unfold ceval_fits; vm_compute; reflexivity.
Qed.

(* eval (p * q) x and eval p x * eval q x hold the same Gaussian integer *)
Theorem cpeval_pmul_exact_float : forall (p q : list (cplx AF)) (zs ws : list (cplx AZ)) (x : cplx AF) (xz : cplx AZ),
  Forall2 CExactW p zs -> Forall2 CExactW q ws -> CExactW x xz -> p <> [] -> q <> [] ->
  Forall (fun c : Z => (c < 2 ^ 53)%Z) (pmul (A := AZ) (map cn1 zs) (map cn1 ws)) ->
  ceval_fits zs xz -> ceval_fits ws xz -> ceval_fits (pmul (A := AZC) zs ws) xz ->
  (horner (A := AZ) (map cn1 zs) (cn1 xz) * horner (A := AZ) (map cn1 ws) (cn1 xz) < 2 ^ 53)%Z ->
  exists rp rq r, peval (A := ACF) p x = Ok rp /\ peval (A := ACF) q x = Ok rq /\
    peval (A := ACF) (pmul (A := ACF) p q) x = Ok r /\
    CExactW r (cmul (horner (A := AZC) zs xz) (horner (A := AZC) ws xz)) /\
    CExactW (cmul rp rq) (cmul (horner (A := AZC) zs xz) (horner (A := AZC) ws xz)).
Proof. exact cpeval_pmul_exact_float_lemma. Qed.
Check cpeval_pmul_exact_float : forall (p q : list (cplx AF)) (zs ws : list (cplx AZ)) (x : cplx AF) (xz : cplx AZ),
  Forall2 CExactW p zs -> Forall2 CExactW q ws -> CExactW x xz -> p <> [] -> q <> [] ->
  Forall (fun c : Z => (c < 2 ^ 53)%Z) (pmul (A := AZ) (map cn1 zs) (map cn1 ws)) ->
  ceval_fits zs xz -> ceval_fits ws xz -> ceval_fits (pmul (A := AZC) zs ws) xz ->
  (horner (A := AZ) (map cn1 zs) (cn1 xz) * horner (A := AZ) (map cn1 ws) (cn1 xz) < 2 ^ 53)%Z ->
  exists rp rq r, peval (A := ACF) p x = Ok rp /\ peval (A := ACF) q x = Ok rq /\
    peval (A := ACF) (pmul (A := ACF) p q) x = Ok r /\
    CExactW r (cmul (horner (A := AZC) zs xz) (horner (A := AZC) ws xz)) /\
    CExactW (cmul rp rq) (cmul (horner (A := AZC) zs xz) (horner (A := AZC) ws xz)).
Print Assumptions cpeval_pmul_exact_float.
Example cpeval_pmul_exact_float_nonvacuous :
  Forall2 CExactW exCP exCPz /\ Forall2 CExactW exCQ exCQz /\ CExactW (cF 2 (-1))%float (cZ 2 (-1))%Z /\
  exCP <> [] /\ exCQ <> [] /\ Forall (fun c : Z => (c < 2 ^ 53)%Z) (pmul (A := AZ) (map cn1 exCPz) (map cn1 exCQz)) /\
  ceval_fits exCPz (cZ 2 (-1))%Z /\ ceval_fits exCQz (cZ 2 (-1))%Z /\
  ceval_fits (pmul (A := AZC) exCPz exCQz) (cZ 2 (-1))%Z /\
  (horner (A := AZ) (map cn1 exCPz) (cn1 (cZ 2 (-1))) * horner (A := AZ) (map cn1 exCQz) (cn1 (cZ 2 (-1))) < 2 ^ 53)%Z.
Proof.
  split; [exact exCP_exactW|]. split; [exact exCQ_exactW|]. split; [exact exCx_exact|]. split; [discriminate|].
  split; [discriminate|]. split; [fits|]. repeat split; unfold ceval_fits; vm_compute; reflexivity.
Qed.


(* ---- the canonicalisations of the source translator (package robust, driver/rust2coq.py header C1, C2, C3, C7) as theorems about
   the loop combinators: the `for_` / `for_ret` / `for_rev` term the translator emits for a counter `while` (e.g. the Horner loop
   of Polynomial::eval written `let mut i = degree; while i > 0 { i -= 1; .. }`) equals the while_ret term of the table-driven
   translation of the same loop, for every body, every state, every bound and every sufficient fuel. *)
From OV Require gen.SrcPrelude Proofs.SrcEqBase Proofs.SrcEqCanon Model.Matrix.
Theorem counter_up_while_is_for_ret : forall (S R : Type) (hi : nat) (body : nat -> S -> res (S + R)) (fuel lo : nat) (s : S),
  hi - lo < fuel ->
  SrcPrelude.while_ret fuel (SrcEqCanon.while_up_body hi body) (lo, s)
  = let* o := SrcPrelude.for_ret lo hi body s in
    Ok (Some (match o with inl s' => inl (Nat.max lo hi, s') | inr r => inr r end)).
Proof. intros S R hi body fuel lo s H. exact (SrcEqCanon.counter_up_while_is_for_ret hi body fuel lo s H). Qed.
Check counter_up_while_is_for_ret : forall (S R : Type) (hi : nat) (body : nat -> S -> res (S + R)) (fuel lo : nat) (s : S),
  hi - lo < fuel ->
  SrcPrelude.while_ret fuel (SrcEqCanon.while_up_body hi body) (lo, s)
  = let* o := SrcPrelude.for_ret lo hi body s in
    Ok (Some (match o with inl s' => inl (Nat.max lo hi, s') | inr r => inr r end)).
Print Assumptions counter_up_while_is_for_ret.
Example counter_up_while_is_for_ret_nonvacuous :
  5 - 2 < 4 /\ SrcPrelude.while_ret 4 (SrcEqCanon.while_up_body (R := nat) 5 (fun i s => if i =? 4 then Ok (inr (s + i)) else Ok (inl (s + i)))) (2, 0)
               = Ok (Some (inr 9)).
Proof. split; [repeat constructor | reflexivity]. Qed.

Theorem counter_up_while_is_for : forall (S : Type) (hi : nat) (body : nat -> S -> res S) (fuel lo : nat) (s : S),
  hi - lo < fuel ->
  SrcPrelude.while_ret fuel (SrcEqCanon.while_up_body0 hi body) (lo, s)
  = let* s' := for_ lo hi body s in Ok (Some (inl (Nat.max lo hi, s'))).
Proof. intros S hi body fuel lo s H. exact (SrcEqCanon.counter_up_while_is_for hi body fuel lo s H). Qed.
Check counter_up_while_is_for : forall (S : Type) (hi : nat) (body : nat -> S -> res S) (fuel lo : nat) (s : S),
  hi - lo < fuel ->
  SrcPrelude.while_ret fuel (SrcEqCanon.while_up_body0 hi body) (lo, s)
  = let* s' := for_ lo hi body s in Ok (Some (inl (Nat.max lo hi, s'))).
Print Assumptions counter_up_while_is_for.
Example counter_up_while_is_for_nonvacuous :
  6 - 1 < 6 /\ SrcPrelude.while_ret 6 (SrcEqCanon.while_up_body0 6 (fun i s => Ok (s ++ [i]))) (1, []) = Ok (Some (inl (6, [1; 2; 3; 4; 5]))).
Proof. split; [repeat constructor | reflexivity]. Qed.

Theorem counter_up1_while_is_for : forall (S : Type) (hi : nat) (body : nat -> S -> res S) (fuel lo : nat) (s : S),
  hi - lo < fuel ->
  SrcPrelude.while_ret fuel (SrcEqCanon.while_up1_body hi body) (lo, s)
  = let* s' := for_ lo hi (fun k s => let i1 := (k + 1)%nat in body i1 s) s in Ok (Some (inl (Nat.max lo hi, s'))).
Proof. intros S hi body fuel lo s H. exact (SrcEqCanon.counter_up1_while_is_for hi body fuel lo s H). Qed.
Check counter_up1_while_is_for : forall (S : Type) (hi : nat) (body : nat -> S -> res S) (fuel lo : nat) (s : S),
  hi - lo < fuel ->
  SrcPrelude.while_ret fuel (SrcEqCanon.while_up1_body hi body) (lo, s)
  = let* s' := for_ lo hi (fun k s => let i1 := (k + 1)%nat in body i1 s) s in Ok (Some (inl (Nat.max lo hi, s'))).
Print Assumptions counter_up1_while_is_for.
Example counter_up1_while_is_for_nonvacuous :
  3 - 0 < 4 /\ SrcPrelude.while_ret 4 (SrcEqCanon.while_up1_body 3 (fun i s => Ok (s ++ [i]))) (0, []) = Ok (Some (inl (3, [1; 2; 3]))).
Proof. split; [repeat constructor | reflexivity]. Qed.

Theorem counter_down_while_is_for_rev : forall (S : Type) (lo : nat) (body : nat -> S -> res S) (fuel hi : nat) (s : S),
  hi - lo < fuel ->
  SrcPrelude.while_ret fuel (SrcEqCanon.while_down_body lo body) (hi, s)
  = let* s' := for_rev lo hi body s in Ok (Some (inl (Nat.min hi lo, s'))).
Proof. intros S lo body fuel hi s H. exact (SrcEqCanon.counter_down_while_is_for_rev lo body fuel hi s H). Qed.
Check counter_down_while_is_for_rev : forall (S : Type) (lo : nat) (body : nat -> S -> res S) (fuel hi : nat) (s : S),
  hi - lo < fuel ->
  SrcPrelude.while_ret fuel (SrcEqCanon.while_down_body lo body) (hi, s)
  = let* s' := for_rev lo hi body s in Ok (Some (inl (Nat.min hi lo, s'))).
Print Assumptions counter_down_while_is_for_rev.
Example counter_down_while_is_for_rev_nonvacuous :
  4 - 0 < 5 /\ SrcPrelude.while_ret 5 (SrcEqCanon.while_down_body 0 (fun i s => Ok (s ++ [i]))) (4, []) = Ok (Some (inl (0, [3; 2; 1; 0]))).
Proof. split; [repeat constructor | reflexivity]. Qed.

Theorem countdown_for_is_for_rev : forall (S : Type) (n : nat) (body : nat -> S -> res S) (s : S),
  for_ 0 n (fun k s => let* a := usub n 1 in let* i := usub a k in body i s) s = for_rev 0 n body s.
Proof. intros S n body s. exact (SrcEqCanon.countdown_for_is_for_rev n body s). Qed.
Check countdown_for_is_for_rev : forall (S : Type) (n : nat) (body : nat -> S -> res S) (s : S),
  for_ 0 n (fun k s => let* a := usub n 1 in let* i := usub a k in body i s) s = for_rev 0 n body s.
Print Assumptions countdown_for_is_for_rev.

Theorem conditional_orientation : forall (Y : Type) (a b : nat) (c : bool) (x y : Y),
  (if a <=? b then x else y) = (if b <? a then y else x) /\
  (if a <? b then x else y) = (if b <=? a then y else x) /\
  (if negb c then x else y) = (if c then y else x).
Proof. intros Y a b c x y. exact (Logic.conj (SrcEqBase.if_leb_flip a b x y) (Logic.conj (SrcEqBase.if_ltb_flip a b x y) (SrcEqBase.if_negb_flip c x y))). Qed.
Check conditional_orientation : forall (Y : Type) (a b : nat) (c : bool) (x y : Y),
  (if a <=? b then x else y) = (if b <? a then y else x) /\
  (if a <? b then x else y) = (if b <=? a then y else x) /\
  (if negb c then x else y) = (if c then y else x).
Print Assumptions conditional_orientation.

Theorem negation_normal_form : forall (a b : nat) (x y : bool),
  negb (a <? b) = (b <=? a) /\ negb (a <=? b) = (b <? a) /\ negb (negb (a =? b)) = (a =? b) /\
  negb (x && y)%bool = (negb x || negb y)%bool /\ negb (x || y)%bool = (negb x && negb y)%bool.
Proof. intros a b x y. exact (Logic.conj (SrcEqCanon.nnf_ltb a b) (Logic.conj (SrcEqCanon.nnf_leb a b) (Logic.conj (SrcEqCanon.nnf_eqb a b) (Logic.conj (SrcEqCanon.nnf_andb x y) (SrcEqCanon.nnf_orb x y))))). Qed.
Check negation_normal_form : forall (a b : nat) (x y : bool),
  negb (a <? b) = (b <=? a) /\ negb (a <=? b) = (b <? a) /\ negb (negb (a =? b)) = (a =? b) /\
  negb (x && y)%bool = (negb x || negb y)%bool /\ negb (x || y)%bool = (negb x && negb y)%bool.
Print Assumptions negation_normal_form.

Theorem element_writes_keep_shape : forall (A : Arith) (l l' : list A) (m m' : Matrix.matrix A) (i j : nat) (x : A),
  (upd l i x = Ok l' -> length l' = length l) /\
  (Matrix.mset m i j x = Ok m' -> Matrix.rows m' = Matrix.rows m /\ Matrix.cols m' = Matrix.cols m /\ length (Matrix.buf m') = length (Matrix.buf m)).
Proof. intros A l l' m m' i j x. exact (Logic.conj (SrcEqCanon.upd_keeps_length l l' i x) (SrcEqCanon.mset_keeps_shape m m' i j x)). Qed.
Check element_writes_keep_shape : forall (A : Arith) (l l' : list A) (m m' : Matrix.matrix A) (i j : nat) (x : A),
  (upd l i x = Ok l' -> length l' = length l) /\
  (Matrix.mset m i j x = Ok m' -> Matrix.rows m' = Matrix.rows m /\ Matrix.cols m' = Matrix.cols m /\ length (Matrix.buf m') = length (Matrix.buf m)).
Print Assumptions element_writes_keep_shape.
Example element_writes_keep_shape_nonvacuous :
  upd [q 1 1; q 2 1; q 3 1] 1 (q 9 1 : AQ) = Ok [q 1 1; q 9 1; q 3 1] /\
  exists m', Matrix.mset (@Matrix.mkM AQ [q 1 1; q 2 1; q 3 1; q 4 1] 2 2) 1 0 (q 7 1 : AQ) = Ok m' /\ Matrix.rows m' = 2.
Proof. split; [reflexivity|]. eexists; split; reflexivity. Qed.
