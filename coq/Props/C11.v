(* Props/C11.v -- polynomial arithmetic, evaluation and differentiation obey the ring and calculus laws.
   Property theorems only: Theorem / exact lemma / Check (pins the statement) / Print Assumptions.
   All theorems quantify over every coefficient list (every length, the empty polynomial included) and
   every value; "RingLaws A" = the operations of A form a commutative ring (a hypothesis, discharged at Qc
   by AQ_RingLaws below; never an axiom).  nth k p zero is coefficient k (zero beyond the length).

   Reading of "the empty polynomial acts as zero" (DESIGN 7, C11): it is neutral for + and -, absorbing
   for * (pempty_laws); eval / derivative of the empty polynomial PANIC in the code and in the model
   (empty_eval_panics) -- that is why the evaluation theorems carry p <> [] hypotheses. *)
From Coq Require Import List Arith ZArith.
From OV Require Import Base.Panic Base.Arith Inst.QcInst Model.Poly Proofs.Poly Proofs.PolyExtra Proofs.PolyRing.
Import ListNotations.

(* the commutative-ring hypothesis is satisfiable: Qc *)
Definition AQ_RingLaws : RingLaws AQ := {| rl_ring := Field_theory.F_R AQ_field |}.

(* ---------------------------------------------------------------- coefficient formulae *)
Theorem nth_padd : forall (A : Arith), RingLaws A -> forall (p q : list A) k,
  nth k (padd p q) zero = add (nth k p zero) (nth k q zero).
Proof. intros A RL p q k. exact (Proofs.Poly.nth_padd RL p q k). Qed.
Check nth_padd : forall (A : Arith), RingLaws A -> forall (p q : list A) k,
  nth k (padd p q) zero = add (nth k p zero) (nth k q zero).
Print Assumptions nth_padd.
Example nth_padd_nonvacuous : RingLaws AQ. Proof. exact AQ_RingLaws. Qed.

Theorem nth_psub : forall (A : Arith), RingLaws A -> forall (p q : list A) k,
  nth k (psub p q) zero = sub (nth k p zero) (nth k q zero).
Proof. intros A RL p q k. exact (Proofs.Poly.nth_psub RL p q k). Qed.
Check nth_psub : forall (A : Arith), RingLaws A -> forall (p q : list A) k,
  nth k (psub p q) zero = sub (nth k p zero) (nth k q zero).
Print Assumptions nth_psub.

Theorem nth_pneg : forall (A : Arith), RingLaws A -> forall (p : list A) k,
  nth k (pneg p) zero = neg (nth k p zero).
Proof. intros A RL p k. exact (Proofs.Poly.nth_pneg RL p k). Qed.
Check nth_pneg : forall (A : Arith), RingLaws A -> forall (p : list A) k,
  nth k (pneg p) zero = neg (nth k p zero).
Print Assumptions nth_pneg.

Theorem nth_pscale : forall (A : Arith), RingLaws A -> forall (p : list A) (s : A) k,
  nth k (pscale p s) zero = mul (nth k p zero) s.
Proof. intros A RL p s k. exact (Proofs.Poly.nth_pscale RL p s k). Qed.
Check nth_pscale : forall (A : Arith), RingLaws A -> forall (p : list A) (s : A) k,
  nth k (pscale p s) zero = mul (nth k p zero) s.
Print Assumptions nth_pscale.

(* the product is the convolution  c_k = Σ_{i<=k} p_i q_{k-i}  (sum_n (S k) f = f 0 + ... + f k) *)
Theorem nth_pmul : forall (A : Arith), RingLaws A -> forall (p q : list A) k,
  nth k (pmul p q) zero = sum_n (S k) (fun i => mul (nth i p zero) (nth (k - i) q zero)).
Proof. intros A RL p q k. exact (Proofs.Poly.nth_pmul RL p q k). Qed.
Check nth_pmul : forall (A : Arith), RingLaws A -> forall (p q : list A) k,
  nth k (pmul p q) zero = sum_n (S k) (fun i => mul (nth i p zero) (nth (k - i) q zero)).
Print Assumptions nth_pmul.

(* derivative: coefficient k is a_{k+1} added up k+1 times, i.e. (k+1) * a_{k+1} with (k+1) = 1+...+1 *)
Theorem nth_pderiv : forall (A : Arith), RingLaws A -> forall (p d : list A) k, pderiv p = Ok d ->
  nth k d zero = add_times (S k) (nth (S k) p zero) zero /\
  nth k d zero = mul (add_times (S k) one zero) (nth (S k) p zero).
Proof.
  intros A RL p d k E. split.
  - exact (Proofs.Poly.nth_pderiv RL p d k E).
  - exact (eq_trans (Proofs.Poly.nth_pderiv RL p d k E) (nmul_of_nat RL (S k) (nth (S k) p zero))).
Qed.
Check nth_pderiv : forall (A : Arith), RingLaws A -> forall (p d : list A) k, pderiv p = Ok d ->
  nth k d zero = add_times (S k) (nth (S k) p zero) zero /\
  nth k d zero = mul (add_times (S k) one zero) (nth (S k) p zero).
Print Assumptions nth_pderiv.
Example nth_pderiv_nonvacuous : exists d, pderiv ([q 5 1; q 1 2; q 3 1] : list AQ) = Ok d /\ length d = 2.
Proof. eexists; split; reflexivity. Qed.

(* ---------------------------------------------------------------- lengths (every arithmetic, no laws) *)
Theorem poly_lengths : forall (A : Arith) (p q : list A) (s : A),
  length (padd p q) = Nat.max (length p) (length q) /\
  length (psub p q) = Nat.max (length p) (length q) /\
  (p <> [] -> q <> [] -> length (pmul p q) = length p + length q - 1) /\
  length (pneg p) = length p /\ length (pscale p s) = length p /\
  (forall d, pderiv p = Ok d -> length d = length p - 1).
Proof.
  intros A p q s.
  exact (conj (length_padd p q) (conj (length_psub p q) (conj (length_pmul p q)
        (conj (length_pneg p) (conj (length_pscale p s) (pderiv_length p)))))).
Qed.
Check poly_lengths : forall (A : Arith) (p q : list A) (s : A),
  length (padd p q) = Nat.max (length p) (length q) /\
  length (psub p q) = Nat.max (length p) (length q) /\
  (p <> [] -> q <> [] -> length (pmul p q) = length p + length q - 1) /\
  length (pneg p) = length p /\ length (pscale p s) = length p /\
  (forall d, pderiv p = Ok d -> length d = length p - 1).
Print Assumptions poly_lengths.

(* ---------------------------------------------------------------- the empty polynomial (every arithmetic) *)
Theorem pempty_laws : forall (A : Arith) (p : list A),
  padd [] p = p /\ padd p [] = p /\ psub p [] = p /\ psub [] p = pneg p /\ pmul [] p = [] /\ pmul p [] = [].
Proof.
  intros A p.
  exact (conj (padd_nil_l p) (conj (padd_nil_r p) (conj (psub_nil_r p) (conj (psub_nil_l p)
        (conj (pmul_nil_l p) (pmul_nil_r p)))))).
Qed.
Check pempty_laws : forall (A : Arith) (p : list A),
  padd [] p = p /\ padd p [] = p /\ psub p [] = p /\ psub [] p = pneg p /\ pmul [] p = [] /\ pmul p [] = [].
Print Assumptions pempty_laws.

Theorem empty_eval_panics : forall (A : Arith) (p : list A) (x : A),
  peval [] x = Panic Unwrap /\ pderiv (@nil A) = Panic Unwrap /\
  (p <> [] -> pderiv_at p x (length p) = Panic Unwrap).
Proof. intros A p x. exact (conj (peval_nil x) (conj pderiv_nil (pderiv_at_exhausted p x))). Qed.
Check empty_eval_panics : forall (A : Arith) (p : list A) (x : A),
  peval [] x = Panic Unwrap /\ pderiv (@nil A) = Panic Unwrap /\
  (p <> [] -> pderiv_at p x (length p) = Panic Unwrap).
Print Assumptions empty_eval_panics.

(* eval / derivative / trim panic exactly on the empty polynomial (every arithmetic; + - * neg scale are total by type) *)
Theorem poly_panics_exactly : forall (A : Arith) (p : list A) (x : A),
  (p = [] -> peval p x = Panic Unwrap /\ pderiv p = Panic Unwrap /\ ptrim p = Panic Underflow) /\
  (p <> [] -> (exists a, peval p x = Ok a) /\ (exists d, pderiv p = Ok d) /\ (exists t, ptrim p = Ok t)).
Proof. intros A p x. exact (poly_panics_exactly_lemma p x). Qed.
Check poly_panics_exactly : forall (A : Arith) (p : list A) (x : A),
  (p = [] -> peval p x = Panic Unwrap /\ pderiv p = Panic Unwrap /\ ptrim p = Panic Underflow) /\
  (p <> [] -> (exists a, peval p x = Ok a) /\ (exists d, pderiv p = Ok d) /\ (exists t, ptrim p = Ok t)).
Print Assumptions poly_panics_exactly.

(* ---------------------------------------------------------------- evaluation is a ring homomorphism *)
Theorem peval_is_sum : forall (A : Arith), RingLaws A -> forall (p : list A) (x : A), p <> [] ->
  peval p x = Ok (sum_n (length p) (fun i => mul (nth i p zero) (rpow x i))).
Proof.
  intros A RL p x H.
  exact (eq_trans (peval_horner RL p x H) (f_equal Ok (horner_sum RL p x))).
Qed.
Check peval_is_sum : forall (A : Arith), RingLaws A -> forall (p : list A) (x : A), p <> [] ->
  peval p x = Ok (sum_n (length p) (fun i => mul (nth i p zero) (rpow x i))).
Print Assumptions peval_is_sum.
Example peval_is_sum_nonvacuous : RingLaws AQ /\ [q 1 1; q (-2) 3; q 0 1; q 7 1] <> ([] : list AQ).
Proof. split; [exact AQ_RingLaws | discriminate]. Qed.

Theorem peval_padd : forall (A : Arith), RingLaws A -> forall (p q : list A) (x : A), p <> [] -> q <> [] ->
  exists a b, peval p x = Ok a /\ peval q x = Ok b /\ peval (padd p q) x = Ok (add a b).
Proof. intros A RL p q x Hp Hq. exact (peval_padd_lemma RL p q x Hp Hq). Qed.
Check peval_padd : forall (A : Arith), RingLaws A -> forall (p q : list A) (x : A), p <> [] -> q <> [] ->
  exists a b, peval p x = Ok a /\ peval q x = Ok b /\ peval (padd p q) x = Ok (add a b).
Print Assumptions peval_padd.
Example peval_padd_nonvacuous : RingLaws AQ /\ [q 1 1; q 2 1] <> ([] : list AQ) /\ [q 0 1; q 0 1; q 5 3] <> ([] : list AQ).
Proof. split; [exact AQ_RingLaws|split; discriminate]. Qed.

Theorem peval_psub : forall (A : Arith), RingLaws A -> forall (p q : list A) (x : A), p <> [] -> q <> [] ->
  exists a b, peval p x = Ok a /\ peval q x = Ok b /\ peval (psub p q) x = Ok (sub a b).
Proof. intros A RL p q x Hp Hq. exact (peval_psub_lemma RL p q x Hp Hq). Qed.
Check peval_psub : forall (A : Arith), RingLaws A -> forall (p q : list A) (x : A), p <> [] -> q <> [] ->
  exists a b, peval p x = Ok a /\ peval q x = Ok b /\ peval (psub p q) x = Ok (sub a b).
Print Assumptions peval_psub.

Theorem peval_pmul : forall (A : Arith), RingLaws A -> forall (p q : list A) (x : A), p <> [] -> q <> [] ->
  exists a b, peval p x = Ok a /\ peval q x = Ok b /\ peval (pmul p q) x = Ok (mul a b).
Proof. intros A RL p q x Hp Hq. exact (peval_pmul_lemma RL p q x Hp Hq). Qed.
Check peval_pmul : forall (A : Arith), RingLaws A -> forall (p q : list A) (x : A), p <> [] -> q <> [] ->
  exists a b, peval p x = Ok a /\ peval q x = Ok b /\ peval (pmul p q) x = Ok (mul a b).
Print Assumptions peval_pmul.

Theorem peval_pneg_pscale : forall (A : Arith), RingLaws A -> forall (p : list A) (x s : A), p <> [] ->
  exists a, peval p x = Ok a /\ peval (pneg p) x = Ok (neg a) /\ peval (pscale p s) x = Ok (mul a s).
Proof. intros A RL p x s Hp. exact (peval_pneg_pscale_lemma RL p x s Hp). Qed.
Check peval_pneg_pscale : forall (A : Arith), RingLaws A -> forall (p : list A) (x s : A), p <> [] ->
  exists a, peval p x = Ok a /\ peval (pneg p) x = Ok (neg a) /\ peval (pscale p s) x = Ok (mul a s).
Print Assumptions peval_pneg_pscale.

(* ---------------------------------------------------------------- calculus *)
Theorem pderiv_linear : forall (A : Arith), RingLaws A -> forall (p q dp dq : list A) (s : A),
  pderiv p = Ok dp -> pderiv q = Ok dq ->
  pderiv (padd p q) = Ok (padd dp dq) /\ pderiv (pscale p s) = Ok (pscale dp s) /\
  (forall d, pderiv (psub p q) = Ok d -> forall k, nth k d zero = nth k (psub dp dq) zero).
Proof.
  intros A RL p q dp dq s Ep Eq.
  exact (conj (pderiv_padd RL p q dp dq Ep Eq) (conj (pderiv_pscale RL p dp s Ep) (pderiv_psub RL p q dp dq Ep Eq))).
Qed.
Check pderiv_linear : forall (A : Arith), RingLaws A -> forall (p q dp dq : list A) (s : A),
  pderiv p = Ok dp -> pderiv q = Ok dq ->
  pderiv (padd p q) = Ok (padd dp dq) /\ pderiv (pscale p s) = Ok (pscale dp s) /\
  (forall d, pderiv (psub p q) = Ok d -> forall k, nth k d zero = nth k (psub dp dq) zero).
Print Assumptions pderiv_linear.
Example pderiv_linear_nonvacuous : RingLaws AQ /\
  exists dp dq, pderiv ([q 1 1; q 2 1; q 3 1] : list AQ) = Ok dp /\ pderiv ([q 4 1; q (-1) 2] : list AQ) = Ok dq.
Proof. split; [exact AQ_RingLaws|]. eexists; eexists; split; reflexivity. Qed.

(* product rule: (p*q)' = p'*q + p*q' as coefficient lists (hence coefficient by coefficient) *)
Theorem pderiv_product : forall (A : Arith), RingLaws A -> forall (p q dp dq : list A),
  pderiv p = Ok dp -> pderiv q = Ok dq ->
  pderiv (pmul p q) = Ok (padd (pmul dp q) (pmul p dq)).
Proof. intros A RL p q dp dq Ep Eq. exact (pderiv_pmul RL p q dp dq Ep Eq). Qed.
Check pderiv_product : forall (A : Arith), RingLaws A -> forall (p q dp dq : list A),
  pderiv p = Ok dp -> pderiv q = Ok dq ->
  pderiv (pmul p q) = Ok (padd (pmul dp q) (pmul p dq)).
Print Assumptions pderiv_product.
Example pderiv_product_nonvacuous : RingLaws AQ /\
  exists dp dq, pderiv ([q 1 1; q 2 1; q 3 1] : list AQ) = Ok dp /\ pderiv ([q 4 1; q (-1) 2] : list AQ) = Ok dq.
Proof. split; [exact AQ_RingLaws|]. eexists; eexists; split; reflexivity. Qed.

(* repeated differentiation (every arithmetic): order k <= len leaves len-k coefficients, order len = degree+1
   leaves the empty polynomial, every higher order panics *)
Theorem pderiv_n_orders : forall (A : Arith) (p : list A), p <> [] ->
  pderiv_n p (length p) = Ok [] /\
  (forall k, k <= length p -> exists d, pderiv_n p k = Ok d /\ length d = length p - k) /\
  (forall k, length p < k -> pderiv_n p k = Panic Unwrap).
Proof.
  intros A p Hp.
  exact (conj (pderiv_n_exhausts p Hp) (conj (fun k => pderiv_n_length k p) (fun k => pderiv_n_beyond k p))).
Qed.
Check pderiv_n_orders : forall (A : Arith) (p : list A), p <> [] ->
  pderiv_n p (length p) = Ok [] /\
  (forall k, k <= length p -> exists d, pderiv_n p k = Ok d /\ length d = length p - k) /\
  (forall k, length p < k -> pderiv_n p k = Panic Unwrap).
Print Assumptions pderiv_n_orders.
Example pderiv_n_orders_nonvacuous : [q 1 1; q 2 1; q 3 1] <> ([] : list AQ).
Proof. discriminate. Qed.

(* ---------------------------------------------------------------- is_zero / trim / index (anchors: trim / is_zero, index operator) *)
(* the explicit guard of Index / IndexMut fires exactly on index >= len (every arithmetic) *)
Theorem pindex_spec : forall (A : Arith) (p : list A) i (x : A),
  (i < length p -> pindex p i = Ok (nth i p zero) /\ pindex_set p i x = Ok (upd_list p i x)) /\
  (length p <= i -> pindex p i = Panic Guard /\ pindex_set p i x = Panic Guard).
Proof. intros A p i x. exact (pindex_spec_lemma p i x). Qed.
Check pindex_spec : forall (A : Arith) (p : list A) i (x : A),
  (i < length p -> pindex p i = Ok (nth i p zero) /\ pindex_set p i x = Ok (upd_list p i x)) /\
  (length p <= i -> pindex p i = Panic Guard /\ pindex_set p i x = Panic Guard).
Print Assumptions pindex_spec.

(* is_zero and trim compare with ==; where == decides equality (Rat / Qc; not f64: NaN, -0.0) they mean
   "all coefficients are zero" and "drop the zero coefficients above the true degree, keep at least one" *)
Theorem is_zero_spec : forall (A : Arith), (forall x y : A, eqb x y = true <-> x = y) ->
  forall p : list A, is_zero p = true <-> forall k, nth k p zero = zero.
Proof. intros A H p. exact (is_zero_spec_lemma H p). Qed.
Check is_zero_spec : forall (A : Arith), (forall x y : A, eqb x y = true <-> x = y) ->
  forall p : list A, is_zero p = true <-> forall k, nth k p zero = zero.
Print Assumptions is_zero_spec.
Example is_zero_spec_nonvacuous : forall x y : AQ, eqb x y = true <-> x = y.
Proof. exact Qc_eqb_spec. Qed.

Theorem ptrim_spec : forall (A : Arith), (forall x y : A, eqb x y = true <-> x = y) -> forall p : list A,
  (p = [] -> ptrim p = Panic Underflow) /\
  (p <> [] -> exists p' n, ptrim p = Ok p' /\ p = p' ++ repeat zero n /\ p' <> [] /\
                           (forall k, nth k p' zero = nth k p zero) /\ (length p' = 1 \/ last p' zero <> zero)).
Proof. intros A H p. exact (ptrim_spec_lemma H p). Qed.
Check ptrim_spec : forall (A : Arith), (forall x y : A, eqb x y = true <-> x = y) -> forall p : list A,
  (p = [] -> ptrim p = Panic Underflow) /\
  (p <> [] -> exists p' n, ptrim p = Ok p' /\ p = p' ++ repeat zero n /\ p' <> [] /\
                           (forall k, nth k p' zero = nth k p zero) /\ (length p' = 1 \/ last p' zero <> zero)).
Print Assumptions ptrim_spec.
Example ptrim_spec_nonvacuous : (forall x y : AQ, eqb x y = true <-> x = y) /\ [q 1 1; q 0 1; q 2 1; q 0 1; q 0 1] <> ([] : list AQ).
Proof. split; [exact Qc_eqb_spec|discriminate]. Qed.

(* ---------------------------------------------------------------- the ring laws themselves, coefficient by coefficient *)
(* (equality as polynomials: formal trailing zeros ignored; the empty polynomial is the zero of this ring, pempty_laws) *)
Theorem poly_ring_laws : forall (A : Arith), RingLaws A -> forall (p q r : list A) (s : A),
  (forall k, nth k (padd p q) zero = nth k (padd q p) zero) /\
  (forall k, nth k (padd (padd p q) r) zero = nth k (padd p (padd q r)) zero) /\
  (forall k, nth k (padd p (pneg p)) zero = nth k [] zero) /\
  (forall k, nth k (psub p q) zero = nth k (padd p (pneg q)) zero) /\
  (forall k, nth k (pmul p q) zero = nth k (pmul q p) zero) /\
  (forall k, nth k (pmul (pmul p q) r) zero = nth k (pmul p (pmul q r)) zero) /\
  (forall k, nth k (pmul [one] p) zero = nth k p zero) /\
  (forall k, nth k (pmul (padd p q) r) zero = nth k (padd (pmul p r) (pmul q r)) zero) /\
  (forall k, nth k (pscale p s) zero = nth k (pmul [s] p) zero).
Proof.
  intros A RL p q r s.
  exact (conj (padd_comm RL p q) (conj (padd_assoc RL p q r) (conj (padd_neg RL p) (conj (psub_as_add RL p q)
        (conj (pmul_comm RL p q) (conj (pmul_assoc RL p q r) (conj (pmul_one_l RL p)
        (conj (pmul_padd_distr_r RL p q r) (pscale_as_pmul RL p s))))))))).
Qed.
Check poly_ring_laws : forall (A : Arith), RingLaws A -> forall (p q r : list A) (s : A),
  (forall k, nth k (padd p q) zero = nth k (padd q p) zero) /\
  (forall k, nth k (padd (padd p q) r) zero = nth k (padd p (padd q r)) zero) /\
  (forall k, nth k (padd p (pneg p)) zero = nth k [] zero) /\
  (forall k, nth k (psub p q) zero = nth k (padd p (pneg q)) zero) /\
  (forall k, nth k (pmul p q) zero = nth k (pmul q p) zero) /\
  (forall k, nth k (pmul (pmul p q) r) zero = nth k (pmul p (pmul q r)) zero) /\
  (forall k, nth k (pmul [one] p) zero = nth k p zero) /\
  (forall k, nth k (pmul (padd p q) r) zero = nth k (padd (pmul p r) (pmul q r)) zero) /\
  (forall k, nth k (pscale p s) zero = nth k (pmul [s] p) zero).
Print Assumptions poly_ring_laws.

(* ---------------------------------------------------------------- the same at Qc, hypotheses discharged *)
Theorem peval_pmul_Qc : forall (p q : list AQ) (x : AQ), p <> [] -> q <> [] ->
  exists a b, peval p x = Ok a /\ peval q x = Ok b /\ peval (pmul p q) x = Ok (mul a b).
Proof. exact (peval_pmul_lemma AQ_RingLaws). Qed.
Check peval_pmul_Qc : forall (p q : list AQ) (x : AQ), p <> [] -> q <> [] ->
  exists a b, peval p x = Ok a /\ peval q x = Ok b /\ peval (pmul p q) x = Ok (mul a b).
Print Assumptions peval_pmul_Qc.

Theorem pderiv_product_Qc : forall (p q dp dq : list AQ), pderiv p = Ok dp -> pderiv q = Ok dq ->
  pderiv (pmul p q) = Ok (padd (pmul dp q) (pmul p dq)).
Proof. exact (pderiv_pmul AQ_RingLaws). Qed.
Check pderiv_product_Qc : forall (p q dp dq : list AQ), pderiv p = Ok dp -> pderiv q = Ok dq ->
  pderiv (pmul p q) = Ok (padd (pmul dp q) (pmul p dq)).
Print Assumptions pderiv_product_Qc.

(* ---- tie to the source by proof (package r2c): the functions regenerated from /repo/src on this run by the Rust-subset ->
   Gallina translator (driver/rust2coq.py -> gen/Src*.v) are equal, for all arguments, to the hand-written model functions
   the theorems above are about (Proofs/SrcEq*.v).  A change of a loop bound, index, operator or statement order in the
   source breaks the corresponding src_<function> lemma and with it this obligation. *)
From OV Require Proofs.SrcEqPoly.
Theorem model_is_source_C11_Poly : forall A : Arith, @SrcEqPoly.model_is_source_Poly A.
Proof. intros A. exact SrcEqPoly.model_is_source_Poly_lemma. Qed.
Check model_is_source_C11_Poly : forall A : Arith, @SrcEqPoly.model_is_source_Poly A.
Print Assumptions model_is_source_C11_Poly.
(* ---- tie of the model to the source of this run (package r2c2): gen/SrcWrapPoly.v is regenerated on every check run from
   src/polynomial/{arithmetic,mod}.rs: the consuming operator forms, Index, empty, new, quadratic, cubic, size, degree, Clone;
   Proofs/SrcEqWrapPoly.v proves each regenerated function equal to its hand-written model. *)
From OV Require Proofs.SrcEqWrapPoly.
Theorem model_is_source_C11_WrapPoly : forall A : Arith, @SrcEqWrapPoly.model_is_source_WrapPoly A.
Proof. intros A. exact SrcEqWrapPoly.model_is_source_WrapPoly_lemma. Qed.
Check model_is_source_C11_WrapPoly : forall A : Arith, @SrcEqWrapPoly.model_is_source_WrapPoly A.
Print Assumptions model_is_source_C11_WrapPoly.
(* ======================================================================================================
   C11 (polynomial ring and calculus laws), rounding half -- package round.  Append to Props/C11.v.
   Horner evaluation "to rounding accuracy": Model/Poly.v [peval] in the STANDARD MODEL of floating-point arithmetic
   (the same Gallina [peval] at ARm): the computed value is the exact value of a polynomial whose coefficients are
   perturbed relatively by at most gam (2d), d = degree; hence |fl(p(x)) - p(x)| <= gam (2d) Sum |a_i| |x|^i
   (Higham, Accuracy and Stability of Numerical Algorithms, (5.3)), for every degree with 2 d u < 1.
   Unproved remainder: this is the a priori bound; the running (a posteriori) error bound of Higham Alg. 5.1 belongs to
   an algorithm the code does not contain.  The standard model itself for IEEE binary64 is not re-proved here.
   ====================================================================================================== *)
From Coq Require Import Reals Lra Lia.
From OV Require Import Base.RoundModel Proofs.RoundPoly Proofs.RoundFlx.

Theorem peval_backward_error : forall (u : R), (0 <= u < 1)%R ->
  forall (fadd fsub fmul fdiv : R -> R -> R),
  (forall x y : R, exists d : R, (Rabs d <= u)%R /\ fadd x y = ((x + y) * (1 + d))%R) ->
  (forall x y : R, exists d : R, (Rabs d <= u)%R /\ fmul x y = (x * y * (1 + d))%R) ->
  forall (p : list R) (x r : R),
  (INR (2 * (length p - 1)) * u < 1)%R -> peval (A := ARm fadd fsub fmul fdiv) p x = Ok r ->
  exists th : nat -> R,
    (forall i, (i < length p)%nat -> (Rabs (th i) <= gam u (2 * (length p - 1)))%R) /\
    r = Rsum (length p) (fun i => (nth i p 0 * (1 + th i) * x ^ i)%R).
Proof. intros u Hu fadd fsub fmul fdiv Ha Hm p x r. exact (peval_backward_error_lemma u Hu fadd fsub fmul fdiv Ha Hm p x r). Qed.
Check peval_backward_error : forall (u : R), (0 <= u < 1)%R ->
  forall (fadd fsub fmul fdiv : R -> R -> R),
  (forall x y : R, exists d : R, (Rabs d <= u)%R /\ fadd x y = ((x + y) * (1 + d))%R) ->
  (forall x y : R, exists d : R, (Rabs d <= u)%R /\ fmul x y = (x * y * (1 + d))%R) ->
  forall (p : list R) (x r : R),
  (INR (2 * (length p - 1)) * u < 1)%R -> peval (A := ARm fadd fsub fmul fdiv) p x = Ok r ->
  exists th : nat -> R,
    (forall i, (i < length p)%nat -> (Rabs (th i) <= gam u (2 * (length p - 1)))%R) /\
    r = Rsum (length p) (fun i => (nth i p 0 * (1 + th i) * x ^ i)%R).
Print Assumptions peval_backward_error.
(* 1 + 2x + 3x^2 at x = 2 in the arithmetic that rounds every operation to 53 bits *)
Example peval_backward_error_nonvacuous :
  (0 <= ux < 1)%R /\
  (forall x y : R, exists d : R, (Rabs d <= ux)%R /\ xadd x y = ((x + y) * (1 + d))%R) /\
  (forall x y : R, exists d : R, (Rabs d <= ux)%R /\ xmul x y = (x * y * (1 + d))%R) /\
  (INR (2 * (length [1%R; 2%R; 3%R] - 1)) * ux < 1)%R /\
  exists r, peval (A := AFlx) [1%R; 2%R; 3%R] 2%R = Ok r.
Proof.
  split; [exact ux_range|]. split; [exact xadd_ok|]. split; [exact xmul_ok|].
  split; [cbn [length Nat.sub Nat.mul Nat.add INR]; pose proof ux_small; lra|eexists; reflexivity].
Qed.

Theorem peval_forward_error : forall (u : R), (0 <= u < 1)%R ->
  forall (fadd fsub fmul fdiv : R -> R -> R),
  (forall x y : R, exists d : R, (Rabs d <= u)%R /\ fadd x y = ((x + y) * (1 + d))%R) ->
  (forall x y : R, exists d : R, (Rabs d <= u)%R /\ fmul x y = (x * y * (1 + d))%R) ->
  forall (p : list R) (x r : R),
  (INR (2 * (length p - 1)) * u < 1)%R -> peval (A := ARm fadd fsub fmul fdiv) p x = Ok r ->
  (Rabs (r - Rsum (length p) (fun i => nth i p 0 * x ^ i))
     <= gam u (2 * (length p - 1)) * Rsum (length p) (fun i => Rabs (nth i p 0) * Rabs x ^ i))%R.
Proof. intros u Hu fadd fsub fmul fdiv Ha Hm p x r. exact (peval_forward_error_lemma u Hu fadd fsub fmul fdiv Ha Hm p x r). Qed.
Check peval_forward_error : forall (u : R), (0 <= u < 1)%R ->
  forall (fadd fsub fmul fdiv : R -> R -> R),
  (forall x y : R, exists d : R, (Rabs d <= u)%R /\ fadd x y = ((x + y) * (1 + d))%R) ->
  (forall x y : R, exists d : R, (Rabs d <= u)%R /\ fmul x y = (x * y * (1 + d))%R) ->
  forall (p : list R) (x r : R),
  (INR (2 * (length p - 1)) * u < 1)%R -> peval (A := ARm fadd fsub fmul fdiv) p x = Ok r ->
  (Rabs (r - Rsum (length p) (fun i => nth i p 0 * x ^ i))
     <= gam u (2 * (length p - 1)) * Rsum (length p) (fun i => Rabs (nth i p 0) * Rabs x ^ i))%R.
Print Assumptions peval_forward_error.
Example peval_forward_error_nonvacuous :   (* same instance *)
  (0 <= ux < 1)%R /\ (INR (2 * (length [1%R; 2%R; 3%R] - 1)) * ux < 1)%R /\
  exists r, peval (A := AFlx) [1%R; 2%R; 3%R] 2%R = Ok r.
Proof.
  split; [exact ux_range|].
  split; [cbn [length Nat.sub Nat.mul Nat.add INR]; pose proof ux_small; lra|eexists; reflexivity].
Qed.

(* ---- the same at the PRIMITIVE-FLOAT instance (IEEE binary64, u = 2^-53), through Flocq: no hypothesis about rounding
   remains; the result must be finite and no product acc * x of the Horner loop may underflow ([horner_partial p x k] is
   the accumulator after k steps, a float expression in p and x) ---- *)
From Coq Require Import Floats.
From OV Require Import Inst.FloatInst Proofs.ComplexRound Proofs.RoundDotFloat Proofs.RoundPolyFloat.

Theorem peval_backward_error_float : forall (p : list PrimFloat.float) (x r : PrimFloat.float),
  peval (A := AF) p x = Ok r -> ffinite r ->
  (forall k, (k < length p - 1)%nat -> no_underflow (FR (horner_partial p x k) * FR x)%R) ->
  (INR (2 * (length p - 1)) * u64 < 1)%R ->
  exists th : nat -> R,
    (forall i, (i < length p)%nat -> (Rabs (th i) <= g64 (2 * (length p - 1)))%R) /\
    FR r = Rsum (length p) (fun i => (FR (nth i p 0%float) * (1 + th i) * FR x ^ i)%R).
Proof. exact peval_backward_error_float_lemma. Qed.
Check peval_backward_error_float : forall (p : list PrimFloat.float) (x r : PrimFloat.float),
  peval (A := AF) p x = Ok r -> ffinite r ->
  (forall k, (k < length p - 1)%nat -> no_underflow (FR (horner_partial p x k) * FR x)%R) ->
  (INR (2 * (length p - 1)) * u64 < 1)%R ->
  exists th : nat -> R,
    (forall i, (i < length p)%nat -> (Rabs (th i) <= g64 (2 * (length p - 1)))%R) /\
    FR r = Rsum (length p) (fun i => (FR (nth i p 0%float) * (1 + th i) * FR x ^ i)%R).
Print Assumptions peval_backward_error_float.
(* 1 + c x + 3 x^2 at x = 0.5 with c the double nearest 0.1: the sum 1.5 + c is inexact *)
Example peval_backward_error_float_nonvacuous :
  let p := [1%float; 0x1.999999999999ap-4%float; 3%float] in let x := 0.5%float in
  (exists r, peval (A := AF) p x = Ok r /\ ffinite r) /\
  (forall k, (k < length p - 1)%nat -> no_underflow (FR (horner_partial p x k) * FR x)%R) /\
  (INR (2 * (length p - 1)) * u64 < 1)%R.
Proof.
  cbn zeta. split; [eexists; split; [reflexivity|apply ffinite_SF; reflexivity]|]. split.
  - assert (Eh : FR 0.5%float = (/ 2)%R) by fr_eval. assert (E3 : FR 3%float = 3%R) by fr_eval.
    assert (B : (1 <= FR (3 * 0.5 + 0x1.999999999999ap-4)%float <= 2)%R) by (split; fr_eval).
    intros [|[|k]] Hk; cbn in Hk; try lia; apply no_underflow_ge_small.
    + change (horner_partial [1%float; 0x1.999999999999ap-4%float; 3%float] 0.5%float 0) with 3%float.
      rewrite Eh, E3, Rabs_pos_eq; lra.
    + change (horner_partial [1%float; 0x1.999999999999ap-4%float; 3%float] 0.5%float 1)
        with (3 * 0.5 + 0x1.999999999999ap-4)%float.
      rewrite Eh, Rabs_pos_eq; lra.
  - cbn [length Nat.sub Nat.mul Nat.add INR]. pose proof u64_small. lra.
Qed.

Theorem peval_forward_error_float : forall (p : list PrimFloat.float) (x r : PrimFloat.float),
  peval (A := AF) p x = Ok r -> ffinite r ->
  (forall k, (k < length p - 1)%nat -> no_underflow (FR (horner_partial p x k) * FR x)%R) ->
  (INR (2 * (length p - 1)) * u64 < 1)%R ->
  (Rabs (FR r - Rsum (length p) (fun i => FR (nth i p 0%float) * FR x ^ i))
     <= g64 (2 * (length p - 1)) * Rsum (length p) (fun i => Rabs (FR (nth i p 0%float)) * Rabs (FR x) ^ i))%R.
Proof. exact peval_forward_error_float_lemma. Qed.
Check peval_forward_error_float : forall (p : list PrimFloat.float) (x r : PrimFloat.float),
  peval (A := AF) p x = Ok r -> ffinite r ->
  (forall k, (k < length p - 1)%nat -> no_underflow (FR (horner_partial p x k) * FR x)%R) ->
  (INR (2 * (length p - 1)) * u64 < 1)%R ->
  (Rabs (FR r - Rsum (length p) (fun i => FR (nth i p 0%float) * FR x ^ i))
     <= g64 (2 * (length p - 1)) * Rsum (length p) (fun i => Rabs (FR (nth i p 0%float)) * Rabs (FR x) ^ i))%R.
Print Assumptions peval_forward_error_float.
Example peval_forward_error_float_nonvacuous :   (* exactly representable data: 1 + 2x + 3x^2 at 0.5 *)
  let p := [1%float; 2%float; 3%float] in let x := 0.5%float in
  (exists r, peval (A := AF) p x = Ok r /\ ffinite r) /\ (INR (2 * (length p - 1)) * u64 < 1)%R.
Proof.
  cbn zeta. split; [eexists; split; [reflexivity|apply ffinite_SF; reflexivity]|].
  cbn [length Nat.sub Nat.mul Nat.add INR]. pose proof u64_small. lra.
Qed.
