(* Props/C11.v -- polynomial arithmetic, evaluation and differentiation obey the ring and calculus laws.
   Property theorems only: Theorem / exact lemma / Check (pins the statement) / Print Assumptions.
   All theorems quantify over every coefficient list (every length, the empty polynomial included) and
   every value; "RingLaws A" = the operations of A form a commutative ring (a hypothesis, discharged at Qc
   by AQ_RingLaws below; never an axiom).  nth k p zero is coefficient k (zero beyond the length).

   Reading of "the empty polynomial acts as zero" (DESIGN 7, C11): it is neutral for + and -, absorbing
   for * (pempty_laws); eval / derivative of the empty polynomial PANIC in the code and in the model
   (empty_eval_panics) -- that is why the evaluation theorems carry p <> [] hypotheses. *)
From Coq Require Import List Arith ZArith.
From OV Require Import Base.Panic Base.Arith Inst.QcInst Model.Poly Proofs.Poly Proofs.PolyExtra Proofs.PolyRing.
Import ListNotations.

(* the commutative-ring hypothesis is satisfiable: Qc *)
Definition AQ_RingLaws : RingLaws AQ := {| rl_ring := Field_theory.F_R AQ_field |}.

(* ---------------------------------------------------------------- coefficient formulae *)
Theorem nth_padd : forall (A : Arith), RingLaws A -> forall (p q : list A) k,
  nth k (padd p q) zero = add (nth k p zero) (nth k q zero).
Proof. intros A RL p q k. exact (Proofs.Poly.nth_padd RL p q k). Qed.
Check nth_padd : forall (A : Arith), RingLaws A -> forall (p q : list A) k,
  nth k (padd p q) zero = add (nth k p zero) (nth k q zero).
Print Assumptions nth_padd.
Example nth_padd_nonvacuous : RingLaws AQ. Proof. exact AQ_RingLaws. Qed.

Theorem nth_psub : forall (A : Arith), RingLaws A -> forall (p q : list A) k,
  nth k (psub p q) zero = sub (nth k p zero) (nth k q zero).
Proof. intros A RL p q k. exact (Proofs.Poly.nth_psub RL p q k). Qed.
Check nth_psub : forall (A : Arith), RingLaws A -> forall (p q : list A) k,
  nth k (psub p q) zero = sub (nth k p zero) (nth k q zero).
Print Assumptions nth_psub.

Theorem nth_pneg : forall (A : Arith), RingLaws A -> forall (p : list A) k,
  nth k (pneg p) zero = neg (nth k p zero).
Proof. intros A RL p k. exact (Proofs.Poly.nth_pneg RL p k). Qed.
Check nth_pneg : forall (A : Arith), RingLaws A -> forall (p : list A) k,
  nth k (pneg p) zero = neg (nth k p zero).
Print Assumptions nth_pneg.

Theorem nth_pscale : forall (A : Arith), RingLaws A -> forall (p : list A) (s : A) k,
  nth k (pscale p s) zero = mul (nth k p zero) s.
Proof. intros A RL p s k. exact (Proofs.Poly.nth_pscale RL p s k). Qed.
Check nth_pscale : forall (A : Arith), RingLaws A -> forall (p : list A) (s : A) k,
  nth k (pscale p s) zero = mul (nth k p zero) s.
Print Assumptions nth_pscale.

(* the product is the convolution  c_k = Σ_{i<=k} p_i q_{k-i}  (sum_n (S k) f = f 0 + ... + f k) *)
Theorem nth_pmul : forall (A : Arith), RingLaws A -> forall (p q : list A) k,
  nth k (pmul p q) zero = sum_n (S k) (fun i => mul (nth i p zero) (nth (k - i) q zero)).
Proof. intros A RL p q k. exact (Proofs.Poly.nth_pmul RL p q k). Qed.
Check nth_pmul : forall (A : Arith), RingLaws A -> forall (p q : list A) k,
  nth k (pmul p q) zero = sum_n (S k) (fun i => mul (nth i p zero) (nth (k - i) q zero)).
Print Assumptions nth_pmul.

(* derivative: coefficient k is a_{k+1} added up k+1 times, i.e. (k+1) * a_{k+1} with (k+1) = 1+...+1 *)
Theorem nth_pderiv : forall (A : Arith), RingLaws A -> forall (p d : list A) k, pderiv p = Ok d ->
  nth k d zero = add_times (S k) (nth (S k) p zero) zero /\
  nth k d zero = mul (add_times (S k) one zero) (nth (S k) p zero).
Proof.
  intros A RL p d k E. split.
  - exact (Proofs.Poly.nth_pderiv RL p d k E).
  - exact (eq_trans (Proofs.Poly.nth_pderiv RL p d k E) (nmul_of_nat RL (S k) (nth (S k) p zero))).
Qed.
Check nth_pderiv : forall (A : Arith), RingLaws A -> forall (p d : list A) k, pderiv p = Ok d ->
  nth k d zero = add_times (S k) (nth (S k) p zero) zero /\
  nth k d zero = mul (add_times (S k) one zero) (nth (S k) p zero).
Print Assumptions nth_pderiv.
Example nth_pderiv_nonvacuous : exists d, pderiv ([q 5 1; q 1 2; q 3 1] : list AQ) = Ok d /\ length d = 2.
Proof. eexists; split; reflexivity. Qed.

(* ---------------------------------------------------------------- lengths (every arithmetic, no laws) *)
Theorem poly_lengths : forall (A : Arith) (p q : list A) (s : A),
  length (padd p q) = Nat.max (length p) (length q) /\
  length (psub p q) = Nat.max (length p) (length q) /\
  (p <> [] -> q <> [] -> length (pmul p q) = length p + length q - 1) /\
  length (pneg p) = length p /\ length (pscale p s) = length p /\
  (forall d, pderiv p = Ok d -> length d = length p - 1).
Proof.
  intros A p q s.
  exact (conj (length_padd p q) (conj (length_psub p q) (conj (length_pmul p q)
        (conj (length_pneg p) (conj (length_pscale p s) (pderiv_length p)))))).
Qed.
Check poly_lengths : forall (A : Arith) (p q : list A) (s : A),
  length (padd p q) = Nat.max (length p) (length q) /\
  length (psub p q) = Nat.max (length p) (length q) /\
  (p <> [] -> q <> [] -> length (pmul p q) = length p + length q - 1) /\
  length (pneg p) = length p /\ length (pscale p s) = length p /\
  (forall d, pderiv p = Ok d -> length d = length p - 1).
Print Assumptions poly_lengths.

(* ---------------------------------------------------------------- the empty polynomial (every arithmetic) *)
Theorem pempty_laws : forall (A : Arith) (p : list A),
  padd [] p = p /\ padd p [] = p /\ psub p [] = p /\ psub [] p = pneg p /\ pmul [] p = [] /\ pmul p [] = [].
Proof.
  intros A p.
  exact (conj (padd_nil_l p) (conj (padd_nil_r p) (conj (psub_nil_r p) (conj (psub_nil_l p)
        (conj (pmul_nil_l p) (pmul_nil_r p)))))).
Qed.
Check pempty_laws : forall (A : Arith) (p : list A),
  padd [] p = p /\ padd p [] = p /\ psub p [] = p /\ psub [] p = pneg p /\ pmul [] p = [] /\ pmul p [] = [].
Print Assumptions pempty_laws.

Theorem empty_eval_panics : forall (A : Arith) (p : list A) (x : A),
  peval [] x = Panic Unwrap /\ pderiv (@nil A) = Panic Unwrap /\
  (p <> [] -> pderiv_at p x (length p) = Panic Unwrap).
Proof. intros A p x. exact (conj (peval_nil x) (conj pderiv_nil (pderiv_at_exhausted p x))). Qed.
Check empty_eval_panics : forall (A : Arith) (p : list A) (x : A),
  peval [] x = Panic Unwrap /\ pderiv (@nil A) = Panic Unwrap /\
  (p <> [] -> pderiv_at p x (length p) = Panic Unwrap).
Print Assumptions empty_eval_panics.

(* eval / derivative / trim panic exactly on the empty polynomial (every arithmetic; + - * neg scale are total by type) *)
Theorem poly_panics_exactly : forall (A : Arith) (p : list A) (x : A),
  (p = [] -> peval p x = Panic Unwrap /\ pderiv p = Panic Unwrap /\ ptrim p = Panic Underflow) /\
  (p <> [] -> (exists a, peval p x = Ok a) /\ (exists d, pderiv p = Ok d) /\ (exists t, ptrim p = Ok t)).
Proof. intros A p x. exact (poly_panics_exactly_lemma p x). Qed.
Check poly_panics_exactly : forall (A : Arith) (p : list A) (x : A),
  (p = [] -> peval p x = Panic Unwrap /\ pderiv p = Panic Unwrap /\ ptrim p = Panic Underflow) /\
  (p <> [] -> (exists a, peval p x = Ok a) /\ (exists d, pderiv p = Ok d) /\ (exists t, ptrim p = Ok t)).
Print Assumptions poly_panics_exactly.

(* ---------------------------------------------------------------- evaluation is a ring homomorphism *)
Theorem peval_is_sum : forall (A : Arith), RingLaws A -> forall (p : list A) (x : A), p <> [] ->
  peval p x = Ok (sum_n (length p) (fun i => mul (nth i p zero) (rpow x i))).
Proof.
  intros A RL p x H.
  exact (eq_trans (peval_horner RL p x H) (f_equal Ok (horner_sum RL p x))).
Qed.
Check peval_is_sum : forall (A : Arith), RingLaws A -> forall (p : list A) (x : A), p <> [] ->
  peval p x = Ok (sum_n (length p) (fun i => mul (nth i p zero) (rpow x i))).
Print Assumptions peval_is_sum.
Example peval_is_sum_nonvacuous : RingLaws AQ /\ [q 1 1; q (-2) 3; q 0 1; q 7 1] <> ([] : list AQ).
Proof. split; [exact AQ_RingLaws | discriminate]. Qed.

Theorem peval_padd : forall (A : Arith), RingLaws A -> forall (p q : list A) (x : A), p <> [] -> q <> [] ->
  exists a b, peval p x = Ok a /\ peval q x = Ok b /\ peval (padd p q) x = Ok (add a b).
Proof. intros A RL p q x Hp Hq. exact (peval_padd_lemma RL p q x Hp Hq). Qed.
Check peval_padd : forall (A : Arith), RingLaws A -> forall (p q : list A) (x : A), p <> [] -> q <> [] ->
  exists a b, peval p x = Ok a /\ peval q x = Ok b /\ peval (padd p q) x = Ok (add a b).
Print Assumptions peval_padd.
Example peval_padd_nonvacuous : RingLaws AQ /\ [q 1 1; q 2 1] <> ([] : list AQ) /\ [q 0 1; q 0 1; q 5 3] <> ([] : list AQ).
Proof. split; [exact AQ_RingLaws|split; discriminate]. Qed.

Theorem peval_psub : forall (A : Arith), RingLaws A -> forall (p q : list A) (x : A), p <> [] -> q <> [] ->
  exists a b, peval p x = Ok a /\ peval q x = Ok b /\ peval (psub p q) x = Ok (sub a b).
Proof. intros A RL p q x Hp Hq. exact (peval_psub_lemma RL p q x Hp Hq). Qed.
Check peval_psub : forall (A : Arith), RingLaws A -> forall (p q : list A) (x : A), p <> [] -> q <> [] ->
  exists a b, peval p x = Ok a /\ peval q x = Ok b /\ peval (psub p q) x = Ok (sub a b).
Print Assumptions peval_psub.

Theorem peval_pmul : forall (A : Arith), RingLaws A -> forall (p q : list A) (x : A), p <> [] -> q <> [] ->
  exists a b, peval p x = Ok a /\ peval q x = Ok b /\ peval (pmul p q) x = Ok (mul a b).
Proof. intros A RL p q x Hp Hq. exact (peval_pmul_lemma RL p q x Hp Hq). Qed.
Check peval_pmul : forall (A : Arith), RingLaws A -> forall (p q : list A) (x : A), p <> [] -> q <> [] ->
  exists a b, peval p x = Ok a /\ peval q x = Ok b /\ peval (pmul p q) x = Ok (mul a b).
Print Assumptions peval_pmul.

Theorem peval_pneg_pscale : forall (A : Arith), RingLaws A -> forall (p : list A) (x s : A), p <> [] ->
  exists a, peval p x = Ok a /\ peval (pneg p) x = Ok (neg a) /\ peval (pscale p s) x = Ok (mul a s).
Proof. intros A RL p x s Hp. exact (peval_pneg_pscale_lemma RL p x s Hp). Qed.
Check peval_pneg_pscale : forall (A : Arith), RingLaws A -> forall (p : list A) (x s : A), p <> [] ->
  exists a, peval p x = Ok a /\ peval (pneg p) x = Ok (neg a) /\ peval (pscale p s) x = Ok (mul a s).
Print Assumptions peval_pneg_pscale.

(* ---------------------------------------------------------------- calculus *)
Theorem pderiv_linear : forall (A : Arith), RingLaws A -> forall (p q dp dq : list A) (s : A),
  pderiv p = Ok dp -> pderiv q = Ok dq ->
  pderiv (padd p q) = Ok (padd dp dq) /\ pderiv (pscale p s) = Ok (pscale dp s) /\
  (forall d, pderiv (psub p q) = Ok d -> forall k, nth k d zero = nth k (psub dp dq) zero).
Proof.
  intros A RL p q dp dq s Ep Eq.
  exact (conj (pderiv_padd RL p q dp dq Ep Eq) (conj (pderiv_pscale RL p dp s Ep) (pderiv_psub RL p q dp dq Ep Eq))).
Qed.
Check pderiv_linear : forall (A : Arith), RingLaws A -> forall (p q dp dq : list A) (s : A),
  pderiv p = Ok dp -> pderiv q = Ok dq ->
  pderiv (padd p q) = Ok (padd dp dq) /\ pderiv (pscale p s) = Ok (pscale dp s) /\
  (forall d, pderiv (psub p q) = Ok d -> forall k, nth k d zero = nth k (psub dp dq) zero).
Print Assumptions pderiv_linear.
Example pderiv_linear_nonvacuous : RingLaws AQ /\
  exists dp dq, pderiv ([q 1 1; q 2 1; q 3 1] : list AQ) = Ok dp /\ pderiv ([q 4 1; q (-1) 2] : list AQ) = Ok dq.
Proof. split; [exact AQ_RingLaws|]. eexists; eexists; split; reflexivity. Qed.

(* product rule: (p*q)' = p'*q + p*q' as coefficient lists (hence coefficient by coefficient) *)
Theorem pderiv_product : forall (A : Arith), RingLaws A -> forall (p q dp dq : list A),
  pderiv p = Ok dp -> pderiv q = Ok dq ->
  pderiv (pmul p q) = Ok (padd (pmul dp q) (pmul p dq)).
Proof. intros A RL p q dp dq Ep Eq. exact (pderiv_pmul RL p q dp dq Ep Eq). Qed.
Check pderiv_product : forall (A : Arith), RingLaws A -> forall (p q dp dq : list A),
  pderiv p = Ok dp -> pderiv q = Ok dq ->
  pderiv (pmul p q) = Ok (padd (pmul dp q) (pmul p dq)).
Print Assumptions pderiv_product.
Example pderiv_product_nonvacuous : RingLaws AQ /\
  exists dp dq, pderiv ([q 1 1; q 2 1; q 3 1] : list AQ) = Ok dp /\ pderiv ([q 4 1; q (-1) 2] : list AQ) = Ok dq.
Proof. split; [exact AQ_RingLaws|]. eexists; eexists; split; reflexivity. Qed.

(* repeated differentiation (every arithmetic): order k <= len leaves len-k coefficients, order len = degree+1
   leaves the empty polynomial, every higher order panics *)
Theorem pderiv_n_orders : forall (A : Arith) (p : list A), p <> [] ->
  pderiv_n p (length p) = Ok [] /\
  (forall k, k <= length p -> exists d, pderiv_n p k = Ok d /\ length d = length p - k) /\
  (forall k, length p < k -> pderiv_n p k = Panic Unwrap).
Proof.
  intros A p Hp.
  exact (conj (pderiv_n_exhausts p Hp) (conj (fun k => pderiv_n_length k p) (fun k => pderiv_n_beyond k p))).
Qed.
Check pderiv_n_orders : forall (A : Arith) (p : list A), p <> [] ->
  pderiv_n p (length p) = Ok [] /\
  (forall k, k <= length p -> exists d, pderiv_n p k = Ok d /\ length d = length p - k) /\
  (forall k, length p < k -> pderiv_n p k = Panic Unwrap).
Print Assumptions pderiv_n_orders.
Example pderiv_n_orders_nonvacuous : [q 1 1; q 2 1; q 3 1] <> ([] : list AQ).
Proof. discriminate. Qed.

(* ---------------------------------------------------------------- is_zero / trim / index (anchors: trim / is_zero, index operator) *)
(* the explicit guard of Index / IndexMut fires exactly on index >= len (every arithmetic) *)
Theorem pindex_spec : forall (A : Arith) (p : list A) i (x : A),
  (i < length p -> pindex p i = Ok (nth i p zero) /\ pindex_set p i x = Ok (upd_list p i x)) /\
  (length p <= i -> pindex p i = Panic Guard /\ pindex_set p i x = Panic Guard).
Proof. intros A p i x. exact (pindex_spec_lemma p i x). Qed.
Check pindex_spec : forall (A : Arith) (p : list A) i (x : A),
  (i < length p -> pindex p i = Ok (nth i p zero) /\ pindex_set p i x = Ok (upd_list p i x)) /\
  (length p <= i -> pindex p i = Panic Guard /\ pindex_set p i x = Panic Guard).
Print Assumptions pindex_spec.

(* is_zero and trim compare with ==; where == decides equality (Rat / Qc; not f64: NaN, -0.0) they mean
   "all coefficients are zero" and "drop the zero coefficients above the true degree, keep at least one" *)
Theorem is_zero_spec : forall (A : Arith), (forall x y : A, eqb x y = true <-> x = y) ->
  forall p : list A, is_zero p = true <-> forall k, nth k p zero = zero.
Proof. intros A H p. exact (is_zero_spec_lemma H p). Qed.
Check is_zero_spec : forall (A : Arith), (forall x y : A, eqb x y = true <-> x = y) ->
  forall p : list A, is_zero p = true <-> forall k, nth k p zero = zero.
Print Assumptions is_zero_spec.
Example is_zero_spec_nonvacuous : forall x y : AQ, eqb x y = true <-> x = y.
Proof. exact Qc_eqb_spec. Qed.

Theorem ptrim_spec : forall (A : Arith), (forall x y : A, eqb x y = true <-> x = y) -> forall p : list A,
  (p = [] -> ptrim p = Panic Underflow) /\
  (p <> [] -> exists p' n, ptrim p = Ok p' /\ p = p' ++ repeat zero n /\ p' <> [] /\
                           (forall k, nth k p' zero = nth k p zero) /\ (length p' = 1 \/ last p' zero <> zero)).
Proof. intros A H p. exact (ptrim_spec_lemma H p). Qed.
Check ptrim_spec : forall (A : Arith), (forall x y : A, eqb x y = true <-> x = y) -> forall p : list A,
  (p = [] -> ptrim p = Panic Underflow) /\
  (p <> [] -> exists p' n, ptrim p = Ok p' /\ p = p' ++ repeat zero n /\ p' <> [] /\
                           (forall k, nth k p' zero = nth k p zero) /\ (length p' = 1 \/ last p' zero <> zero)).
Print Assumptions ptrim_spec.
Example ptrim_spec_nonvacuous : (forall x y : AQ, eqb x y = true <-> x = y) /\ [q 1 1; q 0 1; q 2 1; q 0 1; q 0 1] <> ([] : list AQ).
Proof. split; [exact Qc_eqb_spec|discriminate]. Qed.

(* ---------------------------------------------------------------- the ring laws themselves, coefficient by coefficient *)
(* (equality as polynomials: formal trailing zeros ignored; the empty polynomial is the zero of this ring, pempty_laws) *)
Theorem poly_ring_laws : forall (A : Arith), RingLaws A -> forall (p q r : list A) (s : A),
  (forall k, nth k (padd p q) zero = nth k (padd q p) zero) /\
  (forall k, nth k (padd (padd p q) r) zero = nth k (padd p (padd q r)) zero) /\
  (forall k, nth k (padd p (pneg p)) zero = nth k [] zero) /\
  (forall k, nth k (psub p q) zero = nth k (padd p (pneg q)) zero) /\
  (forall k, nth k (pmul p q) zero = nth k (pmul q p) zero) /\
  (forall k, nth k (pmul (pmul p q) r) zero = nth k (pmul p (pmul q r)) zero) /\
  (forall k, nth k (pmul [one] p) zero = nth k p zero) /\
  (forall k, nth k (pmul (padd p q) r) zero = nth k (padd (pmul p r) (pmul q r)) zero) /\
  (forall k, nth k (pscale p s) zero = nth k (pmul [s] p) zero).
Proof.
  intros A RL p q r s.
  exact (conj (padd_comm RL p q) (conj (padd_assoc RL p q r) (conj (padd_neg RL p) (conj (psub_as_add RL p q)
        (conj (pmul_comm RL p q) (conj (pmul_assoc RL p q r) (conj (pmul_one_l RL p)
        (conj (pmul_padd_distr_r RL p q r) (pscale_as_pmul RL p s))))))))).
Qed.
Check poly_ring_laws : forall (A : Arith), RingLaws A -> forall (p q r : list A) (s : A),
  (forall k, nth k (padd p q) zero = nth k (padd q p) zero) /\
  (forall k, nth k (padd (padd p q) r) zero = nth k (padd p (padd q r)) zero) /\
  (forall k, nth k (padd p (pneg p)) zero = nth k [] zero) /\
  (forall k, nth k (psub p q) zero = nth k (padd p (pneg q)) zero) /\
  (forall k, nth k (pmul p q) zero = nth k (pmul q p) zero) /\
  (forall k, nth k (pmul (pmul p q) r) zero = nth k (pmul p (pmul q r)) zero) /\
  (forall k, nth k (pmul [one] p) zero = nth k p zero) /\
  (forall k, nth k (pmul (padd p q) r) zero = nth k (padd (pmul p r) (pmul q r)) zero) /\
  (forall k, nth k (pscale p s) zero = nth k (pmul [s] p) zero).
Print Assumptions poly_ring_laws.

(* ---------------------------------------------------------------- the same at Qc, hypotheses discharged *)
Theorem peval_pmul_Qc : forall (p q : list AQ) (x : AQ), p <> [] -> q <> [] ->
  exists a b, peval p x = Ok a /\ peval q x = Ok b /\ peval (pmul p q) x = Ok (mul a b).
Proof. exact (peval_pmul_lemma AQ_RingLaws). Qed.
Check peval_pmul_Qc : forall (p q : list AQ) (x : AQ), p <> [] -> q <> [] ->
  exists a b, peval p x = Ok a /\ peval q x = Ok b /\ peval (pmul p q) x = Ok (mul a b).
Print Assumptions peval_pmul_Qc.

Theorem pderiv_product_Qc : forall (p q dp dq : list AQ), pderiv p = Ok dp -> pderiv q = Ok dq ->
  pderiv (pmul p q) = Ok (padd (pmul dp q) (pmul p dq)).
Proof. exact (pderiv_pmul AQ_RingLaws). Qed.
Check pderiv_product_Qc : forall (p q dp dq : list AQ), pderiv p = Ok dp -> pderiv q = Ok dq ->
  pderiv (pmul p q) = Ok (padd (pmul dp q) (pmul p dq)).
Print Assumptions pderiv_product_Qc.

(* ---- tie to the source by proof (package r2c): the functions regenerated from /repo/src on this run by the Rust-subset ->
   Gallina translator (driver/rust2coq.py -> gen/Src*.v) are equal, for all arguments, to the hand-written model functions
   the theorems above are about (Proofs/SrcEq*.v).  A change of a loop bound, index, operator or statement order in the
   source breaks the corresponding src_<function> lemma and with it this obligation. *)
From OV Require Proofs.SrcEqPoly.
Theorem model_is_source_C11_Poly : forall A : Arith, @SrcEqPoly.model_is_source_Poly A.
Proof. intros A. exact SrcEqPoly.model_is_source_Poly_lemma. Qed.
Check model_is_source_C11_Poly : forall A : Arith, @SrcEqPoly.model_is_source_Poly A.
Print Assumptions model_is_source_C11_Poly.
