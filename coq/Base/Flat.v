(* Base/Flat.v -- canonical tagged output stream of the correspondence check.
   int -> [0; n]   float -> [1; bits]   rational -> [2; num; den]   panic -> [9; kind] *)
From Coq Require Import List ZArith.
From OV Require Import Base.Panic.
Import ListNotations.

Definition fl_nat (n : nat) : list Z := [0%Z; Z.of_nat n].
Definition fl_Z (n : Z) : list Z := [0%Z; n].
Definition fl_bool (b : bool) : list Z := [0%Z; if b then 1%Z else 0%Z].
Definition pk_code (k : pkind) : Z :=
  match k with Guard => 0 | Index => 1 | Underflow => 2 | DivZero => 3 | Unwrap => 4 end%Z.
Definition fl_panic (k : pkind) : list Z := [9%Z; pk_code k].
Definition fl_list {X} (f : X -> list Z) (l : list X) : list Z := fl_nat (length l) ++ concat (map f l).
Definition fl_res {X} (f : X -> list Z) (r : res X) : list Z :=
  match r with Ok x => f x | Panic k => fl_panic k end.
