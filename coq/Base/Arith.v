(* Base/Arith.v -- the arithmetic signature every generic model is parameterised by.
   Mirrors the Rust bounds  T: Number (+ Signed) (+ PartialOrd) + Copy. *)
From Coq Require Import List Arith Lia Ring_theory Field_theory.
From OV Require Import Base.Panic.
Import ListNotations.

Record Arith := {
  T :> Type;
  zero : T; one : T;
  add : T -> T -> T; sub : T -> T -> T; mul : T -> T -> T;
  neg : T -> T;
  abs : T -> T;                    (* Signed::abs *)
  div : T -> T -> res T;           (* Panic DivZero where the exact Rust type panics *)
  eqb : T -> T -> bool;            (* PartialEq::eq *)
  ltb : T -> T -> bool;            (* PartialOrd::lt   (a < b) *)
  leb : T -> T -> bool;            (* PartialOrd::le   (a <= b) *)
}.

Arguments zero {_}. Arguments one {_}.
Arguments add {_}. Arguments sub {_}. Arguments mul {_}. Arguments neg {_}.
Arguments abs {_}. Arguments div {_}. Arguments eqb {_}. Arguments ltb {_}. Arguments leb {_}.

Declare Scope arith_scope.
Delimit Scope arith_scope with A.
Infix "+" := add : arith_scope.
Infix "-" := sub : arith_scope.
Infix "*" := mul : arith_scope.
Notation "- x" := (neg x) : arith_scope.

(* a > b  is  b < a  in Rust's PartialOrd *)
Definition gtb {A : Arith} (a b : A) : bool := ltb b a.

(* Arithmetic with a (correctly rounded or exact) square root: what f64-only code needs. *)
Record SArith := {
  SA :> Arith;
  sqrt : SA -> SA;
  of_nat : nat -> SA;              (* `n as f64` *)
}.
Arguments sqrt {_}. Arguments of_nat {_}.

(* ---- laws: Section hypotheses of the theorems, discharged at Qc / R ---- *)

Record RingLaws (A : Arith) : Prop := {
  rl_ring : ring_theory (@zero A) one add mul sub neg eq;
}.

Record FieldLaws (A : Arith) : Type := {
  fl_inv : A -> A;
  fl_field : field_theory (@zero A) one add mul sub neg (fun x y => mul x (fl_inv y)) fl_inv eq;
  fl_eqb : forall x y : A, eqb x y = true <-> x = y;
  fl_div : forall x y : A, div x y = if eqb y zero then Panic DivZero else Ok (mul x (fl_inv y));
}.

(* what pivot selection by magnitude needs *)
Record MagLaws (A : Arith) : Prop := {
  ml_abs0 : forall x : A, abs x = zero <-> x = zero;
  ml_ltb_irrefl : forall x : A, ltb x x = false;
}.

(* generic sums  Σ_{k<n} f k  (left fold from zero, in index order: the order of the code's loops) *)
Fixpoint sum_n {A : Arith} (n : nat) (f : nat -> A) : A :=
  match n with 0 => zero | S n' => add (sum_n n' f) (f n') end.

Lemma sum_n_ext {A : Arith} n (f g : nat -> A) :
  (forall k, k < n -> f k = g k) -> sum_n n f = sum_n n g.
Proof.
  induction n as [|n IH]; cbn; intros H; auto.
  rewrite IH by (intros; apply H; lia). now rewrite H by lia.
Qed.
