(* Base/FnAst.v -- user functions (Newton, Jacobian, Mesh2D::apply) as shared expression ASTs.
   The executor (harness/src/fnast.rs) interprets the same AST with the same operation order,
   so model and implementation perform the same arithmetic operations in the same order. *)
From Coq Require Import List Arith.
From OV Require Import Base.Panic Base.Arith.
Import ListNotations.

Inductive binop := OpAdd | OpSub | OpMul | OpDiv.

Inductive expr (X : Type) : Type :=
| EVar (k : nat)
| ELit (c : X)
| EBin (op : binop) (l r : expr X)
| ENeg (e : expr X).
Arguments EVar {X} k. Arguments ELit {X} c. Arguments EBin {X} op l r. Arguments ENeg {X} e.

Fixpoint eeval {A : Arith} (e : expr A) (v : list A) : res A :=
  match e with
  | EVar k => rd v k
  | ELit c => Ok c
  | ENeg a => let* x := eeval a v in Ok (neg x)
  | EBin op l r =>
      let* a := eeval l v in
      let* b := eeval r v in
      match op with
      | OpAdd => Ok (add a b) | OpSub => Ok (sub a b) | OpMul => Ok (mul a b) | OpDiv => div a b
      end
  end.

(* a vector-valued function: one expression per component, evaluated in order *)
Fixpoint evalv {A : Arith} (es : list (expr A)) (v : list A) : res (list A) :=
  match es with
  | [] => Ok []
  | e :: t => let* y := eeval e v in let* ys := evalv t v in Ok (y :: ys)
  end.
