(* Base/RoundModel.v -- the STANDARD MODEL of floating-point arithmetic as an [Arith] over the reals
   (generalisation of the formulation of Proofs/TridiagRound.v: all four operations, any unit roundoff 0 <= u < 1):

        fadd x y = (x + y)(1 + d)   fsub x y = (x - y)(1 + d)   fmul x y = (x y)(1 + d)   fdiv x y = (x / y)(1 + d)
        |d| <= u                                                                           (y <> 0 for fdiv)

   [ARm] is the Arith with these operations, so that a model function instantiated at [ARm] is the SAME Gallina
   function the correspondence check runs at Qc and at the IEEE primitive floats.

   The error counters of Higham (Accuracy and Stability of Numerical Algorithms, Lemma 3.1):
        bnd n p   :=  (1-u)^n <= p <= 1/(1-u)^n       "p is a product of n factors (1+d_i)^(+-1), |d_i| <= u"
        gam n     :=  n u / (1 - n u)
        bnd n p -> n u < 1 -> |p - 1| <= gam n         (bnd_gam; Higham Lemma 3.1)
   [bnd] is closed under products (indices add), inverses, and is monotone in n -- the algebra of the theta_n.

   Nothing here is assumed globally: u and the operations are Section variables, their properties Section
   hypotheses; Proofs/RoundFlx.v discharges them for round-to-nearest-even in precision 53 (unbounded exponent),
   Proofs/RoundDotFloat.v ties the dot product to the primitive-float instance itself. *)
From Coq Require Import List Arith Lia Reals Lra Psatz.
From OV Require Import Base.Panic Base.Arith.
Import ListNotations.
Local Open Scope R_scope.

(* real sums  Sum_{k<n} f k  (same order as Base.Arith.sum_n, exact real addition) *)
Fixpoint Rsum (n : nat) (f : nat -> R) : R :=
  match n with O => 0 | S n' => Rsum n' f + f n' end.

Lemma Rsum_ext n f g : (forall k, (k < n)%nat -> f k = g k) -> Rsum n f = Rsum n g.
Proof.
  induction n as [|n IH]; cbn; intros H; auto.
  rewrite IH by (intros; apply H; lia). now rewrite H by lia.
Qed.

Lemma Rsum_plus n f g : Rsum n (fun k => f k + g k) = Rsum n f + Rsum n g.
Proof. induction n as [|n IH]; cbn; [ring|rewrite IH; ring]. Qed.

Lemma Rsum_minus n f g : Rsum n (fun k => f k - g k) = Rsum n f - Rsum n g.
Proof. induction n as [|n IH]; cbn; [ring|rewrite IH; ring]. Qed.

Lemma Rsum_scal n c f : Rsum n (fun k => c * f k) = c * Rsum n f.
Proof. induction n as [|n IH]; cbn; [ring|rewrite IH; ring]. Qed.

Lemma Rsum_abs n f : Rabs (Rsum n f) <= Rsum n (fun k => Rabs (f k)).
Proof.
  induction n as [|n IH]; cbn; [rewrite Rabs_R0; lra|].
  eapply Rle_trans; [apply Rabs_triang|]. lra.
Qed.

Lemma Rsum_le n f g : (forall k, (k < n)%nat -> f k <= g k) -> Rsum n f <= Rsum n g.
Proof.
  induction n as [|n IH]; cbn; intros H; [lra|].
  specialize (IH ltac:(intros; apply H; lia)). specialize (H n ltac:(lia)). lra.
Qed.

Lemma Rsum_nonneg n f : (forall k, (k < n)%nat -> 0 <= f k) -> 0 <= Rsum n f.
Proof.
  induction n as [|n IH]; cbn; intros H; [lra|].
  specialize (IH ltac:(intros; apply H; lia)). specialize (H n ltac:(lia)). lra.
Qed.

(* first term split off: Sum_{k<n+1} f k = f 0 + Sum_{k<n} f (k+1) *)
Lemma Rsum_shift n f : Rsum (S n) f = f O + Rsum n (fun k => f (S k)).
Proof. induction n as [|n IH]; [cbn; ring|]. cbn [Rsum] in *. rewrite IH. ring. Qed.

(* |Sum a_k e_k| <= g Sum |a_k|  when every |e_k| <= g *)
Lemma Rsum_pert_le n (a e : nat -> R) g :
  (forall k, (k < n)%nat -> Rabs (e k) <= g) ->
  Rabs (Rsum n (fun k => a k * e k)) <= g * Rsum n (fun k => Rabs (a k)).
Proof.
  intros H. eapply Rle_trans; [apply Rsum_abs|]. rewrite <- Rsum_scal.
  apply Rsum_le. intros k Hk. rewrite Rabs_mult. specialize (H k Hk).
  pose proof (Rabs_pos (a k)). nra.
Qed.

(* ---------------------------------------------------------------- the error counters *)
Section Counters.
Variable u : R.
Hypothesis u_range : 0 <= u < 1.

Definition gam (n : nat) : R := INR n * u / (1 - INR n * u).

Definition bnd (n : nat) (p : R) : Prop := (1 - u) ^ n <= p <= / (1 - u) ^ n.

Lemma pow1u_pos n : 0 < (1 - u) ^ n.
Proof using u_range. apply pow_lt. lra. Qed.

Lemma pow1u_le1 n : (1 - u) ^ n <= 1.
Proof using u_range.
  induction n as [|n IH]; cbn [pow]; [lra|].
  assert (0 < (1 - u) ^ n) by (apply pow_lt; lra). nra.
Qed.

Lemma bnd_pos n p : bnd n p -> 0 < p.
Proof using u_range. intros [H _]. pose proof (pow1u_pos n). lra. Qed.

Lemma bnd_nz n p : bnd n p -> p <> 0.
Proof using u_range. intros H. pose proof (bnd_pos n p H). lra. Qed.

Lemma bnd_0 : bnd 0 1.
Proof. unfold bnd. cbn. rewrite Rinv_1. lra. Qed.

Lemma bnd_1 n : bnd n 1.
Proof using u_range.
  unfold bnd. pose proof (pow1u_pos n). pose proof (pow1u_le1 n). split; [lra|].
  rewrite <- Rinv_1 at 1. apply Rinv_le_contravar; lra.
Qed.

Lemma bnd_mul n m p q : bnd n p -> bnd m q -> bnd (n + m) (p * q).
Proof using u_range.
  intros [Hp1 Hp2] [Hq1 Hq2]. unfold bnd. rewrite pow_add.
  pose proof (pow1u_pos n). pose proof (pow1u_pos m).
  rewrite Rinv_mult.
  assert (0 < / (1 - u) ^ n) by now apply Rinv_0_lt_compat.
  assert (0 < / (1 - u) ^ m) by now apply Rinv_0_lt_compat.
  split; nra.
Qed.

Lemma bnd_inv n p : bnd n p -> bnd n (/ p).
Proof using u_range.
  intros [H1 H2]. pose proof (pow1u_pos n) as P. unfold bnd.
  assert (Pp : 0 < p) by lra. split.
  - rewrite <- (Rinv_inv ((1 - u) ^ n)). apply Rinv_le_contravar; [lra|exact H2].
  - apply Rinv_le_contravar; [exact P|exact H1].
Qed.

Lemma bnd_mono n m p : (n <= m)%nat -> bnd n p -> bnd m p.
Proof using u_range.
  intros Hle H. replace m with (n + (m - n))%nat by lia. rewrite <- (Rmult_1_r p).
  apply bnd_mul; [exact H|apply bnd_1].
Qed.

Lemma bnd_1pd d : Rabs d <= u -> bnd 1 (1 + d).
Proof using u_range.
  intros H. unfold bnd. rewrite pow_1.
  assert (- u <= d <= u) by (unfold Rabs in H; destruct (Rcase_abs d); lra).
  split; [lra|].
  apply (Rmult_le_reg_r (1 - u)); [lra|]. rewrite Rinv_l by lra. nra.
Qed.

Lemma bnd_div n m p q : bnd n p -> bnd m q -> bnd (n + m) (p / q).
Proof using u_range. intros Hp Hq. apply bnd_mul; [exact Hp|now apply bnd_inv]. Qed.

(* one more rounding: multiply or divide by (1+d) *)
Lemma bnd_S_mul n p d : bnd n p -> Rabs d <= u -> bnd (S n) (p * (1 + d)).
Proof using u_range.
  intros Hp Hd. replace (S n) with (n + 1)%nat by lia. apply bnd_mul; [exact Hp|now apply bnd_1pd].
Qed.

Lemma bnd_S_div n p d : bnd n p -> Rabs d <= u -> bnd (S n) (p / (1 + d)).
Proof using u_range.
  intros Hp Hd. replace (S n) with (n + 1)%nat by lia. apply bnd_div; [exact Hp|now apply bnd_1pd].
Qed.

(* Bernoulli: (1-u)^n >= 1 - n u *)
Lemma bernoulli n : 1 - INR n * u <= (1 - u) ^ n.
Proof using u_range.
  induction n as [|n IH]; [cbn; lra|].
  rewrite S_INR. cbn [pow]. pose proof (pos_INR n). pose proof (pow1u_pos n). nra.
Qed.

Lemma gam_nonneg n : INR n * u < 1 -> 0 <= gam n.
Proof using u_range.
  intros H. unfold gam. pose proof (pos_INR n).
  apply Rmult_le_pos; [nra|]. apply Rlt_le, Rinv_0_lt_compat. lra.
Qed.

Lemma gam_1plus n : INR n * u < 1 -> 1 + gam n = / (1 - INR n * u).
Proof. intros H. unfold gam. field. lra. Qed.

Lemma gam_mono n m : (n <= m)%nat -> INR m * u < 1 -> gam n <= gam m.
Proof using u_range.
  intros Hle Hm. apply le_INR in Hle. pose proof (pos_INR n).
  assert (Hn : INR n * u < 1) by nra.
  apply (Rplus_le_reg_l 1). rewrite !gam_1plus by assumption.
  apply Rinv_le_contravar; [lra|nra].
Qed.

(* Higham Lemma 3.1: a product of n factors (1+d_i)^(+-1) is 1 + theta_n with |theta_n| <= gam n *)
Lemma bnd_gam n p : bnd n p -> INR n * u < 1 -> Rabs (p - 1) <= gam n.
Proof using u_range.
  intros [H1 H2] Hn. pose proof (bernoulli n) as B. pose proof (pow1u_pos n) as P.
  assert (G : / (1 - u) ^ n <= 1 + gam n).
  { rewrite gam_1plus by exact Hn. apply Rinv_le_contravar; lra. }
  assert (L : INR n * u <= gam n).
  { unfold gam. pose proof (pos_INR n). assert (0 <= INR n * u) by nra.
    unfold Rdiv. rewrite <- (Rmult_1_r (INR n * u)) at 1.
    apply Rmult_le_compat_l; [assumption|].
    rewrite <- Rinv_1 at 1. apply Rinv_le_contravar; lra. }
  apply Rabs_le. lra.
Qed.

(* an explicit witness for "t = s e with bnd n e" (no choice principle needed to collect witnesses) *)
Definition ratio (t s : R) : R := if Req_EM_T s 0 then 1 else t / s.

Lemma ratio_spec n t s : (exists e, bnd n e /\ t = s * e) -> bnd n (ratio t s) /\ t = s * ratio t s.
Proof using u_range.
  intros (e & He & E). unfold ratio. destruct (Req_EM_T s 0) as [Z|NZ].
  - split; [apply bnd_1|]. rewrite E, Z. ring.
  - replace (t / s) with e by (rewrite E; field; exact NZ). split; [exact He|exact E].
Qed.

(* the theta form: p = 1 + th, |th| <= gam n *)
Lemma bnd_theta n p : bnd n p -> INR n * u < 1 -> exists th, Rabs th <= gam n /\ p = 1 + th.
Proof using u_range. intros H Hn. exists (p - 1). split; [now apply bnd_gam|ring]. Qed.

End Counters.

(* ---------------------------------------------------------------- the standard-model arithmetic *)
Section Model.
Variable u : R.
Hypothesis u_range : 0 <= u < 1.
Variables fadd fsub fmul fdiv : R -> R -> R.
Hypothesis fadd_ok : forall x y, exists d, Rabs d <= u /\ fadd x y = (x + y) * (1 + d).
Hypothesis fsub_ok : forall x y, exists d, Rabs d <= u /\ fsub x y = (x - y) * (1 + d).
Hypothesis fmul_ok : forall x y, exists d, Rabs d <= u /\ fmul x y = x * y * (1 + d).
Hypothesis fdiv_ok : forall x y, y <> 0 -> exists d, Rabs d <= u /\ fdiv x y = x / y * (1 + d).

Definition ARm : Arith := {|
  T := R; zero := 0; one := 1;
  add := fadd; sub := fsub; mul := fmul; neg := Ropp; abs := Rabs;
  div := fun x y => Ok (fdiv x y);
  eqb := fun x y => if Req_EM_T x y then true else false;
  ltb := fun x y => if Rlt_dec x y then true else false;
  leb := fun x y => if Rle_dec x y then true else false |}.

(* the same facts with the error as a [bnd 1] factor *)
Lemma fadd_bnd x y : exists e, bnd u 1 e /\ fadd x y = (x + y) * e.
Proof using u_range fadd_ok.
  destruct (fadd_ok x y) as (d & Hd & E). exists (1 + d). split; [now apply bnd_1pd|exact E].
Qed.
Lemma fsub_bnd x y : exists e, bnd u 1 e /\ fsub x y = (x - y) * e.
Proof using u_range fsub_ok.
  destruct (fsub_ok x y) as (d & Hd & E). exists (1 + d). split; [now apply bnd_1pd|exact E].
Qed.
Lemma fmul_bnd x y : exists e, bnd u 1 e /\ fmul x y = x * y * e.
Proof using u_range fmul_ok.
  destruct (fmul_ok x y) as (d & Hd & E). exists (1 + d). split; [now apply bnd_1pd|exact E].
Qed.
Lemma fdiv_bnd x y : y <> 0 -> exists e, bnd u 1 e /\ fdiv x y = x / y * e.
Proof using u_range fdiv_ok.
  intros Hy. destruct (fdiv_ok x y Hy) as (d & Hd & E). exists (1 + d). split; [now apply bnd_1pd|exact E].
Qed.

End Model.
