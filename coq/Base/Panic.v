(* Base/Panic.v -- every way the Rust code can panic is a value. *)
From Coq Require Import List Arith Lia.
Import ListNotations.

Inductive pkind := Guard | Index | Underflow | DivZero | Unwrap.

Inductive res (X : Type) : Type :=
| Ok (x : X)
| Panic (k : pkind).
Arguments Ok {X} x.
Arguments Panic {X} k.

Definition bind {X Y} (r : res X) (f : X -> res Y) : res Y :=
  match r with Ok x => f x | Panic k => Panic k end.

Notation "'let*' x ':=' e 'in' f" := (bind e (fun x => f))
  (at level 200, x pattern, e at level 100, f at level 200, right associativity).

Definition is_ok {X} (r : res X) : bool := match r with Ok _ => true | _ => false end.

Lemma bind_ok {X Y} (r : res X) (f : X -> res Y) y :
  bind r f = Ok y -> exists x, r = Ok x /\ f x = Ok y.
Proof. destruct r as [x|k]; cbn; [eauto | discriminate]. Qed.

Lemma bind_Ok_l {X Y} (x : X) (f : X -> res Y) : bind (Ok x) f = f x.
Proof. reflexivity. Qed.

Lemma bind_assoc {X Y Z} (r : res X) (f : X -> res Y) (g : Y -> res Z) :
  bind (bind r f) g = bind r (fun x => bind (f x) g).
Proof. destruct r; reflexivity. Qed.

(* checked usize subtraction (debug profile: panics on underflow) *)
Definition usub (a b : nat) : res nat := if b <=? a then Ok (a - b) else Panic Underflow.

(* checked list access: Vec indexing *)
Definition rd {X} (l : list X) (i : nat) : res X :=
  match nth_error l i with Some x => Ok x | None => Panic Index end.

Fixpoint upd_list {X} (l : list X) (i : nat) (v : X) : list X :=
  match l, i with
  | [], _ => []
  | _ :: t, 0 => v :: t
  | h :: t, S i' => h :: upd_list t i' v
  end.

Definition upd {X} (l : list X) (i : nat) (v : X) : res (list X) :=
  if i <? length l then Ok (upd_list l i v) else Panic Index.

Lemma upd_list_length {X} (l : list X) i v : length (upd_list l i v) = length l.
Proof. revert i; induction l as [|h t IH]; intros [|i]; cbn; auto. Qed.

Lemma nth_upd_list {X} (l : list X) i j v d :
  i < length l -> nth j (upd_list l i v) d = if j =? i then v else nth j l d.
Proof.
  revert i j; induction l as [|h t IH]; intros i j Hi; cbn in Hi; [lia|].
  destruct i as [|i]; destruct j as [|j]; cbn; auto.
  apply IH; lia.
Qed.

Lemma nth_error_upd_list {X} (l : list X) i j v :
  i < length l -> nth_error (upd_list l i v) j = if j =? i then Some v else nth_error l j.
Proof.
  revert i j; induction l as [|h t IH]; intros i j Hi; cbn in Hi; [lia|].
  destruct i as [|i]; destruct j as [|j]; cbn; auto.
  apply IH; lia.
Qed.

Lemma rd_ok {X} (l : list X) i d : i < length l -> rd l i = Ok (nth i l d).
Proof.
  intros H; unfold rd. destruct (nth_error l i) eqn:E.
  - f_equal. symmetry. now apply nth_error_nth.
  - apply nth_error_None in E; lia.
Qed.

Lemma rd_Ok_inv {X} (l : list X) i x d : rd l i = Ok x -> i < length l /\ x = nth i l d.
Proof.
  unfold rd; destruct (nth_error l i) eqn:E; [|discriminate].
  intros H; injection H as <-. split.
  - apply nth_error_Some; congruence.
  - symmetry; now apply nth_error_nth.
Qed.

Lemma rd_panic {X} (l : list X) i : length l <= i -> rd l i = Panic Index.
Proof. intros H; unfold rd. now apply nth_error_None in H as ->. Qed.

Lemma upd_ok {X} (l : list X) i v : i < length l -> upd l i v = Ok (upd_list l i v).
Proof. intros H; unfold upd. now apply Nat.ltb_lt in H as ->. Qed.

Lemma upd_Ok_inv {X} (l : list X) i v l' : upd l i v = Ok l' -> i < length l /\ l' = upd_list l i v.
Proof.
  unfold upd; destruct (Nat.ltb_spec i (length l)); [|discriminate].
  intros H'; injection H' as <-; auto.
Qed.

(* ---------- loops ---------- *)

(* for i in lo .. lo+n *)
Fixpoint for_from {S} (n lo : nat) (body : nat -> S -> res S) (s : S) : res S :=
  match n with
  | 0 => Ok s
  | Datatypes.S n' => let* s' := body lo s in for_from n' (Datatypes.S lo) body s'
  end.

(* for i in lo..hi  (empty when hi <= lo, as in Rust) *)
Definition for_ {S} (lo hi : nat) (body : nat -> S -> res S) (s : S) : res S :=
  for_from (hi - lo) lo body s.

(* for i in (lo..hi).rev() *)
Fixpoint for_rev_from {S} (n lo : nat) (body : nat -> S -> res S) (s : S) : res S :=
  match n with
  | 0 => Ok s
  | Datatypes.S n' => let* s' := body (lo + n') s in for_rev_from n' lo body s'
  end.
Definition for_rev {S} (lo hi : nat) (body : nat -> S -> res S) (s : S) : res S :=
  for_rev_from (hi - lo) lo body s.

(* Invariant rule: if I holds at lo and every iteration in range preserves it (and does
   not panic), the loop does not panic and I holds at the end. *)
Lemma for_from_inv {S} (I : nat -> S -> Prop) n lo body (s : S) :
  I lo s ->
  (forall i s, lo <= i < lo + n -> I i s -> exists s', body i s = Ok s' /\ I (Datatypes.S i) s') ->
  exists s', for_from n lo body s = Ok s' /\ I (lo + n) s'.
Proof.
  revert lo s; induction n as [|n IH]; intros lo s H0 Hstep; cbn.
  - exists s; split; auto. now rewrite Nat.add_0_r.
  - destruct (Hstep lo s) as (s1 & E1 & H1); [lia|auto|]. rewrite E1; cbn.
    destruct (IH (Datatypes.S lo) s1 H1) as (s2 & E2 & H2).
    + intros i s' Hi HI. apply Hstep; auto; lia.
    + exists s2; split; auto. now replace (lo + Datatypes.S n) with (Datatypes.S lo + n) by lia.
Qed.

Lemma for_inv {S} (I : nat -> S -> Prop) lo hi body (s : S) :
  lo <= hi -> I lo s ->
  (forall i s, lo <= i < hi -> I i s -> exists s', body i s = Ok s' /\ I (Datatypes.S i) s') ->
  exists s', for_ lo hi body s = Ok s' /\ I hi s'.
Proof.
  intros Hle H0 Hstep. unfold for_.
  destruct (for_from_inv I (hi - lo) lo body s H0) as (s' & E & H).
  - intros i s1 Hi. apply Hstep; lia.
  - exists s'; split; auto. now replace hi with (lo + (hi - lo)) by lia.
Qed.

Lemma for_empty {S} lo hi body (s : S) : hi <= lo -> for_ lo hi body s = Ok s.
Proof. intros H; unfold for_. now replace (hi - lo) with 0 by lia. Qed.

(* Partial-correctness version: whatever the loop returns satisfies the invariant. *)
Lemma for_from_inv_partial {S} (I : nat -> S -> Prop) n lo body (s s' : S) :
  I lo s ->
  (forall i s s1, lo <= i < lo + n -> I i s -> body i s = Ok s1 -> I (Datatypes.S i) s1) ->
  for_from n lo body s = Ok s' -> I (lo + n) s'.
Proof.
  revert lo s; induction n as [|n IH]; intros lo s H0 Hstep; cbn.
  - intros E; injection E as <-. now rewrite Nat.add_0_r.
  - intros E. apply bind_ok in E as (s1 & E1 & E2).
    replace (lo + Datatypes.S n) with (Datatypes.S lo + n) by lia.
    apply (IH (Datatypes.S lo) s1); auto.
    + apply (Hstep lo s); auto; lia.
    + intros i t t1 Hi. apply Hstep; lia.
Qed.

Lemma for_inv_partial {S} (I : nat -> S -> Prop) lo hi body (s s' : S) :
  lo <= hi -> I lo s ->
  (forall i s s1, lo <= i < hi -> I i s -> body i s = Ok s1 -> I (Datatypes.S i) s1) ->
  for_ lo hi body s = Ok s' -> I hi s'.
Proof.
  intros Hle H0 Hstep E. unfold for_ in E.
  replace hi with (lo + (hi - lo)) by lia.
  eapply for_from_inv_partial; eauto. intros i t t1 Hi. apply Hstep; lia.
Qed.

(* reverse loop: invariant indexed by the number of iterations still to run *)
Lemma for_rev_from_inv {S} (I : nat -> S -> Prop) n lo body (s : S) :
  I n s ->
  (forall k s, k < n -> I (Datatypes.S k) s -> exists s', body (lo + k) s = Ok s' /\ I k s') ->
  exists s', for_rev_from n lo body s = Ok s' /\ I 0 s'.
Proof.
  revert s; induction n as [|n IH]; intros s H0 Hstep; cbn.
  - exists s; auto.
  - destruct (Hstep n s) as (s1 & E1 & H1); [lia|auto|]. rewrite E1; cbn.
    apply IH; auto.
Qed.

Lemma for_rev_from_inv_partial {S} (I : nat -> S -> Prop) n lo body (s s' : S) :
  I n s ->
  (forall k s s1, k < n -> I (Datatypes.S k) s -> body (lo + k) s = Ok s1 -> I k s1) ->
  for_rev_from n lo body s = Ok s' -> I 0 s'.
Proof.
  revert s; induction n as [|n IH]; intros s H0 Hstep; cbn.
  - intros E; injection E as <-; auto.
  - intros E. apply bind_ok in E as (s1 & E1 & E2).
    apply (IH s1); auto.
    + apply (Hstep n s); auto.
    + intros k t t1 Hk. apply Hstep; lia.
Qed.

(* while loops: explicit fuel; [None] from the body means "condition false: stop". *)
Fixpoint while_ {S} (fuel : nat) (body : S -> res (option S)) (s : S) : res (S * bool) :=
  match fuel with
  | 0 => Ok (s, false)                      (* out of fuel: flagged, never a normal value *)
  | Datatypes.S f =>
      let* o := body s in
      match o with
      | None => Ok (s, true)
      | Some s' => while_ f body s'
      end
  end.
