(* Legacy/C09Refuted.v -- solve_bicg as it was before the repair d2fe329 (no start-up test, ||b|| used
   as a divisor), next to the witness that the repaired model and the legacy one really differ:
   the float instance on diag(2,3), b = (2,3), x0 = (1,1) (an exact guess) returns Err nan with x = nan. *)
From Coq Require Import List Arith ZArith Floats.
From OV Require Import Base.Panic Base.Arith Model.Vector Model.Matrix Model.Sparse Model.Iter Inst.FloatInst Proofs.Iter.
Import ListNotations.

Section Legacy.
Context {A : SArith}.
Notation F := (T (SA A)).
Variables (mulA mulAT : list F -> res (list F)) (rows cols : nat).

(* pinned code:  let bnrm: f64; let mut err: f64 = 1.0; ... (itol branches) ...
   let mut rho_2 = 1.0; while iter < max_iter { ... }  -- the three lines of the fix are absent *)
Definition solve_bicg_legacy (itol : nat) (b x : list F) (max_iter : nat) (tol : F) : res (iout A) :=
  let* st := bicg_start mulA rows cols itol b x in
  let '(r, bnrm, z) := st in
  iloop (bicg_body mulA mulAT rows itol tol bnrm) (bicg_final itol) max_iter 1
        (mkBI x r r z (zeros rows) (zeros rows) (zeros rows) one one (trace0 x one tol)).
End Legacy.

Definition legacy_s : sparse AF := @mkS AF 2 2 2 [2; 3]%float [0; 1] [0; 1; 2].   (* diag(2,3) *)
Definition legacy_tol : float := Z.ldexp 1%float (-26)%Z.

(* what the pinned implementation did on the committed witness corpus/C09/bicg_exact_guess_bicg1.json *)
Definition is_err_nan_x_nan (o : res (iout SAF)) : bool :=
  match o with
  | Ok (IErr e, [x1; x2], _) => (PrimFloat.is_nan e && PrimFloat.is_nan x1 && PrimFloat.is_nan x2)%bool
  | _ => false
  end.

Lemma bicg_legacy_refuted :
  is_err_nan_x_nan (@solve_bicg_legacy SAF (sp_mul legacy_s) (sp_tmul legacy_s) 2 2 1
                      [2; 3]%float [1; 1]%float 10 legacy_tol) = true.
Proof. vm_compute. reflexivity. Qed.

(* ... and the same for the second error measure, and for a zero right-hand side with a zero guess *)
Lemma bicg_legacy_refuted_itol2 :
  is_err_nan_x_nan (@solve_bicg_legacy SAF (sp_mul legacy_s) (sp_tmul legacy_s) 2 2 2
                      [2; 3]%float [1; 1]%float 10 legacy_tol) = true.
Proof. vm_compute. reflexivity. Qed.
Lemma bicg_legacy_refuted_zero_rhs :
  is_err_nan_x_nan (@solve_bicg_legacy SAF (sp_mul legacy_s) (sp_tmul legacy_s) 2 2 1
                      [0; 0]%float [0; 0]%float 10 legacy_tol) = true.
Proof. vm_compute. reflexivity. Qed.

(* the repaired model on the same inputs: Ok 0, x untouched *)
Lemma bicg_repaired_on_witness :
  ok_k (@solve_bicg SAF (sp_mul legacy_s) (sp_tmul legacy_s) 2 2 1 [2; 3]%float [1; 1]%float 10 legacy_tol) = Some 0 /\
  out_x (@solve_bicg SAF (sp_mul legacy_s) (sp_tmul legacy_s) 2 2 1 [2; 3]%float [1; 1]%float 10 legacy_tol) = Some [1; 1]%float /\
  ok_k (@solve_bicg SAF (sp_mul legacy_s) (sp_tmul legacy_s) 2 2 1 [0; 0]%float [0; 0]%float 10 legacy_tol) = Some 0.
Proof. repeat split; vm_compute; reflexivity. Qed.
