(* Legacy/Refuted.v -- stub, to be filled in *)
