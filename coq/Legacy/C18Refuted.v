(* Legacy/C18Refuted.v -- the finite-difference Jacobian built on the PRE-REPAIR column setter
   (set_col_legacy of Model/Matrix.v: range guard `rows <= col` instead of `cols <= col`, /repo
   before commit a02855f) is refuted by a map R^3 -> R^1: the 1 x 3 Jacobian needs columns 1 and 2,
   which the legacy guard rejects because the matrix has a single row.  The witness is
   corpus/C18/jacobian_3to1_set_col_guard.json (run at Qc here, at f64 by the check). *)
From Coq Require Import List Arith ZArith QArith Qcanon.
From OV Require Import Base.Panic Base.Arith Model.Vector Model.Matrix Model.Newton Inst.QcInst.
Import ListNotations.

Section Legacy.
Context (O : NOps).
Notation A := (NA O).

(* jac_body / jacobian_tr / jacobian of Model/Newton.v with set_col replaced by set_col_legacy *)
Definition jac_body_legacy (f : list A -> res (list A)) (f0 : list A) (d : A) (i : nat)
    (s : list A * matrix A * list (list A)) : res (list A * matrix A * list (list A)) :=
  let '(state, jac, evs) := s in
  let* xi := rd state i in
  let* state1 := upd state i (add xi d) in
  let* fnew := f state1 in
  let* xi1 := rd state1 i in
  let* state2 := upd state1 i (sub xi1 d) in
  let* diff := vsub fnew f0 in
  let* col := vdiv diff d in
  let* jac' := set_col_legacy jac i col in
  Ok (state2, jac', evs ++ [state1]).

Definition jacobian_legacy (f : list A -> res (list A)) (point : list A) (d : A)
    : res (matrix A * list (list A)) :=
  let n := length point in
  let* f0 := f point in
  let m := length f0 in
  let* r := for_ 0 n (jac_body_legacy f f0 d) (point, mat_new m n zero, [point]) in
  Ok (snd (fst r), snd r).
End Legacy.

(* f(x) = 1/2 + x0 + 2 x1 + 3 x2  at (1, 2, 3), delta = 2^-10 *)
Definition f31 (v : list AQ) : res (list AQ) :=
  let* a := rd v 0 in let* b := rd v 1 in let* c := rd v 2 in
  Ok [(q 1 2 + a + q 2 1 * b + q 3 1 * c)%Qc].
Definition x31 : list AQ := [q 1 1; q 2 1; q 3 1].
Definition d31 : AQ := q 1 1024.

(* (Qc values are compared through their reduced fraction [this]: the canonicity proofs inside
   a computed Qc are not syntactically those of a literal) *)
Lemma jacobian_legacy_refuted :
  jacobian_legacy (NReal AQ) f31 x31 d31 = Panic Guard /\
  exists J evs, jacobian (NReal AQ) f31 x31 d31 = Ok (J, evs) /\
                rows J = 1%nat /\ cols J = 3%nat /\ map this (buf J) = [1#1; 2#1; 3#1]%Q.
Proof.
  split; [vm_compute; reflexivity|].
  do 2 eexists. split; [vm_compute; reflexivity|]. vm_compute. auto.
Qed.
