(* Legacy/C10Refuted.v -- the pre-repair variants of the two C10 defects, refuted by vm_compute on the
   committed witnesses (corpus/C10/fixed_quadratic_x2.json, corpus/C10/fixed_cubic_x3_plus_i.json).
   The oracle tables are the libm calls recorded from the implementation (pre-repair tree for the
   legacy run, repaired tree for the repaired run) by the cfg(ohsl_verif) hook.

   1. fix 1e066e6: quadratic_solve divided c / q with q = 0 when b = c = 0: roots(x^2) = [-0, NaN].
   2. fix eb1fb9c: cubic_solve chose the sign of `base` by `d1 < Cmplx::zero()` (lexicographic order);
      for x^3 + i  (d0 = 0, d1 = 27i, sqrt(-729 - 0i) = -27i) that is the cancelling combination:
      k ~ 9e-6 and the three values returned are ~3e-6 instead of the cube roots of -i. *)
From Coq Require Import List Bool ZArith Floats.
From OV Require Import Base.Panic Base.Arith Model.Complex Inst.FloatInst Model.Roots.
Import ListNotations.
Local Open Scope float_scope.

(* ---------- 1. x^2 ---------- *)
Definition tbl_x2 : list float := [0x0.0p+0; 0x0.0p+0; 0x0.0p+0; 0x0.0p+0; 0x0.0p+0; 0x0.0p+0; 0x0.0p+0].   (* sqrt(0+0i) = 0+0i *)
Definition c1 : cplx AF := @mkC AF 1 0.
Definition c0 : cplx AF := @mkC AF 0 0.

Definition is_nan (x : float) : bool := negb (PrimFloat.eqb x x).

Lemma quadratic_legacy_refuted :
  exists r0 r1,
    quadratic_solve_gen (FloatRA tbl_x2) false c1 c0 c0 = Ok [r0; r1] /\
    is_nan (re r1) = true /\ is_nan (im r1) = true.
Proof. eexists; eexists; split; [vm_compute; reflexivity | split; vm_compute; reflexivity]. Qed.

(* the repaired branch returns the double root -0 twice *)
Lemma quadratic_repaired_x2 :
  exists r0, quadratic_solve (FloatRA tbl_x2) c1 c0 c0 = Ok [r0; r0] /\
    PrimFloat.eqb (re r0) 0 = true /\ PrimFloat.eqb (im r0) 0 = true.
Proof. eexists; split; [vm_compute; reflexivity | split; vm_compute; reflexivity]. Qed.

(* ---------- 2. x^3 + i ---------- *)
Definition ci : cplx AF := @mkC AF 0 1.
(* recorded on the pre-repair tree: sqrt(-729 - 0i) = 1.65e-15 - 27i ; pow((8.27e-16 + 0i), 1/3) = 9.39e-6 *)
Definition tbl_x3i_legacy : list float :=
  [0x0.0p+0; (-0x1.6c80000000000p+9); (-0x0.0p+0); 0x0.0p+0; 0x0.0p+0; 0x1.dc86076325b4cp-50; (-0x1.b000000000000p+4);
   0x1.0000000000000p+0; 0x1.dc86076325b4cp-51; 0x0.0p+0; 0x1.5555555555555p-2; 0x0.0p+0; 0x1.3ae944114a869p-17; 0x0.0p+0].
(* recorded on the repaired tree: the same sqrt ; pow((-8.27e-16 + 27i), 1/3) = 2.598 + 1.5i *)
Definition tbl_x3i : list float :=
  [0x0.0p+0; (-0x1.6c80000000000p+9); (-0x0.0p+0); 0x0.0p+0; 0x0.0p+0; 0x1.dc86076325b4cp-50; (-0x1.b000000000000p+4);
   0x1.0000000000000p+0; (-0x1.dc86076325b4cp-51); 0x1.b000000000000p+4; 0x1.5555555555555p-2; 0x0.0p+0; 0x1.4c8dc2e423980p+1; 0x1.7ffffffffffffp+0].

Definition cabs (z : cplx AF) : float := PrimFloat.sqrt (@abs_sqr AF z).
(* |z^3 + i| *)
Definition resid (z : cplx AF) : float := cabs (@cadd AF (@cmul AF (@cmul AF z z) z) ci).

(* every cube root of -i has modulus 1; the legacy code returns three values of modulus < 1e-5,
   at which |z^3 + i| > 0.99 *)
Lemma cubic_sign_legacy_refuted :
  exists r0 r1 r2,
    cubic_solve_gen (FloatRA tbl_x3i_legacy) false c1 c0 c0 ci = Ok [r0; r1; r2] /\
    forallb (fun r => PrimFloat.ltb (cabs r) 0x1p-16 && PrimFloat.ltb 0x1.fp-1 (resid r)) [r0; r1; r2] = true.
Proof. do 3 eexists; split; [vm_compute; reflexivity | vm_compute; reflexivity]. Qed.

(* the repaired sign test returns the three cube roots of -i to a few ulps *)
Lemma cubic_repaired_x3_plus_i :
  exists r0 r1 r2,
    cubic_solve (FloatRA tbl_x3i) c1 c0 c0 ci = Ok [r0; r1; r2] /\
    forallb (fun r => PrimFloat.ltb (resid r) 0x1p-50) [r0; r1; r2] = true.
Proof. do 3 eexists; split; [vm_compute; reflexivity | vm_compute; reflexivity]. Qed.
