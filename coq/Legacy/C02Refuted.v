(* Legacy/C02Refuted.v -- the pre-repair determinant (lu_gen false: no skip of a zero pivot column,
   src/matrix/solve.rs before the fix: commit) is refuted by the committed witnesses of corpus/C02/:
   on the all-ones 3x3 matrix the second pivot column is zero and the elimination divides 0/0
   (exact types panic, floats give NaN); the repaired determinant returns 0 on the same inputs. *)
From Coq Require Import List ZArith QArith Qcanon.
From OV Require Import Base.Panic Base.Arith Inst.QcInst Model.Vector Model.Matrix Model.Solve.
Import ListNotations.

Definition ones3 : matrix AQ := @mkM AQ [q 1 1; q 1 1; q 1 1;  q 1 1; q 1 1; q 1 1;  q 1 1; q 1 1; q 1 1] 3 3.
Definition zeros2 : matrix AQ := @mkM AQ [q 0 1; q 0 1;  q 0 1; q 0 1] 2 2.

Lemma determinant_legacy_refuted :
  determinant_legacy ones3 = Panic DivZero /\ determinant ones3 = Ok (q 0 1).
Proof. split; vm_compute; reflexivity. Qed.

Lemma determinant_legacy_zeros_refuted :
  determinant_legacy zeros2 = Panic DivZero /\ determinant zeros2 = Ok (q 0 1).
Proof. split; vm_compute; reflexivity. Qed.

(* the same witness in the float instance: NaN before the repair, 0 after *)
From Coq Require Import Floats.
From OV Require Import Inst.FloatInst.
Definition ones3f : matrix AF := @mkM AF [1; 1; 1;  1; 1; 1;  1; 1; 1]%float 3 3.
Lemma determinant_legacy_float_refuted :
  (match determinant_legacy ones3f with Ok d => PrimFloat.is_nan d | Panic _ => false end) = true /\
  (match determinant ones3f with Ok d => PrimFloat.eqb d 0%float | Panic _ => false end) = true.
Proof. split; vm_compute; reflexivity. Qed.
