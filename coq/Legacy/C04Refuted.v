(* Legacy/C04Refuted.v -- the pre-repair pivot rule of Banded::decompose (before commit 2fe46f5:
   `if au[(j,0)] > dum` on signed values, and `dum = au[(i,0)] / au[(k,0)]` unconditionally) is the
   variant [legacy = true] of Model/Banded.v.  The committed witnesses (corpus/C04/pivot_signed_*.json)
   separate it from the repaired code; every statement is closed by evaluation. *)
From Coq Require Import List ZArith Floats QArith Qcanon.
From OV Require Import Base.Panic Base.Arith Model.Vector Model.Matrix Model.Banded Inst.QcInst Inst.FloatInst.
Import ListNotations.
Local Open Scope nat_scope.

(* [[-1,1],[0,1]] as a band with m1 = m2 = 1 (padding 77, -13) *)
Definition wit_q : banded AQ :=
  @mkB AQ 2 1 1 (@mkM AQ [q 77 1; q (-1) 1; q 1 1;  q 0 1; q 1 1; q (-13) 1] 2 3).
(* [[-2,1],[1e-20,1]] over binary64; 0x1.79ca10c924223p-67 is the double nearest to 1e-20 *)
Definition wit_f : banded AF :=
  @mkB AF 2 1 1 (@mkM AF [77%float; (-2)%float; 1%float;  0x1.79ca10c924223p-67%float; 1%float; (-13)%float] 2 3).

(* exact arithmetic: the signed comparison prefers the zero entry (0 > -1) and divides by it *)
Lemma band_pivot_legacy_refuted_exact :
  @band_solve_legacy AQ wit_q [q 0 1; q 1 1] = Panic DivZero /\
  @band_solve AQ wit_q [q 0 1; q 1 1] = Ok [q 1 1; q 1 1].
Proof. split; vm_compute; reflexivity. Qed.

(* binary64: the signed comparison prefers 1e-20 to -2; the answer [0,1] is not a solution ([1,1] is) *)
Lemma band_pivot_legacy_refuted_float :
  @band_solve_legacy AF wit_f [(-1)%float; 1%float] = Ok [0%float; 1%float] /\
  @band_solve AF wit_f [(-1)%float; 1%float] = Ok [1%float; 1%float].
Proof. split; vm_compute; reflexivity. Qed.

Lemma band_pivot_legacy_refuted :
  @band_solve_legacy AQ wit_q [q 0 1; q 1 1] = Panic DivZero /\
  @band_solve AQ wit_q [q 0 1; q 1 1] = Ok [q 1 1; q 1 1] /\
  @band_solve_legacy AF wit_f [(-1)%float; 1%float] = Ok [0%float; 1%float] /\
  @band_solve AF wit_f [(-1)%float; 1%float] = Ok [1%float; 1%float].
Proof.
  destruct band_pivot_legacy_refuted_exact as (H1 & H2). destruct band_pivot_legacy_refuted_float as (H3 & H4).
  repeat split; assumption.
Qed.

(* the determinant goes the same way: -1 for [[-1,1],[0,1]], the legacy rule divides 0/0 first *)
Lemma band_det_legacy_refuted :
  @band_det_legacy AQ wit_q = Panic DivZero /\ @band_det AQ wit_q = Ok (q (-1) 1).
Proof. split; vm_compute; reflexivity. Qed.

(* on positive bands (all that the crate's own tests use) the two rules coincide *)
Example band_legacy_agrees_on_positive_band :
  let B := @mkB AQ 3 1 1 (@mkM AQ [q 7 1; q 2 1; q 1 1;  q 1 1; q 2 1; q 1 1;  q 1 1; q 2 1; q 9 1] 3 3) in
  @band_solve_legacy AQ B [q 1 1; q 2 1; q 3 1] = @band_solve AQ B [q 1 1; q 2 1; q 3 1].
Proof. vm_compute. reflexivity. Qed.
