(* Legacy/C05Refuted.v -- the pre-repair `&Tridiagonal * &Vector` (before /repo commit 1f8b278):
   no n = 1 branch, so the first-row statement reads sup[0] (and vec[1]) of a 1x1 matrix.
   [tmul_legacy] is [tmul_gen false] in Model/Tridiag.v: the same text as the repaired function
   minus the branch.  The witness is corpus/C05/mul_n1_rat.json. *)
From Coq Require Import List ZArith QArith Qcanon.
From OV Require Import Base.Panic Base.Arith Base.Flat Model.Vector Model.Matrix Model.Tridiag Inst.QcInst Proofs.Tridiag.
Import ListNotations.
Local Open Scope nat_scope.

Definition witness : tridiag AQ := @mkT AQ [] [q 3 2] [] 1.

Lemma witness_wf : wfT witness /\ 1 <= tn witness.
Proof. unfold wfT; cbn; auto. Qed.

(* the pinned code panics with a Vec bounds failure on a well-formed 1x1 input ... *)
Lemma tridiag_mul_legacy_refuted :
  exists (t : tridiag AQ) (v : list AQ), wfT t /\ 1 <= tn t /\ length v = tn t /\
    tmul_legacy t v = Panic Index.
Proof. exists witness, ([q (-4) 1] : list AQ). repeat split; cbn; auto. Qed.

(* ... where the repaired code returns [main[0] * v[0]] *)
Lemma tridiag_mul_repaired_on_witness :
  fl_res (fl_list flat_q) (tmul witness ([q (-4) 1] : list AQ)) = [0; 1; 2; -6; 1]%Z.
Proof. vm_compute. reflexivity. Qed.

(* not only on the witness: the pinned code panics on EVERY well-formed 1x1 input, over any arithmetic *)
Lemma tridiag_mul_legacy_panics_on_every_1x1 (A : Arith) (t : tridiag A) (v : list A) :
  wfT t -> tn t = 1 -> length v = 1 -> tmul_legacy t v = Panic Index.
Proof.
  intros (Hm & Hs & Hp) N L. unfold tmul_legacy, tmul_gen, tsize. rewrite N, L in *. cbn [Nat.eqb negb andb].
  destruct (tmain t) as [|m0 [|? ?]]; try discriminate.
  destruct v as [|v0 [|? ?]]; try discriminate.
  destruct (tsup t); [|discriminate]. reflexivity.
Qed.
