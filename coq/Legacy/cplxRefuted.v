(* Legacy/cplxRefuted.v -- C13 has no repaired defect (the pinned code is correct); DESIGN Appendix D names the
   realistic mutation "mul_assign reading the overwritten real part".  That variant is kept in the model
   (cmul_assign_stale) only to show that the theorem assign_eq_binary distinguishes it: it is NOT the product. *)
From Coq Require Import List ZArith QArith Qcanon.
From OV Require Import Base.Panic Base.Arith Model.Complex Inst.QcInst.

(* (-1 - i) * (-1 + 2i) = 3 - i ; the stale variant answers 3 + 7i  (corpus/C13/mul_assign_old_real_part.json) *)
Lemma cmul_assign_stale_refuted :
  exists z w : cplx AQ, cmul_assign_stale z w <> cmul z w /\ cmul_assign z w = cmul z w.
Proof.
  exists (mkC (q (-1) 1 : AQ) (q (-1) 1 : AQ)), (mkC (q (-1) 1 : AQ) (q 2 1 : AQ)).
  split; [intros H; vm_compute in H; discriminate H | vm_compute; reflexivity].
Qed.
