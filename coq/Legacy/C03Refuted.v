(* Legacy/C03Refuted.v -- the pre-repair column setter (operations.rs:71 before fix a02855f compared the
   column index with the number of ROWS) and the product built on it, with witnesses that the C03
   theorems (mat_mul_spec, set_col_spec) are false for them.  [set_col_legacy] itself is kept in
   Model/Matrix.v; the witnesses are the committed corpus cases corpus/C03/set_col_guard_*.json. *)
From Coq Require Import List Arith ZArith QArith Qcanon.
From OV Require Import Base.Panic Base.Arith Model.Vector Model.Matrix Inst.QcInst Proofs.Matrix.
Import ListNotations.
Local Open Scope nat_scope.

(* &a * &b as it was: the same loop, through the legacy setter *)
Definition mat_mul_legacy {A : Arith} (a b : matrix A) : res (matrix A) :=
  if negb (cols a =? rows b) then Panic Guard else
  for_ 0 (cols b) (fun col s =>
     let* bc := get_col b col in
     let* v := multiply a bc in
     set_col_legacy s col v) (mat_new (rows a) (cols b) zero).

Definition a23 : matrix AQ := mkM (A:=AQ) [q 1 1; q 2 1; q 3 1; q 4 1; q 5 1; q 6 1] 2 3.
Definition b35 : matrix AQ :=
  mkM (A:=AQ) [q 1 1; q 0 1; q 2 1; q (-1) 1; q 1 2;  q 0 1; q 1 1; q 3 1; q 2 1; q (-2) 1;  q 4 1; q 1 1; q 0 1; q 1 1; q 1 1] 3 5.

(* a conformable 2x3 . 3x5 product: the legacy code panics (column 2 is "out of range" because rows = 2),
   the repaired code returns the product -- mat_mul_spec cannot hold for mat_mul_legacy *)
Lemma mat_mul_legacy_refuted :
  exists a b : matrix AQ, wf a /\ wf b /\ cols a = rows b /\
    mat_mul_legacy a b = Panic Guard /\ is_ok (mat_mul a b) = true.
Proof. exists a23, b35. vm_compute. repeat split; reflexivity. Qed.

Definition m42 : matrix AQ := mkM (A:=AQ) [q 1 1; q 2 1; q 3 1; q 4 1; q 5 1; q 6 1; q 7 1; q 8 1] 4 2.
Definition v4 : list AQ := [q 9 1; q 9 1; q 9 1; q 9 1].

(* 4x2 matrix, col = 2 (out of range, but < rows): the legacy guard lets the loop start; its first
   iteration stores v[0] at flat offset 0*2+2, i.e. over element (1,0); the call then dies with an
   index panic (offset 8) instead of the documented range panic.  The repaired setter refuses at once. *)
Lemma set_col_legacy_writes_neighbour :
  exists (m : matrix AQ) (v : list AQ), wf m /\ rows m = 4 /\ cols m = 2 /\ length v = rows m /\
    set_col_legacy m 2 v = Panic Index /\
    set_col m 2 v = Panic Guard /\
    exists m1, for_ 0 1 (fun i s => let* x := rd v i in mset s i 2 x) m = Ok m1 /\
               Qc_eqb (entry m1 1 0) (nth 0 v zero) = true /\ Qc_eqb (entry m1 1 0) (entry m 1 0) = false.
Proof.
  exists m42, v4. repeat split; try reflexivity.
  eexists. split; [vm_compute; reflexivity|]. split; vm_compute; reflexivity.
Qed.
