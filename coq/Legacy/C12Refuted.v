(* Legacy/C12Refuted.v -- Polynomial::polydiv as it was BEFORE the repair e504d5d (fixed finding #7):
   the loop relied on the remainder's leading coefficient cancelling to exactly zero so that trim
   would lower the degree.  Same body as Model/Poly.v minus the two repaired lines
       let lead = r.coeffs.len() - 1;  r.coeffs[ lead ] = T::zero();
   The witness lemma runs the FLOAT instance inside Coq (vm_compute on primitive floats is bit-exact
   IEEE-754): x / 49x meets every hypothesis of polydiv_terminates_any_arith and still runs into the
   iteration cap, because 1/49*49 <> 1 in binary64; the repaired function returns Ok on the same input. *)
From Coq Require Import List Arith Bool Floats.
From OV Require Import Base.Panic Base.Arith gen.Params Model.Poly Inst.FloatInst.
Import ListNotations.

Section Legacy.
Context {A : Arith}.

Definition polydiv_body_legacy (q r v : list A) : res (list A * list A) :=
  let dr := (length r - 1)%nat in let dv := (length v - 1)%nat in
  let* rl := rd r dr in
  let* vl := rd v dv in
  let* c := div rl vl in
  let t := repeat zero (dr - dv) ++ [c] in
  let q := padd q t in
  let r := psub r (pmul t v) in
  let* r := ptrim r in
  let* q := ptrim q in
  Ok (q, r).

Fixpoint polydiv_loop_legacy (fuel count : nat) (q r v : list A) : res (list A * list A + pderr) :=
  if is_zero r || (length r <? length v) then Ok (inl (q, r)) else
  match fuel with
  | 0 => Ok (inr EMaxIter)
  | S fuel' =>
      let* qr := polydiv_body_legacy q r v in
      let count := S count in
      if POLYDIV_MAX <? count then Ok (inr EMaxIter)
      else polydiv_loop_legacy fuel' count (fst qr) (snd qr) v
  end.

Definition polydiv_legacy (u v : list A) : res (list A * list A + pderr) :=
  if (length v =? 0) then Ok (inr EZeroDiv) else
  if is_zero v then Ok (inr EZeroDiv) else
  polydiv_loop_legacy (S POLYDIV_MAX) 0 [] u v.

End Legacy.

(* u = x, v = 49x over binary64 *)
Definition legacy_u : list AF := [0%float; 1%float].
Definition legacy_v : list AF := [0%float; 49%float].

Lemma polydiv_legacy_refuted :
  exists u v : list AF,
    v <> [] /\ is_zero v = false /\ eqb (last v zero) zero = false /\ length u <= POLYDIV_MAX /\
    polydiv_legacy u v = Ok (inr EMaxIter) /\
    exists q r, polydiv u v = Ok (inl (q, r)).
Proof.
  exists legacy_u, legacy_v.
  split; [discriminate|]. split; [reflexivity|]. split; [reflexivity|].
  split; [apply Nat.leb_le; vm_compute; reflexivity|].
  split; [vm_compute; reflexivity|].
  eexists; eexists. vm_compute. reflexivity.
Qed.

(* the second committed witness: (x^2 + 2x + 1) / (49x + 1) *)
Lemma polydiv_legacy_refuted_2 :
  @polydiv_legacy AF [1%float; 2%float; 1%float] [1%float; 49%float] = Ok (inr EMaxIter) /\
  exists q r, @polydiv AF [1%float; 2%float; 1%float] [1%float; 49%float] = Ok (inl (q, r)) /\ length r = 1.
Proof.
  split; [vm_compute; reflexivity|].
  eexists; eexists. split; vm_compute; reflexivity.
Qed.

Definition witness2_u : list AF := [1%float; 2%float; 1%float].
Definition witness2_v : list AF := [1%float; 49%float].
Lemma any_arith_hyps_hold_on_witness2 :
  eqb (@zero AF) zero = true /\ (forall x y : AF, eqb y zero = false -> exists z, div x y = Ok z) /\
  witness2_v <> [] /\ is_zero witness2_v = false /\
  eqb (last witness2_v zero) zero = false /\ length witness2_u <= POLYDIV_MAX.
Proof.
  split; [reflexivity|]. split; [intros x y _; eexists; reflexivity|]. split; [discriminate|].
  split; [reflexivity|]. split; [reflexivity|]. apply Nat.leb_le. vm_compute. reflexivity.
Qed.
