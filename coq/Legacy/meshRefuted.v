(* Legacy/meshRefuted.v -- C19 has no repaired defect (the pinned mesh code satisfies the property),
   so there is no pre-repair variant to keep.  Instead, the realistic wrong variants of DESIGN
   Appendix D are written down next to the model functions they would replace, each with a
   `..._refuted` lemma: a concrete small input (evaluated by vm_compute over Qc) on which the
   conclusion of the corresponding property theorem of Props/C19.v FAILS for the variant.
   They document that the theorems distinguish the code as written from its plausible mutants. *)
From Coq Require Import List Arith Bool ZArith QArith Qcanon.
From OV Require Import Base.Panic.
From OV Require Import Base.Arith.
From OV Require Import Model.Vector.
From OV Require Import Model.Matrix.
From OV Require Import Model.Mesh.
From OV Require Import Inst.QcInst.
Import ListNotations.
Local Open Scope nat_scope.

(* a 2 x 3 grid, one variable, node (i,j) holding 10*i + j, built with the model's own writes *)
Definition grid23 : res (mesh2 AQ nat) :=
  let m := mesh2_new (A:=AQ) [0; 1] [0; 1; 2] 1 in
  let* m := set_nodes_vars2 m 0 0 [q 0 1] in
  let* m := set_nodes_vars2 m 0 1 [q 1 1] in
  let* m := set_nodes_vars2 m 0 2 [q 2 1] in
  let* m := set_nodes_vars2 m 1 0 [q 10 1] in
  let* m := set_nodes_vars2 m 1 1 [q 11 1] in
  set_nodes_vars2 m 1 2 [q 12 1].

(* ---- variant 1: the getter indexes i*nx + j ------------------------------------------------ *)
Definition get_nodes_vars2_nx {A : Arith} {X} (m : mesh2 A X) (i j : nat) : res (list A) :=
  let* _ := range_guard2 m i j in
  rd (m2_vars m) (i * m2_nx m + j).

(* mesh2_get_set: after set (1,0) := 10 the getter must return it; the variant returns node (0,2) *)
Lemma get_nodes_vars2_nx_refuted :
  exists m v, grid23 = Ok m /\ set_nodes_vars2 m 1 0 v = Ok m /\ get_nodes_vars2_nx m 1 0 <> Ok v /\
              get_nodes_vars2 m 1 0 = Ok v.
Proof.
  destruct grid23 as [m|] eqn:E; [|discriminate E].
  exists m, [q 10 1]. vm_compute in E. injection E as <-.
  split; [reflexivity|]. split; [vm_compute; reflexivity|].
  split; [vm_compute; discriminate|vm_compute; reflexivity].
Qed.

(* ---- variant 2: cross_section_xnode built on the x nodes and read along x ------------------ *)
Definition cross_section_xnode_swapped {A : Arith} {X} (m : mesh2 A X) (nodex : nat) : res (mesh1 A X) :=
  for_ 0 (m2_nx m) (fun k s =>
     let* v := get_nodes_vars2 m k nodex in set_nodes_vars1 s k v)
    (mesh1_new (m2_x m) (m2_nvars m)).

(* cross_section_xnode_spec: nodes of the section = y nodes, entry j = node (i,j) *)
Lemma cross_section_xnode_swapped_refuted :
  exists m, grid23 = Ok m /\
    (forall s, cross_section_xnode_swapped m 1 = Ok s -> m1_nodes s <> m2_y m) /\
    (exists s, cross_section_xnode m 1 = Ok s /\ m1_nodes s = m2_y m /\
               get_nodes_vars1 s 2 = get_nodes_vars2 m 1 2).
Proof.
  destruct grid23 as [m|] eqn:E; [|discriminate E].
  exists m. vm_compute in E. injection E as <-.
  split; [reflexivity|]. split.
  - intros s Hs. vm_compute in Hs. injection Hs as <-. vm_compute. discriminate.
  - eexists. split; [vm_compute; reflexivity|]. split; vm_compute; reflexivity.
Qed.

(* ---- variant 3: 2-D trapezium with weight 1/2 ---------------------------------------------- *)
(* trapezium2_bilinear_exact: the constant 1 on [0,2] x [0,3] integrates to 6 *)
Definition ones23 : mesh2 AQ Qc :=
  @mkM2 AQ Qc 1 2 2 [q 0 1; q 2 1] [q 0 1; q 3 1] [[q 1 1]; [q 1 1]; [q 1 1]; [q 1 1]].
Lemma trapezium2_half_weight_refuted :
  trapezium2 (A:=AQ) (q 1 2) ones23 0 <> Ok (q 6 1) /\ trapezium2 (A:=AQ) (q 1 4) ones23 0 = Ok (q 6 1).
Proof. split; [vm_compute; discriminate|vm_compute; reflexivity]. Qed.

(* ---- variant 4: the reader dispatches on nvars tokens per line ----------------------------- *)
Definition read1_nv {A : Arith} (tok : Type) (parse : tok -> res A) (m : mesh1 A A) (toks : list tok) : res (mesh1 A A) :=
  let nv := m1_nvars m in
  let* nodes :=
    for_ 0 (length toks) (fun i nodes =>
      if i mod nv =? 0 then
        let* t := rd toks i in let* x := parse t in Ok (nodes ++ [x])
      else Ok nodes) [] in
  let vars0 := resize_list (m1_vars m) (length nodes) (repeat zero nv) in
  let* vars :=
    for_ 0 (length toks) (fun i vars =>
      for_ 0 nv (fun var vars =>
        if i mod (nv + 1) =? var + 1 then
          let* t := rd toks i in let* x := parse t in
          set_elem vars (i / (nv + 1)) var x
        else Ok vars) vars) vars0 in
  Ok (mkM1 nv nodes vars).

(* read_layout_roundtrip: write a 2-node, 2-variable mesh and read it back *)
Definition io22 : mesh1 AQ Qc := @mkM1 AQ Qc 2 [q 0 1; q 1 2] [[q 1 1; q 2 1]; [q 3 1; q 4 1]].
Lemma read1_nv_refuted :
  (let* lines := @output1 AQ Qc Qc (fun x => x) (fun x => x) io22 in
   @read1_nv AQ Qc (fun t => Ok t) (mesh1_new [] 2) (concat lines)) <> Ok io22 /\
  (let* lines := @output1 AQ Qc Qc (fun x => x) (fun x => x) io22 in
   @read1 AQ Qc (fun t => Ok t) (mesh1_new [] 2) (concat lines)) = Ok io22.
Proof. split; [vm_compute; discriminate|vm_compute; reflexivity]. Qed.

(* ---- variant 5: the interval search without its right-node clause -------------------------- *)
(* (interp_at_node at the LAST node: no cell matches, zeros are returned)  exact arithmetic Qc *)
Definition in_cell_noright {A : Arith} (snap xl xr x : A) : bool :=
  (ltb xl x && gtb xr x) || ltb (abs (sub xl x)) snap.
Definition interp1_noright {A : Arith} (snap : A) (m : mesh1 A A) (x : A) : res (list A) :=
  let* n1 := usub (length (m1_nodes m)) 1 in
  for_ 0 n1 (fun node result =>
    let* xl := rd (m1_nodes m) node in
    let* xr := rd (m1_nodes m) (node + 1) in
    if in_cell_noright snap xl xr x then cell_line m node xl xr x else Ok result)
    (repeat zero (m1_nvars m)).
Definition im3 : mesh1 AQ Qc := @mkM1 AQ Qc 1 [q 0 1; q 1 1; q 3 1] [[q 5 1]; [q 7 1]; [q 11 1]].
Lemma interp1_noright_refuted :
  interp1_noright (A:=AQ) (q 1 10000000) im3 (q 3 1) <> Ok [q 11 1] /\
  interp1 (A:=AQ) (q 1 10000000) im3 (q 3 1) = Ok [q 11 1].
Proof. split; [vm_compute; discriminate|vm_compute; reflexivity]. Qed.
