(* Legacy/c01Refuted.v -- C01 has no pre-repair variant (no defect of the dense solvers was found), so
   there is no legacy function to refute.  Instead, two *mutants* of solve_basic (the edits DESIGN
   Appendix D says a check of C01 must catch) are written out as models, and concrete witnesses show
   that the conclusions of solve_basic_sound / solve_basic_complete FAIL for them: the theorems of
   Props/C01.v do distinguish the code as written from its near neighbours.  Witnesses by vm_compute. *)
From Coq Require Import List Arith ZArith Lia.
From OV Require Import Base.Panic Base.Arith Base.Flat Model.Vector Model.Matrix Model.Solve Inst.QcInst
  Proofs.Matrix Proofs.SolveBase.
Import ListNotations.

Section Mutants.
Context {A : Arith}.

(* mutant 1: the right-hand side is not exchanged together with the matrix rows *)
Definition partial_pivot_noxswap (m : matrix A) (x : list A) (k : nat) : res (matrix A * list A) :=
  let* p := max_abs_in_column m k k in
  let* m' := swap_rows m p k in
  Ok (m', x).

(* mutant 2: the pivot search starts below the diagonal (row k itself is never considered) *)
Definition partial_pivot_from_k1 (m : matrix A) (x : list A) (k : nat) : res (matrix A * list A) :=
  let* p := max_abs_in_column m k (k + 1) in
  let* m' := swap_rows m p k in
  let* x' := vswap x p k in
  Ok (m', x').

Definition gauss_gen (pivot : matrix A -> list A -> nat -> res (matrix A * list A))
    (m : matrix A) (x : list A) : res (matrix A * list A) :=
  let* hi := usub (rows m) 1 in
  for_ 0 hi (fun k (s : matrix A * list A) =>
    let '(m, x) := s in
    let* s := pivot m x k in
    for_ (k + 1) (rows (fst s)) (fun i (s : matrix A * list A) =>
      let '(m, x) := s in
      let* aik := mget m i k in
      let* akk := mget m k k in
      let* elem := div aik akk in
      let* m := for_ k (rows m) (fun j m =>
                  let* kj := mget m k j in
                  let* ij := mget m i j in
                  mset m i j (sub ij (mul elem kj))) m in
      let* xk := rd x k in
      let* xi := rd x i in
      let* x := upd x i (sub xi (mul elem xk)) in
      Ok (m, x)) s) (m, x).

Definition solve_gen pivot (m : matrix A) (b : list A) : res (list A) :=
  if negb (rows m =? length b) then Panic Guard else
  if negb (rows m =? cols m) then Panic Guard else
  let* s := gauss_gen pivot m b in
  backsolve (fst s) (snd s).

(* sanity: with the real pivot step the generic solver is solve_basic itself *)
Lemma solve_gen_is_solve_basic (m : matrix A) (b : list A) : solve_gen partial_pivot m b = solve_basic m b.
Proof. reflexivity. Qed.

End Mutants.

(* the 3x3 system of Props/C01.v: zero leading entry, exchanges at steps 0 and 1, solution [1;1;1] *)
Definition M3 : matrix AQ := @mkM AQ [q 0 1; q 2 1; q 2 1;  q 1 1; q 1 1; q 1 1;  q 2 1; q 4 1; q 1 1] 3 3.
Definition b3 : list AQ := [q 4 1; q 3 1; q 7 1].
Definition I3 : matrix AQ := @mkM AQ [q 1 1; q 0 1; q 0 1;  q 0 1; q 1 1; q 0 1;  q 0 1; q 0 1; q 1 1] 3 3.

Definition residual_row (M : matrix AQ) (x b : list AQ) (i : nat) : list Z :=
  flat_q (sub (mvprod (rows M) (ent M) (fun k => nth k x zero) i) (nth i b zero)).

(* mutant 1 returns Ok x with M3 x <> b3 (row 0 has residual 13/6): the conclusion of solve_basic_sound fails *)
Lemma solve_noxswap_refuted :
  exists x, solve_gen partial_pivot_noxswap M3 b3 = Ok x /\
            mvprod (rows M3) (ent M3) (fun k => nth k x zero) 0 <> nth 0 b3 zero.
Proof.
  destruct (solve_gen partial_pivot_noxswap M3 b3) as [x|k] eqn:E; [|vm_compute in E; discriminate].
  exists x. split; [reflexivity|].
  intros H.
  assert (R : match solve_gen partial_pivot_noxswap M3 b3 with
              | Ok x => residual_row M3 x b3 0 | Panic _ => [] end = residual_row M3 x b3 0) by (now rewrite E).
  unfold residual_row at 2 in R. rewrite H in R.
  vm_compute in R. discriminate.
Qed.

(* the unmutated function on the same input: residuals are zero (see solve_basic_sound_nonvacuous) *)
Lemma solve_basic_M3_residual :
  match solve_basic M3 b3 with
  | Ok x => residual_row M3 x b3 0 ++ residual_row M3 x b3 1 ++ residual_row M3 x b3 2 | Panic _ => [] end
  = [2; 0; 1; 2; 0; 1; 2; 0; 1]%Z.
Proof. vm_compute. reflexivity. Qed.

(* mutant 2 panics (zero divisor) on the 3x3 identity, which is its own left inverse:
   the conclusion of solve_basic_complete fails *)
Lemma solve_from_k1_refuted :
  solve_gen partial_pivot_from_k1 I3 [q 1 1; q 2 1; q 3 1] = Panic DivZero /\
  is_ok (solve_basic I3 [q 1 1; q 2 1; q 3 1]) = true.
Proof. split; vm_compute; reflexivity. Qed.
