(* gen/SrcSolve.v -- REGENERATED from the Rust source by driver/translate_src.py (rust2coq) on every check run.
   One definition s_<f> per translated function, in the state-passing style of the hand-written models. *)
From Coq Require Import List Arith ZArith Lia Bool.
From OV Require Import Base.Panic Base.Arith Model.Vector Model.Matrix Model.Solve gen.SrcPrelude.
Import ListNotations.

Section SrcSolve.
Context {A : Arith}.

(* src/matrix/solve.rs : impl < T : Clone + Copy + Number + Signed + std :: cmp :: PartialOrd > Matrix < T > :: fn max_abs_in_column *)
Definition s_max_abs_in_column (self_ : (matrix A)) (col_ : nat) (start_row_ : nat) : res nat :=
  let max_index_ := 0 in
  let max_ := (@zero A) in
  let* (max_index_, max_) := for_ start_row_ (rows self_) (fun i_ (s3 : (nat * (T A))) =>
          let '(max_index_, max_) := s3 in
          let* x1 := mget self_ i_ col_ in
          if (ltb max_ (abs x1))
          then (let* x2 := mget self_ i_ col_ in
               let max_ := (abs x2) in
               let max_index_ := i_ in
               Ok (max_index_, max_))
          else (Ok (max_index_, max_))) (max_index_, max_) in
  Ok max_index_.

(* src/matrix/solve.rs : impl < T : Clone + Copy + Number + Signed + std :: cmp :: PartialOrd > Matrix < T > :: fn backsolve *)
Definition s_backsolve (self_ : (matrix A)) (x_ : (list (T A))) : res (list (T A)) :=
  let* last_ := usub (rows self_) 1 in
  let* x2 := rd x_ last_ in
  let* x3 := mget self_ last_ last_ in
  let* q4 := div x2 x3 in
  let* x_ := upd x_ last_ q4 in
  for_ 2 ((rows self_) + 1)%nat (fun n_ (x_ : (list (T A))) =>
      let* k_ := usub (rows self_) n_ in
      let* d6 := usub (rows self_) n_ in
      let* x_ := for_ (d6 + 1)%nat (rows self_) (fun j_ (x_ : (list (T A))) =>
              let* xj_ := rd x_ j_ in
              let* x8 := rd x_ k_ in
              let* x9 := mget self_ k_ j_ in
              upd x_ k_ (sub x8 (mul x9 xj_))) x_ in
      let* x10 := rd x_ k_ in
      let* x11 := mget self_ k_ k_ in
      let* q12 := div x10 x11 in
      upd x_ k_ q12) x_.

(* src/matrix/solve.rs : impl < T : Clone + Copy + Number + Signed + std :: cmp :: PartialOrd > Matrix < T > :: fn partial_pivot *)
Definition s_partial_pivot (self_ : (matrix A)) (x_ : (list (T A))) (k_ : nat) : res ((matrix A) * (list (T A))) :=
  let* pivot_ := max_abs_in_column self_ k_ k_ in
  let* self_ := swap_rows self_ pivot_ k_ in
  let* x_ := vswap x_ pivot_ k_ in
  Ok (self_, x_).

(* src/matrix/solve.rs : impl < T : Clone + Copy + Number + Signed + std :: cmp :: PartialOrd > Matrix < T > :: fn gauss_with_pivot *)
Definition s_gauss_with_pivot (self_ : (matrix A)) (x_ : (list (T A))) : res ((matrix A) * (list (T A))) :=
  let* d1 := usub (rows self_) 1 in
  for_ 0 d1 (fun k_ (s10 : ((matrix A) * (list (T A)))) =>
      let '(self_, x_) := s10 in
      let* (self_, x_) := partial_pivot self_ x_ k_ in
      for_ (k_ + 1)%nat (rows self_) (fun i_ (s9 : ((matrix A) * (list (T A)))) =>
          let '(self_, x_) := s9 in
          let* x2 := mget self_ i_ k_ in
          let* x3 := mget self_ k_ k_ in
          let* elem_ := div x2 x3 in
          let* self_ := for_ k_ (rows self_) (fun j_ (self_ : (matrix A)) =>
                  let* kj_ := mget self_ k_ j_ in
                  let* x6 := mget self_ i_ j_ in
                  mset self_ i_ j_ (sub x6 (mul elem_ kj_))) self_ in
          let* xk_ := rd x_ k_ in
          let* x8 := rd x_ i_ in
          let* x_ := upd x_ i_ (sub x8 (mul elem_ xk_)) in
          Ok (self_, x_)) (self_, x_)) (self_, x_).

(* src/matrix/solve.rs : impl < T : Clone + Copy + Number + Signed + std :: cmp :: PartialOrd > Matrix < T > :: fn solve_basic *)
Definition s_solve_basic (self_ : (matrix A)) (b_ : (list (T A))) : res (list (T A)) :=
  if (negb ((rows self_) =? (length b_))%nat)
  then (Panic Guard)
  else (if (negb ((rows self_) =? (cols self_))%nat)
       then (Panic Guard)
       else (let x_ := b_ in
            let* (self_, x_) := gauss_with_pivot self_ x_ in
            backsolve self_ x_)).

(* src/matrix/solve.rs : impl < T : Clone + Copy + Number + Signed + std :: cmp :: PartialOrd > Matrix < T > :: fn lu_decomp_in_place *)
Definition s_lu_decomp_in_place (self_ : (matrix A)) : res ((matrix A) * nat * (matrix A)) :=
  if (negb ((rows self_) =? (cols self_))%nat)
  then (Panic Guard)
  else (let pivots_ := 0 in
       let* permutation_ := eye (rows self_) in
       for_ 0 (rows self_) (fun i_ (s10 : ((matrix A) * nat * (matrix A))) =>
           let '(self_, pivots_, permutation_) := s10 in
           let max_a_ := (@zero A) in
           let imax_ := i_ in
           let* (max_a_, imax_) := for_ i_ (rows self_) (fun k_ (s3 : ((T A) * nat)) =>
                   let '(max_a_, imax_) := s3 in
                   let* x2 := mget self_ k_ i_ in
                   let abs_a_ := (abs x2) in
                   if (gtb abs_a_ max_a_)
                   then (let max_a_ := abs_a_ in
                        let imax_ := k_ in
                        Ok (max_a_, imax_))
                   else (Ok (max_a_, imax_))) (max_a_, imax_) in
           let* (self_, pivots_, permutation_) := if (negb (imax_ =? i_)%nat)
               then (let* permutation_ := swap_rows permutation_ i_ imax_ in
                    let* self_ := swap_rows self_ i_ imax_ in
                    let pivots_ := (pivots_ + 1)%nat in
                    Ok (self_, pivots_, permutation_))
               else (Ok (self_, pivots_, permutation_)) in
           if (eqb max_a_ (@zero A))
           then (Ok (self_, pivots_, permutation_))
           else (let* self_ := for_ (i_ + 1)%nat (rows self_) (fun j_ (self_ : (matrix A)) =>
                        let* ii_ := mget self_ i_ i_ in
                        let* x5 := mget self_ j_ i_ in
                        let* q6 := div x5 ii_ in
                        let* self_ := mset self_ j_ i_ q6 in
                        for_ (i_ + 1)%nat (rows self_) (fun k_ (self_ : (matrix A)) =>
                            let* ji_ := mget self_ j_ i_ in
                            let* ik_ := mget self_ i_ k_ in
                            let* x9 := mget self_ j_ k_ in
                            mset self_ j_ k_ (sub x9 (mul ji_ ik_))) self_) self_ in
                Ok (self_, pivots_, permutation_))) (self_, pivots_, permutation_)).

(* src/matrix/solve.rs : impl < T : Clone + Copy + Number + Signed + std :: cmp :: PartialOrd > Matrix < T > :: fn solve_lu *)
Definition s_solve_lu (self_ : (matrix A)) (b_ : (list (T A))) : res (list (T A)) :=
  if (negb ((rows self_) =? (length b_))%nat)
  then (Panic Guard)
  else (if (negb ((rows self_) =? (cols self_))%nat)
       then (Panic Guard)
       else (let x_ := b_ in
            let* (self_, _pivots_, permutation_) := lu_decomp self_ in
            let* x_ := multiply permutation_ x_ in
            let* x_ := for_ 0 (rows self_) (fun i_ (x_ : (list (T A))) =>
                    for_ 0 i_ (fun k_ (x_ : (list (T A))) =>
                        let* xk_ := rd x_ k_ in
                        let* x4 := rd x_ i_ in
                        let* x5 := mget self_ i_ k_ in
                        upd x_ i_ (sub x4 (mul x5 xk_))) x_) x_ in
            backsolve self_ x_)).

(* src/matrix/solve.rs : impl < T : Clone + Copy + Number + Signed + std :: cmp :: PartialOrd > Matrix < T > :: fn determinant *)
Definition s_determinant (self_ : (matrix A)) : res (T A) :=
  let det_ := (@one A) in
  let temp_ := self_ in
  let* (temp_, pivots_, _permutation_) := lu_decomp temp_ in
  let* det_ := for_ 0 (rows self_) (fun i_ (det_ : (T A)) =>
          let* x2 := mget temp_ i_ i_ in
          let det_ := (mul det_ x2) in
          Ok det_) det_ in
  Ok (if ((Nat.modulo pivots_ 2) =? 0)%nat then det_ else (neg det_)).

(* src/matrix/solve.rs : impl < T : Clone + Copy + Number + Signed + std :: cmp :: PartialOrd > Matrix < T > :: fn inverse *)
Definition s_inverse (self_ : (matrix A)) : res (matrix A) :=
  if (negb ((rows self_) =? (cols self_))%nat)
  then (Panic Guard)
  else (let lu_ := self_ in
       let* (lu_, _pivots_, inv_) := lu_decomp lu_ in
       for_ 0 (rows self_) (fun j_ (inv_ : (matrix A)) =>
           let* inv_ := for_ 0 (rows self_) (fun i_ (inv_ : (matrix A)) =>
                   for_ 0 i_ (fun k_ (inv_ : (matrix A)) =>
                       let* inv_kj_ := mget inv_ k_ j_ in
                       let* x3 := mget inv_ i_ j_ in
                       let* x4 := mget lu_ i_ k_ in
                       mset inv_ i_ j_ (sub x3 (mul x4 inv_kj_))) inv_) inv_ in
           for_rev 0 (rows self_) (fun i_ (inv_ : (matrix A)) =>
               let* inv_ := for_ (i_ + 1)%nat (rows self_) (fun k_ (inv_ : (matrix A)) =>
                       let* inv_kj_ := mget inv_ k_ j_ in
                       let* x6 := mget inv_ i_ j_ in
                       let* x7 := mget lu_ i_ k_ in
                       mset inv_ i_ j_ (sub x6 (mul x7 inv_kj_))) inv_ in
               let* x8 := mget inv_ i_ j_ in
               let* x9 := mget lu_ i_ i_ in
               let* q10 := div x8 x9 in
               mset inv_ i_ j_ q10) inv_) inv_).

End SrcSolve.
