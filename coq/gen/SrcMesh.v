(* gen/SrcMesh.v -- REGENERATED from the Rust source by driver/translate_src.py (rust2coq) on every check run.
   One definition s_<f> per translated function, in the state-passing style of the hand-written models. *)
From Coq Require Import List Arith ZArith Lia Bool.
From OV Require Import Base.Panic Base.Arith Model.Vector Model.Matrix Model.Mesh gen.SrcPrelude.
Import ListNotations.

Section SrcMesh.
Context {A : Arith} {X : Type}.

(* src/mesh1d.rs : impl < T : Clone + Number , X : Clone + Number + Copy > Mesh1D < T , X > :: fn new *)
Definition s_mesh1_new (nodes_ : (list X)) (nvars_ : nat) : res (mesh1 A X) :=
  let node_vars_ := (repeat (@zero A) nvars_) in
  let vars_ := (@nil (list (T A))) in
  let* vars_ := for_ 0 (length nodes_) (fun _i_ (vars_ : (list (list (T A)))) =>
          let vars_ := (vars_ ++ [node_vars_]) in
          Ok vars_) vars_ in
  Ok (mkM1 nvars_ nodes_ vars_).

(* src/mesh1d.rs : impl < T : Clone + Number , X : Clone + Number + Copy > Mesh1D < T , X > :: fn nnodes *)
Definition s_mesh1_nnodes (self_ : (mesh1 A X)) : res nat :=
  Ok (length (m1_nodes self_)).

(* src/mesh1d.rs : impl < T : Clone + Number , X : Clone + Number + Copy > Mesh1D < T , X > :: fn nvars *)
Definition s_mesh1_nvars (self_ : (mesh1 A X)) : res nat :=
  Ok (m1_nvars self_).

(* src/mesh1d.rs : impl < T : Clone + Number , X : Clone + Number + Copy > Mesh1D < T , X > :: fn coord *)
Definition s_mesh1_coord (self_ : (mesh1 A X)) (node_ : nat) : res X :=
  rd (m1_nodes self_) node_.

(* src/mesh1d.rs : impl < T : Clone + Number , X : Clone + Number + Copy > Mesh1D < T , X > :: fn set_nodes_vars *)
Definition s_mesh1_set_nodes_vars (self_ : (mesh1 A X)) (node_ : nat) (vec_ : (list (T A))) : res (mesh1 A X) :=
  if ((length (m1_nodes self_)) <=? node_)%nat
  then (Panic Guard)
  else (if (negb ((length vec_) =? (m1_nvars self_))%nat)
       then (Panic Guard)
       else (let* b1 := upd (m1_vars self_) node_ vec_ in
            let self_ := (mkM1 (m1_nvars self_) (m1_nodes self_) b1) in
            Ok self_)).

(* src/mesh1d.rs : impl < T : Clone + Number , X : Clone + Number + Copy > Mesh1D < T , X > :: fn get_nodes_vars *)
Definition s_mesh1_get_nodes_vars (self_ : (mesh1 A X)) (node_ : nat) : res (list (T A)) :=
  if ((length (m1_nodes self_)) <=? node_)%nat
  then (Panic Guard)
  else (rd (m1_vars self_) node_).

(* src/mesh1d.rs : impl < T : Clone + Number , X : Clone + Number + Copy > Mesh1D < T , X > :: fn nodes *)
Definition s_mesh1_nodes (self_ : (mesh1 A X)) : res (list X) :=
  Ok (m1_nodes self_).

(* src/mesh1d.rs : impl < T , X > Index < usize > for Mesh1D < T , X > :: fn index *)
Definition s_mesh1_index (self_ : (mesh1 A X)) (node_ : nat) : res (list (T A)) :=
  rd (m1_vars self_) node_.

(* src/mesh1d.rs : impl Mesh1D < f64 , f64 > :: fn get_interpolated_vars *)
Definition s_mesh1_interp (half : (T A)) (quarter : (T A)) (snap : (T A)) (self_ : (mesh1 A (T A))) (x_pos_ : (T A)) : res (list (T A)) :=
  let result_ := (repeat (@zero A) (m1_nvars self_)) in
  let* d1 := usub (length (m1_nodes self_)) 1 in
  for_ 0 d1 (fun node_ (result_ : (list (T A))) =>
      let* x2 := rd (m1_nodes self_) node_ in
      let* c4 := if (ltb x2 x_pos_)
          then (let* x3 := rd (m1_nodes self_) (node_ + 1)%nat in
               Ok (gtb x3 x_pos_))
          else (Ok false) in
      let* c6 := if c4
          then (Ok true)
          else (let* x5 := rd (m1_nodes self_) node_ in
               Ok (ltb (abs (sub x5 x_pos_)) snap)) in
      let* c8 := if c6
          then (Ok true)
          else (let* x7 := rd (m1_nodes self_) (node_ + 1)%nat in
               Ok (ltb (abs (sub x7 x_pos_)) snap)) in
      if c8
      then (let* x9 := rd (m1_nodes self_) node_ in
           let delta_x_ := (sub x_pos_ x9) in
           let* left_ := get_nodes_vars1 self_ node_ in
           let* right_ := get_nodes_vars1 self_ (node_ + 1)%nat in
           let* r12 := vsub right_ left_ in
           let* x13 := rd (m1_nodes self_) (node_ + 1)%nat in
           let* x14 := rd (m1_nodes self_) node_ in
           let* deriv_ := vdiv r12 (sub x13 x14) in
           vadd left_ (vscale deriv_ delta_x_))
      else (Ok result_)) result_.

(* src/mesh1d.rs : impl Mesh1D < f64 , f64 > :: fn trapezium *)
Definition s_mesh1_trapezium (half : (T A)) (quarter : (T A)) (snap : (T A)) (self_ : (mesh1 A (T A))) (var_ : nat) : res (T A) :=
  let sum_ := (@zero A) in
  let* d1 := usub (length (m1_nodes self_)) 1 in
  for_ 0 d1 (fun node_ (sum_ : (T A)) =>
      let* x2 := rd (m1_nodes self_) (node_ + 1)%nat in
      let* x3 := rd (m1_nodes self_) node_ in
      let dx_ := (sub x2 x3) in
      let* x4 := rd (m1_vars self_) node_ in
      let* x5 := rd x4 var_ in
      let* x6 := rd (m1_vars self_) (node_ + 1)%nat in
      let* x7 := rd x6 var_ in
      let sum_ := (add sum_ (mul (mul half dx_) (add x5 x7))) in
      Ok sum_) sum_.

(* src/mesh2d.rs : impl < T : Clone + Number > Mesh2D < T > :: fn new *)
Definition s_mesh2_new (x_nodes_ : (list (T A))) (y_nodes_ : (list (T A))) (nvars_ : nat) : res (mesh2 A (T A)) :=
  let node_vars_ := (repeat (@zero A) nvars_) in
  let vars_ := (@nil (list (T A))) in
  let nx_ := (length x_nodes_) in
  let ny_ := (length y_nodes_) in
  let* vars_ := for_ 0 nx_ (fun _i_ (vars_ : (list (list (T A)))) =>
          for_ 0 ny_ (fun _j_ (vars_ : (list (list (T A)))) =>
              let vars_ := (vars_ ++ [node_vars_]) in
              Ok vars_) vars_) vars_ in
  Ok (mkM2 nvars_ nx_ ny_ x_nodes_ y_nodes_ vars_).

(* src/mesh2d.rs : impl < T : Clone + Number > Mesh2D < T > :: fn nvars *)
Definition s_mesh2_nvars (self_ : (mesh2 A (T A))) : res nat :=
  Ok (m2_nvars self_).

(* src/mesh2d.rs : impl < T : Clone + Number > Mesh2D < T > :: fn nnodes *)
Definition s_mesh2_nnodes (self_ : (mesh2 A (T A))) : res (nat * nat) :=
  Ok ((m2_nx self_), (m2_ny self_)).

(* src/mesh2d.rs : impl < T : Clone + Number > Mesh2D < T > :: fn coord *)
Definition s_mesh2_coord (self_ : (mesh2 A (T A))) (nodex_ : nat) (nodey_ : nat) : res ((T A) * (T A)) :=
  let* px_ := rd (m2_x self_) nodex_ in
  let* py_ := rd (m2_y self_) nodey_ in
  Ok (px_, py_).

(* src/mesh2d.rs : impl < T : Clone + Number > Mesh2D < T > :: fn xnodes *)
Definition s_mesh2_xnodes (self_ : (mesh2 A (T A))) : res (list (T A)) :=
  Ok (m2_x self_).

(* src/mesh2d.rs : impl < T : Clone + Number > Mesh2D < T > :: fn ynodes *)
Definition s_mesh2_ynodes (self_ : (mesh2 A (T A))) : res (list (T A)) :=
  Ok (m2_y self_).

(* src/mesh2d.rs : impl < T : Clone + Number > Mesh2D < T > :: fn set_nodes_vars *)
Definition s_mesh2_set_nodes_vars (self_ : (mesh2 A (T A))) (nodex_ : nat) (nodey_ : nat) (vec_ : (list (T A))) : res (mesh2 A (T A)) :=
  let* d1 := usub (m2_nx self_) 1 in
  let* c3 := if (d1 <? nodex_)%nat
      then (Ok true)
      else (let* d2 := usub (m2_ny self_) 1 in
           Ok (d2 <? nodey_)%nat) in
  if c3
  then (Panic Guard)
  else (if (negb ((length vec_) =? (m2_nvars self_))%nat)
       then (Panic Guard)
       else (let* b4 := upd (m2_vars self_) ((nodex_ * (m2_ny self_))%nat + nodey_)%nat vec_ in
            let self_ := (with_vars2 self_ b4) in
            Ok self_)).

(* src/mesh2d.rs : impl < T : Clone + Number > Mesh2D < T > :: fn get_nodes_vars *)
Definition s_mesh2_get_nodes_vars (self_ : (mesh2 A (T A))) (nodex_ : nat) (nodey_ : nat) : res (list (T A)) :=
  let* d1 := usub (m2_nx self_) 1 in
  let* c3 := if (d1 <? nodex_)%nat
      then (Ok true)
      else (let* d2 := usub (m2_ny self_) 1 in
           Ok (d2 <? nodey_)%nat) in
  if c3
  then (Panic Guard)
  else (rd (m2_vars self_) ((nodex_ * (m2_ny self_))%nat + nodey_)%nat).

(* src/mesh2d.rs : impl < T : Clone + Number > Mesh2D < T > :: fn assign *)
Definition s_mesh2_assign (self_ : (mesh2 A (T A))) (element_ : (T A)) : res (mesh2 A (T A)) :=
  for_ 0 (m2_nx self_) (fun i_ (self_ : (mesh2 A (T A))) =>
      for_ 0 (m2_ny self_) (fun j_ (self_ : (mesh2 A (T A))) =>
          for_ 0 (m2_nvars self_) (fun v_ (self_ : (mesh2 A (T A))) =>
              let* x2 := rd (m2_vars self_) ((i_ * (m2_ny self_))%nat + j_)%nat in
              let* b3 := upd x2 v_ element_ in
              let* b4 := upd (m2_vars self_) ((i_ * (m2_ny self_))%nat + j_)%nat b3 in
              let self_ := (with_vars2 self_ b4) in
              Ok self_) self_) self_) self_.

(* src/mesh2d.rs : impl < T : Clone + Number > Mesh2D < T > :: fn cross_section_xnode *)
Definition s_mesh2_cross_section_xnode (self_ : (mesh2 A (T A))) (nodex_ : nat) : res (mesh1 A (T A)) :=
  let section_ := (mesh1_new (m2_y self_) (m2_nvars self_)) in
  for_ 0 (m2_ny self_) (fun nodey_ (section_ : (mesh1 A (T A))) =>
      let* r1 := get_nodes_vars2 self_ nodex_ nodey_ in
      set_nodes_vars1 section_ nodey_ r1) section_.

(* src/mesh2d.rs : impl < T : Clone + Number > Mesh2D < T > :: fn cross_section_ynode *)
Definition s_mesh2_cross_section_ynode (self_ : (mesh2 A (T A))) (nodey_ : nat) : res (mesh1 A (T A)) :=
  let section_ := (mesh1_new (m2_x self_) (m2_nvars self_)) in
  for_ 0 (m2_nx self_) (fun nodex_ (section_ : (mesh1 A (T A))) =>
      let* r1 := get_nodes_vars2 self_ nodex_ nodey_ in
      set_nodes_vars1 section_ nodex_ r1) section_.

(* src/mesh2d.rs : impl < T : Clone + Number > Mesh2D < T > :: fn var_as_matrix *)
Definition s_mesh2_var_as_matrix (self_ : (mesh2 A (T A))) (var_ : nat) : res (matrix A) :=
  if ((m2_nvars self_) <=? var_)%nat
  then (Panic Guard)
  else (let m_ := (mat_new (m2_nx self_) (m2_ny self_) (@zero A)) in
       for_ 0 (m2_nx self_) (fun i_ (m_ : (matrix A)) =>
           for_ 0 (m2_ny self_) (fun j_ (m_ : (matrix A)) =>
               let* x1 := rd (m2_vars self_) ((i_ * (m2_ny self_))%nat + j_)%nat in
               let* x2 := rd x1 var_ in
               mset m_ i_ j_ x2) m_) m_).

(* src/mesh2d.rs : impl < T : Clone + Number > Mesh2D < T > :: fn apply *)
Definition s_mesh2_apply (self_ : (mesh2 A (T A))) (func_ : ((T A) -> (T A) -> res (T A))) (var_ : nat) : res (mesh2 A (T A)) :=
  for_ 0 (m2_nx self_) (fun i_ (self_ : (mesh2 A (T A))) =>
      let* x_ := rd (m2_x self_) i_ in
      for_ 0 (m2_ny self_) (fun j_ (self_ : (mesh2 A (T A))) =>
          let* y_ := rd (m2_y self_) j_ in
          let* y3 := func_ x_ y_ in
          let* x5 := rd (m2_vars self_) ((i_ * (m2_ny self_))%nat + j_)%nat in
          let* b6 := upd x5 var_ y3 in
          let* b7 := upd (m2_vars self_) ((i_ * (m2_ny self_))%nat + j_)%nat b6 in
          let self_ := (with_vars2 self_ b7) in
          Ok self_) self_) self_.

(* src/mesh2d.rs : impl Mesh2D < f64 > :: fn trapezium *)
Definition s_mesh2_trapezium (half : (T A)) (quarter : (T A)) (snap : (T A)) (self_ : (mesh2 A (T A))) (var_ : nat) : res (T A) :=
  let sum_ := (@zero A) in
  let* d1 := usub (m2_nx self_) 1 in
  for_ 0 d1 (fun i_ (sum_ : (T A)) =>
      let* x2 := rd (m2_x self_) (i_ + 1)%nat in
      let* x3 := rd (m2_x self_) i_ in
      let dx_ := (sub x2 x3) in
      let* d4 := usub (m2_ny self_) 1 in
      for_ 0 d4 (fun j_ (sum_ : (T A)) =>
          let* x5 := rd (m2_y self_) (j_ + 1)%nat in
          let* x6 := rd (m2_y self_) j_ in
          let dy_ := (sub x5 x6) in
          let* x7 := rd (m2_vars self_) ((i_ * (m2_ny self_))%nat + j_)%nat in
          let* x8 := rd x7 var_ in
          let* x9 := rd (m2_vars self_) (((i_ + 1)%nat * (m2_ny self_))%nat + j_)%nat in
          let* x10 := rd x9 var_ in
          let* x11 := rd (m2_vars self_) (((i_ * (m2_ny self_))%nat + j_)%nat + 1)%nat in
          let* x12 := rd x11 var_ in
          let* x13 := rd (m2_vars self_) ((((i_ + 1)%nat * (m2_ny self_))%nat + j_)%nat + 1)%nat in
          let* x14 := rd x13 var_ in
          let sum_ := (add sum_ (mul (mul (mul quarter dx_) dy_) (add (add (add x8 x10) x12) x14))) in
          Ok sum_) sum_) sum_.

(* src/mesh2d.rs : impl Mesh2D < f64 > :: fn square_trapezium *)
Definition s_mesh2_square_trapezium (half : (T A)) (quarter : (T A)) (snap : (T A)) (self_ : (mesh2 A (T A))) (var_ : nat) : res (T A) :=
  let sum_ := (@zero A) in
  let* d1 := usub (m2_nx self_) 1 in
  for_ 0 d1 (fun i_ (sum_ : (T A)) =>
      let* x2 := rd (m2_x self_) (i_ + 1)%nat in
      let* x3 := rd (m2_x self_) i_ in
      let dx_ := (sub x2 x3) in
      let* d4 := usub (m2_ny self_) 1 in
      for_ 0 d4 (fun j_ (sum_ : (T A)) =>
          let* x5 := rd (m2_y self_) (j_ + 1)%nat in
          let* x6 := rd (m2_y self_) j_ in
          let dy_ := (sub x5 x6) in
          let* x7 := rd (m2_vars self_) ((i_ * (m2_ny self_))%nat + j_)%nat in
          let* x8 := rd x7 var_ in
          let* x9 := rd (m2_vars self_) (((i_ + 1)%nat * (m2_ny self_))%nat + j_)%nat in
          let* x10 := rd x9 var_ in
          let* x11 := rd (m2_vars self_) (((i_ * (m2_ny self_))%nat + j_)%nat + 1)%nat in
          let* x12 := rd x11 var_ in
          let* x13 := rd (m2_vars self_) ((((i_ + 1)%nat * (m2_ny self_))%nat + j_)%nat + 1)%nat in
          let* x14 := rd x13 var_ in
          let sum_ := (add sum_ (mul (mul (mul quarter dx_) dy_) (add (add (add (mul (abs x8) (abs x8)) (mul (abs x10) (abs x10))) (mul (abs x12) (abs x12))) (mul (abs x14) (abs x14))))) in
          Ok sum_) sum_) sum_.

(* src/mesh2d.rs : impl < T > Index < ( usize , usize ) > for Mesh2D < T > :: fn index *)
Definition s_mesh2_index (self_ : (mesh2 A (T A))) (node_ : (nat * nat)) : res (list (T A)) :=
  rd (m2_vars self_) (((fst node_) * (m2_ny self_))%nat + (snd node_))%nat.

End SrcMesh.
