(* gen/SrcParDot.v -- REGENERATED from the Rust source by driver/translate_src.py (rust2coq) on every check run.
   One definition s_<f> per translated function, in the state-passing style of the hand-written models. *)
From Coq Require Import List Arith ZArith Lia Bool.
From OV Require Import Base.Panic Base.Arith Model.Vector Model.ParDot gen.SrcPrelude.
Import ListNotations.

Section SrcParDot.
Context {A : Arith}.
Variable num_cpus_ : nat.

(* src/vector/vec_f64.rs : impl Vector < f64 > :: fn dot_f64 *)
Definition s_dot_f64 (self_ : (list (T A))) (w_ : (list (T A))) : res (T A) :=
  if (negb ((length self_) =? (length w_))%nat)
  then (Panic Guard)
  else (let num_threads_ := num_cpus_ in
       let* chunk_size_ := udiv (length self_) num_threads_ in
       let threads_ := (@nil (res (T A))) in
       let* threads_ := for_ 0 num_threads_ (fun i_ (threads_ : (list (res (T A)))) =>
               let start_ := (i_ * chunk_size_)%nat in
               let* d2 := usub num_threads_ 1 in
               let end_ := (if (i_ =? d2)%nat then (length self_) else ((i_ + 1)%nat * chunk_size_)%nat) in
               let* self_slice_ := subslice self_ start_ end_ in
               let* w_slice_ := subslice w_ start_ end_ in
               let threads_ := (threads_ ++ [(let result_ := (@zero A) in
                  for_ 0 (length self_slice_) (fun i_1 (result_ : (T A)) =>
                      let* x5 := rd self_slice_ i_1 in
                      let* x6 := rd w_slice_ i_1 in
                      let result_ := (add result_ (mul x5 x6)) in
                      Ok result_) result_)]) in
               Ok threads_) threads_ in
       let result_ := (@zero A) in
       for_in threads_ (fun thread_ (result_ : (T A)) =>
           let* j7 := join_unwrap thread_ in
           let result_ := (add result_ j7) in
           Ok result_) result_).

End SrcParDot.
