(* gen/Params.v -- numeric constants of the Rust source.  REGENERATED from /repo/src by
   driver/translate.py on every check run; the models take these as definitions. *)
From Coq Require Import List ZArith Floats Uint63.
Definition POLYDIV_MAX : nat := 1000.
Definition LAGUER_MR : nat := 8.
Definition LAGUER_MT : nat := 10.
Definition LAGUER_FRAC : list float := (0%float :: (Z.ldexp (PrimFloat.of_uint63 (Uint63.of_Z 1)) (-1)%Z) :: (Z.ldexp (PrimFloat.of_uint63 (Uint63.of_Z 1)) (-2)%Z) :: (Z.ldexp (PrimFloat.of_uint63 (Uint63.of_Z 3)) (-2)%Z) :: (Z.ldexp (PrimFloat.of_uint63 (Uint63.of_Z 1170935903116329)) (-53)%Z) :: (Z.ldexp (PrimFloat.of_uint63 (Uint63.of_Z 3422735716801577)) (-53)%Z) :: (Z.ldexp (PrimFloat.of_uint63 (Uint63.of_Z 5584463537939415)) (-53)%Z) :: (Z.ldexp (PrimFloat.of_uint63 (Uint63.of_Z 7926335344172073)) (-53)%Z) :: (Z.ldexp (PrimFloat.of_uint63 (Uint63.of_Z 1)) (0)%Z) :: nil).
Definition NEWTON_MAX_ITER : nat := 20.
Definition NEWTON_TOL : float := (Z.ldexp (PrimFloat.of_uint63 (Uint63.of_Z 3022314549036573)) (-78)%Z).
Definition NEWTON_DELTA : float := (Z.ldexp (PrimFloat.of_uint63 (Uint63.of_Z 3022314549036573)) (-78)%Z).
Definition MESH_SNAP : float := (Z.ldexp (PrimFloat.of_uint63 (Uint63.of_Z 944473296573929)) (-73)%Z).
(* the same constants as exact rationals (numerator, denominator) for the models over R / Qc *)
Definition MESH_SNAP_Q : Z * positive := (1%Z, 10000000%positive).
Definition NEWTON_TOL_Q : Z * positive := (1%Z, 100000000%positive).
Definition NEWTON_DELTA_Q : Z * positive := (1%Z, 100000000%positive).
