(* gen/Params.v -- numeric constants of the Rust source.  REGENERATED from /repo/src by
   driver/translate.py on every check run; the models take these as definitions. *)
From Coq Require Import List ZArith Floats.
Definition POLYDIV_MAX : nat := 1000.
Definition LAGUER_MR : nat := 8.
Definition LAGUER_MT : nat := 10.
Definition LAGUER_FRAC : list float := (0 :: 0.5 :: 0.25 :: 0.75 :: 0.13 :: 0.38 :: 0.62 :: 0.88 :: 1 :: nil)%float.
Definition NEWTON_MAX_ITER : nat := 20.
Definition NEWTON_TOL : float := 1e-8%float.
Definition NEWTON_DELTA : float := 1e-8%float.
Definition MESH_SNAP : float := 1e-7%float.
