(* gen/GuardTable.v -- the explicit `if … { panic!(…) }` guards of every checked entry point of C20,
   REGENERATED from /repo/src by driver/translate.py on every check run (integers over Z). *)
From Coq Require Import ZArith Bool.
Local Open Scope Z_scope.
Local Open Scope bool_scope.

Definition g_vec_add_ref (n1 n2 : Z) : bool := (negb (n1 =? n2)).
Definition g_vec_sub_ref (n1 n2 : Z) : bool := (negb (n1 =? n2)).
Definition g_vec_add_assign (n1 n2 : Z) : bool := (negb (n1 =? n2)).
Definition g_vec_sub_assign (n1 n2 : Z) : bool := (negb (n1 =? n2)).
Definition g_vec_dot (n1 n2 : Z) : bool := (negb (n1 =? n2)).
Definition g_vec_dot_f64 (n1 n2 : Z) : bool := (negb (n1 =? n2)).
Definition g_vec_sum_slice (n s e : Z) : bool := (s >? e) || (n <=? s) || (n <=? e).
Definition g_vec_product_slice (n s e : Z) : bool := (s >? e) || (n <=? s) || (n <=? e).
Definition g_mat_get_row (r c row : Z) : bool := (r <=? row).
Definition g_mat_get_col (r c col : Z) : bool := (c <=? col).
Definition g_mat_set_row (r c row vl : Z) : bool := (negb (vl =? c)) || (r <=? row).
Definition g_mat_set_col (r c col vl : Z) : bool := (negb (vl =? r)) || (c <=? col).
Definition g_mat_delete_row (r c row : Z) : bool := (r <=? row).
Definition g_mat_multiply (r c vl : Z) : bool := (negb (vl =? c)).
Definition g_mat_swap_rows (r c r1 r2 : Z) : bool := ((r <=? r1) || (r <=? r2)).
Definition g_mat_fill_row (r c row : Z) : bool := (r <=? row).
Definition g_mat_fill_col (r c col : Z) : bool := (c <=? col).
Definition g_mat_solve_basic (r c bl : Z) : bool := (negb (r =? bl)) || (negb (r =? c)).
Definition g_mat_lu (r c : Z) : bool := (negb (r =? c)).
Definition g_mat_solve_lu (r c bl : Z) : bool := (negb (r =? bl)) || (negb (r =? c)).
Definition g_mat_inverse (r c : Z) : bool := (negb (r =? c)).
Definition g_mat_determinant (r c : Z) : bool := (negb (r =? c)).
Definition g_mat_add_ref (r c r2 c2 : Z) : bool := (negb (r =? r2)) || (negb (c =? c2)).
Definition g_mat_sub_ref (r c r2 c2 : Z) : bool := (negb (r =? r2)) || (negb (c =? c2)).
Definition g_mat_add_assign_ref (r c r2 c2 : Z) : bool := (negb (r =? r2)) || (negb (c =? c2)).
Definition g_mat_sub_assign_ref (r c r2 c2 : Z) : bool := (negb (r =? r2)) || (negb (c =? c2)).
Definition g_mat_mul_ref (r c r2 c2 : Z) : bool := (negb (c =? r2)).
Definition g_band_fill_band (n m1 m2 band : Z) : bool := ((band <? (- m1)) || (band >? m2)).
Definition g_band_solve (n m1 m2 bl : Z) : bool := (negb (n =? bl)).
Definition g_band_index (n m1 m2 i j : Z) : bool := ((j >? (i + m2)) || (i >? (j + m1))).
Definition g_band_index_mut (n m1 m2 i j : Z) : bool := ((j >? (i + m2)) || (i >? (j + m1))).
Definition g_band_add_ref (n m1 m2 n2 p1 p2 : Z) : bool := (negb (n =? n2)) || (negb (m1 =? p1)) || (negb (m2 =? p2)).
Definition g_band_sub_ref (n m1 m2 n2 p1 p2 : Z) : bool := (negb (n =? n2)) || (negb (m1 =? p1)) || (negb (m2 =? p2)).
Definition g_band_add_assign_ref (n m1 m2 n2 p1 p2 : Z) : bool := (negb (n =? n2)) || (negb (m1 =? p1)) || (negb (m2 =? p2)).
Definition g_band_sub_assign_ref (n m1 m2 n2 p1 p2 : Z) : bool := (negb (n =? n2)) || (negb (m1 =? p1)) || (negb (m2 =? p2)).
Definition g_band_mul_vec (n m1 m2 vl : Z) : bool := (negb (n =? vl)).
Definition g_tri_with_vectors (ns nm nu : Z) : bool := ((negb (ns =? (nm - 1))) || (negb (nu =? (nm - 1)))).
Definition g_tri_with_vecs (ns nm nu : Z) : bool := ((negb (ns =? (nm - 1))) || (negb (nu =? (nm - 1)))).
Definition g_tri_convert (n : Z) : bool := (n =? 0).
Definition g_tri_solve (n rl : Z) : bool := (negb (n =? rl)).
Definition g_tri_index (n i j : Z) : bool := ((i >=? n) || (j >=? n)) || ((negb (i =? j)) && (negb (i =? (j + 1))) && (negb ((i + 1) =? j))).
Definition g_tri_index_mut (n i j : Z) : bool := ((i >=? n) || (j >=? n)) || ((negb (i =? j)) && (negb (i =? (j + 1))) && (negb ((i + 1) =? j))).
Definition g_tri_add (n1 n2 : Z) : bool := (negb (n1 =? n2)).
Definition g_tri_sub (n1 n2 : Z) : bool := (negb (n1 =? n2)).
Definition g_tri_mul_vec (n vl : Z) : bool := (negb (n =? vl)).
Definition g_sp_from_triplets (r c row col : Z) : bool := (row >=? r) || (col >=? c).
Definition g_sp_get (r c row col : Z) : bool := (r <=? row) || (c <=? col) || ((c + 1) <=? col).
Definition g_sp_insert (r c row col : Z) : bool := (r <=? row) || (c <=? col) || ((c + 1) <=? col).
Definition g_sp_multiply (r c xl : Z) : bool := (negb (c =? xl)).
Definition g_sp_transpose_multiply (r c xl : Z) : bool := (negb (r =? xl)).
Definition g_sp_solve_bicgstab (r c bl xl : Z) : bool := (negb (r =? bl)) || (negb (r =? c)) || (negb (bl =? xl)).
Definition g_sp_solve_cg (r c bl xl : Z) : bool := (negb (r =? bl)) || (negb (r =? c)) || (negb (bl =? xl)).
Definition g_sp_solve_qmr (r c bl xl : Z) : bool := (negb (r =? bl)) || (negb (r =? c)) || (negb (bl =? xl)).
Definition g_sp_solve_bicg (r c bl xl itol : Z) : bool := (negb (r =? bl)) || (negb (r =? c)) || (negb (bl =? xl)) || ((negb (itol =? 1)) && (negb (itol =? 2))).
Definition g_mesh1_set_nodes_vars (nn nv node vl : Z) : bool := (node >=? nn) || (negb (vl =? nv)).
Definition g_mesh1_get_nodes_vars (nn nv node : Z) : bool := (node >=? nn).
Definition g_mesh2_set_nodes_vars (nx ny nv i j vl : Z) : bool := ((i >? (nx - 1)) || (j >? (ny - 1))) || (negb (vl =? nv)).
Definition g_mesh2_get_nodes_vars (nx ny i j : Z) : bool := ((i >? (nx - 1)) || (j >? (ny - 1))).
Definition g_mesh2_var_as_matrix (nx ny nv var : Z) : bool := (var >=? nv).
Definition g_poly_index (len i : Z) : bool := (i >=? len).
Definition g_poly_index_mut (len i : Z) : bool := (i >=? len).
Definition g_poly_roots_degree (len : Z) : bool := ((len - 1) =? 0).
