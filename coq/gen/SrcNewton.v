(* gen/SrcNewton.v -- REGENERATED from the Rust source by driver/translate_src.py (rust2coq) on every check run.
   One definition s_<f> per translated function, in the state-passing style of the hand-written models. *)
From Coq Require Import List Arith ZArith Lia Bool.
From OV Require Import Base.Panic Base.Arith Model.Vector Model.Matrix Model.Solve Model.Newton gen.SrcPrelude.
Import ListNotations.

Section SrcNewton.
Context {A : Arith}.

(* src/newton.rs : impl Newton < f64 > :: fn solve *)
Definition s_newton_solve_f64 (self_ : (ncfg (T A) (T A))) (func_ : ((T A) -> res (T A))) : res (nres (T A)) :=
  let current_ := (guess self_) in
  let* o6 := for_ret 0 (max_iter self_) (fun _ (current_ : (T A)) =>
          let* y1 := func_ (add current_ (delta self_)) in
          let* y2 := func_ (sub current_ (delta self_)) in
          let* deriv_ := div (sub y1 y2) (mul (add (@one A) (@one A)) (delta self_)) in
          let* y4 := func_ current_ in
          let* dx_ := div y4 deriv_ in
          let current_ := (sub current_ dx_) in
          if (leb (abs dx_) (tol self_))
          then (Ok (inr (NOk current_)))
          else (Ok (inl current_))) current_ in
  match o6 with
  | inl current_ => Ok (NErr current_)
  | inr r7 => Ok r7
  end.

(* src/newton.rs : impl Newton < Vec64 > :: fn solve *)
Definition s_newton_solve_vec64 (self_ : (ncfg (T A) (list (T A)))) (func_ : ((list (T A)) -> res (list (T A)))) : res (nres (list (T A))) :=
  let current_ := (guess self_) in
  let* o6 := for_ret 0 (max_iter self_) (fun _ (current_ : (list (T A))) =>
          let* f_ := func_ current_ in
          let* max_residual_ := Newton.norm_inf (NReal A) f_ in
          let* j_ := (let* jr := jacobian (NReal A) func_ current_ (delta self_) in Ok (fst jr)) in
          let* dx_ := solve_basic j_ f_ in
          let* current_ := vsub_assign current_ dx_ in
          if (leb max_residual_ (tol self_))
          then (Ok (inr (NOk current_)))
          else (Ok (inl current_))) current_ in
  match o6 with
  | inl current_ => Ok (NErr current_)
  | inr r7 => Ok r7
  end.

(* src/newton.rs : impl Newton < Vec64 > :: fn solve_jacobian *)
Definition s_newton_solve_jacobian_vec64 (self_ : (ncfg (T A) (list (T A)))) (func_ : ((list (T A)) -> res (list (T A)))) (jac_ : ((list (T A)) -> res (matrix A))) : res (nres (list (T A))) :=
  let current_ := (guess self_) in
  let* o6 := for_ret 0 (max_iter self_) (fun _ (current_ : (list (T A))) =>
          let* f_ := func_ current_ in
          let* max_residual_ := Newton.norm_inf (NReal A) f_ in
          let* j_ := jac_ current_ in
          let* dx_ := solve_basic j_ f_ in
          let* current_ := vsub_assign current_ dx_ in
          if (leb max_residual_ (tol self_))
          then (Ok (inr (NOk current_)))
          else (Ok (inl current_))) current_ in
  match o6 with
  | inl current_ => Ok (NErr current_)
  | inr r7 => Ok r7
  end.

(* src/matrix/functions.rs : impl Matrix < f64 > :: fn jacobian *)
Definition s_jacobian_f64 (point_ : (list (T A))) (func_ : ((list (T A)) -> res (list (T A)))) (delta_ : (T A)) : res (matrix A) :=
  let n_ := (length point_) in
  let* f_ := func_ point_ in
  let m_ := (length f_) in
  let state_ := point_ in
  let jac_ := (mat_new m_ n_ (@zero A)) in
  let* (state_, jac_) := for_ 0 n_ (fun i_ (s7 : ((list (T A)) * (matrix A))) =>
          let '(state_, jac_) := s7 in
          let* x2 := rd state_ i_ in
          let* state_ := upd state_ i_ (add x2 delta_) in
          let* f_new_ := func_ state_ in
          let* x4 := rd state_ i_ in
          let* state_ := upd state_ i_ (sub x4 delta_) in
          let* r5 := vsub f_new_ f_ in
          let* r6 := vdiv r5 delta_ in
          let* jac_ := set_col jac_ i_ r6 in
          Ok (state_, jac_)) (state_, jac_) in
  Ok jac_.

End SrcNewton.
