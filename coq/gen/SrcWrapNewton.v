(* gen/SrcWrapNewton.v -- REGENERATED from the Rust source by driver/translate_src.py (rust2coq) on every check run.
   One definition s_<f> per translated function, in the state-passing style of the hand-written models. *)
From Coq Require Import List Arith ZArith Lia Bool.
From OV Require Import Base.Panic Base.Arith Model.Vector Model.Matrix Model.Tridiag Model.Banded Model.Poly Model.Newton gen.SrcPrelude.
Import ListNotations.

Section SrcWrapNewton.
Context {A : Arith}.

(* src/newton.rs : impl < T > Newton < T > :: fn tolerance *)
Definition s_newton_tolerance (self_ : (ncfg (T A) (T A))) (tolerance_ : (T A)) : res (ncfg (T A) (T A)) :=
  let self_ := (mkCfg tolerance_ (delta self_) (max_iter self_) (guess self_)) in
  Ok self_.

(* src/newton.rs : impl < T > Newton < T > :: fn delta *)
Definition s_newton_delta (self_ : (ncfg (T A) (T A))) (delta_ : (T A)) : res (ncfg (T A) (T A)) :=
  let self_ := (mkCfg (tol self_) delta_ (max_iter self_) (guess self_)) in
  Ok self_.

(* src/newton.rs : impl < T > Newton < T > :: fn iterations *)
Definition s_newton_iterations (self_ : (ncfg (T A) (T A))) (iterations_ : nat) : res (ncfg (T A) (T A)) :=
  let self_ := (mkCfg (tol self_) (delta self_) iterations_ (guess self_)) in
  Ok self_.

(* src/newton.rs : impl < T > Newton < T > :: fn guess *)
Definition s_newton_guess (self_ : (ncfg (T A) (T A))) (guess_ : (T A)) : res (ncfg (T A) (T A)) :=
  let self_ := (mkCfg (tol self_) (delta self_) (max_iter self_) guess_) in
  Ok self_.

(* src/newton.rs : impl < T : Copy > Newton < T > :: fn parameters *)
Definition s_newton_parameters (self_ : (ncfg (T A) (T A))) : res ((T A) * (T A) * nat * (T A)) :=
  let parameters_ := ((tol self_), (delta self_), (max_iter self_), (guess self_)) in
  Ok parameters_.

End SrcWrapNewton.
