(* gen/CFunOps.v -- the formulas of src/complex/{elementary,trigonometric,hyperbolic}.rs, REGENERATED from /repo/src by
   driver/translate.py on every check run, over the real-number model of Model/CFun.v (libm call -> real function). *)
From Coq Require Import Reals.
From OV Require Import Model.CFun.
Local Open Scope R_scope.

Definition t_csqrt (z : C) : C :=
  let sqrt_abs_ := (sqrt (cabs z)) in
  let theta_ := (arg z) in
  let x_ := (sqrt_abs_ * (cos ((1 / 2) * theta_))) in
  let y_ := (sqrt_abs_ * (sin ((1 / 2) * theta_))) in
  (x_, y_).
Definition t_cpow (z : C) (w : C) : C :=
  let r2_ := (abs_sqr z) in
  let theta_ := (arg z) in
  let x_ := ((Rpower r2_ ((1 / 2) * (re w))) * (exp ((- (im w)) * theta_))) in
  let y_ := (((re w) * theta_) + (((1 / 2) * (im w)) * (ln r2_))) in
  ((x_ * (cos y_)), (x_ * (sin y_))).
Definition t_cpowf (z : C) (x : R) : C :=
  let r2_ := (abs_sqr z) in
  let theta_ := (arg z) in
  let a_ := (Rpower r2_ ((1 / 2) * x)) in
  let b_ := (x * theta_) in
  ((a_ * (cos b_)), (a_ * (sin b_))).
Definition t_cexp (z : C) : C :=
  let a_ := (exp (re z)) in
  ((a_ * (cos (im z))), (a_ * (sin (im z)))).
Definition t_cln (z : C) : C :=
  let r_ := (cabs z) in
  let theta_ := (arg z) in
  ((ln r_), theta_).
Definition t_clog (z : C) (b : C) : C :=
  (cdiv (cln z) (cln b)).
Definition t_cpolar (r : R) (theta : R) : C :=
  let real_ := (r * (cos theta)) in
  let imag_ := (r * (sin theta)) in
  (real_, imag_).
Definition t_csin (z : C) : C :=
  (((sin (re z)) * (cosh (im z))), ((cos (re z)) * (sinh (im z)))).
Definition t_ccos (z : C) : C :=
  (((cos (re z)) * (cosh (im z))), ((- (sin (re z))) * (sinh (im z)))).
Definition t_ctan (z : C) : C :=
  (cdiv (csin z) (ccos z)).
Definition t_csec (z : C) : C :=
  (cdiv cone (ccos z)).
Definition t_ccsc (z : C) : C :=
  (cdiv cone (csin z)).
Definition t_ccot (z : C) : C :=
  (cdiv cone (ctan z)).
Definition t_casin (z : C) : C :=
  let squared_ := (cmul z z) in
  (cmul (cneg ci) (cln (cadd (csqrt (csub cone squared_)) (cmul ci z)))).
Definition t_cacos (z : C) : C :=
  let squared_ := (cmul z z) in
  (cadd_r (cmul ci (cln (cadd (csqrt (csub cone squared_)) (cmul ci z)))) (PI / 2)).
Definition t_catan (z : C) : C :=
  let iz_ := (cmul ci z) in
  (cmul_r (cmul (csub (cln (csub cone iz_)) (cln (cadd cone iz_))) ci) (1 / 2)).
Definition t_casec (z : C) : C :=
  let inv_ := (cdiv cone z) in
  (cacos inv_).
Definition t_cacsc (z : C) : C :=
  let inv_ := (cdiv cone z) in
  (casin inv_).
Definition t_cacot (z : C) : C :=
  let inv_ := (cdiv cone z) in
  (catan inv_).
Definition t_csinh (z : C) : C :=
  (((sinh (re z)) * (cos (im z))), ((cosh (re z)) * (sin (im z)))).
Definition t_ccosh (z : C) : C :=
  (((cosh (re z)) * (cos (im z))), ((sinh (re z)) * (sin (im z)))).
Definition t_ctanh (z : C) : C :=
  (cdiv (csinh z) (ccosh z)).
Definition t_csech (z : C) : C :=
  (cdiv cone (ccosh z)).
Definition t_ccsch (z : C) : C :=
  (cdiv cone (csinh z)).
Definition t_ccoth (z : C) : C :=
  (cdiv cone (ctanh z)).
Definition t_casinh (z : C) : C :=
  let z_ := z in
  (cln (cadd (csqrt (cadd_r (cmul z_ z_) 1)) z_)).
Definition t_cacosh (z : C) : C :=
  let z_ := z in
  (cln (cadd (cmul (csqrt (csub_r z_ 1)) (csqrt (cadd_r z_ 1))) z_)).
Definition t_catanh (z : C) : C :=
  let z_ := z in
  (cmul_r (csub (cln (cadd_r z_ 1)) (cln (csub cone z_))) (1 / 2)).
Definition t_casech (z : C) : C :=
  let inv_ := (cdiv cone z) in
  (cacosh inv_).
Definition t_cacsch (z : C) : C :=
  let inv_ := (cdiv cone z) in
  (casinh inv_).
Definition t_cacoth (z : C) : C :=
  let inv_ := (cdiv cone z) in
  (catanh inv_).
Definition t_cabs (z : C) : R := sqrt (abs_sqr z).
Definition t_arg (z : C) : R := atan2 (im z) (re z).
