(* gen/SrcMatArith.v -- REGENERATED from the Rust source by driver/translate_src.py (rust2coq) on every check run.
   One definition s_<f> per translated function, in the state-passing style of the hand-written models. *)
From Coq Require Import List Arith ZArith Lia Bool.
From OV Require Import Base.Panic Base.Arith Model.Vector Model.Matrix gen.SrcPrelude.
Import ListNotations.

Section SrcMatArith.
Context {A : Arith}.

(* src/matrix/arithmetic.rs : impl < T : Copy + Neg < Output = T > + Signed > Neg for & Matrix < T > :: fn neg *)
Definition s_mneg (self_ : (matrix A)) : res (matrix A) :=
  let result_ := (mat_new (rows self_) (cols self_) (@zero A)) in
  for_ 0 (rows result_) (fun i_ (result_ : (matrix A)) =>
      for_ 0 (cols result_) (fun j_ (result_ : (matrix A)) =>
          let* x1 := mget self_ i_ j_ in
          mset result_ i_ j_ (neg x1)) result_) result_.

(* src/matrix/arithmetic.rs : impl < T : Copy + Number > Add < & Matrix < T > > for & Matrix < T > :: fn add *)
Definition s_madd (self_ : (matrix A)) (plus_ : (matrix A)) : res (matrix A) :=
  if (negb ((rows self_) =? (rows plus_))%nat)
  then (Panic Guard)
  else (if (negb ((cols self_) =? (cols plus_))%nat)
       then (Panic Guard)
       else (let result_ := (mat_new (rows self_) (cols self_) (@zero A)) in
            for_ 0 (rows result_) (fun i_ (result_ : (matrix A)) =>
                for_ 0 (cols result_) (fun j_ (result_ : (matrix A)) =>
                    let* x1 := mget self_ i_ j_ in
                    let* x2 := mget plus_ i_ j_ in
                    mset result_ i_ j_ (add x1 x2)) result_) result_)).

(* src/matrix/arithmetic.rs : impl < T : Copy + Number > Sub < & Matrix < T > > for & Matrix < T > :: fn sub *)
Definition s_msub (self_ : (matrix A)) (minus_ : (matrix A)) : res (matrix A) :=
  if (negb ((rows self_) =? (rows minus_))%nat)
  then (Panic Guard)
  else (if (negb ((cols self_) =? (cols minus_))%nat)
       then (Panic Guard)
       else (let result_ := (mat_new (rows self_) (cols self_) (@zero A)) in
            for_ 0 (rows result_) (fun i_ (result_ : (matrix A)) =>
                for_ 0 (cols result_) (fun j_ (result_ : (matrix A)) =>
                    let* x1 := mget self_ i_ j_ in
                    let* x2 := mget minus_ i_ j_ in
                    mset result_ i_ j_ (sub x1 x2)) result_) result_)).

(* src/matrix/arithmetic.rs : impl < T : Copy + Number > Mul < T > for & Matrix < T > :: fn mul *)
Definition s_mscale (self_ : (matrix A)) (scalar_ : (T A)) : res (matrix A) :=
  let result_ := (mat_new (rows self_) (cols self_) (@zero A)) in
  for_ 0 (rows result_) (fun i_ (result_ : (matrix A)) =>
      for_ 0 (cols result_) (fun j_ (result_ : (matrix A)) =>
          let* x1 := mget self_ i_ j_ in
          mset result_ i_ j_ (mul x1 scalar_)) result_) result_.

(* src/matrix/arithmetic.rs : impl Mul < Matrix < f64 > > for f64 :: fn mul *)
Definition s_mscale_l (self_ : (T A)) (matrix_ : (matrix A)) : res (matrix A) :=
  let result_ := (mat_new (rows matrix_) (cols matrix_) (@zero A)) in
  for_ 0 (rows result_) (fun i_ (result_ : (matrix A)) =>
      for_ 0 (cols result_) (fun j_ (result_ : (matrix A)) =>
          let* x1 := mget matrix_ i_ j_ in
          mset result_ i_ j_ (mul x1 self_)) result_) result_.

(* src/matrix/arithmetic.rs : impl < T : Copy + Number > Div < T > for & Matrix < T > :: fn div *)
Definition s_mdiv (self_ : (matrix A)) (scalar_ : (T A)) : res (matrix A) :=
  let result_ := (mat_new (rows self_) (cols self_) (@zero A)) in
  for_ 0 (rows result_) (fun i_ (result_ : (matrix A)) =>
      for_ 0 (cols result_) (fun j_ (result_ : (matrix A)) =>
          let* x1 := mget self_ i_ j_ in
          let* q2 := div x1 scalar_ in
          mset result_ i_ j_ q2) result_) result_.

(* src/matrix/arithmetic.rs : impl < T : Copy + Number > AddAssign < & Matrix < T > > for Matrix < T > :: fn add_assign *)
Definition s_madd_assign (self_ : (matrix A)) (rhs_ : (matrix A)) : res (matrix A) :=
  if (negb ((rows self_) =? (rows rhs_))%nat)
  then (Panic Guard)
  else (if (negb ((cols self_) =? (cols rhs_))%nat)
       then (Panic Guard)
       else (for_ 0 (rows self_) (fun i_ (self_ : (matrix A)) =>
                for_ 0 (cols self_) (fun j_ (self_ : (matrix A)) =>
                    let* x1 := mget self_ i_ j_ in
                    let* x2 := mget rhs_ i_ j_ in
                    mset self_ i_ j_ (add x1 x2)) self_) self_)).

(* src/matrix/arithmetic.rs : impl < T : Copy + Number > SubAssign < & Matrix < T > > for Matrix < T > :: fn sub_assign *)
Definition s_msub_assign (self_ : (matrix A)) (rhs_ : (matrix A)) : res (matrix A) :=
  if (negb ((rows self_) =? (rows rhs_))%nat)
  then (Panic Guard)
  else (if (negb ((cols self_) =? (cols rhs_))%nat)
       then (Panic Guard)
       else (for_ 0 (rows self_) (fun i_ (self_ : (matrix A)) =>
                for_ 0 (cols self_) (fun j_ (self_ : (matrix A)) =>
                    let* x1 := mget self_ i_ j_ in
                    let* x2 := mget rhs_ i_ j_ in
                    mset self_ i_ j_ (sub x1 x2)) self_) self_)).

(* src/matrix/arithmetic.rs : impl < T : Copy + Number > MulAssign < T > for Matrix < T > :: fn mul_assign *)
Definition s_mmul_assign_scalar (self_ : (matrix A)) (rhs_ : (T A)) : res (matrix A) :=
  for_ 0 (rows self_) (fun i_ (self_ : (matrix A)) =>
      for_ 0 (cols self_) (fun j_ (self_ : (matrix A)) =>
          let* x1 := mget self_ i_ j_ in
          mset self_ i_ j_ (mul x1 rhs_)) self_) self_.

(* src/matrix/arithmetic.rs : impl < T : Copy + Number > DivAssign < T > for Matrix < T > :: fn div_assign *)
Definition s_mdiv_assign_scalar (self_ : (matrix A)) (rhs_ : (T A)) : res (matrix A) :=
  for_ 0 (rows self_) (fun i_ (self_ : (matrix A)) =>
      for_ 0 (cols self_) (fun j_ (self_ : (matrix A)) =>
          let* x1 := mget self_ i_ j_ in
          let* q2 := div x1 rhs_ in
          mset self_ i_ j_ q2) self_) self_.

(* src/matrix/arithmetic.rs : impl < T : Copy + Number > AddAssign < T > for Matrix < T > :: fn add_assign *)
Definition s_madd_assign_scalar (self_ : (matrix A)) (rhs_ : (T A)) : res (matrix A) :=
  for_ 0 (rows self_) (fun i_ (self_ : (matrix A)) =>
      for_ 0 (cols self_) (fun j_ (self_ : (matrix A)) =>
          let* x1 := mget self_ i_ j_ in
          mset self_ i_ j_ (add x1 rhs_)) self_) self_.

(* src/matrix/arithmetic.rs : impl < T : Copy + Number > SubAssign < T > for Matrix < T > :: fn sub_assign *)
Definition s_msub_assign_scalar (self_ : (matrix A)) (rhs_ : (T A)) : res (matrix A) :=
  for_ 0 (rows self_) (fun i_ (self_ : (matrix A)) =>
      for_ 0 (cols self_) (fun j_ (self_ : (matrix A)) =>
          let* x1 := mget self_ i_ j_ in
          mset self_ i_ j_ (sub x1 rhs_)) self_) self_.

(* src/matrix/arithmetic.rs : impl < T : Clone + Copy + Number > Mul < & Matrix < T > > for & Matrix < T > :: fn mul *)
Definition s_mat_mul (self_ : (matrix A)) (mul_ : (matrix A)) : res (matrix A) :=
  if (negb ((cols self_) =? (rows mul_))%nat)
  then (Panic Guard)
  else (let result_ := (mat_new (rows self_) (cols mul_) (@zero A)) in
       for_ 0 (cols mul_) (fun col_ (result_ : (matrix A)) =>
           let* r1 := get_col mul_ col_ in
           let* r2 := multiply self_ r1 in
           set_col result_ col_ r2) result_).

(* src/matrix/arithmetic.rs : impl < T : Clone + Copy + Number > Mul < & Vector < T > > for & Matrix < T > :: fn mul *)
Definition s_mat_vec_mul (self_ : (matrix A)) (vec_ : (list (T A))) : res (list (T A)) :=
  multiply self_ vec_.

End SrcMatArith.
