(* gen/SrcWrapTridiag.v -- REGENERATED from the Rust source by driver/translate_src.py (rust2coq) on every check run.
   One definition s_<f> per translated function, in the state-passing style of the hand-written models. *)
From Coq Require Import List Arith ZArith Lia Bool.
From OV Require Import Base.Panic Base.Arith Model.Vector Model.Matrix Model.Tridiag Model.Banded Model.Poly Model.Newton gen.SrcPrelude.
Import ListNotations.

Section SrcWrapTridiag.
Context {A : Arith}.

(* src/tridiagonal.rs : impl < T > Tridiagonal < T > :: fn empty *)
Definition s_tempty  : res (tridiag A) :=
  let sub_ := (@nil (T A)) in
  let main_ := (@nil (T A)) in
  let sup_ := (@nil (T A)) in
  let n_ := 0 in
  Ok (mkT sub_ main_ sup_ n_).

(* src/tridiagonal.rs : impl < T > Tridiagonal < T > :: fn size *)
Definition s_tsize (self_ : (tridiag A)) : res nat :=
  Ok (tn self_).

(* src/tridiagonal.rs : impl < T > Tridiagonal < T > :: fn subdiagonal *)
Definition s_tsubdiagonal (self_ : (tridiag A)) : res (list (T A)) :=
  Ok (tsub self_).

(* src/tridiagonal.rs : impl < T > Tridiagonal < T > :: fn maindiagonal *)
Definition s_tmaindiagonal (self_ : (tridiag A)) : res (list (T A)) :=
  Ok (tmain self_).

(* src/tridiagonal.rs : impl < T > Tridiagonal < T > :: fn superdiagonal *)
Definition s_tsuperdiagonal (self_ : (tridiag A)) : res (list (T A)) :=
  Ok (tsup self_).

(* src/tridiagonal.rs : impl < T : Clone > Clone for Tridiagonal < T > :: fn clone *)
Definition s_tclone (self_ : (tridiag A)) : res (tridiag A) :=
  let sub_ := (tsub self_) in
  let main_ := (tmain self_) in
  let sup_ := (tsup self_) in
  let n_ := (tn self_) in
  Ok (mkT sub_ main_ sup_ n_).

(* src/tridiagonal.rs : impl < T : Clone + Copy + Number > Mul < Vector < T > > for Tridiagonal < T > :: fn mul *)
Definition s_tmul_val (self_ : (tridiag A)) (vec_ : (list (T A))) : res (list (T A)) :=
  tmul self_ vec_.

End SrcWrapTridiag.
