(* gen/SrcWrapPoly.v -- REGENERATED from the Rust source by driver/translate_src.py (rust2coq) on every check run.
   One definition s_<f> per translated function, in the state-passing style of the hand-written models. *)
From Coq Require Import List Arith ZArith Lia Bool.
From OV Require Import Base.Panic Base.Arith Model.Vector Model.Matrix Model.Tridiag Model.Banded Model.Poly Model.Newton gen.SrcPrelude.
Import ListNotations.

Section SrcWrapPoly.
Context {A : Arith}.

(* src/polynomial/arithmetic.rs : impl < T : Copy + Clone + Number > Add < Polynomial < T > > for Polynomial < T > :: fn add *)
Definition s_padd_val (self_ : (list (T A))) (plus_ : (list (T A))) : res (list (T A)) :=
  Ok (padd self_ plus_).

(* src/polynomial/arithmetic.rs : impl < T : Clone + Signed > Neg for Polynomial < T > :: fn neg *)
Definition s_pneg_val (self_ : (list (T A))) : res (list (T A)) :=
  Ok (pneg self_).

(* src/polynomial/arithmetic.rs : impl < T : Copy + Clone + Number + Signed > Sub < Polynomial < T > > for Polynomial < T > :: fn sub *)
Definition s_psub_val (self_ : (list (T A))) (minus_ : (list (T A))) : res (list (T A)) :=
  Ok (psub self_ minus_).

(* src/polynomial/arithmetic.rs : impl < T : Copy + Clone + Number > Mul < Polynomial < T > > for Polynomial < T > :: fn mul *)
Definition s_pmul_val (self_ : (list (T A))) (times_ : (list (T A))) : res (list (T A)) :=
  Ok (pmul self_ times_).

(* src/polynomial/arithmetic.rs : impl < T : Copy + Clone + Number > Mul < T > for Polynomial < T > :: fn mul *)
Definition s_pscale_val (self_ : (list (T A))) (times_ : (T A)) : res (list (T A)) :=
  Ok (pscale self_ times_).

(* src/polynomial/arithmetic.rs : impl < T > Index < usize > for Polynomial < T > :: fn index *)
Definition s_pindex (self_ : (list (T A))) (index_ : nat) : res (T A) :=
  if ((length self_) <=? index_)%nat
  then (Panic Guard)
  else (rd self_ index_).

(* src/polynomial/mod.rs : impl < T > Polynomial < T > :: fn empty *)
Definition s_pempty  : res (list (T A)) :=
  let coeffs_ := (@nil (T A)) in
  Ok coeffs_.

(* src/polynomial/mod.rs : impl < T > Polynomial < T > :: fn new *)
Definition s_pnew (coeffs_ : (list (T A))) : res (list (T A)) :=
  Ok coeffs_.

(* src/polynomial/mod.rs : impl < T > Polynomial < T > :: fn quadratic *)
Definition s_pquadratic (a_ : (T A)) (b_ : (T A)) (c_ : (T A)) : res (list (T A)) :=
  Ok (c_ :: b_ :: a_ :: (@nil (T A))).

(* src/polynomial/mod.rs : impl < T > Polynomial < T > :: fn cubic *)
Definition s_pcubic (a_ : (T A)) (b_ : (T A)) (c_ : (T A)) (d_ : (T A)) : res (list (T A)) :=
  Ok (d_ :: c_ :: b_ :: a_ :: (@nil (T A))).

(* src/polynomial/mod.rs : impl < T > Polynomial < T > :: fn size *)
Definition s_psize (self_ : (list (T A))) : res nat :=
  Ok (length self_).

(* src/polynomial/mod.rs : impl < T > Polynomial < T > :: fn degree *)
Definition s_pdegree (self_ : (list (T A))) : res (option nat) :=
  if ((length self_) =? 0)%nat
  then (Ok None)
  else (let* d1 := usub (length self_) 1 in
       Ok (Some d1)).

(* src/polynomial/mod.rs : impl < T : Clone > Clone for Polynomial < T > :: fn clone *)
Definition s_pclone (self_ : (list (T A))) : res (list (T A)) :=
  Ok self_.

End SrcWrapPoly.
