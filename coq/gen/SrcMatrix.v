(* gen/SrcMatrix.v -- REGENERATED from the Rust source by driver/translate_src.py (rust2coq) on every check run.
   One definition s_<f> per translated function, in the state-passing style of the hand-written models. *)
From Coq Require Import List Arith ZArith Lia Bool.
From OV Require Import Base.Panic Base.Arith Model.Vector Model.Matrix gen.SrcPrelude.
Import ListNotations.

Section SrcMatrix.
Context {A : Arith}.

(* src/matrix/operations.rs : impl < T : Clone + Copy + Number > Matrix < T > :: fn get_row *)
Definition s_get_row (self_ : (matrix A)) (row_ : nat) : res (list (T A)) :=
  if ((rows self_) <=? row_)%nat
  then (Panic Guard)
  else (let result_ := (repeat (@zero A) (cols self_)) in
       for_ 0 (cols self_) (fun j_ (result_ : (list (T A))) =>
           let* x1 := rd (buf self_) ((row_ * (cols self_))%nat + j_)%nat in
           upd result_ j_ x1) result_).

(* src/matrix/operations.rs : impl < T : Clone + Copy + Number > Matrix < T > :: fn get_col *)
Definition s_get_col (self_ : (matrix A)) (col_ : nat) : res (list (T A)) :=
  if ((cols self_) <=? col_)%nat
  then (Panic Guard)
  else (let result_ := (repeat (@zero A) (rows self_)) in
       for_ 0 (rows self_) (fun i_ (result_ : (list (T A))) =>
           let* x1 := rd (buf self_) ((i_ * (cols self_))%nat + col_)%nat in
           upd result_ i_ x1) result_).

(* src/matrix/operations.rs : impl < T : Clone + Copy + Number > Matrix < T > :: fn set_row *)
Definition s_set_row (self_ : (matrix A)) (row_ : nat) (vec_ : (list (T A))) : res (matrix A) :=
  if (negb ((length vec_) =? (cols self_))%nat)
  then (Panic Guard)
  else (if ((rows self_) <=? row_)%nat
       then (Panic Guard)
       else (for_ 0 (cols self_) (fun j_ (self_ : (matrix A)) =>
                let* x1 := rd vec_ j_ in
                let* b2 := upd (buf self_) ((row_ * (cols self_))%nat + j_)%nat x1 in
                let self_ := (mkM b2 (rows self_) (cols self_)) in
                Ok self_) self_)).

(* src/matrix/operations.rs : impl < T : Clone + Copy + Number > Matrix < T > :: fn set_col *)
Definition s_set_col (self_ : (matrix A)) (col_ : nat) (vec_ : (list (T A))) : res (matrix A) :=
  if (negb ((length vec_) =? (rows self_))%nat)
  then (Panic Guard)
  else (if ((cols self_) <=? col_)%nat
       then (Panic Guard)
       else (for_ 0 (rows self_) (fun i_ (self_ : (matrix A)) =>
                let* x1 := rd vec_ i_ in
                mset self_ i_ col_ x1) self_)).

(* src/matrix/operations.rs : impl < T : Clone + Copy + Number > Matrix < T > :: fn delete_row *)
Definition s_delete_row (self_ : (matrix A)) (row_ : nat) : res (matrix A) :=
  if ((rows self_) <=? row_)%nat
  then (Panic Guard)
  else (let* n1 := drain (buf self_) (row_ * (cols self_))%nat ((row_ + 1)%nat * (cols self_))%nat in
       let self_ := (mkM n1 (rows self_) (cols self_)) in
       let* d2 := usub (rows self_) 1 in
       let self_ := (mkM (buf self_) d2 (cols self_)) in
       Ok self_).

(* src/matrix/operations.rs : impl < T : Clone + Copy + Number > Matrix < T > :: fn multiply *)
Definition s_multiply (self_ : (matrix A)) (vec_ : (list (T A))) : res (list (T A)) :=
  if (negb ((length vec_) =? (cols self_))%nat)
  then (Panic Guard)
  else (let result_ := (@nil (T A)) in
       for_ 0 (rows self_) (fun row_ (result_ : (list (T A))) =>
           let* r1 := get_row self_ row_ in
           let* r2 := dot r1 vec_ in
           let result_ := (result_ ++ [r2]) in
           Ok result_) result_).

(* src/matrix/operations.rs : impl < T : Clone + Copy + Number > Matrix < T > :: fn eye *)
Definition s_eye (size_ : nat) : res (matrix A) :=
  let identity_ := (mat_new size_ size_ (@zero A)) in
  for_ 0 size_ (fun i_ (identity_ : (matrix A)) =>
      mset identity_ i_ i_ (@one A)) identity_.

(* src/matrix/operations.rs : impl < T : Clone + Copy + Number > Matrix < T > :: fn resize *)
Definition s_resize (self_ : (matrix A)) (n_rows_ : nat) (n_cols_ : nat) : res (matrix A) :=
  let temp_ := self_ in
  let self_ := (mat_new n_rows_ n_cols_ (@zero A)) in
  for_ 0 n_rows_ (fun i_ (self_ : (matrix A)) =>
      for_ 0 n_cols_ (fun j_ (self_ : (matrix A)) =>
          if ((i_ <? (rows temp_))%nat && (j_ <? (cols temp_))%nat)%bool
          then (let* x1 := mget temp_ i_ j_ in
               mset self_ i_ j_ x1)
          else (Ok self_)) self_) self_.

(* src/matrix/operations.rs : impl < T : Clone + Copy + Number > Matrix < T > :: fn transpose_in_place *)
Definition s_transpose_in_place (self_ : (matrix A)) : res (matrix A) :=
  if ((rows self_) =? (cols self_))%nat
  then (for_ 0 (rows self_) (fun i_ (self_ : (matrix A)) =>
           for_ (i_ + 1)%nat (cols self_) (fun j_ (self_ : (matrix A)) =>
               let* temp_ := mget self_ i_ j_ in
               let* x2 := mget self_ j_ i_ in
               let o3 := temp_ in
               let* self_ := mset self_ j_ i_ o3 in
               let temp_ := x2 in
               mset self_ i_ j_ temp_) self_) self_)
  else (let temp_ := (@nil (T A)) in
       let* temp_ := for_ 0 (cols self_) (fun j_ (temp_ : (list (T A))) =>
               for_ 0 (rows self_) (fun i_ (temp_ : (list (T A))) =>
                   let* x4 := mget self_ i_ j_ in
                   let temp_ := (temp_ ++ [x4]) in
                   Ok temp_) temp_) temp_ in
       let self_ := (mkM temp_ (rows self_) (cols self_)) in
       let o5 := (rows self_) in
       let o6 := (cols self_) in
       let self_ := (mkM (buf self_) o6 (cols self_)) in
       let self_ := (mkM (buf self_) (rows self_) o5) in
       Ok self_).

(* src/matrix/operations.rs : impl < T : Clone + Copy + Number > Matrix < T > :: fn transpose *)
Definition s_transpose (self_ : (matrix A)) : res (matrix A) :=
  let temp_ := self_ in
  transpose_in_place temp_.

(* src/matrix/operations.rs : impl < T : Clone + Copy + Number > Matrix < T > :: fn swap_rows *)
Definition s_swap_rows (self_ : (matrix A)) (row_1_ : nat) (row_2_ : nat) : res (matrix A) :=
  if (((rows self_) <=? row_1_)%nat || ((rows self_) <=? row_2_)%nat)%bool
  then (Panic Guard)
  else (for_ 0 (cols self_) (fun j_ (self_ : (matrix A)) =>
           swap_elem self_ row_1_ j_ row_2_ j_) self_).

(* src/matrix/operations.rs : impl < T : Clone + Copy + Number > Matrix < T > :: fn swap_elem *)
Definition s_swap_elem (self_ : (matrix A)) (row_1_ : nat) (col_1_ : nat) (row_2_ : nat) (col_2_ : nat) : res (matrix A) :=
  let* temp_ := mget self_ row_1_ col_1_ in
  let* x2 := mget self_ row_2_ col_2_ in
  let o3 := temp_ in
  let* self_ := mset self_ row_2_ col_2_ o3 in
  let temp_ := x2 in
  mset self_ row_1_ col_1_ temp_.

(* src/matrix/operations.rs : impl < T : Clone + Copy + Number > Matrix < T > :: fn fill *)
Definition s_fill (self_ : (matrix A)) (elem_ : (T A)) : res (matrix A) :=
  for_ 0 (rows self_) (fun i_ (self_ : (matrix A)) =>
      for_ 0 (cols self_) (fun j_ (self_ : (matrix A)) =>
          mset self_ i_ j_ elem_) self_) self_.

(* src/matrix/operations.rs : impl < T : Clone + Copy + Number > Matrix < T > :: fn fill_diag *)
Definition s_fill_diag (self_ : (matrix A)) (elem_ : (T A)) : res (matrix A) :=
  let n_ := (if ((cols self_) <? (rows self_))%nat then (cols self_) else (rows self_)) in
  for_ 0 n_ (fun i_ (self_ : (matrix A)) =>
      mset self_ i_ i_ elem_) self_.

(* src/matrix/operations.rs : impl < T : Clone + Copy + Number > Matrix < T > :: fn fill_band *)
Definition s_fill_band (self_ : (matrix A)) (offset_ : Z) (elem_ : (T A)) : res (matrix A) :=
  for_ 0 (rows self_) (fun row_ (self_ : (matrix A)) =>
      let i_ := ((Z.of_nat row_) + offset_)%Z in
      if (((isize_as_usize i_) <? (cols self_))%nat && ((0)%Z <=? i_)%Z)%bool
      then (mset self_ row_ (isize_as_usize i_) elem_)
      else (Ok self_)) self_.

(* src/matrix/operations.rs : impl < T : Clone + Copy + Number > Matrix < T > :: fn fill_tridiag *)
Definition s_fill_tridiag (self_ : (matrix A)) (lower_ : (T A)) (diag_ : (T A)) (upper_ : (T A)) : res (matrix A) :=
  let* self_ := fill_band self_ (-1)%Z lower_ in
  let* self_ := fill_diag self_ diag_ in
  fill_band self_ (1)%Z upper_.

(* src/matrix/operations.rs : impl < T : Clone + Copy + Number > Matrix < T > :: fn fill_row *)
Definition s_fill_row (self_ : (matrix A)) (row_ : nat) (elem_ : (T A)) : res (matrix A) :=
  if ((rows self_) <=? row_)%nat
  then (Panic Guard)
  else (for_ 0 (cols self_) (fun j_ (self_ : (matrix A)) =>
           mset self_ row_ j_ elem_) self_).

(* src/matrix/operations.rs : impl < T : Clone + Copy + Number > Matrix < T > :: fn fill_col *)
Definition s_fill_col (self_ : (matrix A)) (col_ : nat) (elem_ : (T A)) : res (matrix A) :=
  if ((cols self_) <=? col_)%nat
  then (Panic Guard)
  else (for_ 0 (rows self_) (fun i_ (self_ : (matrix A)) =>
           mset self_ i_ col_ elem_) self_).

(* src/matrix/mod.rs : impl < T : Clone + Number > Matrix < T > :: fn new *)
Definition s_mat_new (rows_ : nat) (cols_ : nat) (elem_ : (T A)) : res (matrix A) :=
  let size_ := (rows_ * cols_)%nat in
  let mat_ := (@nil (T A)) in
  let* mat_ := for_ 0 size_ (fun _i_ (mat_ : (list (T A))) =>
          let mat_ := (mat_ ++ [elem_]) in
          Ok mat_) mat_ in
  Ok (mkM mat_ rows_ cols_).

(* src/matrix/mod.rs : impl < T > Matrix < T > :: fn numel *)
Definition s_numel (self_ : (matrix A)) : res nat :=
  Ok ((cols self_) * (rows self_))%nat.

(* src/matrix/operations.rs : impl < T > Index < ( usize , usize ) > for Matrix < T > :: fn index *)
Definition s_mindex (self_ : (matrix A)) (index_ : (nat * nat)) : res (T A) :=
  rd (buf self_) (((fst index_) * (cols self_))%nat + (snd index_))%nat.

(* src/matrix/operations.rs : impl < T > Matrix < T > :: fn clear *)
Definition s_mclear (self_ : (matrix A)) : res (matrix A) :=
  let n1 := ((@nil (T A))) in
  let self_ := (mkM n1 (rows self_) (cols self_)) in
  let self_ := (mkM (buf self_) 0 (cols self_)) in
  let self_ := (mkM (buf self_) (rows self_) 0) in
  Ok self_.

End SrcMatrix.
