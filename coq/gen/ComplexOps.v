(* gen/ComplexOps.v -- the operator impls of src/complex/mod.rs, REGENERATED from /repo/src by driver/translate.py
   on every check run (straight-line bodies translated statement by statement; `/` is the fallible `div`). *)
From OV Require Import Base.Panic Base.Arith Model.Complex.
Section CxGen.
Context {A : Arith}.

Definition t_conj (z : cplx A) : cplx A :=
  (mkC (re z) (neg (im z))).
Definition t_cneg (z : cplx A) : cplx A :=
  (mkC (neg (re z)) (neg (im z))).
Definition t_cadd (z : cplx A) (w : cplx A) : cplx A :=
  (mkC (add (re z) (re w)) (add (im z) (im w))).
Definition t_csub (z : cplx A) (w : cplx A) : cplx A :=
  (mkC (sub (re z) (re w)) (sub (im z) (im w))).
Definition t_cmul (z : cplx A) (w : cplx A) : cplx A :=
  let real1 := (sub (mul (re z) (re w)) (mul (im z) (im w))) in
  let imag2 := (add (mul (re z) (im w)) (mul (im z) (re w))) in
  (mkC real1 imag2).
Definition t_cdiv (z : cplx A) (w : cplx A) : res (cplx A) :=
  let denominator1 := (add (mul (re w) (re w)) (mul (im w) (im w))) in
  let real2 := (add (mul (re z) (re w)) (mul (im z) (im w))) in
  let imag3 := (sub (mul (im z) (re w)) (mul (re z) (im w))) in
  let* q4 := div real2 denominator1 in
  let* q5 := div imag3 denominator1 in
  Ok (mkC q4 q5).
Definition t_cadd_r (z : cplx A) (r : A) : cplx A :=
  (mkC (add (re z) r) (im z)).
Definition t_csub_r (z : cplx A) (r : A) : cplx A :=
  (mkC (sub (re z) r) (im z)).
Definition t_cmul_r (z : cplx A) (r : A) : cplx A :=
  (mkC (mul (re z) r) (mul (im z) r)).
Definition t_cdiv_r (z : cplx A) (r : A) : res (cplx A) :=
  let* q1 := div (re z) r in
  let* q2 := div (im z) r in
  Ok (mkC q1 q2).
Definition t_cadd_assign (z : cplx A) (w : cplx A) : cplx A :=
  let real1 := (add (re z) (re w)) in
  let imag2 := (add (im z) (im w)) in
  (mkC real1 imag2).
Definition t_csub_assign (z : cplx A) (w : cplx A) : cplx A :=
  let real1 := (sub (re z) (re w)) in
  let imag2 := (sub (im z) (im w)) in
  (mkC real1 imag2).
Definition t_cmul_assign (z : cplx A) (w : cplx A) : cplx A :=
  let a1 := (re z) in
  let real2 := (mul (re z) (re w)) in
  let real3 := (sub real2 (mul (im z) (im w))) in
  let imag4 := (mul (im z) (re w)) in
  let imag5 := (add imag4 (mul a1 (im w))) in
  (mkC real3 imag5).
Definition t_cdiv_assign (z : cplx A) (w : cplx A) : res (cplx A) :=
  let a1 := (re z) in
  let denominator2 := (add (mul (re w) (re w)) (mul (im w) (im w))) in
  let real3 := (mul (re z) (re w)) in
  let real4 := (add real3 (mul (im z) (im w))) in
  let* q5 := div real4 denominator2 in
  let real6 := q5 in
  let imag7 := (mul (im z) (re w)) in
  let imag8 := (sub imag7 (mul a1 (im w))) in
  let* q9 := div imag8 denominator2 in
  let imag10 := q9 in
  Ok (mkC real6 imag10).
Definition t_cadd_assign_r (z : cplx A) (r : A) : cplx A :=
  let real1 := (add (re z) r) in
  (mkC real1 (im z)).
Definition t_csub_assign_r (z : cplx A) (r : A) : cplx A :=
  let real1 := (sub (re z) r) in
  (mkC real1 (im z)).
Definition t_cmul_assign_r (z : cplx A) (r : A) : cplx A :=
  let real1 := (mul (re z) r) in
  let imag2 := (mul (im z) r) in
  (mkC real1 imag2).
Definition t_cdiv_assign_r (z : cplx A) (r : A) : res (cplx A) :=
  let* q1 := div (re z) r in
  let real2 := q1 in
  let* q3 := div (im z) r in
  let imag4 := q3 in
  Ok (mkC real2 imag4).
Definition t_abs_sqr (z : cplx A) : A :=
  (add (mul (re z) (re z)) (mul (im z) (im z))).
Definition t_ceqb (z w : cplx A) : bool := andb (eqb (re z) (re w)) (eqb (im z) (im w)).
Definition t_ccmp {X} (cmp : A -> A -> X) (z w : cplx A) : X :=
  if negb (eqb (re z) (re w)) then cmp (re z) (re w) else cmp (im z) (im w).
Definition t_czero : cplx A := (mkC zero zero).
Definition t_cone : cplx A := (mkC one zero).
Definition t_rmul_c (r : A) (z : cplx A) : cplx A := t_cmul_r z r.

End CxGen.
