(* gen/SrcPoly.v -- REGENERATED from the Rust source by driver/translate_src.py (rust2coq) on every check run.
   One definition s_<f> per translated function, in the state-passing style of the hand-written models. *)
From Coq Require Import List Arith ZArith Lia Bool.
From OV Require Import Base.Panic Base.Arith Model.Poly gen.SrcPrelude.
Import ListNotations.

Section SrcPoly.
Context {A : Arith}.

(* src/polynomial/mod.rs : impl < T > Polynomial < T > :: fn is_zero *)
Definition s_is_zero (self_ : (list (T A))) : res bool :=
  let* o2 := for_ret 0 (length self_) (fun i_ (_ : unit) =>
          let* x1 := rd self_ i_ in
          if (negb (eqb x1 (@zero A)))
          then (Ok (inr false))
          else (Ok (inl tt))) tt in
  match o2 with
  | inl _ => Ok true
  | inr r3 => Ok r3
  end.

(* src/polynomial/mod.rs : impl < T > Polynomial < T > :: fn eval *)
Definition s_peval (self_ : (list (T A))) (x_ : (T A)) : res (T A) :=
  let* degree_ := unwrap_opt (pdegree self_) in
  let* p_ := rd self_ degree_ in
  for_rev 0 degree_ (fun i_ (p_ : (T A)) =>
      let* x3 := rd self_ i_ in
      let p_ := (add (mul p_ x_) x3) in
      Ok p_) p_.

(* src/polynomial/mod.rs : impl < T : Clone + Copy + Zero + Mul < Output = T > + Add < Output = T > > Polynomial < T > :: fn derivative *)
Definition s_pderiv (self_ : (list (T A))) : res (list (T A)) :=
  let p_ := (@nil (T A)) in
  let* degree_ := unwrap_opt (pdegree self_) in
  let p_ := (repeat (@zero A) degree_) in
  for_ 0 degree_ (fun i_ (p_ : (list (T A))) =>
      for_ 0 (i_ + 1)%nat (fun _ (p_ : (list (T A))) =>
          let* x2 := rd p_ i_ in
          let* x3 := rd self_ (i_ + 1)%nat in
          upd p_ i_ (add x2 x3)) p_) p_.

(* src/polynomial/mod.rs : impl < T : Clone + Copy + Zero + Mul < Output = T > + Add < Output = T > > Polynomial < T > :: fn derivative_n *)
Definition s_pderiv_n (self_ : (list (T A))) (n_ : nat) : res (list (T A)) :=
  let p_ := self_ in
  for_ 0 n_ (fun _ (p_ : (list (T A))) =>
      pderiv p_) p_.

(* src/polynomial/mod.rs : impl < T : Clone + Copy + Zero + Mul < Output = T > + Add < Output = T > > Polynomial < T > :: fn derivative_at *)
Definition s_pderiv_at (self_ : (list (T A))) (x_ : (T A)) (n_ : nat) : res (T A) :=
  let* p_ := pderiv_n self_ n_ in
  peval p_ x_.

(* src/polynomial/arithmetic.rs : impl < T : Copy + Clone + Number > Add < & Polynomial < T > > for & Polynomial < T > :: fn add *)
Definition s_padd (self_ : (list (T A))) (plus_ : (list (T A))) : res (list (T A)) :=
  let sum_ := (@nil (T A)) in
  match (pdegree self_) with
  | Some d_ => let degree_ := d_ in
      match (pdegree plus_) with
      | Some d_1 => let plus_degree_ := d_1 in
          let* degree_ := if (degree_ <? plus_degree_)%nat
              then (let degree_ := plus_degree_ in
                   Ok degree_)
              else (Ok degree_) in
          let sum_ := (repeat (@zero A) (degree_ + 1)%nat) in
          for_ 0 (degree_ + 1)%nat (fun i_ (sum_ : (list (T A))) =>
              let* u1 := unwrap_opt (pdegree self_) in
              let* sum_ := if (i_ <=? u1)%nat
                  then (let* x2 := rd sum_ i_ in
                       let* x3 := rd self_ i_ in
                       upd sum_ i_ (add x2 x3))
                  else (Ok sum_) in
              let* u4 := unwrap_opt (pdegree plus_) in
              if (i_ <=? u4)%nat
              then (let* x5 := rd sum_ i_ in
                   let* x6 := rd plus_ i_ in
                   upd sum_ i_ (add x5 x6))
              else (Ok sum_)) sum_
      | None => Ok self_
      end
  | None => Ok plus_
  end.

(* src/polynomial/arithmetic.rs : impl < T : Clone + Signed > Neg for & Polynomial < T > :: fn neg *)
Definition s_pneg (self_ : (list (T A))) : res (list (T A)) :=
  let neg_ := (@nil (T A)) in
  let neg_ := (map (fun x_ => (neg x_)) self_) in
  Ok neg_.

(* src/polynomial/arithmetic.rs : impl < T : Copy + Clone + Number + Signed > Sub < & Polynomial < T > > for & Polynomial < T > :: fn sub *)
Definition s_psub (self_ : (list (T A))) (minus_ : (list (T A))) : res (list (T A)) :=
  let diff_ := (@nil (T A)) in
  match (pdegree self_) with
  | Some d_ => let degree_ := d_ in
      match (pdegree minus_) with
      | Some d_1 => let minus_degree_ := d_1 in
          let* degree_ := if (degree_ <? minus_degree_)%nat
              then (let degree_ := minus_degree_ in
                   Ok degree_)
              else (Ok degree_) in
          let diff_ := (repeat (@zero A) (degree_ + 1)%nat) in
          for_ 0 (degree_ + 1)%nat (fun i_ (diff_ : (list (T A))) =>
              let* u1 := unwrap_opt (pdegree self_) in
              let* diff_ := if (i_ <=? u1)%nat
                  then (let* x2 := rd diff_ i_ in
                       let* x3 := rd self_ i_ in
                       upd diff_ i_ (add x2 x3))
                  else (Ok diff_) in
              let* u4 := unwrap_opt (pdegree minus_) in
              if (i_ <=? u4)%nat
              then (let* x5 := rd diff_ i_ in
                   let* x6 := rd minus_ i_ in
                   upd diff_ i_ (sub x5 x6))
              else (Ok diff_)) diff_
      | None => Ok self_
      end
  | None => Ok (pneg minus_)
  end.

(* src/polynomial/arithmetic.rs : impl < T : Copy + Clone + Number > Mul < & Polynomial < T > > for & Polynomial < T > :: fn mul *)
Definition s_pmul (self_ : (list (T A))) (times_ : (list (T A))) : res (list (T A)) :=
  let product_ := (@nil (T A)) in
  match (pdegree self_) with
  | Some d_ => let degree_ := d_ in
      match (pdegree times_) with
      | Some d_1 => let times_degree_ := d_1 in
          let degree_ := (degree_ + times_degree_)%nat in
          let product_ := (repeat (@zero A) (degree_ + 1)%nat) in
          let* u1 := unwrap_opt (pdegree self_) in
          for_ 0 (u1 + 1)%nat (fun i_ (product_ : (list (T A))) =>
              let* u2 := unwrap_opt (pdegree times_) in
              for_ 0 (u2 + 1)%nat (fun j_ (product_ : (list (T A))) =>
                  let* x3 := rd product_ (i_ + j_)%nat in
                  let* x4 := rd self_ i_ in
                  let* x5 := rd times_ j_ in
                  upd product_ (i_ + j_)%nat (add x3 (mul x4 x5))) product_) product_
      | None => Ok (@nil (T A))
      end
  | None => Ok (@nil (T A))
  end.

(* src/polynomial/arithmetic.rs : impl < T : Copy + Clone + Number > Mul < T > for & Polynomial < T > :: fn mul *)
Definition s_pscale (self_ : (list (T A))) (times_ : (T A)) : res (list (T A)) :=
  let product_ := (@nil (T A)) in
  let product_ := (map (fun x_ => (mul x_ times_)) self_) in
  Ok product_.

(* src/polynomial/mod.rs : impl < T > Polynomial < T > :: fn trim *)
Definition s_ptrim (self_ : (list (T A))) : res (list (T A)) :=
  let* i_ := usub (length self_) 1 in
  let* o6 := while_ret (length self_) (fun (s5 : ((list (T A)) * nat)) =>
          let '(self_, i_) := s5 in
          let* x2 := rd self_ i_ in
          if ((eqb x2 (@zero A)) && (0 <? i_)%nat)%bool
          then (let n3 := (removelast self_) in
               let self_ := n3 in
               let* i_ := usub i_ 1 in
               Ok (WNext (self_, i_)))
          else (Ok (WDone (self_, i_)))) (self_, i_) in
  match o6 with
  | Some (inl (self_, i_)) => Ok self_
  | Some (inr r7) => Ok r7
  | None => Panic Guard
  end.

(* src/polynomial/arithmetic.rs : impl < T : Copy + Clone + Number + Signed + std :: fmt :: Debug > Polynomial < T > :: fn polydiv *)
Definition s_polydiv (self_ : (list (T A))) (v_ : (list (T A))) : res (((list (T A)) * (list (T A))) + pderr) :=
  if ((length v_) =? 0)%nat
  then (Ok (inr EZeroDiv))
  else (if (is_zero v_)
       then (Ok (inr EZeroDiv))
       else (let q_ := (@nil (T A)) in
            let r_ := self_ in
            let count_ := 0 in
            let* o17 := while_ret (S 1000) (fun (s16 : ((list (T A)) * (list (T A)) * nat)) =>
                    let '(q_, r_, count_) := s16 in
                    let* c3 := if (negb (is_zero r_))
                        then (match (pdegree r_) with
                             | Some d1 => match (pdegree v_) with
                                 | Some d2 => Ok (d2 <=? d1)%nat
                                 | None => Panic Unwrap
                                 end
                             | None => Panic Unwrap
                             end)
                        else (Ok false) in
                    if c3
                    then (let t_ := (@nil (T A)) in
                         match (pdegree r_) with
                         | Some d4 => match (pdegree v_) with
                             | Some d5 => let* d6 := usub d4 d5 in
                                 let t_ := (repeat (@zero A) (d6 + 1)%nat) in
                                 match (pdegree r_) with
                                 | Some d7 => let* x8 := rd r_ d7 in
                                     match (pdegree v_) with
                                     | Some d9 => let* x10 := rd v_ d9 in
                                         let* q11 := div x8 x10 in
                                         match (pdegree r_) with
                                         | Some d12 => match (pdegree v_) with
                                             | Some d13 => let* d14 := usub d12 d13 in
                                                 let* t_ := upd t_ d14 q11 in
                                                 let q_ := (padd q_ t_) in
                                                 let r_ := (psub r_ (pmul t_ v_)) in
                                                 let* lead_ := usub (length r_) 1 in
                                                 let* r_ := upd r_ lead_ (@zero A) in
                                                 let* r_ := ptrim r_ in
                                                 let* q_ := ptrim q_ in
                                                 let count_ := (count_ + 1)%nat in
                                                 if (1000 <? count_)%nat
                                                 then (Ok (WRet (inr EMaxIter)))
                                                 else (Ok (WNext (q_, r_, count_)))
                                             | None => Panic Unwrap
                                             end
                                         | None => Panic Unwrap
                                         end
                                     | None => Panic Unwrap
                                     end
                                 | None => Panic Unwrap
                                 end
                             | None => Panic Unwrap
                             end
                         | None => Panic Unwrap
                         end)
                    else (Ok (WDone (q_, r_, count_)))) (q_, r_, count_) in
            match o17 with
            | Some (inl (q_, r_, count_)) => Ok (inl (q_, r_))
            | Some (inr r18) => Ok r18
            | None => Ok (inr EMaxIter)
            end)).

End SrcPoly.
