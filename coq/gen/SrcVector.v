(* gen/SrcVector.v -- REGENERATED from the Rust source by driver/translate_src.py (rust2coq) on every check run.
   One definition s_<f> per translated function, in the state-passing style of the hand-written models. *)
From Coq Require Import List Arith ZArith Lia Bool.
From OV Require Import Base.Panic Base.Arith Model.Vector gen.SrcPrelude.
Import ListNotations.

Section SrcVector.
Context {A : Arith}.

(* src/vector/functions.rs : impl < T : Copy + Number > Vector < T > :: fn dot *)
Definition s_dot (self_ : (list (T A))) (w_ : (list (T A))) : res (T A) :=
  if (negb ((length self_) =? (length w_))%nat)
  then (Panic Guard)
  else (let result_ := (@zero A) in
       for_ 0 (length self_) (fun i_ (result_ : (T A)) =>
           let* x1 := rd self_ i_ in
           let* x2 := rd w_ i_ in
           let result_ := (add result_ (mul x1 x2)) in
           Ok result_) result_).

(* src/vector/functions.rs : impl < T : Copy + Number > Vector < T > :: fn sum *)
Definition s_sum (self_ : (list (T A))) : res (T A) :=
  let* d1 := usub (length self_) 1 in
  sum_slice self_ 0 d1.

(* src/vector/functions.rs : impl < T : Copy + Number > Vector < T > :: fn sum_slice *)
Definition s_sum_slice (self_ : (list (T A))) (start_ : nat) (end_ : nat) : res (T A) :=
  if (end_ <? start_)%nat
  then (Panic Guard)
  else (if ((length self_) <=? start_)%nat
       then (Panic Guard)
       else (if ((length self_) <=? end_)%nat
            then (Panic Guard)
            else (let result_ := (@zero A) in
                 for_ start_ (end_ + 1)%nat (fun i_ (result_ : (T A)) =>
                     let* x1 := rd self_ i_ in
                     let result_ := (add result_ x1) in
                     Ok result_) result_))).

(* src/vector/functions.rs : impl < T : Copy + Number > Vector < T > :: fn product *)
Definition s_product (self_ : (list (T A))) : res (T A) :=
  let* d1 := usub (length self_) 1 in
  product_slice self_ 0 d1.

(* src/vector/functions.rs : impl < T : Copy + Number > Vector < T > :: fn product_slice *)
Definition s_product_slice (self_ : (list (T A))) (start_ : nat) (end_ : nat) : res (T A) :=
  if (end_ <? start_)%nat
  then (Panic Guard)
  else (if ((length self_) <=? start_)%nat
       then (Panic Guard)
       else (if ((length self_) <=? end_)%nat
            then (Panic Guard)
            else (let* result_ := rd self_ start_ in
                 for_ (start_ + 1)%nat (end_ + 1)%nat (fun i_ (result_ : (T A)) =>
                     let* x2 := rd self_ i_ in
                     let result_ := (mul result_ x2) in
                     Ok result_) result_))).

(* src/vector/functions.rs : impl < T : Clone + Signed + Number > Vector < T > :: fn abs *)
Definition s_vabs (self_ : (list (T A))) : res (list (T A)) :=
  let size_ := (length self_) in
  let vec_ := (repeat (@zero A) size_) in
  for_ 0 size_ (fun i_ (vec_ : (list (T A))) =>
      let* x1 := rd self_ i_ in
      upd vec_ i_ (abs x1)) vec_.

(* src/vector/functions.rs : impl < T : Clone + Signed + Number > Vector < T > :: fn norm_1 *)
Definition s_norm_1 (self_ : (list (T A))) : res (T A) :=
  let result_ := (@zero A) in
  for_ 0 (length self_) (fun i_ (result_ : (T A)) =>
      let* x1 := rd self_ i_ in
      let result_ := (add result_ (abs x1)) in
      Ok result_) result_.

(* src/vector/functions.rs : impl < T : Copy > Vector < T > :: fn assign *)
Definition s_assign (self_ : (list (T A))) (elem_ : (T A)) : res (list (T A)) :=
  for_ 0 (length self_) (fun i_ (self_ : (list (T A))) =>
      upd self_ i_ elem_) self_.

(* src/vector/arithmetic.rs : impl < T : Clone + Neg < Output = T > > Neg for Vector < T > :: fn neg *)
Definition s_vneg (self_ : (list (T A))) : res (list (T A)) :=
  let result_ := self_ in
  for_ 0 (length result_) (fun i_ (result_ : (list (T A))) =>
      let* x1 := rd result_ i_ in
      upd result_ i_ (neg x1)) result_.

(* src/vector/arithmetic.rs : impl < T : Clone + Number + Copy > Add < & Vector < T > > for & Vector < T > :: fn add *)
Definition s_vadd (self_ : (list (T A))) (plus_ : (list (T A))) : res (list (T A)) :=
  if (negb ((length self_) =? (length plus_))%nat)
  then (Panic Guard)
  else (let result_ := (@nil (T A)) in
       for_ 0 (length self_) (fun i_ (result_ : (list (T A))) =>
           let* x1 := rd self_ i_ in
           let* x2 := rd plus_ i_ in
           let result_ := (result_ ++ [(add x1 x2)]) in
           Ok result_) result_).

(* src/vector/arithmetic.rs : impl < T : Clone + Number + Copy > Sub < & Vector < T > > for & Vector < T > :: fn sub *)
Definition s_vsub (self_ : (list (T A))) (minus_ : (list (T A))) : res (list (T A)) :=
  if (negb ((length self_) =? (length minus_))%nat)
  then (Panic Guard)
  else (let result_ := (@nil (T A)) in
       for_ 0 (length self_) (fun i_ (result_ : (list (T A))) =>
           let* x1 := rd self_ i_ in
           let* x2 := rd minus_ i_ in
           let result_ := (result_ ++ [(sub x1 x2)]) in
           Ok result_) result_).

(* src/vector/arithmetic.rs : impl < T : Clone + Number > Mul < T > for Vector < T > :: fn mul *)
Definition s_vscale (self_ : (list (T A))) (scalar_ : (T A)) : res (list (T A)) :=
  let result_ := (@nil (T A)) in
  for_ 0 (length self_) (fun i_ (result_ : (list (T A))) =>
      let* x1 := rd self_ i_ in
      let result_ := (result_ ++ [(mul x1 scalar_)]) in
      Ok result_) result_.

(* src/vector/arithmetic.rs : impl Mul < Vector < f64 > > for f64 :: fn mul *)
Definition s_vscale_l (self_ : (T A)) (vector_ : (list (T A))) : res (list (T A)) :=
  let result_ := (@nil (T A)) in
  for_ 0 (length vector_) (fun i_ (result_ : (list (T A))) =>
      let* x1 := rd vector_ i_ in
      let result_ := (result_ ++ [(mul self_ x1)]) in
      Ok result_) result_.

(* src/vector/arithmetic.rs : impl < T : Clone + Number > Div < T > for Vector < T > :: fn div *)
Definition s_vdiv (self_ : (list (T A))) (scalar_ : (T A)) : res (list (T A)) :=
  let result_ := (@nil (T A)) in
  for_ 0 (length self_) (fun i_ (result_ : (list (T A))) =>
      let* x1 := rd self_ i_ in
      let* q2 := div x1 scalar_ in
      let result_ := (result_ ++ [q2]) in
      Ok result_) result_.

(* src/vector/arithmetic.rs : impl < T : Clone + Number > AddAssign for Vector < T > :: fn add_assign *)
Definition s_vadd_assign (self_ : (list (T A))) (rhs_ : (list (T A))) : res (list (T A)) :=
  if (negb ((length self_) =? (length rhs_))%nat)
  then (Panic Guard)
  else (for_ 0 (length self_) (fun i_ (self_ : (list (T A))) =>
           let* x1 := rd self_ i_ in
           let* x2 := rd rhs_ i_ in
           upd self_ i_ (add x1 x2)) self_).

(* src/vector/arithmetic.rs : impl < T : Clone + Number > SubAssign for Vector < T > :: fn sub_assign *)
Definition s_vsub_assign (self_ : (list (T A))) (rhs_ : (list (T A))) : res (list (T A)) :=
  if (negb ((length self_) =? (length rhs_))%nat)
  then (Panic Guard)
  else (for_ 0 (length self_) (fun i_ (self_ : (list (T A))) =>
           let* x1 := rd self_ i_ in
           let* x2 := rd rhs_ i_ in
           upd self_ i_ (sub x1 x2)) self_).

(* src/vector/arithmetic.rs : impl < T : Clone + Number > AddAssign < T > for Vector < T > :: fn add_assign *)
Definition s_vadd_scalar (self_ : (list (T A))) (rhs_ : (T A)) : res (list (T A)) :=
  for_ 0 (length self_) (fun i_ (self_ : (list (T A))) =>
      let* x1 := rd self_ i_ in
      upd self_ i_ (add x1 rhs_)) self_.

(* src/vector/arithmetic.rs : impl < T : Clone + Number > SubAssign < T > for Vector < T > :: fn sub_assign *)
Definition s_vsub_scalar (self_ : (list (T A))) (rhs_ : (T A)) : res (list (T A)) :=
  for_ 0 (length self_) (fun i_ (self_ : (list (T A))) =>
      let* x1 := rd self_ i_ in
      upd self_ i_ (sub x1 rhs_)) self_.

(* src/vector/arithmetic.rs : impl < T : Clone + Number > MulAssign < T > for Vector < T > :: fn mul_assign *)
Definition s_vmul_scalar (self_ : (list (T A))) (rhs_ : (T A)) : res (list (T A)) :=
  for_ 0 (length self_) (fun i_ (self_ : (list (T A))) =>
      let* x1 := rd self_ i_ in
      upd self_ i_ (mul x1 rhs_)) self_.

(* src/vector/arithmetic.rs : impl < T : Clone + Number > DivAssign < T > for Vector < T > :: fn div_assign *)
Definition s_vdiv_scalar (self_ : (list (T A))) (rhs_ : (T A)) : res (list (T A)) :=
  for_ 0 (length self_) (fun i_ (self_ : (list (T A))) =>
      let* x1 := rd self_ i_ in
      let* q2 := div x1 rhs_ in
      upd self_ i_ q2) self_.

End SrcVector.
