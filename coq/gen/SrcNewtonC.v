(* gen/SrcNewtonC.v -- REGENERATED from the Rust source by driver/translate_src.py (rust2coq) on every check run.
   One definition s_<f> per translated function, in the state-passing style of the hand-written models. *)
From Coq Require Import List Arith ZArith Lia Bool.
From OV Require Import Base.Panic Base.Arith Model.Complex Model.Vector Model.Matrix Model.Solve Model.Newton gen.SrcPrelude.
Import ListNotations.

Section SrcNewtonC.
Context {S : SArith}.
Local Notation A := (SA S).
Local Notation CA := (CArith S).

(* src/newton.rs : impl Newton < Cmplx > :: fn solve *)
Definition s_newton_solve_cmplx (self_ : (ncfg (T A) (T CA))) (func_ : ((T CA) -> res (T CA))) : res (nres (T CA)) :=
  let current_ := (guess self_) in
  let* o6 := for_ret 0 (max_iter self_) (fun _ (current_ : (T CA)) =>
          let* y1 := func_ (add current_ (mkC (delta self_) (@zero A) : T CA)) in
          let* y2 := func_ (sub current_ (mkC (delta self_) (@zero A) : T CA)) in
          let* deriv_ := cdiv_r (sub y1 y2) (mul (add (@one A) (@one A)) (delta self_)) in
          let* y4 := func_ current_ in
          let* dx_ := div y4 deriv_ in
          let current_ := (sub current_ dx_) in
          if (leb (sqrt (abs_sqr dx_)) (tol self_))
          then (Ok (inr (NOk current_)))
          else (Ok (inl current_))) current_ in
  match o6 with
  | inl current_ => Ok (NErr current_)
  | inr r7 => Ok r7
  end.

(* src/newton.rs : impl Newton < Vector < Cmplx > > :: fn solve *)
Definition s_newton_solve_vcmplx (self_ : (ncfg (T A) (list (T CA)))) (func_ : ((list (T CA)) -> res (list (T CA)))) : res (nres (list (T CA))) :=
  let current_ := (guess self_) in
  let* o6 := for_ret 0 (max_iter self_) (fun _ (current_ : (list (T CA))) =>
          let* f_ := func_ current_ in
          let* max_residual_ := Newton.norm_inf (NCplx S) f_ in
          let* j_ := (let* jr := jacobian (NCplx S) func_ current_ (mkC (delta self_) (@zero A)) in Ok (fst jr)) in
          let* dx_ := solve_basic j_ f_ in
          let* current_ := vsub_assign current_ dx_ in
          if (leb max_residual_ (tol self_))
          then (Ok (inr (NOk current_)))
          else (Ok (inl current_))) current_ in
  match o6 with
  | inl current_ => Ok (NErr current_)
  | inr r7 => Ok r7
  end.

(* src/newton.rs : impl Newton < Vector < Cmplx > > :: fn solve_jacobian *)
Definition s_newton_solve_jacobian_vcmplx (self_ : (ncfg (T A) (list (T CA)))) (func_ : ((list (T CA)) -> res (list (T CA)))) (jac_ : ((list (T CA)) -> res (matrix CA))) : res (nres (list (T CA))) :=
  let current_ := (guess self_) in
  let* o6 := for_ret 0 (max_iter self_) (fun _ (current_ : (list (T CA))) =>
          let* f_ := func_ current_ in
          let* max_residual_ := Newton.norm_inf (NCplx S) f_ in
          let* j_ := jac_ current_ in
          let* dx_ := solve_basic j_ f_ in
          let* current_ := vsub_assign current_ dx_ in
          if (leb max_residual_ (tol self_))
          then (Ok (inr (NOk current_)))
          else (Ok (inl current_))) current_ in
  match o6 with
  | inl current_ => Ok (NErr current_)
  | inr r7 => Ok r7
  end.

(* src/matrix/functions.rs : impl Matrix < Cmplx > :: fn jacobian_cmplx *)
Definition s_jacobian_cmplx (point_ : (list (T CA))) (func_ : ((list (T CA)) -> res (list (T CA)))) (delta_ : (T A)) : res (matrix CA) :=
  let n_ := (length point_) in
  let* f_ := func_ point_ in
  let m_ := (length f_) in
  let state_ := point_ in
  let jac_ := (mat_new m_ n_ (mkC (@zero A) (@zero A) : T CA)) in
  let* (state_, jac_) := for_ 0 n_ (fun i_ (s7 : ((list (T CA)) * (matrix CA))) =>
          let '(state_, jac_) := s7 in
          let* x2 := rd state_ i_ in
          let* state_ := upd state_ i_ (add x2 (mkC delta_ (@zero A) : T CA)) in
          let* f_new_ := func_ state_ in
          let* x4 := rd state_ i_ in
          let* state_ := upd state_ i_ (sub x4 (mkC delta_ (@zero A) : T CA)) in
          let* r5 := vsub f_new_ f_ in
          let* r6 := vdiv r5 (mkC delta_ (@zero A) : T CA) in
          let* jac_ := set_col jac_ i_ r6 in
          Ok (state_, jac_)) (state_, jac_) in
  Ok jac_.

End SrcNewtonC.
