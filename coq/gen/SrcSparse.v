(* gen/SrcSparse.v -- REGENERATED from the Rust source by driver/translate_src.py (rust2coq) on every check run.
   One definition s_<f> per translated function, in the state-passing style of the hand-written models. *)
From Coq Require Import List Arith ZArith Lia Bool.
From OV Require Import Base.Panic Base.Arith Model.Vector Model.Matrix Model.Sparse gen.SrcPrelude.
Import ListNotations.

Section SrcSparse.
Context {A : Arith}.

(* src/sparse.rs : impl < T : Copy + Number + std :: fmt :: Debug > Sparse < T > :: fn new_nonzero *)
Definition s_sp_new_nonzero (rows_ : nat) (cols_ : nat) (nonzero_ : nat) : res (sparse A) :=
  Ok (mkS rows_ cols_ nonzero_ (repeat (@zero A) nonzero_) (repeat 0 nonzero_) (repeat 0 (cols_ + 1)%nat)).

(* src/sparse.rs : impl < T : Copy + Number + std :: fmt :: Debug > Sparse < T > :: fn from_vecs *)
Definition s_sp_from_vecs (rows_ : nat) (cols_ : nat) (val_ : (list (T A))) (row_index_ : (list nat)) (col_start_ : (list nat)) : res (sparse A) :=
  let* d1 := usub (length col_start_) 1 in
  let* x2 := rd col_start_ d1 in
  Ok (mkS rows_ cols_ x2 val_ row_index_ col_start_).

(* src/sparse.rs : impl < T : Copy + Number + std :: fmt :: Debug > Sparse < T > :: fn col_index *)
Definition s_sp_col_index (self_ : (sparse A)) : res (list nat) :=
  let temp_ := (@nil nat) in
  if ((sp_nonzero self_) =? 0)%nat
  then (Ok temp_)
  else (if ((length (sp_col_start self_)) <? ((sp_cols self_) + 1)%nat)%nat
       then (Panic Guard)
       else (let* d1 := usub (length (sp_col_start self_)) 1 in
            let gaps_ := (repeat 0 d1) in
            let* (temp_, gaps_) := for_ 0 (length gaps_) (fun k_ (s6 : ((list nat) * (list nat))) =>
                    let '(temp_, gaps_) := s6 in
                    let* x2 := rd (sp_col_start self_) (k_ + 1)%nat in
                    let* x3 := rd (sp_col_start self_) k_ in
                    let* d4 := usub x2 x3 in
                    let* gaps_ := upd gaps_ k_ d4 in
                    let* x5 := rd gaps_ k_ in
                    let* temp_ := for_ 0 x5 (fun _j_ (temp_ : (list nat)) =>
                            let temp_ := (temp_ ++ [k_]) in
                            Ok temp_) temp_ in
                    Ok (temp_, gaps_)) (temp_, gaps_) in
            Ok temp_)).

(* src/sparse.rs : impl < T : Copy + Number + std :: fmt :: Debug > Sparse < T > :: fn col_start_from_index *)
Definition s_sp_col_start_from_index (self_ : (sparse A)) (col_index_ : (list nat)) : res (list nat) :=
  let col_start_ := (repeat 0 ((sp_cols self_) + 1)%nat) in
  let* col_start_ := for_ 0 (sp_nonzero self_) (fun n_ (col_start_ : (list nat)) =>
          let* x1 := rd col_index_ n_ in
          let* x2 := rd col_start_ x1 in
          upd col_start_ x1 (x2 + 1)%nat) col_start_ in
  let sum_ := 0 in
  let* (col_start_, sum_) := for_ 0 (sp_cols self_) (fun k_ (s4 : ((list nat) * nat)) =>
          let '(col_start_, sum_) := s4 in
          let* ck_ := rd col_start_ k_ in
          let* col_start_ := upd col_start_ k_ sum_ in
          let sum_ := (sum_ + ck_)%nat in
          Ok (col_start_, sum_)) (col_start_, sum_) in
  upd col_start_ (sp_cols self_) sum_.

(* src/sparse.rs : impl < T : Copy + Number + std :: fmt :: Debug > Sparse < T > :: fn get *)
Definition s_sp_get (self_ : (sparse A)) (row_ : nat) (col_ : nat) : res (option (T A)) :=
  if ((sp_rows self_) <=? row_)%nat
  then (Panic Guard)
  else (if ((sp_cols self_) <=? col_)%nat
       then (Panic Guard)
       else (if ((length (sp_col_start self_)) <=? col_)%nat
            then (Panic Guard)
            else (let* col_index_ := sp_col_index self_ in
                 let* o6 := for_ret 0 (sp_nonzero self_) (fun k_ (_ : unit) =>
                         let* x2 := rd (sp_row_index self_) k_ in
                         let* c4 := if (x2 =? row_)%nat
                             then (let* x3 := rd col_index_ k_ in
                                  Ok (x3 =? col_)%nat)
                             else (Ok false) in
                         if c4
                         then (let* x5 := rd (sp_val self_) k_ in
                              Ok (inr (Some x5)))
                         else (Ok (inl tt))) tt in
                 match o6 with
                 | inl _ => Ok None
                 | inr r7 => Ok r7
                 end))).

(* src/sparse.rs : impl < T : Copy + Number + std :: fmt :: Debug > Sparse < T > :: fn scale *)
Definition s_sp_scale (self_ : (sparse A)) (value_ : (T A)) : res (sparse A) :=
  for_ 0 (sp_nonzero self_) (fun k_ (self_ : (sparse A)) =>
      let* x1 := rd (sp_val self_) k_ in
      let* b2 := upd (sp_val self_) k_ (mul x1 value_) in
      let self_ := (mkS (sp_rows self_) (sp_cols self_) (sp_nonzero self_) b2 (sp_row_index self_) (sp_col_start self_)) in
      Ok self_) self_.

(* src/sparse.rs : impl < T : Copy + Number + std :: fmt :: Debug > Sparse < T > :: fn multiply *)
Definition s_sp_mul (self_ : (sparse A)) (x_ : (list (T A))) : res (list (T A)) :=
  if (negb ((sp_cols self_) =? (length x_))%nat)
  then (Panic Guard)
  else (let result_ := (repeat (@zero A) (sp_rows self_)) in
       for_ 0 (sp_cols self_) (fun j_ (result_ : (list (T A))) =>
           let* xj_ := rd x_ j_ in
           let* x2 := rd (sp_col_start self_) j_ in
           let* x3 := rd (sp_col_start self_) (j_ + 1)%nat in
           for_ x2 x3 (fun k_ (result_ : (list (T A))) =>
               let* x4 := rd (sp_row_index self_) k_ in
               let* x5 := rd result_ x4 in
               let* x6 := rd (sp_val self_) k_ in
               upd result_ x4 (add x5 (mul x6 xj_))) result_) result_).

(* src/sparse.rs : impl < T : Copy + Number + std :: fmt :: Debug > Sparse < T > :: fn transpose_multiply *)
Definition s_sp_tmul (self_ : (sparse A)) (x_ : (list (T A))) : res (list (T A)) :=
  if (negb ((sp_rows self_) =? (length x_))%nat)
  then (Panic Guard)
  else (let result_ := (repeat (@zero A) (sp_cols self_)) in
       for_ 0 (sp_cols self_) (fun i_ (result_ : (list (T A))) =>
           let* x1 := rd (sp_col_start self_) i_ in
           let* x2 := rd (sp_col_start self_) (i_ + 1)%nat in
           for_ x1 x2 (fun k_ (result_ : (list (T A))) =>
               let* x3 := rd result_ i_ in
               let* x4 := rd (sp_val self_) k_ in
               let* x5 := rd (sp_row_index self_) k_ in
               let* x6 := rd x_ x5 in
               upd result_ i_ (add x3 (mul x4 x6))) result_) result_).

(* src/sparse.rs : impl < T : Copy + Number + std :: fmt :: Debug > Sparse < T > :: fn transpose *)
Definition s_sp_transpose (self_ : (sparse A)) : res (sparse A) :=
  let at_ := (mkS (sp_cols self_) (sp_rows self_) (sp_nonzero self_) (repeat (@zero A) (sp_nonzero self_)) (repeat 0 (sp_nonzero self_)) (repeat 0 ((sp_rows self_) + 1)%nat)) in
  let count_ := (repeat 0 (sp_rows self_)) in
  let* count_ := for_ 0 (sp_cols self_) (fun i_ (count_ : (list nat)) =>
          let* x1 := rd (sp_col_start self_) i_ in
          let* x2 := rd (sp_col_start self_) (i_ + 1)%nat in
          for_ x1 x2 (fun j_ (count_ : (list nat)) =>
              let* x3 := rd (sp_row_index self_) j_ in
              let* x4 := rd count_ x3 in
              upd count_ x3 (x4 + 1)%nat) count_) count_ in
  let* at_ := for_ 0 (sp_rows self_) (fun j_ (at_ : (sparse A)) =>
          let* x5 := rd (sp_col_start at_) j_ in
          let* x6 := rd count_ j_ in
          let* b7 := upd (sp_col_start at_) (j_ + 1)%nat (x5 + x6)%nat in
          let at_ := (mkS (sp_rows at_) (sp_cols at_) (sp_nonzero at_) (sp_val at_) (sp_row_index at_) b7) in
          Ok at_) at_ in
  let count_ := (repeat 0 (sp_rows self_)) in
  let* (at_, count_) := for_ 0 (sp_cols self_) (fun i_ (s18 : ((sparse A) * (list nat))) =>
          let '(at_, count_) := s18 in
          let* x8 := rd (sp_col_start self_) i_ in
          let* x9 := rd (sp_col_start self_) (i_ + 1)%nat in
          for_ x8 x9 (fun j_ (s17 : ((sparse A) * (list nat))) =>
              let '(at_, count_) := s17 in
              let* k_ := rd (sp_row_index self_) j_ in
              let* x11 := rd (sp_col_start at_) k_ in
              let* x12 := rd count_ k_ in
              let index_ := (x11 + x12)%nat in
              let* b13 := upd (sp_row_index at_) index_ i_ in
              let at_ := (mkS (sp_rows at_) (sp_cols at_) (sp_nonzero at_) (sp_val at_) b13 (sp_col_start at_)) in
              let* x14 := rd (sp_val self_) j_ in
              let* b15 := upd (sp_val at_) index_ x14 in
              let at_ := (mkS (sp_rows at_) (sp_cols at_) (sp_nonzero at_) b15 (sp_row_index at_) (sp_col_start at_)) in
              let* x16 := rd count_ k_ in
              let* count_ := upd count_ k_ (x16 + 1)%nat in
              Ok (at_, count_)) (at_, count_)) (at_, count_) in
  Ok at_.

(* src/sparse.rs : impl < T : Copy + Number + std :: fmt :: Debug > Sparse < T > :: fn identity_preconditioner *)
Definition s_sp_ident_pre (self_ : (sparse A)) (b_ : (list (T A))) (x_ : (list (T A))) : res (list (T A)) :=
  if (negb ((sp_rows self_) =? (length b_))%nat)
  then (Panic Guard)
  else (for_ 0 (sp_rows self_) (fun i_ (x_ : (list (T A))) =>
           let* x1 := rd b_ i_ in
           upd x_ i_ x1) x_).

(* src/sparse.rs : impl < T : Copy + Number + std :: fmt :: Debug > Sparse < T > :: fn to_triplets *)
Definition s_sp_to_triplets (self_ : (sparse A)) : res (list (nat * nat * (T A))) :=
  let triplets_ := (@nil (nat * nat * (T A))) in
  for_ 0 (sp_cols self_) (fun j_ (triplets_ : (list (nat * nat * (T A)))) =>
      let* x1 := rd (sp_col_start self_) j_ in
      let* x2 := rd (sp_col_start self_) (j_ + 1)%nat in
      for_ x1 x2 (fun k_ (triplets_ : (list (nat * nat * (T A)))) =>
          let* x3 := rd (sp_row_index self_) k_ in
          let* x4 := rd (sp_val self_) k_ in
          let triplets_ := (triplets_ ++ [(x3, j_, x4)]) in
          Ok triplets_) triplets_) triplets_.

(* src/sparse.rs : impl < T : Copy + Number + std :: fmt :: Debug > Sparse < T > :: fn to_dense *)
Definition s_sp_to_dense (self_ : (sparse A)) : res (matrix A) :=
  let dense_ := (mat_new (sp_rows self_) (sp_cols self_) (@zero A)) in
  for_ 0 (sp_cols self_) (fun j_ (dense_ : (matrix A)) =>
      let* x1 := rd (sp_col_start self_) j_ in
      let* x2 := rd (sp_col_start self_) (j_ + 1)%nat in
      for_ x1 x2 (fun k_ (dense_ : (matrix A)) =>
          let* x3 := rd (sp_val self_) k_ in
          let* x4 := rd (sp_row_index self_) k_ in
          mset dense_ x4 j_ x3) dense_) dense_.

(* src/sparse.rs : impl < T : Copy + Number + std :: fmt :: Debug > Sparse < T > :: fn insert *)
Definition s_sp_insert (self_ : (sparse A)) (row_ : nat) (col_ : nat) (value_ : (T A)) : res (sparse A) :=
  if ((sp_rows self_) <=? row_)%nat
  then (Panic Guard)
  else (if ((sp_cols self_) <=? col_)%nat
       then (Panic Guard)
       else (if ((length (sp_col_start self_)) <=? col_)%nat
            then (Panic Guard)
            else (let* col_index_ := sp_col_index self_ in
                 let* o6 := for_ret 0 (sp_nonzero self_) (fun k_ (self_ : (sparse A)) =>
                         let* x2 := rd (sp_row_index self_) k_ in
                         let* c4 := if (x2 =? row_)%nat
                             then (let* x3 := rd col_index_ k_ in
                                  Ok (x3 =? col_)%nat)
                             else (Ok false) in
                         if c4
                         then (let* b5 := upd (sp_val self_) k_ value_ in
                              let self_ := (mkS (sp_rows self_) (sp_cols self_) (sp_nonzero self_) b5 (sp_row_index self_) (sp_col_start self_)) in
                              Ok (inr self_))
                         else (Ok (inl self_))) self_ in
                 match o6 with
                 | inl self_ => let* triplets_ := sp_to_triplets self_ in
                     let triplets_ := (triplets_ ++ [(row_, col_, value_)]) in
                     sp_from_triplets (sp_rows self_) (sp_cols self_) triplets_
                 | inr r7 => Ok r7
                 end))).

(* src/sparse.rs : impl < T : Copy + Number + std :: fmt :: Debug > Sparse < T > :: fn from_triplets *)
Definition s_sp_from_triplets (rows_ : nat) (cols_ : nat) (triplets_ : (list (nat * nat * (T A)))) : res ((list (nat * nat * (T A))) * (sparse A)) :=
  let triplets_ := (sort_by_col triplets_) in
  let row_index_ := (@nil nat) in
  let col_index_ := (@nil nat) in
  let val_ := (@nil (T A)) in
  let nonzero_ := 0 in
  let* (row_index_, col_index_, val_, nonzero_) := for_in triplets_ (fun triplet_ (s1 : ((list nat) * (list nat) * (list (T A)) * nat)) =>
          let '(row_index_, col_index_, val_, nonzero_) := s1 in
          let row_ := (fst (fst triplet_)) in
          let col_ := (snd (fst triplet_)) in
          if (rows_ <=? row_)%nat
          then (Panic Guard)
          else (if (cols_ <=? col_)%nat
               then (Panic Guard)
               else (let row_index_ := (row_index_ ++ [(fst (fst triplet_))]) in
                    let col_index_ := (col_index_ ++ [(snd (fst triplet_))]) in
                    let val_ := (val_ ++ [(snd triplet_)]) in
                    let nonzero_ := (nonzero_ + 1)%nat in
                    Ok (row_index_, col_index_, val_, nonzero_)))) (row_index_, col_index_, val_, nonzero_) in
  let triplets_ := (@nil (nat * nat * (T A))) in
  let sparse_ := (mkS rows_ cols_ nonzero_ val_ row_index_ (repeat 0 (cols_ + 1)%nat)) in
  let* r2 := sp_col_start_from_index sparse_ col_index_ in
  let sparse_ := (mkS (sp_rows sparse_) (sp_cols sparse_) (sp_nonzero sparse_) (sp_val sparse_) (sp_row_index sparse_) r2) in
  Ok (triplets_, sparse_).

End SrcSparse.
