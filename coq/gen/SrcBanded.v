(* gen/SrcBanded.v -- REGENERATED from the Rust source by driver/translate_src.py (rust2coq) on every check run.
   One definition s_<f> per translated function, in the state-passing style of the hand-written models. *)
From Coq Require Import List Arith ZArith Lia Bool.
From OV Require Import Base.Panic Base.Arith Model.Vector Model.Matrix Model.Banded gen.SrcPrelude.
Import ListNotations.

Section SrcBanded.
Context {A : Arith}.

(* src/banded.rs : impl < T : Clone + Copy + Number + PartialOrd + Signed > Banded < T > :: fn new *)
Definition s_band_new (n_ : nat) (m1_ : nat) (m2_ : nat) (value_ : (T A)) : res (banded A) :=
  Ok (mkB n_ m1_ m2_ (mat_new n_ ((m1_ + m2_)%nat + 1)%nat value_)).

(* src/banded.rs : impl < T : Clone + Copy + Number + PartialOrd + Signed > Banded < T > :: fn fill *)
Definition s_band_fill (self_ : (banded A)) (value_ : (T A)) : res (banded A) :=
  let* n1 := fill (compact self_) value_ in
  let self_ := (mkB (bn self_) (bm1 self_) (bm2 self_) n1) in
  Ok self_.

(* src/banded.rs : impl < T : Clone + Copy + Number + PartialOrd + Signed > Banded < T > :: fn resize *)
Definition s_band_resize (self_ : (banded A)) (n_ : nat) (m1_ : nat) (m2_ : nat) : res (banded A) :=
  let self_ := (mkB n_ (bm1 self_) (bm2 self_) (compact self_)) in
  let self_ := (mkB (bn self_) m1_ (bm2 self_) (compact self_)) in
  let self_ := (mkB (bn self_) (bm1 self_) m2_ (compact self_)) in
  let* n1 := resize (compact self_) n_ ((m1_ + m2_)%nat + 1)%nat in
  let self_ := (mkB (bn self_) (bm1 self_) (bm2 self_) n1) in
  Ok self_.

(* src/banded.rs : impl < T : Clone + Copy + Number + PartialOrd + Signed > Banded < T > :: fn fill_band *)
Definition s_band_fill_band (self_ : (banded A)) (band_ : Z) (value_ : (T A)) : res (banded A) :=
  if ((band_ <? (- (Z.of_nat (bm1 self_)))%Z)%Z || ((Z.of_nat (bm2 self_)) <? band_)%Z)%bool
  then (Panic Guard)
  else (let* n1 := fill_col (compact self_) (isize_as_usize ((Z.of_nat (bm1 self_)) + band_)%Z) value_ in
       let self_ := (mkB (bn self_) (bm1 self_) (bm2 self_) n1) in
       Ok self_).

(* src/banded.rs : impl < T : Clone + Copy + Number + PartialOrd + Signed > Banded < T > :: fn decompose *)
Definition s_decompose (self_ : (banded A)) (au_ : (matrix A)) (al_ : (matrix A)) (index_ : (list nat)) (d_ : (T A)) : res ((matrix A) * (matrix A) * (list nat) * (T A)) :=
  let mm_ := (((bm1 self_) + (bm2 self_))%nat + 1)%nat in
  let l_ := (bm1 self_) in
  let* (au_, l_) := for_ 0 (bm1 self_) (fun i_ (s7 : ((matrix A) * nat)) =>
          let '(au_, l_) := s7 in
          let* d1 := usub (bm1 self_) i_ in
          let* au_ := for_ d1 mm_ (fun j_ (au_ : (matrix A)) =>
                  let* x2 := mget au_ i_ j_ in
                  let* d3 := usub j_ l_ in
                  mset au_ i_ d3 x2) au_ in
          let* l_ := usub l_ 1 in
          let* d5 := usub mm_ l_ in
          let* d6 := usub d5 1 in
          let* au_ := for_ d6 mm_ (fun j_ (au_ : (matrix A)) =>
                  mset au_ i_ j_ (@zero A)) au_ in
          Ok (au_, l_)) (au_, l_) in
  let d_ := (@one A) in
  let l_ := (bm1 self_) in
  let* (au_, al_, index_, d_, l_) := for_ 0 (bn self_) (fun k_ (s24 : ((matrix A) * (matrix A) * (list nat) * (T A) * nat)) =>
          let '(au_, al_, index_, d_, l_) := s24 in
          let* dum_ := mget au_ k_ 0 in
          let i_ := k_ in
          let* l_ := if (l_ <? (bn self_))%nat
              then (let l_ := (l_ + 1)%nat in
                   Ok l_)
              else (Ok l_) in
          let* (dum_, i_) := for_ (k_ + 1)%nat l_ (fun j_ (s11 : ((T A) * nat)) =>
                  let '(dum_, i_) := s11 in
                  let* x9 := mget au_ j_ 0 in
                  if (gtb (abs x9) (abs dum_))
                  then (let* dum_ := mget au_ j_ 0 in
                       let i_ := j_ in
                       Ok (dum_, i_))
                  else (Ok (dum_, i_))) (dum_, i_) in
          let* index_ := upd index_ k_ (i_ + 1)%nat in
          let* au_ := if (eqb dum_ (@zero A))
              then (mset au_ k_ 0 (@zero A))
              else (Ok au_) in
          let* (au_, d_) := if (negb (i_ =? k_)%nat)
              then (let d_ := (neg d_) in
                   let* au_ := for_ 0 mm_ (fun j_ (au_ : (matrix A)) =>
                           swap_elem au_ k_ j_ i_ j_) au_ in
                   Ok (au_, d_))
              else (Ok (au_, d_)) in
          let* (au_, al_, dum_) := for_ (k_ + 1)%nat l_ (fun i_1 (s23 : ((matrix A) * (matrix A) * (T A))) =>
                  let '(au_, al_, dum_) := s23 in
                  let* x12 := mget au_ k_ 0 in
                  let* dum_ := if (eqb x12 (@zero A))
                      then (Ok (@zero A))
                      else (let* x13 := mget au_ i_1 0 in
                           let* x14 := mget au_ k_ 0 in
                           div x13 x14) in
                  let* d17 := usub i_1 k_ in
                  let* d18 := usub d17 1 in
                  let* al_ := mset al_ k_ d18 dum_ in
                  let* au_ := for_ 1 mm_ (fun j_ (au_ : (matrix A)) =>
                          let* x19 := mget au_ i_1 j_ in
                          let* x20 := mget au_ k_ j_ in
                          let* d21 := usub j_ 1 in
                          mset au_ i_1 d21 (sub x19 (mul dum_ x20))) au_ in
                  let* d22 := usub mm_ 1 in
                  let* au_ := mset au_ i_1 d22 (@zero A) in
                  Ok (au_, al_, dum_)) (au_, al_, dum_) in
          Ok (au_, al_, index_, d_, l_)) (au_, al_, index_, d_, l_) in
  Ok (au_, al_, index_, d_).

(* src/banded.rs : impl < T : Clone + Copy + Number + PartialOrd + Signed > Banded < T > :: fn det *)
Definition s_band_det (self_ : (banded A)) : res (T A) :=
  let au_ := (compact self_) in
  let al_ := (mat_new (bn self_) (bm1 self_) (@zero A)) in
  let index_ := (repeat 0 (bn self_)) in
  let d_ := (@zero A) in
  let* (au_, al_, index_, d_) := decompose_gen false self_ au_ al_ index_ in
  let dd_ := d_ in
  for_ 0 (bn self_) (fun i_ (dd_ : (T A)) =>
      let* x1 := mget au_ i_ 0 in
      let dd_ := (mul dd_ x1) in
      Ok dd_) dd_.

(* src/banded.rs : impl < T : Clone + Copy + Number + PartialOrd + Signed > Banded < T > :: fn solve *)
Definition s_band_solve (self_ : (banded A)) (b_ : (list (T A))) : res (list (T A)) :=
  if (negb ((bn self_) =? (length b_))%nat)
  then (Panic Guard)
  else (let au_ := (compact self_) in
       let al_ := (mat_new (bn self_) (bm1 self_) (@zero A)) in
       let index_ := (repeat 0 (bn self_)) in
       let d_ := (@zero A) in
       let* (au_, al_, index_, d_) := decompose_gen false self_ au_ al_ index_ in
       let x_ := b_ in
       let mm_ := (((bm1 self_) + (bm2 self_))%nat + 1)%nat in
       let l_ := (bm1 self_) in
       let* (x_, l_) := for_ 0 (bn self_) (fun k_ (s8 : ((list (T A)) * nat)) =>
               let '(x_, l_) := s8 in
               let* x1 := rd index_ k_ in
               let* j_ := usub x1 1 in
               let* x_ := if (negb (j_ =? k_)%nat)
                   then vswap x_ k_ j_
                   else (Ok x_) in
               let* l_ := if (l_ <? (bn self_))%nat
                   then (let l_ := (l_ + 1)%nat in
                        Ok l_)
                   else (Ok l_) in
               let* x_ := for_ (k_ + 1)%nat l_ (fun j_1 (x_ : (list (T A))) =>
                       let* xk_ := rd x_ k_ in
                       let* x4 := rd x_ j_1 in
                       let* d5 := usub j_1 k_ in
                       let* d6 := usub d5 1 in
                       let* x7 := mget al_ k_ d6 in
                       upd x_ j_1 (sub x4 (mul x7 xk_))) x_ in
               Ok (x_, l_)) (x_, l_) in
       let l_ := 1 in
       let* (x_, l_) := for_rev 0 (bn self_) (fun i_ (s14 : ((list (T A)) * nat)) =>
               let '(x_, l_) := s14 in
               let* dum_ := rd x_ i_ in
               let* dum_ := for_ 1 l_ (fun k_ (dum_ : (T A)) =>
                       let* x10 := mget au_ i_ k_ in
                       let* x11 := rd x_ (k_ + i_)%nat in
                       let dum_ := (sub dum_ (mul x10 x11)) in
                       Ok dum_) dum_ in
               let* x12 := mget au_ i_ 0 in
               let* q13 := div dum_ x12 in
               let* x_ := upd x_ i_ q13 in
               let* l_ := if (l_ <? mm_)%nat
                   then (let l_ := (l_ + 1)%nat in
                        Ok l_)
                   else (Ok l_) in
               Ok (x_, l_)) (x_, l_) in
       Ok x_).

(* src/banded.rs : impl < T > Index < ( usize , usize ) > for Banded < T > :: fn index *)
Definition s_band_get (self_ : (banded A)) (index_ : (nat * nat)) : res (T A) :=
  let '(i_, j_) := index_ in
  if (((i_ + (bm2 self_))%nat <? j_)%nat || ((j_ + (bm1 self_))%nat <? i_)%nat)%bool
  then (Panic Guard)
  else (let* d1 := usub ((bm1 self_) + j_)%nat i_ in
       mget (compact self_) i_ d1).

(* src/banded.rs : impl < T : Copy + Signed > Neg for & Banded < T > :: fn neg *)
Definition s_band_neg (self_ : (banded A)) : res (banded A) :=
  let* r1 := mneg (compact self_) in
  Ok (mkB (bn self_) (bm1 self_) (bm2 self_) r1).

(* src/banded.rs : impl < T : Copy + Clone + Number > Add < & Banded < T > > for & Banded < T > :: fn add *)
Definition s_band_add (self_ : (banded A)) (plus_ : (banded A)) : res (banded A) :=
  if (negb ((bn self_) =? (bn plus_))%nat)
  then (Panic Guard)
  else (if (negb ((bm1 self_) =? (bm1 plus_))%nat)
       then (Panic Guard)
       else (if (negb ((bm2 self_) =? (bm2 plus_))%nat)
            then (Panic Guard)
            else (let* r1 := madd (compact self_) (compact plus_) in
                 Ok (mkB (bn self_) (bm1 self_) (bm2 self_) r1)))).

(* src/banded.rs : impl < T : Copy + Clone + Number > Sub < & Banded < T > > for & Banded < T > :: fn sub *)
Definition s_band_sub (self_ : (banded A)) (minus_ : (banded A)) : res (banded A) :=
  if (negb ((bn self_) =? (bn minus_))%nat)
  then (Panic Guard)
  else (if (negb ((bm1 self_) =? (bm1 minus_))%nat)
       then (Panic Guard)
       else (if (negb ((bm2 self_) =? (bm2 minus_))%nat)
            then (Panic Guard)
            else (let* r1 := msub (compact self_) (compact minus_) in
                 Ok (mkB (bn self_) (bm1 self_) (bm2 self_) r1)))).

(* src/banded.rs : impl < T : Copy + Clone + Number > Mul < T > for & Banded < T > :: fn mul *)
Definition s_band_scale (self_ : (banded A)) (scalar_ : (T A)) : res (banded A) :=
  let* r1 := mscale (compact self_) scalar_ in
  Ok (mkB (bn self_) (bm1 self_) (bm2 self_) r1).

(* src/banded.rs : impl < T : Copy + Clone + Number > Div < T > for & Banded < T > :: fn div *)
Definition s_band_div (self_ : (banded A)) (scalar_ : (T A)) : res (banded A) :=
  let* r1 := mdiv (compact self_) scalar_ in
  Ok (mkB (bn self_) (bm1 self_) (bm2 self_) r1).

(* src/banded.rs : impl < T : Copy + Clone + Number > AddAssign < & Banded < T > > for Banded < T > :: fn add_assign *)
Definition s_band_add_assign (self_ : (banded A)) (plus_ : (banded A)) : res (banded A) :=
  if (negb ((bn self_) =? (bn plus_))%nat)
  then (Panic Guard)
  else (if (negb ((bm1 self_) =? (bm1 plus_))%nat)
       then (Panic Guard)
       else (if (negb ((bm2 self_) =? (bm2 plus_))%nat)
            then (Panic Guard)
            else (let* r1 := madd_assign (compact self_) (compact plus_) in
                 let self_ := (mkB (bn self_) (bm1 self_) (bm2 self_) r1) in
                 Ok self_))).

(* src/banded.rs : impl < T : Copy + Clone + Number > SubAssign < & Banded < T > > for Banded < T > :: fn sub_assign *)
Definition s_band_sub_assign (self_ : (banded A)) (minus_ : (banded A)) : res (banded A) :=
  if (negb ((bn self_) =? (bn minus_))%nat)
  then (Panic Guard)
  else (if (negb ((bm1 self_) =? (bm1 minus_))%nat)
       then (Panic Guard)
       else (if (negb ((bm2 self_) =? (bm2 minus_))%nat)
            then (Panic Guard)
            else (let* r1 := msub_assign (compact self_) (compact minus_) in
                 let self_ := (mkB (bn self_) (bm1 self_) (bm2 self_) r1) in
                 Ok self_))).

(* src/banded.rs : impl < T : Copy + Clone + Number > MulAssign < T > for Banded < T > :: fn mul_assign *)
Definition s_band_mul_assign_s (self_ : (banded A)) (scalar_ : (T A)) : res (banded A) :=
  let* r1 := mmul_assign_scalar (compact self_) scalar_ in
  let self_ := (mkB (bn self_) (bm1 self_) (bm2 self_) r1) in
  Ok self_.

(* src/banded.rs : impl < T : Copy + Clone + Number > DivAssign < T > for Banded < T > :: fn div_assign *)
Definition s_band_div_assign_s (self_ : (banded A)) (scalar_ : (T A)) : res (banded A) :=
  let* r1 := mdiv_assign_scalar (compact self_) scalar_ in
  let self_ := (mkB (bn self_) (bm1 self_) (bm2 self_) r1) in
  Ok self_.

(* src/banded.rs : impl < T : Copy + Clone + Number > AddAssign < T > for Banded < T > :: fn add_assign *)
Definition s_band_add_assign_s (self_ : (banded A)) (constant_ : (T A)) : res (banded A) :=
  let* r1 := madd_assign_scalar (compact self_) constant_ in
  let self_ := (mkB (bn self_) (bm1 self_) (bm2 self_) r1) in
  Ok self_.

(* src/banded.rs : impl < T : Copy + Clone + Number > SubAssign < T > for Banded < T > :: fn sub_assign *)
Definition s_band_sub_assign_s (self_ : (banded A)) (constant_ : (T A)) : res (banded A) :=
  let* r1 := msub_assign_scalar (compact self_) constant_ in
  let self_ := (mkB (bn self_) (bm1 self_) (bm2 self_) r1) in
  Ok self_.

(* src/banded.rs : impl < T : Copy + Clone + Number > Mul < & Vector < T > > for & Banded < T > :: fn mul *)
Definition s_band_mul (self_ : (banded A)) (vector_ : (list (T A))) : res (list (T A)) :=
  if (negb ((bn self_) =? (length vector_))%nat)
  then (Panic Guard)
  else (let result_ := (repeat (@zero A) (bn self_)) in
       let n_ := (Z.of_nat (bn self_)) in
       let m1_ := (Z.of_nat (bm1 self_)) in
       let m2_ := (Z.of_nat (bm2 self_)) in
       for_ 0 (bn self_) (fun i_ (result_ : (list (T A))) =>
           let k_ := ((Z.of_nat i_) - m1_)%Z in
           let tmploop_ := (Z.min ((m1_ + m2_)%Z + (1)%Z)%Z (n_ - k_)%Z) in
           for_z (Z.max (0)%Z (- k_)%Z) tmploop_ (fun j_ (result_ : (list (T A))) =>
               let* x1 := rd result_ i_ in
               let* x2 := mget (compact self_) i_ (isize_as_usize j_) in
               let* x3 := rd vector_ (isize_as_usize (j_ + k_)%Z) in
               upd result_ i_ (add x1 (mul x2 x3))) result_) result_).

End SrcBanded.
