(* gen/SrcWrapVector.v -- REGENERATED from the Rust source by driver/translate_src.py (rust2coq) on every check run.
   One definition s_<f> per translated function, in the state-passing style of the hand-written models. *)
From Coq Require Import List Arith ZArith Lia Bool.
From OV Require Import Base.Panic Base.Arith Model.Vector Model.Matrix Model.Tridiag Model.Banded Model.Poly Model.Newton gen.SrcPrelude.
Import ListNotations.

Section SrcWrapVector.
Context {A : Arith}.

(* src/vector/arithmetic.rs : impl < T : Clone + Number + Copy > Add < & Vector < T > > for Vector < T > :: fn add *)
Definition s_vadd_ref (self_ : (list (T A))) (plus_ : (list (T A))) : res (list (T A)) :=
  vadd self_ plus_.

(* src/vector/arithmetic.rs : impl < T : Clone + Number + Copy > Add < Vector < T > > for Vector < T > :: fn add *)
Definition s_vadd_val (self_ : (list (T A))) (plus_ : (list (T A))) : res (list (T A)) :=
  vadd self_ plus_.

(* src/vector/arithmetic.rs : impl < T : Clone + Number + Copy > Sub < & Vector < T > > for Vector < T > :: fn sub *)
Definition s_vsub_ref (self_ : (list (T A))) (minus_ : (list (T A))) : res (list (T A)) :=
  vsub self_ minus_.

(* src/vector/arithmetic.rs : impl < T : Clone + Number + Copy > Sub < Vector < T > > for Vector < T > :: fn sub *)
Definition s_vsub_val (self_ : (list (T A))) (minus_ : (list (T A))) : res (list (T A)) :=
  vsub self_ minus_.

(* src/vector/mod.rs : impl < T > Vector < T > :: fn empty *)
Definition s_vempty  : res (list (T A)) :=
  let vec_ := (@nil (T A)) in
  Ok vec_.

(* src/vector/mod.rs : impl < T > Vector < T > :: fn create *)
Definition s_vcreate (vec_ : (list (T A))) : res (list (T A)) :=
  Ok vec_.

(* src/vector/mod.rs : impl < T : Clone > Clone for Vector < T > :: fn clone *)
Definition s_vclone (self_ : (list (T A))) : res (list (T A)) :=
  Ok self_.

End SrcWrapVector.
