(* gen/SrcWrapMatrix.v -- REGENERATED from the Rust source by driver/translate_src.py (rust2coq) on every check run.
   One definition s_<f> per translated function, in the state-passing style of the hand-written models. *)
From Coq Require Import List Arith ZArith Lia Bool.
From OV Require Import Base.Panic Base.Arith Model.Vector Model.Matrix Model.Tridiag Model.Banded Model.Poly Model.Newton gen.SrcPrelude.
Import ListNotations.

Section SrcWrapMatrix.
Context {A : Arith}.

(* src/matrix/arithmetic.rs : impl < T : Copy + Neg < Output = T > + Signed > Neg for Matrix < T > :: fn neg *)
Definition s_mneg_val (self_ : (matrix A)) : res (matrix A) :=
  mneg self_.

(* src/matrix/arithmetic.rs : impl < T : Copy + Number > Add < Matrix < T > > for Matrix < T > :: fn add *)
Definition s_madd_val (self_ : (matrix A)) (plus_ : (matrix A)) : res (matrix A) :=
  madd self_ plus_.

(* src/matrix/arithmetic.rs : impl < T : Copy + Number > Sub < Matrix < T > > for Matrix < T > :: fn sub *)
Definition s_msub_val (self_ : (matrix A)) (minus_ : (matrix A)) : res (matrix A) :=
  msub self_ minus_.

(* src/matrix/arithmetic.rs : impl < T : Copy + Number > Mul < T > for Matrix < T > :: fn mul *)
Definition s_mscale_val (self_ : (matrix A)) (scalar_ : (T A)) : res (matrix A) :=
  mscale self_ scalar_.

(* src/matrix/arithmetic.rs : impl < T : Copy + Number > Div < T > for Matrix < T > :: fn div *)
Definition s_mdiv_val (self_ : (matrix A)) (scalar_ : (T A)) : res (matrix A) :=
  mdiv self_ scalar_.

(* src/matrix/arithmetic.rs : impl < T : Copy + Number > AddAssign for Matrix < T > :: fn add_assign *)
Definition s_madd_assign_val (self_ : (matrix A)) (rhs_ : (matrix A)) : res (matrix A) :=
  madd_assign self_ rhs_.

(* src/matrix/arithmetic.rs : impl < T : Copy + Number > SubAssign for Matrix < T > :: fn sub_assign *)
Definition s_msub_assign_val (self_ : (matrix A)) (rhs_ : (matrix A)) : res (matrix A) :=
  msub_assign self_ rhs_.

(* src/matrix/arithmetic.rs : impl < T : Clone + Copy + Number > Mul < Matrix < T > > for Matrix < T > :: fn mul *)
Definition s_mat_mul_val (self_ : (matrix A)) (mul_ : (matrix A)) : res (matrix A) :=
  mat_mul self_ mul_.

(* src/matrix/arithmetic.rs : impl < T : Clone + Copy + Number > Mul < Vector < T > > for Matrix < T > :: fn mul *)
Definition s_mat_vec_mul_val (self_ : (matrix A)) (vec_ : (list (T A))) : res (list (T A)) :=
  multiply self_ vec_.

(* src/matrix/mod.rs : impl < T > Matrix < T > :: fn empty *)
Definition s_mat_empty  : res (matrix A) :=
  let mat_ := (@nil (T A)) in
  Ok (mkM mat_ 0 0).

(* src/matrix/mod.rs : impl < T > Matrix < T > :: fn rows *)
Definition s_mrows (self_ : (matrix A)) : res nat :=
  Ok (rows self_).

(* src/matrix/mod.rs : impl < T > Matrix < T > :: fn cols *)
Definition s_mcols (self_ : (matrix A)) : res nat :=
  Ok (cols self_).

(* src/matrix/mod.rs : impl < T : Clone > Clone for Matrix < T > :: fn clone *)
Definition s_mclone (self_ : (matrix A)) : res (matrix A) :=
  Ok (mkM (buf self_) (rows self_) (cols self_)).

End SrcWrapMatrix.
