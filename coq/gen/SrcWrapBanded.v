(* gen/SrcWrapBanded.v -- REGENERATED from the Rust source by driver/translate_src.py (rust2coq) on every check run.
   One definition s_<f> per translated function, in the state-passing style of the hand-written models. *)
From Coq Require Import List Arith ZArith Lia Bool.
From OV Require Import Base.Panic Base.Arith Model.Vector Model.Matrix Model.Tridiag Model.Banded Model.Poly Model.Newton gen.SrcPrelude.
Import ListNotations.

Section SrcWrapBanded.
Context {A : Arith}.

(* src/banded.rs : impl < T > Banded < T > :: fn empty *)
Definition s_band_empty  : res (banded A) :=
  Ok (mkB 0 0 0 (@mat_empty A)).

(* src/banded.rs : impl < T > Banded < T > :: fn size *)
Definition s_band_size (self_ : (banded A)) : res nat :=
  Ok (bn self_).

(* src/banded.rs : impl < T > Banded < T > :: fn size_below *)
Definition s_band_size_below (self_ : (banded A)) : res nat :=
  Ok (bm1 self_).

(* src/banded.rs : impl < T > Banded < T > :: fn size_above *)
Definition s_band_size_above (self_ : (banded A)) : res nat :=
  Ok (bm2 self_).

(* src/banded.rs : impl < T > Banded < T > :: fn compact *)
Definition s_band_compact (self_ : (banded A)) : res (matrix A) :=
  Ok (compact self_).

(* src/banded.rs : impl < T : Copy + Signed > Neg for Banded < T > :: fn neg *)
Definition s_band_neg_val (self_ : (banded A)) : res (banded A) :=
  band_neg self_.

(* src/banded.rs : impl < T : Copy + Clone + Number > Add < Banded < T > > for Banded < T > :: fn add *)
Definition s_band_add_val (self_ : (banded A)) (plus_ : (banded A)) : res (banded A) :=
  band_add self_ plus_.

(* src/banded.rs : impl < T : Copy + Clone + Number > Sub < Banded < T > > for Banded < T > :: fn sub *)
Definition s_band_sub_val (self_ : (banded A)) (minus_ : (banded A)) : res (banded A) :=
  band_sub self_ minus_.

(* src/banded.rs : impl < T : Copy + Clone + Number > Mul < T > for Banded < T > :: fn mul *)
Definition s_band_scale_val (self_ : (banded A)) (scalar_ : (T A)) : res (banded A) :=
  band_scale self_ scalar_.

(* src/banded.rs : impl < T : Copy + Clone + Number > Div < T > for Banded < T > :: fn div *)
Definition s_band_div_val (self_ : (banded A)) (scalar_ : (T A)) : res (banded A) :=
  band_div self_ scalar_.

(* src/banded.rs : impl < T : Copy + Clone + Number > AddAssign < Banded < T > > for Banded < T > :: fn add_assign *)
Definition s_band_add_assign_val (self_ : (banded A)) (plus_ : (banded A)) : res (banded A) :=
  band_add_assign self_ plus_.

(* src/banded.rs : impl < T : Copy + Clone + Number > SubAssign < Banded < T > > for Banded < T > :: fn sub_assign *)
Definition s_band_sub_assign_val (self_ : (banded A)) (minus_ : (banded A)) : res (banded A) :=
  band_sub_assign self_ minus_.

(* src/banded.rs : impl < T : Copy + Clone + Number > Mul < Vector < T > > for Banded < T > :: fn mul *)
Definition s_band_mul_val (self_ : (banded A)) (vector_ : (list (T A))) : res (list (T A)) :=
  band_mul self_ vector_.

End SrcWrapBanded.
