(* gen/SrcVecCmplx.v -- REGENERATED from the Rust source by driver/translate_src.py (rust2coq) on every check run.
   One definition s_<f> per translated function, in the state-passing style of the hand-written models. *)
From Coq Require Import List Arith ZArith Lia Bool.
From OV Require Import Base.Panic Base.Arith Model.Complex Model.Vector Model.Matrix Model.Tridiag Model.Newton gen.SrcPrelude.
Import ListNotations.

Section SrcVecCmplx.
Context {F : SArith}.
Local Notation A := (SA F).
Local Notation CA := (CArith F).

(* src/vector/vec_cmplx.rs : impl < T : Clone + Signed > Vector < Complex :: < T > > :: fn conj *)
Definition s_vconj (self_ : (list (T CA))) : res (list (T CA)) :=
  let size_ := (length self_) in
  let vec_ := (repeat (@zero CA) size_) in
  for_ 0 size_ (fun i_ (vec_ : (list (T CA))) =>
      let* x1 := rd self_ i_ in
      upd vec_ i_ ((conj x1 : T CA))) vec_.

(* src/vector/vec_cmplx.rs : impl < T : Clone + Number > Vector < Complex :: < T > > :: fn real *)
Definition s_vreal (self_ : (list (T CA))) : res (list (T A)) :=
  let size_ := (length self_) in
  let vec_ := (repeat (@zero A) size_) in
  for_ 0 size_ (fun i_ (vec_ : (list (T A))) =>
      let* x1 := rd self_ i_ in
      upd vec_ i_ (re x1)) vec_.

(* src/vector/vec_cmplx.rs : impl Vector < Complex :: < f64 > > :: fn norm_inf *)
Definition s_cnorm_inf (self_ : (list (T CA))) : res (T A) :=
  let* x1 := rd self_ 0 in
  let result_ := (sqrt (abs_sqr x1)) in
  for_ 1 (length self_) (fun i_ (result_ : (T A)) =>
      let* x2 := rd self_ i_ in
      if (ltb result_ (sqrt (abs_sqr x2)))
      then (let* x3 := rd self_ i_ in
           let result_ := (sqrt (abs_sqr x3)) in
           Ok result_)
      else (Ok result_)) result_.

(* src/tridiagonal.rs : impl < T : Clone + Signed > Tridiagonal :: < Complex :: < T > > :: fn conj *)
Definition s_tconj (self_ : (tridiag CA)) : res (tridiag CA) :=
  let sub_ := ((vconj (tsub self_) : list (T CA))) in
  let main_ := ((vconj (tmain self_) : list (T CA))) in
  let sup_ := ((vconj (tsup self_) : list (T CA))) in
  let n_ := (tn self_) in
  Ok (@mkT CA sub_ main_ sup_ n_).

End SrcVecCmplx.
