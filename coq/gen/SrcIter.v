(* gen/SrcIter.v -- REGENERATED from the Rust source by driver/translate_src.py (rust2coq) on every check run.
   One definition s_<f> per translated function, in the state-passing style of the hand-written models. *)
From Coq Require Import List Arith ZArith Lia Bool.
From OV Require Import Base.Panic Base.Arith Model.Vector Model.Matrix Model.Sparse Model.Iter gen.SrcPrelude.
Import ListNotations.

Section SrcIter.
Context {F : SArith}.
Local Notation A := (SA F).

(* src/sparse.rs : impl Sparse < f64 > :: fn solve_cg *)
Definition s_solve_cg (self_ : (sparse A)) (b_ : (list (T A))) (x_ : (list (T A))) (max_iter_ : nat) (tol_ : (T A)) : res ((list (T A)) * (iresult F)) :=
  if (negb ((sp_rows self_) =? (length b_))%nat)
  then (Panic Guard)
  else (if (negb ((sp_rows self_) =? (sp_cols self_))%nat)
       then (Panic Guard)
       else (if (negb ((length b_) =? (length x_))%nat)
            then (Panic Guard)
            else (let p_ := (repeat (@zero A) (sp_rows self_)) in
                 let z_ := (repeat (@zero A) (sp_rows self_)) in
                 let rho_1_ := (@one A) in
                 let normb_ := (norm2 b_) in
                 let* r1 := sp_mul self_ x_ in
                 let* r_ := vsub b_ r1 in
                 let* normb_ := if (eqb normb_ (@zero A))
                     then (let normb_ := (@one A) in
                          Ok normb_)
                     else (Ok normb_) in
                 let* resid_ := div (norm2 r_) normb_ in
                 if (leb resid_ tol_)
                 then (Ok (x_, (IOk 0)))
                 else (let* o14 := for_ret 1 (max_iter_ + 1)%nat (fun i_ (s13 : ((list (T A)) * (T A) * (list (T A)) * (list (T A)) * (T A) * (list (T A)))) =>
                              let '(x_, resid_, p_, z_, rho_1_, r_) := s13 in
                              let* z_ := ident_pre (sp_rows self_) r_ z_ in
                              let* rho_ := dot r_ z_ in
                              let* p_ := if (i_ =? 1)%nat
                                  then (let p_ := z_ in
                                       Ok p_)
                                  else (let* beta_ := div rho_ rho_1_ in
                                       vadd z_ (vscale p_ beta_)) in
                              let* q_ := sp_mul self_ p_ in
                              let* r8 := dot p_ q_ in
                              let* alpha_ := div rho_ r8 in
                              let* x_ := vadd_assign x_ (vscale p_ alpha_) in
                              let* r_ := vsub_assign r_ (vscale q_ alpha_) in
                              let* resid_ := div (norm2 r_) normb_ in
                              if (leb resid_ tol_)
                              then (Ok (inr (x_, (IOk i_))))
                              else (let rho_1_ := rho_ in
                                   Ok (inl (x_, resid_, p_, z_, rho_1_, r_)))) (x_, resid_, p_, z_, rho_1_, r_) in
                      match o14 with
                      | inl (x_, resid_, p_, z_, rho_1_, r_) => Ok (x_, (IErr resid_))
                      | inr r15 => Ok r15
                      end)))).

(* src/sparse.rs : impl Sparse < f64 > :: fn solve_bicg *)
Definition s_solve_bicg (self_ : (sparse A)) (b_ : (list (T A))) (x_ : (list (T A))) (max_iter_ : nat) (tol_ : (T A)) (itol_ : nat) : res ((list (T A)) * (iresult F)) :=
  if (negb ((sp_rows self_) =? (length b_))%nat)
  then (Panic Guard)
  else (if (negb ((sp_rows self_) =? (sp_cols self_))%nat)
       then (Panic Guard)
       else (if (negb ((length b_) =? (length x_))%nat)
            then (Panic Guard)
            else (let* r1 := sp_mul self_ x_ in
                 let* r_ := vsub b_ r1 in
                 let rr_ := r_ in
                 let z_ := (repeat (@zero A) (sp_rows self_)) in
                 let zz_ := (repeat (@zero A) (sp_rows self_)) in
                 let p_ := (repeat (@zero A) (sp_rows self_)) in
                 let pp_ := (repeat (@zero A) (sp_rows self_)) in
                 let* (bnrm_, z_) := if (itol_ =? 1)%nat
                     then (let bnrm_ := (norm2 b_) in
                          let* z_ := ident_pre (sp_rows self_) r_ z_ in
                          Ok (bnrm_, z_))
                     else (if (itol_ =? 2)%nat
                          then (let* z_ := ident_pre (sp_rows self_) b_ z_ in
                               let bnrm_ := (norm2 z_) in
                               let* z_ := ident_pre (sp_rows self_) r_ z_ in
                               Ok (bnrm_, z_))
                          else (Panic Guard)) in
                 let* bnrm_ := if (eqb bnrm_ (@zero A))
                     then (let bnrm_ := (@one A) in
                          Ok bnrm_)
                     else (Ok bnrm_) in
                 let* err_ := div (norm2 z_) bnrm_ in
                 if (leb err_ tol_)
                 then (Ok (x_, (IOk 0)))
                 else (let rho_2_ := (@one A) in
                      let iter_ := 0 in
                      let* o18 := while_ret (S max_iter_) (fun (s17 : ((list (T A)) * (list (T A)) * (list (T A)) * (T A) * (list (T A)) * (list (T A)) * (list (T A)) * (list (T A)) * (T A) * nat)) =>
                              let '(x_, r_, rr_, err_, z_, zz_, p_, pp_, rho_2_, iter_) := s17 in
                              if (iter_ <? max_iter_)%nat
                              then (let iter_ := (iter_ + 1)%nat in
                                   let* zz_ := ident_pre (sp_rows self_) rr_ zz_ in
                                   let* rho_1_ := dot z_ rr_ in
                                   let* (p_, pp_) := if (iter_ =? 1)%nat
                                       then (let p_ := z_ in
                                            let pp_ := zz_ in
                                            Ok (p_, pp_))
                                       else (let* beta_ := div rho_1_ rho_2_ in
                                            let* p_ := vadd z_ (vscale p_ beta_) in
                                            let* pp_ := vadd zz_ (vscale pp_ beta_) in
                                            Ok (p_, pp_)) in
                                   let* z_ := sp_mul self_ p_ in
                                   let* r9 := dot z_ pp_ in
                                   let* alpha_ := div rho_1_ r9 in
                                   let* zz_ := sp_tmul self_ pp_ in
                                   let* x_ := vadd_assign x_ (vscale p_ alpha_) in
                                   let* r_ := vsub_assign r_ (vscale z_ alpha_) in
                                   let* rr_ := vsub_assign rr_ (vscale zz_ alpha_) in
                                   let* z_ := ident_pre (sp_rows self_) r_ z_ in
                                   let rho_2_ := rho_1_ in
                                   let* err_ := if (itol_ =? 1)%nat
                                       then (div (norm2 r_) bnrm_)
                                       else (Ok err_) in
                                   let* err_ := if (itol_ =? 2)%nat
                                       then (div (norm2 z_) bnrm_)
                                       else (Ok err_) in
                                   if (leb err_ tol_)
                                   then (Ok (WRet (x_, (IOk iter_))))
                                   else (Ok (WNext (x_, r_, rr_, err_, z_, zz_, p_, pp_, rho_2_, iter_))))
                              else (Ok (WDone (x_, r_, rr_, err_, z_, zz_, p_, pp_, rho_2_, iter_)))) (x_, r_, rr_, err_, z_, zz_, p_, pp_, rho_2_, iter_) in
                      match o18 with
                      | Some (inl (x_, r_, rr_, err_, z_, zz_, p_, pp_, rho_2_, iter_)) => Ok (x_, (IErr err_))
                      | Some (inr r19) => Ok r19
                      | None => Panic Guard
                      end)))).

(* src/sparse.rs : impl Sparse < f64 > :: fn solve_bicgstab *)
Definition s_solve_bicgstab (self_ : (sparse A)) (b_ : (list (T A))) (x_ : (list (T A))) (max_iter_ : nat) (tol_ : (T A)) : res ((list (T A)) * (iresult F)) :=
  if (negb ((sp_rows self_) =? (length b_))%nat)
  then (Panic Guard)
  else (if (negb ((sp_rows self_) =? (sp_cols self_))%nat)
       then (Panic Guard)
       else (if (negb ((length b_) =? (length x_))%nat)
            then (Panic Guard)
            else (let p_ := (repeat (@zero A) (sp_rows self_)) in
                 let phat_ := (repeat (@zero A) (sp_rows self_)) in
                 let shat_ := (repeat (@zero A) (sp_rows self_)) in
                 let v_ := (repeat (@zero A) (sp_rows self_)) in
                 let rho_2_ := (@one A) in
                 let alpha_ := (@one A) in
                 let omega_ := (@one A) in
                 let normb_ := (norm2 b_) in
                 let* r1 := sp_mul self_ x_ in
                 let* r_ := vsub b_ r1 in
                 let rtilde_ := r_ in
                 let* normb_ := if (eqb normb_ (@zero A))
                     then (let normb_ := (@one A) in
                          Ok normb_)
                     else (Ok normb_) in
                 let* resid_ := div (norm2 r_) normb_ in
                 if (leb resid_ tol_)
                 then (Ok (x_, (IOk 0)))
                 else (let* o25 := for_ret 1 (max_iter_ + 1)%nat (fun i_ (s24 : ((list (T A)) * (T A) * (list (T A)) * (list (T A)) * (list (T A)) * (list (T A)) * (T A) * (T A) * (T A) * (list (T A)))) =>
                              let '(x_, resid_, p_, phat_, shat_, v_, rho_2_, alpha_, omega_, r_) := s24 in
                              let* rho_1_ := dot rtilde_ r_ in
                              if (eqb rho_1_ (@zero A))
                              then (let* q5 := div (norm2 r_) normb_ in
                                   Ok (inr (x_, (IErr q5))))
                              else (let* p_ := if (i_ =? 1)%nat
                                       then (let p_ := r_ in
                                            Ok p_)
                                       else (let* q6 := div rho_1_ rho_2_ in
                                            let* q7 := div alpha_ omega_ in
                                            let beta_ := (mul q6 q7) in
                                            let* r8 := vsub p_ (vscale_l omega_ v_) in
                                            vadd r_ (vscale_l beta_ r8)) in
                                   let* phat_ := ident_pre (sp_rows self_) p_ phat_ in
                                   let* v_ := sp_mul self_ phat_ in
                                   let* r11 := dot rtilde_ v_ in
                                   let* alpha_ := div rho_1_ r11 in
                                   let* s_ := vsub r_ (vscale v_ alpha_) in
                                   let* resid_ := div (norm2 s_) normb_ in
                                   if (leb resid_ tol_)
                                   then (let* x_ := vadd_assign x_ (vscale phat_ alpha_) in
                                        Ok (inr (x_, (IOk i_))))
                                   else (let* shat_ := ident_pre (sp_rows self_) s_ shat_ in
                                        let* t_ := sp_mul self_ shat_ in
                                        let* r17 := dot t_ s_ in
                                        let* r18 := dot t_ t_ in
                                        let* omega_ := div r17 r18 in
                                        let* x_ := vadd_assign x_ (vscale_l alpha_ phat_) in
                                        let* x_ := vadd_assign x_ (vscale_l omega_ shat_) in
                                        let* r_ := vsub s_ (vscale t_ omega_) in
                                        let rho_2_ := rho_1_ in
                                        let* resid_ := div (norm2 r_) normb_ in
                                        if (ltb resid_ tol_)
                                        then (Ok (inr (x_, (IOk i_))))
                                        else (if (eqb omega_ (@zero A))
                                             then (Ok (inr (x_, (IErr resid_))))
                                             else (Ok (inl (x_, resid_, p_, phat_, shat_, v_, rho_2_, alpha_, omega_, r_))))))) (x_, resid_, p_, phat_, shat_, v_, rho_2_, alpha_, omega_, r_) in
                      match o25 with
                      | inl (x_, resid_, p_, phat_, shat_, v_, rho_2_, alpha_, omega_, r_) => Ok (x_, (IErr resid_))
                      | inr r26 => Ok r26
                      end)))).

(* src/sparse.rs : impl Sparse < f64 > :: fn solve_qmr *)
Definition s_solve_qmr (self_ : (sparse A)) (b_ : (list (T A))) (x_ : (list (T A))) (max_iter_ : nat) (tol_ : (T A)) : res ((list (T A)) * (iresult F)) :=
  if (negb ((sp_rows self_) =? (length b_))%nat)
  then (Panic Guard)
  else (if (negb ((sp_rows self_) =? (sp_cols self_))%nat)
       then (Panic Guard)
       else (if (negb ((length b_) =? (length x_))%nat)
            then (Panic Guard)
            else (let ep_ := (@one A) in
                 let p_ := (repeat (@zero A) (sp_rows self_)) in
                 let q_ := (repeat (@zero A) (sp_rows self_)) in
                 let d_ := (repeat (@zero A) (sp_rows self_)) in
                 let s_ := (repeat (@zero A) (sp_rows self_)) in
                 let normb_ := (norm2 b_) in
                 let* r1 := sp_mul self_ x_ in
                 let* r_ := vsub b_ r1 in
                 let* normb_ := if (eqb normb_ (@zero A))
                     then (let normb_ := (@one A) in
                          Ok normb_)
                     else (Ok normb_) in
                 let* resid_ := div (norm2 r_) normb_ in
                 if (leb resid_ tol_)
                 then (Ok (x_, (IOk 0)))
                 else (let v_tld_ := r_ in
                      let y_ := v_tld_ in
                      let rho_ := (norm2 y_) in
                      let w_tld_ := r_ in
                      let z_ := w_tld_ in
                      let xi_ := (norm2 z_) in
                      let gamma_ := (@one A) in
                      let eta_ := (neg (@one A)) in
                      let theta_ := (@zero A) in
                      let* o28 := for_ret 1 (max_iter_ + 1)%nat (fun i_ (s27 : ((list (T A)) * (T A) * (T A) * (T A) * (T A) * (T A) * (T A) * (T A) * (list (T A)) * (list (T A)) * (list (T A)) * (list (T A)) * (list (T A)) * (list (T A)) * (list (T A)) * (list (T A)) * (list (T A)))) =>
                              let '(x_, resid_, rho_, xi_, ep_, gamma_, eta_, theta_, r_, y_, z_, v_tld_, w_tld_, p_, q_, d_, s_) := s27 in
                              if (eqb rho_ (@zero A))
                              then (Ok (inr (x_, (IErr resid_))))
                              else (if (eqb xi_ (@zero A))
                                   then (Ok (inr (x_, (IErr resid_))))
                                   else (let* v_ := vdiv v_tld_ rho_ in
                                        let* y_ := vdiv y_ rho_ in
                                        let* w_ := vdiv w_tld_ xi_ in
                                        let* z_ := vdiv z_ xi_ in
                                        let* delta_ := dot z_ y_ in
                                        if (eqb delta_ (@zero A))
                                        then (Ok (inr (x_, (IErr resid_))))
                                        else (let y_tld_ := y_ in
                                             let z_tld_ := z_ in
                                             let* (p_, q_) := if (i_ <=? 1)%nat
                                                 then (let p_ := y_tld_ in
                                                      let q_ := z_tld_ in
                                                      Ok (p_, q_))
                                                 else (let* q9 := div (mul xi_ delta_) ep_ in
                                                      let* p_ := vsub y_tld_ (vscale_l q9 p_) in
                                                      let* q11 := div (mul rho_ delta_) ep_ in
                                                      let* q_ := vsub z_tld_ (vscale_l q11 q_) in
                                                      Ok (p_, q_)) in
                                             let* p_tld_ := sp_mul self_ p_ in
                                             let* ep_ := dot q_ p_tld_ in
                                             if (eqb ep_ (@zero A))
                                             then (Ok (inr (x_, (IErr resid_))))
                                             else (let* beta_ := div ep_ delta_ in
                                                  if (eqb beta_ (@zero A))
                                                  then (Ok (inr (x_, (IErr resid_))))
                                                  else (let* v_tld_ := vsub p_tld_ (vscale_l beta_ v_) in
                                                       let y_ := v_tld_ in
                                                       let rho_1_ := rho_ in
                                                       let rho_ := (norm2 y_) in
                                                       let* w_tld_ := sp_tmul self_ q_ in
                                                       let* w_tld_ := vsub_assign w_tld_ (vscale_l beta_ w_) in
                                                       let z_ := w_tld_ in
                                                       let xi_ := (norm2 z_) in
                                                       let gamma_1_ := gamma_ in
                                                       let theta_1_ := theta_ in
                                                       let* theta_ := div rho_ (mul gamma_1_ beta_) in
                                                       let* gamma_ := div (@one A) (sqrt (add (@one A) (mul theta_ theta_))) in
                                                       if (eqb gamma_ (@zero A))
                                                       then (Ok (inr (x_, (IErr resid_))))
                                                       else (let* eta_ := div (mul (mul (mul (neg eta_) rho_1_) gamma_) gamma_) (mul (mul beta_ gamma_1_) gamma_1_) in
                                                            let* (d_, s_) := if (i_ <=? 1)%nat
                                                                then (let d_ := (vscale_l eta_ p_) in
                                                                     let s_ := (vscale_l eta_ p_tld_) in
                                                                     Ok (d_, s_))
                                                                else (let* d_ := vadd (vscale_l eta_ p_) (vscale_l (mul (mul (mul theta_1_ theta_1_) gamma_) gamma_) d_) in
                                                                     let* s_ := vadd (vscale_l eta_ p_tld_) (vscale_l (mul (mul (mul theta_1_ theta_1_) gamma_) gamma_) s_) in
                                                                     Ok (d_, s_)) in
                                                            let* x_ := vadd_assign x_ d_ in
                                                            let* r_ := vsub_assign r_ s_ in
                                                            let* resid_ := div (norm2 r_) normb_ in
                                                            if (leb resid_ tol_)
                                                            then (Ok (inr (x_, (IOk i_))))
                                                            else (Ok (inl (x_, resid_, rho_, xi_, ep_, gamma_, eta_, theta_, r_, y_, z_, v_tld_, w_tld_, p_, q_, d_, s_)))))))))) (x_, resid_, rho_, xi_, ep_, gamma_, eta_, theta_, r_, y_, z_, v_tld_, w_tld_, p_, q_, d_, s_) in
                      match o28 with
                      | inl (x_, resid_, rho_, xi_, ep_, gamma_, eta_, theta_, r_, y_, z_, v_tld_, w_tld_, p_, q_, d_, s_) => Ok (x_, (IErr resid_))
                      | inr r29 => Ok r29
                      end)))).

End SrcIter.
