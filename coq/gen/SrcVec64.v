(* gen/SrcVec64.v -- REGENERATED from the Rust source by driver/translate_src.py (rust2coq) on every check run.
   One definition s_<f> per translated function, in the state-passing style of the hand-written models. *)
From Coq Require Import List Arith ZArith Lia Bool.
From OV Require Import Base.Panic Base.Arith Model.Vector gen.SrcPrelude.
Import ListNotations.

Section SrcVec64.
Context {F : SArith}.
Variable fabs : F -> F.
Variable powf : F -> F -> F.
Local Notation A := (SA F).

(* src/vector/vec_f64.rs : impl Vector < f64 > :: fn linspace *)
Definition s_linspace (a_ : (T A)) (b_ : (T A)) (size_ : nat) : res (list (T A)) :=
  let vec_ := (repeat (@zero A) size_) in
  let* h_ := div (sub b_ a_) (sub (of_nat size_) (@one A)) in
  for_ 0 size_ (fun i_ (vec_ : (list (T A))) =>
      upd vec_ i_ (add a_ (mul h_ (of_nat i_)))) vec_.

(* src/vector/vec_f64.rs : impl Vector < f64 > :: fn powspace *)
Definition s_powspace (a_ : (T A)) (b_ : (T A)) (size_ : nat) (p_ : (T A)) : res (list (T A)) :=
  let vec_ := (repeat (@zero A) size_) in
  for_ 0 size_ (fun i_ (vec_ : (list (T A))) =>
      let* q1 := div (of_nat i_) (sub (of_nat size_) (@one A)) in
      upd vec_ i_ (add a_ (mul (sub b_ a_) (powf q1 p_)))) vec_.

(* src/vector/vec_f64.rs : impl Vector < f64 > :: fn norm_2 *)
Definition s_norm_2 (self_ : (list (T A))) : res (T A) :=
  let result_ := (@zero A) in
  let* result_ := for_ 0 (length self_) (fun i_ (result_ : (T A)) =>
          let* x1 := rd self_ i_ in
          let result_ := (add result_ (powf (fabs x1) (add (@one A) (@one A)))) in
          Ok result_) result_ in
  Ok (sqrt result_).

(* src/vector/vec_f64.rs : impl Vector < f64 > :: fn norm_p *)
Definition s_norm_p (self_ : (list (T A))) (p_ : (T A)) : res (T A) :=
  let result_ := (@zero A) in
  let* result_ := for_ 0 (length self_) (fun i_ (result_ : (T A)) =>
          let* x1 := rd self_ i_ in
          let result_ := (add result_ (powf (fabs x1) p_)) in
          Ok result_) result_ in
  let* q2 := div (@one A) p_ in
  Ok (powf result_ q2).

(* src/vector/vec_f64.rs : impl Vector < f64 > :: fn norm_inf *)
Definition s_norm_inf (self_ : (list (T A))) : res (T A) :=
  let* x1 := rd self_ 0 in
  let result_ := (fabs x1) in
  for_ 1 (length self_) (fun i_ (result_ : (T A)) =>
      let* x2 := rd self_ i_ in
      if (ltb result_ (fabs x2))
      then (let* x3 := rd self_ i_ in
           let result_ := (fabs x3) in
           Ok result_)
      else (Ok result_)) result_.

End SrcVec64.
