(* gen/SrcMatNorms.v -- REGENERATED from the Rust source by driver/translate_src.py (rust2coq) on every check run.
   One definition s_<f> per translated function, in the state-passing style of the hand-written models. *)
From Coq Require Import List Arith ZArith Lia Bool.
From OV Require Import Base.Panic Base.Arith Model.Vector Model.Matrix Model.MatNorms gen.SrcPrelude.
Import ListNotations.

Section SrcMatNorms.
Context {F : SArith}.
Variable powf : F -> F -> F.
Local Notation A := (SA F).

(* src/matrix/functions.rs : impl Matrix < f64 > :: fn norm_1 *)
Definition s_mnorm_1 (self_ : (matrix A)) : res (T A) :=
  let result_ := (@zero A) in
  for_ 0 (cols self_) (fun j_ (result_ : (T A)) =>
      let sum_ := (@zero A) in
      let* sum_ := for_ 0 (rows self_) (fun i_ (sum_ : (T A)) =>
              let* x1 := mget self_ i_ j_ in
              let sum_ := (add sum_ (abs x1)) in
              Ok sum_) sum_ in
      let result_ := (fmax result_ sum_) in
      Ok result_) result_.

(* src/matrix/functions.rs : impl Matrix < f64 > :: fn norm_inf *)
Definition s_mnorm_inf (self_ : (matrix A)) : res (T A) :=
  let result_ := (@zero A) in
  for_ 0 (rows self_) (fun i_ (result_ : (T A)) =>
      let sum_ := (@zero A) in
      let* sum_ := for_ 0 (cols self_) (fun j_ (sum_ : (T A)) =>
              let* x1 := mget self_ i_ j_ in
              let sum_ := (add sum_ (abs x1)) in
              Ok sum_) sum_ in
      let result_ := (fmax result_ sum_) in
      Ok result_) result_.

(* src/matrix/functions.rs : impl Matrix < f64 > :: fn norm_p *)
Definition s_mnorm_p (self_ : (matrix A)) (p_ : (T A)) : res (T A) :=
  let sum_ := (@zero A) in
  let* sum_ := for_ 0 (rows self_) (fun i_ (sum_ : (T A)) =>
          for_ 0 (cols self_) (fun j_ (sum_ : (T A)) =>
              let* x1 := mget self_ i_ j_ in
              let sum_ := (add sum_ (powf (abs x1) p_)) in
              Ok sum_) sum_) sum_ in
  let* q2 := div (@one A) p_ in
  Ok (powf sum_ q2).

(* src/matrix/functions.rs : impl Matrix < f64 > :: fn norm_frob *)
Definition s_mnorm_frob (self_ : (matrix A)) : res (T A) :=
  (let* s := mnorm_p_sum (fun x => powf x (add (@one A) (@one A))) self_ in let* ip := div (@one A) (add (@one A) (@one A)) in Ok (powf s ip)).

(* src/matrix/functions.rs : impl Matrix < f64 > :: fn norm_max *)
Definition s_mnorm_max (self_ : (matrix A)) : res (T A) :=
  let result_ := (@zero A) in
  for_ 0 (rows self_) (fun i_ (result_ : (T A)) =>
      for_ 0 (cols self_) (fun j_ (result_ : (T A)) =>
          let* x1 := mget self_ i_ j_ in
          let result_ := (fmax result_ (abs x1)) in
          Ok result_) result_) result_.

End SrcMatNorms.
