(* gen/SrcRoots.v -- REGENERATED from the Rust source by driver/translate_src.py (rust2coq) on every check run.
   One definition s_<f> per translated function, in the state-passing style of the hand-written models. *)
From Coq Require Import List Arith ZArith Lia Bool.
From OV Require Import Base.Panic Base.Arith Model.Complex gen.Params Model.Roots gen.SrcPrelude.
Import ListNotations.

Section SrcRoots.
Variable RA : RootArith.
Local Notation A := (SA (RR RA)).
Local Notation CA := (KK RA).

(* src/polynomial/mod.rs : impl Polynomial < Cmplx > :: fn quadratic_solve *)
Definition s_quadratic_solve (a_ : (T CA)) (b_ : (T CA)) (c_ : (T CA)) : res (list (T CA)) :=
  let roots_ := (repeat (@zero CA) 2) in
  let discriminant_ := (sub (mul b_ b_) (mul (kmulr RA a_ (rlit RA 4)) c_)) in
  let* r1 := osqrt RA discriminant_ in
  let sgn_ := (kre RA (mul (kconj RA b_) r1)) in
  let* sgn_ := if (leb (@zero A) sgn_)
      then (let sgn_ := (@one A) in
           Ok sgn_)
      else (let sgn_ := (neg (@one A)) in
           Ok sgn_) in
  let* r2 := osqrt RA discriminant_ in
  let q_ := (kmulr RA (add b_ (kmulr RA r2 sgn_)) (neg (rhalf RA))) in
  let* q3 := div q_ a_ in
  let* roots_ := upd roots_ 0 q3 in
  let* v6 := if (eqb q_ (@zero CA))
      then (rd roots_ 0)
      else (div c_ q_) in
  upd roots_ 1 v6.

(* src/polynomial/mod.rs : impl Polynomial < Cmplx > :: fn cubic_solve *)
Definition s_cubic_solve (a_ : (T CA)) (b_ : (T CA)) (c_ : (T CA)) (d_ : (T CA)) : res (list (T CA)) :=
  let roots_ := (repeat (@zero CA) 3) in
  let '(a2_, b2_, c2_, d2_) := ((mul a_ a_), (mul b_ b_), (mul c_ c_), (mul d_ d_)) in
  let dis_ := (sub (sub (add (sub (mul (mul (mul (kmulr RA a_ (rlit RA 18)) b_) c_) d_) (mul (mul (kmulr RA b_ (rlit RA 4)) b2_) d_)) (mul b2_ c2_)) (mul (mul (kmulr RA a_ (rlit RA 4)) c2_) c_)) (mul (kmulr RA a2_ (rlit RA 27)) d2_)) in
  let d0_ := (sub b2_ (mul (kmulr RA a_ (rlit RA 3)) c_)) in
  let d1_ := (add (sub (mul (kmulr RA b2_ (rlit RA 2)) b_) (mul (mul (kmulr RA a_ (rlit RA 9)) b_) c_)) (mul (kmulr RA a2_ (rlit RA 27)) d_)) in
  if ((eqb d0_ (@zero CA)) && (eqb d1_ (@zero CA)))%bool
  then (let* q1 := div (neg b_) (kmulr RA a_ (rlit RA 3)) in
       let* roots_ := upd roots_ 0 q1 in
       let* x2 := rd roots_ 0 in
       let* roots_ := upd roots_ 1 x2 in
       let* x3 := rd roots_ 0 in
       upd roots_ 2 x3)
  else (let* sqrt_ := osqrt RA (mul (mul (kmulr RA a_ (neg (rlit RA 27))) a_) dis_) in
       let* base_ := kdivr RA (if (ltb (kre RA (mul (kconj RA d1_) sqrt_)) (@zero A)) then (sub d1_ sqrt_) else (add d1_ sqrt_)) (rlit RA 2) in
       let* q6 := div (@one A) (rlit RA 3) in
       let* k_ := opow RA base_ (mkk RA q6 (@zero A)) in
       let* q8 := div d0_ k_ in
       let* q9 := div (neg (add (add b_ k_) q8)) (kmulr RA a_ (rlit RA 3)) in
       let* roots_ := upd roots_ 0 q9 in
       let* q10 := div (sqrt (rlit RA 3)) (rlit RA 2) in
       let u_ := (mkk RA (neg (rhalf RA)) q10) in
       let* q11 := div d0_ (mul u_ k_) in
       let* q12 := div (neg (add (add b_ (mul u_ k_)) q11)) (kmulr RA a_ (rlit RA 3)) in
       let* roots_ := upd roots_ 1 q12 in
       let u2_ := (mul u_ u_) in
       let* q13 := div d0_ (mul u2_ k_) in
       let* q14 := div (neg (add (add b_ (mul u2_ k_)) q13)) (kmulr RA a_ (rlit RA 3)) in
       upd roots_ 2 q14).

(* src/polynomial/mod.rs : impl Polynomial < Cmplx > :: fn laguer *)
Definition s_laguer (a_ : (list (T CA))) (x_ : (T CA)) (iterations_ : nat) : res ((list (T CA)) * (T CA) * nat) :=
  let* m_ := usub (length a_) 1 in
  let* o14 := for_ret 1 ((10 * 8)%nat) (fun iter_ (s13 : ((T CA) * nat)) =>
          let '(x_, iterations_) := s13 in
          let iterations_ := iter_ in
          let* b_ := rd a_ m_ in
          let err_ := (kabs RA b_) in
          let d_ := (@zero CA) in
          let f_ := (@zero CA) in
          let abx_ := (kabs RA x_) in
          let* (b_, err_, d_, f_) := for_rev 0 m_ (fun j_ (s4 : ((T CA) * (T A) * (T CA) * (T CA))) =>
                  let '(b_, err_, d_, f_) := s4 in
                  let f_ := (add (mul x_ f_) d_) in
                  let d_ := (add (mul x_ d_) b_) in
                  let* x3 := rd a_ j_ in
                  let b_ := (add (mul x_ b_) x3) in
                  let err_ := (add (kabs RA b_) (mul abx_ err_)) in
                  Ok (b_, err_, d_, f_)) (b_, err_, d_, f_) in
          let err_ := (mul err_ ((reps RA))) in
          if (leb (kabs RA b_) err_)
          then (Ok (inr (a_, x_, iterations_)))
          else (let* g_ := div d_ b_ in
               let g2_ := (mul g_ g_) in
               let* q6 := div f_ b_ in
               let h_ := (sub g2_ (kmulr RA q6 (rlit RA 2))) in
               let* d7 := usub m_ 1 in
               let* sq_ := osqrt RA (kmulr RA (sub (kmulr RA h_ (of_nat m_)) g2_) (of_nat d7)) in
               let gp_ := (add g_ sq_) in
               let gm_ := (sub g_ sq_) in
               let abp_ := (kabs RA gp_) in
               let abm_ := (kabs RA gm_) in
               let* gp_ := if (ltb abp_ abm_)
                   then (let gp_ := gm_ in
                        Ok gp_)
                   else (Ok gp_) in
               let* dx_ := if (gtb (rmax RA abp_ abm_) (@zero A))
                   then (div (mkk RA (of_nat m_) (@zero A)) gp_)
                   else opolar RA (add (@one A) abx_) (of_nat iter_) in
               let x1_ := (sub x_ dx_) in
               if (eqb x_ x1_)
               then (Ok (inr (a_, x_, iterations_)))
               else (let* x_ := if ((Nat.modulo iter_ 10) =? 0)%nat
                        then (let* x12 := rd (rfrac RA) (Nat.div iter_ 10) in
                             let x_ := (sub x_ (kmulr RA dx_ x12)) in
                             Ok x_)
                        else (let x_ := x1_ in
                             Ok x_) in
                    Ok (inl (x_, iterations_))))) (x_, iterations_) in
  match o14 with
  | inl (x_, iterations_) => Ok (a_, x_, iterations_)
  | inr r15 => Ok r15
  end.

(* src/polynomial/mod.rs : impl Polynomial < Cmplx > :: fn poly_solve *)
Definition s_poly_solve (coeffs_ : (list (T CA))) (refine_ : bool) : res (list (T CA)) :=
  let* degree_ := usub (length coeffs_) 1 in
  let poly_roots_ := (repeat (@zero CA) degree_) in
  if (degree_ =? 0)%nat
  then (Panic Guard)
  else (let* poly_roots_ := if (degree_ =? 1)%nat
           then (let* x2 := rd coeffs_ 0 in
                let* x3 := rd coeffs_ 1 in
                let* q4 := div (neg x2) x3 in
                upd poly_roots_ 0 q4)
           else (Ok poly_roots_) in
       let* poly_roots_ := if (degree_ =? 2)%nat
           then (let* a_ := rd coeffs_ 2 in
                let* b_ := rd coeffs_ 1 in
                let* c_ := rd coeffs_ 0 in
                quadratic_solve RA a_ b_ c_)
           else (Ok poly_roots_) in
       let* poly_roots_ := if (degree_ =? 3)%nat
           then (let* a_ := rd coeffs_ 3 in
                let* b_ := rd coeffs_ 2 in
                let* c_ := rd coeffs_ 1 in
                let* d_ := rd coeffs_ 0 in
                cubic_solve RA a_ b_ c_ d_)
           else (Ok poly_roots_) in
       let eps_ := (reps RA) in
       let its_ := 0 in
       let a_ := coeffs_ in
       let* (poly_roots_, its_) := if (3 <? degree_)%nat
           then (let ad_ := coeffs_ in
                let* (poly_roots_, its_, ad_) := for_rev 0 degree_ (fun j_ (s18 : ((list (T CA)) * nat * (list (T CA)))) =>
                        let '(poly_roots_, its_, ad_) := s18 in
                        let x_ := (@zero CA) in
                        let ad_v_ := (repeat (@zero CA) (j_ + 2)%nat) in
                        let* ad_v_ := for_ 0 (j_ + 2)%nat (fun jj_ (ad_v_ : (list (T CA))) =>
                                let* x14 := rd ad_ jj_ in
                                upd ad_v_ jj_ x14) ad_v_ in
                        let* (ad_v_, x_, its_) := (let* l := laguer RA ad_v_ x_ in Ok (ad_v_, lx l, liters l)) in
                        let* x_ := if (leb (rfabs RA (kim RA x_)) (mul (mul (rlit RA 2) eps_) (rfabs RA (kre RA x_))))
                            then (let x_ := (mkk RA (kre RA x_) (@zero A)) in
                                 Ok x_)
                            else (Ok x_) in
                        let* poly_roots_ := upd poly_roots_ j_ x_ in
                        let* b_ := rd ad_ (j_ + 1)%nat in
                        let* (ad_, b_) := for_rev 0 (j_ + 1)%nat (fun jj_ (s17 : ((list (T CA)) * (T CA))) =>
                                let '(ad_, b_) := s17 in
                                let* c_ := rd ad_ jj_ in
                                let* ad_ := upd ad_ jj_ b_ in
                                let b_ := (add (mul x_ b_) c_) in
                                Ok (ad_, b_)) (ad_, b_) in
                        Ok (poly_roots_, its_, ad_)) (poly_roots_, its_, ad_) in
                Ok (poly_roots_, its_))
           else (Ok (poly_roots_, its_)) in
       let* (poly_roots_, its_, a_) := if refine_
           then (for_ 0 degree_ (fun j_ (s22 : ((list (T CA)) * nat * (list (T CA)))) =>
                    let '(poly_roots_, its_, a_) := s22 in
                    let* x19 := rd poly_roots_ j_ in
                    let* (a_, n20, its_) := (let* l := laguer RA a_ x19 in Ok (a_, lx l, liters l)) in
                    let* poly_roots_ := upd poly_roots_ j_ n20 in
                    Ok (poly_roots_, its_, a_)) (poly_roots_, its_, a_))
           else (Ok (poly_roots_, its_, a_)) in
       Ok poly_roots_).

(* src/polynomial/mod.rs : impl Polynomial < f64 > :: fn roots *)
Definition s_roots_f64 (self_ : (list (T A))) (refine_ : bool) : res (list (T CA)) :=
  let coeffs_ := (repeat (@zero CA) (length self_)) in
  let* coeffs_ := for_ 0 (length self_) (fun i_ (coeffs_ : (list (T CA))) =>
          let* x1 := rd self_ i_ in
          upd coeffs_ i_ (mkk RA x1 (@zero A))) coeffs_ in
  (let* r := poly_solve RA coeffs_ refine_ in Ok (fst r)).

(* src/polynomial/mod.rs : impl Polynomial < Cmplx > :: fn roots *)
Definition s_roots_cplx (self_ : (list (T CA))) (refine_ : bool) : res (list (T CA)) :=
  let coeffs_ := (repeat (@zero CA) (length self_)) in
  let* coeffs_ := for_ 0 (length self_) (fun i_ (coeffs_ : (list (T CA))) =>
          let* x1 := rd self_ i_ in
          upd coeffs_ i_ x1) coeffs_ in
  (let* r := poly_solve RA coeffs_ refine_ in Ok (fst r)).

End SrcRoots.
