(* gen/SrcRoots.v -- REGENERATED from the Rust source by driver/translate_src.py (rust2coq) on every check run.
   One definition s_<f> per translated function, in the state-passing style of the hand-written models. *)
From Coq Require Import List Arith ZArith Lia Bool.
From OV Require Import Base.Panic Base.Arith Model.Complex gen.Params Model.Roots gen.SrcPrelude.
Import ListNotations.

Section SrcRoots.
Variable RA : RootArith.
Local Notation A := (SA (RR RA)).
Local Notation CA := (KK RA).

(* src/polynomial/mod.rs : impl Polynomial < Cmplx > :: fn quadratic_solve *)
Definition s_quadratic_solve (a_ : (T CA)) (b_ : (T CA)) (c_ : (T CA)) : res (list (T CA)) :=
  let roots_ := (repeat (@zero CA) 2) in
  let discriminant_ := (sub (mul b_ b_) (mul (kmulr RA a_ (rlit RA 4)) c_)) in
  let* r1 := osqrt RA discriminant_ in
  let sgn_ := (kre RA (mul (kconj RA b_) r1)) in
  let* sgn_ := if (leb (@zero A) sgn_)
      then (let sgn_ := (@one A) in
           Ok sgn_)
      else (let sgn_ := (neg (@one A)) in
           Ok sgn_) in
  let* r2 := osqrt RA discriminant_ in
  let q_ := (kmulr RA (add b_ (kmulr RA r2 sgn_)) (neg (rhalf RA))) in
  let* q3 := div q_ a_ in
  let* roots_ := upd roots_ 0 q3 in
  let* v6 := if (eqb q_ (@zero CA))
      then (rd roots_ 0)
      else (div c_ q_) in
  upd roots_ 1 v6.

(* src/polynomial/mod.rs : impl Polynomial < Cmplx > :: fn cubic_solve *)
Definition s_cubic_solve (a_ : (T CA)) (b_ : (T CA)) (c_ : (T CA)) (d_ : (T CA)) : res (list (T CA)) :=
  let roots_ := (repeat (@zero CA) 3) in
  let '(a2_, b2_, c2_, d2_) := ((mul a_ a_), (mul b_ b_), (mul c_ c_), (mul d_ d_)) in
  let dis_ := (sub (sub (add (sub (mul (mul (mul (kmulr RA a_ (rlit RA 18)) b_) c_) d_) (mul (mul (kmulr RA b_ (rlit RA 4)) b2_) d_)) (mul b2_ c2_)) (mul (mul (kmulr RA a_ (rlit RA 4)) c2_) c_)) (mul (kmulr RA a2_ (rlit RA 27)) d2_)) in
  let d0_ := (sub b2_ (mul (kmulr RA a_ (rlit RA 3)) c_)) in
  let d1_ := (add (sub (mul (kmulr RA b2_ (rlit RA 2)) b_) (mul (mul (kmulr RA a_ (rlit RA 9)) b_) c_)) (mul (kmulr RA a2_ (rlit RA 27)) d_)) in
  if ((eqb d0_ (@zero CA)) && (eqb d1_ (@zero CA)))%bool
  then (let* q1 := div (neg b_) (kmulr RA a_ (rlit RA 3)) in
       let* roots_ := upd roots_ 0 q1 in
       let* x2 := rd roots_ 0 in
       let* roots_ := upd roots_ 1 x2 in
       let* x3 := rd roots_ 0 in
       upd roots_ 2 x3)
  else (let* sqrt_ := osqrt RA (mul (mul (kmulr RA a_ (neg (rlit RA 27))) a_) dis_) in
       let* base_ := kdivr RA (if (ltb (kre RA (mul (kconj RA d1_) sqrt_)) (@zero A)) then (sub d1_ sqrt_) else (add d1_ sqrt_)) (rlit RA 2) in
       let* q6 := div (@one A) (rlit RA 3) in
       let* k_ := opow RA base_ (mkk RA q6 (@zero A)) in
       let* q8 := div d0_ k_ in
       let* q9 := div (neg (add (add b_ k_) q8)) (kmulr RA a_ (rlit RA 3)) in
       let* roots_ := upd roots_ 0 q9 in
       let* q10 := div (sqrt (rlit RA 3)) (rlit RA 2) in
       let u_ := (mkk RA (neg (rhalf RA)) q10) in
       let* q11 := div d0_ (mul u_ k_) in
       let* q12 := div (neg (add (add b_ (mul u_ k_)) q11)) (kmulr RA a_ (rlit RA 3)) in
       let* roots_ := upd roots_ 1 q12 in
       let u2_ := (mul u_ u_) in
       let* q13 := div d0_ (mul u2_ k_) in
       let* q14 := div (neg (add (add b_ (mul u2_ k_)) q13)) (kmulr RA a_ (rlit RA 3)) in
       upd roots_ 2 q14).

End SrcRoots.
