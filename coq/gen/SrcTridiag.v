(* gen/SrcTridiag.v -- REGENERATED from the Rust source by driver/translate_src.py (rust2coq) on every check run.
   One definition s_<f> per translated function, in the state-passing style of the hand-written models. *)
From Coq Require Import List Arith ZArith Lia Bool.
From OV Require Import Base.Panic Base.Arith Model.Vector Model.Matrix Model.Tridiag gen.SrcPrelude.
Import ListNotations.

Section SrcTridiag.
Context {A : Arith}.

(* src/tridiagonal.rs : impl < T > Tridiagonal < T > :: fn with_vectors *)
Definition s_with_vectors (sub_ : (list (T A))) (main_ : (list (T A))) (sup_ : (list (T A))) : res (tridiag A) :=
  let n_ := (length main_) in
  let* d1 := usub n_ 1 in
  let* c3 := if (negb ((length sub_) =? d1)%nat)
      then (Ok true)
      else (let* d2 := usub n_ 1 in
           Ok (negb ((length sup_) =? d2)%nat)) in
  if c3
  then (Panic Guard)
  else (Ok (mkT sub_ main_ sup_ n_)).

(* src/tridiagonal.rs : impl < T > Tridiagonal < T > :: fn with_vecs *)
Definition s_with_vecs (sub_ : (list (T A))) (main_ : (list (T A))) (sup_ : (list (T A))) : res (tridiag A) :=
  let n_ := (length main_) in
  let* d1 := usub n_ 1 in
  let* c3 := if (negb ((length sub_) =? d1)%nat)
      then (Ok true)
      else (let* d2 := usub n_ 1 in
           Ok (negb ((length sup_) =? d2)%nat)) in
  if c3
  then (Panic Guard)
  else (Ok (mkT sub_ main_ sup_ n_)).

(* src/tridiagonal.rs : impl < T : Clone + Copy + Zero + Number > Tridiagonal < T > :: fn new *)
Definition s_tnew (n_ : nat) : res (tridiag A) :=
  let* d1 := usub n_ 1 in
  let sub_ := (repeat (@zero A) d1) in
  let main_ := (repeat (@zero A) n_) in
  let* d2 := usub n_ 1 in
  let sup_ := (repeat (@zero A) d2) in
  Ok (mkT sub_ main_ sup_ n_).

(* src/tridiagonal.rs : impl < T : Clone + Copy + Zero + Number > Tridiagonal < T > :: fn with_elements *)
Definition s_with_elements (sub_ : (T A)) (main_ : (T A)) (sup_ : (T A)) (n_ : nat) : res (tridiag A) :=
  let* d1 := usub n_ 1 in
  let sub_1 := (repeat sub_ d1) in
  let main_1 := (repeat main_ n_) in
  let* d2 := usub n_ 1 in
  let sup_1 := (repeat sup_ d2) in
  Ok (mkT sub_1 main_1 sup_1 n_).

(* src/tridiagonal.rs : impl < T : Clone + Copy + Zero + Number > Tridiagonal < T > :: fn resize *)
Definition s_tresize (self_ : (tridiag A)) (n_ : nat) : res (tridiag A) :=
  let* d1 := usub n_ 1 in
  let self_ := (mkT (repeat (@zero A) d1) (tmain self_) (tsup self_) (tn self_)) in
  let self_ := (mkT (tsub self_) (repeat (@zero A) n_) (tsup self_) (tn self_)) in
  let* d2 := usub n_ 1 in
  let self_ := (mkT (tsub self_) (tmain self_) (repeat (@zero A) d2) (tn self_)) in
  let self_ := (mkT (tsub self_) (tmain self_) (tsup self_) n_) in
  Ok self_.

(* src/tridiagonal.rs : impl < T : Clone + Copy + Zero + Number > Tridiagonal < T > :: fn transpose_in_place *)
Definition s_ttranspose_in_place (self_ : (tridiag A)) : res (tridiag A) :=
  let temp_ := (tsub self_) in
  let self_ := (mkT (tsup self_) (tmain self_) (tsup self_) (tn self_)) in
  let self_ := (mkT (tsub self_) (tmain self_) temp_ (tn self_)) in
  Ok self_.

(* src/tridiagonal.rs : impl < T : Clone + Copy + Zero + Number > Tridiagonal < T > :: fn transpose *)
Definition s_ttranspose (self_ : (tridiag A)) : res (tridiag A) :=
  let temp_ := self_ in
  let temp_ := (ttranspose_in_place temp_) in
  Ok temp_.

(* src/tridiagonal.rs : impl < T : Clone + Copy + Zero + Number > Tridiagonal < T > :: fn det *)
Definition s_tdet (self_ : (tridiag A)) : res (T A) :=
  let f_ := (repeat (@zero A) ((tn self_) + 1)%nat) in
  let* f_ := upd f_ 0 (@one A) in
  let* x1 := rd (tmain self_) 0 in
  let* x2 := rd f_ 0 in
  let* f_ := upd f_ 1 (mul x1 x2) in
  let* f_ := for_ 2 ((tn self_) + 1)%nat (fun j_ (f_ : (list (T A))) =>
          let* d3 := usub j_ 1 in
          let* x4 := rd (tmain self_) d3 in
          let* d5 := usub j_ 1 in
          let* x6 := rd f_ d5 in
          let* d7 := usub j_ 2 in
          let* x8 := rd (tsub self_) d7 in
          let* d9 := usub j_ 2 in
          let* x10 := rd (tsup self_) d9 in
          let* d11 := usub j_ 2 in
          let* x12 := rd f_ d11 in
          upd f_ j_ (sub (mul x4 x6) (mul (mul x8 x10) x12))) f_ in
  rd f_ (tn self_).

(* src/tridiagonal.rs : impl < T : Clone + Copy + Zero + Number > Tridiagonal < T > :: fn convert *)
Definition s_tconvert (self_ : (tridiag A)) : res (matrix A) :=
  let dense_ := (mat_new (tn self_) (tn self_) (@zero A)) in
  if ((tn self_) =? 0)%nat
  then (Panic Guard)
  else (if ((tn self_) =? 1)%nat
       then (let* x1 := rd (tmain self_) 0 in
            mset dense_ 0 0 x1)
       else (let* x2 := rd (tmain self_) 0 in
            let* dense_ := mset dense_ 0 0 x2 in
            let* x3 := rd (tsup self_) 0 in
            let* dense_ := mset dense_ 0 1 x3 in
            let* d4 := usub (tn self_) 1 in
            let* dense_ := for_ 1 d4 (fun i_ (dense_ : (matrix A)) =>
                    let* d5 := usub i_ 1 in
                    let* x6 := rd (tsub self_) d5 in
                    let* d7 := usub i_ 1 in
                    let* dense_ := mset dense_ i_ d7 x6 in
                    let* x8 := rd (tmain self_) i_ in
                    let* dense_ := mset dense_ i_ i_ x8 in
                    let* x9 := rd (tsup self_) i_ in
                    mset dense_ i_ (i_ + 1)%nat x9) dense_ in
            let* d10 := usub (tn self_) 2 in
            let* x11 := rd (tsub self_) d10 in
            let* d12 := usub (tn self_) 1 in
            let* d13 := usub (tn self_) 2 in
            let* dense_ := mset dense_ d12 d13 x11 in
            let* d14 := usub (tn self_) 1 in
            let* x15 := rd (tmain self_) d14 in
            let* d16 := usub (tn self_) 1 in
            let* d17 := usub (tn self_) 1 in
            mset dense_ d16 d17 x15)).

(* src/tridiagonal.rs : impl < T : Clone + Copy + Zero + Number > Tridiagonal < T > :: fn solve *)
Definition s_tsolve (self_ : (tridiag A)) (r_ : (list (T A))) : res (list (T A)) :=
  if (negb ((tn self_) =? (length r_))%nat)
  then (Panic Guard)
  else (let u_ := (repeat (@zero A) (tn self_)) in
       let a_temp_ := (tsub self_) in
       let c_temp_ := (tsup self_) in
       let a_temp_ := (vpush_front a_temp_ (@zero A)) in
       let c_temp_ := (c_temp_ ++ [(@zero A)]) in
       let* beta_ := rd (tmain self_) 0 in
       let gamma_ := (repeat (@zero A) (tn self_)) in
       let* x2 := rd (tmain self_) 0 in
       if (eqb x2 (@zero A))
       then (Panic Guard)
       else (let* x3 := rd r_ 0 in
            let* q4 := div x3 beta_ in
            let* u_ := upd u_ 0 q4 in
            let* (u_, beta_, gamma_) := for_ 1 (tn self_) (fun j_ (s16 : ((list (T A)) * (T A) * (list (T A)))) =>
                    let '(u_, beta_, gamma_) := s16 in
                    let* d5 := usub j_ 1 in
                    let* x6 := rd c_temp_ d5 in
                    let* q7 := div x6 beta_ in
                    let* gamma_ := upd gamma_ j_ q7 in
                    let* x8 := rd (tmain self_) j_ in
                    let* x9 := rd a_temp_ j_ in
                    let* x10 := rd gamma_ j_ in
                    let beta_ := (sub x8 (mul x9 x10)) in
                    if (eqb beta_ (@zero A))
                    then (Panic Guard)
                    else (let* x11 := rd r_ j_ in
                         let* x12 := rd a_temp_ j_ in
                         let* d13 := usub j_ 1 in
                         let* x14 := rd u_ d13 in
                         let* q15 := div (sub x11 (mul x12 x14)) beta_ in
                         let* u_ := upd u_ j_ q15 in
                         Ok (u_, beta_, gamma_))) (u_, beta_, gamma_) in
            let* d17 := usub (tn self_) 1 in
            for_rev 0 d17 (fun j_ (u_ : (list (T A))) =>
                let* x18 := rd gamma_ (j_ + 1)%nat in
                let* x19 := rd u_ (j_ + 1)%nat in
                let temp_ := (mul x18 x19) in
                let* x20 := rd u_ j_ in
                upd u_ j_ (sub x20 temp_)) u_)).

(* src/tridiagonal.rs : impl < T > Index < ( usize , usize ) > for Tridiagonal < T > :: fn index *)
Definition s_tindex (self_ : (tridiag A)) (index_ : (nat * nat)) : res (T A) :=
  let '(i_, j_) := index_ in
  if (((tn self_) <=? i_)%nat || ((tn self_) <=? j_)%nat)%bool
  then (Panic Guard)
  else (if (i_ =? j_)%nat
       then (rd (tmain self_) i_)
       else (if (i_ =? (j_ + 1)%nat)%nat
            then (rd (tsub self_) j_)
            else (if ((i_ + 1)%nat =? j_)%nat
                 then (rd (tsup self_) i_)
                 else (Panic Guard)))).

(* src/tridiagonal.rs : impl < T : Clone + Neg < Output = T > > Neg for Tridiagonal < T > :: fn neg *)
Definition s_tneg (self_ : (tridiag A)) : res (tridiag A) :=
  let sub_ := (vneg (tsub self_)) in
  let main_ := (vneg (tmain self_)) in
  let sup_ := (vneg (tsup self_)) in
  let n_ := (tn self_) in
  Ok (mkT sub_ main_ sup_ n_).

(* src/tridiagonal.rs : impl < T : Clone + Number + Copy > Add < Tridiagonal < T > > for Tridiagonal < T > :: fn add *)
Definition s_tadd (self_ : (tridiag A)) (plus_ : (tridiag A)) : res (tridiag A) :=
  if (negb ((tsize self_) =? (tsize plus_))%nat)
  then (Panic Guard)
  else (let* sub_ := vadd (tsub self_) (tsub plus_) in
       let* main_ := vadd (tmain self_) (tmain plus_) in
       let* sup_ := vadd (tsup self_) (tsup plus_) in
       let n_ := (tn self_) in
       Ok (mkT sub_ main_ sup_ n_)).

(* src/tridiagonal.rs : impl < T : Clone + Number + Copy > Sub < Tridiagonal < T > > for Tridiagonal < T > :: fn sub *)
Definition s_tminus (self_ : (tridiag A)) (minus_ : (tridiag A)) : res (tridiag A) :=
  if (negb ((tsize self_) =? (tsize minus_))%nat)
  then (Panic Guard)
  else (let* sub_ := vsub (tsub self_) (tsub minus_) in
       let* main_ := vsub (tmain self_) (tmain minus_) in
       let* sup_ := vsub (tsup self_) (tsup minus_) in
       let n_ := (tn self_) in
       Ok (mkT sub_ main_ sup_ n_)).

(* src/tridiagonal.rs : impl < T : Clone + Number > Mul < T > for Tridiagonal < T > :: fn mul *)
Definition s_tscale (self_ : (tridiag A)) (scalar_ : (T A)) : res (tridiag A) :=
  let sub_ := (vscale (tsub self_) scalar_) in
  let main_ := (vscale (tmain self_) scalar_) in
  let sup_ := (vscale (tsup self_) scalar_) in
  let n_ := (tn self_) in
  Ok (mkT sub_ main_ sup_ n_).

(* src/tridiagonal.rs : impl Mul < Tridiagonal < f64 > > for f64 :: fn mul *)
Definition s_tscale_l (self_ : (T A)) (tridiagonal_ : (tridiag A)) : res (tridiag A) :=
  let sub_ := (vscale_l self_ (tsub tridiagonal_)) in
  let main_ := (vscale_l self_ (tmain tridiagonal_)) in
  let sup_ := (vscale_l self_ (tsup tridiagonal_)) in
  let n_ := (tn tridiagonal_) in
  Ok (mkT sub_ main_ sup_ n_).

(* src/tridiagonal.rs : impl < T : Clone + Number > Div < T > for Tridiagonal < T > :: fn div *)
Definition s_tdiv (self_ : (tridiag A)) (scalar_ : (T A)) : res (tridiag A) :=
  let* sub_ := vdiv (tsub self_) scalar_ in
  let* main_ := vdiv (tmain self_) scalar_ in
  let* sup_ := vdiv (tsup self_) scalar_ in
  let n_ := (tn self_) in
  Ok (mkT sub_ main_ sup_ n_).

(* src/tridiagonal.rs : impl < T : Clone + Number > AddAssign < T > for Tridiagonal < T > :: fn add_assign *)
Definition s_tadd_assign_s (self_ : (tridiag A)) (plus_ : (T A)) : res (tridiag A) :=
  let self_ := (mkT (vadd_scalar (tsub self_) plus_) (tmain self_) (tsup self_) (tn self_)) in
  let self_ := (mkT (tsub self_) (vadd_scalar (tmain self_) plus_) (tsup self_) (tn self_)) in
  let self_ := (mkT (tsub self_) (tmain self_) (vadd_scalar (tsup self_) plus_) (tn self_)) in
  Ok self_.

(* src/tridiagonal.rs : impl < T : Clone + Number > SubAssign < T > for Tridiagonal < T > :: fn sub_assign *)
Definition s_tsub_assign_s (self_ : (tridiag A)) (rhs_ : (T A)) : res (tridiag A) :=
  let self_ := (mkT (vsub_scalar (tsub self_) rhs_) (tmain self_) (tsup self_) (tn self_)) in
  let self_ := (mkT (tsub self_) (vsub_scalar (tmain self_) rhs_) (tsup self_) (tn self_)) in
  let self_ := (mkT (tsub self_) (tmain self_) (vsub_scalar (tsup self_) rhs_) (tn self_)) in
  Ok self_.

(* src/tridiagonal.rs : impl < T : Clone + Number > MulAssign < T > for Tridiagonal < T > :: fn mul_assign *)
Definition s_tmul_assign_s (self_ : (tridiag A)) (rhs_ : (T A)) : res (tridiag A) :=
  let self_ := (mkT (vmul_scalar (tsub self_) rhs_) (tmain self_) (tsup self_) (tn self_)) in
  let self_ := (mkT (tsub self_) (vmul_scalar (tmain self_) rhs_) (tsup self_) (tn self_)) in
  let self_ := (mkT (tsub self_) (tmain self_) (vmul_scalar (tsup self_) rhs_) (tn self_)) in
  Ok self_.

(* src/tridiagonal.rs : impl < T : Clone + Number > DivAssign < T > for Tridiagonal < T > :: fn div_assign *)
Definition s_tdiv_assign_s (self_ : (tridiag A)) (rhs_ : (T A)) : res (tridiag A) :=
  let* r1 := vdiv_scalar (tsub self_) rhs_ in
  let self_ := (mkT r1 (tmain self_) (tsup self_) (tn self_)) in
  let* r2 := vdiv_scalar (tmain self_) rhs_ in
  let self_ := (mkT (tsub self_) r2 (tsup self_) (tn self_)) in
  let* r3 := vdiv_scalar (tsup self_) rhs_ in
  let self_ := (mkT (tsub self_) (tmain self_) r3 (tn self_)) in
  Ok self_.

(* src/tridiagonal.rs : impl < T : Clone + Copy + Number > Mul < & Vector < T > > for & Tridiagonal < T > :: fn mul *)
Definition s_tmul (self_ : (tridiag A)) (vec_ : (list (T A))) : res (list (T A)) :=
  if (negb ((tsize self_) =? (length vec_))%nat)
  then (Panic Guard)
  else (let result_ := (repeat (@zero A) (tsize self_)) in
       if ((tn self_) =? 1)%nat
       then (let* x1 := rd (tmain self_) 0 in
            let* x2 := rd vec_ 0 in
            upd result_ 0 (mul x1 x2))
       else (let* x3 := rd (tmain self_) 0 in
            let* x4 := rd vec_ 0 in
            let* x5 := rd (tsup self_) 0 in
            let* x6 := rd vec_ 1 in
            let* result_ := upd result_ 0 (add (mul x3 x4) (mul x5 x6)) in
            let* d7 := usub (tsize self_) 1 in
            let* result_ := for_ 1 d7 (fun i_ (result_ : (list (T A))) =>
                    let* d8 := usub i_ 1 in
                    let* x9 := rd (tsub self_) d8 in
                    let* d10 := usub i_ 1 in
                    let* x11 := rd vec_ d10 in
                    let* x12 := rd (tmain self_) i_ in
                    let* x13 := rd vec_ i_ in
                    let* x14 := rd (tsup self_) i_ in
                    let* x15 := rd vec_ (i_ + 1)%nat in
                    upd result_ i_ (add (add (mul x9 x11) (mul x12 x13)) (mul x14 x15))) result_ in
            let* d16 := usub (tn self_) 2 in
            let* x17 := rd (tsub self_) d16 in
            let* d18 := usub (tn self_) 2 in
            let* x19 := rd vec_ d18 in
            let* d20 := usub (tn self_) 1 in
            let* x21 := rd (tmain self_) d20 in
            let* d22 := usub (tn self_) 1 in
            let* x23 := rd vec_ d22 in
            let* d24 := usub (tn self_) 1 in
            upd result_ d24 (add (mul x17 x19) (mul x21 x23)))).

End SrcTridiag.
