(* gen/SrcPrelude.v -- helper definitions used by the regenerated gen/Src*.v files (written by driver/translate_src.py). *)
From Coq Require Import List Arith ZArith Lia Bool.
From OV Require Import Base.Panic Base.Arith.
Import ListNotations.

(* `i as usize` for an isize i: two's-complement reinterpretation (64-bit usize) *)
Definition isize_as_usize (i : Z) : nat :=
  Z.to_nat (if (i <? 0)%Z then (i + 18446744073709551616)%Z else i).

(* Vec::drain(lo..hi) as a statement: panics when lo > hi or hi > len, otherwise removes the range *)
Definition drain {X} (l : list X) (lo hi : nat) : res (list X) :=
  if (lo <=? hi) && (hi <=? length l) then Ok (firstn lo l ++ skipn hi l) else Panic Index.

(* for j in lo..hi over isize: hi - lo iterations (none when hi <= lo), j = lo, lo+1, .. *)
Definition for_z {S} (lo hi : Z) (body : Z -> S -> res S) (s : S) : res S :=
  for_ 0 (Z.to_nat (hi - lo)) (fun k s => body (lo + Z.of_nat k)%Z s) s.

(* a `for` loop with a `return` inside: the body answers inl (next state) or inr (the value returned by the function) *)
Fixpoint for_ret_from {S R} (n lo : nat) (body : nat -> S -> res (S + R)) (s : S) : res (S + R) :=
  match n with
  | 0 => Ok (inl s)
  | Datatypes.S n' =>
      let* o := body lo s in
      match o with
      | inl s' => for_ret_from n' (Datatypes.S lo) body s'
      | inr r => Ok (inr r)
      end
  end.
Definition for_ret {S R} (lo hi : nat) (body : nat -> S -> res (S + R)) (s : S) : res (S + R) :=
  for_ret_from (hi - lo) lo body s.

(* a `while` loop with an explicit fuel bound: each pass answers WNext (go on), WDone (condition false) or WRet (the
   function returns); None = the fuel ran out *)
Inductive wout (S R : Type) : Type := WNext (s : S) | WDone (s : S) | WRet (r : R).
Arguments WNext {S R} s. Arguments WDone {S R} s. Arguments WRet {S R} r.
Fixpoint while_ret {S R} (fuel : nat) (body : S -> res (wout S R)) (s : S) : res (option (S + R)) :=
  match fuel with
  | 0 => Ok None
  | Datatypes.S f =>
      let* o := body s in
      match o with
      | WNext s' => while_ret f body s'
      | WDone s' => Ok (Some (inl s'))
      | WRet r => Ok (Some (inr r))
      end
  end.

(* for x in v.drain(..) / for x in v: the elements in order *)
Fixpoint for_in {S X} (l : list X) (body : X -> S -> res S) (s : S) : res S :=
  match l with
  | [] => Ok s
  | x :: t => let* s' := body x s in for_in t body s'
  end.

(* usize `/` and `%` by a divisor that may be 0 *)
Definition udiv (a b : nat) : res nat := if b =? 0 then Panic DivZero else Ok (a / b).
Definition umod (a b : nat) : res nat := if b =? 0 then Panic DivZero else Ok (a mod b).

(* handle.join().unwrap() of a scoped worker (value model: the worker is its computation): a worker that panicked makes
   join() return Err, which unwrap() turns into a panic of the joining thread *)
Definition join_unwrap {X} (h : res X) : res X := match h with Ok x => Ok x | Panic _ => Panic Unwrap end.

(* the value of Vec::pop(): the last element, if any *)
Definition last_opt {X} (l : list X) : option X := match rev l with [] => None | x :: _ => Some x end.

(* Option::unwrap / Result::unwrap *)
Definition unwrap_opt {X} (o : option X) : res X :=
  match o with Some x => Ok x | None => Panic Unwrap end.
