(* gen/SrcVectorOps.v -- REGENERATED from the Rust source by driver/translate_src.py (rust2coq) on every check run.
   One definition s_<f> per translated function, in the state-passing style of the hand-written models. *)
From Coq Require Import List Arith ZArith Lia Bool.
From OV Require Import Base.Panic Base.Arith Model.Vector gen.SrcPrelude.
Import ListNotations.

Section SrcVectorOps.
Context {A : Arith}.

(* src/vector/functions.rs : impl < T : std :: cmp :: PartialEq > Vector < T > :: fn find *)
Definition s_vfind (self_ : (list (T A))) (value_ : (T A)) : res nat :=
  let index_ := (find_first self_ value_ 0) in
  match index_ with
  | Some index_1 => Ok index_1
  | None => usub (length self_) 1
  end.

(* src/vector/functions.rs : impl < T : std :: default :: Default > Vector < T > :: fn resize *)
Definition s_vresize (self_ : (list (T A))) (new_size_ : nat) : res (list (T A)) :=
  let n1 := (vresize self_ new_size_) in
  let self_ := n1 in
  Ok self_.

(* src/vector/operations.rs : impl < T > Index < usize > for Vector < T > :: fn index *)
Definition s_vindex (self_ : (list (T A))) (index_ : nat) : res (T A) :=
  rd self_ index_.

(* src/vector/operations.rs : impl < T > Vector < T > :: fn clear *)
Definition s_vclear (self_ : (list (T A))) : res (list (T A)) :=
  let n1 := ((@nil (T A))) in
  let self_ := n1 in
  Ok self_.

(* src/vector/operations.rs : impl < T > Vector < T > :: fn swap *)
Definition s_vswap (self_ : (list (T A))) (i_ : nat) (j_ : nat) : res (list (T A)) :=
  vswap self_ i_ j_.

(* src/vector/operations.rs : impl < T > Vector < T > :: fn push *)
Definition s_vpush (self_ : (list (T A))) (elem_ : (T A)) : res (list (T A)) :=
  let n1 := (self_ ++ [elem_]) in
  let self_ := n1 in
  Ok self_.

(* src/vector/operations.rs : impl < T > Vector < T > :: fn push_front *)
Definition s_vpush_front (self_ : (list (T A))) (elem_ : (T A)) : res (list (T A)) :=
  vinsert self_ 0 elem_.

(* src/vector/operations.rs : impl < T > Vector < T > :: fn insert *)
Definition s_vinsert (self_ : (list (T A))) (pos_ : nat) (new_elem_ : (T A)) : res (list (T A)) :=
  vinsert self_ pos_ new_elem_.

(* src/vector/operations.rs : impl < T > Vector < T > :: fn pop *)
Definition s_vpop (self_ : (list (T A))) : res ((list (T A)) * (T A)) :=
  let '(n1, r2) := ((removelast self_, last_opt self_)) in
  let self_ := n1 in
  let result_ := r2 in
  let* u3 := unwrap_opt result_ in
  Ok (self_, u3).

(* src/vector/mod.rs : impl < T > Vector < T > :: fn size *)
Definition s_vsize (self_ : (list (T A))) : res nat :=
  Ok (length self_).

(* src/vector/mod.rs : impl < T : Clone > Vector < T > :: fn new *)
Definition s_vnew (size_ : nat) (elem_ : (T A)) : res (list (T A)) :=
  let vec_ := (repeat elem_ size_) in
  Ok vec_.

(* src/vector/mod.rs : impl < T : Clone + Number > Vector < T > :: fn zeros *)
Definition s_vzeros (size_ : nat) : res (list (T A)) :=
  let vec_ := (repeat (@zero A) size_) in
  Ok vec_.

(* src/vector/mod.rs : impl < T : Clone + Number > Vector < T > :: fn ones *)
Definition s_vones (size_ : nat) : res (list (T A)) :=
  let vec_ := (repeat (@one A) size_) in
  Ok vec_.

End SrcVectorOps.
