(* Inst/QcInst.v -- the exact tier: canonical rationals (Leibniz equality). *)
From Coq Require Import List ZArith QArith Qcanon Lia Field_theory.
From OV Require Import Base.Panic Base.Arith.
Import ListNotations.

Definition Qc_eqb (x y : Qc) : bool := Qeq_bool x y.
Definition Qc_ltb (x y : Qc) : bool :=
  match (x ?= y)%Qc with Lt => true | _ => false end.
Definition Qc_leb (x y : Qc) : bool :=
  match (x ?= y)%Qc with Gt => false | _ => true end.
Definition Qc_abs (x : Qc) : Qc := if Qc_ltb x 0%Qc then (- x)%Qc else x.   (* traits.rs impl_signed! shape *)
Definition Qc_div (x y : Qc) : res Qc :=
  if Qc_eqb y 0%Qc then Panic DivZero else Ok (x / y)%Qc.

Definition AQ : Arith := {|
  T := Qc; zero := 0%Qc; one := 1%Qc;
  add := Qcplus; sub := Qcminus; mul := Qcmult; neg := Qcopp;
  abs := Qc_abs; div := Qc_div; eqb := Qc_eqb; ltb := Qc_ltb; leb := Qc_leb |}.

(* literal: numerator / positive denominator *)
Definition q (n : Z) (d : positive) : Qc := Q2Qc (n # d).

(* canonical output: numerator, denominator *)
Definition flat_q (x : Qc) : list Z := [2%Z; Qnum x; Zpos (Qden x)].

Lemma Qc_eqb_spec (x y : Qc) : Qc_eqb x y = true <-> x = y.
Proof.
  unfold Qc_eqb. rewrite Qeq_bool_iff. split.
  - apply Qc_is_canon.
  - now intros ->.
Qed.

Lemma AQ_field : field_theory (@zero AQ) one add mul sub neg (fun x y => mul x (Qcinv y)) Qcinv eq.
Proof. exact Qcft. Qed.

Definition AQ_FieldLaws : FieldLaws AQ.
Proof.
  refine {| fl_inv := Qcinv : AQ -> AQ; fl_field := AQ_field |}.
  - exact Qc_eqb_spec.
  - intros x y. reflexivity.
Defined.

From OV Require Import Model.Complex.
(* Complex<Rat>: only the ring/field operators are available in Rust (no Signed, no Copy) *)
Definition flat_cq (z : cplx AQ) : list Z := flat_q (re z) ++ flat_q (im z).
