(* Inst/FloatInst.v -- the float tier: Coq's primitive binary64 (bit-exact IEEE under vm_compute). *)
From Coq Require Import List ZArith Floats Uint63 Lia.
From OV Require Import Base.Panic Base.Arith.
Import ListNotations.

Definition f_abs (x : float) : float := if PrimFloat.ltb x 0%float then PrimFloat.opp x else x. (* traits.rs impl_signed! *)

Definition AF : Arith := {|
  T := float; zero := 0%float; one := 1%float;
  add := PrimFloat.add; sub := PrimFloat.sub; mul := PrimFloat.mul; neg := PrimFloat.opp;
  abs := f_abs; div := fun x y => Ok (PrimFloat.div x y);
  eqb := PrimFloat.eqb; ltb := PrimFloat.ltb; leb := PrimFloat.leb |}.

Definition f_of_nat (n : nat) : float := PrimFloat.of_uint63 (Uint63.of_Z (Z.of_nat n)).

Definition SAF : SArith := {| SA := AF; sqrt := PrimFloat.sqrt; of_nat := f_of_nat |}.

(* literal from (sign, integer mantissa < 2^53, exponent): exact *)
Definition fz (s : bool) (m : Z) (e : Z) : float :=
  let x := Z.ldexp (PrimFloat.of_uint63 (Uint63.of_Z m)) e in
  if s then PrimFloat.opp x else x.

(* IEEE-754 binary64 bit pattern as a Z; one canonical NaN *)
Definition bits (f : float) : Z :=
  match Prim2SF f with
  | S754_nan => 9221120237041090560%Z          (* 0x7FF8000000000000 *)
  | S754_zero s => if s then 9223372036854775808%Z else 0%Z
  | S754_infinity s => ((if s then 9223372036854775808 else 0) + 9218868437227405312)%Z
  | S754_finite s m e =>
      let m := Zpos m in
      let sgn := (if s then 9223372036854775808 else 0)%Z in
      if (m <? 4503599627370496)%Z then (sgn + m)%Z                      (* subnormal, e = -1074 *)
      else (sgn + (e + 1075) * 4503599627370496 + (m - 4503599627370496))%Z
  end.

Definition flat_f (x : float) : list Z := [1%Z; bits x].

From OV Require Import Model.Complex.
Definition ACF : Arith := CArith SAF.
Definition flat_cf (z : cplx AF) : list Z := flat_f (re z) ++ flat_f (im z).
