(* Bridge/DetCor.v -- what "determinant = \det" buys, stated about the code's determinant itself:
   value 0 on every singular matrix, sign flip under a row exchange, multiplicativity.
   ssreflect/mathcomp style. *)
From Coq Require Import List Arith Lia.
From OV Require Import Base.Panic Base.Arith Model.Vector Model.Matrix Model.Solve
  Proofs.Matrix Proofs.LUPrim Proofs.LUSum Proofs.LU Proofs.LUTab Bridge.Det.
From mathcomp Require Import all_ssreflect all_algebra all_fingroup.
Set Implicit Arguments. Unset Strict Implicit. Unset Printing Implicit Defensive.
Import GRing.Theory Num.Theory.
Local Open Scope ring_scope.

Section DetCor.
Variables (F : fieldType) (abs : F -> F) (ltb leb : F -> F -> bool).
Notation A := (ArithOf F abs ltb leb).
Hypothesis PL : PivLaws A.

(* singular input (a nonzero left null vector): the code answers exactly 0 -- no NaN, no panic *)
Lemma determinant_singular_zero_lemma n (f : nat -> nat -> F) (v : nat -> F) :
  (exists i, (i < n)%coq_nat /\ v i <> 0) ->
  (forall j, (j < n)%coq_nat -> @sum_n A n (fun i => v i * f i j) = 0) ->
  @Solve.determinant A (@tabulate A n n f) = Ok (0 : F).
Proof.
move=> [i0 [/ltP i0n vi0]] vM.
rewrite (determinant_is_det_lemma PL); congr Ok; apply/eqP/det0P.
exists (\row_(i < n) v i).
- apply/eqP => /rowP /(_ (Ordinal i0n)); rewrite !mxE /= => e; exact: vi0.
- apply/rowP => j; rewrite !mxE.
  rewrite -[RHS](vM j (ltP (ltn_ord j))) sum_n_big.
  by apply: eq_bigr => k _; rewrite !mxE.
Qed.

(* exchanging two different rows flips the sign of the code's determinant *)
Lemma determinant_row_swap_lemma n (f : nat -> nat -> F) a b (d : F) :
  (a < n)%coq_nat -> (b < n)%coq_nat -> a <> b ->
  @Solve.determinant A (@tabulate A n n f) = Ok d ->
  @Solve.determinant A (@tabulate A n n (fun i j => f (tr a b i) j)) = Ok (- d).
Proof.
move=> an bn ab; rewrite !(determinant_is_det_lemma PL) => -[<-]; congr Ok.
have ok : swaps_ok n [:: (a, b)] by constructor=> //; constructor.
by have := det_swaps f ok; rewrite /= expr1 mulN1r.
Qed.

(* multiplicativity *)
Lemma determinant_mul_lemma n (f g : nat -> nat -> F) (df dg : F) :
  @Solve.determinant A (@tabulate A n n f) = Ok df ->
  @Solve.determinant A (@tabulate A n n g) = Ok dg ->
  @Solve.determinant A (@tabulate A n n (@mprod A n f g)) = Ok (df * dg).
Proof.
rewrite !(determinant_is_det_lemma PL) => -[<-] [<-]; congr Ok.
rewrite -det_mulmx; congr (\det _).
apply/matrixP => i j; rewrite !mxE /mprod sum_n_big.
by apply: eq_bigr => k _; rewrite !mxE.
Qed.

End DetCor.

Lemma det_id_neq0 (F : fieldType) n : \det (\matrix_(i < n, j < n) (if Nat.eqb i j then 1 else 0 : F)) != 0.
Proof.
have -> : \matrix_(i < n, j < n) (if Nat.eqb i j then 1 else 0 : F) = 1%:M.
  by apply/matrixP => i j; rewrite !mxE eqb_eqn -val_eqE; case: eqP.
by rewrite det1 oner_neq0.
Qed.

Print Assumptions determinant_singular_zero_lemma.
Print Assumptions determinant_row_swap_lemma.
Print Assumptions determinant_mul_lemma.
