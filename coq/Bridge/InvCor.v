(* Bridge/InvCor.v -- consequences over a mathcomp fieldType: the computed inverse is THE inverse;
   inverse returns exactly on nonsingular input and panics with DivZero exactly on singular input;
   solve_lu returns whenever the matrix has a left inverse.  ssreflect/mathcomp style. *)
From Coq Require Import List Arith Lia.
From OV Require Import Base.Panic Base.Arith Model.Vector Model.Matrix Model.Solve
  Proofs.Matrix Proofs.LUPrim Proofs.LUSum Proofs.LU Proofs.LUSolve Proofs.LUInv Proofs.LUInvC
  Proofs.LUPanic Proofs.LUSolveC Proofs.LUTab Bridge.Det Bridge.Inv.
From mathcomp Require Import all_ssreflect all_algebra all_fingroup.
Set Implicit Arguments. Unset Strict Implicit. Unset Printing Implicit Defensive.
Import GRing.Theory Num.Theory.
Local Open Scope ring_scope.

Section InvCor.
Variables (F : fieldType) (abs : F -> F) (ltb leb : F -> F -> bool).
Notation A := (ArithOf F abs ltb leb).
Hypothesis PL : PivLaws A.
Let FLA := ArithOf_FieldLaws abs ltb leb.

(* entrywise product identities as mathcomp matrix identities *)
Lemma mprod_mulmx n (Xf Yf : nat -> nat -> F) :
  (forall i j, (i < n)%coq_nat -> (j < n)%coq_nat -> @mprod A n Xf Yf i j = @delta A i j) ->
  (\matrix_(i < n, j < n) Xf i j) *m (\matrix_(i < n, j < n) Yf i j) = 1%:M.
Proof.
move=> H; apply/matrixP => i j; rewrite !mxE.
have := H i j (ltP (ltn_ord i)) (ltP (ltn_ord j)).
rewrite /mprod sum_n_big /delta eqb_eqn => E.
rewrite (eq_bigr (fun k : 'I_n => Xf i k * Yf k j)); last by move=> k _; rewrite !mxE.
by rewrite E -val_eqE /=; case: (_ == _).
Qed.

(* a left inverse forces a nonzero determinant *)
Lemma left_inverse_det n (f Nf : nat -> nat -> F) :
  (forall i j, (i < n)%coq_nat -> (j < n)%coq_nat -> @mprod A n Nf f i j = @delta A i j) ->
  \det (\matrix_(i < n, j < n) f i j) != 0.
Proof.
move/mprod_mulmx => /(congr1 determinant); rewrite det_mulmx det1 => E.
by apply/eqP => Z; move: E; rewrite Z mulr0 => /eqP; rewrite eq_sym oner_eq0.
Qed.

(* uniqueness: any right inverse of M is the matrix the code returns *)
Lemma inverse_unique_lemma (M N : Matrix.matrix A) (N'f : nat -> nat -> F) :
  wf M -> rows M = cols M -> @Solve.inverse A M = Ok N ->
  (forall i j, (i < rows M)%coq_nat -> (j < rows M)%coq_nat ->
     @mprod A (rows M) (@ent A M) N'f i j = @delta A i j) ->
  forall i j, (i < rows M)%coq_nat -> (j < rows M)%coq_nat -> N'f i j = @ent A N i j.
Proof.
move=> wfM sq inv right' i j /ltP ilt /ltP jlt.
have [_ [_ left]] := inverse_two_sided_lemma PL wfM sq inv.
have NM := mprod_mulmx left.
have MN' := mprod_mulmx right'.
set n := rows M in ilt jlt NM MN'.
set Mx := \matrix_(i < n, j < n) _ in NM MN'.
have : (\matrix_(i < n, j < n) N'f i j) = (\matrix_(i < n, j < n) @ent A N i j).
  by rewrite -[LHS]mul1mx -NM -mulmxA MN' mulmx1.
by move/matrixP/(_ (Ordinal ilt) (Ordinal jlt)); rewrite !mxE.
Qed.

(* inverse returns exactly on nonsingular input ... *)
Lemma inverse_ok_iff n (f : nat -> nat -> F) :
  (exists N, @Solve.inverse A (@tabulate A n n f) = Ok N) <-> \det (\matrix_(i < n, j < n) f i j) != 0.
Proof.
have [wfT [rT cT]] := @tabulate_shape A n n f.
have sq : rows (@tabulate A n n f) = cols (@tabulate A n n f) by rewrite rT cT.
split; last by case/(inverse_complete_bridge PL) => N [invN _]; exists N.
case=> N invN.
have [_ [_ left]] := inverse_two_sided_lemma PL wfT sq invN.
apply: (@left_inverse_det n f (@ent A N)) => i j ilt jlt.
rewrite rT in left; rewrite -(left i j ilt jlt) /mprod; apply: sum_n_ext => k klt.
by rewrite tabulate_ent.
Qed.

(* ... and panics with DivZero exactly on singular input (order >= 1) *)
Lemma inverse_panic_iff n (f : nat -> nat -> F) : (1 <= n)%coq_nat ->
  @Solve.inverse A (@tabulate A n n f) = Panic DivZero <-> \det (\matrix_(i < n, j < n) f i j) = 0.
Proof.
move=> n1.
have [wfT [rT cT]] := @tabulate_shape A n n f.
have sq : rows (@tabulate A n n f) = cols (@tabulate A n n f) by rewrite rT cT.
have n1' : (1 <= rows (@tabulate A n n f))%coq_nat by rewrite rT.
split.
- move=> pan; apply/eqP/negPn/negP => /(inverse_ok_iff n f) [N]; by rewrite pan.
- move=> d0; apply: (inverse_panic_lemma FLA PL _ wfT sq n1').
  by rewrite (determinant_is_det_lemma PL) d0.
Qed.

(* solve_lu returns whenever M has a left inverse (C01 completeness for the LU solver, order >= 1) *)
Lemma solve_lu_complete_bridge n (f Nf : nat -> nat -> F) (b : list F) : (1 <= n)%coq_nat ->
  length b = n ->
  (forall i j, (i < n)%coq_nat -> (j < n)%coq_nat -> @mprod A n Nf f i j = @delta A i j) ->
  exists x, @Solve.solve_lu A (@tabulate A n n f) b = Ok x.
Proof.
move=> n1 lb /left_inverse_det /eqP dn0.
have [wfT [rT cT]] := @tabulate_shape A n n f.
have sq : rows (@tabulate A n n f) = cols (@tabulate A n n f) by rewrite rT cT.
apply: (solve_lu_complete_lemma FLA PL _ _ _ wfT sq _ _ (determinant_is_det_lemma PL n f) dn0).
- by rewrite rT.
- by rewrite rT.
Qed.

End InvCor.

Print Assumptions inverse_unique_lemma.
Print Assumptions inverse_ok_iff.
Print Assumptions inverse_panic_iff.
Print Assumptions solve_lu_complete_bridge.
