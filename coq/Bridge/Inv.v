(* Bridge/Inv.v -- the model's inverse over any mathcomp fieldType is two-sided:
   inverse_right (Proofs/LUInv.v) gives M*N = 1; mulmx1C (through Bridge/Det.v) gives N*M = 1.
   ssreflect/mathcomp style. *)
From Coq Require Import List Arith Lia.
From OV Require Import Base.Panic Base.Arith Model.Vector Model.Matrix Model.Solve
  Proofs.Matrix Proofs.LUPrim Proofs.LUSum Proofs.LU Proofs.LUSolve Proofs.LUInv Proofs.LUInvC Proofs.LUTab Bridge.Det.
From mathcomp Require Import all_ssreflect all_algebra all_fingroup.
Set Implicit Arguments. Unset Strict Implicit. Unset Printing Implicit Defensive.
Import GRing.Theory Num.Theory.
Local Open Scope ring_scope.

Section BridgeInv.
Variables (F : fieldType) (abs : F -> F) (ltb leb : F -> F -> bool).
Notation A := (ArithOf F abs ltb leb).
Hypothesis PL : PivLaws A.

Lemma inverse_two_sided_lemma (M N : Matrix.matrix A) :
  wf M -> rows M = cols M -> @Solve.inverse A M = Ok N ->
  @LUPrim.shape A N (rows M) (rows M) /\
  (forall i j, (i < rows M)%coq_nat -> (j < rows M)%coq_nat ->
     @mprod A (rows M) (@ent A M) (@ent A N) i j = @delta A i j) /\
  (forall i j, (i < rows M)%coq_nat -> (j < rows M)%coq_nat ->
     @mprod A (rows M) (@ent A N) (@ent A M) i j = @delta A i j).
Proof.
move=> wfM sq inv.
have [shN right] := inverse_right_lemma (ArithOf_FieldLaws abs ltb leb) PL M N wfM sq inv.
split=> //; split=> //.
exact: (@right_inverse_is_left_mprod F abs ltb leb (rows M) (@ent A M) (@ent A N) right).
Qed.

(* every nonsingular matrix (\det != 0) HAS an inverse according to the code, and it is two-sided *)
Lemma inverse_complete_bridge n (f : nat -> nat -> F) :
  \det (\matrix_(i < n, j < n) f i j) != 0 ->
  exists N : Matrix.matrix A, @Solve.inverse A (@tabulate A n n f) = Ok N /\
    @LUPrim.shape A N n n /\
    (forall i j, (i < n)%coq_nat -> (j < n)%coq_nat ->
       @mprod A n f (@ent A N) i j = @delta A i j) /\
    (forall i j, (i < n)%coq_nat -> (j < n)%coq_nat ->
       @mprod A n (@ent A N) f i j = @delta A i j).
Proof.
move=> /eqP dn0.
have [wfT [rT cT]] := @tabulate_shape A n n f.
have sq : rows (@tabulate A n n f) = cols (@tabulate A n n f) by rewrite rT cT.
have [N invN] := inverse_complete_lemma (ArithOf_FieldLaws abs ltb leb) PL _ _ wfT sq
                   (determinant_is_det_lemma PL n f) dn0.
have [shN [right left]] := inverse_two_sided_lemma wfT sq invN.
exists N; split=> //; rewrite rT in shN right left; split=> //; split=> i j ilt jlt.
- rewrite -(right i j ilt jlt) /mprod; apply: sum_n_ext => k klt.
  by rewrite tabulate_ent.
- rewrite -(left i j ilt jlt) /mprod; apply: sum_n_ext => k klt.
  by rewrite tabulate_ent.
Qed.

End BridgeInv.

(* the determinant of a matrix the code calls singular (some U_ii = 0) is 0, and the sign rule, are
   instances of determinant_is_det_lemma:  \det is alternating and multiplicative in mathcomp. *)
Example rat_inverse_two_sided (M N : Matrix.matrix ratArith) :
  wf M -> rows M = cols M -> @Solve.inverse ratArith M = Ok N ->
  forall i j, (i < rows M)%coq_nat -> (j < rows M)%coq_nat ->
     @mprod ratArith (rows M) (@ent ratArith N) (@ent ratArith M) i j = @delta ratArith i j.
Proof. by move=> w s e; have [_ [_]] := inverse_two_sided_lemma rat_PivLaws w s e. Qed.

Print Assumptions inverse_two_sided_lemma.
Print Assumptions inverse_complete_bridge.

(* non-vacuity input over mathcomp's rat: zero leading entry, one exchange *)
Definition R2 : Matrix.matrix ratArith := @mkM ratArith [:: 0%:Q; 2%:Q; 1%:Q; 1%:Q] 2 2.
