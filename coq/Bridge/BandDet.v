(* Bridge/BandDet.v -- Banded::det of the model is mathcomp's \det of the dense twin, over every fieldType,
   for every well-formed band with m1 <= n, singular ones included.
   Proofs/BandedDet2.v proves band_det B = Ok (Det (dense_entry B)) for any Det with three properties
   (extensionality on i, j < n; the row operations of one elimination stage; upper triangular tables) plus
   "Det <> 0 implies a trivial kernel"; here mathcomp's \det is shown to have them:
     stage      M' = (1 - m e_k^T) *m row_perm (tperm k p) M, with 1 - m e_k^T unit lower triangular
                (m_i = 0 for i <= k), so \det M' = (-1)^(k != p) \det M        (det_mulmx, det_perm, det_trig);
     upper      \det of an upper triangular matrix is the product of its diagonal (det_tr, det_trig);
     kernel     \det M != 0 -> M is a unit -> M *m v = 0 implies v = 0           (unitmxE, mulKmx). *)
From Coq Require Import List Arith Lia Ring_theory Field_theory.
From OV Require Import Base.Panic Base.Arith Model.Vector Model.Matrix Model.Banded
  Proofs.Banded Proofs.BandedLU Proofs.BandedComplete Proofs.BandedDet Proofs.BandedDet2 Proofs.BandedDet2Wide Proofs.BandedDet2Cor Proofs.BandedDet2Ker Model.Solve Proofs.LUPrim Proofs.LUTab Bridge.Det.
From mathcomp Require Import all_ssreflect all_algebra all_fingroup.
Set Implicit Arguments. Unset Strict Implicit. Unset Printing Implicit Defensive.
Import GRing.Theory.
Local Open Scope ring_scope.

Section Bridge.
Variables (F : fieldType) (abs : F -> F) (ltb leb : F -> F -> bool).
Notation A := (ArithOf F abs ltb leb).
Notation FLA := (ArithOf_FieldLaws abs ltb leb).

(* an n x n table as a mathcomp matrix *)
Definition mx_of (n : nat) (f : nat -> nat -> F) : 'M[F]_n := \matrix_(i < n, j < n) f i j.
Definition DetF (n : nat) (f : nat -> nat -> F) : F := \det (mx_of n f).

Lemma pivprod_big n (g : nat -> F) : @pivprod A n g = \prod_(k < n) g k.
Proof. by elim: n => [|n IH]; rewrite ?big_ord0 ?big_ord_recr //= IH. Qed.

Lemma DetF_ext n (f g : nat -> nat -> F) :
  (forall i j, (i < n)%coq_nat -> (j < n)%coq_nat -> f i j = g i j) -> DetF n f = DetF n g.
Proof.
move=> H; congr (\det _); apply/matrixP => i j; rewrite !mxE.
by apply: H; apply/ltP.
Qed.

Lemma DetF_upper n (f : nat -> nat -> F) :
  (forall i j, (i < n)%coq_nat -> (j < i)%coq_nat -> f i j = 0) ->
  DetF n f = @pivprod A n (fun i => f i i).
Proof.
move=> H; rewrite /DetF -det_tr det_trig; last first.
  apply/is_trig_mxP => i j ij; rewrite !mxE.
  by apply: H; apply/ltP.
by rewrite pivprod_big; apply: eq_bigr => i _; rewrite !mxE.
Qed.

Lemma swp_tperm n (a b i : 'I_n) : swp a b i = tperm a b i :> nat.
Proof.
rewrite /swp; case: tpermP => [->|->|nia nib].
- by rewrite Nat.eqb_refl.
- by rewrite Nat.eqb_refl; case: Nat.eqb_spec.
- case: Nat.eqb_spec => [e|_]; first by case: nia; apply/val_inj.
  by case: Nat.eqb_spec => [e|_] //; case: nib; apply/val_inj.
Qed.

Lemma DetF_stage n (f : nat -> nat -> F) (k p : nat) (m : nat -> F) :
  (k < n)%coq_nat -> (p < n)%coq_nat -> (k <= p)%coq_nat ->
  (forall i, (i <= k)%coq_nat -> m i = 0) ->
  DetF n (fun i j => f (swp k p i) j - m i * f p j) =
  if Nat.eqb p k then DetF n f else - DetF n f.
Proof.
move=> /ltP kn /ltP pn _ m0.
pose ok := Ordinal kn; pose op := Ordinal pn.
pose M := mx_of n f.
pose L : 'M[F]_n := 1%:M - (\col_(i < n) m i) *m delta_mx (0 : 'I_1) ok.
rewrite /DetF.
have -> : mx_of n (fun i j => f (swp k p i) j - m i * f p j) = L *m row_perm (tperm ok op) M.
  apply/matrixP => i j.
  rewrite /L mulmxBl mul1mx -mulmxA -rowE !mxE big_ord_recl big_ord0 addr0 !mxE.
  by rewrite tpermL -(swp_tperm ok op i).
have detL : \det L = 1.
  rewrite det_trig; last first.
    apply/is_trig_mxP => i j ij; rewrite !mxE big_ord_recl big_ord0 addr0 !mxE eqxx /=.
    have -> : (i == j) = false by apply/negbTE; rewrite neq_ltn ij.
    case: eqP => [jk|_]; last by rewrite mulr0 subr0.
    rewrite m0 ?mul0r ?subr0 //.
    by apply/leP; rewrite -[k]/(val ok) -jk; exact: ltnW.
  rewrite big1 // => i _; rewrite !mxE big_ord_recl big_ord0 addr0 !mxE !eqxx /=.
  case: eqP => [ik|_]; last by rewrite mulr0 subr0.
  by rewrite m0 ?mul0r ?subr0 //; apply/leP; rewrite ik.
rewrite /DetF det_mulmx detL mul1r row_permE det_mulmx det_perm odd_tperm.
case: Nat.eqb_spec => [pk|npk].
  have -> : ok == op by apply/eqP/val_inj.
  by rewrite expr0 mul1r.
have -> : ok != op by apply/eqP => /(congr1 val) /= e; apply: npk.
by rewrite expr1 mulN1r.
Qed.

(* \det != 0: the dense twin has a trivial kernel *)
Lemma DetF_kernel (B : banded A) :
  DetF (bn B) (@dense_entry A B) <> 0 -> @trivial_kernel A B.
Proof.
move=> /eqP dn0 x xlen Hx.
set n := bn B in dn0 x xlen Hx *.
pose M := mx_of n (@dense_entry A B).
pose v : 'cV[F]_n := \col_(j < n) List.nth j x 0.
have Mu : M \in unitmx by rewrite unitmxE unitfE.
have Mv0 : M *m v = 0.
  apply/matrixP => i j; rewrite !mxE.
  have := congr1 (fun l => List.nth i l 0) Hx.
  rewrite /dense_mulv (@nth_map_seq A) -/n; last exact/ltP.
  rewrite (@nth_repeat F) sum_n_big => E.
  by rewrite -[RHS]E; apply: eq_bigr => t _; rewrite !mxE.
have v0 : v = 0 by rewrite -(mulKmx Mu v) Mv0 mulmx0.
apply: (@nth_ext _ _ _ 0 0); first by rewrite xlen repeat_length.
move=> j; rewrite xlen => /ltP jn.
have := congr1 (fun w : 'cV[F]_n => w (Ordinal jn) 0) v0.
by rewrite !mxE /= (@nth_repeat F).
Qed.

Hypothesis PL : PivotLaws A.

Theorem band_det_is_det_lemma (B : banded A) :
  @wfB A B -> (bm1 B <= bn B)%coq_nat ->
  @band_det A B = Ok (\det (mx_of (bn B) (@dense_entry A B))).
Proof.
move=> wf m1n.
exact: (@band_det_abs A FLA B (DetF (bn B)) (@DetF_ext (bn B)) (@DetF_stage (bn B)) (@DetF_upper (bn B))
          PL (@DetF_kernel B) wf m1n).
Qed.

(* every (n, m1, m2): the determinant of the twin, or (m1 > n) the index panic of the left shift *)
Theorem band_det_total_lemma (B : banded A) :
  @wfB A B ->
  @band_det A B = if Nat.leb (bm1 B) (bn B) then Ok (\det (mx_of (bn B) (@dense_entry A B))) else Panic Index.
Proof.
move=> wf; case: Nat.leb_spec => [m1n|nm1]; first exact: band_det_is_det_lemma.
by have [-> _] := @band_wide_panics_lemma A B wf nm1.
Qed.

(* the determinant vanishes exactly on the singular twins *)
Theorem band_det_nonzero_iff_lemma (B : banded A) :
  @wfB A B -> (bm1 B <= bn B)%coq_nat ->
  exists dd : F, @band_det A B = Ok dd /\ (dd <> 0 <-> @trivial_kernel A B).
Proof.
move=> wf m1n; exists (\det (mx_of (bn B) (@dense_entry A B))).
split; first exact: band_det_is_det_lemma.
split; first exact: DetF_kernel.
have [dd [E [_ K]]] := @band_det_spec_partial_lemma A FLA PL B wf m1n.
by move: E K; rewrite band_det_is_det_lemma // => -[<-].
Qed.

(* ---- Banded::solve, completely: the solution D^-1 b when \det D != 0, the refusal (division by a zero pivot) otherwise ---- *)
Definition colv (n : nat) (b : list F) : 'cV[F]_n := \col_(j < n) List.nth j b 0.

Theorem band_solve_spec_lemma (B : banded A) (b : list F) :
  @wfB A B -> (bm1 B <= bn B)%coq_nat -> length b = bn B ->
  if \det (mx_of (bn B) (@dense_entry A B)) == 0
  then @band_solve A B b = Panic DivZero
  else exists x : list F, @band_solve A B b = Ok x /\ length x = bn B /\
         colv (bn B) x = invmx (mx_of (bn B) (@dense_entry A B)) *m colv (bn B) b.
Proof.
move=> wf m1n blen.
have [dd [Edet [K1 K2]]] := @band_det_nonzero_iff_lemma B wf m1n.
move: Edet; rewrite band_det_is_det_lemma // => -[Edd].
set D := mx_of _ _ in Edd *.
case: eqP => [d0|/eqP dn0].
- case: (@BandedDet2Cor.band_solve_trichotomy_lemma A FLA B b wf blen) => [[x [E _]] | [[_ [-> _]] // | [nm1 _]]]; last by lia.
  have [[H _] _] := @BandedDet2Ker.band_solve_answers_iff_gen A FLA PL B wf m1n.
  have ker : @trivial_kernel A B by apply: H; exists b, x.
  by case: (K2 ker); rewrite -Edd.
- have ker : @trivial_kernel A B by apply: K1; rewrite -Edd; apply/eqP.
  have [x [E [xlen Hx]]] := @band_solve_complete_lemma A FLA PL B b wf blen m1n ker.
  exists x; split=> //; split=> //.
  have Du : D \in unitmx by rewrite unitmxE unitfE.
  rewrite -[LHS](mulKmx Du); congr (_ *m _).
  apply/matrixP => i j; rewrite !mxE.
  have := congr1 (fun l => List.nth i l 0) Hx.
  rewrite /dense_mulv (@nth_map_seq A); last exact/ltP.
  rewrite sum_n_big => <-.
  by apply: eq_bigr => t _; rewrite !mxE.
Qed.

(* padding slots never reach the determinant (over a field, under PivotLaws) *)
Corollary band_det_same_slots (B B' : banded A) :
  @wfB A B -> (bm1 B <= bn B)%coq_nat -> @same_in_matrix_slots A B B' ->
  @band_det A B' = @band_det A B.
Proof.
move=> wf m1n S; have [wf' [en [e1 [e2 _]]]] := S.
rewrite !band_det_is_det_lemma //; last by rewrite en e1.
rewrite en; congr (Ok (\det _)); apply/matrixP => i j; rewrite !mxE.
by apply: (@dense_entry_same A B B' i j S); apply/ltP.
Qed.

End Bridge.

(* ---- the two determinants of the crate agree: Banded::det = Matrix::determinant of the dense twin ---- *)
Lemma PivLaws_PivotLaws (A : Arith) : PivLaws A -> PivotLaws A.
Proof.
move=> [a0 pos nneg]; split => //.
by apply/a0.
Qed.

Theorem band_det_spec_lemma (F : fieldType) (abs : F -> F) (ltb leb : F -> F -> bool)
    (PL : PivLaws (ArithOf F abs ltb leb)) (B : banded (ArithOf F abs ltb leb)) :
  @wfB (ArithOf F abs ltb leb) B -> (bm1 B <= bn B)%coq_nat ->
  @band_det (ArithOf F abs ltb leb) B =
  @Solve.determinant (ArithOf F abs ltb leb)
     (@tabulate (ArithOf F abs ltb leb) (bn B) (bn B) (@dense_entry (ArithOf F abs ltb leb) B)).
Proof.
move=> wf m1n.
by rewrite (band_det_is_det_lemma (PivLaws_PivotLaws PL) wf m1n) (determinant_is_det_lemma PL).
Qed.

(* PivotLaws for mathcomp's rationals with |x| and < *)
Lemma rat_PivotLaws : PivotLaws ratArith.
Proof.
split => /=.
- by rewrite Num.Theory.normr0.
- by move=> x; rewrite Num.Theory.normr_lt0.
- by move=> x /eqP x0; rewrite Num.Theory.normr_gt0.
Qed.

Print Assumptions band_det_is_det_lemma.
Print Assumptions band_det_same_slots.
Print Assumptions band_det_spec_lemma.
Print Assumptions band_det_total_lemma.
Print Assumptions band_det_nonzero_iff_lemma.
Print Assumptions band_solve_spec_lemma.
