(* Bridge/BandDetQc.v -- the determinant theorems at the EXACT TIER ITSELF: the arithmetic AQ (Coq's canonical
   rationals Qc, Inst/QcInst.v) is the instance that the correspondence check runs against the implementation's Rat.
   Qc is given its mathcomp fieldType structure (equality = Qc_eqb, + * - / = Qcplus Qcmult Qcopp Qcinv, laws from
   QArith.Qcanon); with it  ArithOf Qc_fieldType Qc_abs Qc_ltb Qc_leb  IS  AQ  (by reflexivity), so
   Bridge/BandDet.v applies to AQ verbatim:
     band_det_is_det_Qc   band_det B = Ok (\det of the dense twin)           for every banded AQ, wf, m1 <= n
     band_det_spec_Qc     band_det B = Matrix::determinant of the dense twin  -- an equation between the two model
                          functions that the check runs against Banded::det and Matrix::determinant at Rat;
                          no mathcomp notion occurs in this statement. *)
From Coq Require Import List Arith Lia ZArith QArith Qcanon.
From OV Require Import Base.Panic Base.Arith Inst.QcInst Model.Vector Model.Matrix Model.Banded Model.Solve
  Proofs.Banded Proofs.BandedLU Proofs.BandedComplete Proofs.LUPrim Proofs.LUTab Proofs.LUQc
  Bridge.Det Bridge.BandDet.
From mathcomp Require Import all_ssreflect all_algebra.
Set Implicit Arguments. Unset Strict Implicit. Unset Printing Implicit Defensive.
Import GRing.Theory.

(* ---- eqType, choiceType ---- *)
Lemma Qc_eqbP : Equality.axiom Qc_eqb.
Proof. by move=> x y; apply: (iffP idP) => /Qc_eqb_spec. Qed.
Definition Qc_eqMixin := EqMixin Qc_eqbP.
Canonical Qc_eqType := EqType Qc Qc_eqMixin.

Definition Qc_code (x : Qc) : bool * nat * nat :=
  (Z.ltb (Qnum x) 0, Z.abs_nat (Qnum x), Pos.to_nat (Qden x)).
Definition Qc_decode (c : bool * nat * nat) : Qc :=
  let '(s, a, d) := c in Q2Qc (Qmake (if s then Z.opp (Z.of_nat a) else Z.of_nat a) (Pos.of_nat d)).
Lemma Qc_codeK : cancel Qc_code Qc_decode.
Proof.
move=> x; rewrite /Qc_code /Qc_decode Pos2Nat.id.
have -> : (if Z.ltb (Qnum x) 0 then Z.opp (Z.of_nat (Z.abs_nat (Qnum x))) else Z.of_nat (Z.abs_nat (Qnum x))) = Qnum x.
  by case: Z.ltb_spec => H; rewrite Zabs2Nat.id_abs; lia.
apply: Qc_is_canon; apply: (Qeq_trans _ _ _ (Qred_correct (Qmake (Qnum x) (Qden x)))).
by case: x => [[n d] c] /=; exact: Qeq_refl.
Qed.
Definition Qc_choiceMixin := CanChoiceMixin Qc_codeK.
Canonical Qc_choiceType := ChoiceType Qc Qc_choiceMixin.

(* ---- zmodType, comRingType, fieldType ---- *)
Lemma Qc_addA : associative Qcplus. Proof. exact: Qcplus_assoc. Qed.
Lemma Qc_addC : commutative Qcplus. Proof. exact: Qcplus_comm. Qed.
Lemma Qc_add0 : left_id (Q2Qc 0) Qcplus. Proof. exact: Qcplus_0_l. Qed.
Lemma Qc_addN : left_inverse (Q2Qc 0) Qcopp Qcplus.
Proof. by move=> x; rewrite Qcplus_comm; exact: Qcplus_opp_r. Qed.
Definition Qc_ZmodMixin := ZmodMixin Qc_addA Qc_addC Qc_add0 Qc_addN.
Canonical Qc_ZmodType := ZmodType Qc Qc_ZmodMixin.

Lemma Qc_mulA : associative Qcmult. Proof. exact: Qcmult_assoc. Qed.
Lemma Qc_mulC : commutative Qcmult. Proof. exact: Qcmult_comm. Qed.
Lemma Qc_mul1 : left_id (Q2Qc 1) Qcmult. Proof. exact: Qcmult_1_l. Qed.
Lemma Qc_mulDl : left_distributive Qcmult Qcplus. Proof. exact: Qcmult_plus_distr_l. Qed.
Lemma Qc_nonzero1 : Q2Qc 1 != Q2Qc 0 :> Qc. Proof. by []. Qed.
Definition Qc_comRingMixin := ComRingMixin Qc_mulA Qc_mulC Qc_mul1 Qc_mulDl Qc_nonzero1.
Canonical Qc_Ring := Eval hnf in RingType Qc Qc_comRingMixin.
Canonical Qc_comRing := Eval hnf in ComRingType Qc Qc_mulC.

Lemma Qc_mulV (x : Qc) : x != 0%R -> Qcmult (Qcinv x) x = Q2Qc 1.
Proof. by move=> /eqP x0; exact: Qcmult_inv_l. Qed.
Lemma Qc_inv0 : Qcinv (Q2Qc 0) = Q2Qc 0. Proof. by []. Qed.
Definition Qc_FieldUnitMixin := FieldUnitMixin Qc_mulV Qc_inv0.
Canonical Qc_unitRing := Eval hnf in UnitRingType Qc Qc_FieldUnitMixin.
Canonical Qc_comUnitRing := Eval hnf in [comUnitRingType of Qc].
Fact Qc_field_axiom : GRing.Field.mixin_of Qc_unitRing. Proof. exact. Qed.
Canonical Qc_idomainType := Eval hnf in IdomainType Qc (FieldIdomainMixin Qc_field_axiom).
Canonical Qc_fieldType := FieldType Qc Qc_field_axiom.

(* ---- the exact tier is the ArithOf of this field ---- *)
Lemma AQ_is_ArithOf : ArithOf Qc_fieldType Qc_abs Qc_ltb Qc_leb = AQ.
Proof. reflexivity. Qed.

Local Open Scope ring_scope.

Theorem band_det_is_det_Qc_lemma (B : banded AQ) :
  @wfB AQ B -> (bm1 B <= bn B)%coq_nat ->
  @band_det AQ B = Ok (\det (@mx_of Qc_fieldType (bn B) (@dense_entry AQ B))).
Proof.
exact: (@band_det_is_det_lemma Qc_fieldType Qc_abs Qc_ltb Qc_leb AQ_PivotLaws B).
Qed.

Theorem band_det_spec_Qc_lemma (B : banded AQ) :
  @wfB AQ B -> (bm1 B <= bn B)%coq_nat ->
  @band_det AQ B = @Solve.determinant AQ (@tabulate AQ (bn B) (bn B) (@dense_entry AQ B)).
Proof.
exact: (@band_det_spec_lemma Qc_fieldType Qc_abs Qc_ltb Qc_leb AQ_PivLaws B).
Qed.

Theorem band_det_nonzero_iff_Qc_lemma (B : banded AQ) :
  @wfB AQ B -> (bm1 B <= bn B)%coq_nat ->
  exists dd : Qc, @band_det AQ B = Ok dd /\ (dd <> Q2Qc 0 <-> @trivial_kernel AQ B).
Proof.
exact: (@band_det_nonzero_iff_lemma Qc_fieldType Qc_abs Qc_ltb Qc_leb AQ_PivotLaws B).
Qed.

(* every (n, m1, m2) at the exact tier *)
Theorem band_det_total_Qc_lemma (B : banded AQ) :
  @wfB AQ B ->
  @band_det AQ B = if Nat.leb (bm1 B) (bn B)
                   then @Solve.determinant AQ (@tabulate AQ (bn B) (bn B) (@dense_entry AQ B))
                   else Panic Index.
Proof.
move=> wf; case: Nat.leb_spec => [m1n|nm1]; first exact: band_det_spec_Qc_lemma.
by have [-> _] := @BandedDet2Wide.band_wide_panics_lemma AQ B wf nm1.
Qed.

Print Assumptions band_det_is_det_Qc_lemma.
Print Assumptions band_det_spec_Qc_lemma.
Print Assumptions band_det_total_Qc_lemma.
Print Assumptions band_det_nonzero_iff_Qc_lemma.
