(* Bridge/Det.v -- the model's determinant over any mathcomp fieldType is mathcomp's \det.
   Arith instance from a fieldType, its FieldLaws, and the bridge
   determinant (tabulate n n f) = Ok (\det (\matrix_(i, j) f i j))  from LU.determinant_eq:
   P*M = L*U with L unit lower / U upper triangular, det of a product of row transpositions.
   ssreflect/mathcomp style; the OV side is stdlib style (conversions by ltP/leP/Nat.*_spec). *)
From Coq Require Import List Arith Lia Ring_theory Field_theory.
From OV Require Import Base.Panic Base.Arith Model.Vector Model.Matrix Model.Solve
  Proofs.Matrix Proofs.LUPrim Proofs.LUSum Proofs.LU Proofs.LUTab.
From mathcomp Require Import all_ssreflect all_algebra all_fingroup.
Set Implicit Arguments. Unset Strict Implicit. Unset Printing Implicit Defensive.
Import GRing.Theory Num.Theory.
Local Open Scope ring_scope.

Definition ArithOf (F : fieldType) (abs : F -> F) (ltb leb : F -> F -> bool) : Arith :=
  @Build_Arith F 0 1 +%R (fun x y => x - y) *%R -%R abs
    (fun x y => if y == 0 then Panic DivZero else Ok (x / y)) eq_op ltb leb.
Arguments ArithOf : clear implicits.

Lemma ArithOf_field_theory (F : fieldType) :
  field_theory (0 : F) 1 +%R *%R (fun x y => x - y) -%R (fun x y => x * y^-1) GRing.inv eq.
Proof.
split.
- split.
  + exact: add0r.
  + exact: addrC.
  + exact: addrA.
  + exact: mul1r.
  + exact: mulrC.
  + exact: mulrA.
  + exact: mulrDl.
  + by [].
  + exact: subrr.
- by apply/eqP; rewrite oner_neq0.
- by [].
- by move=> p /eqP; exact: mulVf.
Qed.

Definition ArithOf_FieldLaws (F : fieldType) abs ltb leb : FieldLaws (ArithOf F abs ltb leb).
Proof.
apply: (@Build_FieldLaws (ArithOf F abs ltb leb) GRing.inv).
- exact: ArithOf_field_theory.
- by move=> x y; split=> [/eqP|->] //=; exact: eqxx.
- by [].
Defined.

Lemma even_odd n : Nat.even n = ~~ odd n.
Proof.
elim/ltn_ind: n => [[|[|n]]] //= IH; by rewrite negbK IH.
Qed.

Section Bridge.
Variables (F : fieldType) (abs : F -> F) (ltb leb : F -> F -> bool).
Notation A := (ArithOf F abs ltb leb).

Lemma sum_n_big n (g : nat -> F) : @sum_n A n g = \sum_(k < n) g k.
Proof. by elim: n => [|n IH]; rewrite ?big_ord0 ?big_ord_recr //= IH. Qed.

Lemma prod_n_big n (g : nat -> F) : @prod_n A n g = \prod_(k < n) g k.
Proof. by elim: n => [|n IH]; rewrite ?big_ord0 ?big_ord_recr //= IH. Qed.

Lemma tr_tperm n (a b i : 'I_n) : tr a b i = tperm a b i :> nat.
Proof.
rewrite /tr; case: tpermP => [->|->|nia nib].
- by rewrite Nat.eqb_refl.
- by rewrite Nat.eqb_refl; case: Nat.eqb_spec.
- case: Nat.eqb_spec => [e|_]; first by case: nia; apply/val_inj.
  by case: Nat.eqb_spec => [e|_] //; case: nib; apply/val_inj.
Qed.

Lemma det_swaps n (sw : list (nat * nat)) (f : nat -> nat -> F) :
  swaps_ok n sw ->
  \det (\matrix_(i < n, j < n) f (LUPrim.perm_of sw i) j) =
  (-1) ^+ (length sw) * \det (\matrix_(i < n, j < n) f i j).
Proof.
elim: sw f => [|[a b] t IH] f ok /=; first by rewrite expr0 mul1r.
move/Forall_cons_iff: ok => [] /= [/ltP an [/ltP bn ab]] okt.
pose oa := Ordinal an; pose ob := Ordinal bn.
have ->: \matrix_(i < n, j < n) f (LUPrim.perm_of t (tr a b i)) j =
         row_perm (tperm oa ob) (\matrix_(i < n, j < n) f (LUPrim.perm_of t i) j).
  by apply/matrixP => i j; rewrite !mxE -tr_tperm.
rewrite row_permE det_mulmx det_perm odd_tperm IH // exprS mulrA.
have ->: oa != ob by apply/eqP => /(congr1 val).
by rewrite expr1.
Qed.

Hypothesis PL : PivLaws A.

Theorem determinant_is_det_lemma n (f : nat -> nat -> F) :
  @Solve.determinant A (@tabulate A n n f) = Ok (\det (\matrix_(i < n, j < n) f i j)).
Proof.
have [LU [piv [P [sw [_ [_ [_ [[len [ok _]] [fact ->]]]]]]]]] :=
  determinant_eq (ArithOf_FieldLaws abs ltb leb) PL _ _ (@tabulate_shape A n n f).
congr Ok.
set Mx := \matrix_(i < n, j < n) f i j.
pose Lx : 'M[F]_n := \matrix_(i < n, j < n) @unit_lower A LU i j.
pose Ux : 'M[F]_n := \matrix_(i < n, j < n) @upper A LU i j.
pose PMx : 'M[F]_n := \matrix_(i < n, j < n) f (LUPrim.perm_of sw i) j.
have facE : PMx = Lx *m Ux.
  apply/matrixP => i j; rewrite !mxE.
  have := fact i j (ltP (ltn_ord i)) (ltP (ltn_ord j)).
  rewrite tabulate_ent; [| exact: perm_of_lt (ltP (ltn_ord i)) | exact: (ltP (ltn_ord j))].
  move=> ->; rewrite /mprod sum_n_big; apply: eq_bigr => k _.
  by rewrite !mxE.
have detL : \det Lx = 1.
  rewrite det_trig; last first.
    apply/is_trig_mxP => i j ij; rewrite mxE /unit_lower.
    case: Nat.ltb_spec => [/ltP|_]; first by rewrite ltnNge ltnW.
    by case: Nat.eqb_spec => // e; move: ij; rewrite e ltnn.
  rewrite big1 // => i _; rewrite mxE /unit_lower.
  case: Nat.ltb_spec => [/ltP|_]; first by rewrite ltnn.
  by rewrite Nat.eqb_refl.
have detU : \det Ux = @prod_n A n (fun i => ent LU i i).
  rewrite -det_tr det_trig; last first.
    apply/is_trig_mxP => i j ij; rewrite !mxE /upper.
    by case: Nat.leb_spec => // /leP; rewrite leqNgt ij.
  rewrite prod_n_big; apply: eq_bigr => i _; rewrite !mxE /upper.
  by case: Nat.leb_spec => // /ltP; rewrite ltnn.
have detM : \det PMx = (-1) ^+ piv * \det Mx by rewrite -len; exact: det_swaps.
move: detM; rewrite facE det_mulmx detL detU mul1r even_odd -signr_odd => ->.
by case: (odd piv); rewrite /= ?expr1 ?expr0 ?mulN1r ?mul1r ?opprK.
Qed.


Corollary determinant_is_det_shape n (M : Matrix.matrix A) :
  @LUPrim.shape A M n n ->
  @Solve.determinant A M = Ok (\det (\matrix_(i < n, j < n) @ent A M i j)).
Proof.
move=> sh; have [wfM [rn cn]] := sh.
by rewrite -[in LHS](@tabulate_ent_id A M wfM) rn cn determinant_is_det_lemma.
Qed.

End Bridge.

Lemma eqb_eqn (i j : nat) : Nat.eqb i j = (i == j).
Proof. by case: Nat.eqb_spec => [->|/eqP/negbTE->]; rewrite ?eqxx. Qed.

Lemma right_inverse_is_left (F : fieldType) n (Mf Nf : nat -> nat -> F) :
  (forall i j, (i < n)%coq_nat -> (j < n)%coq_nat ->
     \sum_(k < n) Mf i k * Nf k j = if Nat.eqb i j then 1 else 0) ->
  (forall i j, (i < n)%coq_nat -> (j < n)%coq_nat ->
     \sum_(k < n) Nf i k * Mf k j = if Nat.eqb i j then 1 else 0).
Proof.
move=> H i j /ltP ilt /ltP jlt.
pose Mx : 'M[F]_n := \matrix_(i < n, j < n) Mf i j.
pose Nx : 'M[F]_n := \matrix_(i < n, j < n) Nf i j.
have MN : Mx *m Nx = 1%:M.
  apply/matrixP => i' j'; rewrite !mxE.
  rewrite -[LHS]/(\sum_(k < n) Mx i' k * Nx k j').
  under eq_bigr do rewrite !mxE.
  rewrite H; try exact/ltP.
  by rewrite eqb_eqn -val_eqE; case: eqP.
have /matrixP /(_ (Ordinal ilt) (Ordinal jlt)) := mulmx1C MN.
rewrite !mxE => E; rewrite eqb_eqn.
have -> : (if i == j then 1 else 0) = (Ordinal ilt == Ordinal jlt)%:R :> F.
  by rewrite -val_eqE /=; case: eqP.
rewrite -E.
by apply: eq_bigr => k _; rewrite !mxE.
Qed.


Lemma right_inverse_is_left_mprod (F : fieldType) abs ltb leb n
    (Mf Nf : nat -> nat -> ArithOf F abs ltb leb) :
  (forall i j, (i < n)%coq_nat -> (j < n)%coq_nat -> mprod n Mf Nf i j = delta i j) ->
  (forall i j, (i < n)%coq_nat -> (j < n)%coq_nat -> mprod n Nf Mf i j = delta i j).
Proof.
move=> H i j ilt jlt; rewrite /mprod sum_n_big.
apply: (@right_inverse_is_left F n Mf Nf) => // i' j' i'lt j'lt.
by rewrite -(@sum_n_big F abs ltb leb n (fun k => Mf i' k * Nf k j')); exact: H.
Qed.

Definition ratArith : Arith :=
  ArithOf rat_fieldType (fun x : rat => `|x|) (fun x y : rat => x < y) (fun x y : rat => x <= y).

Lemma rat_PivLaws : PivLaws ratArith.
Proof.
split => /= x.
- by split=> [/eqP|->]; rewrite ?normr0 // normr_eq0 => /eqP.
- by move/eqP; rewrite normr_gt0.
- by rewrite normr_lt0.
Qed.

Example rat_determinant n (f : nat -> nat -> rat) :
  @Solve.determinant ratArith (@tabulate ratArith n n f) =
  Ok (\det (\matrix_(i < n, j < n) f i j)).
Proof. exact: (determinant_is_det_lemma rat_PivLaws). Qed.

Print Assumptions determinant_is_det_lemma.
Print Assumptions right_inverse_is_left.
Print Assumptions right_inverse_is_left_mprod.
Print Assumptions determinant_is_det_shape.
Print Assumptions rat_determinant.
