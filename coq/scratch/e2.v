From Coq Require Import List Arith ZArith Lia Bool.
From OV Require Import Base.Panic Base.Arith Model.Vector Model.Matrix Model.Sparse gen.SrcPrelude gen.SrcSparse Proofs.SrcEqBase.
Import ListNotations.
Section X. Context {A : Arith}.

(* a search loop that returns from inside (`for k .. { if test { return f(k) } }  dflt`) against the model's
   find-then-finish formulation (for_find) *)
Lemma for_ret_find {X R} n lo (test : nat -> res (option X)) (fin : X -> res R) (dflt : R)
      (body : nat -> unit -> res (unit + R)) :
  (forall i, body i tt = let* o := test i in
                         match o with Some x => let* r := fin x in Ok (inr r) | None => Ok (inl tt) end) ->
  (let* o := for_ret_from n lo body tt in match o with inl _ => Ok dflt | inr r => Ok r end)
  = (let* hit := find_from n lo test in match hit with Some x => fin x | None => Ok dflt end).
Proof.
  intros Hb. revert lo; induction n as [|n IH]; intros lo; cbn [for_ret_from find_from bind]; [reflexivity|].
  rewrite Hb, !bind_assoc. destruct (test lo) as [[x|]|k]; cbn [bind]; [|apply IH|reflexivity].
  destruct (fin x); reflexivity.
Qed.

Lemma src_sp_get (s : sparse A) (row col : nat) : s_sp_get s row col = sp_get s row col.
Proof.
  unfold s_sp_get, sp_get, sp_scan, for_find, for_ret.
  destruct (sp_rows s <=? row); [reflexivity|]. destruct (sp_cols s <=? col); [reflexivity|].
  destruct (length (sp_col_start s) <=? col); [reflexivity|].
  apply bind_ext; intros ci.
  apply (for_ret_find _ _ _ (fun k => let* v := rd (sp_val s) k in Ok (Some v)) None).
  intros k. destruct (rd (sp_row_index s) k) as [r|]; cbn [bind]; [|reflexivity].
  destruct (r =? row); cbn [bind]; [|reflexivity].
  destruct (rd ci k) as [c|]; cbn [bind]; [|reflexivity].
  destruct (c =? col); cbn [bind]; [|reflexivity].
  destruct (rd (sp_val s) k); reflexivity.
Qed.
End X.
