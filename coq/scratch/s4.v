From Coq Require Import List Arith ZArith Lia Bool.
From OV Require Import Base.Panic Base.Arith Model.Vector Model.Matrix Model.Sparse gen.SrcPrelude gen.SrcSparse Proofs.SrcEqBase.
Import ListNotations.
Section X. Context {A : Arith}.
Implicit Types (s : sparse A) (v b : list (T A)) (n i j : nat).

Ltac rr_step :=
  match goal with
  | H : ?e = Ok _ |- context [bind ?e _] => rewrite H; cbn [bind]
  | |- res_rel _ (bind ?e _) (bind ?e _) => destruct e eqn:?; cbn [bind res_rel]; [|reflexivity]
  | |- res_rel _ (bind ?e _) (bind ?e' _) => unify e e'; destruct e eqn:?; cbn [bind res_rel]; [|reflexivity]
  end.

Lemma src_sp_transpose s : s_sp_transpose s = sp_transpose s.
Proof.
  unfold s_sp_transpose, sp_transpose, for_cols.
  (* first pass: the row counts *)
  apply bind_ext2; [src_eq|]. intros count _.
  (* second pass: prefix sums into at.col_start *)
  set (R2 := fun (at_ : sparse A) (acs : list nat) =>
               at_ = mkS (sp_cols s) (sp_rows s) (sp_nonzero s) (repeat zero (sp_nonzero s)) (repeat 0 (sp_nonzero s)) acs).
  apply (res_rel_bind R2).
  { apply for_sim; [unfold R2; reflexivity|]. unfold R2. intros j a acs Hj ->. cbn [sp_rows sp_cols sp_nonzero sp_val sp_row_index sp_col_start].
    repeat rr_step. destruct (upd acs (j + 1) _); cbn [bind res_rel]; reflexivity. }
  unfold R2. intros at0 at_cs ->. clear R2.
  (* third pass: scatter with a running count *)
  set (R3 := fun (p : sparse A * list nat) (st : tstate) =>
               fst p = mkS (sp_cols s) (sp_rows s) (sp_nonzero s) (t_val st) (t_ri st) at_cs /\ snd p = t_count st).
  apply (res_rel_bind R3).
  { unfold R3. apply for_sim; [split; reflexivity|]. intros i [a c] st Hi [Ea Ec]. cbn [fst snd] in Ea, Ec. subst a c.
    cbn [bind]. repeat rr_step.
    apply for_sim; [split; reflexivity|]. intros j [a c] st' Hj [Ea Ec]. cbn [fst snd] in Ea, Ec. subst a c.
    cbn [sp_rows sp_cols sp_nonzero sp_val sp_row_index sp_col_start].
    repeat rr_step.
    split; reflexivity. }
  unfold R3. intros [a c] st [Ea _]. cbn [fst] in Ea. subst a. reflexivity.
Qed.
End X.
