From Coq Require Import List Arith ZArith Lia Bool.
From OV Require Import Base.Panic Base.Arith Model.Vector Model.Matrix Model.Poly Model.Sparse gen.SrcPrelude gen.SrcPoly gen.SrcSparse Proofs.SrcEqBase.
Import ListNotations.
Section X. Context {A : Arith}.

(* a `for` with a `return false` on the first element that fails a test = forallb *)
Lemma for_ret_forallb (p : list (T A)) (f : T A -> bool) n lo :
  lo + n = length p ->
  for_ret_from n lo (fun i (_ : unit) => let* x := rd p i in if negb (f x) then Ok (inr false) else Ok (inl tt)) tt
  = Ok (if forallb f (skipn lo p) then inl tt else inr false).
Proof.
  revert lo; induction n as [|n IH]; intros lo H; cbn [for_ret_from].
  - rewrite skipn_all2 by lia. reflexivity.
  - destruct (skipn lo p) as [|a t] eqn:E.
    { assert (length (skipn lo p) = 0) by now rewrite E. rewrite skipn_length in *. lia. }
    assert (R : rd p lo = Ok a).
    { unfold rd. rewrite <- (firstn_skipn lo p) at 1. rewrite nth_error_app2; rewrite firstn_length_le by lia; [|lia].
      now rewrite Nat.sub_diag, E. }
    rewrite R. cbn [bind forallb]. destruct (f a); cbn [negb andb bind]; [|reflexivity].
    rewrite IH by lia. now rewrite (skipn_cons_S p lo a t E).
Qed.

Lemma src_is_zero (p : list (T A)) : s_is_zero p = Ok (is_zero p).
Proof.
  unfold s_is_zero, is_zero, for_ret. rewrite Nat.sub_0_r.
  rewrite (for_ret_forallb p (fun c => eqb c zero)) by lia. cbn [skipn bind].
  destruct (forallb _ p); reflexivity.
Qed.
End X.
