From Coq Require Import List Arith ZArith Lia Bool.
From OV Require Import Base.Panic Base.Arith Model.Vector Model.Matrix Model.Solve gen.SrcPrelude gen.SrcVector gen.SrcMatrix gen.SrcSolve Proofs.SrcEqBase.
Section X. Context {A : Arith}.
Implicit Types (m : matrix A) (x v : list (T A)).
Lemma src_max_abs_in_column m c s : s_max_abs_in_column m c s = max_abs_in_column m c s.
Proof. unfold s_max_abs_in_column, max_abs_in_column. src_eq. Show. Abort.
Lemma src_gauss_with_pivot m x : s_gauss_with_pivot m x = gauss_with_pivot m x.
Proof. unfold s_gauss_with_pivot, gauss_with_pivot. src_eq. Qed.
Lemma src_solve_basic m x : s_solve_basic m x = solve_basic m x.
Proof. unfold s_solve_basic, solve_basic. src_eq. Qed.
Lemma src_backsolve m x : s_backsolve m x = backsolve m x.
Proof. unfold s_backsolve, backsolve. src_eq.
Show.
Abort.
End X.
