From Coq Require Import List Arith ZArith Lia Bool String.
From OV Require Import Base.Panic Base.Arith Model.Vector Model.Matrix Model.Banded gen.SrcPrelude gen.SrcBanded Proofs.SrcEqBase.
Import ListNotations.
Section X. Context {A : Arith}.
Implicit Types (B C : banded A) (v : list (T A)) (n i j : nat).

Lemma src_decompose B (au al : matrix A) (index : list nat) (d : T A) :
  s_decompose B au al index d = decompose_gen false B au al index.
Proof.
  unfold s_decompose, decompose_gen, shift_rows.
  rewrite bind_assoc.
  (* first loop: rows 0..m1 shifted left, under the invariant l = m1 - i *)
  apply bind_ext2.
  - apply (for_ext_inv_idx (fun i (s : matrix A * nat) => snd s = bm1 B - i)).
    + cbn. lia.
    + intros i [a l] Hi Hl. cbn [snd] in Hl. subst l. src_eq.
    + intros i [a l] s' Hi Hl E. cbn [snd] in Hl. subst l.
      repeat (apply bind_ok in E; destruct E as (? & ? & E)). injection E as <-. cbn [snd]. lia.
  - intros [a l] _. cbn [bind fst].
    apply bind_ext2; [|intros; reflexivity].
    apply for_ext; intros k [[[[au' al'] idx] d'] l'] Hk.
    unfold dec_step, find_pivot, elim_row, multiplier, pivot_better, swap_band_rows.
    src_eq.
    all: match goal with
         | |- bind (for_ ?lo ?hi ?b1 (?s, ?d)) _ = bind (for_ ?lo ?hi ?b2 ?s) ?K =>
             transitivity (let* r := for_ lo hi b1 (s, d) in K (fst r));
             [ apply bind_ext; intros [[? ?] ?]; reflexivity | apply (for_drop_bind lo hi b1 b2 s d K) ]
         end.
    all: intros i [au2 al2] dd Hi; src_eq.
Qed.
End X.
