From Coq Require Import List Arith ZArith Lia Bool.
From OV Require Import Base.Panic Base.Arith Model.Vector Model.Matrix Model.Solve gen.SrcPrelude gen.SrcVector gen.SrcMatrix gen.SrcSolve Proofs.SrcEqBase.
Section X. Context {A : Arith}.
Implicit Types (m : matrix A) (x v : list (T A)).
Lemma src_lu m : s_lu_decomp_in_place m = lu_decomp m.
Proof. unfold s_lu_decomp_in_place, lu_decomp, lu_gen. src_eq. Show. Abort.
Lemma src_det m : s_determinant m = determinant m.
Proof. unfold s_determinant, determinant, determinant_gen. src_eq. Show. Abort.
Lemma src_delete_row m r : s_delete_row m r = delete_row m r.
Proof. unfold s_delete_row, delete_row. src_eq. Show. Abort.
Lemma src_fill_band m o e : s_fill_band m o e = fill_band m o e.
Proof. unfold s_fill_band, fill_band. src_eq. Show. Abort.
End X.
