From Coq Require Import List Arith ZArith Lia Bool String.
From OV Require Import Base.Panic Base.Arith Model.Vector Model.Matrix Model.Tridiag gen.SrcPrelude gen.SrcTridiag Proofs.SrcEqBase.
Import ListNotations.
Section X. Context {A : Arith}.
Implicit Types (t : tridiag A) (v r sb mn sp : list (T A)) (x : T A).
Goal forall sb mn sp, s_with_vectors sb mn sp = with_vectors sb mn sp. intros. unfold s_with_vectors, with_vectors, with_vecs. src_eq. Show. Abort.
Goal forall t, s_tconvert t = tconvert t. intros. unfold s_tconvert, tconvert. src_eq. Show. Abort.
Goal forall t v, s_tmul t v = tmul t v. intros. unfold s_tmul, tmul, tmul_gen. cbn [andb]. src_eq. Show. Abort.
End X.
