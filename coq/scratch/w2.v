From Coq Require Import List Arith ZArith Lia Bool.
From OV Require Import Base.Panic Base.Arith Model.Vector Model.Poly gen.Params gen.SrcPrelude gen.SrcPoly Proofs.SrcEqBase Proofs.SrcEqPoly.
Import ListNotations.
Section X. Context {A : Arith}.

Lemma upd_repeat_last (z c : T A) d : upd (repeat z (d + 1)) d c = Ok (repeat z d ++ [c]).
Proof.
  replace (repeat z (d + 1)) with (repeat z d ++ [z]) by (rewrite repeat_app; reflexivity).
  rewrite <- (repeat_length z d) at 2. rewrite upd_app_mid'. reflexivity.
Qed.

Lemma is_zero_nil_false (r : list (T A)) : is_zero r = false -> r <> [].
Proof. intros H ->. discriminate. Qed.

(* the generic shape of the while loop of polydiv against the fuelled recursion of the model *)
Lemma polydiv_loop_eq (BODY : list (T A) * list (T A) * nat -> res (wout (list (T A) * list (T A) * nat) (list (T A) * list (T A) + pderr)))
      (v : list (T A)) :
  (forall q r count, BODY (q, r, count) =
      if is_zero r || (length r <? length v) then Ok (WDone (q, r, count)) else
      let* qr := polydiv_body true q r v in
      if POLYDIV_MAX <? S count then Ok (WRet (inr EMaxIter)) else Ok (WNext (fst qr, snd qr, S count))) ->
  forall fuel count q r, fuel + count = S POLYDIV_MAX -> 1 <= fuel ->
  (let* o := while_ret fuel BODY (q, r, count) in
   match o with
   | Some (inl (q_, r_, _)) => Ok (inl (q_, r_))
   | Some (inr x) => Ok x
   | None => Ok (inr EMaxIter)
   end) = polydiv_loop true fuel count q r v.
Proof.
  intros HB fuel. induction fuel as [|f IH]; intros count q r Hs Hf; [lia|].
  cbn [while_ret polydiv_loop]. rewrite HB.
  destruct (is_zero r || (length r <? length v)); cbn [bind]; [reflexivity|].
  destruct (polydiv_body true q r v) as [[q' r']|k]; cbn [bind fst snd]; [|reflexivity].
  destruct (Nat.ltb_spec POLYDIV_MAX (S count)) as [L|L]; cbn [bind]; [reflexivity|].
  apply IH; lia.
Qed.

Lemma src_polydiv (u v : list (T A)) : s_polydiv u v = polydiv u v.
Proof.
  unfold s_polydiv, polydiv, polydiv_gen.
  destruct (length v =? 0) eqn:Ev; [reflexivity|]. destruct (is_zero v) eqn:Zv; [reflexivity|].
  cbv zeta. change 1000 with POLYDIV_MAX.
  match goal with |- context [while_ret _ ?B _] => set (BODY := B) end.
  apply (polydiv_loop_eq BODY v); [|lia|lia].
  intros q r count. subst BODY. cbv beta iota.
  destruct v as [|v0 v']; [discriminate|]. rewrite !pdegree_cons.
  destruct (is_zero r) eqn:Zr; cbn [negb orb bind]; [reflexivity|].
  destruct r as [|r0 r']; [discriminate|]. rewrite !pdegree_cons. cbn [bind length].
  replace (S (length r') <? S (length v')) with (negb (length v' <=? length r'))
    by (destruct (Nat.leb_spec (length v') (length r')), (Nat.ltb_spec (S (length r')) (S (length v'))); cbn; lia || reflexivity).
  destruct (Nat.leb_spec (length v') (length r')) as [L|L]; cbn [negb]; [|reflexivity].
  unfold polydiv_body. cbn [length].
  replace (S (length r') - 1) with (length r') by lia. replace (S (length v') - 1) with (length v') by lia.
  rewrite !(usub_ok (length r') (length v')) by lia. cbn [bind]. rewrite ?bind_assoc.
  apply bind_ext; intros rl. rewrite ?bind_assoc. apply bind_ext; intros vl. rewrite ?bind_assoc. apply bind_ext; intros c.
  rewrite upd_repeat_last. cbn [bind]. rewrite ?bind_assoc.
  apply bind_ext; intros l. rewrite ?bind_assoc. apply bind_ext; intros r2. rewrite ?bind_assoc.
  apply bind_ext; intros r3. rewrite ?bind_assoc. apply bind_ext; intros q3.
  cbn [bind fst snd]. rewrite Nat.add_1_r. reflexivity.
Qed.
End X.
