From Coq Require Import List Arith ZArith Lia Bool String.
From OV Require Import Base.Panic Base.Arith Model.Vector Model.Matrix Model.Tridiag gen.SrcPrelude gen.SrcTridiag Proofs.SrcEqBase.
Import ListNotations.
Open Scope string_scope.
Section X. Context {A : Arith}.
Implicit Types (t a b : tridiag A) (v r sb mn sp : list (T A)) (x : T A).
Ltac tt n tac := tryif assert_succeeds (solve [tac]) then idtac "OK" n else idtac "FAIL" n.
Goal forall sb mn sp, s_with_vectors sb mn sp = with_vectors sb mn sp. intros. tt "with_vectors" reflexivity. Abort.
Goal forall sb mn sp, s_with_vectors sb mn sp = with_vectors sb mn sp. intros. unfold s_with_vectors, with_vectors, with_vecs. tt "with_vectors/src_eq" src_eq. Abort.
Goal forall n, @s_tnew A n = tnew n. intros. tt "tnew" reflexivity. Abort.
Goal forall (x y z : T A) n, @s_with_elements A x y z n = with_elements x y z n. intros. tt "with_elements" reflexivity. Abort.
Goal forall t n, s_tresize t n = tresize t n. intros. tt "tresize" reflexivity. Abort.
Goal forall t n, s_tresize t n = tresize t n. intros. unfold s_tresize, tresize, tnew, with_elements.  tt "tresize/src_eq" src_eq. Show. Abort.
Goal forall t, s_ttranspose_in_place t = Ok (ttranspose_in_place t). intros. tt "ttranspose_in_place" reflexivity. Abort.
Goal forall t, s_ttranspose t = Ok (ttranspose t). intros. tt "ttranspose" reflexivity. Abort.
Goal forall t, s_tdet t = tdet t. intros. tt "tdet" reflexivity. Abort.
Goal forall t, s_tdet t = tdet t. intros. unfold s_tdet, tdet. tt "tdet/src_eq" src_eq. Show. Abort.
Goal forall t, s_tconvert t = tconvert t. intros. unfold s_tconvert, tconvert. tt "tconvert/src_eq" src_eq. Show. Abort.
Goal forall t r, s_tsolve t r = tsolve t r. intros. unfold s_tsolve, tsolve, thomas_fwd_body, thomas_back_body. tt "tsolve/src_eq" src_eq. Show. Abort.
Goal forall t i j, s_tindex t (i, j) = tindex t i j. intros. tt "tindex" reflexivity. Abort.
Goal forall t, s_tneg t = Ok (tneg t). intros. tt "tneg" reflexivity. Abort.
Goal forall a b, s_tadd a b = tadd a b. intros. tt "tadd" reflexivity. Abort.
Goal forall a b, s_tminus a b = tminus a b. intros. tt "tminus" reflexivity. Abort.
Goal forall t x, s_tscale t x = Ok (tscale t x). intros. tt "tscale" reflexivity. Abort.
Goal forall t x, s_tscale_l x t = Ok (tscale_l x t). intros. tt "tscale_l" reflexivity. Abort.
Goal forall t x, s_tdiv t x = tdiv t x. intros. tt "tdiv" reflexivity. Abort.
Goal forall t x, s_tadd_assign_s t x = Ok (tadd_assign_s t x). intros. tt "tadd_assign_s" reflexivity. Abort.
Goal forall t x, s_tsub_assign_s t x = Ok (tsub_assign_s t x). intros. tt "tsub_assign_s" reflexivity. Abort.
Goal forall t x, s_tmul_assign_s t x = Ok (tmul_assign_s t x). intros. tt "tmul_assign_s" reflexivity. Abort.
Goal forall t x, s_tdiv_assign_s t x = tdiv_assign_s t x. intros. tt "tdiv_assign_s" reflexivity. Abort.
Goal forall t v, s_tmul t v = tmul t v. intros. unfold s_tmul, tmul, tmul_gen. tt "tmul/src_eq" src_eq. Show. Abort.
End X.
