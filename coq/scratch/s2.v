From Coq Require Import List Arith ZArith Lia Bool.
From OV Require Import Base.Panic Base.Arith Model.Vector Model.Matrix Model.Sparse gen.SrcPrelude gen.SrcSparse Proofs.SrcEqBase.
Import ListNotations.
Section X. Context {A : Arith}.
Implicit Types (s : sparse A) (v b : list (T A)) (n i j : nat).
Goal forall s v, s_sp_tmul s v = sp_tmul s v. intros. unfold s_sp_tmul, sp_tmul, for_cols. src_eq_swap. Show. Abort.
End X.
