From Coq Require Import List Arith ZArith Lia Bool.
From OV Require Import Base.Panic Base.Arith Model.Vector Model.Poly gen.SrcPrelude gen.SrcPoly Proofs.SrcEqBase.
Import ListNotations.
Section X. Context {A : Arith}.

(* trim: the while loop pops trailing zeros; the model strips leading zeros of the reversed list *)
Lemma trim_loop (r : list (T A)) fuel :
  r <> [] -> length r <= fuel ->
  while_ret (R := list (T A)) fuel (fun (s5 : list (T A) * nat) =>
      let '(self_, i_) := s5 in
      let* x2 := rd self_ i_ in
      if (eqb x2 zero && (0 <? i_))%bool
      then (let n3 := removelast self_ in let self_ := n3 in let* i_ := usub i_ 1 in Ok (WNext (self_, i_)))
      else Ok (WDone (self_, i_))) (rev r, length r - 1)
  = Ok (Some (inl (rev (trim_rev r), length (trim_rev r) - 1))).
Proof.
  revert fuel; induction r as [|c t IH]; intros fuel Hne Hf; [congruence|].
  destruct fuel as [|fuel]; [cbn in Hf; lia|]. cbn [while_ret rev length].
  replace (S (length t) - 1) with (length (rev t)) by (rewrite rev_length; lia).
  rewrite rd_app_mid. cbn [bind]. rewrite rev_length.
  destruct t as [|c2 t2].
  - cbn. rewrite andb_false_r. reflexivity.
  - cbn [length]. replace (0 <? S (length t2)) with true by reflexivity. rewrite andb_true_r.
    cbn [trim_rev]. destruct (eqb c zero).
    + cbv zeta. rewrite removelast_last. rewrite usub_ok by lia. cbn [bind].
      replace (S (length t2) - 1) with (length (c2 :: t2) - 1) by reflexivity.
      apply IH; [discriminate|cbn [length] in *; lia].
    + cbn [bind rev length]. reflexivity.
Qed.

Lemma src_ptrim (p : list (T A)) : s_ptrim p = ptrim p.
Proof.
  unfold s_ptrim, ptrim. destruct p as [|a t]; [reflexivity|].
  rewrite usub_ok by (cbn; lia). cbn [bind].
  rewrite <- (rev_involutive (a :: t)) at 2. rewrite <- (rev_length (a :: t)).
  rewrite trim_loop; [reflexivity| |lia].
  intros E. apply (f_equal (@length _)) in E. rewrite rev_length in E. discriminate.
Qed.
End X.
