From Coq Require Import List Arith ZArith Lia Bool String.
From OV Require Import Base.Panic Base.Arith Model.Vector Model.Matrix Model.Solve gen.SrcPrelude gen.SrcVector gen.SrcMatrix gen.SrcSolve.
Open Scope string_scope. Section X. Context {A : Arith}.
Ltac t n := first [ reflexivity; idtac "REFL" n | idtac "NOREFL" n ].
Goal forall (m : matrix A) r, s_get_row m r = get_row m r. intros. t "get_row". Abort.
Goal forall (m : matrix A) r, s_get_col m r = get_col m r. intros. t "get_col". Abort.
Goal forall (m : matrix A) r v, s_set_row m r v = set_row m r v. intros. t "set_row". Abort.
Goal forall (m : matrix A) r v, s_set_col m r v = set_col m r v. intros. t "set_col". Abort.
Goal forall (m : matrix A) r, s_delete_row m r = delete_row m r. intros. t "delete_row". Abort.
Goal forall (m : matrix A) v, s_multiply m v = multiply m v. intros. t "multiply". Abort.
Goal forall n, @s_eye A n = eye n. intros. t "eye". Abort.
Goal forall (m : matrix A) r c, s_resize m r c = resize m r c. intros. t "resize". Abort.
Goal forall (m : matrix A), s_transpose_in_place m = transpose_in_place m. intros. t "transpose_in_place". Abort.
Goal forall (m : matrix A), s_transpose m = transpose m. intros. t "transpose". Abort.
Goal forall (m : matrix A) a b, s_swap_rows m a b = swap_rows m a b. intros. t "swap_rows". Abort.
Goal forall (m : matrix A) a b c d, s_swap_elem m a b c d = swap_elem m a b c d. intros. t "swap_elem". Abort.
Goal forall (m : matrix A) x, s_fill m x = fill m x. intros. t "fill". Abort.
Goal forall (m : matrix A) x, s_fill_diag m x = fill_diag m x. intros. t "fill_diag". Abort.
Goal forall (m : matrix A) o x, s_fill_band m o x = fill_band m o x. intros. t "fill_band". Abort.
Goal forall (m : matrix A) a b c, s_fill_tridiag m a b c = fill_tridiag m a b c. intros. t "fill_tridiag". Abort.
Goal forall (m : matrix A) r x, s_fill_row m r x = fill_row m r x. intros. t "fill_row". Abort.
Goal forall (m : matrix A) r x, s_fill_col m r x = fill_col m r x. intros. t "fill_col". Abort.
Goal forall (m : matrix A) c s, s_max_abs_in_column m c s = max_abs_in_column m c s. intros. t "max_abs_in_column". Abort.
Goal forall (m : matrix A) x, s_backsolve m x = backsolve m x. intros. t "backsolve". Abort.
Goal forall (m : matrix A) x k, s_partial_pivot m x k = partial_pivot m x k. intros. t "partial_pivot". Abort.
Goal forall (m : matrix A) x, s_gauss_with_pivot m x = gauss_with_pivot m x. intros. t "gauss_with_pivot". Abort.
Goal forall (m : matrix A) x, s_solve_basic m x = solve_basic m x. intros. t "solve_basic". Abort.
Goal forall (m : matrix A), s_lu_decomp_in_place m = lu_decomp m. intros. t "lu_decomp". Abort.
Goal forall (m : matrix A) x, s_solve_lu m x = solve_lu m x. intros. t "solve_lu". Abort.
Goal forall (m : matrix A), s_determinant m = determinant m. intros. t "determinant". Abort.
Goal forall (m : matrix A), s_inverse m = inverse m. intros. t "inverse". Abort.
End X.
