From Coq Require Import List Arith ZArith Lia Bool String.
From OV Require Import Base.Panic Base.Arith Model.Vector Model.Matrix Model.Sparse gen.SrcPrelude gen.SrcSparse Proofs.SrcEqBase.
Import ListNotations.
Open Scope string_scope.
Section X. Context {A : Arith}.
Implicit Types (s : sparse A) (v b : list (T A)) (n i j : nat).
Ltac tt n tac := tryif assert_succeeds (solve [tac]) then idtac "OK" n else idtac "FAIL" n.
Goal forall r c (v : list (T A)) (ri cs : list nat), s_sp_from_vecs r c v ri cs = sp_from_vecs r c v ri cs. intros. tt "from_vecs" reflexivity. Abort.
Goal forall s (ci : list nat), s_sp_col_start_from_index s ci = sp_col_start_from_index s ci. intros. tt "csfi" reflexivity. unfold s_sp_col_start_from_index, sp_col_start_from_index. tt "csfi/src_eq" src_eq. Abort.
Goal forall s x, s_sp_scale s x = sp_scale s x. intros. tt "scale" reflexivity. unfold s_sp_scale, sp_scale. src_eq. Show. Abort.
Goal forall s v, s_sp_mul s v = sp_mul s v. intros. tt "mul" reflexivity. unfold s_sp_mul, sp_mul, for_cols. tt "mul/src_eq_swap" src_eq_swap. Abort.
Goal forall s v, s_sp_tmul s v = sp_tmul s v. intros. tt "tmul" reflexivity. unfold s_sp_tmul, sp_tmul, for_cols. tt "tmul/src_eq_swap" src_eq_swap. Abort.
Goal forall s, s_sp_to_triplets s = sp_to_triplets s. intros. tt "to_triplets" reflexivity. unfold s_sp_to_triplets, sp_to_triplets, for_cols. tt "to_triplets/src_eq" src_eq. Abort.
Goal forall s, s_sp_to_dense s = sp_to_dense s. intros. tt "to_dense" reflexivity. unfold s_sp_to_dense, sp_to_dense, for_cols. tt "to_dense/src_eq_swap" src_eq_swap. Abort.
End X.
