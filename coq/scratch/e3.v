From Coq Require Import List Arith ZArith Lia Bool.
From OV Require Import Base.Panic Base.Arith Model.Vector Model.Matrix Model.Sparse gen.SrcPrelude gen.SrcSparse Proofs.SrcEqBase.
Import ListNotations.
Section X. Context {A : Arith}.

(* a search loop that returns from inside (`for k .. { if test { ..; return } }  rest`) against the model's
   find-then-finish formulation (for_find); the state is not changed by the passes that do not return *)
Lemma for_ret_find {S X R} n lo (test : nat -> res (option X)) (fin : X -> res R) (K : S -> res R)
      (body : nat -> S -> res (S + R)) (s0 : S) :
  (forall i, body i s0 = let* o := test i in
                         match o with Some x => let* r := fin x in Ok (inr r) | None => Ok (inl s0) end) ->
  (let* o := for_ret_from n lo body s0 in match o with inl s => K s | inr r => Ok r end)
  = (let* hit := find_from n lo test in match hit with Some x => fin x | None => K s0 end).
Proof.
  intros Hb. revert lo; induction n as [|n IH]; intros lo; cbn [for_ret_from find_from bind]; [reflexivity|].
  rewrite Hb, !bind_assoc. destruct (test lo) as [[x|]|k]; cbn [bind]; [|apply IH|reflexivity].
  destruct (fin x); reflexivity.
Qed.

Lemma src_sp_get (s : sparse A) (row col : nat) : s_sp_get s row col = sp_get s row col.
Proof.
  unfold s_sp_get, sp_get, sp_scan, for_find, for_ret.
  destruct (sp_rows s <=? row); [reflexivity|]. destruct (sp_cols s <=? col); [reflexivity|].
  destruct (length (sp_col_start s) <=? col); [reflexivity|].
  apply bind_ext; intros ci.
  apply (for_ret_find _ _ _ (fun k => let* v := rd (sp_val s) k in Ok (Some v)) (fun _ => Ok None)).
  intros k. destruct (rd (sp_row_index s) k) as [r|]; cbn [bind]; [|reflexivity].
  destruct (r =? row); cbn [bind]; [|reflexivity].
  destruct (rd ci k) as [c|]; cbn [bind]; [|reflexivity].
  destruct (c =? col); cbn [bind]; [|reflexivity].
  destruct (rd (sp_val s) k); reflexivity.
Qed.

Lemma src_sp_insert (s : sparse A) (row col : nat) (x : T A) : s_sp_insert s row col x = sp_insert s row col x.
Proof.
  unfold s_sp_insert, sp_insert, sp_scan, for_find, for_ret.
  destruct (sp_rows s <=? row); [reflexivity|]. destruct (sp_cols s <=? col); [reflexivity|].
  destruct (length (sp_col_start s) <=? col); [reflexivity|].
  apply bind_ext; intros ci.
  apply (for_ret_find _ _ _
           (fun k => let* v := upd (sp_val s) k x in
                     Ok (mkS (sp_rows s) (sp_cols s) (sp_nonzero s) v (sp_row_index s) (sp_col_start s)))
           (fun s' => let* ts := sp_to_triplets s' in sp_from_triplets (sp_rows s') (sp_cols s') (ts ++ [(row, col, x)]))).
  intros k. destruct (rd (sp_row_index s) k) as [r|]; cbn [bind]; [|reflexivity].
  destruct (r =? row); cbn [bind]; [|reflexivity].
  destruct (rd ci k) as [c|]; cbn [bind]; [|reflexivity].
  destruct (c =? col); cbn [bind]; [|reflexivity].
  destruct (upd (sp_val s) k x); reflexivity.
Qed.
End X.
