From Coq Require Import List Arith ZArith Lia Bool String.
From OV Require Import Base.Panic Base.Arith Model.Vector Model.Matrix Model.Banded gen.SrcPrelude gen.SrcBanded Proofs.SrcEqBase.
Import ListNotations.
Open Scope string_scope.
Section X. Context {A : Arith}.
Implicit Types (B C : banded A) (v : list (T A)) (x : T A) (n i j : nat).
Ltac tt n tac := tryif assert_succeeds (solve [tac]) then idtac "OK" n else idtac "FAIL" n.
Goal forall n m1 m2 x, s_band_new n m1 m2 x = Ok (band_new n m1 m2 x). intros. tt "band_new" reflexivity. Abort.
Goal forall B x, s_band_fill B x = band_fill B x. intros. tt "band_fill" reflexivity. Abort.
Goal forall B n m1 m2, s_band_resize B n m1 m2 = band_resize B n m1 m2. intros. tt "band_resize" reflexivity. Abort.
Goal forall B (b : Z) x, s_band_fill_band B b x = band_fill_band B b x. intros. tt "band_fill_band" reflexivity. unfold s_band_fill_band, band_fill_band. src_eq. Show. Abort.
Goal forall B i j, s_band_get B (i, j) = band_get B i j. intros. tt "band_get" reflexivity. unfold s_band_get, band_get, out_of_band, band_slot. tt "band_get/src_eq" src_eq. Abort.
Goal forall B, s_band_neg B = band_neg B. intros. tt "band_neg" reflexivity. Abort.
Goal forall B C, s_band_add B C = band_add B C. intros. tt "band_add" reflexivity. Abort.
Goal forall B C, s_band_sub B C = band_sub B C. intros. tt "band_sub" reflexivity. Abort.
Goal forall B x, s_band_scale B x = band_scale B x. intros. tt "band_scale" reflexivity. Abort.
Goal forall B x, s_band_div B x = band_div B x. intros. tt "band_div" reflexivity. Abort.
Goal forall B C, s_band_add_assign B C = band_add_assign B C. intros. tt "band_add_assign" reflexivity. Abort.
Goal forall B C, s_band_sub_assign B C = band_sub_assign B C. intros. tt "band_sub_assign" reflexivity. Abort.
Goal forall B x, s_band_mul_assign_s B x = band_mul_assign_s B x. intros. tt "band_mul_assign_s" reflexivity. Abort.
Goal forall B x, s_band_div_assign_s B x = band_div_assign_s B x. intros. tt "band_div_assign_s" reflexivity. Abort.
Goal forall B x, s_band_add_assign_s B x = band_add_assign_s B x. intros. tt "band_add_assign_s" reflexivity. Abort.
Goal forall B x, s_band_sub_assign_s B x = band_sub_assign_s B x. intros. tt "band_sub_assign_s" reflexivity. Abort.
Goal forall B, s_band_det B = band_det B. intros. tt "band_det" reflexivity. Abort.
Goal forall B v, s_band_solve B v = band_solve B v. intros. tt "band_solve" reflexivity. unfold s_band_solve, band_solve, band_solve_gen, fwd_step, back_step. src_eq. Show. Abort.
End X.
