From Coq Require Import List Arith ZArith Lia Bool.
From OV Require Import Base.Panic Base.Arith Model.Vector Model.Matrix Model.Solve gen.SrcPrelude gen.SrcSolve Proofs.SrcEqBase.
Section X. Context {A : Arith}.
Lemma src_determinant (m : matrix A) : s_determinant m = determinant m.
Proof.
  unfold s_determinant, determinant, determinant_gen. src_eq. Show.
Abort.
End X.
