From Coq Require Import List Arith ZArith Lia Bool.
From OV Require Import Base.Panic Base.Arith Model.Vector Model.Matrix Model.Sparse gen.SrcPrelude gen.SrcSparse Proofs.SrcEqBase.
Import ListNotations.
Section X. Context {A : Arith}.
Implicit Types (s : sparse A) (v b : list (T A)) (n i j : nat).

(* scale: the source threads the whole record through the loop, the model only the field `val` *)
Lemma src_sp_scale s x : s_sp_scale s x = sp_scale s x.
Proof.
  unfold s_sp_scale, sp_scale.
  match goal with |- ?L = _ => transitivity (bind L Ok); [symmetry; apply bind_ret|] end.
  apply (res_rel_bind (fun self v => self = mkS (sp_rows s) (sp_cols s) (sp_nonzero s) v (sp_row_index s) (sp_col_start s))).
  - apply for_sim; [destruct s; reflexivity|].
    intros i s1 v Hi ->. cbn [sp_rows sp_cols sp_nonzero sp_val sp_row_index sp_col_start].
    destruct (rd v i); cbn; [|reflexivity]. destruct (upd v i _); cbn; reflexivity.
  - intros s1 v ->. reflexivity.
Qed.

Lemma push_const_loop {X} (k : X) n lo (t : list X) :
  for_from n lo (fun _ t => Ok (t ++ [k])) t = Ok (t ++ repeat k n).
Proof.
  revert lo t; induction n as [|n IH]; intros lo t; cbn [for_from repeat bind]; [now rewrite app_nil_r|].
  rewrite IH, <- app_assoc. reflexivity.
Qed.

(* col_index: the source keeps the local vector `gaps` (written and read back at the same index); the model does not *)
Lemma src_sp_col_index s : s_sp_col_index s = sp_col_index s.
Proof.
  unfold s_sp_col_index, sp_col_index.
  destruct (sp_nonzero s =? 0); [reflexivity|].
  destruct (length (sp_col_start s) <? sp_cols s + 1); [reflexivity|].
  apply bind_ext; intros ng. rewrite repeat_length.
  match goal with |- bind ?L _ = ?R => transitivity (bind L (fun r => Ok (fst r))); [apply bind_ext; intros [? ?]; reflexivity|] end.
  match goal with |- _ = ?R => transitivity (bind R Ok); [|apply bind_ret] end.
  apply (res_rel_bind (fun (p : list nat * list nat) (t : list nat) => fst p = t /\ length (snd p) = ng)).
  - apply for_sim; [split; [reflexivity|apply repeat_length]|].
    intros k [t g] t' Hk [E L]. cbn [fst snd] in E, L. subst t'.
    destruct (rd (sp_col_start s) (k + 1)) as [hi|]; cbn [bind res_rel]; [|reflexivity].
    destruct (rd (sp_col_start s) k) as [lo|]; cbn [bind res_rel]; [|reflexivity].
    destruct (usub hi lo) as [gk|]; cbn [bind res_rel]; [|reflexivity].
    rewrite upd_ok by lia. cbn [bind]. rewrite (rd_ok _ _ 0) by (rewrite upd_list_length; lia). cbn [bind].
    rewrite nth_upd_list by lia. rewrite Nat.eqb_refl.
    unfold for_. rewrite Nat.sub_0_r, push_const_loop. cbn [bind res_rel fst snd].
    split; [reflexivity|now rewrite upd_list_length].
  - intros [t g] t' [E _]. cbn [fst] in *. now subst.
Qed.
End X.
