From Coq Require Import List Arith ZArith Lia Bool.
From OV Require Import Base.Panic Base.Arith Model.Vector Model.Matrix Model.Banded gen.SrcPrelude gen.SrcBanded Proofs.SrcEqBase.
Import ListNotations.
Section X. Context {A : Arith}.
Implicit Types (B C : banded A) (v : list (T A)) (n i j : nat).

Lemma for_from_shift {S} n a c (b : nat -> S -> res S) s :
  for_from n a (fun k s => b (c + k) s) s = for_from n (c + a) b s.
Proof.
  revert a s; induction n as [|n IH]; intros a s; cbn [for_from]; [reflexivity|].
  apply bind_ext; intros s'. rewrite IH. f_equal. lia.
Qed.

(* a `for` over a non-negative isize range is the `for` over the corresponding usize range *)
Lemma for_z_nat {S} (lo hi : Z) (body : Z -> S -> res S) s :
  (0 <= lo)%Z ->
  for_z lo hi body s = for_ (Z.to_nat lo) (Z.to_nat hi) (fun j s => body (Z.of_nat j) s) s.
Proof.
  intros H. unfold for_z, for_. rewrite Nat.sub_0_r.
  replace (Z.to_nat hi - Z.to_nat lo) with (Z.to_nat (hi - lo)) by lia.
  transitivity (for_from (Z.to_nat (hi - lo)) 0 (fun k s => (fun j s => body (Z.of_nat j) s) (Z.to_nat lo + k) s) s).
  - apply for_from_ext; intros k s' _. cbv beta. f_equal. lia.
  - rewrite (for_from_shift (Z.to_nat (hi - lo)) 0 (Z.to_nat lo) (fun j s => body (Z.of_nat j) s) s). f_equal. lia.
Qed.

Lemma src_band_mul B v : s_band_mul B v = band_mul B v.
Proof.
  unfold s_band_mul, band_mul. destruct (negb (bn B =? length v)); [reflexivity|].
  apply for_ext; intros i s Hi. cbv zeta.
  rewrite for_z_nat by lia.
  replace (Z.of_nat (bm1 B) + Z.of_nat (bm2 B) + 1)%Z with (Z.of_nat (bm1 B) + Z.of_nat (bm2 B) + 1)%Z by reflexivity.
  apply for_ext; intros j s' Hj.
  rewrite isize_as_usize_nonneg by lia. rewrite Nat2Z.id.
  rewrite isize_as_usize_nonneg by lia. reflexivity.
Qed.
End X.
