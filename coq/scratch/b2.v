From Coq Require Import List Arith ZArith Lia Bool String.
From OV Require Import Base.Panic Base.Arith Model.Vector Model.Matrix Model.Banded gen.SrcPrelude gen.SrcBanded Proofs.SrcEqBase.
Import ListNotations.
Section X. Context {A : Arith}.
Implicit Types (B C : banded A) (v : list (T A)) (n i j : nat).
Goal forall B v, s_band_solve B v = band_solve B v. intros. unfold s_band_solve, band_solve, band_solve_gen, fwd_step, back_step. src_eq; try (src_swap; src_eq). Show. Abort.
End X.
